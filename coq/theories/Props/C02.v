(* Props/C02.v — the property theorems for C02 (parsed columns mean what the format says).
   Only statements, `exact <lemma>` and Print Assumptions live here. *)
From Coq Require Import ZArith List Bool String.
From BNP Require Import Base.Prims Model.C02 Proofs.C02 Gen.C02 Bridge.C02.
Import ListNotations.
Open Scope Z_scope.

(* T1: for every table of records — any number n >= 1 of columns, any field widths (0 included, as unequal as
   you like), LF or CRLF — the delimiter-position table the library builds (flatnonzero of TAB/LF, n from the
   first line, reshape, carriage-return adjustment) has one row per record, and the text between its start
   and end offsets is exactly the field, CR removed. *)
Theorem C02_field_table_correct :
  forall (crlf : bool) (n : Z) (rows : list (list (list Z))),
    1 <= n -> rows <> [] ->
    (forall r, In r rows -> len r = n /\ forall f, In f r -> clean f) ->
    let file := lay (eol_of crlf) (map (intercalate [9]) rows) in
    exists t, delim_table 9 file = Some t /\ t_data t = file /\ table_fields t = rows /\ len (t_starts t) = len rows
              /\ (forall row s, In row (t_starts t) -> In s row -> 0 <= s)
              /\ (forall row e, In row (t_ends t) -> In e row -> e < len file).
Proof. exact field_table_correct. Qed.
Print Assumptions C02_field_table_correct.

(* T2: an integer column.  Wherever the fields lie in the buffer and however unequal their widths, if every
   field is a decimal numeral with optional sign, the library's computation — right-aligned zero-filled digit
   matrix dotted with powers of ten, or (as soon as one field carries a sign) the ragged path with the sign byte
   overwritten — returns the value of every numeral. *)
Theorem C02_int_column_correct :
  forall (data : list Z) (bs : list (Z * Z)),
    (forall se, In se bs -> 0 <= fst se /\ snd se <= len data /\ numeral (text_at data se) = true) ->
    parse_int_col data bs = mapM (fun se => int_of_text (text_at data se)) bs.
Proof. exact int_column_correct. Qed.
Print Assumptions C02_int_column_correct.

(* T1+T2 on a column of a table: if the table denotes the records (T1), column j parsed as integers is the
   column of the values of the numerals in field j (and, for VCF, those values minus one). *)
Theorem C02_int_col_correct :
  forall t rows j, table_ok t rows -> 0 <= j -> (forall r, In r rows -> j < len r) ->
    (forall r, In r rows -> numeral (field r j) = true) ->
    typed_col t j TInt = spec_col rows (j, TInt) /\ typed_col t j TIntM1 = spec_col rows (j, TIntM1).
Proof. exact (fun t rows j a b c d => conj (int_col_correct t rows j a b c d) (intm1_col_correct t rows j a b c d)). Qed.
Print Assumptions C02_int_col_correct.
Theorem C02_str_col_correct :
  forall t rows j, table_ok t rows -> 0 <= j -> (forall r, In r rows -> j < len r) ->
    typed_col t j TStr = spec_col rows (j, TStr).
Proof. exact str_col_correct. Qed.
Print Assumptions C02_str_col_correct.

(* Whole files, through header skipping, table, column extraction and counting: for EVERY well-formed BED3 file
   (any '#' header block, >= 1 records of three TAB-free fields, signed or unsigned numerals of any widths, LF or
   CRLF, some non-empty chromosome name) the model returns one entry per record and exactly the columns the
   format assigns.  So whenever the implementation agrees with the model on such a file (model_ok), it satisfies
   the property on it. *)
Theorem C02_bed3_end_to_end :
  forall (crlf : bool) (hs : list (list Z)) (rows : list (list (list Z))),
    (forall h, In h hs -> hd0 h = 35 /\ ~ In 10 h) ->
    rows <> [] ->
    (forall r, In r rows -> len r = 3 /\ (forall f, In f r -> clean f)
                            /\ numeral (field r 1) = true /\ numeral (field r 2) = true) ->
    hd0 (body_of crlf rows) <> 35 ->
    run Fbed3 None (lay (eol_of crlf) hs ++ body_of crlf rows) = Obs (len rows) (spec_cols Fbed3 None rows) true.
Proof. exact bed3_end_to_end. Qed.
Print Assumptions C02_bed3_end_to_end.
Theorem C02_sizes_end_to_end :
  forall (crlf : bool) (rows : list (list (list Z))),
    rows <> [] ->
    (forall r, In r rows -> len r = 2 /\ (forall f, In f r -> clean f) /\ numeral (field r 1) = true) ->
    hd0 (body_of crlf rows) <> 35 ->
    run Fsizes None (body_of crlf rows) = Obs (len rows) (spec_cols Fsizes None rows) true.
Proof. exact sizes_end_to_end. Qed.
Print Assumptions C02_sizes_end_to_end.

(* Every supported column type on a table that denotes the records: string, identifier, integer, VCF position,
   Optional[int] (repaired wrapper: "." row by row), strand symbol, list of integers (repaired split). *)
Theorem C02_typed_col_correct :
  forall t rows j ty,
    table_ok t rows -> rows <> [] -> 0 <= j -> (forall r, In r rows -> j < len r) ->
    (forall r, In r rows -> wf_field ty (field r j) = true) ->
    typed_col t j ty = spec_col rows (j, ty).
Proof. exact typed_col_correct. Qed.
Print Assumptions C02_typed_col_correct.

(* The repaired list split (notes/C02.fix-2.diff, committed in /repo): whatever byte follows each field, a column of
   list texts is parsed row by row into the items between commas — empty lists and trailing commas included. *)
Theorem C02_intlist_fixed_correct :
  forall (A : Type) (parser : list Z -> option A) (fields : list (list Z)) (after : list Z -> Z),
    (forall f, In f fields -> forall it, In it (list_items f) -> it <> []) ->
    parse_split_fixed parser (map (fun f => f ++ [after f]) fields) = mapM (fun f => mapM parser (list_items f)) fields.
Proof. exact @intlist_fixed_correct. Qed.
Print Assumptions C02_intlist_fixed_correct.

(* Whole files of EVERY float-free TAB-delimited format read through delim_table — BED3, BED6 (strand, optional
   score), BED12 (list columns), chrom.sizes, pairs, GFA S-lines, GTF, VCF fixed columns (POS - 1) with INFO kept
   as text: any '#' header block, >= 1 records of n clean fields, every schema column well-formed for its type,
   LF or CRLF => one entry per record and exactly the columns the format assigns. *)
Theorem C02_delimited_end_to_end :
  forall (f : format) (crlf : bool) (hs : list (list Z)) (rows : list (list (list Z))) (n : Z),
    delim_format f = true ->
    (forall h, In h hs -> hd0 h = 35 /\ ~ In 10 h) ->
    rows <> [] -> 1 <= n ->
    (forall r, In r rows -> len r = n /\ forall x, In x r -> clean x) ->
    (forall jt, In jt (all_cols f) -> col_wf rows n jt) ->
    hd0 (body_of crlf rows) <> 35 ->
    (eager_format f = true -> existsb is_err (spec_cols f None rows) = false) ->
    run f None (lay (eol_of crlf) hs ++ body_of crlf rows) = Obs (len rows) (spec_cols f None rows) true.
Proof. exact delimited_end_to_end. Qed.
Print Assumptions C02_delimited_end_to_end.
(* Column by column, for the formats that also carry float columns (bedGraph, narrowPeak): the count is right and
   every well-formed non-float column (chromosome, start, stop, name, score, strand, summit) is what the format assigns. *)
Theorem C02_delimited_columns :
  forall (f : format) (crlf : bool) (hs : list (list Z)) (rows : list (list (list Z))) (n : Z),
    delim_format f = true -> eager_format f = false ->
    (forall h, In h hs -> hd0 h = 35 /\ ~ In 10 h) ->
    rows <> [] -> 1 <= n ->
    (forall r, In r rows -> len r = n /\ forall x, In x r -> clean x) ->
    hd0 (body_of crlf rows) <> 35 ->
    exists t, run f None (lay (eol_of crlf) hs ++ body_of crlf rows) = Obs (len rows) (run_cols f None t) true
              /\ forall jt, col_wf rows n jt -> typed_col t (fst jt) (snd jt) = spec_col rows jt.
Proof. exact delimited_columns. Qed.
Print Assumptions C02_delimited_columns.

(* T5: records that are groups of n lines.  For every such file (any line lengths, LF or CRLF) the table has one row
   per record and field k of entry i is line n*i + k, without the marker byte of the first line and without CR. *)
Theorem C02_oneline_table_correct :
  forall (n : Z) (marker : Z) (plus crlf : bool) (trows : list (list tcell)),
    1 <= n -> trows <> [] ->
    (forall r, In r trows -> len r = n /\ trow_ok marker (suf_of crlf) r
                             /\ (forall c, In c r -> line_clean (ta c) /\ line_clean (tbody c))) ->
    (plus = true -> forall r, In r trows -> exists c, nth_error r 2 = Some c /\ hd0 (tbody c ++ [10]) = 43 /\ ta c = []) ->
    let file := flatten (map raw (List.concat trows)) in
    exists t, oneline_table n marker plus file = Some t /\ t_data t = file
              /\ table_fields t = map (map tbody) trows /\ len (t_starts t) = len trows
              /\ (forall row s, In row (t_starts t) -> In s row -> 0 <= s)
              /\ (forall row e, In row (t_ends t) -> In e row -> e < len file).
Proof. exact oneline_table_correct. Qed.
Print Assumptions C02_oneline_table_correct.
(* FASTQ and two-line FASTA, whole files: name without marker, sequence by symbol, qualities = byte - 33. *)
Theorem C02_fastq_end_to_end :
  forall (crlf : bool) (recs : list (list (list Z))),
    recs <> [] -> (forall r, In r recs -> len r = 4 /\ rec_clean r) ->
    run Ffastq None (lay (eol_of crlf) (body_lines Ffastq 0 recs [])) = Obs (len recs) (spec_cols Ffastq None recs) true.
Proof. exact fastq_end_to_end. Qed.
Print Assumptions C02_fastq_end_to_end.
Theorem C02_fasta2_end_to_end :
  forall (crlf : bool) (recs : list (list (list Z))),
    recs <> [] -> (forall r, In r recs -> len r = 2 /\ rec_clean r) ->
    run Ffasta2 None (lay (eol_of crlf) (body_lines Ffasta2 0 recs [])) = Obs (len recs) (spec_cols Ffasta2 None recs) true.
Proof. exact fasta2_end_to_end. Qed.
Print Assumptions C02_fasta2_end_to_end.

(* Round 6 — wrapped (multi-line) FASTA, MultiLineFastaBuffer (from_raw_buffer + get_data), files of any size.
   A record is '>' name, then ANY list of sequence lines: no line at all (empty sequence), empty lines, lines of unequal
   lengths, width 1, last line shorter or as long as the others.  Lines hold no LF / CR, a sequence line does not start with
   '>'.  LF or CRLF (final line break present).  Then the line-end table, the scan for '>' after a line break (with the
   marker the reader appends), the cut, line starts / ends, the CR adjustment decided from the first 10 line ends, the
   header-line indices, lines per entry, the mask of sequence lines and their gluing give exactly: one row per record, name
   = the header line without '>', sequence = the concatenation of the record's lines. *)
Theorem C02_fasta_lines_end_to_end :
  forall (crlf : bool) (recs : list fa_rec),
    recs <> [] ->
    (forall r, In r recs -> line_clean (fst r) /\ forall l, In l (snd r) -> line_clean l /\ hd0 l <> 62) ->
    run Ffasta None (lay (eol_of crlf) (all_lines recs))
    = Obs (len recs) [Col (map (fun r => CBytes (fst r)) recs); Col (map (fun r => CBytes (List.concat (snd r))) recs)] true.
Proof. exact fasta_lines_end_to_end. Qed.
Print Assumptions C02_fasta_lines_end_to_end.
(* the Spec's layout (every sequence wrapped at one width w >= 1): the parsed table is the Spec's table *)
Theorem C02_fasta_wrapped_end_to_end :
  forall (crlf : bool) (w : Z) (recs : list (list (list Z))),
    1 <= w -> recs <> [] ->
    (forall r, In r recs -> line_clean (field r 0) /\ line_clean (field r 1) /\ ~ In 62 (field r 1)) ->
    run Ffasta None (lay (eol_of crlf) (body_lines Ffasta w recs [])) = Obs (len recs) (spec_cols Ffasta None recs) true.
Proof. exact fasta_wrapped_end_to_end. Qed.
Print Assumptions C02_fasta_wrapped_end_to_end.
(* ... and for EVERY layout the Spec produces (Corr.file_ok compares exactly this with the bytes given to the library): LF or
   CRLF, with or without the final line break — in a CRLF file without it the reader appends a bare LF, so the last line has
   no CR while the CR rule has fired on the first line; the per-line adjustment leaves that line whole. *)
Theorem C02_fasta_spec_file_end_to_end :
  forall (crlf final : bool) (w : Z) (recs : list (list (list Z))),
    1 <= w -> recs <> [] ->
    (forall r, In r recs -> line_clean (field r 0) /\ line_clean (field r 1) /\ ~ In 62 (field r 1)) ->
    run Ffasta None (spec_file Ffasta w crlf final [] recs []) = Obs (len recs) (spec_cols Ffasta None recs) true.
Proof. exact fasta_spec_file_end_to_end. Qed.
Print Assumptions C02_fasta_spec_file_end_to_end.
(* the offset arithmetic those two theorems are about is the arithmetic of multiline_buffer.py (regenerated on every run) *)
Theorem C02_fasta_source_tie :
  (forall p, gen_fa_marker = 62 /\ gen_fa_next p = m_fa_next p /\ gen_fa_cut p = m_fa_cut p)
  /\ (forall p size, gen_fa_line_start p = m_fa_line_start p /\ gen_fa_last_end size = m_fa_last_end size
                      /\ gen_fa_entry_line p = m_fa_entry_line p)
  /\ (forall e c, gen_fa_cr_window = m_fa_cr_window /\ gen_fa_cr_probe e = m_cr_probe e /\ gen_fa_cr_elem_probe e = m_cr_probe e
                   /\ gen_fa_cr_byte = m_cr_byte /\ gen_fa_cr_adjust e c = m_cr_adjust e c)
  /\ (forall d nl, gen_fa_n_lines d = m_fa_n_lines d /\ gen_fa_total nl = m_fa_total nl /\ gen_fa_name_from = m_fa_name_from).
Proof. exact (conj b_fa_scan (conj b_fa_lines (conj b_fa_cr b_fa_counts))). Qed.
Print Assumptions C02_fasta_source_tie.

(* Round 6 — GFF3 / wig: comment lines in the middle of the file (DelimitedBufferWithInernalComments, the repaired code).
   A file is a list of groups (comment lines before the record, the record's fields) plus trailing comment lines `tr`;
   comment_ok c : c starts with '#' and holds no LF / CR — TABs allowed, any number of consecutive comments, a bare "#";
   row_ok r   : r has fields without TAB / LF / CR and its line does not start with '#'.  The first group has no comments
   (a leading '#' block is the header the reader skips: theorems below take it as `hs`).  LF or CRLF.
   Then: the delimiter scan that ignores TABs inside comment lines, the np.delete of the line break before every comment line
   from the start delimiters and of the line break closing it from the end delimiters, the column count from the first line
   break, reshape and CR adjustment give a table with one row per RECORD whose texts are exactly the records' fields. *)
Theorem C02_ic_table_correct :
  forall (f : format) (crlf : bool) (n : Z) (gs : list group) (tr : list (list Z)),
    ic_format f = true ->
    1 <= n -> gs <> [] -> groups_ok gs tr -> (forall g, In g gs -> len (snd g) = n) -> fst (hd ([], []) gs) = [] ->
    let rows := map snd gs in
    let file := lay (eol_of crlf) (body_lines f 0 rows (map fst gs ++ [tr])) in
    exists t, ic_table file = Some t /\ t_data t = file /\ table_fields t = rows /\ len (t_starts t) = len rows
              /\ (forall row s, In row (t_starts t) -> In s row -> 0 <= s)
              /\ (forall row e, In row (t_ends t) -> In e row -> e < len file).
Proof. exact ic_table_correct_lay. Qed.
Print Assumptions C02_ic_table_correct.
(* ... and that is the table DelimitedBuffer builds from the file with the comment lines removed *)
Theorem C02_ic_table_same_as_stripped :
  forall (crlf : bool) (n : Z) (gs : list group) (tr : list (list Z)),
    1 <= n -> gs <> [] -> groups_ok gs tr -> (forall g, In g gs -> len (snd g) = n) -> fst (hd ([], []) gs) = [] ->
    let rows := map snd gs in
    exists t t', ic_table (lay (eol_of crlf) (body_lines Fgff 0 rows (map fst gs ++ [tr]))) = Some t
                 /\ delim_table 9 (lay (eol_of crlf) (map (intercalate [9]) rows)) = Some t'
                 /\ table_fields t = table_fields t' /\ table_fields t' = rows /\ len (t_starts t) = len (t_starts t').
Proof. exact ic_table_same_as_stripped. Qed.
Print Assumptions C02_ic_table_same_as_stripped.
(* whole GFF3 / wig files (header block hs, then records with interleaved comments): one entry per record, and every
   supported well-formed column is the Spec's column of the records alone (wig: all but the float column) *)
Theorem C02_ic_columns :
  forall (f : format) (crlf : bool) (hs : list (list Z)) (gs : list group) (tr : list (list Z)) (n : Z),
    ic_format f = true ->
    (forall h, In h hs -> hd0 h = 35 /\ ~ In 10 h) ->
    gs <> [] -> 1 <= n -> groups_ok gs tr -> (forall g, In g gs -> len (snd g) = n) -> fst (hd ([], []) gs) = [] ->
    let rows := map snd gs in
    let file := lay (eol_of crlf) hs ++ lay (eol_of crlf) (body_lines f 0 rows (map fst gs ++ [tr])) in
    exists t, run f None file = (let cols := run_cols f None t in
                                 if eager_format f && existsb is_err cols then ObsErr else Obs (len rows) cols true)
              /\ forall jt, col_wf rows n jt -> typed_col t (fst jt) (snd jt) = spec_col rows jt.
Proof. exact ic_columns_run. Qed.
Print Assumptions C02_ic_columns.
(* GFF3 end to end: the parsed table is the Spec's table of the records; comment lines never become entries *)
Theorem C02_gff_end_to_end :
  forall (crlf : bool) (hs : list (list Z)) (gs : list group) (tr : list (list Z)),
    (forall h, In h hs -> hd0 h = 35 /\ ~ In 10 h) ->
    gs <> [] -> groups_ok gs tr -> (forall g, In g gs -> len (snd g) = 9) -> fst (hd ([], []) gs) = [] ->
    let rows := map snd gs in
    (forall jt, In jt (schema Fgff) -> col_wf rows 9 jt) ->
    existsb is_err (spec_cols Fgff None rows) = false ->
    run Fgff None (lay (eol_of crlf) hs ++ lay (eol_of crlf) (body_lines Fgff 0 rows (map fst gs ++ [tr])))
    = Obs (len rows) (spec_cols Fgff None rows) true.
Proof. exact gff_end_to_end. Qed.
Print Assumptions C02_gff_end_to_end.
(* the index arithmetic of those theorems is the arithmetic of delimited_buffers.py (regenerated on every run) *)
Theorem C02_ic_source_tie :
  forall d k i, gen_ic_probe d = m_ic_probe d /\ gen_ic_end_del k = m_ic_end_del k /\ gen_ic_sentinel = m_ic_sentinel
                /\ gen_ic_start d = m_ic_start d /\ gen_ic_n_fields i = m_ic_n_fields i /\ gen_ic_cr_adjusts = ic_cr_adjusts.
Proof. exact b_ic. Qed.
Print Assumptions C02_ic_source_tie.

(* SAM, LF or CRLF (CRLF since /repo 6bbd290).  The ragged table (records with different numbers of TAB-separated fields)
   denotes the eleven mandatory fields of every record (CR removed from the last one), record ends are taken before the
   CR adjustment, and the rest-of-line arithmetic yields the optional tags as written, without CR (empty when absent). *)
Theorem C02_sam_table_correct :
  forall (crlf : bool) (rows : list (list (list Z))),
    rows <> [] ->
    (forall r, In r rows -> (11 <= List.length r)%nat /\ forall f, In f r -> clean f) ->
    let file := lay (eol_of crlf) (map (intercalate [9]) rows) in
    exists t E, sam_table file = Some t /\ t_data t = file
              /\ table_ok t (map (firstn 11) rows) /\ len (t_starts t) = len rows
              /\ t_ends t = map (firstn 11) (map (adj crlf) E) /\ t_eends t = map (fun r => m_entry_end (lastz r)) E
              /\ List.length (t_starts t) = List.length E
              /\ map (fun d => rest_of file (adj crlf d) d) E = map (fun r => intercalate [9] (skipn 11 r)) rows.
Proof. exact sam_table_correct. Qed.
Print Assumptions C02_sam_table_correct.
(* SAM, whole files, LF or CRLF: '@' header lines never become entries; name, flag, reference, position (as written), mapq,
   cigar, mate fields, template length (signed), sequence and quality texts, and the tags as one text column. *)
Theorem C02_sam_end_to_end :
  forall (crlf : bool) (hs : list (list Z)) (rows : list (list (list Z))),
    (forall h, In h hs -> hd0 h = 64 /\ ~ In 10 h) ->
    rows <> [] ->
    (forall r, In r rows -> (11 <= List.length r)%nat /\ forall f, In f r -> clean f) ->
    (forall jt, In jt (schema Fsam) -> snd jt <> TRest -> col_wf rows 11 jt) ->
    hd0 (body_of crlf rows) <> 64 ->
    run Fsam None (lay (eol_of crlf) hs ++ body_of crlf rows) = Obs (len rows) (spec_cols Fsam None rows) true.
Proof. exact sam_end_to_end. Qed.
Print Assumptions C02_sam_end_to_end.

(* T6: typed INFO lookup.  A column of INFO texts, each a list of items followed by its delimiter (';' inside the
   text, the byte after the field at its end).  If the key and '=' never equal a delimiter and no row holds the key
   twice, the lookup returns, row by row, the text after "key=" of the item that starts with "key=", and the empty
   text where there is none — whatever other keys the row holds (longer, shorter, sharing a prefix or suffix). *)
Theorem C02_info_lookup_correct :
  forall (key : list Z) (crows : list (list fcell)),
    (forall c, In c crows -> crow_ok c /\ forall p, In p c -> forall z, In z (key ++ [61]) -> z <> snd p) ->
    (forall c, In c crows -> len (filter (has_prefix key) (map fst c)) <= 1) ->
    let rows := map flatten crows in
    info_texts false (List.concat rows) key (item_table 0 rows) = Some (map (found key) crows).
Proof. exact info_lookup_correct. Qed.
Print Assumptions C02_info_lookup_correct.
Theorem C02_info_string_col_correct :
  forall (key : list Z) (lst : bool) (crows : list (list fcell)),
    (forall c, In c crows -> crow_ok c /\ forall p, In p c -> forall z, In z (key ++ [61]) -> z <> snd p) ->
    (forall c, In c crows -> len (filter (has_prefix key) (map fst c)) <= 1) ->
    let rows := map flatten crows in
    info_col (List.concat rows) (item_table 0 rows) (key, IString, lst) = Col (map (fun c => CBytes (found key c)) crows).
Proof. exact info_string_col_correct. Qed.
Print Assumptions C02_info_string_col_correct.
Theorem C02_info_int_col_correct :
  forall (key : list Z) (crows : list (list fcell)),
    (forall c, In c crows -> crow_ok c /\ forall p, In p c -> forall z, In z (key ++ [61]) -> z <> snd p) ->
    (forall c, In c crows -> len (filter (has_prefix key) (map fst c)) <= 1) ->
    (forall c, In c crows -> found key c = [] \/ found key c = [46] \/ numeral (found key c) = true) ->
    let rows := map flatten crows in
    info_col (List.concat rows) (item_table 0 rows) (key, IInteger, false)
    = match mapM (fun c => if (len (found key c) =? 0) || zlist_eqb (found key c) [46] then Some 0 else int_of_text (found key c)) crows with
      | Some l => Col (map CInt l) | None => ColErr end.
Proof. exact info_int_col_correct. Qed.
Print Assumptions C02_info_int_col_correct.
(* Flag keys: reported for a record iff one of its ';'-separated items IS the key — not when the key is only a prefix,
   suffix or infix of an item (G5 / G5A, PM / PMC), nor when it occurs as "key=value" (DB next to DBID=...) *)
Theorem C02_info_flag_correct :
  forall (key : list Z) (crows : list (list fcell)),
    (forall c, In c crows -> crow_ok c) ->
    let rows := map flatten crows in
    has_flag (List.concat rows) key (item_table 0 rows) = map (fun c => existsb (zlist_eqb key) (map fst c)) crows.
Proof. exact info_flag_correct. Qed.
Print Assumptions C02_info_flag_correct.
Theorem C02_info_flag_col_correct :
  forall (key : list Z) (lst : bool) (crows : list (list fcell)),
    (forall c, In c crows -> crow_ok c) ->
    let rows := map flatten crows in
    info_col (List.concat rows) (item_table 0 rows) (key, IFlag, lst)
    = Col (map (fun c => CBool (existsb (zlist_eqb key) (map fst c))) crows).
Proof. exact info_flag_col_correct. Qed.
Print Assumptions C02_info_flag_col_correct.
Theorem C02_info_flag_spec :
  forall (key : list Z) (lst : bool) (items : list (list Z)) (d : Z),
    items <> [] -> (forall it, In it items -> ~ In 59 it) -> key <> [46] ->
    spec_info_cell (key, IFlag, lst) (intercalate [59] items)
    = Some (CBool (existsb (zlist_eqb key) (map fst (info_cells items d)))).
Proof. exact info_flag_spec. Qed.
Print Assumptions C02_info_flag_spec.
(* ... and that text is what the specification reads off the INFO text (items split on ';', "." = no item) *)
Theorem C02_info_string_spec :
  forall (key : list Z) (lst : bool) (items : list (list Z)) (d : Z),
    items <> [] -> (forall it, In it items -> ~ In 59 it) ->
    spec_info_cell (key, IString, lst) (intercalate [59] items) = Some (CBytes (found key (info_cells items d))).
Proof. exact info_string_spec. Qed.
Print Assumptions C02_info_string_spec.

(* Round 6 — list-valued INFO keys (Number=A / R / G / '.'): the lookup runs with keep_sep=True (the value comes with the byte
   after its item), the repaired _parse_split_fields drops that byte, splits on ',' and parses the items.  For every column of
   well-formed INFO rows (same hypotheses as C02_info_lookup_correct) and ANY item parser: row by row the result is the list of
   the parsed items of the key's value — as many as the value has, none for rows without the key, whatever keys surround it. *)
Theorem C02_info_list_lookup_correct :
  forall {A} (parser : list Z -> option A) (key : list Z) (crows : list (list fcell)),
    (forall c, In c crows -> crow_ok c /\ forall p, In p c -> forall z, In z (key ++ [61]) -> z <> snd p) ->
    (forall c, In c crows -> len (filter (has_prefix key) (map fst c)) <= 1) ->
    (forall c, In c crows -> forall it, In it (list_items (found key c)) -> it <> []) ->
    let rows := map flatten crows in
    opt_bind (info_texts true (List.concat rows) key (item_table 0 rows)) (parse_split_cur parser)
    = mapM (fun c => mapM parser (list_items (found key c))) crows.
Proof. exact @info_list_lookup_correct. Qed.
Print Assumptions C02_info_list_lookup_correct.
(* Integer lists: element by element the value of the numeral *)
Theorem C02_info_intlist_col_correct :
  forall (key : list Z) (crows : list (list fcell)),
    (forall c, In c crows -> crow_ok c /\ forall p, In p c -> forall z, In z (key ++ [61]) -> z <> snd p) ->
    (forall c, In c crows -> len (filter (has_prefix key) (map fst c)) <= 1) ->
    (forall c, In c crows -> forall it, In it (list_items (found key c)) -> numeral it = true) ->
    let rows := map flatten crows in
    info_col (List.concat rows) (item_table 0 rows) (key, IInteger, true)
    = match mapM (fun c => mapM int_of_text (list_items (found key c))) crows with Some l => Col (map CInts l) | None => ColErr end.
Proof. exact info_intlist_col_correct. Qed.
Print Assumptions C02_info_intlist_col_correct.
(* Float lists: which items belong to which row and how many is right; each item goes through the model's decimal reader
   (the float VALUES stay correspondence-checked) *)
Theorem C02_info_floatlist_col_correct :
  forall (key : list Z) (crows : list (list fcell)),
    (forall c, In c crows -> crow_ok c /\ forall p, In p c -> forall z, In z (key ++ [61]) -> z <> snd p) ->
    (forall c, In c crows -> len (filter (has_prefix key) (map fst c)) <= 1) ->
    (forall c, In c crows -> forall it, In it (list_items (found key c)) -> it <> []) ->
    let rows := map flatten crows in
    info_col (List.concat rows) (item_table 0 rows) (key, IFloat, true)
    = match mapM (fun c => mapM str_to_float1 (list_items (found key c))) crows with Some l => Col (map CRats l) | None => ColErr end.
Proof. exact info_floatlist_col_correct. Qed.
Print Assumptions C02_info_floatlist_col_correct.
(* and the Integer-list cell is what the specification reads off the INFO text *)
Theorem C02_info_intlist_spec :
  forall (key : list Z) (items : list (list Z)) (d : Z),
    items <> [] -> (forall it, In it items -> ~ In 59 it) ->
    spec_info_cell (key, IInteger, true) (intercalate [59] items)
    = option_map CInts (mapM int_of_text (list_items (found key (info_cells items d)))).
Proof. exact info_intlist_spec. Qed.
Print Assumptions C02_info_intlist_spec.

(* Round 6 — genotype code matrices (VCFGenotypeBuffer, PhasedVCFMatrixBuffer, PhasedHaplotypeVCFMatrixBuffer).  The library
   encodes the three bytes found at the START offset of every sample cell.  On any table whose start and end rows have the same
   shape, for every sample cell with at least three bytes those are the first three bytes of the cell's own text, so the matrix
   is the encodings' code of each cell's GT, row by row and sample by sample. *)
Theorem C02_geno_col_correct :
  forall (f : format) (t : table) (rows : list (list (list Z))),
    table_ok t rows -> map (@List.length Z) (t_starts t) = map (@List.length Z) (t_ends t) ->
    (forall r, In r rows -> forall smp, In smp (skipn 9 r) -> 3 <= len smp) ->
    geno_col f t = spec_geno_col f rows.
Proof. exact geno_col_correct. Qed.
Print Assumptions C02_geno_col_correct.
(* the shape hypothesis holds for every table DelimitedBuffer builds (whatever the chunk) *)
Theorem C02_delim_table_shape :
  forall (sep : Z) (chunk : list Z) (t : table),
    delim_table sep chunk = Some t -> map (@List.length Z) (t_starts t) = map (@List.length Z) (t_ends t).
Proof. exact delim_table_shape. Qed.
Print Assumptions C02_delim_table_shape.
(* whole VCF files with a genotype matrix and undeclared INFO: fixed columns (POS-1), INFO text, and the code matrix *)
Theorem C02_vcf_geno_end_to_end :
  forall (f : format) (crlf : bool) (hs : list (list Z)) (rows : list (list (list Z))) (n : Z),
    geno_format f = true ->
    (forall h, In h hs -> hd0 h = 35 /\ ~ In 10 h) ->
    rows <> [] -> 1 <= n ->
    (forall r, In r rows -> len r = n /\ forall x, In x r -> clean x) ->
    (forall jt, In jt (all_cols Fvcf) -> col_wf rows n jt) ->
    (forall r, In r rows -> forall smp, In smp (skipn 9 r) -> 3 <= len smp) ->
    hd0 (body_of crlf rows) <> 35 ->
    run f None (lay (eol_of crlf) hs ++ body_of crlf rows) = Obs (len rows) (spec_cols f None rows) true.
Proof. exact vcf_geno_end_to_end. Qed.
Print Assumptions C02_vcf_geno_end_to_end.

(* Genotype string matrix (VCFBuffer2 and every buffer built on _extract_genotypes): a sample cell's value is the text
   before ITS OWN first ':' (the GT sub-field) — whatever the width of the widest cell of the file (the window through
   which every cell is read) and whatever follows the cell in the buffer; hence a cell's value depends on its own bytes only. *)
Theorem C02_padded_cell_correct :
  forall (data : list Z) (mx s e : Z),
    0 <= s -> s < e -> e <= len data -> e - s <= mx ->
    let cell := slice s e data in
    hd0 cell <> 58 -> (forall c, In c cell -> c <> 0) ->
    padded_cell data mx (s, e) = gt_subfield cell.
Proof. exact padded_cell_correct. Qed.
Print Assumptions C02_padded_cell_correct.
Theorem C02_padded_cell_local :
  forall data mx s e data' mx' s' e',
    0 <= s -> s < e -> e <= len data -> e - s <= mx ->
    0 <= s' -> s' < e' -> e' <= len data' -> e' - s' <= mx' ->
    slice s e data = slice s' e' data' ->
    hd0 (slice s e data) <> 58 -> (forall c, In c (slice s e data) -> c <> 0) ->
    padded_cell data mx (s, e) = padded_cell data' mx' (s', e').
Proof. exact padded_cell_local. Qed.
Print Assumptions C02_padded_cell_local.

(* T3: header and comment lines at the top of the file never reach the parser: whatever the lines are (as long
   as each starts with the format's comment byte), reading resumes exactly at the first record. *)
Theorem C02_skip_header_correct :
  forall (c : Z) (crlf : bool) (hs : list (list Z)) (body : list Z),
    c <> 0 -> (forall h, In h hs -> hd0 h = c /\ ~ In 10 h) -> hd0 body <> c ->
    skip_header c (lay (eol_of crlf) hs ++ body) = body.
Proof. exact skip_header_correct. Qed.
Print Assumptions C02_skip_header_correct.

(* T4: VCF positions are the text minus one; no other format shifts any column. *)
Theorem C02_vcf_position_shift :
  forall t j, typed_col t j TIntM1 = match typed_col t j TInt with
                                     | Col c => Col (map (fun x => match x with CInt v => CInt (v - 1) | y => y end) c)
                                     | ColErr => ColErr end.
Proof. exact vcf_position_shift. Qed.
Print Assumptions C02_vcf_position_shift.
Theorem C02_position_shift_only_vcf :
  forall f j, In (j, TIntM1) (schema f) -> j = 1 /\ (f = Fvcf \/ f = Fvcfgt \/ f = Fvcfph \/ f = Fvcfhap \/ f = Fvcf2).
Proof. exact position_shift_only_vcf. Qed.
Print Assumptions C02_position_shift_only_vcf.

(* Optional[int] (BED score, scalar Integer INFO key).  The full statement — "." is missing, anything else is
   its numeral — is false of the code at /repo HEAD (witness: the column ".", "5"); it holds when no row is
   the placeholder, or every row is; it holds without guard for the repaired wrapper (notes/C02.fix-1.diff). *)
Theorem C02_optint_refuted :
  exists txts, (forall t, In t txts -> t = [46] \/ numeral t = true)
               /\ parse_with_missing 0 str_to_int_auto txts <> mapM optint_value txts.
Proof. exact optint_refuted. Qed.
Print Assumptions C02_optint_refuted.
Theorem C02_optint_partial :
  forall txts, (forall t, In t txts -> numeral t = true) ->
               parse_with_missing 0 str_to_int_auto txts = mapM int_of_text txts.
Proof. exact optint_partial. Qed.
Print Assumptions C02_optint_partial.
Theorem C02_optint_all_missing :
  forall txts, (forall t, In t txts -> t = [46]) ->
               parse_with_missing 0 str_to_int_auto txts = Some (map (fun _ => 0) txts).
Proof. exact optint_all_missing. Qed.
Print Assumptions C02_optint_all_missing.
Theorem C02_optint_fixed_correct :
  forall txts, (forall t, In t txts -> t = [46] \/ numeral t = true) ->
               parse_with_missing_fixed 0 str_to_int_auto txts = mapM optint_value txts.
Proof. exact optint_fixed_correct. Qed.
Print Assumptions C02_optint_fixed_correct.

(* List columns: the code at /repo HEAD attributes values to the wrong records when the list texts end with the
   comma the BED format allows (witness "10,20," / "10," -> [[10;20;10];[]] instead of [[10;20];[10]]). *)
Theorem C02_intlist_refuted :
  exists fields : list (list Z),
    mapM (fun f => mapM int_of_text (list_items f)) fields = Some [[10; 20]; [10]]
    /\ parse_split str_to_int_auto (map (fun f => f ++ [9]) fields) = Some [[10; 20; 10]; []].
Proof. exact intlist_refuted. Qed.
Print Assumptions C02_intlist_refuted.

(* Identifier (SequenceID) columns are the field texts — since /repo 58b75b9 also when every text is empty; the code before
   that repair (sid_col_pinned) raised on such a column. *)
Theorem C02_sid_correct : forall txts, sid_col txts = Col (map CBytes txts).
Proof. exact sid_correct. Qed.
Print Assumptions C02_sid_correct.
Theorem C02_sid_all_empty_refuted : exists txts, txts <> [] /\ sid_col_pinned txts <> Col (map CBytes txts).
Proof. exact sid_all_empty_refuted. Qed.
Print Assumptions C02_sid_all_empty_refuted.

(* Typed INFO lookup fails on a one-record VCF whose INFO is "." (declared scalar Integer key AC): the model
   of has_field_mask returns the error the code raises, the format says "missing". *)
Theorem C02_info_short_refuted :
  let rows := [[46; 10]] in
  all_ignored (List.concat rows) [65; 67] (item_table 0 rows) = true   (* the pinned has_field_mask then raised IndexError *)
  /\ spec_info_cell ([65; 67], IInteger, false) [46] = Some (CInt 0).
Proof. exact info_short_refuted. Qed.
Print Assumptions C02_info_short_refuted.
(* with the repair committed in /repo (fix: INFO key lookup no longer raises IndexError ...) the model returns "missing" *)
Example C02_info_short_fixed :
  let rows := [[46; 10]] in
  info_col (List.concat rows) (item_table 0 rows) ([65; 67], IInteger, false) = Col [CInt 0].
Proof. vm_compute. reflexivity. Qed.

(* Source tie: the index / offset arithmetic regenerated from /repo on this run (Gen/C02.v, written by
   translate/run.py from delimited_buffers.py, file_buffers.py, vcf_buffers.py, buffers/sam.py and
   named_text_buffer.py) is the arithmetic of the model the theorems above are about: number of columns, buffer
   size and sentinel, field start / end from the neighbouring delimiters, record ends taken before the CR
   adjustment, the CR probe and per-row adjustment, the digit-matrix window and fill count, field length / column
   selection / keep_sep, the VCF position shift and its column, the SAM rest-of-line field, and the INFO key-length
   arithmetic with its end-of-buffer guard. *)
Theorem C02_source_tie :
  (forall e d, gen_n_fields e = m_n_fields e /\ gen_frb_size d = m_size d /\ gen_frb_keep e = m_keep e)
  /\ (gen_frb_sentinel = m_sentinel /\ gen_frb_sentinel_pos = 0)
  /\ (forall dp dn n e, gen_gbe_start dp dn n = m_start dp /\ gen_gbe_end dp dn n = dn
                         /\ gen_gbe_entry_start_col = 0 /\ gen_gbe_entry_end e = m_entry_end e
                         /\ gen_gbe_entry_ends_before_cr = m_entry_ends_before_cr)
  /\ (forall e c, gen_cr_probe e = m_cr_probe e /\ gen_cr_elem_probe e = m_cr_probe e /\ gen_cr_byte = m_cr_byte
                   /\ gen_cr_adjust e c = m_cr_adjust e c)
  /\ (forall s e mx j row n, gen_mida_width s e = e - s /\ gen_mida_index s e mx j = m_mida_index e mx j
                              /\ gen_mida_n_fill s e mx = m_mida_n_fill s e mx /\ gen_mida_fill_start row n mx = row * mx)
  /\ (forall l p, gen_stop_len l p = m_stop_len l p)
  /\ (forall l k, gen_flag_len_match l k = m_flag_len_match l k)
  /\ (forall s e j n, gen_field_len s e = e - s /\ gen_gfbn_first j n = j /\ gen_gfbn_step j n = n
                       /\ s + gen_gfbn_keep_len (gen_field_len s e) = m_keep_end e)
  /\ (forall v, gen_vcf_shift_col = m_pos_shift_col /\ gen_vcf_shift v = m_pos_shift v)
  /\ (forall s e ee st c cum, gen_sam_extra_start s (gen_field_len s e) = m_extra_start e
                         /\ gen_sam_extra_end0 ee = m_extra_end0 ee /\ gen_sam_extra_probe e = m_extra_probe e
                         /\ gen_sam_extra_end e c = m_extra_end e c /\ gen_sam_extra_len ee st = m_extra_len ee st
                         /\ gen_sam_entry_ends_before_cr = m_entry_ends_before_cr /\ gen_sam_last_field cum = cum - 1
                         /\ gen_sam_cr_probe e = m_cr_probe e /\ gen_sam_cr_adjust e c = m_cr_adjust e c)
  /\ (forall s k size l, gen_hfm_line_len k = m_line_len k /\ gen_hfm_ignored s k size = m_ignored s k size
                          /\ gen_value_start s k = m_value_start s k /\ gen_value_len l k = m_value_len l k false
                          /\ gen_value_keep_len (gen_value_len l k) = m_value_len l k true).
Proof.
  exact (conj (fun e d => conj (b_n_fields e) (conj (b_frb_size d) (b_frb_keep e)))
        (conj b_frb_sentinel
        (conj (fun dp dn n e => conj (b_gbe_start dp dn n) (conj (b_gbe_end dp dn n) (b_gbe_entry e)))
        (conj (fun e c => conj (proj1 (b_cr_probe e)) (conj (proj2 (b_cr_probe e)) (conj b_cr_byte (b_cr_adjust e c))))
        (conj (fun s e mx j row n => conj (b_mida_width s e) (conj (b_mida_index s e mx j) (conj (b_mida_n_fill s e mx) (b_mida_fill_start row n mx))))
        (conj b_stop_len
        (conj b_flag_len_match
        (conj (fun s e j n => conj (b_field_len s e) (conj (proj1 (b_gfbn_select j n)) (conj (proj2 (b_gfbn_select j n)) (b_gfbn_keep s e))))
        (conj b_vcf_shift
        (conj (fun s e ee st c cum => conj (b_sam_extra_start s e) (conj (proj1 (b_sam_extra_end ee e c)) (conj (proj1 (proj2 (b_sam_extra_end ee e c))) (conj (proj2 (proj2 (b_sam_extra_end ee e c))) (conj (b_sam_extra_len ee st) (b_sam_cr cum e c))))))
              (fun s k size l => conj (b_hfm_line_len k) (conj (b_hfm_ignored s k size) (conj (b_value_start s k) (b_value_len l k)))))))))))))).
Qed.
Print Assumptions C02_source_tie.

(* Round 6 strengthening — a row subset taken BEFORE the first parse.  The lazily read table / the buffer keeps the bytes
   and selects rows of its start / end tables and record ends (Model.table_select: any index list — repeats, any order; masks,
   slices, negative indices are index lists by NumPy's rules); Model.run_sel parses the columns only then.  Parsing a
   selection = selecting the parsed rows: for every column type computed row by row — text, identifier, Optional[int], float,
   strand, qualities, integer lists and the REST-OF-LINE column (SAM tags: it ends at the row's OWN record end, whatever rows
   were dropped around it) — whenever the whole column parses, the column of the selection is the selection of the column. *)
Theorem C02_typed_col_select :
  forall (t : table) (idx : list Z) (j : Z) (ty : ctype) (c : list cell),
    table_rect t -> idx_ok (List.length (t_starts t)) idx -> row_local ty = true ->
    typed_col t j ty = Col c ->
    typed_col (table_select idx t) j ty = Col (take_rows (CInt 0) c idx).
Proof. exact typed_col_select. Qed.
Print Assumptions C02_typed_col_select.
(* integer columns are computed from the WHOLE column (widest field, any sign present): on numerals the selection commutes too *)
Theorem C02_int_col_select :
  forall (t : table) (idx : list Z) (j : Z),
    table_rect t -> idx_ok (List.length (t_starts t)) idx ->
    (forall se, In se (bounds t j) -> 0 <= fst se /\ snd se <= len (t_data t) /\ numeral (text_at (t_data t) se) = true) ->
    forall c, parse_int_col (t_data t) (bounds t j) = Some c ->
    parse_int_col (t_data (table_select idx t)) (bounds (table_select idx t) j) = Some (take_rows 0 c idx).
Proof. exact int_col_select. Qed.
Print Assumptions C02_int_col_select.

(* ---------- non-vacuity ---------- *)
(* a CRLF table with an empty field, a 1-byte field and a 9-byte field in one column meets the hypotheses of T1,
   and the executable model really returns those fields *)
Example C02_nonvacuous_table :
  let rows := [[unhex "63"; unhex ""; unhex "31"]; [unhex "636872313233343536"; unhex "78"; unhex "3939393939"]]%string in
  option_map table_fields (delim_table 9 (lay (eol_of true) (map (intercalate [9]) rows))) = Some rows.
Proof. vm_compute. reflexivity. Qed.
(* widths 1 and 7 in one integer column, the short field first in the buffer (so the matrix row of the first
   field reaches before the start of the buffer): both values are right *)
Example C02_nonvacuous_int :
  let data := unhex "37093132333435363709"%string in
  parse_int_col data [(0, 1); (2, 9)] = Some [7; 1234567]
  /\ parse_int_col (unhex "2d37092b3132"%string) [(0, 2); (3, 6)] = Some [-7; 12].
Proof. vm_compute. split; reflexivity. Qed.
(* a concrete CRLF BED3 file with a header line, a signed start and widths 1 / 9 in one column meets the
   hypotheses of the end-to-end theorem; the executable model returns the specified columns *)
Example C02_nonvacuous_bed3 :
  let rows := [[unhex "63"; unhex "2d35"; unhex "37"]; [unhex "63687231"; unhex "313233343536373839"; unhex "2b3132"]]%string in
  run Fbed3 None (lay (eol_of true) [unhex "2368"%string] ++ body_of true rows) = Obs 2 (spec_cols Fbed3 None rows) true
  /\ spec_cols Fbed3 None rows = [Col [CBytes (unhex "63"%string); CBytes (unhex "63687231"%string)];
                                  Col [CInt (-5); CInt 123456789]; Col [CInt 7; CInt 12]].
Proof. vm_compute. split; reflexivity. Qed.
(* a BED12 record list (trailing commas, "." score, strand) meets every hypothesis of the generic end-to-end theorem
   (the decidable ones checked by computation), and the model returns the specified columns *)
Example C02_nonvacuous_bed12 :
  let rows := [[unhex "63"; unhex "31"; unhex "323030"; unhex "6e"; unhex "2e"; unhex "2b"; unhex "31"; unhex "32"; unhex "302c30"; unhex "32";
                unhex "31302c32302c"; unhex "302c3330"];
               [unhex "6368723132"; unhex "35"; unhex "39"; unhex ""; unhex "373030"; unhex "2e"; unhex "35"; unhex "39"; unhex "30"; unhex "31";
                unhex "39"; unhex ""]]%string in
  forallb (fun jt => (0 <=? fst jt) && (fst jt <? 12) && forallb (fun r => wf_field (snd jt) (field r (fst jt))) rows) (all_cols Fbed12) = true
  /\ run Fbed12 None (body_of true rows) = Obs 2 (spec_cols Fbed12 None rows) true
  /\ nth 10 (spec_cols Fbed12 None rows) ColErr = Col [CInts [10; 20]; CInts [9]]
  /\ nth 11 (spec_cols Fbed12 None rows) ColErr = Col [CInts [0; 30]; CInts []].
Proof. vm_compute. repeat split; reflexivity. Qed.
(* a CRLF FASTQ file with an empty sequence and a '+name' line *)
Example C02_nonvacuous_fastq :
  let recs := [[unhex "7231"; unhex "41434754"; unhex ""; unhex "49492149"]; [unhex "72322078"; unhex ""; unhex "7232"; unhex ""]]%string in
  run Ffastq None (lay (eol_of true) (body_lines Ffastq 0 recs [])) = Obs 2 (spec_cols Ffastq None recs) true
  /\ nth 2 (spec_cols Ffastq None recs) ColErr = Col [CInts [40; 40; 0; 40]; CInts []].
Proof. vm_compute. split; reflexivity. Qed.
(* a SAM file with a header line, one record without tags and one with two tags *)
Example C02_nonvacuous_sam :
  let rows := [[unhex "7231"; unhex "30"; unhex "63"; unhex "35"; unhex "3630"; unhex "344d"; unhex "2a"; unhex "30"; unhex "2d37"; unhex "41434754"; unhex "49494949"];
               [unhex "7232"; unhex "3136"; unhex "63"; unhex "3135"; unhex "30"; unhex "324d"; unhex "3d"; unhex "33"; unhex "30"; unhex "4143"; unhex "217e";
                unhex "4e4d3a693a30"; unhex "58583a5a3a61"]]%string in
  run Fsam None (lay [10] [unhex "40484409564e3a312e36"%string] ++ body_of false rows) = Obs 2 (spec_cols Fsam None rows) true
  /\ nth 11 (spec_cols Fsam None rows) ColErr = Col [CBytes []; CBytes (unhex "4e4d3a693a300958583a5a3a61"%string)]
  /\ nth 8 (spec_cols Fsam None rows) ColErr = Col [CInt (-7); CInt 0].
Proof. vm_compute. repeat split; reflexivity. Qed.
(* INFO rows "DPX=7;DP=5;XDP=1" / "." / "XDP=3;DP=12" and key DP: keys that extend DP on either side do not match *)
Example C02_nonvacuous_info :
  let crows := [info_cells [unhex "4450583d37"; unhex "44503d35"; unhex "5844503d31"] 9; info_cells [unhex "2e"] 9;
                info_cells [unhex "5844503d33"; unhex "44503d3132"] 10]%string in
  let key := unhex "4450"%string in
  forallb (fun c => len (filter (has_prefix key) (map fst c)) <=? 1) crows = true
  /\ info_texts false (List.concat (map flatten crows)) key (item_table 0 (map flatten crows))
      = Some [unhex "35"; []; unhex "3132"]%string
  /\ map (found key) crows = [unhex "35"; []; unhex "3132"]%string.
Proof. vm_compute. repeat split; reflexivity. Qed.
(* "./." next to "0/1:35:99": the short cell's 9-byte window reaches the ':' of its neighbour, yet its value is "./.";
   cutting at the window's first ':' without the np.minimum would give "./.<TAB>0/1" *)
Example C02_nonvacuous_geno :
  let data := unhex "2e2f2e09302f313a33353a39390a"%string in       (* ./.<TAB>0/1:35:99<LF> *)
  padded_cell data 9 (0, 3) = unhex "2e2f2e"%string /\ padded_cell data 9 (4, 13) = unhex "302f31"%string
  /\ firstn (Z.to_nat (argmax_eq 58 0 (map (fun j => nthZ data (Z.min (0 + j) (len data - 1))) (arange 9)))) data
      = unhex "2e2f2e09302f31"%string.
Proof. vm_compute. repeat split; reflexivity. Qed.
(* Flag G5 with rows "G5A;XG5" / "G5;G5A" / "G5=1" / "." : only the second row carries the flag *)
Example C02_nonvacuous_flag :
  let crows := [info_cells [unhex "473541"; unhex "584735"] 9; info_cells [unhex "4735"; unhex "473541"] 9;
                info_cells [unhex "47353d31"] 9; info_cells [unhex "2e"] 10]%string in
  has_flag (List.concat (map flatten crows)) (unhex "4735"%string) (item_table 0 (map flatten crows)) = [false; true; false; false].
Proof. vm_compute. reflexivity. Qed.
(* wrapped FASTA, CRLF: records with no sequence line, an empty line, lines of widths 1 / 3 / 2, an empty name; the
   hypotheses of C02_fasta_lines_end_to_end hold (checked by computation) and the model returns the glued sequences *)
Example C02_nonvacuous_fasta_lines :
  let recs := [(unhex "7331", [unhex "41"; unhex "434754"; unhex "4e4e"]); (unhex "", []); (unhex "73332078", [unhex ""; unhex "54"])]%string in
  forallb (fun r => forallb (fun c => negb ((c =? 10) || (c =? 13))) (fst r)
                    && forallb (fun l => forallb (fun c => negb ((c =? 10) || (c =? 13))) l && negb (hd0 l =? 62)) (snd r)) recs = true
  /\ run Ffasta None (lay (eol_of true) (all_lines recs))
      = Obs 3 [Col [CBytes (unhex "7331"); CBytes []; CBytes (unhex "73332078")];
               Col [CBytes (unhex "414347544e4e"); CBytes []; CBytes (unhex "54")]]%string true.
Proof. vm_compute. split; reflexivity. Qed.
(* the Spec's layout at width 3: sequence lengths 7 (last line shorter), 6 (exact multiple), 0, 1 *)
Example C02_nonvacuous_fasta_wrapped :
  let recs := [[unhex "61"; unhex "41434754414347"]; [unhex "62"; unhex "414347414347"]; [unhex "63"; unhex ""]; [unhex "64"; unhex "47"]]%string in
  body_lines Ffasta 3 recs [] = [unhex "3e61"; unhex "414347"; unhex "544143"; unhex "47"; unhex "3e62"; unhex "414347"; unhex "414347";
                                 unhex "3e63"; unhex "3e64"; unhex "47"]%string
  /\ run Ffasta None (lay (eol_of false) (body_lines Ffasta 3 recs [])) = Obs 4 (spec_cols Ffasta None recs) true
  /\ nth 1 (spec_cols Ffasta None recs) ColErr
      = Col [CBytes (unhex "41434754414347"); CBytes (unhex "414347414347"); CBytes []; CBytes (unhex "47")]%string.
Proof. vm_compute. repeat split; reflexivity. Qed.
(* wig, CRLF: "#a<TAB>b" and "#" between the records, a comment after the last record: the table has the two records *)
Example C02_nonvacuous_ic_table :
  let gs := [([], [unhex "63"; unhex "31"; unhex "35"; unhex "322e35"]);
             ([unhex "23610962"; unhex "23"], [unhex "6332"; unhex "3130"; unhex "3230"; unhex "37"])]%string in
  let tr := [unhex "230909"]%string in
  let file := lay (eol_of true) (body_lines Fwig 0 (map snd gs) (map fst gs ++ [tr])) in
  file = unhex "630931093509322e350d0a236109620d0a230d0a633209313009323009370d0a2309090d0a"%string
  /\ forallb (fun g => forallb (fun c => (hd0 c =? 35) && forallb (fun x => negb ((x =? 10) || (x =? 13))) c) (fst g)
                        && negb (hd0 (hd [] (snd g)) =? 35)
                        && forallb (forallb (fun x => negb ((x =? 9) || (x =? 10) || (x =? 13)))) (snd g)) gs = true
  /\ option_map table_fields (ic_table file) = Some (map snd gs)
  /\ run Fwig None file = Obs 2 [Col [CBytes (unhex "63"); CBytes (unhex "6332")]; Col [CInt 1; CInt 10]; Col [CInt 5; CInt 20];
                                  Col [CRat 25 10; CRat 7 1]]%string true.
Proof. vm_compute. repeat split; reflexivity. Qed.
(* GFF3, LF, header line, consecutive comments (one with TABs) between the records: the hypotheses of C02_gff_end_to_end that
   are decidable hold, and the model returns the Spec's columns *)
Example C02_nonvacuous_gff :
  let gs := [([], [unhex "63"; unhex "2e"; unhex "67"; unhex "35"; unhex "3132"; unhex "2e"; unhex "2b"; unhex "30"; unhex "49443d31"]);
             ([unhex "23230978"; unhex "2379"], [unhex "6332"; unhex "73"; unhex "65"; unhex "313030"; unhex "37"; unhex "2e35"; unhex "2d"; unhex "2e"; unhex ""])]%string in
  let rows := map snd gs in
  forallb (fun jt => (0 <=? fst jt) && (fst jt <? 9) && forallb (fun r => wf_field (snd jt) (field r (fst jt))) rows) (schema Fgff) = true
  /\ run Fgff None (lay (eol_of false) [unhex "2323676666"%string] ++ lay (eol_of false) (body_lines Fgff 0 rows (map fst gs ++ [[]])))
      = Obs 2 (spec_cols Fgff None rows) true
  /\ nth 3 (spec_cols Fgff None rows) ColErr = Col [CInt 5; CInt 100].
Proof. vm_compute. repeat split; reflexivity. Qed.
(* Integer list key AC with rows "MAC=7;AC=1,+20,3" / "." / "AC=5;ACX=9,9" (last byte TAB / TAB / LF): lists [1;20;3], [], [5] *)
Example C02_nonvacuous_intlist :
  let crows := [info_cells [unhex "4d41433d37"; unhex "41433d312c2b32302c33"] 9; info_cells [unhex "2e"] 9;
                info_cells [unhex "41433d35"; unhex "4143583d392c39"] 10]%string in
  let key := unhex "4143"%string in
  let rows := map flatten crows in
  forallb (fun c => len (filter (has_prefix key) (map fst c)) <=? 1) crows = true
  /\ forallb (fun c => forallb numeral (list_items (found key c))) crows = true
  /\ info_col (List.concat rows) (item_table 0 rows) (key, IInteger, true) = Col [CInts [1; 20; 3]; CInts []; CInts [5]]
  /\ mapM (fun c => mapM int_of_text (list_items (found key c))) crows = Some [[1; 20; 3]; []; [5]].
Proof. vm_compute. repeat split; reflexivity. Qed.
(* a CRLF VCF with two samples, cells "0/1:35" and "./." / "1|1" and "0|2:9:9": unphased-genotype codes; decidable hypotheses
   of C02_vcf_geno_end_to_end checked by computation *)
Example C02_nonvacuous_geno_codes :
  let rows := [[unhex "63"; unhex "35"; unhex "2e"; unhex "41"; unhex "54"; unhex "2e"; unhex "2e"; unhex "44503d33"; unhex "4754"; unhex "302f313a3335"; unhex "2e2f2e"];
               [unhex "6332"; unhex "313030"; unhex "7273"; unhex "47"; unhex "43"; unhex "39"; unhex "50415353"; unhex "2e"; unhex "4754"; unhex "317c31"; unhex "307c323a393a39"]]%string in
  forallb (fun jt => (0 <=? fst jt) && (fst jt <? 11) && forallb (fun r => wf_field (snd jt) (field r (fst jt))) rows) (all_cols Fvcf) = true
  /\ forallb (fun r => forallb (fun smp => 3 <=? len smp) (skipn 9 r)) rows = true
  /\ run Fvcfgt None (lay (eol_of true) [unhex "2323"%string] ++ body_of true rows) = Obs 2 (spec_cols Fvcfgt None rows) true
  /\ nth 8 (spec_cols Fvcfgt None rows) ColErr = Col [CInts [31; -115]; CInts [61; 26]]
  /\ nth 1 (spec_cols Fvcfgt None rows) ColErr = Col [CInt 4; CInt 99].
Proof. vm_compute. repeat split; reflexivity. Qed.
(* CRLF without the final line break, width 2: ">a CRLF AC CRLF G CRLF >b CRLF T" — the last line has no CR *)
Example C02_nonvacuous_fasta_nofinal :
  let recs := [[unhex "61"; unhex "414347"]; [unhex "62"; unhex "54"]]%string in
  spec_file Ffasta 2 true false [] recs [] = unhex "3e610d0a41430d0a470d0a3e620d0a540a"%string
  /\ run Ffasta None (spec_file Ffasta 2 true false [] recs []) = Obs 2 (spec_cols Ffasta None recs) true
  /\ nth 1 (spec_cols Ffasta None recs) ColErr = Col [CBytes (unhex "414347"); CBytes (unhex "54")]%string.
Proof. vm_compute. repeat split; reflexivity. Qed.
(* SAM, three records (tags / no tags / tags), rows [2; 0; 0] selected before parsing: the tags of row 0 are its own, not the
   text up to the next kept row; widths of the integer columns differ between the selection and the file *)
Example C02_nonvacuous_select :
  let rows := [[unhex "7231"; unhex "30"; unhex "63"; unhex "35"; unhex "3630"; unhex "344d"; unhex "2a"; unhex "30"; unhex "2d37"; unhex "41434754"; unhex "49494949"; unhex "4e4d3a693a30"];
               [unhex "7232"; unhex "3136"; unhex "63"; unhex "31353030"; unhex "30"; unhex "324d"; unhex "3d"; unhex "33"; unhex "30"; unhex "4143"; unhex "217e"];
               [unhex "7233"; unhex "34"; unhex "2a"; unhex "30"; unhex "30"; unhex "2a"; unhex "2a"; unhex "30"; unhex "30"; unhex "2a"; unhex "2a"; unhex "58583a5a3a61"; unhex "434f3a5a3a62"]]%string in
  let file := body_of false rows in
  run_sel Fsam None file [2; 0; 0] = Obs 3 (map (colres_select [2; 0; 0]) (spec_cols Fsam None rows)) true
  /\ nth 11 (map (colres_select [2; 0; 0]) (spec_cols Fsam None rows)) ColErr
      = Col [CBytes (unhex "58583a5a3a6109434f3a5a3a62"); CBytes (unhex "4e4d3a693a30"); CBytes (unhex "4e4d3a693a30")]%string
  /\ nth 3 (map (colres_select [2; 0; 0]) (spec_cols Fsam None rows)) ColErr = Col [CInt 0; CInt 5; CInt 5].
Proof. vm_compute. repeat split; reflexivity. Qed.
(* a whole BED6 file through the whole model *)
Example C02_nonvacuous_run :
  run Fbed6 None (unhex "2368647209780a63317431093509313209610931302b0a"%string) <> ObsErr.
Proof. vm_compute. discriminate. Qed.

From Coq Require Import ZArith List Bool String.
From BNP Require Import Base.Prims Model.C02 Proofs.C02.
Import ListNotations.
Open Scope Z_scope.
Theorem C02_vcf_position_shift : forall t j, typed_col t j TIntM1 = match typed_col t j TInt with Col c => Col (map (fun x => match x with CInt v => CInt (v - 1) | y => y end) c) | ColErr => ColErr end.
Proof. exact vcf_position_shift. Qed.
Print Assumptions C02_vcf_position_shift.

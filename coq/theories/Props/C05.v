(* Props/C05.v — lazy and eager reading are observationally equivalent.
   Statements only; every proof is `exact <lemma of Proofs/C05.v>`, followed by Print Assumptions.

   Reading guide.  m_run cc F hdr regs prog : the observations of the LAZY state machine (Model/C05.v: buffer,
   _set_values, _computed_values) running `prog` on the registers; s_run : the same program on eager row lists
   (the Spec).  abs maps a lazy state to the rows it denotes, Inv is the store invariant, Canon says that every
   record still in the buffer is canonically spelled.  `erase` blanks written bytes: values are compared on every
   file, written bytes on canonically spelled files (C04 owns pass-through of other spellings). *)
From Coq Require Import ZArith List Bool Permutation.
From BNP Require Import Base.Prims Model.C05 Proofs.C05 Proofs.C05_b Proofs.C05_c Proofs.C05_d Gen.C05 Bridge.C05.
Open Scope nat_scope.
Import ListNotations.

(* T3 for the code as it is (np.concatenate takes the store keys of its first operand): for EVERY format
   descriptor, register file satisfying the invariant, header and program of any length, if the executable guard
   holds along the run — every concatenate has operands with equal replaced-key sets and cached keys of the first
   present in all, no lazy/materialised mixture, no replaced column the writer cannot format, no SequenceID parse
   of an empty buffer, replacement columns of the table's length — then every step of the lazy run observes what
   the eager run observes (values always; written bytes too when the records are canonically spelled). *)
Theorem C05_refines_partial :
  forall F hdr prog regs,
    Forall (Inv F) regs ->
    m_guard_run l_concat_pinned F hdr regs prog = true ->
    map erase (m_run l_concat_pinned F hdr regs prog) = map erase (s_run F hdr (map (abs F) regs) prog)
    /\ (Forall (Canon F) regs ->
        m_run l_concat_pinned F hdr regs prog = s_run F hdr (map (abs F) regs) prog).
Proof. exact refines_partial. Qed.
Print Assumptions C05_refines_partial.

(* the same from the initial state: both registers hold the table read from one well-formed file *)
Theorem C05_file_level_partial :
  forall F hdr recs prog,
    Forall (fun r => length (r_fields r) = nfields F) recs ->
    m_guard_run l_concat_pinned F hdr [TLazy (fresh recs); TLazy (fresh recs)] prog = true ->
    let lazy_obs := m_run l_concat_pinned F hdr [TLazy (fresh recs); TLazy (fresh recs)] prog in
    let eager_obs := s_run F hdr [rows_of_file F recs; rows_of_file F recs] prog in
    map erase lazy_obs = map erase eager_obs
    /\ (Forall (fun r => rec_canon F r = true) recs -> lazy_obs = eager_obs).
Proof. exact file_level_partial. Qed.
Print Assumptions C05_file_level_partial.

(* chunked read: np.concatenate of the freshly read chunks denotes the rows of the whole file, for every chunking *)
Theorem C05_chunked_init :
  forall F chunks,
    chunks <> [] -> f_concat F = true ->
    Forall (Forall (fun r => length (r_fields r) = nfields F)) chunks ->
    exists t, t_concat l_concat_pinned F (map (fun c => TLazy (fresh c)) chunks) = Some t
              /\ Inv F t /\ abs F t = rows_of_file F (concat chunks)
              /\ (Forall (Forall (fun r => rec_canon F r = true)) chunks -> Canon F t).
Proof. exact chunked_init. Qed.
Print Assumptions C05_chunked_init.

(* T4: writing — a lazy table whose records are canonically spelled writes exactly what the eager table writes,
   whether nothing was replaced (raw bytes passed through) or some columns were (re-joined field texts);
   join_ok: the buffer class joins every written row like the eager writer (always true since 81bde1f) *)
Theorem C05_write :
  forall F hdr l b,
    InvL F l -> canonL F l -> join_ok F l = true ->
    l_write F hdr l = Some b -> b = s_write F hdr (abs F (TLazy l)).
Proof. exact l_write_ok. Qed.
Print Assumptions C05_write.

(* the unguarded statement is FALSE of the code as it is: three-step witnesses *)
Theorem C05_concat_drops_refuted :
  exists F hdr recs prog, wf F recs /\
    map erase (m_run l_concat_pinned F hdr (start recs) prog)
    <> map erase (s_run F hdr [rows_of_file F recs; rows_of_file F recs] prog).
Proof. exact concat_drops_refuted. Qed.
Print Assumptions C05_concat_drops_refuted.

Theorem C05_concat_keyerror_refuted :
  exists F hdr recs prog, wf F recs /\
    map erase (m_run l_concat_pinned F hdr (start recs) prog)
    <> map erase (s_run F hdr [rows_of_file F recs; rows_of_file F recs] prog).
Proof. exact concat_keyerror_refuted. Qed.
Print Assumptions C05_concat_keyerror_refuted.

(* T3 for the repaired concatenate (notes/C05.fix-1.diff: union of the replaced keys): the key-set condition
   disappears from the guard; what remains is the lazy/materialised mixture, unformattable replaced columns and
   the empty-buffer SequenceID parse *)
Theorem C05_refines_fixed :
  forall F hdr prog regs,
    Forall (Inv F) regs ->
    m_guard_fixed_run l_concat F hdr regs prog = true ->
    map erase (m_run l_concat F hdr regs prog) = map erase (s_run F hdr (map (abs F) regs) prog)
    /\ (Forall (Canon F) regs -> m_run l_concat F hdr regs prog = s_run F hdr (map (abs F) regs) prog).
Proof. exact refines_fixed. Qed.
Print Assumptions C05_refines_fixed.

Theorem C05_file_level_fixed :
  forall F hdr recs prog,
    Forall (fun r => length (r_fields r) = nfields F) recs ->
    m_guard_fixed_run l_concat F hdr [TLazy (fresh recs); TLazy (fresh recs)] prog = true ->
    let lazy_obs := m_run l_concat F hdr [TLazy (fresh recs); TLazy (fresh recs)] prog in
    let eager_obs := s_run F hdr [rows_of_file F recs; rows_of_file F recs] prog in
    map erase lazy_obs = map erase eager_obs
    /\ (Forall (fun r => rec_canon F r = true) recs -> lazy_obs = eager_obs).
Proof. exact file_level_fixed. Qed.
Print Assumptions C05_file_level_fixed.

(* what stays false after the repair of concatenate (each is a known finding of its own) *)
Theorem C05_concat_mixed_refuted :
  exists F hdr recs prog, wf F recs /\
    map erase (m_run l_concat F hdr (start recs) prog)
    <> map erase (s_run F hdr [rows_of_file F recs; rows_of_file F recs] prog).
Proof. exact concat_mixed_refuted. Qed.
Print Assumptions C05_concat_mixed_refuted.

Theorem C05_write_replaced_refuted :
  exists F hdr recs prog, wf F recs /\
    map erase (m_run l_concat F hdr (start recs) prog)
    <> map erase (s_run F hdr [rows_of_file F recs; rows_of_file F recs] prog).
Proof. exact write_replaced_refuted. Qed.
Print Assumptions C05_write_replaced_refuted.

Theorem C05_empty_sid_refuted :
  exists F hdr recs prog, wf F recs /\
    map erase (m_run l_concat F hdr (start recs) prog)
    <> map erase (s_run F hdr [rows_of_file F recs; rows_of_file F recs] prog).
Proof. exact empty_sid_refuted. Qed.
Print Assumptions C05_empty_sid_refuted.

(* why written bytes are only claimed on canonically spelled files: "c\t01\t2\n" is passed through by the lazy
   writer and re-printed as "c\t1\t2\n" by the eager one, although the guard holds *)
Theorem C05_noncanonical_write_differs :
  exists F hdr recs prog,
    Forall (fun r => length (r_fields r) = nfields F) recs /\
    m_guard_run l_concat_pinned F hdr (start recs) prog = true /\
    m_run l_concat_pinned F hdr (start recs) prog <> s_run F hdr [rows_of_file F recs; rows_of_file F recs] prog.
Proof. exact noncanonical_write_differs. Qed.
Print Assumptions C05_noncanonical_write_differs.

(* ======== phase 3: the eager side ========
   e_run is the EAGER implementation as it is at HEAD: the Spec's row lists, except that only the table returned by
   read() still has the file's header context (every derived table has lost it), that the VCF writer refuses a table
   read from a file with header lines and emits a default header for a table without context. *)

(* the eager implementation IS the Spec when the file has no header lines and the writer has no default header *)
Theorem C05_eager_is_spec :
  forall F hdr prog regs,
    eager_guard F hdr = true -> e_run F hdr regs prog = s_run F hdr (map fst regs) prog.
Proof. exact eager_is_spec. Qed.
Print Assumptions C05_eager_is_spec.

(* HISTORY (the models of the code BEFORE notes/C05.fix-4/5/6.diff: m_run / e_run with `f_nowrite`, the assert on mixed
   concatenate operands and the refusing VCF writer): the property under m_guard_fixed and eager_guard.  The statement for
   the code as it is now is C05_lazy_is_eager_partial in the round-6 section below. *)
Theorem C05_lazy_is_eager_pre6_partial :
  forall F hdr recs prog ctx,
    Forall (fun r => length (r_fields r) = nfields F) recs ->
    m_guard_fixed_run l_concat F hdr (start recs) prog = true ->
    eager_guard F hdr = true ->
    let lazy_obs := m_run l_concat F hdr (start recs) prog in
    let eager_obs := e_run F hdr [(rows_of_file F recs, ctx); (rows_of_file F recs, ctx)] prog in
    map erase lazy_obs = map erase eager_obs
    /\ (Forall (fun r => rec_canon F r = true) recs -> lazy_obs = eager_obs).
Proof. exact lazy_is_eager_partial. Qed.
Print Assumptions C05_lazy_is_eager_pre6_partial.

(* witnesses for the guards (one per listed finding that is not already witnessed above) *)
Theorem C05_eager_header_lost_refuted :        (* C05-header-lost-on-derived-eager-table *)
  exists F hdr recs prog ctx, wf F recs /\
    e_run F hdr [(rows_of_file F recs, ctx); (rows_of_file F recs, ctx)] prog
    <> s_run F hdr [rows_of_file F recs; rows_of_file F recs] prog.
Proof. exact eager_header_lost_refuted. Qed.
Print Assumptions C05_eager_header_lost_refuted.
Theorem C05_eager_write_fails_refuted :        (* C05-vcf-eager-write-with-header *)
  exists F hdr recs prog ctx, wf F recs /\
    map erase (e_run F hdr [(rows_of_file F recs, ctx); (rows_of_file F recs, ctx)] prog)
    <> map erase (s_run F hdr [rows_of_file F recs; rows_of_file F recs] prog).
Proof. exact eager_write_fails_refuted. Qed.
Print Assumptions C05_eager_write_fails_refuted.
Theorem C05_eager_default_header_refuted :     (* header-less VCF: derived eager table gets a default header *)
  exists F hdr recs prog ctx, wf F recs /\ hdr = [] /\
    e_run F hdr [(rows_of_file F recs, ctx); (rows_of_file F recs, ctx)] prog
    <> s_run F hdr [rows_of_file F recs; rows_of_file F recs] prog.
Proof. exact eager_default_header_refuted. Qed.
Print Assumptions C05_eager_default_header_refuted.
Theorem C05_eager_needs_context_refuted :     (* BAM: a derived eager table cannot be written at all (make_header needs the context) *)
  exists F hdr recs prog ctx, wf F recs /\
    e_run F hdr [(rows_of_file F recs, ctx); (rows_of_file F recs, ctx)] prog
    <> s_run F hdr [rows_of_file F recs; rows_of_file F recs] prog.
Proof. exact eager_needs_context_refuted. Qed.
Print Assumptions C05_eager_needs_context_refuted.
Theorem C05_at_ragged_refuted :                (* C05-int-index-ragged-column *)
  exists F hdr recs prog, wf F recs /\
    map erase (m_run l_concat F hdr (start recs) prog)
    <> map erase (s_run F hdr [rows_of_file F recs; rows_of_file F recs] prog).
Proof. exact at_ragged_refuted. Qed.
Print Assumptions C05_at_ragged_refuted.

(* the Spec's writer and reader are inverse: every table of well-kinded rows has a canonically spelled file (the one
   s_write produces), reading it gives the table back — so the hypotheses "well-formed" and "canonically spelled" of
   the theorems above are satisfiable for every table, and decimal printing / parsing of every integer round-trips *)
Theorem C05_spec_roundtrip :
  forall F (t : rows),
    Forall (Forall2 well_kinded (f_kinds F)) t ->
    let recs := map (rec_of_row F) t in
    rows_of_file F recs = t
    /\ Forall (fun r => rec_canon F r = true) recs
    /\ Forall (fun r => length (r_fields r) = nfields F) recs
    /\ forall hdr, s_write F hdr (rows_of_file F recs) = hdr ++ concat (map r_raw recs).
Proof. exact spec_roundtrip. Qed.
Print Assumptions C05_spec_roundtrip.

(* ---- tie to the source: the decision rules regenerated from /repo by translate/gen_c05.py on this run (Gen/C05.v:
   the lookup order of __getattr__ and of concatenate's column(), what __getitem__ indexes and which row the scalar
   path takes, what __replace__ keeps, the any/all key rules of np.concatenate and its lazy/fallback branch, the
   path selection of get_buffer and the per-field column source, the laziness condition of the reader) are the rules
   named in Model/C05.v; Bridge/C05.v also proves that the model's functions (l_get, l_col, l_index, l_replace,
   l_concat, t_concat, l_write, text_col, the scalar path and tolist of m_step) follow these rules (the lemmas named s_xxx). ---- *)
Theorem C05_source_tie :
  (forall a b c d e f : bool,
      gen_getattr_source a b c = m_getattr_source a b c
      /\ gen_concat_column_source a b = m_concat_column_source a b
      /\ gen_concat_stays_lazy a b = m_concat_stays_lazy a b
      /\ gen_concat_set_key a = m_concat_set_key a
      /\ gen_concat_cache_key a b = m_concat_cache_key a b
      /\ gen_get_buffer_path a b c d e f = m_get_buffer_path a b c d e f
      /\ gen_write_column_source a = m_write_column_source a
      /\ gen_should_be_lazy a b c d e f = m_should_be_lazy a b c d e f)
  /\ gen_get_field_parses_buffer = m_get_field_parses_buffer
  /\ (gen_getitem_indexes_buffer = m_getitem_indexes_buffer /\ gen_getitem_indexes_overlay = m_getitem_indexes_overlay
      /\ gen_getitem_indexes_cache = m_getitem_indexes_cache /\ gen_getitem_scalar_row = m_getitem_scalar_row)
  /\ gen_itemgetter_getitem_resets_start_line = m_itemgetter_getitem_resets_start_line
  /\ (gen_replace_into_overlay = m_replace_into_overlay /\ gen_replace_new_overrides_old = m_replace_new_overrides_old
      /\ gen_replace_keeps_cache = m_replace_keeps_cache)
  /\ gen_data_object_reads_all_fields_in_order = m_data_object_reads_all_fields_in_order
  /\ gen_concat_requires_all_lazy = m_concat_requires_all_lazy
  /\ gen_concat_fallback_materialises_lazy_only = m_concat_fallback_materialises_lazy_only
  /\ gen_write_columns_in_field_order = m_write_columns_in_field_order
  (* and the model follows the rules: field access, indexing, concatenate keys *)
  /\ (forall F f l,
        l_get F f l =
        match m_getattr_source (has f (l_set l)) true (has f (l_comp l)) with
        | 0%Z => Some (col_of f (l_set l), l)
        | 2%Z => Some (col_of f (l_comp l), l)
        | _ => if sid_fail F l f then None
               else Some (parse_col F f (l_buf l),
                          {| l_buf := l_buf l; l_set := l_set l; l_comp := l_comp l ++ [(f, parse_col F f (l_buf l))] |})
        end)
  /\ (forall F first rest l', l_concat F (first :: rest) = Some l' ->
        keys (l_set l') = filter (fun f => m_concat_set_key (existsb (fun l => has f (l_set l)) (first :: rest))) (all_fields F)
        /\ keys (l_comp l') = filter (fun f => m_concat_cache_key (existsb (fun l => has f (l_set l)) (first :: rest))
                                                                    (forallb (fun l => has f (l_comp l)) (first :: rest)))
                                      (keys (l_comp first))).
Proof.
  split.
  { intros a b c d e f.
    exact (conj (b_getattr_source a b c) (conj (b_concat_column_source a b) (conj (b_concat_path a b) (conj (b_concat_set_key a)
          (conj (b_concat_cache_key a b) (conj (b_get_buffer_path a b c d e f) (conj (b_write_column a) (b_should_be_lazy a b c d e f)))))))). }
  split; [exact b_get_field_parses_buffer|]. split; [exact b_getitem|]. split; [exact b_itemgetter_getitem|].
  split; [exact b_replace|]. split; [exact b_data_object|]. split; [exact b_concat_requires_all_lazy|]. split; [exact b_concat_fallback|].
  split; [exact b_write_order|]. split; [exact s_l_get|].
  intros F first rest l' H. destruct (s_l_concat F first rest l' H) as [H1 [H2 _]]. split; assumption.
Qed.
Print Assumptions C05_source_tie.

(* non-vacuity: a ten-step program over both registers (field access, reversal, repeated integer indices,
   concatenate, replace, mask, t[-1], tolist, write) meets the guard on a canonical two-record file with a header
   line, and the bytes the model writes are the expected ones; the two concatenate witnesses agree with the eager
   table under the repaired concatenate *)
Example C05_nonvacuous :
  wf W_bed3 W_recs
  /\ m_guard_run l_concat_pinned W_bed3 [35; 10]%Z (start W_recs) W_prog = true
  /\ nth 9 (m_run l_concat_pinned W_bed3 [35; 10]%Z (start W_recs) W_prog) XErr
     = XBytes [35; 10; 100; 9; 51; 48; 9; 53; 10; 100; 9; 51; 48; 9; 55; 10; 100; 9; 51; 48; 9; 56; 10]%Z.
Proof. exact nonvacuous. Qed.

(* the scenario repaired by 0f67f4c (fields read before and after writing a selection; two selections of one parent
   written in turn; the written file decoded): guard holds, lazy run = Spec run, and the second decoded file is the
   requested selection in the requested order *)
Example C05_write_between_reads :
  let recs := [W_vcfrec; {| r_fields := [[100%Z]; [55%Z]]; r_raw := [1; 2; 3]%Z |}; {| r_fields := [[101%Z]; [57%Z]]; r_raw := [4; 5]%Z |}] in
  let prog := [OSel 0 1 (IMask [true; false; true]); OGet 0 0; OWriteRead 0; OGet 0 1; OSel 0 1 (ITake [2; 0; 2]%Z); OWriteRead 0;
               OGet 0 0; OWriteRead 1; OGet 1 1] in
  m_guard_fixed_run l_concat W_bam [] (start recs) prog = true
  /\ m_run l_concat W_bam [] (start recs) prog = s_run W_bam [] [rows_of_file W_bam recs; rows_of_file W_bam recs] prog
  /\ nth 5 (m_run l_concat W_bam [] (start recs) prog) XErr = XRows [[VS [101%Z]; VI 9]; [VS [99%Z]; VI 5]; [VS [101%Z]; VI 9]].
Proof. exact bam_write_between_reads. Qed.

Example C05_fixed_witnesses :
  m_run l_concat W_bed3 [] (start [W_rec]) [ORep 1 1 [VI 7]; OCat 0 [0; 1]; OGet 0 1; OWrite 0]
  = s_run W_bed3 [] [rows_of_file W_bed3 [W_rec]; rows_of_file W_bed3 [W_rec]] [ORep 1 1 [VI 7]; OCat 0 [0; 1]; OGet 0 1; OWrite 0]
  /\ m_run l_concat W_bed3 [] (start [W_rec]) [OGet 0 1; OCat 0 [0; 1]; OLen 0]
  = s_run W_bed3 [] [rows_of_file W_bed3 [W_rec]; rows_of_file W_bed3 [W_rec]] [OGet 0 1; OCat 0 [0; 1]; OLen 0].
Proof. exact concat_fixed_witnesses. Qed.

(* ======== round 6: the code after notes/C05.fix-4.diff (every replaced column is formatted by the lazy writer),
   fix-5 (np.concatenate accepts materialised operands) and fix-6 (the eager VCF writer writes tables read from a file
   with header lines).  m_run6 / e_run6 are the CURRENT models (Corr/C05.v checks them on every case); the theorems
   above about m_run / e_run with C05_concat_mixed_refuted, C05_write_replaced_refuted, C05_eager_write_fails_refuted
   are kept as history of the code before these repairs. ======== *)

(* join_ok (the modified lazy write joins a row like the eager writer) needs no guard: it always holds *)
Theorem C05_join_ok : forall F l, join_ok F l = true.
Proof. exact join_ok_true. Qed.
Print Assumptions C05_join_ok.

(* the lazy write after fix-4 is TOTAL and equals the eager serialisation on canonically spelled records: pass-through
   or re-joined, whatever columns are replaced (no f_nowrite) *)
Theorem C05_write_r6 :
  forall F hdr l, InvL F l -> canonL F l -> l_write6 F hdr l = s_write F hdr (abs F (TLazy l)).
Proof. exact l_write6_ok. Qed.
Print Assumptions C05_write_r6.

(* refinement lazy state machine -> Spec for every format descriptor, register file (lazy and materialised tables in any
   mixture) and program, under m_guard6: concatenate operands whose parsers do not raise (any mixture of lazy and
   materialised), OGet of an existing field, replacement columns of table length, no t[i] on a lazily read ragged table,
   a materialised table not written by a writer that needs the header context, OWriteRead of an unmodified table *)
Theorem C05_refines_r6 :
  forall F hdr prog regs,
    Forall (Inv F) regs ->
    m_guard6_run l_concat F hdr regs prog = true ->
    map erase (m_run6 l_concat F hdr regs prog) = map erase (s_run F hdr (map (abs F) regs) prog)
    /\ (Forall (Canon F) regs -> m_run6 l_concat F hdr regs prog = s_run F hdr (map (abs F) regs) prog).
Proof. exact refines_r6. Qed.
Print Assumptions C05_refines_r6.

Theorem C05_file_level_r6 :
  forall F hdr recs prog,
    Forall (fun r => length (r_fields r) = nfields F) recs ->
    m_guard6_run l_concat F hdr (start recs) prog = true ->
    let lazy_obs := m_run6 l_concat F hdr (start recs) prog in
    let eager_obs := s_run F hdr [rows_of_file F recs; rows_of_file F recs] prog in
    map erase lazy_obs = map erase eager_obs
    /\ (Forall (fun r => rec_canon F r = true) recs -> lazy_obs = eager_obs).
Proof. exact file_level_r6. Qed.
Print Assumptions C05_file_level_r6.

(* the eager implementation after fix-6 is the Spec whenever every written table still has its header context (it is
   the table read() returned) or there is no header to lose — a per-step guard, no longer "the file has no header" *)
Theorem C05_eager_is_spec_r6 :
  forall F hdr prog regs,
    e_guard6_run F hdr regs prog = true -> e_run6 F hdr regs prog = s_run F hdr (map fst regs) prog.
Proof. exact eager6_is_spec. Qed.
Print Assumptions C05_eager_is_spec_r6.
Theorem C05_eager_guard_r6_weaker :
  forall F hdr prog regs, eager_guard F hdr = true -> e_guard6_run F hdr regs prog = true.
Proof. exact e_guard6_of_eager_guard. Qed.
Print Assumptions C05_eager_guard_r6_weaker.

(* THE PROPERTY on the two models of the code as it is now: a lazily read table and the eagerly parsed table of the same
   well-formed file (with or without header lines) give equal observations under every program — equal values; equal
   written bytes when the file is canonically spelled — under the guards that exclude exactly the two remaining listed
   findings (t[i] on a lazily read ragged table: m_guard6; write of a DERIVED eager table of a file with header lines or
   under a writer with a default header / needing the context: e_guard6) and ill-formed programs (unknown field,
   replacement column of the wrong length, a parser that raises) *)
Theorem C05_lazy_is_eager_partial :
  forall F hdr recs prog ctx,
    Forall (fun r => length (r_fields r) = nfields F) recs ->
    m_guard6_run l_concat F hdr (start recs) prog = true ->
    e_guard6_run F hdr [(rows_of_file F recs, ctx); (rows_of_file F recs, ctx)] prog = true ->
    let lazy_obs := m_run6 l_concat F hdr (start recs) prog in
    let eager_obs := e_run6 F hdr [(rows_of_file F recs, ctx); (rows_of_file F recs, ctx)] prog in
    map erase lazy_obs = map erase eager_obs
    /\ (Forall (fun r => rec_canon F r = true) recs -> lazy_obs = eager_obs).
Proof. exact lazy_is_eager_r6. Qed.
Print Assumptions C05_lazy_is_eager_partial.

(* what the two remaining guards exclude (each a listed finding) *)
Theorem C05_eager_header_lost_r6_refuted :     (* C05-header-lost-on-derived-eager-table *)
  exists F hdr recs prog ctx, wf F recs /\
    e_guard6_run F hdr [(rows_of_file F recs, ctx); (rows_of_file F recs, ctx)] prog = false /\
    e_run6 F hdr [(rows_of_file F recs, ctx); (rows_of_file F recs, ctx)] prog
    <> s_run F hdr [rows_of_file F recs; rows_of_file F recs] prog.
Proof. exact r6_eager_header_lost_refuted. Qed.
Print Assumptions C05_eager_header_lost_r6_refuted.
Theorem C05_at_ragged_r6_refuted :             (* C05-int-index-ragged-column *)
  exists F hdr recs prog, wf F recs /\ m_guard6_run l_concat F hdr (start recs) prog = false /\
    map erase (m_run6 l_concat F hdr (start recs) prog)
    <> map erase (s_run F hdr [rows_of_file F recs; rows_of_file F recs] prog).
Proof. exact r6_at_ragged_refuted. Qed.
Print Assumptions C05_at_ragged_r6_refuted.

(* non-vacuity.  (1) the three programs of the repaired findings (mixed concatenate, replaced FASTQ quality written,
   eager VCF write with a header) now agree with the Spec, on descriptors that still carry f_nowrite / f_eager_write_fails *)
Example C05_r6_fixed_witnesses :
  m_run6 l_concat W_fastq [] (start [W_fq]) [OCat 0 [0; 1]; OCat 0 [0; 1]; OTolist 0; OWrite 0]
  = s_run W_fastq [] [rows_of_file W_fastq [W_fq]; rows_of_file W_fastq [W_fq]] [OCat 0 [0; 1]; OCat 0 [0; 1]; OTolist 0; OWrite 0]
  /\ m_run6 l_concat W_fastq [] (start [W_fq]) [ORep 0 2 [VS [35%Z]]; OWrite 0]
     = s_run W_fastq [] [rows_of_file W_fastq [W_fq]; rows_of_file W_fastq [W_fq]] [ORep 0 2 [VS [35%Z]]; OWrite 0]
  /\ e_run6 W_vcf [35; 10]%Z [(rows_of_file W_vcf [W_vcfrec], true); (rows_of_file W_vcf [W_vcfrec], true)] [OWrite 0]
     = s_run W_vcf [35; 10]%Z [rows_of_file W_vcf [W_vcfrec]; rows_of_file W_vcf [W_vcfrec]] [OWrite 0].
Proof. exact r6_fixed_witnesses. Qed.
(* (2) both guards of C05_lazy_is_eager_partial hold for an 8-step program on a file WITH a header line under a writer with
   a default header (where eager_guard is false), the written bytes are header ++ records *)
Example C05_r6_nonvacuous_header :
  wf W_vcf R6_vcf_recs
  /\ m_guard6_run l_concat W_vcf [35; 10]%Z (start R6_vcf_recs) R6_vcf_prog = true
  /\ e_guard6_run W_vcf [35; 10]%Z [(rows_of_file W_vcf R6_vcf_recs, true); (rows_of_file W_vcf R6_vcf_recs, true)] R6_vcf_prog = true
  /\ eager_guard W_vcf [35; 10]%Z = false
  /\ nth 7 (m_run6 l_concat W_vcf [35; 10]%Z (start R6_vcf_recs) R6_vcf_prog) XErr = XBytes [35; 10; 99; 9; 53; 10; 100; 9; 55; 10]%Z
  /\ nth 4 (m_run6 l_concat W_vcf [35; 10]%Z (start R6_vcf_recs) R6_vcf_prog) XErr = XCol [VI 1; VI 2; VI 3; VI 4].
Proof. exact r6_nonvacuous_header. Qed.
(* (3) ... and for a 7-step program mixing lazy and materialised concatenate operands and writing a replaced quality
   column, which the pre-round-6 guard rejects *)
Example C05_r6_nonvacuous_mixed :
  wf W_fastq [W_fq]
  /\ m_guard6_run l_concat W_fastq [] (start [W_fq]) R6_fq_prog = true
  /\ m_guard_fixed_run l_concat W_fastq [] (start [W_fq]) R6_fq_prog = false
  /\ e_guard6_run W_fastq [] [(rows_of_file W_fastq [W_fq], true); (rows_of_file W_fastq [W_fq], true)] R6_fq_prog = true
  /\ nth 2 (m_run6 l_concat W_fastq [] (start [W_fq]) R6_fq_prog) XErr = XLen 3
  /\ nth 4 (m_run6 l_concat W_fastq [] (start [W_fq]) R6_fq_prog) XErr = XBytes [64; 114; 10; 65; 10; 43; 10; 35; 10]%Z.
Proof. exact r6_nonvacuous_mixed. Qed.

(* ======== round 6, part 2: the program language extended by sort_by (xop = XB <one of the ten operations> | XSortBy r f).
   m_xstep models BNPDataClass.sort_by as the lazy class inherits it: the key is read through __getattr__ (parsed AND cached),
   np.argsort(key, kind='stable') — integers numerically, texts bytewise —, then __getitem__ with that integer list on all
   three stores.  Corr/C05.v runs every case in this language. ======== *)

(* argsort yields positions of the column, one per row, ordered by key (a stable insertion sort: ties keep their order) *)
Theorem C05_argsort_positions :
  forall col, length (argsort col) = length col /\ Forall (fun j => j < length col) (argsort col).
Proof. intros col. split; [apply argsort_length|apply argsort_bound]. Qed.
Print Assumptions C05_argsort_positions.
Theorem C05_argsort_permutation :
  forall col, Permutation (argsort col) (seq 0 (length col)).
Proof. exact argsort_perm. Qed.
Print Assumptions C05_argsort_permutation.
Theorem C05_argsort_ordered :
  forall col, chain (fold_right ins_key [] (combine col (seq 0 (length col)))).
Proof. intros col. apply isort_chain. Qed.
Print Assumptions C05_argsort_ordered.

(* refinement for the extended language, any register file, any program *)
Theorem C05_refines_x :
  forall F hdr prog regs,
    Forall (Inv F) regs ->
    m_xguard_run l_concat F hdr regs prog = true ->
    map erase (m_xrun l_concat F hdr regs prog) = map erase (s_xrun F hdr (map (abs F) regs) prog)
    /\ (Forall (Canon F) regs -> m_xrun l_concat F hdr regs prog = s_xrun F hdr (map (abs F) regs) prog).
Proof. exact refines_x. Qed.
Print Assumptions C05_refines_x.

Theorem C05_eager_is_spec_x :
  forall F hdr prog regs,
    e_xguard_run F hdr regs prog = true -> e_xrun F hdr regs prog = s_xrun F hdr (map fst regs) prog.
Proof. exact eagerx_is_spec. Qed.
Print Assumptions C05_eager_is_spec_x.

(* THE PROPERTY for programs that may also sort: lazy run = eager run *)
Theorem C05_lazy_is_eager_x_partial :
  forall F hdr recs prog ctx,
    Forall (fun r => length (r_fields r) = nfields F) recs ->
    m_xguard_run l_concat F hdr (start recs) prog = true ->
    e_xguard_run F hdr [(rows_of_file F recs, ctx); (rows_of_file F recs, ctx)] prog = true ->
    let lazy_obs := m_xrun l_concat F hdr (start recs) prog in
    let eager_obs := e_xrun F hdr [(rows_of_file F recs, ctx); (rows_of_file F recs, ctx)] prog in
    map erase lazy_obs = map erase eager_obs
    /\ (Forall (fun r => rec_canon F r = true) recs -> lazy_obs = eager_obs).
Proof. exact lazy_is_eager_x. Qed.
Print Assumptions C05_lazy_is_eager_x_partial.

(* tie to the source for sort_by: the rules regenerated from bnpdataclass.py (key through getattr, text keys as bytes, STABLE
   argsort, self[...]; the lazy class does not override sort_by) are the model's, and m_xstep follows them *)
Theorem C05_source_tie_sort_by :
  (gen_sort_by_key_through_getattr = m_sort_by_key_through_getattr /\ gen_sort_by_text_key_bytewise = m_sort_by_text_key_bytewise
   /\ gen_sort_by_stable = m_sort_by_stable /\ gen_sort_by_indexes_self = m_sort_by_indexes_self)
  /\ (forall cc F hdr l f,
        m_sort_by_key_through_getattr && m_sort_by_stable && m_sort_by_indexes_self = true ->
        m_xstep cc F hdr [TLazy l] (XSortBy 0 f) =
        match l_get F f l with
        | Some (c, l') => ([TLazy (l_index (argsort c) l')], XOk)
        | None => ([TLazy l], XErr)
        end).
Proof. exact (conj b_sort_by s_sort_by). Qed.
Print Assumptions C05_source_tie_sort_by.

(* the extension is conservative: programs without sort_by run as before *)
Theorem C05_x_conservative :
  forall cc F hdr prog regs, m_xrun cc F hdr regs (map XB prog) = m_run6 cc F hdr regs prog.
Proof. intros. apply m_xrun_base. Qed.
Print Assumptions C05_x_conservative.

(* non-vacuity: a 9-step program with three sorts (integer key with ties, text key, after a replace), a header line, the
   read() table written: both guards hold; the observed columns are the stably sorted ones *)
Example C05_x_nonvacuous :
  wf W_bed3 X_recs
  /\ m_xguard_run l_concat W_bed3 [35; 10]%Z (start X_recs) X_prog = true
  /\ e_xguard_run W_bed3 [35; 10]%Z [(rows_of_file W_bed3 X_recs, true); (rows_of_file W_bed3 X_recs, true)] X_prog = true
  /\ nth 1 (m_xrun l_concat W_bed3 [35; 10]%Z (start X_recs) X_prog) XErr = XCol [VI 7; VI 2; VI 4; VI 1]
  /\ nth 4 (m_xrun l_concat W_bed3 [35; 10]%Z (start X_recs) X_prog) XErr = XCol [VI 6; VI 8; VI 5; VI 7]
  /\ nth 8 (m_xrun l_concat W_bed3 [35; 10]%Z (start X_recs) X_prog) XErr = XCol [VI 1; VI 2; VI 4; VI 7].
Proof. exact x_nonvacuous. Qed.

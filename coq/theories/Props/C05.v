(* Props/C05.v — lazy and eager reading are observationally equivalent.
   Statements only; every proof is `exact <lemma of Proofs/C05.v>`, followed by Print Assumptions.

   Reading guide.  m_run cc F hdr regs prog : the observations of the LAZY state machine (Model/C05.v: buffer,
   _set_values, _computed_values) running `prog` on the registers; s_run : the same program on eager row lists
   (the Spec).  abs maps a lazy state to the rows it denotes, Inv is the store invariant, Canon says that every
   record still in the buffer is canonically spelled.  `erase` blanks written bytes: values are compared on every
   file, written bytes on canonically spelled files (C04 owns pass-through of other spellings). *)
From Coq Require Import ZArith List Bool.
From BNP Require Import Base.Prims Model.C05 Proofs.C05.
Import ListNotations.

(* T3 for the code as it is (np.concatenate takes the store keys of its first operand): for EVERY format
   descriptor, register file satisfying the invariant, header and program of any length, if the executable guard
   holds along the run — every concatenate has operands with equal replaced-key sets and cached keys of the first
   present in all, no lazy/materialised mixture, no replaced column the writer cannot format, modified SAM rows have tags, no SequenceID parse
   of an empty buffer, replacement columns of the table's length — then every step of the lazy run observes what
   the eager run observes (values always; written bytes too when the records are canonically spelled). *)
Theorem C05_refines_partial :
  forall F hdr prog regs,
    Forall (Inv F) regs ->
    m_guard_run l_concat_pinned F hdr regs prog = true ->
    map erase (m_run l_concat_pinned F hdr regs prog) = map erase (s_run F hdr (map (abs F) regs) prog)
    /\ (Forall (Canon F) regs ->
        m_run l_concat_pinned F hdr regs prog = s_run F hdr (map (abs F) regs) prog).
Proof. exact refines_partial. Qed.
Print Assumptions C05_refines_partial.

(* the same from the initial state: both registers hold the table read from one well-formed file *)
Theorem C05_file_level_partial :
  forall F hdr recs prog,
    Forall (fun r => length (r_fields r) = nfields F) recs ->
    m_guard_run l_concat_pinned F hdr [TLazy (fresh recs); TLazy (fresh recs)] prog = true ->
    let lazy_obs := m_run l_concat_pinned F hdr [TLazy (fresh recs); TLazy (fresh recs)] prog in
    let eager_obs := s_run F hdr [rows_of_file F recs; rows_of_file F recs] prog in
    map erase lazy_obs = map erase eager_obs
    /\ (Forall (fun r => rec_canon F r = true) recs -> lazy_obs = eager_obs).
Proof. exact file_level_partial. Qed.
Print Assumptions C05_file_level_partial.

(* chunked read: np.concatenate of the freshly read chunks denotes the rows of the whole file, for every chunking *)
Theorem C05_chunked_init :
  forall F chunks,
    chunks <> [] -> f_concat F = true ->
    Forall (Forall (fun r => length (r_fields r) = nfields F)) chunks ->
    exists t, t_concat l_concat_pinned F (map (fun c => TLazy (fresh c)) chunks) = Some t
              /\ Inv F t /\ abs F t = rows_of_file F (concat chunks)
              /\ (Forall (Forall (fun r => rec_canon F r = true)) chunks -> Canon F t).
Proof. exact chunked_init. Qed.
Print Assumptions C05_chunked_init.

(* T4: writing — a lazy table whose records are canonically spelled writes exactly what the eager table writes,
   whether nothing was replaced (raw bytes passed through) or some columns were (re-joined field texts);
   join_ok: the buffer class joins every written row like the eager writer (false only for a SAM row with an
   empty tags field, see C05_sam_empty_tags_refuted) *)
Theorem C05_write :
  forall F hdr l b,
    InvL F l -> canonL F l -> join_ok F l = true ->
    l_write F hdr l = Some b -> b = s_write F hdr (abs F (TLazy l)).
Proof. exact l_write_ok. Qed.
Print Assumptions C05_write.

(* the unguarded statement is FALSE of the code as it is: three-step witnesses *)
Theorem C05_concat_drops_refuted :
  exists F hdr recs prog, wf F recs /\
    map erase (m_run l_concat_pinned F hdr (start recs) prog)
    <> map erase (s_run F hdr [rows_of_file F recs; rows_of_file F recs] prog).
Proof. exact concat_drops_refuted. Qed.
Print Assumptions C05_concat_drops_refuted.

Theorem C05_concat_keyerror_refuted :
  exists F hdr recs prog, wf F recs /\
    map erase (m_run l_concat_pinned F hdr (start recs) prog)
    <> map erase (s_run F hdr [rows_of_file F recs; rows_of_file F recs] prog).
Proof. exact concat_keyerror_refuted. Qed.
Print Assumptions C05_concat_keyerror_refuted.

(* T3 for the repaired concatenate (notes/C05.fix-1.diff: union of the replaced keys): the key-set condition
   disappears from the guard; what remains is the lazy/materialised mixture, unformattable replaced columns and
   the empty-buffer SequenceID parse *)
Theorem C05_refines_fixed :
  forall F hdr prog regs,
    Forall (Inv F) regs ->
    m_guard_fixed_run l_concat F hdr regs prog = true ->
    map erase (m_run l_concat F hdr regs prog) = map erase (s_run F hdr (map (abs F) regs) prog)
    /\ (Forall (Canon F) regs -> m_run l_concat F hdr regs prog = s_run F hdr (map (abs F) regs) prog).
Proof. exact refines_fixed. Qed.
Print Assumptions C05_refines_fixed.

Theorem C05_file_level_fixed :
  forall F hdr recs prog,
    Forall (fun r => length (r_fields r) = nfields F) recs ->
    m_guard_fixed_run l_concat F hdr [TLazy (fresh recs); TLazy (fresh recs)] prog = true ->
    let lazy_obs := m_run l_concat F hdr [TLazy (fresh recs); TLazy (fresh recs)] prog in
    let eager_obs := s_run F hdr [rows_of_file F recs; rows_of_file F recs] prog in
    map erase lazy_obs = map erase eager_obs
    /\ (Forall (fun r => rec_canon F r = true) recs -> lazy_obs = eager_obs).
Proof. exact file_level_fixed. Qed.
Print Assumptions C05_file_level_fixed.

(* what stays false after the repair of concatenate (each is a known finding of its own) *)
Theorem C05_concat_mixed_refuted :
  exists F hdr recs prog, wf F recs /\
    map erase (m_run l_concat F hdr (start recs) prog)
    <> map erase (s_run F hdr [rows_of_file F recs; rows_of_file F recs] prog).
Proof. exact concat_mixed_refuted. Qed.
Print Assumptions C05_concat_mixed_refuted.

Theorem C05_write_replaced_refuted :
  exists F hdr recs prog, wf F recs /\
    map erase (m_run l_concat F hdr (start recs) prog)
    <> map erase (s_run F hdr [rows_of_file F recs; rows_of_file F recs] prog).
Proof. exact write_replaced_refuted. Qed.
Print Assumptions C05_write_replaced_refuted.

Theorem C05_empty_sid_refuted :
  exists F hdr recs prog, wf F recs /\
    map erase (m_run l_concat F hdr (start recs) prog)
    <> map erase (s_run F hdr [rows_of_file F recs; rows_of_file F recs] prog).
Proof. exact empty_sid_refuted. Qed.
Print Assumptions C05_empty_sid_refuted.

(* SAMBuffer.join_fields (36989fd) writes no tab before an empty tags field, the eager writer does: on the
   canonically spelled record "a\t\n", replace + write differs *)
Theorem C05_sam_empty_tags_refuted :
  exists F hdr recs prog, wf F recs /\
    m_run l_concat F hdr (start recs) prog <> s_run F hdr [rows_of_file F recs; rows_of_file F recs] prog.
Proof. exact sam_empty_tags_refuted. Qed.
Print Assumptions C05_sam_empty_tags_refuted.

(* why written bytes are only claimed on canonically spelled files: "c\t01\t2\n" is passed through by the lazy
   writer and re-printed as "c\t1\t2\n" by the eager one, although the guard holds *)
Theorem C05_noncanonical_write_differs :
  exists F hdr recs prog,
    Forall (fun r => length (r_fields r) = nfields F) recs /\
    m_guard_run l_concat_pinned F hdr (start recs) prog = true /\
    m_run l_concat_pinned F hdr (start recs) prog <> s_run F hdr [rows_of_file F recs; rows_of_file F recs] prog.
Proof. exact noncanonical_write_differs. Qed.
Print Assumptions C05_noncanonical_write_differs.

(* non-vacuity: a ten-step program over both registers (field access, reversal, repeated integer indices,
   concatenate, replace, mask, t[-1], tolist, write) meets the guard on a canonical two-record file with a header
   line, and the bytes the model writes are the expected ones; the two concatenate witnesses agree with the eager
   table under the repaired concatenate *)
Example C05_nonvacuous :
  wf W_bed3 W_recs
  /\ m_guard_run l_concat_pinned W_bed3 [35; 10]%Z (start W_recs) W_prog = true
  /\ nth 9 (m_run l_concat_pinned W_bed3 [35; 10]%Z (start W_recs) W_prog) XErr
     = XBytes [35; 10; 100; 9; 51; 48; 9; 53; 10; 100; 9; 51; 48; 9; 55; 10; 100; 9; 51; 48; 9; 56; 10]%Z.
Proof. exact nonvacuous. Qed.

Example C05_fixed_witnesses :
  m_run l_concat W_bed3 [] (start [W_rec]) [ORep 1 1 [VI 7]; OCat 0 [0; 1]; OGet 0 1; OWrite 0]
  = s_run W_bed3 [] [rows_of_file W_bed3 [W_rec]; rows_of_file W_bed3 [W_rec]] [ORep 1 1 [VI 7]; OCat 0 [0; 1]; OGet 0 1; OWrite 0]
  /\ m_run l_concat W_bed3 [] (start [W_rec]) [OGet 0 1; OCat 0 [0; 1]; OLen 0]
  = s_run W_bed3 [] [rows_of_file W_bed3 [W_rec]; rows_of_file W_bed3 [W_rec]] [OGet 0 1; OCat 0 [0; 1]; OLen 0].
Proof. exact concat_fixed_witnesses. Qed.

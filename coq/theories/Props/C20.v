(* Props/C20.v — the property theorems for C20 (operations do not modify their inputs).
   Only statements, `exact <lemma>` and Print Assumptions live here. *)
From Coq Require Import ZArith List Bool Arith.
From BNP Require Import Base.Prims Model.C20 Proofs.C20 Gen.C20 Corr.C20 Proofs.C20_link Bridge.C20.
Import ListNotations.
Open Scope nat_scope.

(* T1 — soundness of the checker, once, for every effect program and every store: if every write of the
   program goes through an object the checker classifies as not reaching an input (a fresh array, a copy, a
   copy-on-write view, or a view of those), then after running it every buffer that existed before the call has
   its old bytes and every argument object has its old logical content. *)
Theorem C20_checker_sound : forall np p s,
  wf_init np s -> safe_prog np p = true -> unchanged np s (run p s).
Proof. exact safe_prog_sound. Qed.
Print Assumptions C20_checker_sound.

(* the verdict does not depend on run-time data, on which candidate an if/else picked, or on whether a
   view-producing operation happened to copy: it is a property of the program text *)
Theorem C20_checker_shape : forall np p q, shape p = shape q -> safe_prog np p = safe_prog np q.
Proof. exact safe_prog_shape. Qed.
Print Assumptions C20_checker_shape.

(* T2, the source tie — for every registered in-place-writing site of the anchored code, the effect program
   regenerated from the CURRENT source on this run (Gen/C20.v; translate/gen_c20.py runs the fail-closed extractor of
   harness/props/c20.py): every run-time instance of it leaves every pre-existing buffer and the logical content of
   every argument unchanged; and the generated table lists exactly the registered sites.  The per-run obligation
   behind it is Bridge/C20.v:gen_sites_safe (`safe_prog` of every generated program, by vm_compute). *)
Theorem C20_source_tie :
  map fst gen_site_table = site_ids /\
  forall sid np site p s,
    In (sid, (np, site)) gen_site_table ->
    shape p = shape site -> wf_init np s -> unchanged np s (run p s).
Proof. exact (conj gen_sites_complete gen_sites_sound). Qed.
Print Assumptions C20_source_tie.

(* HISTORY — the same statement for the programs pinned in Model/C20.v from an earlier commit (before the repair of
   _GenotypeRowEncoding.encode); these are no longer compared with the source. *)
Theorem C20_pinned_sites_partial : forall sid np site p s,
  lookup_site sid = Some (np, site) -> sid <> 14%Z ->
  shape p = shape site -> wf_init np s -> unchanged np s (run p s).
Proof. exact registered_sites_sound. Qed.
Print Assumptions C20_pinned_sites_partial.

(* ... the pinned site 14 (_GenotypeRowEncoding.encode before commit c156be0) is rejected by the checker, and an
   instance of its program does change its argument *)
Theorem C20_pinned_site14_refuted :
  safe_prog 1 site_14 = false /\
  exists p s, shape p = shape site_14 /\ wf_init 1 s /\ ~ unchanged 1 s (run p s).
Proof. exact (conj site14_rejected site14_refuted). Qed.
Print Assumptions C20_pinned_site14_refuted.

(* ... and its program after the repair has no write left *)
Theorem C20_pinned_site14_fixed : forall p s,
  shape p = shape site_14_fixed -> wf_init 1 s -> unchanged 1 s (run p s).
Proof. exact (fun p s => site_instance_sound 1 site_14_fixed p s site14_fixed_safe). Qed.
Print Assumptions C20_pinned_site14_fixed.

(* T3 — applying the same function twice: anything computed from the arguments' contents is the same after a
   safe call as before it *)
Theorem C20_twice_same : forall (R : Type) (f : list (list block) -> R) np p s,
  wf_init np s -> safe_prog np p = true ->
  f (map (fun i => content (run p s) (get_reg (run p s) i)) (seq 0 np))
  = f (map (fun i => content s (get_reg s i)) (seq 0 np)).
Proof. exact twice_same. Qed.
Print Assumptions C20_twice_same.

(* the decidable comparison used on observations implies the specification *)
Theorem C20_unchanged_decidable : forall np s s', unchanged_b np s s' = true -> unchanged np s s'.
Proof. exact unchanged_b_sound. Qed.
Print Assumptions C20_unchanged_decidable.

(* link of the two per-case verdicts: wherever the implementation agrees with the model, the property holds on
   that case.  For `site` cases "the model" is the second extraction (translator code path), required safe.  Call cases of the genotype
   encodings (site 14) are excluded: their model is the executable genotype_prog(_fixed), see below. *)
Theorem C20_model_agrees_implies_property_partial : forall c,
  (Z.eqb (k_kind c) 0 = true -> k_site c <> 14%Z) -> model_ok c = true -> spec_ok c = true.
Proof. exact model_implies_spec_partial. Qed.
Print Assumptions C20_model_agrees_implies_property_partial.

(* ... and with the model of the repaired genotype encoding (fix1_applied = true, the current setting) the link
   holds for EVERY case of all four kinds: model agrees => property holds on that case *)
Theorem C20_model_agrees_implies_property : forall c, model_ok c = true -> spec_ok c = true.
Proof. exact model_implies_spec_full. Qed.
Print Assumptions C20_model_agrees_implies_property.

(* history: with the model of the unrepaired code the exclusion was necessary *)
Theorem C20_model_agrees_implies_property_refuted :
  fix1_applied = false -> exists c, k_site c = 14%Z /\ model_ok c = true /\ spec_ok c = false.
Proof. exact model_implies_spec_refuted. Qed.
Print Assumptions C20_model_agrees_implies_property_refuted.

(* the model of the repaired genotype encoding leaves every call state unchanged *)
Theorem C20_model_fixed_unchanged : forall bufs target cow sid,
  target < length bufs ->
  unchanged 1 (call_init bufs target cow)
            (run (model_prog_fixed sid (nth target bufs [])) (call_init bufs target cow)).
Proof. exact model_call_fixed_unchanged. Qed.
Print Assumptions C20_model_fixed_unchanged.

(* non-vacuity *)
(* 1. the checker accepts and rejects: str_to_int as it is (copy before zeroing the sign) is accepted; the same
      function without the copy (what the extractor produces for that mutation) is rejected *)
Example C20_nonvacuous_checker :
  safe_prog 1 site_1 = true
  /\ safe_prog 1 [IFlatten 0; IWrite 0 0 []; IWrite 0 0 []] = false
  /\ safe_prog 1 [IView true true [0]; IWrite 1 0 []] = true          (* write through a masked (cow) selection *)
  /\ safe_prog 1 [IView false true [0]; IWrite 1 0 []] = false        (* write through a basic-slice view *)
  /\ safe_prog 1 [IView true true [0]; IFlatten 1; IView false true [1]; IWrite 2 0 []] = true
  /\ safe_prog 1 [IView true true [0]; IView false true [1]; IWrite 2 0 []] = false.  (* raw buffer of a cow view *)
Proof. vm_compute. repeat split; reflexivity. Qed.

(* 2. the store semantics really distinguishes them: writing through a copy-on-write view of a shared buffer
      leaves the buffer alone, writing through a NumPy view does not *)
Example C20_nonvacuous_store :
  let s := {| s_blocks := [[45; 49; 53]%Z]; s_regs := [{| r_blocks := [0]; r_cow := false |}] |} in
  s_blocks (run [IView true true [0]; IWrite 1 0 [48; 49; 53]%Z] s) = [[45; 49; 53]; [48; 49; 53]]%Z
  /\ s_blocks (run [IView false true [0]; IWrite 1 0 [48; 49; 53]%Z] s) = [[48; 49; 53]]%Z
  /\ unchanged_b 1 s (run [IView true true [0]; IWrite 1 0 [48; 49; 53]%Z] s) = true
  /\ unchanged_b 1 s (run [IView false true [0]; IWrite 1 0 [48; 49; 53]%Z] s) = false.
Proof. vm_compute. repeat split; reflexivity. Qed.

(* 3. a view-shaped argument: ravel() rebinds the argument itself to a private copy, and a write through the
      ravelled data then changes the argument's content although no pre-existing buffer changes
      (what GenotypeRowEncoding.encode does to a sliced text) *)
Example C20_nonvacuous_cow_argument :
  let s := call_init [[48; 47; 49; 10]%Z] 0 true in
  let s' := run (genotype_prog [48; 47; 49; 10]%Z) s in
  firstn 1 (s_blocks s') = s_blocks s /\ content s' (get_reg s' 0) = [[48; 47; 49; 9]%Z]
  /\ unchanged_b 1 s s' = false.
Proof. vm_compute. repeat split; reflexivity. Qed.

(* 4. the full link is not vacuous: a genotype-encoding call on a view-shaped argument (the model flattens it into a
      private copy) on which the model agrees with an implementation that left everything unchanged *)
Example C20_nonvacuous_link :
  let c := {| k_kind := 0; k_site := 14; k_cow := true; k_target := 0;
              k_before := [[48; 47; 49; 10]%Z]; k_after := [[48; 47; 49; 10]%Z];
              k_log_before := [1%Z]; k_log_after := [1%Z]; k_res1 := [7%Z]; k_res2 := [7%Z];
              k_w_ref := []; k_w_got := []; k_np := 0%Z; k_prog := []; k_prog2 := []; k_flags := [] |} in
  model_ok c = true /\ spec_ok c = true.
Proof. vm_compute. split; reflexivity. Qed.

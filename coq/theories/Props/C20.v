(* Props/C20.v — the property theorems for C20 (operations do not modify their inputs).
   Only statements, `exact <lemma>` and Print Assumptions live here. *)
From Coq Require Import ZArith List Bool Arith.
From BNP Require Import Base.Prims Model.C20 Proofs.C20 Gen.C20 Corr.C20 Proofs.C20_link Proofs.C20_chain Bridge.C20.
Import ListNotations.
Open Scope nat_scope.

(* T1 — soundness of the checker, once, for every effect program and every store: if every write of the
   program goes through an object the checker classifies as not reaching an input (a fresh array, a copy, a
   copy-on-write view, or a view of those), then after running it every buffer that existed before the call has
   its old bytes and every argument object has its old logical content. *)
Theorem C20_checker_sound : forall np p s,
  wf_init np s -> safe_prog np p = true -> unchanged np s (run p s).
Proof. exact safe_prog_sound. Qed.
Print Assumptions C20_checker_sound.

(* the verdict does not depend on run-time data, on which candidate an if/else picked, or on whether a
   view-producing operation happened to copy: it is a property of the program text *)
Theorem C20_checker_shape : forall np p q, shape p = shape q -> safe_prog np p = safe_prog np q.
Proof. exact safe_prog_shape. Qed.
Print Assumptions C20_checker_shape.

(* T2, the source tie — for every registered in-place-writing site of the anchored code, the effect program
   regenerated from the CURRENT source on this run (Gen/C20.v; translate/gen_c20.py runs the fail-closed extractor of
   harness/props/c20.py): every run-time instance of it leaves every pre-existing buffer and the logical content of
   every argument unchanged; and the generated table lists exactly the registered sites.  The per-run obligation
   behind it is Bridge/C20.v:gen_sites_safe (`safe_prog` of every generated program, by vm_compute). *)
Theorem C20_source_tie :
  map fst gen_site_table = site_ids /\
  forall sid np site p s,
    In (sid, (np, site)) gen_site_table ->
    shape p = shape site -> wf_init np s -> unchanged np s (run p s).
Proof. exact (conj gen_sites_complete gen_sites_sound). Qed.
Print Assumptions C20_source_tie.

(* HISTORY — the same statement for the programs pinned in Model/C20.v from an earlier commit (before the repair of
   _GenotypeRowEncoding.encode); these are no longer compared with the source. *)
Theorem C20_pinned_sites_partial : forall sid np site p s,
  lookup_site sid = Some (np, site) -> sid <> 14%Z ->
  shape p = shape site -> wf_init np s -> unchanged np s (run p s).
Proof. exact registered_sites_sound. Qed.
Print Assumptions C20_pinned_sites_partial.

(* ... the pinned site 14 (_GenotypeRowEncoding.encode before commit c156be0) is rejected by the checker, and an
   instance of its program does change its argument *)
Theorem C20_pinned_site14_refuted :
  safe_prog 1 site_14 = false /\
  exists p s, shape p = shape site_14 /\ wf_init 1 s /\ ~ unchanged 1 s (run p s).
Proof. exact (conj site14_rejected site14_refuted). Qed.
Print Assumptions C20_pinned_site14_refuted.

(* ... and its program after the repair has no write left *)
Theorem C20_pinned_site14_fixed : forall p s,
  shape p = shape site_14_fixed -> wf_init 1 s -> unchanged 1 s (run p s).
Proof. exact (fun p s => site_instance_sound 1 site_14_fixed p s site14_fixed_safe). Qed.
Print Assumptions C20_pinned_site14_fixed.

(* T3 — applying the same function twice: anything computed from the arguments' contents is the same after a
   safe call as before it *)
Theorem C20_twice_same : forall (R : Type) (f : list (list block) -> R) np p s,
  wf_init np s -> safe_prog np p = true ->
  f (map (fun i => content (run p s) (get_reg (run p s) i)) (seq 0 np))
  = f (map (fun i => content s (get_reg s i)) (seq 0 np)).
Proof. exact twice_same. Qed.
Print Assumptions C20_twice_same.

(* the decidable comparison used on observations implies the specification *)
Theorem C20_unchanged_decidable : forall np s s', unchanged_b np s s' = true -> unchanged np s s'.
Proof. exact unchanged_b_sound. Qed.
Print Assumptions C20_unchanged_decidable.

(* link of the two per-case verdicts: wherever the implementation agrees with the model, the property holds on
   that case.  For `site` cases "the model" is the second extraction (translator code path), required safe.  Call cases of the genotype
   encodings (site 14) are excluded: their model is the executable genotype_prog(_fixed), see below. *)
Theorem C20_model_agrees_implies_property_partial : forall c,
  (Z.eqb (k_kind c) 0 = true -> k_site c <> 14%Z) -> model_ok c = true -> spec_ok c = true.
Proof. exact model_implies_spec_partial. Qed.
Print Assumptions C20_model_agrees_implies_property_partial.

(* ... and with the model of the repaired genotype encoding (fix1_applied = true, the current setting) the link
   holds for EVERY case of all four kinds: model agrees => property holds on that case *)
Theorem C20_model_agrees_implies_property : forall c, model_ok c = true -> spec_ok c = true.
Proof. exact model_implies_spec_full. Qed.
Print Assumptions C20_model_agrees_implies_property.

(* history: with the model of the unrepaired code the exclusion was necessary *)
Theorem C20_model_agrees_implies_property_refuted :
  fix1_applied = false -> exists c, k_site c = 14%Z /\ model_ok c = true /\ spec_ok c = false.
Proof. exact model_implies_spec_refuted. Qed.
Print Assumptions C20_model_agrees_implies_property_refuted.

(* the model of the repaired genotype encoding leaves every call state unchanged *)
Theorem C20_model_fixed_unchanged : forall bufs target cow sid,
  target < length bufs ->
  unchanged 1 (call_init bufs target cow)
            (run (model_prog_fixed sid (nth target bufs [])) (call_init bufs target cow)).
Proof. exact model_call_fixed_unchanged. Qed.
Print Assumptions C20_model_fixed_unchanged.

(* ---- round 6 ---- *)
(* chains of calls ("hidden state": the argument of a call is what earlier calls left behind).  For every number of
   arguments, every list of programs each accepted by the checker, every store: running them one after the other on the
   same argument objects — the callee's locals dropped at each return, the argument objects kept exactly as the callee
   left them (a view-shaped argument may have rebound itself to a private copy) — leaves every buffer that existed before
   the FIRST call and the logical content of every argument unchanged; the state is again a well-formed call state. *)
Theorem C20_safe_call_chain : forall np ps s,
  wf_init np s -> forallb (safe_prog np) ps = true ->
  unchanged np s (run_calls np ps s) /\ wf_init np (run_calls np ps s)
  /\ length (s_blocks s) <= length (s_blocks (run_calls np ps s)).
Proof. exact safe_calls_chain. Qed.
Print Assumptions C20_safe_call_chain.

(* the property's "applying the same function twice", for any number of repetitions *)
Theorem C20_safe_call_repeated : forall np p k s,
  wf_init np s -> safe_prog np p = true -> unchanged np s (run_calls np (repeat p k) s).
Proof. exact safe_call_repeated. Qed.
Print Assumptions C20_safe_call_repeated.

(* the sites registered in round 6 for in-place writes OUTSIDE the anchored files (bedgraph.get_pileup, the SAM / CSV /
   matrix / multi-line FASTA / one-line writers, the named-field extractor, PWM.calculate_scores, get_ragged_changes,
   interleave, column_index_array, apply_variants_to_sequence, IntegerEncoding._encode, stream helpers ...): each has a
   program regenerated from the CURRENT source on this run, and every run-time instance of it leaves its inputs unchanged *)
Theorem C20_round6_sites_tie : forall sid,
  In sid round6_site_ids ->
  exists np site, In (sid, (np, site)) gen_site_table /\ forall p s, shape p = shape site -> wf_init np s -> unchanged np s (run p s).
Proof. exact round6_sites_sound. Qed.
Print Assumptions C20_round6_sites_tie.

(* chains of instances of the registered sites of the current source *)
Theorem C20_source_tie_chain : forall np ps s,
  (forall p, In p ps -> exists sid site, In (sid, (np, site)) gen_site_table /\ shape p = shape site) ->
  wf_init np s -> unchanged np s (run_calls np ps s).
Proof. exact gen_sites_chain_sound. Qed.
Print Assumptions C20_source_tie_chain.

(* non-vacuity *)
(* 1. the checker accepts and rejects: str_to_int as it is (copy before zeroing the sign) is accepted; the same
      function without the copy (what the extractor produces for that mutation) is rejected *)
Example C20_nonvacuous_checker :
  safe_prog 1 site_1 = true
  /\ safe_prog 1 [IFlatten 0; IWrite 0 0 []; IWrite 0 0 []] = false
  /\ safe_prog 1 [IView true true [0]; IWrite 1 0 []] = true          (* write through a masked (cow) selection *)
  /\ safe_prog 1 [IView false true [0]; IWrite 1 0 []] = false        (* write through a basic-slice view *)
  /\ safe_prog 1 [IView true true [0]; IFlatten 1; IView false true [1]; IWrite 2 0 []] = true
  /\ safe_prog 1 [IView true true [0]; IView false true [1]; IWrite 2 0 []] = false.  (* raw buffer of a cow view *)
Proof. vm_compute. repeat split; reflexivity. Qed.

(* 2. the store semantics really distinguishes them: writing through a copy-on-write view of a shared buffer
      leaves the buffer alone, writing through a NumPy view does not *)
Example C20_nonvacuous_store :
  let s := {| s_blocks := [[45; 49; 53]%Z]; s_regs := [{| r_blocks := [0]; r_cow := false |}] |} in
  s_blocks (run [IView true true [0]; IWrite 1 0 [48; 49; 53]%Z] s) = [[45; 49; 53]; [48; 49; 53]]%Z
  /\ s_blocks (run [IView false true [0]; IWrite 1 0 [48; 49; 53]%Z] s) = [[48; 49; 53]]%Z
  /\ unchanged_b 1 s (run [IView true true [0]; IWrite 1 0 [48; 49; 53]%Z] s) = true
  /\ unchanged_b 1 s (run [IView false true [0]; IWrite 1 0 [48; 49; 53]%Z] s) = false.
Proof. vm_compute. repeat split; reflexivity. Qed.

(* 3. a view-shaped argument: ravel() rebinds the argument itself to a private copy, and a write through the
      ravelled data then changes the argument's content although no pre-existing buffer changes
      (what GenotypeRowEncoding.encode does to a sliced text) *)
Example C20_nonvacuous_cow_argument :
  let s := call_init [[48; 47; 49; 10]%Z] 0 true in
  let s' := run (genotype_prog [48; 47; 49; 10]%Z) s in
  firstn 1 (s_blocks s') = s_blocks s /\ content s' (get_reg s' 0) = [[48; 47; 49; 9]%Z]
  /\ unchanged_b 1 s s' = false.
Proof. vm_compute. repeat split; reflexivity. Qed.

(* 4. the full link is not vacuous: a genotype-encoding call on a view-shaped argument (the model flattens it into a
      private copy) on which the model agrees with an implementation that left everything unchanged *)
Example C20_nonvacuous_link :
  let c := {| k_kind := 0; k_site := 14; k_cow := true; k_target := 0;
              k_before := [[48; 47; 49; 10]%Z]; k_after := [[48; 47; 49; 10]%Z];
              k_log_before := [1%Z]; k_log_after := [1%Z]; k_res1 := [7%Z]; k_res2 := [7%Z];
              k_w_ref := []; k_w_got := []; k_np := 0%Z; k_prog := []; k_prog2 := []; k_flags := [] |} in
  model_ok c = true /\ spec_ok c = true.
Proof. vm_compute. split; reflexivity. Qed.

(* 5. round 6 — chains.  (a) two accepted calls on a view-shaped argument: the first flattens the argument into a
      private copy and overwrites the copy's view-of-a-copy, the second sees the rebound argument; hypotheses of
      C20_safe_call_chain hold and the store grew (so the chain is not the identity).  (b) the chain semantics is not
      trivially "unchanged": a rejected second call that writes through the argument changes it. *)
Example C20_nonvacuous_chain :
  let s := {| s_blocks := [[45; 49; 53]%Z]; s_regs := [{| r_blocks := [0]; r_cow := true |}] |} in
  let p1 := [IFlatten 0; IView true true [0]; IWrite 1 0 [48; 49; 53]%Z] in
  let p2 := [IAlloc [7%Z]; IWrite 1 0 [8%Z]] in
  forallb (safe_prog 1) [p1; p2] = true
  /\ unchanged_b 1 s (run_calls 1 [p1; p2] s) = true
  /\ length (s_blocks (run_calls 1 [p1; p2] s)) = 4
  /\ r_blocks (get_reg (run_calls 1 [p1; p2] s) 0) = [1]
  /\ safe_prog 1 [IWrite 0 0 [48; 49; 53]%Z] = false
  /\ unchanged_b 1 s (run_calls 1 [p1; [IWrite 0 0 [48; 49; 53]%Z]] s) = false.
Proof. vm_compute. repeat split; reflexivity. Qed.

(* 6. round 6 — the new sites: the list is not empty, PWM.calculate_scores (44) and apply_variants_to_sequence (48) are
      in it and in the generated table with a program that really writes (so "safe" is not "no write at all") *)
Example C20_nonvacuous_round6 :
  length round6_site_ids = 21
  /\ existsb (Z.eqb 44) round6_site_ids = true /\ existsb (Z.eqb 48) round6_site_ids = true
  /\ existsb (fun e => Z.eqb (fst e) 48 && existsb (fun i => match i with IWrite _ _ _ => true | _ => false end) (snd (snd e)))
             gen_site_table = true.
Proof. vm_compute. repeat split; reflexivity. Qed.

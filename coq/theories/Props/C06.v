(* Props/C06.v — the property theorems for C06 (alphabet encodings accept exactly their alphabet and
   never change the text).  Only statements, `exact <lemma>` and Print Assumptions live here.

   Vocabulary (Model/C06.v):  member A c  = upper c is in A      text_ok A s = every character is a member
     spec_decode A codes = index the alphabet, None if a code is out of range
     alphabet_ok A       = ASCII, upper-cased, at most 255 members (what AlphabetEncoding.__init__ produces)
     lower_fixed / RFixed  = the repaired code (notes/C06.fix-1.diff, fix-2.diff)
     lower_pinned / RPinned = the code as it is at /repo HEAD
     shifted_nonletter A c  = c is (non-letter member of A)+32, the bytes the HEAD table adds by mistake *)
From Coq Require Import ZArith List Bool.
From BNP Require Import Base.Prims Model.C06 Corr.C06 Proofs.C06 Proofs.C06_link Proofs.C06_ext Gen.C06 Bridge.C06.
Import ListNotations.
Open Scope Z_scope.

(* ---------------------------------------------------------------- T1: the 256-entry table *)
(* every alphabet, every byte: the table gives a member the code of its upper-case form and gives
   255 (rejected, since len A <= 255) to everything else *)
Theorem C06_lookup_exact :
  forall A c, alphabet_ok A -> byte c ->
    (member A c = true -> 0 <= lookup lower_fixed A c < len A /\ nthZ A (lookup lower_fixed A c) = upper c)
    /\ (member A c = false -> lookup lower_fixed A c = 255).
Proof. exact lookup_fixed_exact. Qed.
Print Assumptions C06_lookup_exact.

(* the code at HEAD: same statement, except at the bytes (non-letter member)+32 *)
Theorem C06_lookup_pinned_partial :
  forall A c, alphabet_ok A -> byte c -> ~ shifted_nonletter A c ->
    (member A c = true -> 0 <= lookup lower_pinned A c < len A /\ nthZ A (lookup lower_pinned A c) = upper c)
    /\ (member A c = false -> lookup lower_pinned A c = 255).
Proof. exact lookup_pinned_partial. Qed.
Print Assumptions C06_lookup_pinned_partial.

(* ... and there it fails: 'P' is not a digit, the HEAD table gives it the code of '0' *)
Theorem C06_lookup_pinned_refuted :
  exists A c, alphabet_ok A /\ byte c /\ member A c = false /\ lookup lower_pinned A c = 0.
Proof. exact lookup_pinned_refuted. Qed.
Print Assumptions C06_lookup_pinned_refuted.

(* ---------------------------------------------------------------- T2: the predefined alphabets, completely *)
(* every predefined alphabet x every byte 0..255 (whole domain, by computation): the HEAD encoder accepts
   exactly members and shifted non-letters; members decode to their upper-case form; and no shifted
   non-letter is a member, i.e. each of them is a wrong acceptance *)
Theorem C06_predefined_pinned_table :
  forall A c, In A pre_alphas -> byte c ->
    (byte_code lower_pinned A c =? 255) = negb (member A c || shifted_b A c)
    /\ (member A c = true -> nthZ A (byte_code lower_pinned A c) = upper c)
    /\ (shifted_b A c = true -> member A c = false).
Proof. exact predefined_pinned_table. Qed.
Print Assumptions C06_predefined_pinned_table.

Theorem C06_predefined_fixed_table :
  forall A c, In A pre_alphas -> byte c ->
    (byte_code lower_fixed A c =? 255) = negb (member A c)
    /\ (member A c = true -> nthZ A (byte_code lower_fixed A c) = upper c).
Proof. exact predefined_fixed_table. Qed.
Print Assumptions C06_predefined_fixed_table.

Theorem C06_predefined_alphabets_ok : forall A, In A pre_alphas -> alphabet_ok A.
Proof. exact predefined_ok. Qed.
Print Assumptions C06_predefined_alphabets_ok.

(* ---------------------------------------------------------------- T3: texts of any length, rows of any shape *)
(* one flat text: accepted exactly when every character is a member, the codes then decode to the
   upper-cased text; otherwise EncodingError carrying the offset of the first foreign character *)
Theorem C06_encode_exact :
  forall A s, alphabet_ok A -> Forall byte s ->
    (text_ok A s = true ->
       exists codes, encode_flat lower_fixed A s = Ok codes /\ spec_decode A codes = Some (map upper s))
    /\ (text_ok A s = false ->
       exists o, encode_flat lower_fixed A s = EncErr o /\ 0 <= o < len s /\ member A (nthZ s o) = false
                 /\ text_ok A (firstn (Z.to_nat o) s) = true).
Proof. exact encode_fixed_exact. Qed.
Print Assumptions C06_encode_exact.

(* lists of strings / ragged arrays through every input route: row for row *)
Theorem C06_encode_rows_exact :
  forall route A rows, alphabet_ok A -> Forall (Forall byte) rows ->
    (forallb (text_ok A) rows = true ->
       exists codes, encode_rows lower_fixed route A rows = (Ok codes, lens_of rows)
         /\ spec_decode_rows A (unflatten (lens_of rows) codes) = Some (map (map upper) rows))
    /\ (forallb (text_ok A) rows = false ->
       fst (encode_rows lower_fixed route A rows) = Unicode
       \/ exists o, fst (encode_rows lower_fixed route A rows) = EncErr o /\ 0 <= o < len (concat rows)
                    /\ member A (nthZ (concat rows) o) = false
                    /\ text_ok A (firstn (Z.to_nat o) (concat rows)) = true).
Proof. exact encode_rows_fixed_exact. Qed.
Print Assumptions C06_encode_rows_exact.

Theorem C06_encode_rows_pinned_partial :
  forall route A rows, alphabet_ok A -> Forall (Forall byte) rows ->
    Forall (fun c => ~ shifted_nonletter A c) (concat rows) ->
    (forallb (text_ok A) rows = true ->
       exists codes, encode_rows lower_pinned route A rows = (Ok codes, lens_of rows)
         /\ spec_decode_rows A (unflatten (lens_of rows) codes) = Some (map (map upper) rows))
    /\ (forallb (text_ok A) rows = false ->
       fst (encode_rows lower_pinned route A rows) = Unicode
       \/ exists o, fst (encode_rows lower_pinned route A rows) = EncErr o /\ 0 <= o < len (concat rows)
                    /\ member A (nthZ (concat rows) o) = false
                    /\ text_ok A (firstn (Z.to_nat o) (concat rows)) = true).
Proof. exact encode_rows_pinned_partial. Qed.
Print Assumptions C06_encode_rows_pinned_partial.

(* "1P" is accepted by the HEAD DigitEncoding and decodes to "10" *)
Theorem C06_encode_pinned_refuted :
  exists A s codes, alphabet_ok A /\ Forall byte s /\ text_ok A s = false
    /\ encode_flat lower_pinned A s = Ok codes /\ spec_decode A codes <> Some (map upper s).
Proof. exact encode_pinned_refuted. Qed.
Print Assumptions C06_encode_pinned_refuted.

(* ---------------------------------------------------------------- T4: re-targeting already encoded data *)
(* any two encodings, any codes of the source: whenever the (repaired) rule hands data back, the data is
   unchanged and decodes in the target encoding to the same text *)
Theorem C06_retarget_sound :
  forall src dst codes codes' t,
    retarget RFixed src dst codes = Ok codes' -> dec src codes = Some t ->
    (forall raw, src = Alpha raw -> Forall (fun k => 0 <= k < len (alphabet_of raw)) codes) ->
    codes' = codes /\ dec dst codes' = Some t.
Proof. exact retarget_fixed_sound. Qed.
Print Assumptions C06_retarget_sound.

(* the rule at HEAD: sound only under the extra guard that both alphabets agree at the largest code *)
Theorem C06_retarget_pinned_partial :
  forall ra rb codes codes' t,
    retarget RPinned (Alpha ra) (Alpha rb) codes = Ok codes' -> spec_decode (alphabet_of ra) codes = Some t ->
    Forall (fun k => 0 <= k < len (alphabet_of ra)) codes ->
    (forall x r, codes = x :: r -> nthZ (alphabet_of ra) (maxl x r) = nthZ (alphabet_of rb) (maxl x r)) ->
    codes' = codes /\ spec_decode (alphabet_of rb) codes' = Some t.
Proof. exact retarget_pinned_sound. Qed.
Print Assumptions C06_retarget_pinned_partial.

(* 'ACG' in ACGT presented to ACTG is handed back and reads 'ACT' *)
Theorem C06_retarget_pinned_refuted :
  exists ra rb codes t, spec_decode (alphabet_of ra) codes = Some t
    /\ retarget RPinned (Alpha ra) (Alpha rb) codes = Ok codes
    /\ spec_decode (alphabet_of rb) codes <> Some t.
Proof. exact retarget_pinned_refuted. Qed.
Print Assumptions C06_retarget_pinned_refuted.

(* ---------------------------------------------------------------- T5: change_encoding *)
Theorem C06_change_encoding_text :
  forall ra dst codes codes',
    alphabet_ok (alphabet_of ra) -> (forall rb, dst = Alpha rb -> alphabet_ok (alphabet_of rb)) ->
    change lower_fixed (Alpha ra) dst codes = Ok codes' ->
    exists t, spec_decode (alphabet_of ra) codes = Some t /\ dec dst codes' = Some t.
Proof. exact change_fixed_sound. Qed.
Print Assumptions C06_change_encoding_text.

Theorem C06_change_encoding_pinned_partial :
  forall ra dst codes codes',
    alphabet_ok (alphabet_of ra) -> (forall rb, dst = Alpha rb -> alphabet_ok (alphabet_of rb)) ->
    (forall rb t, dst = Alpha rb -> spec_decode (alphabet_of ra) codes = Some t ->
       Forall (fun c => ~ shifted_nonletter (alphabet_of rb) c) t) ->
    change lower_pinned (Alpha ra) dst codes = Ok codes' ->
    exists t, spec_decode (alphabet_of ra) codes = Some t /\ dec dst codes' = Some t.
Proof. exact change_pinned_partial. Qed.
Print Assumptions C06_change_encoding_pinned_partial.

(* amino acids "PQ" changed to DigitEncoding at HEAD become "01" *)
Theorem C06_change_encoding_pinned_refuted :
  exists ra rb codes codes' t, spec_decode (alphabet_of ra) codes = Some t
    /\ change lower_pinned (Alpha ra) (Alpha rb) codes = Ok codes'
    /\ spec_decode (alphabet_of rb) codes' <> Some t.
Proof. exact change_pinned_refuted. Qed.
Print Assumptions C06_change_encoding_pinned_refuted.

(* ---------------------------------------------------------------- link: model agrees => property holds *)
(* For every well-formed case of any size, the observation the (repaired) model predicts satisfies the
   check's own verdict Corr.C06.spec_ok.  These link theorems are about the REPAIRED variants only (lower_fixed,
   RFixed) — which are the variants in /repo since c99b89e / f03a70b and the ones Corr.C06.model_ok compares with
   (cur_lower = lower_fixed, cur_rule = RFixed).  For the code before the repairs only the guarded `_partial`
   theorems above hold, and there is deliberately no link theorem for it.
   EncodingError.offset: the property text only says "otherwise raises an encoding error", so spec_ok does not
   constrain the offset; C06_encode_exact / C06_encode_rows_exact prove that the model reports the position of the
   first foreign character (over the flattened rows) and model_ok compares the implementation's offset with it.  So when model_ok holds for a case (the implementation returned
   what the model predicts) spec_ok holds too. *)
Theorem C06_link_encode :
  forall ru c raw,
    k_kind c = 0 -> k_dst c = Alpha raw -> alphabet_ok (alphabet_of raw) -> Forall (Forall byte) (k_rows c) ->
    spec_ok (set_out c (model_out_with lower_fixed ru c)) = true.
Proof. exact link_encode. Qed.
Print Assumptions C06_link_encode.

Theorem C06_link_retarget :
  forall L c ra,
    k_kind c = 1 -> k_src c = Alpha ra ->
    Forall (fun k => 0 <= k < len (alphabet_of ra)) (concat (k_rows c)) ->
    spec_ok (set_out c (model_out_with L RFixed c)) = true.
Proof. exact link_retarget. Qed.
Print Assumptions C06_link_retarget.

Theorem C06_link_change :
  forall ru c ra,
    k_kind c = 2 -> k_src c = Alpha ra -> alphabet_ok (alphabet_of ra) ->
    (forall rb, k_dst c = Alpha rb -> alphabet_ok (alphabet_of rb)) ->
    spec_ok (set_out c (model_out_with lower_fixed ru c)) = true.
Proof. exact link_change. Qed.
Print Assumptions C06_link_change.

Theorem C06_link_table :
  forall c raw,
    k_kind c = 3 -> k_dst c = Alpha raw -> alphabet_ok (alphabet_of raw) -> len (k_table c) <= 256 ->
    k_alpha c = alphabet_of raw ->
    k_table c = map (byte_code lower_fixed (alphabet_of raw)) (arange (len (k_table c))) ->
    spec_ok c = true.
Proof. exact link_table. Qed.
Print Assumptions C06_link_table.

Theorem C06_link_numeric :
  forall L v c mc,
    k_kind c = 4 -> k_alpha c = [mc] -> 0 <= mc -> Forall (Forall byte) (k_rows c) ->
    spec_ok (set_out c (model_out_ext L v c)) = true.
Proof. exact link_numeric. Qed.
Print Assumptions C06_link_numeric.

(* StringEncoding, repaired variant (verify = true, notes/C06.fix-3.diff); at HEAD (verify = false) the statement is
   false: C06_string_pinned_refuted *)
Theorem C06_link_string :
  forall c n,
    k_kind c = 5 -> k_alpha c = [Z.of_nat n] ->
    nodupb (map str_hash (firstn n (k_rows c))) = true ->
    spec_ok (set_out c (model_out_ext lower_fixed true c)) = true.
Proof. exact link_string. Qed.
Print Assumptions C06_link_string.

(* ---------------------------------------------------------------- source tie (translator + bridge) *)
(* The kernels regenerated from /repo on this run (Gen/C06.v, written by translate/run.py + translate/gen_c06.py) are
   the definitions the theorems above are about: __init__'s upper-casing, the complete table construction of
   _initialize (which positions get which code), _encode's per-element lookup / rejection test / invalid mark /
   reported offset (the encoder reassembled from generated pieces only), _decode's indexing, the re-targeting
   rule's m, prefix lengths [:m + 1] and fit test m < len(target), and the numeric offset encodings. *)
Theorem C06_source_tie :
  (forall raw, gen_raw_alphabet raw = alphabet_of raw)
  /\ (forall A, gen_alphabet_size A = len A /\ gen_build_lookup A = build_lookup lower_fixed A)
  /\ (forall tbl b r n, gen_encode_elem tbl b = nthZ tbl b /\ gen_encode_reject r n = (n <=? r))
  /\ gen_encode_invalid_code = invalid_code /\ gen_encode_offset_pick = 0
  /\ (forall A s, encode_flat lower_fixed A s =
        (let ret := map (gen_encode_elem (gen_build_lookup A)) s in
         if existsb (fun r => gen_encode_reject r (gen_alphabet_size A)) ret then
           match nth_error (positions gen_encode_invalid_code ret) (Z.to_nat gen_encode_offset_pick) with
           | Some o => EncErr o | None => Crash end
         else Ok ret))
  /\ (forall A k, gen_decode_elem A k = nthZ A k)
  /\ (forall size mx m n, gen_retarget_m size mx = m_retarget_m size mx
                          /\ gen_retarget_prefix_src m = m_prefix_len m /\ gen_retarget_prefix_dst m = m_prefix_len m
                          /\ gen_retarget_fits m n = m_fits m n)
  /\ (forall x mc, gen_numeric_encode x mc = num_encode x mc /\ gen_numeric_decode x mc = num_decode x mc)
  /\ (gen_digit_min_code = digit_min_code /\ gen_quality_min_code = quality_min_code /\ gen_cigar_min_code = cigar_min_code).
Proof.
  exact (conj b_raw_alphabet
        (conj (fun A => conj (b_alphabet_size A) (b_build_lookup A))
        (conj (fun tbl b r n => conj (b_encode_elem tbl b) (b_encode_reject r n))
        (conj b_encode_invalid_code (conj b_encode_offset_pick
        (conj encode_flat_from_gen
        (conj b_decode_elem
        (conj (fun size mx m n => conj (b_retarget_m size mx) (conj (b_retarget_prefix_src m) (conj (b_retarget_prefix_dst m) (b_retarget_fits m n))))
        (conj (fun x mc => conj (b_numeric_encode x mc) (b_numeric_decode x mc))
              b_min_codes))))))))).
Qed.
Print Assumptions C06_source_tie.

(* the numeric offset encodings are inverse to each other for every min_code *)
Theorem C06_numeric_roundtrip :
  forall b mc, num_decode (num_encode b mc) mc = b /\ num_encode (num_decode b mc) mc = b.
Proof. exact (fun b mc => conj (Z.sub_add mc b) (Z.add_simpl_r b mc)). Qed.
Print Assumptions C06_numeric_roundtrip.

(* ---------------------------------------------------------------- numeric offset encodings (encodings/__init__.py) *)
(* Digit / Quality / Cigar encodings compute in uint8: every byte is accepted; decode gives the byte back for EVERY
   byte and every min_code; a byte in the valid range [min_code, 255] is encoded as its distance b - min_code, which
   lies in [0, 255 - min_code]; below min_code the subtraction wraps to b - min_code + 256 (no error is raised). *)
Theorem C06_numeric_u8_roundtrip :
  forall b mc, byte b -> num_decode_u8 (num_encode_u8 b mc) mc = b.
Proof. exact num_roundtrip_u8. Qed.
Print Assumptions C06_numeric_u8_roundtrip.

Theorem C06_numeric_u8_valid_range :
  forall b mc, 0 <= mc -> mc <= b < 256 -> num_encode_u8 b mc = b - mc /\ 0 <= b - mc <= 255 - mc.
Proof. exact num_encode_u8_in_range. Qed.
Print Assumptions C06_numeric_u8_valid_range.

Theorem C06_numeric_u8_below_range_wraps :
  forall b mc, 0 <= b < mc -> mc < 256 -> num_encode_u8 b mc = b - mc + 256.
Proof. exact num_encode_u8_below. Qed.
Print Assumptions C06_numeric_u8_below_range_wraps.

(* rows of any shape through every route: encode then decode gives the rows back *)
Theorem C06_numeric_rows_roundtrip :
  forall route mc rows, Forall (Forall byte) rows -> route <> 9 ->
    is_str_route route && existsb (fun c => 128 <=? c) (concat rows) = false ->
    num_rows route mc rows = (Ok [], map (map (fun b => num_encode_u8 b mc)) rows, rows).
Proof. exact num_rows_roundtrip. Qed.
Print Assumptions C06_numeric_rows_roundtrip.

(* ---------------------------------------------------------------- StringEncoding (string_encodings.py, util/ascii_hash.py) *)
(* labels whose hashes are distinct (the constructor asserts it): every list of labels is encoded as the list of
   their positions and decodes back to itself — both for the code at HEAD (verify = false) and the repaired code *)
Theorem C06_string_roundtrip :
  forall v labels (ks : list nat), nodupb (map str_hash labels) = true ->
    Forall (fun k => (k < length labels)%nat) ks ->
    str_encode v labels (map (fun k => nth k labels []) ks) = Ok (map Z.of_nat ks)
    /\ str_decode labels (map Z.of_nat ks) = Some (map (fun k => nth k labels []) ks).
Proof. exact str_encode_labels. Qed.
Print Assumptions C06_string_roundtrip.

(* repaired (notes/C06.fix-3.diff, verify = true): whatever is accepted decodes to exactly the queries, and a
   query that is not a label makes the call raise EncodingError *)
Theorem C06_string_sound :
  forall labels qs idx, str_encode true labels qs = Ok idx -> str_decode labels idx = Some qs.
Proof. exact str_encode_true_sound. Qed.
Print Assumptions C06_string_sound.

Theorem C06_string_rejects_unknown :
  forall labels qs q, nodupb (map str_hash labels) = true -> In q qs -> ~ In q labels ->
    str_encode true labels qs = EncErr 0.
Proof. exact str_encode_true_reject. Qed.
Print Assumptions C06_string_rejects_unknown.

(* the code at HEAD looks labels up by hash only: an unknown query is rejected only if its hash is not a label's *)
Theorem C06_string_pinned_partial :
  forall labels qs q, nodupb (map str_hash labels) = true -> In q qs ->
    ~ In (str_hash q) (map str_hash labels) -> str_encode false labels qs = EncErr 0.
Proof. exact str_encode_pinned_partial. Qed.
Print Assumptions C06_string_pinned_partial.

(* ... and "vjPac9" has the hash of "chr1": accepted as code 0, decodes to "chr1" *)
Theorem C06_string_pinned_refuted :
  exists labels q idx, nodupb (map str_hash labels) = true /\ ~ In q labels
    /\ str_encode false labels [q] = Ok idx /\ str_decode labels idx <> Some [q].
Proof. exact str_encode_pinned_refuted. Qed.
Print Assumptions C06_string_pinned_refuted.

(* ---------------------------------------------------------------- KmerEncoding (kmer_encodings.py) *)
(* base-n digits: the number of a k-mer determines its letters *)
Theorem C06_kmer_digits :
  forall n codes, 0 < n -> Forall (fun c => 0 <= c < n) codes ->
    kmer_digits n (length codes) (kmer_hash n codes) = codes.
Proof. exact kmer_digits_hash. Qed.
Print Assumptions C06_kmer_digits.

(* accepted exactly when the text has k letters of the alphabet (case-insensitively); to_string gives the
   upper-cased text back *)
Theorem C06_kmer_exact :
  forall A k s, alphabet_ok A -> Forall byte s ->
    (len s = k -> text_ok A s = true ->
       exists h, kmer_encode lower_fixed A k s = Ok [h] /\ kmer_to_string A k h = Some (map upper s))
    /\ (len s <> k \/ text_ok A s = false -> forall hs, kmer_encode lower_fixed A k s <> Ok hs).
Proof. exact kmer_encode_exact. Qed.
Print Assumptions C06_kmer_exact.

Theorem C06_kmer_injective :
  forall A k s1 s2 h, alphabet_ok A -> Forall byte s1 -> Forall byte s2 ->
    kmer_encode lower_fixed A k s1 = Ok [h] -> kmer_encode lower_fixed A k s2 = Ok [h] -> map upper s1 = map upper s2.
Proof. exact kmer_injective. Qed.
Print Assumptions C06_kmer_injective.

(* ---------------------------------------------------------------- non-vacuity *)
(* "acgTn" over ACGTN meets the hypotheses and the executable model returns codes decoding to "ACGTN";
   a list with an empty row and a foreign 'x' in the third row reports flat offset 3 *)
Example C06_nonvacuous_encode :
  let A := alphabet_of [65;67;71;84;110] in
  encode_rows lower_fixed 2 A [[97;99;103;84;110]] = (Ok [0;1;2;3;4], [5%nat])
  /\ spec_decode A [0;1;2;3;4] = Some (map upper [97;99;103;84;110])
  /\ fst (encode_rows lower_fixed 2 A [[97;99]; []; [71;120]]) = EncErr 3
  /\ fst (encode_rows lower_pinned 2 A [[97;99]; []; [71;120]]) = EncErr 3.
Proof. vm_compute. repeat split; reflexivity. Qed.

(* the repaired rule refuses ACGT -> ACTG for 'ACG' and allows it for 'AC'; change_encoding maps G's code *)
Example C06_nonvacuous_retarget :
  let ACGT := [65;67;71;84] in let ACTG := [65;67;84;71] in
  retarget RFixed (Alpha ACGT) (Alpha ACTG) [0;1;2] = EncExc
  /\ retarget RFixed (Alpha ACGT) (Alpha ACTG) [0;1;1] = Ok [0;1;1]
  /\ retarget RFixed (Alpha ACGT) (Alpha ACTG) [] = Ok []
  /\ retarget RPinned (Alpha ACGT) (Alpha ACTG) [] = Crash
  /\ change lower_fixed (Alpha ACGT) (Alpha ACTG) [0;1;2] = Ok [0;1;3].
Proof. vm_compute. repeat split; reflexivity. Qed.

(* the complete list of bytes wrongly accepted at HEAD, per predefined alphabet
   (ACTG, ACGT, ACTGN, ACGTN, digits: P..Y, ACUG, amino: J, BAM: ], CIGAR ops: ], strand: K M N) *)
Example C06_wrongly_accepted_at_head :
  wrongly_accepted = [ []; []; []; []; [80;81;82;83;84;85;86;87;88;89]; []; [74]; [93]; [93]; [75;77;78] ].
Proof. vm_compute. reflexivity. Qed.

(* quality '!' 'I' '~' and the out-of-range ' ' (wraps to 255); "chr2" among four labels; "acG" as a 3-mer *)
Example C06_nonvacuous_ext :
  num_rows 2 33 [[33;73;126]; []; [32]] = (Ok [], [[0;40;93]; []; [255]], [[33;73;126]; []; [32]])
  /\ str_encode false chr_labels [[99;104;114;50]; [65]] = Ok [1;2]
  /\ str_encode true chr_labels [[118;106;80;97;99;57]] = EncErr 0
  /\ kmer_encode lower_fixed [65;67;71;84] 3 [97;99;71] = Ok [36]
  /\ kmer_to_string [65;67;71;84] 3 36 = Some [65;67;71].
Proof. vm_compute. repeat split; reflexivity. Qed.

(* Props/C09.v — the property theorems for C09 (genomic arrays are exact, lossless views of dense
   per-base arrays).  Only statements, `exact <lemma>` and Print Assumptions live here. *)
From Coq Require Import ZArith List Bool.
From BNP Require Import Base.Prims Model.C09 Proofs.C09 Proofs.C09_depth Proofs.C09_genome Proofs.C09_mask Model.C09_pileup Proofs.C09_pileup Proofs.C09_pileup_abs Gen.C09 Bridge.C09.
Import ListNotations.
Open Scope Z_scope.

(* T1: GenomicRunLengthArray.to_array — scattering the xor-differences of neighbouring run values at
   the run starts and xor-accumulating gives exactly the expansion of the runs, for every
   well-formed run-length array (any number of runs, any values: bool, int64, float bit patterns). *)
Theorem C09_to_array_expand : forall r, wf_rle r = true -> to_array r = expand r.
Proof. exact to_array_expand. Qed.
Print Assumptions C09_to_array_expand.

(* T2: from_bedgraph — for every non-empty list of sorted, non-overlapping, non-empty records inside
   [0, size] (with or without gaps, starting at 0 or later, ending at size or earlier: all path
   combinations in one statement) the constructor succeeds, the result passes the RunLengthArray
   assertions, has length size and expands to exactly the dense array the records describe, zero in
   gaps.  The dtype kind is the column's when the last record ends at size, else what np.append gives. *)
Theorem C09_from_bedgraph_dense : forall ak k recs size,
  recs <> [] -> sorted_disjoint 0 recs = true -> all_le size recs = true ->
  exists r, from_bedgraph_gen ak k recs size = Some ((if size =? last_stop recs then k else ak k), r)
    /\ wf_rle r = true /\ rle_len r = size /\ expand r = dense_of vzero recs size.
Proof. exact from_bedgraph_dense. Qed.
Print Assumptions C09_from_bedgraph_dense.

Theorem C09_from_bedgraph_empty : forall ak k size, 0 < size ->
  exists r, from_bedgraph_gen ak k [] size = Some (KI, r)
    /\ wf_rle r = true /\ rle_len r = size /\ expand r = dense_of vzero [] size.
Proof. exact from_bedgraph_empty. Qed.
Print Assumptions C09_from_bedgraph_empty.

(* dtype: the repaired constructor keeps the column's kind on every path ... *)
Theorem C09_from_bedgraph_kind_fixed : forall k recs size,
  recs <> [] -> sorted_disjoint 0 recs = true -> all_le size recs = true ->
  exists r, from_bedgraph_fixed k recs size = Some (k, r).
Proof. exact from_bedgraph_kind_fixed. Qed.
Print Assumptions C09_from_bedgraph_kind_fixed.
(* ... the code at /repo HEAD keeps it only when the last record ends at size or the column is not Boolean ... *)
Theorem C09_from_bedgraph_kind_partial : forall k recs size,
  recs <> [] -> sorted_disjoint 0 recs = true -> all_le size recs = true ->
  (size = last_stop recs \/ k <> KB) ->
  exists r, from_bedgraph_pinned k recs size = Some (k, r).
Proof. exact from_bedgraph_kind_partial. Qed.
Print Assumptions C09_from_bedgraph_kind_partial.
(* ... and loses it otherwise: a Boolean record [0,1) on a contig of size 2 comes back as int64. *)
Theorem C09_from_bedgraph_kind_refuted :
  exists k recs size r, recs <> [] /\ sorted_disjoint 0 recs = true /\ all_le size recs = true
    /\ from_bedgraph_pinned k recs size = Some (KI, r) /\ k = KB.
Proof. exact from_bedgraph_kind_refuted. Qed.
Print Assumptions C09_from_bedgraph_kind_refuted.

(* T3: from_intervals with a scalar value — for every list of non-empty, strictly separated intervals
   inside [0, size] (first one starting at 0 or later, last one ending at size or earlier, or no interval at
   all) the constructor succeeds, the result is well-formed, has length size and expands to `value` inside
   the intervals and the (cast) default outside.  Partial: touching intervals are excluded, see below. *)
Theorem C09_from_intervals_dense_partial : forall ivs size k value default,
  0 < size -> ivs_ok ivs -> ends_last 0 ivs <= size ->
  exists r, from_intervals_scalar_gen clean_pinned (map fst ivs) (map snd ivs) size k value default = Some (k, r)
    /\ wf_rle r = true /\ rle_len r = size
    /\ expand r = dense_of (cast_to k default) (iv_recs value ivs) size.
Proof. exact from_intervals_dense. Qed.
Print Assumptions C09_from_intervals_dense_partial.
(* touching intervals pass from_intervals' own assertions but the pinned code then fails in the
   RunLengthArray constructor (do_clean=True is ignored); with empty runs removed (notes/C09.fix-3.diff)
   the same input gives the right dense array. *)
Theorem C09_from_intervals_touching_refuted :
  exists starts ends size,
    all_true (map2 Z.ltb starts ends) = true /\ all_true (map2 Z.leb (removelast ends) (tl starts)) = true
    /\ from_intervals_scalar_gen clean_pinned starts ends size KB vone vzero = None
    /\ exists r, from_intervals_scalar_gen clean_fixed starts ends size KB vone vzero = Some (KB, r)
                 /\ expand r = dense_of vzero [(1, 3, vone); (3, 5, vone)] size.
Proof. exact from_intervals_touching_refuted. Qed.
Print Assumptions C09_from_intervals_touching_refuted.
(* per-interval values: the pinned code raises for every input (np.broadcast object has no dtype) *)
Theorem C09_from_intervals_array_refuted :
  forall starts ends size k values default, from_intervals_array_pinned starts ends size k values default = None.
Proof. exact from_intervals_array_refuted. Qed.
Print Assumptions C09_from_intervals_array_refuted.

(* T4: to_dict()[chromosome] = track[offset : offset+size].to_array() is the slice of the dense genome-wide
   array, of length size (npstructures' slicing modelled as clipping of the runs). *)
Theorem C09_to_dict_entry : forall a b r, wf_rle r = true -> 0 <= a -> a < b -> b <= rle_len r ->
  to_array (slice_rle a b r) = slice a b (expand r) /\ len (to_array (slice_rle a b r)) = b - a.
Proof. exact to_dict_entry. Qed.
Print Assumptions C09_to_dict_entry.

(* to_dict() over the whole genome: the per-chromosome arrays have the contig sizes as lengths and their
   concatenation in genome order is exactly the expansion of the genome-wide run-length array
   (offsets = insert(cumsum(sizes), 0, 0)). *)
Theorem C09_to_dict_concat : forall sizes r,
  wf_rle r = true -> all_pos sizes = true -> rle_len r = total_size sizes ->
  concat (model_to_dict sizes r) = expand r /\ map len (model_to_dict sizes r) = sizes.
Proof. exact to_dict_concat. Qed.
Print Assumptions C09_to_dict_concat.

(* back-conversion (get_data) of one chromosome's slice: the rows are non-overlapping, in order, inside
   the chromosome, and expand to exactly the same dense array; for a Boolean array only the True runs
   are kept and the rest reads back as False. *)
Theorem C09_get_data_roundtrip : forall c s, wf_rle s = true ->
  let recs := strip (runs_records c 0 (runs_of s)) in
  sorted_disjoint 0 recs = true /\ all_le (rle_len s) recs = true
  /\ dense_of vzero recs (rle_len s) = expand s.
Proof. exact get_data_roundtrip. Qed.
Print Assumptions C09_get_data_roundtrip.
Theorem C09_get_data_roundtrip_bool : forall c s, wf_rle s = true ->
  (forall v, In v (snd s) -> v = vzero \/ v = vone) ->
  let recs := strip (true_recs (runs_records c 0 (runs_of s))) in
  sorted_disjoint 0 recs = true /\ all_le (rle_len s) recs = true
  /\ dense_of vzero recs (rle_len s) = expand s.
Proof. exact get_data_roundtrip_bool. Qed.
Print Assumptions C09_get_data_roundtrip_bool.

(* T5 (partial: about the abstract model of npstructures' RunLengthArray.__array_ufunc__ — common
   refinement of the two event lists, then join of equal neighbours — not about npstructures' source):
   a binary ufunc on two run-length arrays of equal length is the pointwise ufunc on the dense arrays;
   the result is again well-formed and of the same length. *)
Theorem C09_ufunc_pointwise_partial : forall f a b,
  wf_rle a = true -> wf_rle b = true -> rle_len a = rle_len b ->
  exists r, rle_zip f a b = Some r /\ wf_rle r = true /\ rle_len r = rle_len a
            /\ expand r = map2 f (expand a) (expand b).
Proof. exact rle_zip_pointwise. Qed.
Print Assumptions C09_ufunc_pointwise_partial.

(* every expression tree over {+,-,*,<,>,==,&,|,~} with array and scalar operands, of any depth: if the
   run-length evaluation succeeds, the dense evaluation gives the same dtype kind and the expansion of
   the run-length result (same partiality as above). *)
Theorem C09_expression_pointwise_partial : forall n leaves e k r,
  (forall l, In l leaves -> wf_rle (snd l) = true /\ rle_len (snd l) = n) ->
  model_eval leaves e = Some (k, r) ->
  wf_rle r = true /\ rle_len r = n /\ spec_eval (map dense_leaf leaves) e = Some (k, expand r).
Proof. exact eval_pointwise. Qed.
Print Assumptions C09_expression_pointwise_partial.

(* np.histogram: run values weighted by run lengths = histogram of the dense array, for every edge list *)
Theorem C09_histogram_partial : forall edges r, wf_rle r = true -> model_hist edges r = spec_hist edges (expand r).
Proof. exact hist_weighted. Qed.
Print Assumptions C09_histogram_partial.

(* np.sum on Boolean / integer tracks: sum(diff(events) * values) = sum of the dense array
   (partial: float tracks are covered by the correspondence check only) *)
Theorem C09_sum_int_partial : forall r, wf_rle r = true -> (forall v, In v (snd r) -> snd v = 0) ->
  model_sum r = vsum (expand r).
Proof. exact sum_int_partial. Qed.
Print Assumptions C09_sum_int_partial.

(* ====================================================================================== *)
(* Phase 3: genome level, converse, repaired from_intervals, get_mask end to end            *)
(* ====================================================================================== *)

(* G1: Genome.get_track(bedGraph).to_dict().  For every genome of positive chromosome sizes and every non-empty list
   of local records in genome order (chromosome index non-decreasing; inside a chromosome sorted, non-overlapping,
   touching allowed; every record non-empty and inside its chromosome): the coordinate shift succeeds, from_bedgraph
   succeeds on the global records, and the per-chromosome arrays are exactly the dense arrays the records of that
   chromosome describe, zero in gaps — 1..n chromosomes, records ending at a chromosome end next to records starting
   at 0 of the next one included. *)
Theorem C09_track_genome : forall ak k sizes recs,
  all_pos sizes = true -> recs <> [] -> grecs_valid sizes 0 0 recs = true ->
  exists g r k', to_global sizes recs = Some g
    /\ from_bedgraph_gen ak k g (total_size sizes) = Some (k', r)
    /\ wf_rle r = true /\ rle_len r = total_size sizes
    /\ model_to_dict sizes r = spec_track vzero sizes recs.
Proof. exact track_genome. Qed.
Print Assumptions C09_track_genome.
Theorem C09_track_genome_empty : forall ak k sizes, all_pos sizes = true -> sizes <> [] ->
  exists r, to_global sizes [] = Some [] /\ from_bedgraph_gen ak k [] (total_size sizes) = Some (KI, r)
    /\ model_to_dict sizes r = spec_track vzero sizes [].
Proof. exact track_genome_empty. Qed.
Print Assumptions C09_track_genome_empty.

(* G2: get_data() over the whole genome: the rows come in genome order, per chromosome they are in order,
   non-overlapping and inside the chromosome, and expanding them (zero / False in gaps) gives exactly to_dict(). *)
Theorem C09_get_data_genome : forall sizes k r,
  wf_rle r = true -> all_pos sizes = true -> rle_len r = total_size sizes -> (k = KB -> bool_valued r) ->
  let recs := model_get_data sizes k r in
  chroms_sorted recs = true
  /\ (forall c, 0 <= c < len sizes ->
        sorted_disjoint 0 (on_chrom c recs) = true /\ all_le (nthZ sizes c) (on_chrom c recs) = true)
  /\ spec_track vzero sizes recs = model_to_dict sizes r.
Proof. exact get_data_genome. Qed.
Print Assumptions C09_get_data_genome.

(* G3: coordinate statement for masks and pileups: an array that expands to "some interval covers" / "number of covering
   intervals" on the flat genome axis has, per chromosome, exactly that chromosome's mask / pileup. *)
Theorem C09_mask_genome : forall sizes recs r,
  all_pos sizes = true -> (forall x, In x recs -> rec_in sizes x) ->
  wf_rle r = true -> rle_len r = total_size sizes -> expand r = tabulate (any_at (glob sizes recs)) 0 (total_size sizes) ->
  model_to_dict sizes r = spec_mask sizes recs.
Proof. exact mask_genome. Qed.
Print Assumptions C09_mask_genome.
Theorem C09_pileup_genome : forall sizes recs r,
  all_pos sizes = true -> (forall x, In x recs -> rec_in sizes x) ->
  wf_rle r = true -> rle_len r = total_size sizes -> expand r = tabulate (count_at (glob sizes recs)) 0 (total_size sizes) ->
  model_to_dict sizes r = spec_pileup sizes recs.
Proof. exact pileup_genome. Qed.
Print Assumptions C09_pileup_genome.

(* G4: get_mask end to end, intervals in any order on any chromosomes.  The merge step is a hypothesis in the words of
   C08_merge_relational (distance 0) / C08_mask_is_positive_coverage: the sorted, merged, non-empty intervals m are in
   order, non-overlapping, inside the genome and cover exactly the covered bases.  Then the shift succeeds,
   get_boolean_mask succeeds and to_dict() is the per-chromosome mask. *)
Theorem C09_mask_end_to_end_partial : forall sizes recs,
  all_pos sizes = true -> sizes <> [] -> (forall r, In r recs -> iv_in sizes r) ->
  let g := glob sizes recs in
  let m := filter (fun '(s, e) => negb (s =? e)) (merge_sorted (sort_by_start g)) in
  sorted_disjoint 0 (iv_recs vone m) = true -> all_le (total_size sizes) (iv_recs vone m) = true ->
  (forall p, any_at (iv_recs vone m) p = any_at g p) ->
  exists r, to_global sizes recs = Some g /\ boolean_mask g (total_size sizes) = Some (KB, r)
            /\ model_to_dict sizes r = spec_mask sizes recs.
Proof. exact mask_genome_full. Qed.
Print Assumptions C09_mask_end_to_end_partial.

(* G4': get_mask end to end, NO hypothesis on the merge step (round 6).  For every interval multiset — any order,
   overlapping, nested, touching, duplicated, zero-length, at chromosome ends — on a genome of any number of chromosomes
   (iv_ok: known chromosome, 0 <= start < chromosome size, start <= stop <= chromosome size, i.e. what
   GlobalOffset.start_ends_from_intervals accepts): the shift to global coordinates succeeds, get_boolean_mask (stable sort
   on start, merge_intervals, drop empty, from_intervals) succeeds, and to_dict() is, per chromosome, the dense Boolean array
   "base covered by some interval" of the chromosome's length.  The merge walk of Model/C09.v is the scan [go 0] of
   Proofs/C08_merge.v; its correctness lemmas are imported from C08 (Proofs/C09_mask.v). *)
Theorem C09_mask_end_to_end : forall sizes recs,
  all_pos sizes = true -> sizes <> [] -> (forall r, In r recs -> iv_ok sizes r) ->
  exists r, to_global sizes recs = Some (glob sizes recs)
            /\ boolean_mask (glob sizes recs) (total_size sizes) = Some (KB, r)
            /\ model_to_dict sizes r = spec_mask sizes recs.
Proof. exact mask_end_to_end. Qed.
Print Assumptions C09_mask_end_to_end.
(* the three facts the _partial theorem assumed, now proved for every flat interval multiset inside [0, size] *)
Theorem C09_mask_merge_facts : forall recs size, 0 <= size ->
  (forall r, In r recs -> 0 <= st r /\ st r <= en r /\ en r <= size) ->
  let m := filter (fun '(s, e) => negb (s =? e)) (merge_sorted (sort_by_start recs)) in
  sorted_disjoint 0 (iv_recs vone m) = true /\ all_le size (iv_recs vone m) = true
  /\ (forall p, any_at (iv_recs vone m) p = any_at recs p).
Proof. exact mask_merge_facts. Qed.
Print Assumptions C09_mask_merge_facts.
(* G4'': back-conversion of the mask: get_data() of get_mask() (the True runs per chromosome) gives rows in genome order, per
   chromosome sorted, non-overlapping and inside the chromosome, which expand (False elsewhere) to the same per-chromosome mask. *)
Theorem C09_mask_back_conversion : forall sizes recs,
  all_pos sizes = true -> sizes <> [] -> (forall r, In r recs -> iv_ok sizes r) ->
  exists r, boolean_mask (glob sizes recs) (total_size sizes) = Some (KB, r)
    /\ let rows := model_get_data sizes KB r in
       chroms_sorted rows = true
       /\ (forall c, 0 <= c < len sizes ->
             sorted_disjoint 0 (on_chrom c rows) = true /\ all_le (nthZ sizes c) (on_chrom c rows) = true)
       /\ spec_track vzero sizes rows = spec_mask sizes recs.
Proof. exact mask_back_conversion. Qed.
Print Assumptions C09_mask_back_conversion.
(* non-vacuity: unsorted, nested, duplicated, touching (also across the chromosome border), zero-length intervals, an empty
   chromosome in the middle; the hypotheses hold and the executable model gives the per-chromosome mask *)
Example C09_nonvacuous_mask_end_to_end :
  let sizes := [5; 2; 3] in
  let recs := [(2, 0, 1, vone); (0, 3, 5, vone); (0, 1, 4, vone); (0, 2, 3, vone); (0, 1, 4, vone); (2, 1, 1, vone); (0, 4, 5, vone); (2, 1, 3, vone)] in
  all_pos sizes = true /\ forallb (fun '(c, s, e, _) => (0 <=? c) && (c <? len sizes) && (0 <=? s) && (s <? nthZ sizes c) && (s <=? e) && (e <=? nthZ sizes c)) recs = true
  /\ match boolean_mask (glob sizes recs) (total_size sizes) with
     | Some (KB, r) => model_to_dict sizes r = spec_mask sizes recs
                       /\ model_to_dict sizes r = [[vzero; vone; vone; vone; vone]; [vzero; vzero]; [vone; vone; vone]]
                       /\ model_get_data sizes KB r = [(0, 1, 5, vone); (2, 0, 3, vone)]
                       /\ spec_track vzero sizes (model_get_data sizes KB r) = spec_mask sizes recs
     | _ => False end.
Proof. vm_compute. repeat split; reflexivity. Qed.

(* P1 (round 6): the flat pileup as the code builds it (Model/C09_pileup.v: one row of events per interval — 0 if start > 0,
   start +1, stop -1 if stop < size —, stable sort on position, running sum, the array length appended, empty runs removed
   keeping the last of equal positions, the constructor's assertions).  For every interval multiset inside [0, size]
   (overlapping, nested, touching, duplicated — multiplicity field —, zero-length, starting at 0, ending at size, or empty):
   the constructor succeeds, the run-length array is well-formed, has length size, and its expansion is, base by base, the
   number of rows covering the base. *)
Theorem C09_pileup_events_flat : forall recs size, 0 < size -> (forall r, In r recs -> row_ok size r) ->
  exists r, pileup_events recs size = Some (KI, r) /\ wf_rle r = true /\ rle_len r = size
            /\ expand r = tabulate (count_at recs) 0 size.
Proof. exact pileup_events_spec. Qed.
Print Assumptions C09_pileup_events_flat.
(* P2: get_intervals(..).get_pileup().to_dict() end to end on a genome of any number of chromosomes: the shift succeeds, the
   event pipeline succeeds on the global rows, and every chromosome's array is the per-base coverage count of that
   chromosome's intervals (prow_ok: what GlobalOffset accepts, start <= stop, multiplicity >= 0). *)
Theorem C09_pileup_end_to_end : forall sizes recs,
  all_pos sizes = true -> sizes <> [] -> (forall r, In r recs -> prow_ok sizes r) ->
  exists r, to_global sizes recs = Some (glob sizes recs)
            /\ pileup_events (glob sizes recs) (total_size sizes) = Some (KI, r)
            /\ wf_rle r = true /\ rle_len r = total_size sizes
            /\ model_to_dict sizes r = spec_pileup sizes recs.
Proof. exact pileup_end_to_end. Qed.
Print Assumptions C09_pileup_end_to_end.
(* P3: back-conversion of the pileup: get_data() of that array gives rows in genome order, per chromosome sorted,
   non-overlapping and inside the chromosome, which expand to the same per-chromosome coverage arrays. *)
Theorem C09_pileup_back_conversion : forall sizes recs,
  all_pos sizes = true -> sizes <> [] -> (forall r, In r recs -> prow_ok sizes r) ->
  exists r, pileup_events (glob sizes recs) (total_size sizes) = Some (KI, r)
    /\ let rows := model_get_data sizes KI r in
       chroms_sorted rows = true
       /\ (forall c, 0 <= c < len sizes ->
             sorted_disjoint 0 (on_chrom c rows) = true /\ all_le (nthZ sizes c) (on_chrom c rows) = true)
       /\ spec_track vzero sizes rows = spec_pileup sizes recs.
Proof. exact pileup_back_conversion. Qed.
Print Assumptions C09_pileup_back_conversion.
(* P4: the abstract pileup model of Model/C09.v (events = the distinct interval end points with 0 and size, value = coverage at
   the run start), which the correspondence evaluates for interval sets of more than pileup_row_limit = 48 rows, expands to the
   per-base coverage count as well ... *)
Theorem C09_pileup_abstract_flat : forall recs size, 0 < size -> (forall r, In r recs -> 0 <= st r /\ st r <= en r /\ en r <= size) ->
  exists r, pileup recs size = Some (KI, r) /\ wf_rle r = true /\ rle_len r = size
            /\ expand r = tabulate (count_at recs) 0 size.
Proof. exact pileup_abs_spec. Qed.
Print Assumptions C09_pileup_abstract_flat.
(* ... so the pileup model in force in the correspondence (event pipeline up to 48 rows, abstract model beyond) gives, for
   every interval multiset on every genome, per chromosome the coverage count of that chromosome's intervals. *)
Theorem C09_pileup_in_force_end_to_end : forall sizes recs,
  all_pos sizes = true -> sizes <> [] -> (forall r, In r recs -> prow_ok sizes r) ->
  exists r, to_global sizes recs = Some (glob sizes recs)
            /\ pileup_in_force (glob sizes recs) (total_size sizes) = Some (KI, r)
            /\ wf_rle r = true /\ rle_len r = total_size sizes
            /\ model_to_dict sizes r = spec_pileup sizes recs.
Proof. exact pileup_in_force_end_to_end. Qed.
Print Assumptions C09_pileup_in_force_end_to_end.
(* non-vacuity of the beyond-the-limit branch: 65537 rows (three distinct intervals with multiplicities) on sizes [3; 9; 6] *)
Example C09_nonvacuous_pileup_big :
  let sizes := [3; 9; 6] in
  let recs := [(0, 1, 3, (21846, 0)); (1, 0, 9, (21846, 0)); (2, 2, 2, (1, 0)); (1, 4, 6, (21844, 0))] in
  (n_rows (glob sizes recs) <=? pileup_row_limit) = false
  /\ match pileup_in_force (glob sizes recs) (total_size sizes) with
     | Some (KI, r) => model_to_dict sizes r = spec_pileup sizes recs
                       /\ nth 1 (model_to_dict sizes r) [] = [(21846,0); (21846,0); (21846,0); (21846,0); (43690,0); (43690,0); (21846,0); (21846,0); (21846,0)]
     | _ => False end.
Proof. vm_compute. repeat split; reflexivity. Qed.
(* non-vacuity: duplicated (multiplicity 2), nested, touching (also across a chromosome border), zero-length rows, rows at
   chromosome starts and ends, an empty chromosome in the middle *)
Example C09_nonvacuous_pileup_end_to_end :
  let sizes := [5; 2; 3] in
  let recs := [(2, 0, 1, (1, 0)); (0, 3, 5, (1, 0)); (0, 1, 4, (2, 0)); (0, 2, 3, (1, 0)); (2, 1, 1, (1, 0)); (0, 4, 5, (1, 0)); (2, 1, 3, (1, 0))] in
  all_pos sizes = true /\ forallb (fun '(c, s, e, v) => (0 <=? c) && (c <? len sizes) && (0 <=? s) && (s <? nthZ sizes c) && (s <=? e) && (e <=? nthZ sizes c) && (0 <=? fst v)) recs = true
  /\ match pileup_events (glob sizes recs) (total_size sizes) with
     | Some (KI, r) => model_to_dict sizes r = spec_pileup sizes recs
                       /\ model_to_dict sizes r = [[(0,0); (2,0); (3,0); (3,0); (2,0)]; [(0,0); (0,0)]; [(1,0); (1,0); (1,0)]]
                       /\ fst r = [0; 1; 2; 3; 4; 5; 7; 8; 10]
                       /\ pileup (glob sizes recs) (total_size sizes) = Some (KI, r)
                       /\ spec_track vzero sizes (model_get_data sizes KI r) = spec_pileup sizes recs
     | _ => False end.
Proof. vm_compute. repeat split; reflexivity. Qed.

(* E: converse of C09_expression_pointwise_partial — whenever the dense (NumPy) evaluation of a tree is defined, the
   run-length evaluation is defined, has the same dtype kind, is well-formed and expands to the dense result.  Together:
   the two evaluations are defined on exactly the same trees and agree. *)
Theorem C09_expression_complete_partial : forall n leaves e k d,
  (forall l, In l leaves -> wf_rle (snd l) = true /\ rle_len (snd l) = n) ->
  spec_eval (map dense_leaf leaves) e = Some (k, d) ->
  exists r, model_eval leaves e = Some (k, r) /\ wf_rle r = true /\ rle_len r = n /\ expand r = d.
Proof. exact eval_complete. Qed.
Print Assumptions C09_expression_complete_partial.

(* F: from_intervals as it is in /repo now (empty runs removed before the constructor): every sorted, non-overlapping
   list of non-empty intervals inside [0, size] — touching intervals included, first one at 0 or later, last one at size
   or earlier, or none — with a scalar value ... *)
Theorem C09_from_intervals_scalar_full : forall ivs size k value default,
  0 < size -> sorted_disjoint 0 ivs = true -> all_le size ivs = true -> (forall r, In r ivs -> vl r = value) ->
  exists r, from_intervals_scalar_gen clean_fixed (map st ivs) (map en ivs) size k value default = Some (k, r)
    /\ wf_rle r = true /\ rle_len r = size /\ expand r = dense_of (cast_to k default) ivs size.
Proof. exact from_intervals_scalar_full. Qed.
Print Assumptions C09_from_intervals_scalar_full.
(* ... and with per-interval values (the path that raised before notes/C09.fix-2.diff). *)
Theorem C09_from_intervals_array_full : forall ivs size k default,
  0 < size -> sorted_disjoint 0 ivs = true -> all_le size ivs = true ->
  exists r, from_intervals_array_fixed clean_fixed (map st ivs) (map en ivs) size k (map vl ivs) default = Some (k, r)
    /\ wf_rle r = true /\ rle_len r = size /\ expand r = dense_of (cast_to k default) ivs size.
Proof. exact from_intervals_array_full. Qed.
Print Assumptions C09_from_intervals_array_full.

(* non-vacuity of the genome-level hypotheses: three chromosomes (3, 2, 4); a record ending at the end of chromosome 0
   next to one starting at 0 of chromosome 1, touching records, a gap, nothing on the last bases; the executable model
   gives the per-chromosome arrays and get_data reads them back *)
Example C09_nonvacuous_genome :
  let sizes := [3; 2; 4] in
  let recs := [(0, 1, 3, (5, 0)); (1, 0, 1, (7, 0)); (1, 1, 2, (7, 0)); (2, 1, 2, (1, 1))] in
  all_pos sizes = true /\ grecs_valid sizes 0 0 recs = true
  /\ match to_global sizes recs with
     | Some g => match from_bedgraph KF g (total_size sizes) with
                 | Some (k, r) => model_to_dict sizes r = spec_track vzero sizes recs
                                  /\ spec_track vzero sizes (model_get_data sizes k r) = model_to_dict sizes r
                                  /\ model_to_dict sizes r = [[(0,0); (5,0); (5,0)]; [(7,0); (7,0)]; [(0,0); (1,1); (0,0); (0,0)]]
                 | None => False end
     | None => False end.
Proof. vm_compute. repeat split; reflexivity. Qed.
(* non-vacuity of the merge hypotheses of G4: unsorted, overlapping intervals, one pair touching across the boundary *)
Example C09_nonvacuous_mask_genome :
  let sizes := [5; 3] in
  let recs := [(1, 0, 1, vone); (0, 3, 5, vone); (0, 1, 4, vone)] in
  let g := glob sizes recs in
  let m := filter (fun '(s, e) => negb (s =? e)) (merge_sorted (sort_by_start g)) in
  sorted_disjoint 0 (iv_recs vone m) = true /\ all_le (total_size sizes) (iv_recs vone m) = true
  /\ tabulate (any_at (iv_recs vone m)) (-2) 12 = tabulate (any_at g) (-2) 12
  /\ match boolean_mask g (total_size sizes) with
     | Some (_, r) => model_to_dict sizes r = spec_mask sizes recs
     | None => False end.
Proof. vm_compute. repeat split; reflexivity. Qed.
(* touching intervals and per-interval values through the constructor in force *)
Example C09_nonvacuous_from_intervals :
  let ivs := [(0, 2, (3, 0)); (2, 4, (5, 0)); (5, 6, (1, 1))] in
  sorted_disjoint 0 ivs = true /\ all_le 7 ivs = true
  /\ match from_intervals_array (map st ivs) (map en ivs) 7 KF (map vl ivs) (9, 0) with
     | Some (_, r) => to_array r = [(3,0); (3,0); (5,0); (5,0); (9,0); (1,1); (9,0)]
     | None => False end.
Proof. vm_compute. repeat split; reflexivity. Qed.

(* Source tie: the comparisons, branch tests, appended / inserted elements, slot and offset formulas regenerated
   from /repo on this run (Gen/C09.v, written by translate/gen_c09.py from arithmetics/intervals.py from_bedgraph /
   from_intervals / to_array, genomic_data/genomic_track.py to_dict / extract_chromsome / get_data and
   genomic_data/global_offset.py) are the named formulas Model/C09.v is written with, and where the model spells
   a test differently (match on a list instead of len(..) == 0, s <? e instead of e >? s, interleave2 / alternate
   instead of strided slots) the two spellings agree for all inputs. *)
Theorem C09_source_tie :
  (* from_bedgraph *)
  ((forall size, gen_bg_empty_events size = m_bg_empty_events size) /\ gen_bg_empty_values = m_bg_empty_values
   /\ (forall a b, gen_bg_is_gap a b = m_bg_is_gap a b)
   /\ (forall i, gen_bg_gap_pos i = m_bg_gap_pos i) /\ gen_bg_gap_value = m_bg_gap_value /\ gen_bg_gap_shape = m_bg_gap_shape
   /\ (forall last_stop size, gen_bg_fits last_stop size = m_bg_fits last_stop size)
   /\ (forall size last_stop, gen_bg_ends_at_size size last_stop = m_bg_ends_at_size size last_stop
                             /\ gen_bg_tail_at size last_stop = m_bg_tail_at size last_stop
                             /\ gen_bg_tail_before size last_stop = m_bg_tail_before size last_stop)
   /\ gen_bg_tail_values_before = m_bg_tail_values_before /\ gen_bg_tail_shape = m_bg_tail_shape
   /\ (forall e0, gen_bg_needs_prefix e0 = m_bg_needs_prefix e0)
   /\ (gen_bg_prefix_pos = m_bg_prefix_pos /\ gen_bg_prefix_event = m_bg_prefix_event
       /\ gen_bg_prefix_value = m_bg_prefix_value /\ gen_bg_prefix_shape = m_bg_prefix_shape))
  (* from_intervals *)
  /\ ((forall stop start, gen_iv_assert_nonempty stop start = m_iv_assert_nonempty stop start
                          /\ m_iv_assert_nonempty stop start = (start <? stop))
      /\ (forall next_start prev_stop, gen_iv_assert_ordered next_start prev_stop = m_iv_assert_ordered next_start prev_stop
                                       /\ m_iv_assert_ordered next_start prev_stop = (prev_stop <=? next_start))
      /\ (forall n s0, gen_iv_has_prefix n s0 = m_iv_has_prefix n s0 /\ gen_iv_drop_first n s0 = m_iv_drop_first n s0)
      /\ (forall starts, m_iv_has_prefix (len starts) (hd 0 starts) = iv_has_prefix starts
                         /\ m_iv_drop_first (len starts) (hd 0 starts) = negb (iv_has_prefix starts))
      /\ (forall n e size, gen_iv_has_postfix n e size = m_iv_has_postfix n e size)
      /\ (forall ends size, m_iv_has_postfix (len ends) (last ends 0) size = iv_has_postfix ends size)
      /\ (forall size, gen_iv_prefix size = m_iv_prefix size /\ gen_iv_postfix size = m_iv_postfix size)
      /\ (forall a b c d, gen_iv_n_events a b c d = m_iv_n_events a b c d)
      /\ (forall p i, gen_iv_start_slot p i = m_iv_start_slot p i /\ gen_iv_end_slot p i = m_iv_end_slot p i)
      /\ (forall starts ends size i, length starts = length ends -> 0 <= i < len starts ->
            let '(events, has_prefix, _) := from_intervals_events starts ends size in
            let p := if has_prefix then 1 else 0 in
            nthZ events (m_iv_start_slot p i) = nthZ starts i /\ nthZ events (m_iv_end_slot p i) = nthZ ends i)
      /\ gen_iv_edge_shape = m_iv_edge_shape
      /\ (forall n, gen_iv_n_values n = 2 * m_iv_n_pairs n /\ gen_iv_keep n = m_iv_keep n)
      /\ (forall i, gen_iv_default_slot i = m_iv_default_slot i /\ gen_iv_value_slot i = m_iv_value_slot i)
      /\ (forall (n : nat) (d v : Z * Z) i, 0 <= i < Z.of_nat n ->
            nth (Z.to_nat (m_iv_default_slot i)) (alternate n d v) (0, 0) = d
            /\ nth (Z.to_nat (m_iv_value_slot i)) (alternate n d v) (0, 0) = v)
      /\ (forall e size, gen_iv_array_trailing_default e size = m_iv_array_trailing_default e size)
      /\ gen_iv_array_shape = m_iv_array_shape /\ gen_iv_drop_count = m_iv_drop_count /\ gen_iv_return_shape = m_iv_return_shape)
  (* to_array *)
  /\ ((forall a b, gen_ta_diff a b = m_xor a b) /\ gen_ta_shape = m_ta_shape)
  (* genomic_track.py slice bounds *)
  /\ ((forall offset size, gen_td_lo offset size = m_slice_lo offset size /\ gen_td_hi offset size = m_slice_hi offset size
                           /\ gen_ec_lo offset size = m_slice_lo offset size /\ gen_ec_hi offset size = m_slice_hi offset size
                           /\ gen_gd_lo offset (gen_gd_stop offset size) = m_slice_lo offset size
                           /\ gen_gd_hi offset (gen_gd_stop offset size) = m_slice_hi offset size)
      /\ gen_td_shape = m_td_shape /\ gen_ec_shape = m_ec_shape /\ gen_gd_shape = m_gd_shape /\ gen_af_shape = m_af_shape)
  (* global_offset.py *)
  /\ ((forall sizes, gen_go_offsets sizes = offsets sizes)
      /\ (forall s e n, gen_go_start_bad s n = m_go_start_bad s n /\ gen_go_start_negative s = m_go_start_negative s
                        /\ gen_go_stop_ok e n = m_go_stop_ok e n
                        /\ (negb (m_go_start_bad s n) && negb (m_go_start_negative s) && m_go_stop_ok e n)
                           = ((0 <=? s) && (s <? n) && (e <=? n)))
      /\ (forall x off, gen_go_start x off = m_go_shift x off /\ gen_go_stop x off = m_go_shift x off)
      /\ gen_go_shape = m_go_shape).
Proof.
  repeat match goal with |- _ /\ _ => split end; intros;
    repeat match goal with |- _ /\ _ => split end;
    first [ apply b_bg_empty_events | apply b_bg_empty_values | apply b_bg_is_gap | apply b_bg_gap_pos | apply b_bg_gap_value
          | apply b_bg_gap_shape | apply b_bg_fits | apply b_bg_ends_at_size | apply b_bg_tail_at | apply b_bg_tail_before
          | apply b_bg_tail_values_before | apply b_bg_tail_shape | apply b_bg_needs_prefix | apply b_bg_prefix
          | apply b_iv_assert_nonempty | apply use_iv_assert_nonempty | apply b_iv_assert_ordered | apply use_iv_assert_ordered
          | apply b_iv_has_prefix | apply b_iv_drop_first | apply use_iv_has_prefix | apply use_iv_drop_first
          | apply b_iv_has_postfix | apply use_iv_has_postfix | apply b_iv_prefix | apply b_iv_postfix | apply b_iv_n_events
          | apply b_iv_start_slot | apply b_iv_end_slot | apply b_iv_edge_shape | apply b_iv_n_values | apply b_iv_keep
          | apply b_iv_default_slot | apply b_iv_value_slot | apply use_iv_value_slots; assumption
          | apply b_iv_array_trailing_default | apply b_iv_array_shape | apply b_iv_drop_count | apply b_iv_return_shape
          | apply b_ta_diff | apply b_ta_shape | apply b_td | apply b_ec | apply b_gd | apply b_td_shape | apply b_ec_shape
          | apply b_gd_shape | apply b_af_shape | apply b_go_offsets | apply b_go_start_bad | apply b_go_start_negative | apply b_go_stop_ok
          | apply use_go_checks | apply b_go_shift | apply b_go_shape
          | apply use_iv_slots; assumption ].
Qed.
Print Assumptions C09_source_tie.

(* Source tie of the pileup (round 6): the empty-set test, the empty-set result and the hand-over skeleton of
   arithmetics/intervals.py get_pileup and of GenomicIntervalsFull.get_pileup, regenerated from /repo on this run, are the
   named formulas Model/C09_pileup.v is written with.  (The event construction itself is npstructures code: named modelling
   assumption in Model/C09_pileup.v, validated by the correspondence check.) *)
Theorem C09_pileup_source_tie :
  (forall n, gen_pu_is_empty n = m_pu_is_empty n)
  /\ (forall size, gen_pu_empty_events size = m_pu_empty_events size) /\ gen_pu_empty_values = m_pu_empty_values
  /\ gen_pu_shape = m_pu_shape /\ gen_gpu_shape = m_gpu_shape.
Proof. exact (conj b_pu_is_empty (conj b_pu_empty_events (conj b_pu_empty_values (conj b_pu_shape b_gpu_shape)))). Qed.
Print Assumptions C09_pileup_source_tie.

(* non-vacuity: the docstring example of Genome.get_track (chr1 of size 20 with records [0,5)=1, [10,15)=2)
   meets the hypotheses of T2, and the executable model really produces the dense array through
   from_bedgraph and the xor-accumulate decoding; a binary operation on it refines the runs. *)
Example C09_nonvacuous :
  let recs := [(0, 5, (1, 0)); (10, 15, (2, 0))] in
  sorted_disjoint 0 recs = true /\ all_le 20 recs = true
  /\ match from_bedgraph KI recs 20 with
     | Some (k, r) =>
         to_array r = dense_of vzero recs 20
         /\ match rle_zip vadd r (slice_rle 0 20 r) with
            | Some r2 => expand r2 = map2 vadd (expand r) (expand r) /\ fst r2 = [0; 5; 10; 15; 20]
            | None => False
            end
     | None => False
     end.
Proof. vm_compute. repeat split; reflexivity. Qed.

(* non-vacuity of T3 and of the genome-level statements: a mask [0,2) u [4,5) on a genome of two
   chromosomes (3 + 3); per-chromosome arrays and the intervals read back *)
Example C09_nonvacuous_mask :
  let ivs := [(0, 2); (4, 5)] in
  ivs_ok ivs /\ ends_last 0 ivs <= 6
  /\ match from_intervals_scalar (map fst ivs) (map snd ivs) 6 KB vone vzero with
     | Some (k, r) =>
         model_to_dict [3; 3] r = [[vone; vone; vzero]; [vzero; vone; vzero]]
         /\ model_get_data [3; 3] k r = [(0, 0, 2, vone); (1, 1, 2, vone)]
     | None => False
     end.
Proof. vm_compute. repeat split; try reflexivity; discriminate. Qed.

(* Props/C07.v — the property theorems for C07 (encoded arrays behave like NumPy arrays of characters).
   Only statements, `exact <lemma>` and Print Assumptions live here. *)
From Coq Require Import ZArith List Bool Lia.
From Coq Require String.
From BNP Require Import Base.Prims Model.C07 Proofs.C07 Proofs.C07_sim Proofs.C07_main Proofs.C07_view Corr.C07 Proofs.C07_link Gen.C07 Bridge.C07.
Import ListNotations.
Open Scope Z_scope.

(* ---- bionumpy's own flat-buffer routines (strops.py:276-380, util/ragged_slice.py), every size ---- *)

(* T1a: strops.join — scattering the rows and the separators into a fresh buffer through the computed flat
   indices yields row ++ [sep] for every row, whatever np.empty() held; without keep_last the final
   separator is dropped. *)
Theorem C07_join :
  forall (fill : list Z) (rows : list (list Z)) (sep : Z) (keep_last : bool),
    m_join_fill fill rows sep keep_last
    = (let s := concat (map (fun r => r ++ [sep]) rows) in if keep_last then s else removelast s).
Proof. exact join_spec. Qed.
Print Assumptions C07_join.

(* T1b: strops.split — mask, flatnonzero, diff and the [:, :-1] view return exactly the pieces between
   separators (empty pieces, leading / trailing / adjacent separators, empty input included). *)
Theorem C07_split : forall (s : list Z) (sep : Z), m_split s sep = split_on sep s.
Proof. exact split_spec. Qed.
Print Assumptions C07_split.

(* strops.split with a LIST of separators: the pieces between characters that are IN the list — membership only,
   so the order in which the separators are listed and repetitions cannot matter *)
Theorem C07_split_list :
  forall (s seps : list Z), m_split_l s seps = split_by (fun x => memb x seps) s.
Proof. exact split_list_spec. Qed.
Print Assumptions C07_split_list.
Theorem C07_split_list_single : forall sep s, split_by (fun x => memb x [sep]) s = split_on sep s.
Proof. exact split_by_single. Qed.
Print Assumptions C07_split_list_single.

(* T1: split undoes join when no row contains the separator. *)
Theorem C07_split_join_inverse :
  forall (fill : list Z) (rows : list (list Z)) (sep : Z),
    rows <> [] -> Forall (fun r => ~ In sep r) rows ->
    m_split (m_join_fill fill rows sep false) sep = rows.
Proof. exact split_join_inverse. Qed.
Print Assumptions C07_split_join_inverse.

(* T2: strops.str_equal — length mask, gathered matrix of candidate rows, refinement of the mask: row by row
   the answer is whole-string equality. *)
Theorem C07_str_equal :
  forall (rows : list (list Z)) (s : list Z), m_streq rows s = map (fun r => zlist_eqb r s) rows.
Proof. exact str_equal_spec. Qed.
Print Assumptions C07_str_equal.

Theorem C07_str_equal_two :
  forall (rows l : list (list Z)), m_streq2 rows l = map2 zlist_eqb rows l.
Proof. exact str_equal2_spec. Qed.
Print Assumptions C07_str_equal_two.

(* bnp.ragged_slice — the index construction returns the segments [start, end) of the flattened text. *)
Theorem C07_ragged_slice :
  forall rows starts ends, m_rslice rows starts ends = s_rslice rows starts ends.
Proof. exact ragged_slice_spec. Qed.
Print Assumptions C07_ragged_slice.

(* ---- encodings ---- *)

(* decoding never identifies two different codes (distinct alphabet members; codes outside the alphabet are
   kept apart from every character) *)
Theorem C07_decode_injective :
  forall e, enc_wf e -> forall x y, decode1 e x = decode1 e y -> x = y.
Proof. exact decode1_inj. Qed.
Print Assumptions C07_decode_injective.

(* history: the 256-entry table BEFORE the C06 repair (alphabet+32 for every member; /repo before c99b89e)
   translated an operand character as alphabet membership says (member -> its code, decoding back to the
   upper-cased character; non-member -> EncodingError) only for characters that are not (non-letter member)+32 ... *)
Theorem C07_lookup_pinned_partial :
  forall al c, alpha_ok al -> shadow al c = false ->
    s_prep (Alpha al) c = option_map (decode1 (Alpha al)) (m_prep_pinned (Alpha al) c).
Proof. exact prep_head_partial. Qed.
Print Assumptions C07_lookup_pinned_partial.
(* ... and not for such a character (DigitEncoding, 'P'): the finding of C06, repaired in /repo *)
Theorem C07_lookup_pinned_refuted :
  exists al c, alpha_ok al /\ s_prep (Alpha al) c <> option_map (decode1 (Alpha al)) (m_prep_pinned (Alpha al) c).
Proof. exact prep_head_refuted. Qed.
Print Assumptions C07_lookup_pinned_refuted.
(* the table of the code at /repo HEAD (lower-case entries only for letters): every character *)
Theorem C07_lookup :
  forall al c, alpha_ok al -> s_prep (Alpha al) c = option_map (decode1 (Alpha al)) (m_prep (Alpha al) c).
Proof. exact prep_fixed_full. Qed.
Print Assumptions C07_lookup.

(* ---- the property: operations commute with decoding ---- *)

(* T3/T4 one step: whatever value the previous steps produced, running one operation on raw codes (encode
   the other operand first, compare / store / concatenate raw, flat-buffer strops) and decoding the result
   gives what the operation means on the decoded characters: same new value, same mask, same strings, same
   exception.  [chars_agree] = the operand characters of the step are translated as the alphabet says
   (discharged by the three lookup theorems above). *)
Theorem C07_step_simulation :
  forall prep vr e v o,
    enc_wf e -> enc_of v = e -> chars_agree prep e o ->
    (o = SArr -> v_sarr_empty_raises vr = false /\ sarr_ok (decode1 e) v) ->     (* string_array: NUL-free text *)
    mapr (decode1 e) (g_step (model_prims_with prep vr) v o) = s_step (mapv (decode1 e) v) o.
Proof. exact step_simulation. Qed.
Print Assumptions C07_step_simulation.

(* whole programs (every finite sequence of operations): every observation of every step, and the object
   copy() was taken from, decode to the Spec's.  History: with the table before the C06 repair this holds for
   operand characters outside (non-letter member)+32 ... *)
Theorem C07_program_pinned_partial :
  forall vr e ops v saved,
    match e with Base => True | Alpha al => alpha_ok al end -> enc_of v = e ->
    Forall (fun o => (forall c, In c (op_chars o) -> match e with Base => True | Alpha al => shadow al c = false end)
                     /\ sarr_side vr e o) ops ->
    map_run (decode1 e) (g_run (model_prims_with m_prep_pinned vr) v saved ops)
    = s_run (mapv (decode1 e) v) (option_map (mapv (decode1 e)) saved) ops.
Proof. exact program_head_partial. Qed.
Print Assumptions C07_program_pinned_partial.
(* ... with the table of the code at /repo HEAD: no restriction on the characters *)
Theorem C07_program :
  forall vr e ops v saved,
    match e with Base => True | Alpha al => alpha_ok al end -> enc_of v = e ->
    Forall (sarr_side vr e) ops ->      (* string_array steps: the variant does not raise and no code decodes to NUL *)
    map_run (decode1 e) (g_run (model_prims_with m_prep vr) v saved ops)
    = s_run (mapv (decode1 e) v) (option_map (mapv (decode1 e)) saved) ops.
Proof. exact program_fixed_full. Qed.
Print Assumptions C07_program.

(* T4: the encoding of every result is the encoding of the operand *)
Theorem C07_encoding_preserved :
  forall P v o,
    enc_of (fst (g_step P v o)) = enc_of v
    /\ (forall v', snd (g_step P v o) = OV v' -> enc_of v' = enc_of v).
Proof. exact step_encoding_preserved. Qed.
Print Assumptions C07_encoding_preserved.

(* T5: comparison with a character the encoding does not have raises; it never answers False *)
Theorem C07_foreign_char_raises :
  forall P v c neg, p_prep P (enc_of v) c = None -> snd (g_step P v (Eq (PChar c) neg)) = OErr.
Proof. exact foreign_char_raises. Qed.
Print Assumptions C07_foreign_char_raises.

(* ---- the code at /repo HEAD ([repaired], Corr.current) and before fix 5b17763 ([pinned]) versus the step function above ---- *)
(* the code at HEAD is the step function the theorems are about *)
Theorem C07_step_repaired :
  forall v o, m_step_v repaired true v o = g_step (model_prims_with m_prep repaired) v o.
Proof. exact step_repaired_is_g_step. Qed.
Print Assumptions C07_step_repaired.
(* the code before 5b17763 agreed with it except where one character is stored at ONE integer position ... *)
Theorem C07_step_pinned_partial :
  forall v o, scalar_position v o = false ->
    m_step_v pinned true v o = g_step (model_prims_with m_prep pinned) v o.
Proof. exact step_pinned_partial. Qed.
Print Assumptions C07_step_pinned_partial.
(* ... where it raised although the operation is defined (a[0] = 'G' on 'AA' over ACGT) *)
Theorem C07_step_pinned_refuted :
  exists v o, snd (m_step_v pinned true v o) = ORaise /\ exists v', snd (s_step (dec_value v) o) = OV v'.
Proof. exact step_pinned_refuted. Qed.
Print Assumptions C07_step_pinned_refuted.

(* every alphabet without the NUL character never decodes to NUL: string_array steps are covered for it *)
Theorem C07_alphabet_nul_free :
  forall al, enc_wf (Alpha al) -> ~ In 0 al -> nul_free_enc (Alpha al).
Proof. exact nul_free_alpha. Qed.
Print Assumptions C07_alphabet_nul_free.

(* ---- T3: the ragged view algebra (npstructures' representation: buffer + per-row start and length + one column
   step; Model/C07.v section 5).  No hypothesis relates the starts to each other: the views may be non-contiguous,
   reordered, overlapping, strided — whatever earlier indexing steps left. ---- *)
(* a freshly built array denotes its rows *)
Theorem C07_view_of_rows : forall rows, rv_rows (rv_of_rows rows) = rows /\ rv_wf (rv_of_rows rows).
Proof. exact view_of_rows. Qed.
Print Assumptions C07_view_of_rows.
(* row slice / fancy / mask indexing of the (start, length) table = the same selection of the rows *)
Theorem C07_view_rows :
  forall v s v', rv_wf v -> v_rowsel v s = Some v' -> sel_rows (rv_rows v) s = Some (rv_rows v') /\ rv_wf v'.
Proof. exact view_rowsel_rows. Qed.
Print Assumptions C07_view_rows.
(* a column slice with positive step rewrites starts, lengths and step so that every row is Python's slice of the row *)
Theorem C07_view_columns :
  forall v a b st, rv_wf v -> 0 < st ->
    rv_rows (v_colslice_pos v a b st) = map (col_slice a b (Some st)) (rv_rows v) /\ rv_wf (v_colslice_pos v a b st).
Proof. exact view_colslice_pos_rows. Qed.
Print Assumptions C07_view_columns.
(* reversal [:, ::-1] (through _calculate_lengths as transcribed) reverses every row, empty rows included *)
Theorem C07_view_reverse_partial :
  forall v, rv_wf v ->
    rv_rows (v_colslice_neg v None None (-1)) = map (col_slice None None (Some (-1))) (rv_rows v)
    /\ rv_wf (v_colslice_neg v None None (-1)).
Proof. exact view_reverse_rows. Qed.
Print Assumptions C07_view_reverse_partial.
(* ... a general negative-step column slice is not Python's slice (empty row + explicit start): the npstructures finding *)
Theorem C07_view_negative_step_refuted :
  exists v a b st, rv_wf v /\ st < 0 /\ rv_rows (v_colslice_neg v a b st) <> map (col_slice a b (Some st)) (rv_rows v).
Proof. exact view_colslice_neg_refuted. Qed.
Print Assumptions C07_view_negative_step_refuted.
(* ravel() (build_indices: fill with the step, jumps at row starts, cumulative sum) of any view = its rows concatenated *)
Theorem C07_view_ravel : forall v, v_ravel v = concat (rv_rows v).
Proof. exact view_ravel. Qed.
Print Assumptions C07_view_ravel.
(* every finite sequence of row selections / column slices / reversals, never materialised in between: the view
   carried along denotes what the list semantics of g_step gives — "view indexing commutes" for the whole history *)
Theorem C07_view_program :
  forall P e ops v v', rv_wf v -> Forall view_op_ok ops -> v_run v ops = Some v' ->
    g_last P (VR e (rv_rows v)) ops = VR e (rv_rows v') /\ rv_wf v'.
Proof. exact view_program_rows. Qed.
Print Assumptions C07_view_program.

(* ---- the two verdicts of the correspondence (Corr/C07.v) ---- *)
(* spec_ok = (Spec agrees with Python's reference on the program) && (implementation satisfies the Spec) *)
Theorem C07_spec_ok_split : forall c, spec_ok c = ref_ok c && impl_spec_ok c.
Proof. exact spec_ok_split. Qed.
Print Assumptions C07_spec_ok_split.
(* for every program case all of whose steps the model describes: the implementation agreeing with the MODEL on raw
   codes implies the implementation satisfies the SPEC on characters *)
Theorem C07_model_ok_implies_spec :
  forall c, linkable c -> model_ok c = true -> impl_spec_ok c = true.
Proof. exact model_ok_implies_spec. Qed.
Print Assumptions C07_model_ok_implies_spec.
Theorem C07_model_ok_implies_spec_ok :
  forall c, linkable c -> ref_ok c = true -> model_ok c = true -> spec_ok c = true.
Proof. exact model_ok_implies_spec_ok. Qed.
Print Assumptions C07_model_ok_implies_spec_ok.

(* ---- source tie: the index / length arithmetic and the statement shapes regenerated from /repo on this run
   (Gen/C07.v, written by translate/run.py from strops.join / split / str_equal / _str_equal_two_encoded_ragged_arrays,
   util/ragged_slice.py and string_array.py) are the ones the model above is built from ---- *)
Theorem C07_source_tie :
  (forall s l k, gen_join_new_len l = m_join_new_len l /\ gen_join_body_len l = m_join_body_len l
                 /\ gen_join_sep_pos s l = m_join_sep_pos s l /\ gen_join_drop k = m_join_drop k)
  /\ (forall i0 l, gen_split_first_len i0 = m_split_first_len i0 /\ gen_split_forced_index = m_split_forced_index
                    /\ gen_split_row_len l = m_split_row_len l /\ gen_split_lens_src = m_split_lens_src)
  /\ (forall l L st k, gen_streq_mask l L = m_streq_mask l L /\ gen_streq2_mask l L = m_streq_mask l L
                        /\ gen_streq_index st k = m_streq_index st k
                        /\ gen_streq_refine_src = m_streq_refine_src /\ gen_streq2_refine_src = m_streq2_refine_src)
  /\ gen_rslice_call_src = m_rslice_call_src
  /\ gen_sarr_pad_side = m_sarr_pad_side /\ gen_sarr_empty_guard_src = m_sarr_empty_guard_src.
Proof.
  exact (conj (fun s l k => conj (b_join_new_len l) (conj (b_join_body_len l) (conj (b_join_sep_pos s l) (b_join_drop k))))
        (conj (fun i0 l => conj (b_split_first_len i0) (conj b_split_forced_index (conj (b_split_row_len l) b_split_lens_src)))
        (conj (fun l L st k => conj (b_streq_mask l L) (conj (b_streq2_mask l L) (conj (b_streq_index st k)
                                 (conj b_streq_refine_src b_streq2_refine_src))))
        (conj b_rslice_call_src (conj b_sarr_pad_side b_sarr_empty_guard_src))))).
Qed.
Print Assumptions C07_source_tie.

(* ---- non-vacuity: concrete instances meet the hypotheses and really compute ---- *)
Import String.
Example C07_nonvacuous_strops :
  let rows := [unhex "4143"; []; unhex "47"]%string in           (* "AC", "", "G" *)
  m_join_fill [7; 7; 7] rows 44 false = unhex "41432c2c47"%string   (* "AC,,G" *)
  /\ m_split (unhex "41432c2c47"%string) 44 = rows
  /\ m_streq rows (unhex "47"%string) = [false; false; true].
Proof. vm_compute. repeat split; reflexivity. Qed.

Example C07_nonvacuous_program :
  (* DNA, ["ACGT"; ""; "GT"]: rows reversed, columns reversed, compare with 'g', assign, concatenate *)
  let e := Alpha [65; 67; 71; 84] in
  let ops := [RowSel (SSlice None None (Some (-1))); ColSlice None None (Some (-1));
              Eq (PChar 103) false; SetRCol (SSlice None (Some 1) None) 0 97; Concat [PtSelf; PtRows [unhex "6161"%string]]] in
  alpha_ok [65; 67; 71; 84]
  /\ Forall (fun o => (forall c, In c (op_chars o) -> shadow [65; 67; 71; 84] c = false) /\ sarr_side repaired e o) ops
  /\ map fst (s_run (VR e [unhex "41434754"; []; unhex "4754"]%string) None ops)
     = [OV (VR e [unhex "4754"; []; unhex "41434754"]%string);
        OV (VR e [unhex "5447"; []; unhex "54474341"]%string);
        OMR [[false; true]; []; [false; true; false; false]];
        OV (VR e [unhex "4147"; []; unhex "54474341"]%string);
        OV (VR e [unhex "4147"; []; unhex "54474341"; unhex "4141"]%string)].
Proof.
  split; [|split].
  - split; [repeat constructor; simpl; intuition lia|repeat constructor; lia].
  - repeat constructor; try discriminate; simpl; intros c H; intuition (subst; reflexivity).
  - vm_compute. reflexivity.
Qed.

Example C07_nonvacuous_view :
  (* ["ACGT"; ""; "GT"] : rows reversed, columns [1::2], rows [2,0,0], columns reversed — never materialised *)
  let ops := [RowSel (SSlice None None (Some (-1))); ColSlice (Some 1) None (Some 2); RowSel (SFancy [2; 0; 0]);
              ColSlice None None (Some (-1))] in
  Forall view_op_ok ops
  /\ option_map rv_rows (v_run (rv_of_rows [unhex "41434754"; []; unhex "4754"]%string) ops)
     = Some [unhex "5443"; unhex "54"; unhex "54"]%string
  /\ v_ravel (rv_of_rows [unhex "41434754"; []; unhex "4754"]%string) = unhex "414347544754"%string.
Proof. split; [repeat constructor; simpl; auto; lia|]. vm_compute. split; reflexivity. Qed.

Example C07_nonvacuous_sarr :
  nul_free_enc (Alpha [65; 67; 71; 84]) /\ sarr_side repaired (Alpha [65; 67; 71; 84]) SArr.
Proof.
  assert (H : nul_free_enc (Alpha [65; 67; 71; 84])).
  { apply nul_free_alpha; [split; [repeat constructor; simpl; intuition lia|repeat constructor; lia]|simpl; intuition lia]. }
  split; [exact H|]. intros _. split; [reflexivity|exact H].
Qed.

Example C07_nonvacuous_link :
  let c := {| k_encid := 1; k_alpha := Some [65; 67; 71; 84]; k_ragged := true; k_init := [[65; 67]; []];
              k_init_obs := IV 0 1 [[65; 67]; []] [[0; 1]; []];
              k_steps := [{| i_op := ColSlice None None (Some (-1)); i_writable := true;
                             i_obs := IV 0 1 [[67; 65]; []] [[1; 0]; []]; i_orig := None; i_root := None;
                             i_exp := IV 0 1 [[67; 65]; []] [] |};
                          {| i_op := Eq (PChar 99) false; i_writable := true;
                             i_obs := IM 0 [[true; false]; []]; i_orig := None; i_root := None;
                             i_exp := IM 0 [[true; false]; []] |}] |} in
  linkable c /\ model_ok c = true /\ spec_ok c = true.
Proof.
  split; [|split; vm_compute; reflexivity].
  split.
  - split; [repeat constructor; simpl; intuition lia|repeat constructor; lia].
  - repeat constructor; simpl; try discriminate; try reflexivity; intros H; discriminate.
Qed.

(* Props/C12.v — the property theorems for C12 (per-chromosome synchronisation of grouped, streamed data).
   Only statements, `exact <lemma>` and Print Assumptions live here.

   Reading guide.  G = the genome's included contigs in genome order, I = the ignored names, D = the data as
   (contig name, table) groups; `NoDup (map fst D)` is the property's precondition (entries of one contig are
   contiguous).  spec_sync G I D = Some a  when the non-ignored group names are a subsequence of G — then a is
   the per-contig assignment (the contig's own table, or the empty table) — and None when an error is due
   (order disagreement, or a name that is neither in the genome nor ignored).
   A generator is a trace (yields, ending); pull_all = a consumer that runs it to its end; pull_n k = a consumer
   that takes k items and stops (GenomicArrayNode.get_data, the second stream of a zip).
   Theorems are for every name type with a correct equality test (C12_names_decidable: byte strings qualify),
   every table type, every genome size and every number of groups. *)
From Coq Require Import ZArith List Bool String.
From BNP Require Import Base.Prims Model.C12 Corr.C12 Proofs.C12 Proofs.C12_groupby Proofs.C12_pull Proofs.C12_fol Proofs.C12_e2e Proofs.C12_slots Proofs.C12_link Gen.C12 Bridge.C12.
Import ListNotations.
Open Scope Z_scope.

Theorem C12_names_decidable : forall a b : bname, zlist_eqb a b = true <-> a = b.
Proof. exact zlist_eqb_eq. Qed.
Print Assumptions C12_names_decidable.

(* the decidable order test used by the Spec is the subsequence relation *)
Theorem C12_subseq_reflects :
  forall (name : Type) (neqb : name -> name -> bool), (forall a b, neqb a b = true <-> a = b) ->
  forall l G, subseq_b name neqb l G = true <-> Subseq name l G.
Proof. exact subseq_b_Subseq. Qed.
Print Assumptions C12_subseq_reflects.

(* ---- Genome route: GenomeContext.iter_chromosomes pulled to its end (np.sum(pileup), gi.start, ...) ---- *)
(* With chromosome_order() = the included contigs (notes/C12.fix-1.diff), for EVERY filter function and every
   with_ignored_added: the evaluation ends with exactly the per-contig assignment, or with an exception. *)
Theorem C12_genome_exact_fixed_order :
  forall (name : Type) (neqb : name -> name -> bool), (forall a b, neqb a b = true <-> a = b) ->
  forall (has_us : name -> bool) (P : Type) (empty : P) (keepall : bool) (genome extra : list name) (D : list (name * P)),
    NoDup genome -> NoDup (map fst D) ->
    let incl := ctx_included name neqb has_us keepall genome extra in
    let ign := ctx_ignored name has_us keepall genome extra in
    match spec_sync name neqb P empty incl ign D with
    | Some a => pull_all (iter_chrom name neqb P empty (chrom_order_fixed name incl) incl ign D) = Done a
    | None => exists c, pull_all (iter_chrom name neqb P empty (chrom_order_fixed name incl) incl ign D) = Err c
    end.
Proof.
  intros name neqb Heq has_us P empty keepall genome extra D Hg HD incl ign.
  exact (genome_exhaustive name neqb Heq P empty incl ign D (ctx_included_NoDup name neqb has_us keepall genome extra Hg) HD).
Qed.
Print Assumptions C12_genome_exact_fixed_order.

(* The code as it is: chromosome_order() drops every name containing '_'.  Exactness holds under exactly the
   guard that no included contig name contains '_' (always true with the ignore_underscores filter). *)
Theorem C12_genome_partial :
  forall (name : Type) (neqb : name -> name -> bool), (forall a b, neqb a b = true <-> a = b) ->
  forall (has_us : name -> bool) (P : Type) (empty : P) (keepall : bool) (genome extra : list name) (D : list (name * P)),
    NoDup genome -> NoDup (map fst D) ->
    let incl := ctx_included name neqb has_us keepall genome extra in
    let ign := ctx_ignored name has_us keepall genome extra in
    forallb (fun c => negb (has_us c)) incl = true ->
    match spec_sync name neqb P empty incl ign D with
    | Some a => pull_all (iter_chrom name neqb P empty (chrom_order name has_us incl) incl ign D) = Done a
    | None => exists c, pull_all (iter_chrom name neqb P empty (chrom_order name has_us incl) incl ign D) = Err c
    end.
Proof.
  intros name neqb Heq has_us P empty keepall genome extra D Hg HD incl ign Hus.
  rewrite (chrom_order_id name has_us incl Hus).
  exact (genome_exhaustive name neqb Heq P empty incl ign D (ctx_included_NoDup name neqb has_us keepall genome extra Hg) HD).
Qed.
Print Assumptions C12_genome_partial.

(* ... and without the guard the full statement is false of the code as it is: genome {chr1, chr1_alt} with the
   keep-all filter (the default of Genome.from_dict), data = one group for chr1_alt: the evaluation completes,
   chr1_alt's entries are gone. *)
Theorem C12_genome_refuted :
  exists (genome : list bname) (D : list (bname * ids)),
    NoDup genome /\ NoDup (map fst D) /\
    let incl := ctx_included bname zlist_eqb has_underscore true genome [] in
    let ign := ctx_ignored bname has_underscore true genome [] in
    exists ys a,
      pull_all (iter_chrom bname zlist_eqb ids [] (chrom_order bname has_underscore incl) incl ign D) = Done ys
      /\ spec_sync bname zlist_eqb ids [] incl ign D = Some a /\ ys <> a.
Proof.
  exists [unhex "63687231"; unhex "636872315f616c74"]%string, [(unhex "636872315f616c74"%string, [7])].
  split; [|split].
  - repeat constructor; vm_compute; intuition discriminate.
  - repeat constructor; simpl; tauto.
  - eexists. eexists. split; [vm_compute; reflexivity|split; [vm_compute; reflexivity|discriminate]].
Qed.
Print Assumptions C12_genome_refuted.

(* ---- Genome route, consumer that takes exactly one table per contig (get_data(): name stream asked first) ---- *)
(* order-compatible data: the exact assignment arrives ... *)
Theorem C12_rows_partial :
  forall (name : Type) (neqb : name -> name -> bool), (forall a b, neqb a b = true <-> a = b) ->
  forall (P : Type) (empty : P) (G I : list name) (D : list (name * P)) (a : list P),
    NoDup G -> NoDup (map fst D) ->
    spec_sync name neqb P empty G I D = Some a ->
    pull_n (List.length G) (iter_chrom name neqb P empty G G I D) = Done a.
Proof. intros name neqb Heq P empty G I D a. exact (genome_npull_good name neqb Heq P empty G I D a). Qed.
Print Assumptions C12_rows_partial.
(* ... but data that must raise can complete silently: genome {chr1}, data = chr1 then an unknown contig *)
Theorem C12_rows_refuted :
  exists (G I : list bname) (D : list (bname * ids)),
    NoDup G /\ NoDup (map fst D) /\ spec_sync bname zlist_eqb ids [] G I D = None
    /\ exists ys, pull_n (List.length G) (iter_chrom bname zlist_eqb ids [] G G I D) = Done ys.
Proof.
  exists [unhex "63687231"%string], [], [(unhex "63687231"%string, [0]); (unhex "63687255"%string, [1])].
  split; [|split; [|split]].
  - repeat constructor; simpl; tauto.
  - repeat constructor; vm_compute; intuition discriminate.
  - vm_compute; reflexivity.
  - eexists. vm_compute. reflexivity.
Qed.
Print Assumptions C12_rows_refuted.
(* with the look-ahead walk (notes/C12.fix-2.diff) the same consumer gets the full property *)
Theorem C12_rows_exact_ahead :
  forall (name : Type) (neqb : name -> name -> bool), (forall a b, neqb a b = true <-> a = b) ->
  forall (P : Type) (empty : P) (G I : list name) (D : list (name * P)),
    NoDup G -> NoDup (map fst D) -> G <> [] ->
    match spec_sync name neqb P empty G I D with
    | Some a => pull_n (List.length G) (iter_chrom_ahead name neqb P empty G G I D) = Done a
    | None => exists c, pull_n (List.length G) (iter_chrom_ahead name neqb P empty G G I D) = Err c
    end.
Proof. intros name neqb Heq P empty G I D. exact (genome_npull_ahead name neqb Heq P empty G I D). Qed.
Print Assumptions C12_rows_exact_ahead.
Theorem C12_genome_exact_ahead :
  forall (name : Type) (neqb : name -> name -> bool), (forall a b, neqb a b = true <-> a = b) ->
  forall (P : Type) (empty : P) (G I : list name) (D : list (name * P)),
    NoDup G -> NoDup (map fst D) ->
    match spec_sync name neqb P empty G I D with
    | Some a => pull_all (iter_chrom_ahead name neqb P empty G G I D) = Done a
    | None => exists c, pull_all (iter_chrom_ahead name neqb P empty G G I D) = Err c
    end.
Proof. intros name neqb Heq P empty G I D. exact (genome_exhaustive_ahead name neqb Heq P empty G I D). Qed.
Print Assumptions C12_genome_exact_ahead.

(* ---- MultiStream / SynchedStream ----
   `synched` is the code BEFORE notes/C12.fix-4.diff (pinned history: C12_multistream_exact, C12_zip_second_partial,
   C12_zip_second_refuted, C12_zip_second_never_misattributes); `synched_fol` is the code at /repo HEAD — see
   C12_multistream_every_consumer_exact, C12_zip_second_exact, C12_zip_every_stream_exact below. ---- *)
(* an attribute iterated to its end (the first stream of forbes/jaccard's zip): full property *)
Theorem C12_multistream_exact :
  forall (name : Type) (neqb : name -> name -> bool), (forall a b, neqb a b = true <-> a = b) ->
  forall (P : Type) (empty : P) (order : list name) (gs : list (name * P)),
    NoDup order -> NoDup (map fst gs) ->
    match spec_sync name neqb P empty order [] gs with
    | Some a => pull_all (synched name neqb P empty order gs) = Done a
    | None => exists c, pull_all (synched name neqb P empty order gs) = Err c
    end.
Proof. intros name neqb Heq P empty order gs. exact (multistream_exhaustive name neqb Heq P empty order gs). Qed.
Print Assumptions C12_multistream_exact.
(* the second stream of a zip is pulled once per contig: exact for order-compatible data ... *)
Theorem C12_zip_second_partial :
  forall (name : Type) (neqb : name -> name -> bool), (forall a b, neqb a b = true <-> a = b) ->
  forall (P : Type) (empty : P) (order : list name) (gs : list (name * P)) (a : list P),
    NoDup order -> NoDup (map fst gs) ->
    spec_sync name neqb P empty order [] gs = Some a ->
    pull_n (List.length order) (synched name neqb P empty order gs) = Done a.
Proof. intros name neqb Heq P empty order gs a. exact (multistream_npull_good name neqb Heq P empty order gs a). Qed.
Print Assumptions C12_zip_second_partial.
(* ... but contig list {chr1, chr2}, second stream ordered chr2, chr1: completes, chr1's entries are gone *)
Theorem C12_zip_second_refuted :
  exists (order : list bname) (gs : list (bname * ids)),
    NoDup order /\ NoDup (map fst gs) /\ spec_sync bname zlist_eqb ids [] order [] gs = None
    /\ exists ys, pull_n (List.length order) (synched bname zlist_eqb ids [] order gs) = Done ys.
Proof.
  exists [unhex "63687231"; unhex "63687232"]%string, [(unhex "63687232"%string, [0]); (unhex "63687231"%string, [1])].
  split; [|split; [|split]].
  - repeat constructor; vm_compute; intuition discriminate.
  - repeat constructor; vm_compute; intuition discriminate.
  - vm_compute; reflexivity.
  - eexists. vm_compute. reflexivity.
Qed.
Print Assumptions C12_zip_second_refuted.
(* with the name of the following group checked before a group is handed out (notes/C12.fix-3.diff): full property
   for both kinds of consumer *)
Theorem C12_zip_second_exact_ahead :
  forall (name : Type) (neqb : name -> name -> bool), (forall a b, neqb a b = true <-> a = b) ->
  forall (P : Type) (empty : P) (order : list name) (gs : list (name * P)),
    NoDup order -> NoDup (map fst gs) -> order <> [] ->
    match spec_sync name neqb P empty order [] gs with
    | Some a => pull_n (List.length order) (synched_ahead name neqb P empty order gs) = Done a
    | None => exists c, pull_n (List.length order) (synched_ahead name neqb P empty order gs) = Err c
    end.
Proof. intros name neqb Heq P empty order gs. exact (multistream_npull_ahead name neqb Heq P empty order gs). Qed.
Print Assumptions C12_zip_second_exact_ahead.
Theorem C12_multistream_exact_ahead :
  forall (name : Type) (neqb : name -> name -> bool), (forall a b, neqb a b = true <-> a = b) ->
  forall (P : Type) (empty : P) (order : list name) (gs : list (name * P)),
    NoDup order -> NoDup (map fst gs) -> order <> [] ->
    match spec_sync name neqb P empty order [] gs with
    | Some a => pull_all (synched_ahead name neqb P empty order gs) = Done a
    | None => exists c, pull_all (synched_ahead name neqb P empty order gs) = Err c
    end.
Proof. intros name neqb Heq P empty order gs. exact (multistream_exhaustive_ahead name neqb Heq P empty order gs). Qed.
Print Assumptions C12_multistream_exact_ahead.

(* ---- the code at /repo HEAD (notes/C12.fix-4.diff): the following group's name goes through the two guards before
   `yield data`.  Its trace is, for EVERY input, the trace of the look-ahead machine of fix-3 ... ---- *)
Theorem C12_synched_following_is_lookahead :
  forall (name : Type) (neqb : name -> name -> bool), (forall a b, neqb a b = true <-> a = b) ->
  forall (P : Type) (empty : P) (order : list name) (gs : list (name * P)),
    synched_fol name neqb P empty order gs = synched_ahead name neqb P empty order gs.
Proof. exact synched_fol_is_ahead. Qed.
Print Assumptions C12_synched_following_is_lookahead.
(* ... and THE UNGUARDED STATEMENT: every group order, unknown names anywhere, every consumer pull depth.
   Order-compatible data: a consumer taking k items gets exactly the first k tables of the per-contig assignment (all of
   them from k = number of contigs on, and when run to the end).  Data that must raise (order disagreement / unknown
   contig): every consumer that takes at least one item per contig — list(ms.a), a zip partner in ANY position,
   get_contingency_table — gets the exception; nothing completes silently. *)
Theorem C12_multistream_every_consumer_exact :
  forall (name : Type) (neqb : name -> name -> bool), (forall a b, neqb a b = true <-> a = b) ->
  forall (P : Type) (empty : P) (order : list name) (gs : list (name * P)),
    NoDup order -> NoDup (map fst gs) -> order <> [] ->
    match spec_sync name neqb P empty order [] gs with
    | Some a => pull_all (synched_fol name neqb P empty order gs) = Done a
                /\ forall k, pull_n k (synched_fol name neqb P empty order gs) = Done (firstn k a)
    | None => (exists c, pull_all (synched_fol name neqb P empty order gs) = Err c)
              /\ forall k, (List.length order <= k)%nat -> exists c, pull_n k (synched_fol name neqb P empty order gs) = Err c
    end.
Proof. exact multistream_fol_any_depth. Qed.
Print Assumptions C12_multistream_every_consumer_exact.
(* the instance that was refuted for the old code (C12_zip_second_refuted): the second stream of a zip, one pull per contig *)
Theorem C12_zip_second_exact :
  forall (name : Type) (neqb : name -> name -> bool), (forall a b, neqb a b = true <-> a = b) ->
  forall (P : Type) (empty : P) (order : list name) (gs : list (name * P)),
    NoDup order -> NoDup (map fst gs) -> order <> [] ->
    match spec_sync name neqb P empty order [] gs with
    | Some a => pull_n (List.length order) (synched_fol name neqb P empty order gs) = Done a
    | None => exists c, pull_n (List.length order) (synched_fol name neqb P empty order gs) = Err c
    end.
Proof. exact multistream_fol_npull. Qed.
Print Assumptions C12_zip_second_exact.
(* zip(ms.s1, …, ms.sm, ms.lengths) over ANY number m of synchronised streams of one MultiStream, as the pull machine
   runs it (sources asked in list order per round, first exhausted source ends, exceptions pass): if every stream's data
   has an assignment, the machine returns one row per contig and column i is exactly stream i's per-contig
   assignment; if ANY stream — in whatever position — has an order disagreement or an unknown contig, the zip raises. *)
Theorem C12_zip_every_stream_exact :
  forall (order : list bname) (gss : list (list (bname * ids))) (sizes : list Z),
    NoDup order -> order <> [] -> Forall (fun gs => NoDup (map fst gs)) gss -> List.length sizes = List.length order ->
    if forallb (spec_some order) gss
    then exists rows, lockstep item (S (List.length order)) (zip_all_sources order gss sizes) = Done rows
           /\ List.length rows = List.length order
           /\ forall i gs, nth_error gss i = Some gs ->
                exists a, spec_sync bname zlist_eqb ids [] order [] gs = Some a /\ column (ISize 0) i rows = map ITable a
    else exists c, lockstep item (S (List.length order)) (zip_all_sources order gss sizes) = Err c.
Proof. exact multistream_zip_all. Qed.
Print Assumptions C12_zip_every_stream_exact.

(* ---- left_join(contig list, grouped data) run to its end: every contig with its own table or None, or an
   AssertionError ---- *)
Theorem C12_left_join_exact :
  forall (name : Type) (neqb : name -> name -> bool), (forall a b, neqb a b = true <-> a = b) ->
  forall (S P : Type) (left : list (name * S)) (R : list (name * P)),
    NoDup (map fst left) -> NoDup (map fst R) ->
    if subseq_b name neqb (map fst R) (map fst left)
    then left_join name neqb S P left R
         = (map (fun cs => (fst cs, snd cs, lookup name neqb (option P) None (fst cs)
                                              (map (fun g => (fst g, Some (snd g))) R))) left, Stop)
    else exists ys c, left_join name neqb S P left R = (ys, Raise c).
Proof.
  intros name neqb Heq S P left R Hl HR.
  pose proof (left_join_spec name neqb Heq S P left R Hl HR) as H.
  destruct (subseq_b name neqb (map fst R) (map fst left)); exact H.
Qed.
Print Assumptions C12_left_join_exact.

(* ---- every chunking: groupby per chunk (with the first-key==last-key fast path) + join_groupbys ---- *)
(* If the entries of one contig are contiguous in the data (contiguous: between two occurrences of a key there
   is only that key), the grouped stream is the list of runs of the whole data, for every way of cutting the
   entries into non-empty chunks ... *)
Theorem C12_grouping_chunk_invariant :
  forall (name : Type) (neqb : name -> name -> bool), (forall a b, neqb a b = true <-> a = b) ->
  forall chunks : list (list (name * Z)),
    Forall (fun c => c <> []) chunks -> contiguous name (map fst (List.concat chunks)) ->
    grouped name neqb chunks = runs name neqb (List.concat chunks).
Proof. exact grouped_chunk_invariant. Qed.
Print Assumptions C12_grouping_chunk_invariant.
(* ... and its group names are pairwise distinct (the hypothesis `NoDup (map fst D)` of the theorems above) *)
Theorem C12_group_names_distinct :
  forall (name : Type) (neqb : name -> name -> bool), (forall a b, neqb a b = true <-> a = b) ->
  forall es : list (name * Z), contiguous name (map fst es) -> NoDup (map fst (runs name neqb es)).
Proof. exact runs_names_NoDup. Qed.
Print Assumptions C12_group_names_distinct.

(* ---- end to end, from the chunk stream to what bnp.compute returns (exhaustive consumer), byte-string names:
   with fix-1 for every filter; for the code as it is when no included contig name contains '_' ---- *)
Theorem C12_end_to_end :
  forall (fixed_order keepall : bool) (genome extra : list bname) (chunks : list (list (bname * Z))),
    NoDup genome -> Forall (fun c => c <> []) chunks -> contiguous bname (map fst (List.concat chunks)) ->
    let incl := ctx_included bname zlist_eqb has_underscore keepall genome extra in
    let ign := ctx_ignored bname has_underscore keepall genome extra in
    let D := runs bname zlist_eqb (List.concat chunks) in
    (fixed_order = true \/ forallb (fun c => negb (has_underscore c)) incl = true) ->
    match spec_sync bname zlist_eqb ids [] incl ign D with
    | Some a => pull_all (genome_trace fixed_order false keepall genome extra chunks) = Done a
    | None => exists c, pull_all (genome_trace fixed_order false keepall genome extra chunks) = Err c
    end.
Proof. exact genome_end_to_end. Qed.
Print Assumptions C12_end_to_end.

(* ---- Source tie: the decision rules regenerated from /repo on this run (Gen/C12.v, written by translate/gen_c12.py
   from genome_context.py, multistream.py, left_join.py, groupby_func.py, genomic_track.py) are the rules the model is
   built from — which names are ignored / included, the order that is walked, skip / raise / yield in _included_groups,
   the sort-order and left-over tests of iter_chromosomes and that they run BEFORE the yield, SynchedStream's guards and
   skipping loop, its shape (fix-4: `_with_following` pairs, the following group's name through the same guards before `yield data`), left_join's two tests, that a group boundary is an inequality of
   the WHOLE adjacent keys, the first-equals-last fast path, the join key, and get_data asking the name stream first;
   and the model variants in use (genome_trace_head, synched_head) are the ones these facts select.  Bridge/C12.v also
   proves that the model's state machines take exactly the steps these rules prescribe (the lemmas whose names start with s_). ---- *)
Theorem C12_source_tie :
  (forall a b : bool,
      gen_filter_ignore_underscores a = m_filter_ignore_underscores a
      /\ gen_ctx_is_ignored true = m_ctx_is_ignored true a
      /\ gen_ctx_is_ignored (gen_filter_ignore_underscores a) = m_ctx_is_ignored false a
      /\ gen_ctx_is_included a = m_ctx_is_included a
      /\ gen_included_action a b = m_included_action a b
      /\ gen_walk_is_match a = m_walk_is_match a
      /\ gen_walk_order_error a b = m_walk_order_error a b
      /\ gen_walk_leftover_error a = m_walk_leftover_error a
      /\ gen_sync_check a b = m_sync_check a b
      /\ gen_sync_keeps_skipping a b = m_sync_keeps_skipping a b
      /\ gen_lj_gets_default a = m_lj_gets_default a
      /\ gen_lj_final_ok a a = m_lj_final_ok a
      /\ gen_change_at a = m_change_at a)
  /\ (forall enc has_len len_eq eq : bool,
        (enc || has_len)%bool = true -> (eq = true -> len_eq = true) -> gen_fast_path enc has_len len_eq eq = m_fast_path eq)
  /\ gen_order_drops_underscore_names = m_order_drops_underscore_names
  /\ gen_walk_checks_before_yield = m_walk_checks_before_yield
  /\ gen_sync_checks_before_yield = m_sync_checks_before_yield
  /\ (gen_sync_shape = m_sync_shape
      /\ (forall h a b : bool, gen_sync_following_check h a b = m_sync_following_check h a b)
      /\ gen_with_following_pairs = m_with_following_pairs)
  /\ gen_change_offsets = m_change_offsets
  /\ gen_join_key_and_payload_index = m_join_key_and_payload_index
  /\ gen_get_data_names_first = m_get_data_names_first
  /\ (gen_cg_get_iter_stops_on_stopiteration = m_cg_get_iter_stops_on_stopiteration
      /\ gen_cg_args_in_list_order = m_cg_args_in_list_order
      /\ gen_cg_streamnode_pulls_first_eagerly = m_cg_streamnode_pulls_first_eagerly
      /\ gen_streamable_zips_in_arg_order = m_streamable_zips_in_arg_order)
  /\ (gen_pull_order_get_data = m_pull_order_get_data /\ gen_pull_order_reduce = m_pull_order_reduce
      /\ gen_pull_order_field = m_pull_order_field /\ gen_pull_order_zip = m_pull_order_zip)
  /\ gen_ms_table_is_one_chunk_stream = m_ms_table_is_one_chunk_stream
  /\ (gen_borders_compare_neighbouring_rows = m_borders_compare_neighbouring_rows
      /\ gen_with_ignored_added_is_functional = m_with_ignored_added_is_functional)
  /\ genome_trace_head = genome_trace (negb m_order_drops_underscore_names) m_walk_checks_before_yield
  /\ (forall order gs, synched_head order gs = synched_by_shape m_sync_shape order gs)
  /\ (forall order gs, synched_by_shape 2 order gs = synched_fol bname zlist_eqb ids [] order gs)
  /\ (forall order gs, synched_by_shape 0 order gs = synched bname zlist_eqb ids [] order gs).
Proof.
  exact (conj (fun a b =>
           conj (b_filter_ignore_underscores a) (conj (proj1 (b_ctx_is_ignored a)) (conj (proj2 (b_ctx_is_ignored a))
          (conj (b_ctx_is_included a) (conj (b_included_action a b) (conj (b_walk_is_match a) (conj (b_walk_order_error a b)
          (conj (b_walk_leftover_error a) (conj (b_sync_check a b) (conj (b_sync_keeps_skipping a b) (conj (b_lj_gets_default a)
          (conj (b_lj_final_ok a) (b_change_at a)))))))))))))
         (conj b_fast_path (conj b_order_drops_underscore_names (conj b_walk_checks_before_yield
         (conj b_sync_checks_before_yield (conj (conj b_sync_shape (conj b_sync_following_check b_with_following_pairs)) (conj b_change_offsets (conj b_join_key_and_payload_index
         (conj b_get_data_names_first (conj b_pull_machine (conj b_pull_orders (conj b_ms_table_is_one_chunk_stream (conj b_borders_and_deriving s_switches))))))))))))).
Qed.
Print Assumptions C12_source_tie.

(* ---- the pull machine: which consumer pulls how far ----
   lockstep = computation_graph.get_iter over a ComputationNode whose leaves are asked in list order (= Python zip):
   rounds i = 0, 1, …; in a round every source is asked once, in order; the first exhausted source ends everything, an
   exception passes through.  The source orders m_pull_order_* are regenerated from the code (C12_source_tie).
   The consumer observations the synchronisation theorems are stated for are exactly what this machine computes: *)
Theorem C12_machine_get_data :          (* get_data(): names, data, sizes — the data stream is asked at most N times *)
  forall (names : list bname) (sizes : list Z) (t : trace ids),
    List.length sizes = List.length names -> names <> [] -> machine_rows names sizes t = api_rows bname names t.
Proof. exact machine_rows_is_api_rows. Qed.
Print Assumptions C12_machine_get_data.
Theorem C12_machine_reduce :            (* np.sum(pileup): data, sizes — the data stream is run to its end *)
  forall (sizes : list Z) (t : trace ids),
    (List.length (fst t) <= List.length sizes)%nat -> machine_flat sizes t = api_flat t.
Proof. exact machine_flat_is_api_flat. Qed.
Print Assumptions C12_machine_reduce.
Theorem C12_machine_field : forall t : trace ids, machine_field t = api_flat t.     (* gi.start: the data stream alone *)
Proof. exact machine_field_is_api_flat. Qed.
Print Assumptions C12_machine_field.
Theorem C12_machine_zip_second :        (* zip(ms.a, ms.b, ms.lengths), first stream complete: b is asked N times *)
  forall (ya : list ids) (sizes : list Z) (t : trace ids),
    List.length ya = List.length sizes -> machine_zip_second (ya, Stop) sizes t = pull_n (List.length sizes) t.
Proof. exact machine_zip_second_is_pull_n. Qed.
Print Assumptions C12_machine_zip_second.

(* ---- THE PROPERTY for the code at /repo HEAD, genome route (Genome.get_intervals / get_track / read_intervals(stream)
   under bnp.compute), end to end: for every genome, every filter and ignored set with at least one included contig,
   every data set whose contigs are contiguous, every cut into non-empty chunks — every consumer (get_data rows,
   start/stop, sum; as the model observes them and as the pull machine computes them) returns exactly the per-contig
   assignment under the right labels, or raises.  Nothing is dropped, nothing is misattributed. ---- *)
Theorem C12_head_genome_end_to_end :
  forall (keepall : bool) (genome extra : list bname) (chunks : list (list (bname * Z))) (sizes : list Z),
    NoDup genome -> Forall (fun c => c <> []) chunks -> contiguous bname (map fst (List.concat chunks)) ->
    let incl := ctx_included bname zlist_eqb has_underscore keepall genome extra in
    let ign := ctx_ignored bname has_underscore keepall genome extra in
    let D := runs bname zlist_eqb (List.concat chunks) in
    let t := genome_trace_head keepall genome extra chunks in
    incl <> [] -> List.length sizes = List.length incl ->
    match spec_sync bname zlist_eqb ids [] incl ign D with
    | Some a => api_rows bname incl t = Done (labelled incl a) /\ api_flat t = Done (List.concat a)
                /\ api_sum t = Done (len (List.concat a))
                /\ machine_rows incl sizes t = Done (labelled incl a) /\ machine_flat sizes t = Done (List.concat a)
    | None => (exists c, api_rows bname incl t = Err c) /\ (exists c, api_flat t = Err c) /\ (exists c, api_sum t = Err c)
              /\ (exists c, machine_rows incl sizes t = Err c) /\ (exists c, machine_flat sizes t = Err c)
    end.
Proof. exact head_genome_end_to_end. Qed.
Print Assumptions C12_head_genome_end_to_end.

(* ---- MultiStream at /repo HEAD (with notes/C12.fix-4.diff), end to end from the chunk stream: for every contig list
   (at least one contig), every data set whose contigs are contiguous, every cut into non-empty chunks — the attribute run
   to its end, a consumer of ANY pull depth, and the second stream of forbes/jaccard's zip as the pull machine computes
   it all get the exact per-contig assignment, or an exception.  No guard on the data: the former known finding
   C12-multistream-second-stream-unchecked is gone. ---- *)
Theorem C12_head_multistream_end_to_end :
  forall (order : list bname) (chunks : list (list (bname * Z))),
    NoDup order -> order <> [] -> Forall (fun c => c <> []) chunks -> contiguous bname (map fst (List.concat chunks)) ->
    let D := runs bname zlist_eqb (List.concat chunks) in
    let t := synched_head order (grouped bname zlist_eqb chunks) in
    match spec_sync bname zlist_eqb ids [] order [] D with
    | Some a => pull_all t = Done a
                /\ (forall k, pull_n k t = Done (firstn k a))
                /\ forall ya sizes, List.length ya = List.length sizes -> List.length sizes = List.length order ->
                     machine_zip_second (ya, Stop) sizes t = Done a
    | None => (exists c, pull_all t = Err c)
              /\ (forall k, (List.length order <= k)%nat -> exists c, pull_n k t = Err c)
              /\ forall ya sizes, List.length ya = List.length sizes -> List.length sizes = List.length order ->
                     exists c, machine_zip_second (ya, Stop) sizes t = Err c
    end.
Proof. exact head_multistream_end_to_end. Qed.
Print Assumptions C12_head_multistream_end_to_end.
(* history: the same statement for the code before fix-4 (shape 0) held only in this guarded form — the second stream
   of the zip exact when the data is order-compatible; otherwise it could complete (C12_zip_second_refuted), though even
   then no entry was ever delivered under another contig (C12_zip_second_never_misattributes) *)
Theorem C12_pinned_multistream_end_to_end :
  forall (order : list bname) (chunks : list (list (bname * Z))),
    NoDup order -> Forall (fun c => c <> []) chunks -> contiguous bname (map fst (List.concat chunks)) ->
    let D := runs bname zlist_eqb (List.concat chunks) in
    let t := synched_by_shape 0 order (grouped bname zlist_eqb chunks) in
    match spec_sync bname zlist_eqb ids [] order [] D with
    | Some a => pull_all t = Done a
                /\ forall ya sizes, List.length ya = List.length sizes -> List.length sizes = List.length order ->
                     machine_zip_second (ya, Stop) sizes t = Done a
    | None => exists c, pull_all t = Err c
    end.
Proof. exact pinned_multistream_end_to_end. Qed.
Print Assumptions C12_pinned_multistream_end_to_end.
(* data handed to MultiStream / forbes / jaccard as ONE TABLE IN MEMORY is wrapped as the one-chunk stream of itself
   (`NpDataclassStream([value], …)`) and synchronised like any stream: for contiguous data the grouped stream, hence the
   whole trace and every consumer observation, is the same as for any cut of the same entries into chunks — so
   C12_head_multistream_end_to_end holds verbatim for the in-memory route *)
Theorem C12_table_is_one_chunk_stream :
  forall (order : list bname) (chunks : list (list (bname * Z))),
    Forall (fun c => c <> []) chunks -> contiguous bname (map fst (List.concat chunks)) ->
    grouped bname zlist_eqb (table_chunks chunks) = grouped bname zlist_eqb chunks
    /\ multistream_table_trace order chunks = multistream_trace order chunks.
Proof. exact table_is_one_chunk_stream. Qed.
Print Assumptions C12_table_is_one_chunk_stream.
Theorem C12_zip_second_never_misattributes :
  forall (name : Type) (neqb : name -> name -> bool), (forall a b, neqb a b = true <-> a = b) ->
  forall (P : Type) (empty : P) (order : list name) (gs : list (name * P)) (k : nat) (ys : list P),
    NoDup (map fst gs) ->
    pull_n k (synched name neqb P empty order gs) = Done ys ->
    Forall2 (fun c y => y = empty \/ y = lookup name neqb P empty c gs) (firstn (List.length ys) order) ys.
Proof. exact synched_never_misattributes. Qed.
Print Assumptions C12_zip_second_never_misattributes.

(* the same for the code at /repo HEAD (repaired loop), at EVERY pull depth and for every data set, including data that
   must raise and a consumer that stops early: whatever is delivered is delivered under its own contig *)
Theorem C12_multistream_never_misattributes :
  forall (name : Type) (neqb : name -> name -> bool), (forall a b, neqb a b = true <-> a = b) ->
  forall (P : Type) (empty : P) (order : list name) (gs : list (name * P)) (k : nat) (ys : list P),
    NoDup (map fst gs) ->
    pull_n k (synched_fol name neqb P empty order gs) = Done ys ->
    Forall2 (fun c y => y = empty \/ y = lookup name neqb P empty c gs) (firstn (List.length ys) order) ys.
Proof. exact synched_fol_never_misattributes. Qed.
Print Assumptions C12_multistream_never_misattributes.

(* ---- the two verdicts of the check (Corr/C12.v): on every well-formed case (gen_ok: the chunks are the groups,
   group names distinct = the precondition, no empty chunk or group) where the implementation agrees with the model,
   the property holds — all three routes, unconditionally (genome route: at least one included contig; MultiStream
   route: at least one contig). ---- *)
Theorem C12_model_ok_implies_spec_ok_genome :
  forall c : case, k_route c = 0 -> gen_ok c = true ->
    ctx_included bname zlist_eqb has_underscore (k_keepall c) (k_genome c) (k_extra c) <> [] ->
    model_ok c = true -> spec_ok c = true.
Proof. exact genome_route_link. Qed.
Print Assumptions C12_model_ok_implies_spec_ok_genome.
Theorem C12_model_ok_implies_spec_ok_multistream :
  forall c : case, k_route c = 1 -> gen_ok c = true -> k_genome c <> [] -> model_ok c = true -> spec_ok c = true.
Proof. exact multistream_route_link. Qed.
Print Assumptions C12_model_ok_implies_spec_ok_multistream.
Theorem C12_model_ok_implies_spec_ok_left_join :
  forall c : case, k_route c <> 0 -> k_route c <> 1 -> gen_ok c = true -> model_ok c = true -> spec_ok c = true.
Proof. exact left_join_route_link. Qed.
Print Assumptions C12_model_ok_implies_spec_ok_left_join.

(* non-vacuity: a concrete genome (chr1, chr2_alt ignored by the default filter, chr3), data for chr1, the
   ignored contig and chr3 in three chunks with a cut inside chr1: the hypotheses hold, the Spec yields the
   assignment [[0;1]; [3]], and the executable model of the code at HEAD delivers exactly that to both consumers *)
Example C12_nonvacuous :
  let chr1 := unhex "63687231"%string in let alt := unhex "636872325f616c74"%string in let chr3 := unhex "63687233"%string in
  let genome := [chr1; alt; chr3] in
  let chunks := [[(chr1, 0)]; [(chr1, 1); (alt, 2)]; [(chr3, 3)]] in
  let D := grouped bname zlist_eqb chunks in
  let incl := ctx_included bname zlist_eqb has_underscore false genome [] in
  let ign := ctx_ignored bname has_underscore false genome [] in
  D = [(chr1, [0; 1]); (alt, [2]); (chr3, [3])]
  /\ spec_sync bname zlist_eqb ids [] incl ign D = Some [[0; 1]; [3]]
  /\ api_flat (genome_trace_head false genome [] chunks) = Done [0; 1; 3]
  /\ api_rows bname incl (genome_trace_head false genome [] chunks) = Done [(chr1, 0); (chr1, 1); (chr3, 3)].
Proof. vm_compute. repeat split; reflexivity. Qed.

(* non-vacuity of the machine statements: on the same concrete data the pull machine itself returns the rows; on a
   mis-ordered second stream the code before fix-4 (shape 0) completes with chr1's entry gone (the former finding), the
   code at HEAD raises for the zip consumer as well as for the exhaustive one *)
Example C12_machine_nonvacuous :
  let chr1 := unhex "63687231"%string in let chr2 := unhex "63687232"%string in
  let t := genome_trace_head false [chr1; chr2] [] [[(chr1, 0)]; [(chr1, 1); (chr2, 2)]] in
  machine_rows [chr1; chr2] [40; 40] t = Done [(chr1, 0); (chr1, 1); (chr2, 2)]
  /\ machine_flat [40; 40] t = Done [0; 1; 2]
  /\ machine_zip_second ([[9]; [8]], Stop) [40; 40] (synched_by_shape 0 [chr1; chr2] [(chr2, [0]); (chr1, [1])]) = Done [[]; [0]]
  /\ pull_all (synched_by_shape 0 [chr1; chr2] [(chr2, [0]); (chr1, [1])]) = Err E_SEEN
  /\ machine_zip_second ([[9]; [8]], Stop) [40; 40] (synched_head [chr1; chr2] [(chr2, [0]); (chr1, [1])]) = Err E_SEEN
  /\ pull_all (synched_head [chr1; chr2] [(chr2, [0]); (chr1, [1])]) = Err E_SEEN
  /\ machine_zip_second ([[9]; [8]], Stop) [40; 40] (synched_head [chr1; chr2] [(chr1, [0]); (chr2, [1]); (unhex "63687255"%string, [2])]) = Err E_NOTIN.
Proof. vm_compute. repeat split; reflexivity. Qed.

(* non-vacuity of C12_multistream_every_consumer_exact / C12_zip_second_exact / C12_zip_every_stream_exact: contigs
   chr1, chr2, chr3; stream A has data for chr1 and chr3, stream B for chr2 only, stream C is ordered chr3, chr1 and
   stream U names an unknown contig after its last matched one.  Hypotheses hold; A alone at pull depths 0..4; the
   three-column zip of A, B returns both assignments; with C or U in ANY position the zip raises. *)
Example C12_zip_all_nonvacuous :
  let chr1 := unhex "63687231"%string in let chr2 := unhex "63687232"%string in let chr3 := unhex "63687233"%string in
  let chrU := unhex "63687255"%string in
  let order := [chr1; chr2; chr3] in
  let A := [(chr1, [0; 1]); (chr3, [2])] in let B := [(chr2, [5])] in
  let C := [(chr3, [7]); (chr1, [8])] in let U := [(chr1, [3]); (chr3, [4]); (chrU, [6])] in
  spec_sync bname zlist_eqb ids [] order [] A = Some [[0; 1]; []; [2]]
  /\ spec_sync bname zlist_eqb ids [] order [] C = None /\ spec_sync bname zlist_eqb ids [] order [] U = None
  /\ map (fun k => pull_n k (synched_head order A)) [0; 1; 3; 4]%nat
     = [Done []; Done [[0; 1]]; Done [[0; 1]; []; [2]]; Done [[0; 1]; []; [2]]]
  /\ pull_n 3 (synched_head order C) = Err E_SEEN /\ pull_n 3 (synched_head order U) = Err E_NOTIN
  /\ pull_n 3 (synched_by_shape 0 order C) = Done [[]; []; [7]]
  /\ pull_n 2 (synched_head order U) = Done [[3]; []]      (* stops early on data that must raise: own slots only *)
  /\ lockstep item 4 (zip_all_sources order [A; B] [10; 20; 30])
     = Done [[ITable [0; 1]; ITable []; ISize 10]; [ITable []; ITable [5]; ISize 20]; [ITable [2]; ITable []; ISize 30]]
  /\ lockstep item 4 (zip_all_sources order [A; B; C] [10; 20; 30]) = Err E_SEEN
  /\ lockstep item 4 (zip_all_sources order [A; U; B] [10; 20; 30]) = Err E_NOTIN
  /\ lockstep item 4 (zip_all_sources order [C; A] [10; 20; 30]) = Err E_SEEN.
Proof. vm_compute. repeat split; reflexivity. Qed.

(* Props/C16.v — the property theorems for C16 (BAM records decode to what the specification defines).
   Only statements, `exact <lemma>` and Print Assumptions live here.
   Variants: [pinned] = bionumpy/io/bam.py at /repo HEAD ([current] in Model/C16.v), [repaired] = after
   notes/C16.fix-1.diff + fix-2.diff.  Full-strength statements are proved for [repaired]; for [pinned] the same
   statements are refuted by witness and proved under exactly the guard that excludes the failing class. *)
From Coq Require Import ZArith List Bool.
From BNP Require Import Base.Prims Model.C16 Proofs.C16 Corr.C16 Proofs.C16_link Gen.C16 Bridge.C16.
Import ListNotations.
Open Scope Z_scope.

(* T1 — record boundaries.  On a buffer that is the encodings of any records followed by an incomplete tail
   (nothing, the appended newline, or a cut-off record) the block_size chain returns exactly the record
   boundaries and stops before the tail. *)
Theorem C16_find_starts :
  forall rs tail, Forall fits rs -> incomplete tail ->
    find_starts (encode_recs rs ++ tail) = Some (starts_from 0 rs ++ [len (encode_recs rs)])
    /\ from_raw_buffer (encode_recs rs ++ tail) = Some (buf_of rs).
Proof. exact (fun rs tail Hf Ht => conj (find_starts_correct rs tail Hf Ht) (from_raw_buffer_correct rs tail Hf Ht)). Qed.
Print Assumptions C16_find_starts.

(* a strict prefix of an encoded record (what a chunk boundary leaves behind) is such an incomplete tail *)
Theorem C16_cut_record_is_incomplete :
  forall tail rest r more, tail ++ rest = encode_rec r ++ more -> fits r -> len tail < len (encode_rec r) -> incomplete tail.
Proof. exact strict_prefix_incomplete. Qed.
Print Assumptions C16_cut_record_is_incomplete.

(* T2 — every field of every valid record decodes to the record's value, wherever the record lies in the
   buffer: any name length, up to 65535 CIGAR operations, odd and even l_seq, any tag bytes.  (repaired code) *)
Theorem C16_decode_fields :
  forall pre post r names, rec_valid 65536 r ->
    decode_at repaired names (pre ++ encode_rec r ++ post) (len pre)
    = {| o_chrom := v_chrom repaired names (b_ref r); o_name := b_name r; o_flag := b_flag r; o_pos := b_pos r;
         o_mapq := b_mapq r; o_ops := Some (spec_ops r); o_lens := spec_lens r;
         o_seq := spec_letters r; o_qual := b_qual r |}.
Proof. exact (fun pre post r names H => decode_at_correct repaired 65536 (Z.le_refl _) cb_repaired pre post r H names). Qed.
Print Assumptions C16_decode_fields.

(* the same for the code at HEAD, for records with fewer than 16384 CIGAR operations ... *)
Theorem C16_decode_fields_partial :
  forall pre post r names, rec_valid 16384 r ->
    decode_at pinned names (pre ++ encode_rec r ++ post) (len pre)
    = {| o_chrom := v_chrom pinned names (b_ref r); o_name := b_name r; o_flag := b_flag r; o_pos := b_pos r;
         o_mapq := b_mapq r; o_ops := Some (spec_ops r); o_lens := spec_lens r;
         o_seq := spec_letters r; o_qual := b_qual r |}.
Proof. exact (fun pre post r names H => decode_at_correct pinned 16384 ltac:(discriminate) cb_pinned pre post r H names). Qed.
Print Assumptions C16_decode_fields_partial.

(* ... and false at HEAD for a valid record with 16384 operations (n_cigar_op * 4 wraps in uint16) *)
Theorem C16_decode_fields_refuted :
  exists pre post r names, rec_valid 65536 r /\
    decode_at pinned names (pre ++ encode_rec r ++ post) (len pre)
    <> {| o_chrom := v_chrom pinned names (b_ref r); o_name := b_name r; o_flag := b_flag r; o_pos := b_pos r;
          o_mapq := b_mapq r; o_ops := Some (spec_ops r); o_lens := spec_lens r;
          o_seq := spec_letters r; o_qual := b_qual r |}.
Proof. exact (ex_intro _ [] (ex_intro _ [] (ex_intro _ long_cigar_rec (ex_intro _ [[99]] (conj long_cigar_valid long_cigar_refutes))))). Qed.
Print Assumptions C16_decode_fields_refuted.

(* reference name: the header's name for a mapped record, "*" (no reference) for an unmapped one.  (repaired) *)
Theorem C16_reference_name :
  forall refs r, -1 <= b_ref r < len refs ->
    v_chrom repaired (map fst refs) (b_ref r) = match spec_chrom refs r with Some n => Some n | None => Some [42] end
    /\ (spec_chrom refs r = None <-> b_ref r = -1).
Proof. exact (fun refs r H => conj (chrom_repaired_correct refs r H) (spec_chrom_none refs r H)). Qed.
Print Assumptions C16_reference_name.

Theorem C16_reference_name_partial :
  forall refs r, 0 <= b_ref r < len refs -> v_chrom pinned (map fst refs) (b_ref r) = spec_chrom refs r.
Proof. exact chrom_pinned_mapped. Qed.
Print Assumptions C16_reference_name_partial.

(* at HEAD an unmapped record between references c1, c2 is reported on c2 *)
Theorem C16_reference_name_refuted :
  exists refs r, rec_okb (len refs) r = true /\ spec_chrom refs r = None
    /\ v_chrom pinned (map fst refs) (b_ref r) = Some [99; 50]
    /\ chrom_ok refs r (v_chrom pinned (map fst refs) (b_ref r)) = false.
Proof.
  exact (ex_intro _ two_refs (ex_intro _ unmapped_rec
           (conj (proj2 unmapped_valid) (conj (proj1 unmapped_refutes) (proj2 unmapped_refutes))))).
Qed.
Print Assumptions C16_reference_name_refuted.

(* T3 — reference interval: start = position, stop = position + summed lengths of M, D, N, =, X operations,
   strand from flag bit 0x10, name and score carried over.  (repaired; and HEAD below 16384 operations) *)
Theorem C16_reference_interval :
  forall pre post r names, rec_valid 65536 r ->
    interval_at repaired names (pre ++ encode_rec r ++ post) (len pre)
    = {| i_chrom := v_chrom repaired names (b_ref r); i_start := b_pos r; i_stop := b_pos r + spec_reflen r;
         i_name := b_name r; i_score := b_mapq r; i_strand := spec_strand r |}.
Proof. exact (fun pre post r names H => interval_at_correct repaired 65536 (Z.le_refl _) cb_repaired pre post r H names). Qed.
Print Assumptions C16_reference_interval.

Theorem C16_reference_interval_partial :
  forall pre post r names, rec_valid 16384 r ->
    interval_at pinned names (pre ++ encode_rec r ++ post) (len pre)
    = {| i_chrom := v_chrom pinned names (b_ref r); i_start := b_pos r; i_stop := b_pos r + spec_reflen r;
         i_name := b_name r; i_score := b_mapq r; i_strand := spec_strand r |}.
Proof. exact (fun pre post r names H => interval_at_correct pinned 16384 ltac:(discriminate) cb_pinned pre post r H names). Qed.
Print Assumptions C16_reference_interval_partial.

(* T4 — chunked reading.  For every chunk size k at least as large as the largest record the prepend-mode reader
   terminates, every chunk it yields holds at least one whole record, and the chunks are a partition of the
   file's records in order (each chunk's buffer is exactly the buffer of its group of records). *)
Theorem C16_chunked_reading :
  forall k rs, 0 < k -> Forall fits rs -> Forall (fun r => len (encode_rec r) <= k) rs ->
    exists groups, concat groups = rs /\ Forall (fun g => g <> []) groups
                   /\ read_chunks k (encode_recs rs) = Some (map buf_of groups).
Proof. exact (fun k rs Hk => read_chunks_correct k Hk rs). Qed.
Print Assumptions C16_chunked_reading.

(* T5 — writing back.  Header bytes replayed, then the selected records' bytes: the written stream is the
   specification's encoding of the selected records (any selection: filtered, reordered, repeated). *)
Theorem C16_write_back :
  forall hdr rs idx, Forall (fun i => 0 <= i < len rs) idx ->
    write_selected hdr (buf_of rs) idx = Some (hdr ++ encode_recs (select rs idx))
    /\ write_whole hdr (buf_of rs) = hdr ++ encode_recs rs.
Proof. exact (fun hdr rs idx H => conj (write_selected_correct hdr rs idx H) (write_whole_correct hdr rs)). Qed.
Print Assumptions C16_write_back.

(* header: magic, text, reference table parse back; the header bytes are recovered exactly for replay *)
Theorem C16_header_roundtrip :
  forall text refs rs, header_valid text refs -> Forall fits rs ->
    parse_header (encode_header text refs ++ encode_recs rs) = Some (refs, len (encode_header text refs))
    /\ read_file (encode_file text refs rs) = Some (map fst refs, encode_header text refs, buf_of rs).
Proof. exact (fun text refs rs Hh Hf => conj (parse_header_correct text refs (encode_recs rs) Hh) (read_file_correct text refs rs Hh Hf)). Qed.
Print Assumptions C16_header_roundtrip.

(* the decidable validity predicate the harness evaluates on every generated case implies the Prop form used above *)
Theorem C16_valid_records :
  forall n r, n <= 2147483648 -> rec_okb n r = true -> fits r -> rec_valid 65536 r /\ -1 <= b_ref r < n.
Proof. exact rec_okb_valid. Qed.
Print Assumptions C16_valid_records.

(* Model satisfies Spec, whole property, repaired code: for every valid BAM file (any header text, any reference
   table, any valid records incl. unmapped ones and up to 65535 CIGAR operations) the model's whole read, interval
   view, chunked reads for every k >= the largest record, and whole / selected writes satisfy the very predicates
   (rec_matches, iv_matches, byte equality with the spec encoding) that Corr.C16.spec_ok evaluates on the
   implementation's output.  Hence: implementation = model on a case  ==>  the property holds on that case. *)
Theorem C16_model_satisfies_spec :
  forall text refs rs, header_valid text refs ->
    Forall (fun r => rec_valid 65536 r /\ -1 <= b_ref r < len refs) rs ->
    exists b, read_file (encode_file text refs rs) = Some (map fst refs, encode_header text refs, b)
      /\ all2 (rec_matches refs) rs (decode_buf repaired (map fst refs) b) = true
      /\ all2 (iv_matches refs) rs (intervals_buf repaired (map fst refs) b) = true
      /\ (forall k, 0 < k -> Forall (fun r => len (encode_rec r) <= k) rs ->
            exists bs, read_chunks k (encode_recs rs) = Some bs
              /\ Forall (fun c => bf_starts c <> []) bs
              /\ all2 (rec_matches refs) rs (flat_map (decode_buf repaired (map fst refs)) bs) = true
              /\ encode_header text refs ++ concat (map bf_data bs) = encode_file text refs rs)
      /\ write_whole (encode_header text refs) b = encode_file text refs rs
      /\ (forall idx, Forall (fun i => 0 <= i < len rs) idx ->
            write_selected (encode_header text refs) b idx = Some (encode_file text refs (select rs idx))).
Proof.
  exact (fun text refs rs Hh Hg =>
    model_satisfies_spec repaired 65536 (Z.le_refl _) cb_repaired text refs rs Hh
      (Forall_impl _ (fun r H => good_repaired refs r (proj1 H) (proj2 H)) Hg)).
Qed.
Print Assumptions C16_model_satisfies_spec.

(* the same for the code at HEAD (= [current]), guarded: mapped records with fewer than 16384 CIGAR operations *)
Theorem C16_model_satisfies_spec_partial :
  forall text refs rs, header_valid text refs ->
    Forall (fun r => rec_valid 16384 r /\ 0 <= b_ref r < len refs) rs ->
    exists b, read_file (encode_file text refs rs) = Some (map fst refs, encode_header text refs, b)
      /\ all2 (rec_matches refs) rs (decode_buf pinned (map fst refs) b) = true
      /\ all2 (iv_matches refs) rs (intervals_buf pinned (map fst refs) b) = true
      /\ (forall k, 0 < k -> Forall (fun r => len (encode_rec r) <= k) rs ->
            exists bs, read_chunks k (encode_recs rs) = Some bs
              /\ Forall (fun c => bf_starts c <> []) bs
              /\ all2 (rec_matches refs) rs (flat_map (decode_buf pinned (map fst refs)) bs) = true
              /\ encode_header text refs ++ concat (map bf_data bs) = encode_file text refs rs)
      /\ write_whole (encode_header text refs) b = encode_file text refs rs
      /\ (forall idx, Forall (fun i => 0 <= i < len rs) idx ->
            write_selected (encode_header text refs) b idx = Some (encode_file text refs (select rs idx))).
Proof.
  exact (fun text refs rs Hh Hg =>
    model_satisfies_spec pinned 16384 ltac:(discriminate) cb_pinned text refs rs Hh
      (Forall_impl _ (fun r H => good_pinned refs r (proj1 H) (proj2 H)) Hg)).
Qed.
Print Assumptions C16_model_satisfies_spec_partial.

(* Source tie: the arithmetic regenerated on this run from /repo's io/bam.py, alignments/cigar.py,
   alignments/__init__.py and io/parser.py (Gen/C16.v, written by translate/run.py + translate/gen_c16.py) is the
   arithmetic of the model the theorems above are about: the (offset, width, signedness) of every fixed field, the
   byte index of _get_ints, the derived offset chain with n_cigar_op * 4 (in the dtype the source computes it) and
   (l_seq + 1) // 2, the slice bounds of name / CIGAR / sequence / qualities, two nibbles per byte high first masked
   with 15 and trimmed to l_seq, the block chain step start + block_size + 4 from chunk[start:start+4] with the
   `<=` test starting at 0, the CIGAR split (& 15, >> 4), the "MDN=X" reference length, stop = position + length and
   strand from flag & 16 on both interval routes, and the reader's end-of-stream test.  Element-wise NumPy
   expressions are read per element. *)
Theorem C16_source_tie :
  (forall d s, m_refid d s = read_field gen_fld_refid d s /\ m_pos d s = read_field gen_fld_pos d s
            /\ m_n_cigar d s = read_field gen_fld_n_cigar d s /\ m_flag d s = read_field gen_fld_flag d s
            /\ m_l_seq d s = read_field gen_fld_l_seq d s
            /\ m_l_read_name d s = nthZ d (gen_l_read_name_index s) /\ m_mapq d s = nthZ d (gen_mapq_index s))
  /\ (gen_pos_is_raw = true /\ gen_flag_is_raw = true /\ gen_l_seq_is_raw = true /\ gen_raw_buffer_shape = true)
  /\ (forall d s off n, get_uint d s off n = from_le (slice (gen_get_ints_index s off 0) (gen_get_ints_index s off n) d))
  /\ (forall d s, m_name_start s = gen_read_name_start s
            /\ m_cigar_start d s = gen_cigar_start (gen_read_name_start s) (m_l_read_name d s)
            /\ m_seq_start current d s = gen_sequence_start (m_cigar_start d s) (gen_cigar_bytes (m_n_cigar d s))
            /\ m_qual_start current d s = gen_quality_start (m_seq_start current d s) (m_l_seq d s))
  /\ (forall n, v_cigar_bytes current n = gen_cigar_bytes n)
  /\ (forall d s,
        let A := m_name_start s in let B := m_cigar_start d s in let C := m_seq_start current d s in
        let D := m_qual_start current d s in let L := m_l_seq d s in
        m_name d s = slice (gen_name_lo A B C D L) (gen_name_hi A B C D L) d
        /\ m_cigar_words current d s
           = map from_le (chunks_of (Z.to_nat gen_cigar_word_bytes) (slice (gen_cigar_lo A B C D L) (gen_cigar_hi A B C D L) d))
        /\ m_seq current d s
           = firstn (Z.to_nat (gen_seq_keep L)) (nibbles (slice (gen_seq_lo A B C D L) (gen_seq_hi A B C D L) d))
        /\ m_qual current d s = slice (gen_qual_lo A B C D L) (gen_qual_hi A B C D L) d)
  /\ (forall b, nibbles [b] = [gen_nibble b 0; gen_nibble b 1] /\ gen_nibbles_per_byte = 2)
  /\ (forall s l, gen_seq_row_len l = gen_nibbles_per_byte * (gen_quality_start s l - s))
  /\ (forall n, gen_cigar_n_words n = n / gen_cigar_word_bytes)
  /\ (forall chunk start,
        find_next chunk start = gen_find_next start (from_le (slice (gen_block_size_lo start) (gen_block_size_hi start) chunk))
        /\ in_chunk start (len chunk) = gen_in_chunk start (len chunk)
        /\ find_starts chunk = find_starts_fuel (S (S (length chunk))) chunk gen_first_start)
  /\ (forall n k, is_finished n k = gen_is_finished n k)
  /\ (forall d s, m_cigar current d s = map (fun w => (gen_cigar_op w, gen_cigar_len w)) (m_cigar_words current d s))
  /\ map (fun c => index_of c cigar_letters) (codes gen_consuming) = m_consuming
  /\ (forall cg, m_reflen cg
        = sumZ (map (fun c => gen_ref_term (if existsb (Z.eqb (fst c)) m_consuming then 1 else 0) (snd c)) cg))
  /\ (forall names d s,
        let iv := interval_at current names d s in
        i_stop iv = gen_bib_stop (m_pos d s) (m_reflen (m_cigar current d s))
        /\ i_stop iv = gen_a2i_stop (m_pos d s) (m_reflen (m_cigar current d s))
        /\ i_strand iv = gen_bib_strand (m_flag d s)
        /\ i_strand iv = gen_a2i_strand (gen_a2i_strand_bits (m_flag d s))).
Proof.
  exact (conj (fun d s => conj (br_fld_refid d s) (conj (br_fld_pos d s) (conj (br_fld_n_cigar d s) (conj (br_fld_flag d s)
                 (conj (br_fld_l_seq d s) (conj (br_l_read_name d s) (br_mapq d s)))))))
        (conj br_raw_fields
        (conj br_get_ints
        (conj (fun d s => conj (br_read_name_start s) (conj (br_cigar_start d s) (conj (br_sequence_start d s) (br_quality_start d s))))
        (conj br_cigar_bytes
        (conj (fun d s => conj (br_name_slice d s) (conj (br_cigar_slice d s) (conj (br_seq_slice d s) (br_qual_slice d s))))
        (conj br_nibbles
        (conj br_seq_row_len
        (conj br_cigar_n_words
        (conj (fun chunk start => conj (br_find_next chunk start) (conj (br_in_chunk start (len chunk)) (br_first_start chunk)))
        (conj br_is_finished
        (conj br_cigar
        (conj br_consuming
        (conj br_ref_term br_interval)))))))))))))).
Qed.
Print Assumptions C16_source_tie.

(* non-vacuity: a concrete two-reference file with a 3-operation record of odd length, an unmapped record with tags
   and a 9-operation record without sequence meets the hypotheses; the executable model really decodes it, reads it
   in chunks of the largest record's size, and writes a reordered selection that is the spec encoding *)
Definition ex_refs : list (list Z * Z) := [([99; 49], 100); ([99; 50], 200)].
Definition ex_recs : list brec :=
  [ {| b_ref := 0; b_pos := 5; b_mapq := 30; b_bin := 4681; b_flag := 16; b_name := [114; 49];
       b_cigar := [(0, 3); (1, 2); (2, 4)]; b_seq := [1; 2; 4; 8; 15]; b_qual := [1; 2; 3; 4; 93];
       b_nref := -1; b_npos := -1; b_tlen := 0; b_tags := [] |};
    {| b_ref := -1; b_pos := -1; b_mapq := 0; b_bin := 4680; b_flag := 4; b_name := [117; 110; 109];
       b_cigar := []; b_seq := [1; 2; 4; 8]; b_qual := [0; 0; 0; 0];
       b_nref := -1; b_npos := -1; b_tlen := 0; b_tags := [78; 77; 67; 1] |};
    {| b_ref := 1; b_pos := 0; b_mapq := 255; b_bin := 0; b_flag := 0; b_name := [120];
       b_cigar := [(0, 1); (1, 2); (2, 3); (3, 4); (4, 5); (5, 6); (6, 7); (7, 8); (8, 9)]; b_seq := []; b_qual := [];
       b_nref := -1; b_npos := -1; b_tlen := 0; b_tags := [] |} ].
Example C16_nonvacuous :
  forallb (rec_okb (len ex_refs)) ex_recs = true
  /\ (match read_file (encode_file [64; 72; 68; 10] ex_refs ex_recs) with
      | Some (names, hdr, b) =>
          all2 (rec_matches ex_refs) ex_recs (decode_buf repaired names b)
          && all2 (iv_matches ex_refs) ex_recs (intervals_buf repaired names b)
          && negb (all2 (rec_matches ex_refs) ex_recs (decode_buf pinned names b))
          && match read_chunks 74 (encode_recs ex_recs) with
             | Some bs => zlist_eqb (map (fun c => len (bf_starts c)) bs) [1; 1; 1]
                          && all2 (rec_matches ex_refs) ex_recs (flat_map (decode_buf repaired names) bs)
             | None => false
             end
          && match write_selected hdr b [2; 0] with
             | Some w => zlist_eqb w (encode_file [64; 72; 68; 10] ex_refs (select ex_recs [2; 0]))
             | None => false
             end
      | None => false
      end) = true
  /\ map (fun r => len (encode_rec r)) ex_recs = [59; 50; 74].
Proof. vm_compute. repeat split. Qed.

(* Props/C16.v — the property theorems for C16 (BAM records decode to what the specification defines).
   Only statements, `exact <lemma>` and Print Assumptions live here.
   Variants: [pinned] = bionumpy/io/bam.py at /repo HEAD ([current] in Model/C16.v), [repaired] = after
   notes/C16.fix-1.diff + fix-2.diff.  Full-strength statements are proved for [repaired]; for [pinned] the same
   statements are refuted by witness and proved under exactly the guard that excludes the failing class. *)
From Coq Require Import ZArith List Bool.
From BNP Require Import Base.Prims Model.C16 Proofs.C16 Corr.C16 Proofs.C16_link Proofs.C16_depth Proofs.C16_r6 Gen.C16 Bridge.C16.
Import ListNotations.
Open Scope Z_scope.

(* T1 — record boundaries.  On a buffer that is the encodings of any records followed by an incomplete tail
   (nothing, the appended newline, or a cut-off record) the block_size chain returns exactly the record
   boundaries and stops before the tail. *)
Theorem C16_find_starts :
  forall rs tail, Forall fits rs -> incomplete tail ->
    find_starts (encode_recs rs ++ tail) = Some (starts_from 0 rs ++ [len (encode_recs rs)])
    /\ from_raw_buffer (encode_recs rs ++ tail) = Some (buf_of rs).
Proof. exact (fun rs tail Hf Ht => conj (find_starts_correct rs tail Hf Ht) (from_raw_buffer_correct rs tail Hf Ht)). Qed.
Print Assumptions C16_find_starts.

(* a strict prefix of an encoded record (what a chunk boundary leaves behind) is such an incomplete tail *)
Theorem C16_cut_record_is_incomplete :
  forall tail rest r more, tail ++ rest = encode_rec r ++ more -> fits r -> len tail < len (encode_rec r) -> incomplete tail.
Proof. exact strict_prefix_incomplete. Qed.
Print Assumptions C16_cut_record_is_incomplete.

(* T2 — every field of every valid record decodes to the record's value, wherever the record lies in the
   buffer: any name length, up to 65535 CIGAR operations, odd and even l_seq, any tag bytes.  (repaired code) *)
Theorem C16_decode_fields :
  forall pre post r names, rec_valid 65536 r ->
    decode_at repaired names (pre ++ encode_rec r ++ post) (len pre)
    = {| o_chrom := v_chrom repaired names (b_ref r); o_name := b_name r; o_flag := b_flag r; o_pos := b_pos r;
         o_mapq := b_mapq r; o_ops := Some (spec_ops r); o_lens := spec_lens r;
         o_seq := spec_letters r; o_qual := b_qual r |}.
Proof. exact (fun pre post r names H => decode_at_correct repaired 65536 (Z.le_refl _) cb_repaired pre post r H names). Qed.
Print Assumptions C16_decode_fields.

(* the same for the code at HEAD, for records with fewer than 16384 CIGAR operations ... *)
Theorem C16_decode_fields_partial :
  forall pre post r names, rec_valid 16384 r ->
    decode_at pinned names (pre ++ encode_rec r ++ post) (len pre)
    = {| o_chrom := v_chrom pinned names (b_ref r); o_name := b_name r; o_flag := b_flag r; o_pos := b_pos r;
         o_mapq := b_mapq r; o_ops := Some (spec_ops r); o_lens := spec_lens r;
         o_seq := spec_letters r; o_qual := b_qual r |}.
Proof. exact (fun pre post r names H => decode_at_correct pinned 16384 ltac:(discriminate) cb_pinned pre post r H names). Qed.
Print Assumptions C16_decode_fields_partial.

(* ... and false at HEAD for a valid record with 16384 operations (n_cigar_op * 4 wraps in uint16) *)
Theorem C16_decode_fields_refuted :
  exists pre post r names, rec_valid 65536 r /\
    decode_at pinned names (pre ++ encode_rec r ++ post) (len pre)
    <> {| o_chrom := v_chrom pinned names (b_ref r); o_name := b_name r; o_flag := b_flag r; o_pos := b_pos r;
          o_mapq := b_mapq r; o_ops := Some (spec_ops r); o_lens := spec_lens r;
          o_seq := spec_letters r; o_qual := b_qual r |}.
Proof. exact (ex_intro _ [] (ex_intro _ [] (ex_intro _ long_cigar_rec (ex_intro _ [[99]] (conj long_cigar_valid long_cigar_refutes))))). Qed.
Print Assumptions C16_decode_fields_refuted.

(* reference name: the header's name for a mapped record, "*" (no reference) for an unmapped one.  (repaired) *)
Theorem C16_reference_name :
  forall refs r, -1 <= b_ref r < len refs ->
    v_chrom repaired (map fst refs) (b_ref r) = match spec_chrom refs r with Some n => Some n | None => Some [42] end
    /\ (spec_chrom refs r = None <-> b_ref r = -1).
Proof. exact (fun refs r H => conj (chrom_repaired_correct refs r H) (spec_chrom_none refs r H)). Qed.
Print Assumptions C16_reference_name.

Theorem C16_reference_name_partial :
  forall refs r, 0 <= b_ref r < len refs -> v_chrom pinned (map fst refs) (b_ref r) = spec_chrom refs r.
Proof. exact chrom_pinned_mapped. Qed.
Print Assumptions C16_reference_name_partial.

(* at HEAD an unmapped record between references c1, c2 is reported on c2 *)
Theorem C16_reference_name_refuted :
  exists refs r, rec_okb (len refs) r = true /\ spec_chrom refs r = None
    /\ v_chrom pinned (map fst refs) (b_ref r) = Some [99; 50]
    /\ chrom_ok refs r (v_chrom pinned (map fst refs) (b_ref r)) = false.
Proof.
  exact (ex_intro _ two_refs (ex_intro _ unmapped_rec
           (conj (proj2 unmapped_valid) (conj (proj1 unmapped_refutes) (proj2 unmapped_refutes))))).
Qed.
Print Assumptions C16_reference_name_refuted.

(* T3 — reference interval: start = position, stop = position + summed lengths of M, D, N, =, X operations,
   strand from flag bit 0x10, name and score carried over.  (repaired; and HEAD below 16384 operations) *)
Theorem C16_reference_interval :
  forall pre post r names, rec_valid 65536 r ->
    interval_at repaired names (pre ++ encode_rec r ++ post) (len pre)
    = {| i_chrom := v_chrom repaired names (b_ref r); i_start := b_pos r; i_stop := b_pos r + spec_reflen r;
         i_name := b_name r; i_score := b_mapq r; i_strand := spec_strand r |}.
Proof. exact (fun pre post r names H => interval_at_correct repaired 65536 (Z.le_refl _) cb_repaired pre post r H names). Qed.
Print Assumptions C16_reference_interval.

Theorem C16_reference_interval_partial :
  forall pre post r names, rec_valid 16384 r ->
    interval_at pinned names (pre ++ encode_rec r ++ post) (len pre)
    = {| i_chrom := v_chrom pinned names (b_ref r); i_start := b_pos r; i_stop := b_pos r + spec_reflen r;
         i_name := b_name r; i_score := b_mapq r; i_strand := spec_strand r |}.
Proof. exact (fun pre post r names H => interval_at_correct pinned 16384 ltac:(discriminate) cb_pinned pre post r H names). Qed.
Print Assumptions C16_reference_interval_partial.

(* T4 — chunked reading.  For every chunk size k at least as large as the largest record the prepend-mode reader
   terminates, every chunk it yields holds at least one whole record, and the chunks are a partition of the
   file's records in order (each chunk's buffer is exactly the buffer of its group of records). *)
Theorem C16_chunked_reading :
  forall k rs, 0 < k -> Forall fits rs -> Forall (fun r => len (encode_rec r) <= k) rs ->
    exists groups, concat groups = rs /\ Forall (fun g => g <> []) groups
                   /\ read_chunks k (encode_recs rs) = Some (map buf_of groups).
Proof. exact (fun k rs Hk => read_chunks_correct k Hk rs). Qed.
Print Assumptions C16_chunked_reading.

(* T5 — writing back.  Header bytes replayed, then the selected records' bytes: the written stream is the
   specification's encoding of the selected records (any selection: filtered, reordered, repeated). *)
Theorem C16_write_back :
  forall hdr rs idx, Forall (fun i => 0 <= i < len rs) idx ->
    write_selected hdr (buf_of rs) idx = Some (hdr ++ encode_recs (select rs idx))
    /\ write_whole hdr (buf_of rs) = hdr ++ encode_recs rs.
Proof. exact (fun hdr rs idx H => conj (write_selected_correct hdr rs idx H) (write_whole_correct hdr rs)). Qed.
Print Assumptions C16_write_back.

(* header: magic, text, reference table parse back; the header bytes are recovered exactly for replay *)
Theorem C16_header_roundtrip :
  forall text refs rs, header_valid text refs -> Forall fits rs ->
    parse_header (encode_header text refs ++ encode_recs rs) = Some (refs, len (encode_header text refs))
    /\ read_file (encode_file text refs rs) = Some (map fst refs, encode_header text refs, buf_of rs).
Proof. exact (fun text refs rs Hh Hf => conj (parse_header_correct text refs (encode_recs rs) Hh) (read_file_correct text refs rs Hh Hf)). Qed.
Print Assumptions C16_header_roundtrip.

(* the decidable validity predicate the harness evaluates on every generated case implies the Prop form used above *)
Theorem C16_valid_records :
  forall n r, n <= 2147483648 -> rec_okb n r = true -> fits r -> rec_valid 65536 r /\ -1 <= b_ref r < n.
Proof. exact rec_okb_valid. Qed.
Print Assumptions C16_valid_records.

(* Model satisfies Spec, whole property, repaired code: for every valid BAM file (any header text, any reference
   table, any valid records incl. unmapped ones and up to 65535 CIGAR operations) the model's whole read, interval
   view, chunked reads for every k >= the largest record, and whole / selected writes satisfy the very predicates
   (rec_matches, iv_matches, byte equality with the spec encoding) that Corr.C16.spec_ok evaluates on the
   implementation's output.  Hence: implementation = model on a case  ==>  the property holds on that case. *)
Theorem C16_model_satisfies_spec :
  forall text refs rs, header_valid text refs ->
    Forall (fun r => rec_valid 65536 r /\ -1 <= b_ref r < len refs) rs ->
    exists b, read_file (encode_file text refs rs) = Some (map fst refs, encode_header text refs, b)
      /\ all2 (rec_matches refs) rs (decode_buf repaired (map fst refs) b) = true
      /\ all2 (iv_matches refs) rs (intervals_buf repaired (map fst refs) b) = true
      /\ (forall k, 0 < k -> Forall (fun r => len (encode_rec r) <= k) rs ->
            exists bs, read_chunks k (encode_recs rs) = Some bs
              /\ Forall (fun c => bf_starts c <> []) bs
              /\ all2 (rec_matches refs) rs (flat_map (decode_buf repaired (map fst refs)) bs) = true
              /\ encode_header text refs ++ concat (map bf_data bs) = encode_file text refs rs)
      /\ write_whole (encode_header text refs) b = encode_file text refs rs
      /\ (forall idx, Forall (fun i => 0 <= i < len rs) idx ->
            write_selected (encode_header text refs) b idx = Some (encode_file text refs (select rs idx))).
Proof.
  exact (fun text refs rs Hh Hg =>
    model_satisfies_spec repaired 65536 (Z.le_refl _) cb_repaired text refs rs Hh
      (Forall_impl _ (fun r H => good_repaired refs r (proj1 H) (proj2 H)) Hg)).
Qed.
Print Assumptions C16_model_satisfies_spec.

(* the same for the code at HEAD (= [current]), guarded: mapped records with fewer than 16384 CIGAR operations *)
Theorem C16_model_satisfies_spec_partial :
  forall text refs rs, header_valid text refs ->
    Forall (fun r => rec_valid 16384 r /\ 0 <= b_ref r < len refs) rs ->
    exists b, read_file (encode_file text refs rs) = Some (map fst refs, encode_header text refs, b)
      /\ all2 (rec_matches refs) rs (decode_buf pinned (map fst refs) b) = true
      /\ all2 (iv_matches refs) rs (intervals_buf pinned (map fst refs) b) = true
      /\ (forall k, 0 < k -> Forall (fun r => len (encode_rec r) <= k) rs ->
            exists bs, read_chunks k (encode_recs rs) = Some bs
              /\ Forall (fun c => bf_starts c <> []) bs
              /\ all2 (rec_matches refs) rs (flat_map (decode_buf pinned (map fst refs)) bs) = true
              /\ encode_header text refs ++ concat (map bf_data bs) = encode_file text refs rs)
      /\ write_whole (encode_header text refs) b = encode_file text refs rs
      /\ (forall idx, Forall (fun i => 0 <= i < len rs) idx ->
            write_selected (encode_header text refs) b idx = Some (encode_file text refs (select rs idx))).
Proof.
  exact (fun text refs rs Hh Hg =>
    model_satisfies_spec pinned 16384 ltac:(discriminate) cb_pinned text refs rs Hh
      (Forall_impl _ (fun r H => good_pinned refs r (proj1 H) (proj2 H)) Hg)).
Qed.
Print Assumptions C16_model_satisfies_spec_partial.

(* Source tie: the arithmetic regenerated on this run from /repo's io/bam.py, alignments/cigar.py,
   alignments/__init__.py and io/parser.py (Gen/C16.v, written by translate/run.py + translate/gen_c16.py) is the
   arithmetic of the model the theorems above are about: the (offset, width, signedness) of every fixed field, the
   byte index of _get_ints, the derived offset chain with n_cigar_op * 4 (in the dtype the source computes it) and
   (l_seq + 1) // 2, the slice bounds of name / CIGAR / sequence / qualities, two nibbles per byte high first masked
   with 15 and trimmed to l_seq, the block chain step start + block_size + 4 from chunk[start:start+4] with the
   `<=` test starting at 0, the CIGAR split (& 15, >> 4), the "MDN=X" reference length, stop = position + length and
   strand from flag & 16 on both interval routes, and the reader's end-of-stream test.  Element-wise NumPy
   expressions are read per element. *)
Theorem C16_source_tie :
  (forall d s, m_refid d s = read_field gen_fld_refid d s /\ m_pos d s = read_field gen_fld_pos d s
            /\ m_n_cigar d s = read_field gen_fld_n_cigar d s /\ m_flag d s = read_field gen_fld_flag d s
            /\ m_l_seq d s = read_field gen_fld_l_seq d s
            /\ m_l_read_name d s = nthZ d (gen_l_read_name_index s) /\ m_mapq d s = nthZ d (gen_mapq_index s))
  /\ (gen_pos_is_raw = true /\ gen_flag_is_raw = true /\ gen_l_seq_is_raw = true /\ gen_raw_buffer_shape = true)
  /\ (forall d s off n, get_uint d s off n = from_le (slice (gen_get_ints_index s off 0) (gen_get_ints_index s off n) d))
  /\ (forall d s, m_name_start s = gen_read_name_start s
            /\ m_cigar_start d s = gen_cigar_start (gen_read_name_start s) (m_l_read_name d s)
            /\ m_seq_start current d s = gen_sequence_start (m_cigar_start d s) (gen_cigar_bytes (m_n_cigar d s))
            /\ m_qual_start current d s = gen_quality_start (m_seq_start current d s) (m_l_seq d s))
  /\ (forall n, v_cigar_bytes current n = gen_cigar_bytes n)
  /\ (forall d s,
        let A := m_name_start s in let B := m_cigar_start d s in let C := m_seq_start current d s in
        let D := m_qual_start current d s in let L := m_l_seq d s in
        m_name d s = slice (gen_name_lo A B C D L) (gen_name_hi A B C D L) d
        /\ m_cigar_words current d s
           = map from_le (chunks_of (Z.to_nat gen_cigar_word_bytes) (slice (gen_cigar_lo A B C D L) (gen_cigar_hi A B C D L) d))
        /\ m_seq current d s
           = firstn (Z.to_nat (gen_seq_keep L)) (nibbles (slice (gen_seq_lo A B C D L) (gen_seq_hi A B C D L) d))
        /\ m_qual current d s = slice (gen_qual_lo A B C D L) (gen_qual_hi A B C D L) d)
  /\ (forall b, nibbles [b] = [gen_nibble b 0; gen_nibble b 1] /\ gen_nibbles_per_byte = 2)
  /\ (forall s l, gen_seq_row_len l = gen_nibbles_per_byte * (gen_quality_start s l - s))
  /\ (forall n, gen_cigar_n_words n = n / gen_cigar_word_bytes)
  /\ (forall chunk start,
        find_next chunk start = gen_find_next start (from_le (slice (gen_block_size_lo start) (gen_block_size_hi start) chunk))
        /\ in_chunk start (len chunk) = gen_in_chunk start (len chunk)
        /\ find_starts chunk = find_starts_fuel (S (S (length chunk))) chunk gen_first_start)
  /\ (forall n k, is_finished n k = gen_is_finished n k)
  /\ (forall d s, m_cigar current d s = map (fun w => (gen_cigar_op w, gen_cigar_len w)) (m_cigar_words current d s))
  /\ map (fun c => index_of c cigar_letters) (codes gen_consuming) = m_consuming
  /\ (forall cg, m_reflen cg
        = sumZ (map (fun c => gen_ref_term (if existsb (Z.eqb (fst c)) m_consuming then 1 else 0) (snd c)) cg))
  /\ (forall names d s,
        let iv := interval_at current names d s in
        i_stop iv = gen_bib_stop (m_pos d s) (m_reflen (m_cigar current d s))
        /\ i_stop iv = gen_a2i_stop (m_pos d s) (m_reflen (m_cigar current d s))
        /\ i_strand iv = gen_bib_strand (m_flag d s)
        /\ i_strand iv = gen_a2i_strand (gen_a2i_strand_bits (m_flag d s))).
Proof.
  exact (conj (fun d s => conj (br_fld_refid d s) (conj (br_fld_pos d s) (conj (br_fld_n_cigar d s) (conj (br_fld_flag d s)
                 (conj (br_fld_l_seq d s) (conj (br_l_read_name d s) (br_mapq d s)))))))
        (conj br_raw_fields
        (conj br_get_ints
        (conj (fun d s => conj (br_read_name_start s) (conj (br_cigar_start d s) (conj (br_sequence_start d s) (br_quality_start d s))))
        (conj br_cigar_bytes
        (conj (fun d s => conj (br_name_slice d s) (conj (br_cigar_slice d s) (conj (br_seq_slice d s) (br_qual_slice d s))))
        (conj br_nibbles
        (conj br_seq_row_len
        (conj br_cigar_n_words
        (conj (fun chunk start => conj (br_find_next chunk start) (conj (br_in_chunk start (len chunk)) (br_first_start chunk)))
        (conj br_is_finished
        (conj br_cigar
        (conj br_consuming
        (conj br_ref_term br_interval)))))))))))))).
Qed.
Print Assumptions C16_source_tie.

(* ---------------------------------------------------------------------------------------------- phase 3 *)

(* Modelling assumption made explicit: `.view(dtype)` on the little-endian host reads n bytes as sum b_i*256^i
   (from_le) and np.int32 as its two's-complement value (signed32).  Under that reading read_field returns exactly
   the integer whose little-endian encoding lies at the field's offset: from_le and le_bytes are mutually inverse on
   byte strings, signed 32-bit and unsigned 16-bit fields are recovered, and signed32 is the inverse of reduction
   modulo 2^32 on the int32 range. *)
Theorem C16_read_field_little_endian :
  (forall bs, Forall (fun b => 0 <= b < 256) bs -> le_bytes (length bs) (from_le bs) = bs)
  /\ (forall n x, from_le (le_bytes n x) = x mod 256 ^ Z.of_nat n /\ Forall (fun b => 0 <= b < 256) (le_bytes n x))
  /\ (forall pre post x s off, s + off = len pre -> -2147483648 <= x < 2147483648 ->
        read_field (off, 4, true) (pre ++ le32 x ++ post) s = x)
  /\ (forall pre post x s off, s + off = len pre -> 0 <= x < 65536 ->
        read_field (off, 2, false) (pre ++ le16 x ++ post) s = x)
  /\ (forall u, 0 <= u < 4294967296 -> -2147483648 <= signed32 u < 2147483648 /\ (signed32 u) mod 4294967296 = u).
Proof.
  exact (conj le_bytes_from_le (conj (fun n x => conj (from_le_le_bytes n x) (le_bytes_bytes n x))
        (conj read_field_signed32 (conj read_field_uint16 signed32_range)))).
Qed.
Print Assumptions C16_read_field_little_endian.

(* optional tag bytes: in any buffer the bytes between the end of the qualities and the end of the block are the
   record's auxiliary bytes, whatever they are (never interpreted, never moved) *)
Theorem C16_tag_bytes :
  forall pre post r, rec_valid 65536 r ->
    tags_region repaired (pre ++ encode_rec r ++ post) (len pre) (len pre + len (encode_rec r)) = b_tags r.
Proof. exact (tags_at repaired 65536 (Z.le_refl _) cb_repaired). Qed.
Print Assumptions C16_tag_bytes.

(* write, then read the written file again — one statement.  For every valid file and every in-range index list
   (filter, permutation, repeats): the writer's output is the spec encoding of the selected records behind the
   byte-identical header; reading that stream back yields the header's reference names, the same header bytes for
   the next replay, and a buffer whose decoded records are exactly the selected records' spec values (satisfying
   the property's predicates), whose interval view is right, and whose tag bytes are the selected records' tag
   bytes.  The whole write is the case idx = all. *)
Theorem C16_write_then_reread :
  forall text refs rs idx, header_valid text refs ->
    Forall (fun r => rec_valid 65536 r /\ -1 <= b_ref r < len refs) rs ->
    Forall (fun i => 0 <= i < len rs) idx ->
    let sel := select rs idx in
    let hdr := encode_header text refs in
    exists w, write_selected hdr (buf_of rs) idx = Some w
      /\ w = encode_file text refs sel
      /\ read_file w = Some (map fst refs, hdr, buf_of sel)
      /\ decode_buf current (map fst refs) (buf_of sel) = map (fun r => spec_orec current r (map fst refs)) sel
      /\ all2 (rec_matches refs) sel (decode_buf current (map fst refs) (buf_of sel)) = true
      /\ all2 (iv_matches refs) sel (intervals_buf current (map fst refs) (buf_of sel)) = true
      /\ (forall (j : nat) r, nth_error sel j = Some r ->
            exists s e, nth_error (bf_starts (buf_of sel)) j = Some s /\ nth_error (bf_ends (buf_of sel)) j = Some e
              /\ e = s + len (encode_rec r) /\ tags_region current (bf_data (buf_of sel)) s e = b_tags r).
Proof.
  exact (fun text refs rs idx Hh Hg =>
    write_then_reread repaired 65536 (Z.le_refl _) cb_repaired text refs rs Hh
      (Forall_impl _ (fun r H => good_repaired refs r (proj1 H) (proj2 H)) Hg) idx).
Qed.
Print Assumptions C16_write_then_reread.

Theorem C16_write_whole_then_reread :
  forall text refs rs, header_valid text refs ->
    Forall (fun r => rec_valid 65536 r /\ -1 <= b_ref r < len refs) rs ->
    let hdr := encode_header text refs in
    write_whole hdr (buf_of rs) = encode_file text refs rs
    /\ read_file (write_whole hdr (buf_of rs)) = Some (map fst refs, hdr, buf_of rs)
    /\ all2 (rec_matches refs) rs (decode_buf current (map fst refs) (buf_of rs)) = true.
Proof.
  exact (fun text refs rs Hh Hg =>
    write_whole_then_reread repaired 65536 (Z.le_refl _) cb_repaired text refs rs Hh
      (Forall_impl _ (fun r H => good_repaired refs r (proj1 H) (proj2 H)) Hg)).
Qed.
Print Assumptions C16_write_whole_then_reread.

(* the fields of a selected object u = data[idx], read at any time — before or after u was written, in any order:
   since /repo 0f67f4c the selection keeps the parent's bytes and the selected record starts (writing it gathers a
   copy), so every field read decodes the parent's bytes at those starts, i.e. the selected records' spec values *)
Theorem C16_selected_fields :
  forall names rs idx, Forall (rec_valid 65536) rs -> Forall (fun i => 0 <= i < len rs) idx ->
    decode_selected current names (buf_of rs) idx = Some (map (fun r => spec_orec current r names) (select rs idx)).
Proof. exact (decode_selected_correct repaired 65536 (Z.le_refl _) cb_repaired). Qed.
Print Assumptions C16_selected_fields.

(* the end-of-file branch of read_chunk (/repo ccb2258: a raw read of 0 bytes with a pending tail) cannot be reached
   on a valid BAM with k >= the largest record: whenever nothing is left to read the pending tail is empty (and no
   record remains), and the reader computes exactly what the reader without that branch computes *)
Theorem C16_eof_branch_unreachable :
  (forall prepend rs, reader_inv [] prepend rs -> prepend = [] /\ rs = [])
  /\ (forall k rs, 0 < k -> Forall fits rs -> Forall (fun r => len (encode_rec r) <= k) rs ->
        read_chunks k (encode_recs rs)
        = read_chunks_fuel_pre (S (S (length (encode_recs rs)))) k (encode_recs rs) [])
  /\ (forall k rest prepend rs, 0 < k -> Forall fits rs -> Forall (fun r => len (encode_rec r) <= k) rs ->
        reader_inv rest prepend rs -> k <= len rest ->
        exists g rs2 tail, rs = g ++ rs2 /\ g <> []
          /\ prepend ++ firstn (Z.to_nat k) rest = encode_recs g ++ tail /\ incomplete tail
          /\ reader_inv (skipn (Z.to_nat k) rest) tail rs2).
Proof.
  exact (conj eof_pending_empty (conj (fun k rs Hk => eof_branch_unreachable k Hk rs)
        (fun k rest prepend rs Hk => chunk_step k Hk rest prepend rs))).
Qed.
Print Assumptions C16_eof_branch_unreachable.

(* unmapped records through BamIntervalBuffer / alignment_to_interval: the property's "none" for the reference
   ('*'), the interval still position .. position + reference-consuming lengths (empty when there is no CIGAR),
   strand from 0x10 *)
Theorem C16_unmapped_interval :
  forall pre post r (refs : list (list Z * Z)), rec_valid 65536 r -> b_ref r = -1 ->
    interval_at current (map fst refs) (pre ++ encode_rec r ++ post) (len pre)
    = {| i_chrom := Some [42]; i_start := b_pos r; i_stop := b_pos r + spec_reflen r;
         i_name := b_name r; i_score := b_mapq r; i_strand := spec_strand r |}
    /\ (b_cigar r = [] -> spec_reflen r = 0).
Proof. exact unmapped_interval. Qed.
Print Assumptions C16_unmapped_interval.

(* the link, per case: if the generator's file is the spec encoding of valid records (file_ok, decided in Coq), the
   case's inputs are in the property's range (in_scope: chunk sizes >= the largest record, index lists in range,
   blocks fit 32 bits) and the written files end with the EOF block, then
       implementation = model (model_ok)   ==>   the property holds on the case (spec_ok). *)
Theorem C16_model_ok_implies_spec_ok :
  forall c, file_ok c = true -> in_scope c -> model_ok c = true -> spec_ok c = true.
Proof. exact model_ok_implies_spec_ok. Qed.
Print Assumptions C16_model_ok_implies_spec_ok.

(* non-vacuity: a concrete two-reference file with a 3-operation record of odd length, an unmapped record with tags
   and a 9-operation record without sequence meets the hypotheses; the executable model really decodes it, reads it
   in chunks of the largest record's size, and writes a reordered selection that is the spec encoding *)
Definition ex_refs : list (list Z * Z) := [([99; 49], 100); ([99; 50], 200)].
Definition ex_recs : list brec :=
  [ {| b_ref := 0; b_pos := 5; b_mapq := 30; b_bin := 4681; b_flag := 16; b_name := [114; 49];
       b_cigar := [(0, 3); (1, 2); (2, 4)]; b_seq := [1; 2; 4; 8; 15]; b_qual := [1; 2; 3; 4; 93];
       b_nref := -1; b_npos := -1; b_tlen := 0; b_tags := [] |};
    {| b_ref := -1; b_pos := -1; b_mapq := 0; b_bin := 4680; b_flag := 4; b_name := [117; 110; 109];
       b_cigar := []; b_seq := [1; 2; 4; 8]; b_qual := [0; 0; 0; 0];
       b_nref := -1; b_npos := -1; b_tlen := 0; b_tags := [78; 77; 67; 1] |};
    {| b_ref := 1; b_pos := 0; b_mapq := 255; b_bin := 0; b_flag := 0; b_name := [120];
       b_cigar := [(0, 1); (1, 2); (2, 3); (3, 4); (4, 5); (5, 6); (6, 7); (7, 8); (8, 9)]; b_seq := []; b_qual := [];
       b_nref := -1; b_npos := -1; b_tlen := 0; b_tags := [] |} ].
Example C16_nonvacuous :
  forallb (rec_okb (len ex_refs)) ex_recs = true
  /\ (match read_file (encode_file [64; 72; 68; 10] ex_refs ex_recs) with
      | Some (names, hdr, b) =>
          all2 (rec_matches ex_refs) ex_recs (decode_buf repaired names b)
          && all2 (iv_matches ex_refs) ex_recs (intervals_buf repaired names b)
          && negb (all2 (rec_matches ex_refs) ex_recs (decode_buf pinned names b))
          && match read_chunks 74 (encode_recs ex_recs) with
             | Some bs => zlist_eqb (map (fun c => len (bf_starts c)) bs) [1; 1; 1]
                          && all2 (rec_matches ex_refs) ex_recs (flat_map (decode_buf repaired names) bs)
             | None => false
             end
          && match write_selected hdr b [2; 0] with
             | Some w => zlist_eqb w (encode_file [64; 72; 68; 10] ex_refs (select ex_recs [2; 0]))
             | None => false
             end
      | None => false
      end) = true
  /\ map (fun r => len (encode_rec r)) ex_recs = [59; 50; 74].
Proof. vm_compute. repeat split. Qed.

(* non-vacuity of the link: a concrete case (observations = what the model computes) is in scope, and all three
   verdicts evaluate to true *)
Definition ex_case : case :=
  let text := [64; 72; 68; 10] in
  let names := map fst ex_refs in
  let whole := decode_buf current names (buf_of ex_recs) in
  let sel := select ex_recs [2; 0] in
  {| k_text := text; k_refs := ex_refs; k_recs := ex_recs; k_stream := encode_file text ex_refs ex_recs;
     k_whole := whole; k_ivs := intervals_buf current names (buf_of ex_recs);
     k_ivs2 := Some (intervals_buf current names (buf_of ex_recs));
     k_after_iv := whole; k_sess := [whole; whole]; k_sess_iv := [intervals_buf current names (buf_of ex_recs)];
     k_chunked := [(74, [1; 1; 1], whole); (183, [3], whole)];
     k_writes := [ {| w_mode := 1; w_k := 0; w_idx := [2; 0]; w_eof := true;
                      w_stream := encode_file text ex_refs sel; w_reread := decode_buf current names (buf_of sel);
                      w_post := decode_buf current names (buf_of sel) |};
                   {| w_mode := 0; w_k := 0; w_idx := [0; 1; 2]; w_eof := true;
                      w_stream := encode_file text ex_refs ex_recs; w_reread := whole; w_post := whole |} ] |}.
Example C16_link_nonvacuous :
  in_scope ex_case /\ file_ok ex_case = true /\ model_ok ex_case = true /\ spec_ok ex_case = true.
Proof.
  split; [|vm_compute; repeat split].
  constructor.
  - vm_compute. reflexivity.
  - vm_compute. discriminate.
  - repeat constructor; vm_compute; reflexivity.
  - repeat constructor; cbn [fst]; try (vm_compute; reflexivity); try (vm_compute; discriminate).
  - assert (forall i, In i [2; 0] \/ In i [0; 1; 2] -> 0 <= i < len (k_recs ex_case)) as Hi
      by (intros i [H|H]; cbn in H; repeat destruct H as [H|H]; subst; try contradiction; vm_compute; split; congruence).
    constructor; [|constructor; [|constructor]].
    + split; [reflexivity|]. split; [apply Forall_forall; intros i H; apply Hi; left; exact H|].
      split; [intros H; exfalso; apply H; reflexivity|intros _ H; exfalso; apply H; reflexivity].
    + split; [reflexivity|]. split; [apply Forall_forall; intros i H; apply Hi; right; exact H|].
      split; [intros _; vm_compute; reflexivity|intros H; exfalso; apply H; reflexivity].
Qed.

(* ===================================================================== round 6 *)
(* Auxiliary (TAG) area.  bionumpy has no code that interprets auxiliary fields (types A c C s S i I f Z H B): they
   are the bytes behind the qualities up to the end of the block.  For every valid record and EVERY auxiliary area t
   (any bytes, any length the block size can hold): the nine fields and the reference interval of the record with t
   are those of the record with its own area (in particular with none: t = [] or b_tags r = []), wherever the two
   lie in their buffers, and the bytes behind the qualities are t itself.  (Carried unchanged through
   read -> select -> write -> re-read: last clause of C16_write_then_reread.) *)
Theorem C16_tags_do_not_change_fields :
  forall pre post pre' post' r t names, rec_valid 65536 r -> fits (with_tags r t) ->
    decode_at repaired names (pre ++ encode_rec (with_tags r t) ++ post) (len pre)
    = decode_at repaired names (pre' ++ encode_rec r ++ post') (len pre')
    /\ interval_at repaired names (pre ++ encode_rec (with_tags r t) ++ post) (len pre)
       = interval_at repaired names (pre' ++ encode_rec r ++ post') (len pre')
    /\ tags_region repaired (pre ++ encode_rec (with_tags r t) ++ post) (len pre)
         (len pre + len (encode_rec (with_tags r t))) = t.
Proof. exact tags_irrelevant. Qed.
Print Assumptions C16_tags_do_not_change_fields.

(* the block_size chain steps over the auxiliary area whatever its length: a record with area t is len t bytes longer
   than the same record without one, and the chain step taken at its start lands exactly behind the area *)
Theorem C16_block_chain_skips_tags :
  forall pre post r t, fits (with_tags r t) ->
    len (encode_rec (with_tags r t)) = len (encode_rec (with_tags r [])) + len t
    /\ find_next (pre ++ encode_rec (with_tags r t) ++ post) (len pre)
       = len pre + len (encode_rec (with_tags r [])) + len t.
Proof. exact (fun pre post r t Hf => conj (len_with_tags r t) (chain_skips_tags pre post r t Hf)). Qed.
Print Assumptions C16_block_chain_skips_tags.

(* Files of several gzip members (BGZF blocks).  The gzip layer is external code; [raw_read] / [buffered_read] model
   CPython's _GzipReader.read under io.BufferedReader.read (assumption A-GZIP made explicit).  For EVERY list of
   members (every split of the byte stream, empty members anywhere): file.read(n) returns exactly the next n bytes
   of the concatenated payloads and leaves the rest, and the chunk reader working through such reads computes
   exactly what the reader on the concatenated stream computes (any fuel, any carried tail, any k). *)
Theorem C16_gzip_members_read :
  forall ms,
    (forall n, exists ms', stream_read n ms = Some (firstn (Z.to_nat n) (concat ms), ms')
                           /\ concat ms' = skipn (Z.to_nat n) (concat ms))
    /\ (forall fuel k prepend,
          read_chunks_members_fuel fuel k ms prepend = read_chunks_fuel fuel k (concat ms) prepend)
    /\ (forall k, read_chunks_members k ms = read_chunks k (concat ms)).
Proof.
  exact (fun ms => conj (fun n => stream_read_spec n ms)
                        (conj (fun fuel k prepend => read_chunks_members_eq fuel k ms prepend)
                              (fun k => read_chunks_members_concat k ms))).
Qed.
Print Assumptions C16_gzip_members_read.

(* a valid BAM file stored as ANY sequence of gzip members — records and the header may straddle member borders
   anywhere, also inside a block_size field: the whole read yields the reference names, the header bytes and the
   buffer of all records; the header reads consume exactly the header; and for every k >= the largest record the
   chunk reader then yields whole records only, a partition of the file's records in order *)
Theorem C16_gzip_members_file :
  forall ms text refs rs k, header_valid text refs -> Forall fits rs -> 0 < k ->
    Forall (fun r => len (encode_rec r) <= k) rs ->
    concat ms = encode_file text refs rs ->
    read_file (concat ms) = Some (map fst refs, encode_header text refs, buf_of rs)
    /\ exists ms', stream_read (len (encode_header text refs)) ms = Some (encode_header text refs, ms')
         /\ concat ms' = encode_recs rs
         /\ exists groups, concat groups = rs /\ Forall (fun g => g <> []) groups
              /\ read_chunks_members k ms' = Some (map buf_of groups).
Proof. exact members_file. Qed.
Print Assumptions C16_gzip_members_file.

(* non-vacuity, auxiliary area: the unmapped record of ex_recs (area NM:C:1) with an area holding a Z, an i and a
   B:s field is valid; it decodes like the record without any area, its block is 25 bytes longer, and the chain
   step at its start lands behind the area *)
Definition ex_aux : list Z :=
  [88; 83; 90; 97; 98; 0] ++ [88; 65; 105; 10; 0; 0; 0] ++ [90; 90; 66; 115; 2; 0; 0; 0; 1; 0; 255; 255].
Definition ex_unm : brec :=
  {| b_ref := -1; b_pos := -1; b_mapq := 0; b_bin := 4680; b_flag := 4; b_name := [117; 110; 109];
     b_cigar := []; b_seq := [1; 2; 4; 8]; b_qual := [0; 0; 0; 0];
     b_nref := -1; b_npos := -1; b_tlen := 0; b_tags := [78; 77; 67; 1] |}.
Example C16_tags_nonvacuous :
  let r := ex_unm in
  rec_okb 2 (with_tags r ex_aux) = true
  /\ len ex_aux = 25
  /\ orec_eqb (decode_at repaired [[99; 49]; [99; 50]] ([7; 7] ++ encode_rec (with_tags r ex_aux) ++ [9]) 2)
              (decode_at repaired [[99; 49]; [99; 50]] (encode_rec (with_tags r [])) 0) = true
  /\ find_next ([7; 7] ++ encode_rec (with_tags r ex_aux) ++ [9]) 2 = 2 + len (encode_rec (with_tags r [])) + 25
  /\ tags_region repaired ([7; 7] ++ encode_rec (with_tags r ex_aux) ++ [9]) 2 (2 + len (encode_rec (with_tags r ex_aux))) = ex_aux.
Proof. vm_compute. repeat split. Qed.

(* non-vacuity, members: the file of C16_nonvacuous cut into 9 members — a border inside the magic, an empty member,
   a border 2 bytes into the first record's block_size, an EOF-like empty member in the middle, one on a record
   border, one-byte members, an empty member at the end.  The members concatenate to the file; the header read
   consumes exactly the header; chunks of 74 bytes (the largest record) give 1 + 1 + 1 records; equal to the reader on
   the concatenated stream *)
Definition ex_file : list Z := encode_file [64; 72; 68; 10] ex_refs ex_recs.
Definition cut (bounds : list Z) (l : list Z) : list (list Z) :=
  (fix go (bs : list Z) (p : Z) : list (list Z) :=
     match bs with [] => [slice p (len l) l] | b :: r => slice p b l :: go r b end) bounds 0.
Definition ex_members : list (list Z) := cut [2; 2; 40; 40; 97; 98; 99; 147; 221; 221] ex_file.
Example C16_members_nonvacuous :
  zlist_eqb (concat ex_members) ex_file = true
  /\ map (fun m => len m) ex_members = [2; 0; 38; 0; 57; 1; 1; 48; 74; 0; 0]
  /\ len (encode_header [64; 72; 68; 10] ex_refs) = 38
  /\ (match stream_read 38 ex_members with
      | Some (hdr, ms') =>
          zlist_eqb hdr (encode_header [64; 72; 68; 10] ex_refs)
          && match read_chunks_members 74 ms', read_chunks 74 (encode_recs ex_recs) with
             | Some bs, Some bs' => zlist_eqb (map (fun c => len (bf_starts c)) bs) [1; 1; 1]
                                    && all2 (rec_matches ex_refs) ex_recs (flat_map (decode_buf repaired (map fst ex_refs)) bs)
                                    && all2 (fun a b => zlist_eqb (bf_data a) (bf_data b)) bs bs'
             | _, _ => false
             end
      | None => false
      end) = true.
Proof. vm_compute. repeat split. Qed.

(* non-vacuity, records at the limits: read name of 254 characters (l_read_name 255), 65535 CIGAR operations, odd
   l_seq, position 2^31-1, all 12 flag bits, refID -1 with a mapped mate, tlen -2^31; and a record with no CIGAR, no
   sequence, position -1, negative next_refID / next_pos.  Both are valid, decode to their spec values, and the
   second lies where the block chain says *)
Definition ex_limit : list brec :=
  [ {| b_ref := -1; b_pos := 2147483647; b_mapq := 255; b_bin := 65535; b_flag := 4095 - 8; b_name := repeat 110 (Z.to_nat 254);
       b_cigar := concat (repeat [(4, 1); (1, 2); (5, 3)] (Z.to_nat 21845)); b_seq := [1; 2; 4; 8; 15]; b_qual := [0; 93; 10; 255; 1];
       b_nref := 1; b_npos := 2147483647; b_tlen := -2147483648; b_tags := ex_aux |};
    {| b_ref := 1; b_pos := -1; b_mapq := 0; b_bin := 0; b_flag := 2048; b_name := [120];
       b_cigar := []; b_seq := []; b_qual := [];
       b_nref := -1; b_npos := -1; b_tlen := -1; b_tags := [] |} ].
Example C16_limits_nonvacuous :
  forallb (rec_okb 2) ex_limit = true
  /\ map (fun r => (len (b_name r) + 1, len (b_cigar r))) ex_limit = [(255, 65535); (2, 0)]
  /\ all2 (rec_matches ex_refs) ex_limit (decode_buf repaired (map fst ex_refs) (buf_of ex_limit)) = true
  /\ all2 (iv_matches ex_refs) ex_limit (intervals_buf repaired (map fst ex_refs) (buf_of ex_limit)) = true
  /\ option_map (fun b => zlist_eqb (bf_starts b) (bf_starts (buf_of ex_limit))) (from_raw_buffer (encode_recs ex_limit ++ [10]))
     = Some true.
Proof. vm_compute. repeat split. Qed.

(* any SEQUENCE of reads — BamHeader.read_header issues read(4), read(4), read(l_text), read(4) and per reference
   read(4), read(1) ... read(1), read(4) — returns the successive pieces of the concatenated payloads, wherever the member
   borders lie, and leaves exactly the rest: together the reads return the first (n1 + n2 + ...) bytes *)
Theorem C16_gzip_members_reads_compose :
  forall ms ns, Forall (fun n => 0 <= n) ns -> sumZ ns <= len (concat ms) ->
    exists ms', stream_reads ns ms = Some (pieces ns (concat ms), ms')
      /\ concat (pieces ns (concat ms)) = firstn (Z.to_nat (sumZ ns)) (concat ms)
      /\ concat ms' = skipn (Z.to_nat (sumZ ns)) (concat ms).
Proof. exact stream_reads_compose. Qed.
Print Assumptions C16_gzip_members_reads_compose.

(* non-vacuity: the header of the example file read as read(4), read(4), read(4 = l_text), read(4), then the first
   reference as read(4), read(1) x3, read(4) over the 11 members of ex_members *)
Example C16_reads_nonvacuous :
  match stream_reads [4; 4; 4; 4; 4; 1; 1; 1; 4] ex_members with
  | Some (ds, ms') => zlist_eqb (nth 0 ds []) bam_magic && zlist_eqb (nth 2 ds []) [64; 72; 68; 10]
                      && zlist_eqb (nth 5 ds [] ++ nth 6 ds []) [99; 49] && zlist_eqb (nth 7 ds []) [0]
                      && zlist_eqb (concat ds ++ concat ms') ex_file
  | None => false
  end = true.
Proof. vm_compute. reflexivity. Qed.

(* ===================================================================== round 6 strengthening: selection, then decode *)
(* decode o select = select o decode for the extractor model: for ANY buffer (valid or not) and ANY index list, the
   columns (and the interval view) of the selected object t[idx] — a new extractor over the same bytes with
   starts[idx], ends[idx] — are the parent's decoded rows picked by idx, in idx's order; chained selections compose:
   t[a][c] = t[a composed with c]; and the fields of a selection as `decode_selected` (what Corr.model_ok evaluates)
   computes them are exactly decode_buf of the selected object.  Nothing computed for one object is reused for
   another: each object's columns are a function of its own starts only. *)
Theorem C16_decode_select_commute :
  forall v names b idx,
    decode_buf v names (select_buf b idx) = select (decode_buf v names b) idx
    /\ intervals_buf v names (select_buf b idx) = select (intervals_buf v names b) idx
    /\ (Forall (fun i => 0 <= i < len (bf_starts b)) idx ->
          decode_selected v names b idx = Some (decode_buf v names (select_buf b idx))
          /\ forall c, select (select (bf_starts b) idx) c = select (bf_starts b) (select idx c)).
Proof.
  exact (fun v names b idx =>
    conj (proj1 (decode_select_commute v names b idx))
      (conj (proj2 (decode_select_commute v names b idx))
        (fun H => conj (decode_selected_as_buf v names b idx H) (fun c => select_select (bf_starts b) idx c H)))).
Qed.
Print Assumptions C16_decode_select_commute.

(* on a valid file: every column and the interval view of a selection, and of a selection of a selection, are the spec
   values of exactly the selected records in the selection's order (mask / permutation / repeats / slice = index lists) *)
Theorem C16_selection_decodes :
  forall names rs a c, Forall (rec_valid 65536) rs -> Forall (fun i => 0 <= i < len rs) a ->
    decode_buf repaired names (select_buf (buf_of rs) a) = map (fun r => spec_orec repaired r names) (select rs a)
    /\ intervals_buf repaired names (select_buf (buf_of rs) a) = map (fun r => spec_oiv repaired r names) (select rs a)
    /\ decode_buf repaired names (select_buf (select_buf (buf_of rs) a) c)
       = map (fun r => spec_orec repaired r names) (select (select rs a) c)
    /\ intervals_buf repaired names (select_buf (select_buf (buf_of rs) a) c)
       = map (fun r => spec_oiv repaired r names) (select (select rs a) c).
Proof. exact (selection_decodes repaired 65536 (Z.le_refl _) cb_repaired). Qed.
Print Assumptions C16_selection_decodes.

(* non-vacuity: on the example file, t[[2;0;2]] and t[[2;0;2]][[1;1;0]] decode to records 2,0,2 and 0,0,2 *)
Example C16_selection_nonvacuous :
  let names := map fst ex_refs in
  all2 (rec_matches ex_refs) (select ex_recs [2; 0; 2]) (decode_buf repaired names (select_buf (buf_of ex_recs) [2; 0; 2]))
  && all2 (rec_matches ex_refs) (select ex_recs [0; 0; 2])
          (decode_buf repaired names (select_buf (select_buf (buf_of ex_recs) [2; 0; 2]) [1; 1; 0]))
  && all2 (iv_matches ex_refs) (select ex_recs [0; 0; 2])
          (intervals_buf repaired names (select_buf (select_buf (buf_of ex_recs) [2; 0; 2]) [1; 1; 0]))
  && (len (select ex_recs [0; 0; 2]) =? 3) = true.
Proof. vm_compute. reflexivity. Qed.

(* Props/C18.v — the property theorems for C18 (numbers survive conversion between text and arrays).
   Only statements, `exact <lemma>` and Print Assumptions live here. *)
From Coq Require Import ZArith List Bool String Lia.
From BNP Require Import Base.Prims Model.C18 Corr.C18 Proofs.C18_power Proofs.C18_int Proofs.C18_lists Proofs.C18_float
  Proofs.C18_matrix Proofs.C18_double Proofs.C18_link Proofs.C18_errors Gen.C18 Bridge.C18.
Import ListNotations.
Open Scope Z_scope.

(* T0 (the index trick): for every ragged shape with rows of length >= 1 and at most one '.' per row, the
   flat array built by one scatter-add at the row starts and one cumulative sum over the WHOLE array
   splits into rows whose entries are exactly the descending exponents of that row's own digits —
   no row's exponents depend on any other row. *)
Theorem C18_power_array :
  forall rows, Forall row_ok rows -> power_rows rows = map row_powers rows.
Proof. exact power_rows_spec. Qed.
Print Assumptions C18_power_array.

(* T2: parsing is exact.  For every batch of texts [+-]?[0-9]+ (any width, leading zeros allowed) whose
   values fit int64, str_to_int (sign stripping, digit encoding, int64 powers of ten taken from the flat
   power array, int64 dot product, sign) returns exactly the values. *)
Theorem C18_parse_exact :
  forall texts vs,
    Forall2 (fun t v => text_value t = Some v /\ - 2 ^ 63 <= v < 2 ^ 63) texts vs ->
    str_to_int_rows texts = Some vs.
Proof. exact str_to_int_exact. Qed.
Print Assumptions C18_parse_exact.

(* T2b: the same for the right-aligned, '0'-padded digit matrix used for sign-free integer columns of files *)
Theorem C18_parse_matrix_exact :
  forall texts vs,
    Forall2 (fun t v => digits_value t = Some v /\ - 2 ^ 63 <= v < 2 ^ 63) texts vs ->
    str_to_int_matrix texts = Some vs.
Proof. exact str_to_int_matrix_exact. Qed.
Print Assumptions C18_parse_matrix_exact.

(* T1: formatting is canonical — for the repaired width computation (exact digit count, unsigned magnitude;
   notes/C18.fix-1.diff).  Every int64, including 0, 10^k +- d and both extremes. *)
Theorem C18_format_canonical :
  forall ns, Forall (fun n => - 2 ^ 63 <= n < 2 ^ 63) ns ->
    Forall2 (fun n t => canonical t = true /\ text_value t = Some n) ns (ints_to_strings ns).
Proof. exact format_canonical. Qed.
Print Assumptions C18_format_canonical.

(* ... and parsing what was formatted gives the numbers back *)
Theorem C18_format_then_parse :
  forall ns, Forall (fun n => - 2 ^ 63 <= n < 2 ^ 63) ns -> str_to_int_rows (ints_to_strings ns) = Some ns.
Proof. exact format_then_parse. Qed.
Print Assumptions C18_format_then_parse.

(* T1 is false of the code as pinned (float log10 width, int64 abs): *)
Theorem C18_format_pinned_refuted :
  exists n t, - 2 ^ 63 <= n < 2 ^ 63 /\ ints_to_strings_pinned [n] = [t] /\ canonical t = false.
Proof. exists (10 ^ 15 - 1), (48 :: repeat 57 15). vm_compute. repeat split; congruence. Qed.
Print Assumptions C18_format_pinned_refuted.
Theorem C18_format_pinned_min_refuted :
  exists t, ints_to_strings_pinned [- 2 ^ 63] = [t] /\ text_value t = Some (-2).
Proof. exists [45; 50]. vm_compute. split; reflexivity. Qed.
Print Assumptions C18_format_pinned_min_refuted.

(* T4: conversions are element-wise.  Whatever width / magnitude / power functions are plugged in
   (so: for the pinned code and for the repaired code alike), formatting a batch is the concatenation of
   formatting each row on its own; and the parsed value of a row is a function of that row alone. *)
Theorem C18_format_rowwise :
  forall ns, ints_to_strings ns = List.concat (map (fun n => ints_to_strings [n]) ns).
Proof. exact (fun ns => ints_to_strings_gen_rowwise _ _ _ ns width_exact_ge1). Qed.
Print Assumptions C18_format_rowwise.
Theorem C18_format_pinned_rowwise :
  forall ns, ints_to_strings_pinned ns = List.concat (map (fun n => ints_to_strings_pinned [n]) ns).
Proof. exact (fun ns => ints_to_strings_gen_rowwise _ _ _ ns width_log10_ge1). Qed.
Print Assumptions C18_format_pinned_rowwise.
Theorem C18_parse_rowwise :
  forall texts, Forall (fun t => exists v, text_value t = Some v) texts ->
    str_to_int_rows texts = Some (map int_of_row texts).
Proof. exact str_to_int_rowwise. Qed.
Print Assumptions C18_parse_rowwise.

(* T1 for the pinned code, under a guard: below the first value the float logarithm gets wrong
   (all integers of up to 14 digits and the 15-digit ones below 10^15 - 2) the pinned formatter and the
   repaired one are the same function, hence canonical there.  Between the failing bands above 10^15 the
   pinned code is NOT proved correct (the correspondence tests it against the table log10_carry). *)
Theorem C18_format_pinned_partial :
  forall ns, Forall (fun n => Z.abs n < 10 ^ 15 - 2) ns -> ints_to_strings_pinned ns = ints_to_strings ns.
Proof. exact format_pinned_partial. Qed.
Print Assumptions C18_format_pinned_partial.

(* T3: integer lists are joined element by element (any separator; both formatter variants) ... *)
Theorem C18_lists_join :
  forall sep rows, int_lists_to_strings sep rows = map (fun r => intercalate [sep] (ints_to_strings r)) rows.
Proof. exact int_lists_join. Qed.
Print Assumptions C18_lists_join.
Theorem C18_lists_join_pinned :
  forall sep rows,
    int_lists_to_strings_pinned sep rows = map (fun r => intercalate [sep] (ints_to_strings_pinned r)) rows.
Proof. exact int_lists_join_pinned. Qed.
Print Assumptions C18_lists_join_pinned.
(* ... and the list column of a file is split element by element: for rows of >= 1 valid integer texts
   joined by ',', the column parser returns exactly the rows of values — the pinned parser (fixed = false) and
   the repaired one (fixed = true, notes/C02.fix-2.diff).  PARTIAL: the guard "every row holds at least one
   number" excludes exactly the class on which the pinned parser is wrong (next theorem); for the repaired
   parser rows with empty lists are tested by the correspondence, not proved. *)
Theorem C18_lists_split_partial :
  forall fixed tss vss,
    Forall2 (Forall2 (fun t v => text_value t = Some v /\ - 2 ^ 63 <= v < 2 ^ 63)) tss vss ->
    Forall (fun ts => ts <> []) tss ->
    parse_split_ints_gen fixed 44 (map (intercalate [44]) tss) = Some vss.
Proof. exact parse_split_ints_exact. Qed.
Print Assumptions C18_lists_split_partial.
(* an empty list in the column moves the later values up one row in the pinned parser: the lists [1], [], [3] *)
Theorem C18_lists_split_pinned_refuted :
  parse_split_ints_pinned 44 [[49]; []; [51]] = Some [[1]; [3]; []]
  /\ parse_split_ints 44 [[49]; []; [51]] = Some [[1]; []; [3]].
Proof. vm_compute. split; reflexivity. Qed.
Print Assumptions C18_lists_split_pinned_refuted.

(* T5 (floats), PARTIAL.  Proved: for every batch of texts of the grammar
     [+-]? digits* ( '.' digits* )? ( 'e' [+-]? digits+ )?    (>= 1 mantissa digit, exponent fits int64)
   given by components (sign, integer digits, point?, fraction digits, exponent text), the float parser —
   sign stripping, '.' -> '0', digit encoding, the power array with the gap for the point, split at 'e',
   exponent through str_to_int, the masks separating and re-merging scientific and plain rows — computes, in
   exact arithmetic, per row exactly the rational the Spec says the text denotes, with the Spec's sign.
   NOT proved: that the double-precision evaluation of this expression is within a few ulp, and
   format-then-parse identity for doubles; both are tested per case by the correspondence. *)
Theorem C18_float_rational_partial :
  forall xs, Forall (ftext_wf true) xs ->
    exists rs, str_to_float_rows (map text_of xs) = Some rs
      /\ Forall2 (fun x r => exists neg N E, float_text_value (text_of x) = Some (neg, N, E)
                                        /\ fst (fst (fst r)) = neg /\ model_frac r = frac_of neg N E) xs rs.
Proof. exact (float_model_matches_spec true). Qed.
Print Assumptions C18_float_rational_partial.
(* the same for the pinned code, for texts without a leading '+' ... *)
Theorem C18_float_rational_pinned_partial :
  forall xs, Forall (ftext_wf false) xs ->
    exists rs, str_to_float_rows_pinned (map text_of xs) = Some rs
      /\ Forall2 (fun x r => exists neg N E, float_text_value (text_of x) = Some (neg, N, E)
                                        /\ fst (fst (fst r)) = neg /\ model_frac r = frac_of neg N E) xs rs.
Proof. exact (float_model_matches_spec false). Qed.
Print Assumptions C18_float_rational_pinned_partial.
(* ... and with a leading '+' the pinned code raises (whole batch): *)
Theorem C18_float_pinned_plus_refuted :
  exists x, ftext_wf true x /\ float_text_value (text_of x) = Some (false, 15, -1)
            /\ str_to_float_rows_pinned [text_of x] = None.
Proof.
  exists {| fs := [43]; fi := [49]; fd := true; ff := [53]; fe := None |}.
  split.
  - unfold ftext_wf. cbn [fs fi fd ff fe].
    split; [right; right; split; reflexivity|]. split; [reflexivity|]. split; [reflexivity|].
    split; [discriminate|]. split; [discriminate|exact I].
  - split; vm_compute; reflexivity.
Qed.
Print Assumptions C18_float_pinned_plus_refuted.

(* T3b, full: the list column parser as it is in /repo now (rows regrouped by non-empty pieces) returns exactly the
   rows of values for EVERY column of lists of valid integer texts — empty lists anywhere included. *)
Theorem C18_lists_split :
  forall tss vss,
    Forall2 (Forall2 (fun t v => text_value t = Some v /\ - 2 ^ 63 <= v < 2 ^ 63)) tss vss ->
    parse_split_ints 44 (map (intercalate [44]) tss) = Some vss.
Proof. exact parse_split_ints_fixed_exact. Qed.
Print Assumptions C18_lists_split.

(* The digit matrix at index level (move_intervals_to_digit_array: window ends - max_chars, NumPy wrap-around for
   negative indices, fill cells): for every buffer and every list of fields inside it, each row is the field
   left-padded with the fill value to the widest field — also for a field that ends closer to the buffer start than
   the widest field is long; a row never depends on the other rows except through the common width. *)
Theorem C18_digit_matrix :
  forall data ivs fill, Forall (iv_ok data) ivs ->
    digit_matrix data ivs fill
    = map (fun t => repeat fill (Z.to_nat (max_len (fields_of data ivs) - len t)) ++ t) (fields_of data ivs).
Proof. exact digit_matrix_spec. Qed.
Print Assumptions C18_digit_matrix.
(* ... hence a sign-free integer column anywhere in a buffer parses exactly *)
Theorem C18_int_column_buffer :
  forall data ivs vs, Forall (iv_ok data) ivs ->
    Forall2 (fun iv v => digits_value (slice (fst iv) (snd iv) data) = Some v /\ - 2 ^ 63 <= v < 2 ^ 63) ivs vs ->
    str_to_int_buffer data ivs = Some vs.
Proof. exact str_to_int_buffer_exact. Qed.
Print Assumptions C18_int_column_buffer.

(* Floats, the double evaluation (modelled assumptions E1-E3 of Model/C18.v: IEEE rounding of + * /, NumPy's
   reduceat/pairwise summation order, the platform's 10.**k handed in as P; the correspondence checks the model
   BIT FOR BIT).  (a) the double computed for a row is eval_row of that row's own decomposition — sign, digits,
   exponents of the digits, number of fraction digits, exponent — and of P: no other row enters;
   (b) read in exact arithmetic that decomposition is the exact-rational model's row, i.e. the Spec's value. *)
Theorem C18_float_double_rowwise :
  forall P xs, Forall (ftext_wf true) xs ->
    str_to_float_double P true (map text_of xs) = all_some (map (fun x => eval_row P (pre_of true x)) xs).
Proof. exact (fun P => float_double_rowwise P true). Qed.
Print Assumptions C18_float_double_rowwise.
Theorem C18_float_decomposition_exact :
  forall x, ftext_wf true x ->
    exact_of_pre (pre_of true x) = (f_neg x, f_N x, len (ff x), f_ev x)
    /\ float_text_value (text_of x) = Some (f_neg x, f_N x, f_ev x - len (ff x)).
Proof. exact (fun x H => conj (exact_of_pre_of true x H) (spec_value true x H)). Qed.
Print Assumptions C18_float_decomposition_exact.
(* (c) PARTIAL exactness: when the digit string read as an integer is below 2^53 (in particular: at most 15
   significant digits), the text is at most 23 characters before the exponent, and P is exact on 0..22, the whole
   integer mantissa step — every digit*power product and NumPy's pairwise row sum — is exact ... *)
Theorem C18_float_mantissa_exact_partial :
  forall P x, ftext_wf true x -> f_N x < 2 ^ 53 -> len (mant_of x) <= 23 ->
    (forall p, 0 <= p <= 22 -> P p = Some (10 ^ p, 0)) ->
    dbl_base P (map dig (dec_prepare true (mant_of x))) (row_powers (len (mant_of x), dot_cols (mant_of x)))
    = Some (f_N x, 0).
Proof. exact (fun P => float_mantissa_exact P true). Qed.
Print Assumptions C18_float_mantissa_exact_partial.
(* ... and a text without exponent is then converted by ONE correctly rounded division N / 10^frac. *)
Theorem C18_float_short_decimal_partial :
  forall P x, ftext_wf true x -> fe x = None -> f_N x < 2 ^ 53 -> len (mant_of x) <= 23 ->
    (forall p, 0 <= p <= 22 -> P p = Some (10 ^ p, 0)) ->
    eval_row P (pre_of true x)
    = Some (f_neg x, ddiv (if f_neg x then (- f_N x, 0) else (f_N x, 0)) (10 ^ len (ff x), 0)).
Proof. exact (fun P => float_short_decimal P true). Qed.
Print Assumptions C18_float_short_decimal_partial.

(* Links "the implementation agrees with the model on this run => the property holds on this run", one per case
   class of the correspondence (Corr/C18.v), for well-formed input rows.  They hold for the repaired variants the
   Corr switches select now (eq_refl below breaks if a switch is flipped back). *)
Theorem C18_link_format_ints :
  forall rows runs pw er af route idx out,
    Forall (fun r => exists n, r = [n] /\ - 2 ^ 63 <= n < 2 ^ 63) rows -> Forall (fun i => 0 <= i < len rows) idx ->
    run_model {| k_kind := 0; k_rows := rows; k_runs := runs; k_pow := pw; k_errs := er; k_after := af |} (route, idx, out) = true ->
    run_spec {| k_kind := 0; k_rows := rows; k_runs := runs; k_pow := pw; k_errs := er; k_after := af |} (route, idx, out) = true.
Proof. exact (fun rows runs pw er af route idx out => link_format_ints rows runs pw er af route idx out eq_refl). Qed.
Print Assumptions C18_link_format_ints.
Theorem C18_link_parse_ints :
  forall rows runs pw er af route idx out,
    Forall (fun t => exists v, text_value t = Some v /\ - 2 ^ 63 <= v < 2 ^ 63) rows -> Forall (fun i => 0 <= i < len rows) idx ->
    run_model {| k_kind := 1; k_rows := rows; k_runs := runs; k_pow := pw; k_errs := er; k_after := af |} (route, idx, out) = true ->
    run_spec {| k_kind := 1; k_rows := rows; k_runs := runs; k_pow := pw; k_errs := er; k_after := af |} (route, idx, out) = true.
Proof. exact link_parse_ints. Qed.
Print Assumptions C18_link_parse_ints.
Theorem C18_link_format_lists :
  forall rows runs pw er af route idx out,
    Forall (Forall (fun n => - 2 ^ 63 <= n < 2 ^ 63)) rows -> Forall (fun i => 0 <= i < len rows) idx ->
    run_model {| k_kind := 2; k_rows := rows; k_runs := runs; k_pow := pw; k_errs := er; k_after := af |} (route, idx, out) = true ->
    run_spec {| k_kind := 2; k_rows := rows; k_runs := runs; k_pow := pw; k_errs := er; k_after := af |} (route, idx, out) = true.
Proof. exact (fun rows runs pw er af route idx out => link_format_lists rows runs pw er af route idx out eq_refl). Qed.
Print Assumptions C18_link_format_lists.
Theorem C18_link_parse_lists :
  forall rows runs pw er af route idx out,
    Forall (fun row => exists ts vs, row = intercalate [44] ts
                                   /\ Forall2 (fun t v => text_value t = Some v /\ - 2 ^ 63 <= v < 2 ^ 63) ts vs) rows ->
    Forall (fun i => 0 <= i < len rows) idx ->
    run_model {| k_kind := 3; k_rows := rows; k_runs := runs; k_pow := pw; k_errs := er; k_after := af |} (route, idx, out) = true ->
    run_spec {| k_kind := 3; k_rows := rows; k_runs := runs; k_pow := pw; k_errs := er; k_after := af |} (route, idx, out) = true.
Proof. exact (fun rows runs pw er af route idx out => link_parse_lists rows runs pw er af route idx out eq_refl). Qed.
Print Assumptions C18_link_parse_lists.
Theorem C18_link_parse_floats :
  forall rows runs pw er af route idx out,
    Forall (fun t => exists x, t = text_of x /\ ftext_wf true x) rows -> Forall (fun i => 0 <= i < len rows) idx ->
    run_model {| k_kind := 4; k_rows := rows; k_runs := runs; k_pow := pw; k_errs := er; k_after := af |} (route, idx, out) = true ->
    run_spec {| k_kind := 4; k_rows := rows; k_runs := runs; k_pow := pw; k_errs := er; k_after := af |} (route, idx, out) = true.
Proof. exact (fun rows runs pw er af route idx out => link_parse_floats rows runs pw er af route idx out eq_refl). Qed.
Print Assumptions C18_link_parse_floats.
Theorem C18_link_digit_matrix :
  forall data ivrows runs pw er af route idx out,
    Forall (fun r => iv_ok data (iv_of r)) ivrows -> Forall (fun i => 1 <= i < 1 + len ivrows) idx ->
    run_model {| k_kind := 6; k_rows := data :: ivrows; k_runs := runs; k_pow := pw; k_errs := er; k_after := af |} (route, idx, out) = true ->
    run_spec {| k_kind := 6; k_rows := data :: ivrows; k_runs := runs; k_pow := pw; k_errs := er; k_after := af |} (route, idx, out) = true.
Proof. exact link_digit_matrix. Qed.
Print Assumptions C18_link_digit_matrix.

(* Malformed texts.  Batches of valid integer texts never raise (the code as it is; the outcome model str_to_int_res
   has three results: values / EncodingError at a row / another exception). *)
Theorem C18_parse_valid_never_raises :
  forall texts vs, Forall2 (fun t v => text_value t = Some v /\ - 2 ^ 63 <= v < 2 ^ 63) texts vs ->
    str_to_int_res texts = POk vs.
Proof. exact str_to_int_res_valid. Qed.
Print Assumptions C18_parse_valid_never_raises.
(* With the proposed repair notes/C18.fix-3.diff: a text passes the checks iff the Spec gives it a value, and a batch
   raises EncodingError exactly when it holds a malformed text — reported at the FIRST such row, whatever the other
   rows are (row independence of the error report); otherwise the values are returned. *)
Theorem C18_parse_errors_fixed :
  (forall t, int_text_ok t = true <-> exists v, text_value t = Some v)
  /\ forall texts,
       str_to_int_res_fixed texts
       = match find_index (fun t => match text_value t with None => true | Some _ => false end) texts 0 with
         | Some r => PEnc r
         | None => match str_to_int_rows texts with Some vs => POk vs | None => POther end
         end.
Proof. exact (conj int_text_ok_iff str_to_int_fixed_first_malformed). Qed.
Print Assumptions C18_parse_errors_fixed.
(* The code as it is does not do that yet: a sign without digits is reported before an earlier bad character, and
   an exponent without digits raises a ValueError instead of the parse error. *)
Theorem C18_parse_errors_refuted :
  str_to_int_res [[49; 97]; [45]] = PEnc 1                       (* ['1a', '-'] : first malformed row is 0 *)
  /\ str_to_int_res_fixed [[49; 97]; [45]] = PEnc 0
  /\ str_to_float_err [[50]; [49; 101]] = POther                 (* ['2', '1e'] *)
  /\ str_to_float_err_fixed [[50]; [49; 101]] = PEnc 1.
Proof. vm_compute. repeat split; reflexivity. Qed.
Print Assumptions C18_parse_errors_refuted.

(* Source tie: the arithmetic regenerated on this run from /repo/bionumpy/io/strops.py and io/file_buffers.py
   (Gen/C18.v, written by translate/run.py through translate/gen_c18.py) is the arithmetic the model functions are
   written in (the named kernels m_* of Model/C18.v, width_exact, pow10_u64): the magnitude, row length and digit
   of ints_to_strings; the fill values and both scatter bumps of _build_power_array; power, summand and sign of
   str_to_int (ragged path) and the power of column j of the digit matrix; digits-after-the-point, sign and
   denominator of the decimal float parser; where the scientific parser cuts mantissa and exponent; the row
   length of int_lists_to_strings and the joined length; window index, number of fill cells and row start of
   move_intervals_to_digit_array. *)
Theorem C18_source_tie :
  (forall n p, gen_its_magnitude n = Z.abs n
               /\ gen_its_length n = width_exact n + b2z (n <? 0)
               /\ (0 <= p <= 19 -> gen_its_digit n p = m_digit (Z.abs n) (pow10_u64 p)))
  /\ (gen_pa_fill = m_fill /\ gen_pa_dot_fill = m_dot_fill /\ gen_pa_dot_offset = m_dot_offset
      /\ forall l o, gen_pa_bump_first l o = m_bump l o /\ gen_pa_bump_rest l o = m_bump l o)
  /\ (forall neg d p w j, gen_s2i_power p = m_pow10 p /\ gen_s2i_term d p = d * p
                          /\ gen_s2i_signed neg d = m_signed neg d
                          /\ gen_s2i_matrix_power w j = m_pow10 (w - 1 - j))
  /\ (forall neg b l c, gen_dec_frac_digits l c = m_frac_digits l c
                        /\ gen_dec_signed neg b = (if neg then - b else b)
                        /\ gen_dec_den l = m_dec_den l
                        /\ gen_sci_mant_end c = m_sci_mant_end c /\ gen_sci_exp_start c = m_sci_exp_start c)
  /\ (forall s n, gen_ilts_row_len s n = m_row_len s n /\ gen_join_len n = m_join_len n)
  /\ (forall s e w j, gen_mida_index s e w j = m_window_index e w j
                      /\ gen_mida_n_fill s e w = m_n_fill w (e - s)
                      /\ gen_mida_fill_start j s w = m_row_start j w).
Proof.
  exact (conj (fun n p => conj (b_its_magnitude n) (conj (b_its_length n) (b_its_digit n p)))
        (conj (conj b_pa_fill (conj b_pa_dot_fill (conj b_pa_dot_offset
                 (fun l o => conj (b_pa_bump_first l o) (b_pa_bump_rest l o)))))
        (conj (fun neg d p w j => conj (b_s2i_power p) (conj (b_s2i_term d p)
                 (conj (b_s2i_signed neg d) (b_s2i_matrix_power w j))))
        (conj (fun neg b l c => conj (b_dec_frac_digits l c) (conj (b_dec_signed neg b) (conj (b_dec_den l)
                 (conj (b_sci_mant_end c) (b_sci_exp_start c)))))
        (conj (fun s n => conj (b_ilts_row_len s n) (b_join_len n))
              (fun s e w j => conj (b_mida_index s e w j) (conj (b_mida_n_fill s e w) (b_mida_fill_start j s w)))))))).
Qed.
Print Assumptions C18_source_tie.

(* non-vacuity: concrete batches meet the hypotheses and the executable model returns the expected texts / values *)
Example C18_nonvacuous :
  ints_to_strings [0; -7; 10 ^ 15 - 1; 10 ^ 18; - 2 ^ 63; 2 ^ 63 - 1]
    = [unhex "30"; unhex "2d37"; unhex "393939393939393939393939393939"; unhex "31303030303030303030303030303030303030";
       unhex "2d39323233333732303336383534373735383038"; unhex "39323233333732303336383534373735383037"]%string
  /\ str_to_int_rows [unhex "2d303037"; unhex "2b3432"; unhex "39323233333732303336383534373735383037"]%string
    = Some [-7; 42; 2 ^ 63 - 1]
  /\ power_rows [(3, []); (1, []); (4, [1])] = [[2; 1; 0]; [0]; [2; 2; 1; 0]]
  /\ int_lists_to_strings 44 [[1; -2; 33]; []; [5]] = [unhex "312c2d322c3333"; []; unhex "35"]%string
  /\ parse_split_ints_pinned 44 [unhex "312c2d322c3333"; unhex "35"]%string = Some [[1; -2; 33]; [5]].
Proof. vm_compute. repeat split; reflexivity. Qed.
(* "-1.25", "2.5e-3" and ".5" are texts of the grammar; the model returns -125/10^2, 25/10^1*10^-3, 5/10^1 *)
Example C18_float_nonvacuous :
  let xs := [ {| fs := [45]; fi := [49]; fd := true; ff := [50; 53]; fe := None |};
              {| fs := []; fi := [50]; fd := true; ff := [53]; fe := Some [45; 51] |};
              {| fs := []; fi := []; fd := true; ff := [53]; fe := None |} ] in
  Forall (ftext_wf true) xs
  /\ map text_of xs = [unhex "2d312e3235"; unhex "322e35652d33"; unhex "2e35"]%string
  /\ str_to_float_rows (map text_of xs) = Some [(true, 125, 2, 0); (false, 25, 1, -3); (false, 5, 1, 0)].
Proof.
  cbn zeta. split; [|split; vm_compute; reflexivity].
  assert (W : forall s i d f e, (s = [] \/ s = [45]) -> all_digits i -> all_digits f -> (d = false -> f = []) ->
              i ++ f <> [] -> match e with Some t => exists v, text_value t = Some v /\ int64 v | None => True end ->
              ftext_wf true {| fs := s; fi := i; fd := d; ff := f; fe := e |}).
  { intros s i d f e Hs Hi Hf Hd Hne He. unfold ftext_wf. cbn [fs fi fd ff fe].
    split; [destruct Hs; [left|right; left]; assumption|]. repeat split; assumption. }
  repeat constructor; apply W; try reflexivity; try discriminate; try (left; reflexivity); try (right; reflexivity);
    try exact I.
  all: exists (-3); split; [reflexivity|]; unfold int64; split; [vm_compute; discriminate|reflexivity].
Qed.
(* phase 3: a 1-digit field at buffer offset 0 next to a 19-digit field (window index -18: NumPy wraps around, the
   cells are fill cells); a list column with an empty list; a short decimal through the double model with exact P *)
Example C18_phase3_nonvacuous :
  let data := unhex "3509313030303030303030303030303030303030330a"%string in      (* "5\t1000000000000000003\n" *)
  Forall (iv_ok data) [(0, 1); (2, 21)]
  /\ digit_matrix data [(0, 1); (2, 21)] 48
     = [unhex "30303030303030303030303030303030303035"; unhex "31303030303030303030303030303030303033"]%string
  /\ str_to_int_buffer data [(0, 1); (2, 21)] = Some [5; 1000000000000000003]
  /\ parse_split_ints 44 [unhex "312c32"; []; unhex "2d33"]%string = Some [[1; 2]; []; [-3]]
  /\ eval_row (fun p => Some (10 ^ p, 0)) (pre_of true {| fs := [45]; fi := [49]; fd := true; ff := [50; 53]; fe := None |})
     = Some (true, (-5, -2)).                                                          (* "-1.25" = -5 * 2^-2 *)
Proof.
  cbn zeta. split; [repeat constructor; cbn; lia|]. vm_compute. repeat split; reflexivity.
Qed.

(* Props/C14.v — the property theorems for C14 (reverse complement, strand-aware extraction, translation).
   Only statements, `exact <lemma>` and Print Assumptions live here.

   Vocabulary (Model/C14.v): encodings are numbered 0 = ASCII, 1 = ACGT, 2 = ACGTN; [domain ez] are the
   symbols the property quantifies over in that encoding (ACGTNacgtn, without N/n for ACGT); [canon ez] is
   the text an encoded symbol stands for (alphabet encodings fold case); [comp10]/[spec_revcomp] is the
   10-entry complement / reversed complement; [complements] and [where_rows] are the complement table and the
   np.where behaviour of the code at /repo HEAD, [complements_fixed]/[where_fixed] the proposed repairs
   (notes/C14.fix-1.diff, notes/C14.fix-2.diff), [complements_pinned]/[where_pinned] the unrepaired code. *)
From Coq Require Import ZArith List Bool String.
From BNP Require Import Base.Prims Model.C14 Corr.C14 Proofs.C14 Proofs.C14_mask Proofs.C14_link Proofs.C14_fasta Proofs.C14_fasta_call Gen.C14 Bridge.C14.
Import ListNotations.
Open Scope Z_scope.

(* T1+T2 (repaired table): for every list of rows over the symbols of the encoding — any number of rows, any
   lengths, empty rows included — get_reverse_complement returns, row by row, the reversed sequence with
   A<->T, C<->G exchanged and N fixed (case kept in ASCII); row lengths are preserved; applied twice it
   gives back the (encoded) input. *)
Theorem C14_revcomp_fixed :
  forall ez rows, In ez [0; 1; 2] -> Forall (Forall (fun c => In c (domain ez))) rows ->
    let out := map (fun r => spec_revcomp (map (canon ez) r)) rows in
    model_revcomp complements_fixed ez rows = Ok out
    /\ map len out = map len rows
    /\ model_revcomp2 complements_fixed ez rows = Ok (map (map (canon ez)) rows).
Proof. exact revcomp_fixed_thm. Qed.
Print Assumptions C14_revcomp_fixed.

(* the same for the code as it is at HEAD, under exactly the guard that excludes the failing class:
   ASCII-encoded input must be upper case ([domain_pinned 0] = ACGTN; the other encodings are unrestricted) *)
Theorem C14_revcomp_partial :
  forall ez rows, In ez [0; 1; 2] -> Forall (Forall (fun c => In c (domain_pinned ez))) rows ->
    let out := map (fun r => spec_revcomp (map (canon ez) r)) rows in
    model_revcomp complements ez rows = Ok out
    /\ map len out = map len rows
    /\ model_revcomp2 complements ez rows = Ok (map (map (canon ez)) rows).
Proof. exact revcomp_partial_thm. Qed.
Print Assumptions C14_revcomp_partial.

(* the full statement is false of the unrepaired table: ASCII "a" does not complement to "t" *)
Theorem C14_revcomp_pinned_refuted :
  exists rows, Forall (Forall (fun c => In c (domain 0))) rows
    /\ model_revcomp complements_pinned 0 rows <> Ok (map (fun r => spec_revcomp (map (canon 0) r)) rows).
Proof. exact revcomp_pinned_refuted_thm. Qed.
Print Assumptions C14_revcomp_pinned_refuted.

(* T3 (both repairs): strand-aware extraction returns ref[a:b] for '+' (43) and its reverse complement for
   '-' (45), for every reference over the symbols of the encoding and every set of intervals inside it —
   through get_strand_specific_sequences (minus = true) and GenomicSequence.extract_intervals (minus = false) *)
Theorem C14_stranded_fixed :
  forall minus ez ref ivs, In ez [0; 1; 2] ->
    Forall (fun c => In c (domain ez)) ref -> Forall (iv_valid ref) ivs ->
    model_stranded complements_fixed where_fixed minus ez ref ivs
    = Ok (map (spec_stranded (map (canon ez) ref)) ivs).
Proof. exact stranded_fixed_thm. Qed.
Print Assumptions C14_stranded_fixed.

(* phase-1 statement kept for the record (guards: upper case in ASCII, more bases than intervals); it holds for either
   setting of [where_rows] and is superseded by C14_stranded_head below, which has neither guard *)
Theorem C14_stranded_partial :
  forall minus ez ref ivs, In ez [0; 1; 2] ->
    Forall (fun c => In c (domain_pinned ez)) ref -> Forall (iv_valid ref) ivs ->
    len ivs < total_bases ivs ->
    model_stranded complements where_rows minus ez ref ivs
    = Ok (map (spec_stranded (map (canon ez) ref)) ivs).
Proof. exact stranded_partial_thm. Qed.
Print Assumptions C14_stranded_partial.

(* without the size guard the unrepaired code fails: one 1-bp minus-strand interval on "ACGTT" raises, on both routes *)
Theorem C14_stranded_pinned_refuted :
  exists ref ivs, Forall (fun c => In c upper5) ref /\ Forall (iv_valid ref) ivs
    /\ model_stranded complements_pinned where_pinned true 0 ref ivs = Err 5
    /\ model_stranded complements_pinned where_pinned false 2 ref ivs = Err 5.
Proof. exact stranded_pinned_refuted_thm. Qed.
Print Assumptions C14_stranded_pinned_refuted.

(* T4: for every list of rows, each row any concatenation of codons (any of the 512 upper/lower-case spellings
   of the 64 codons; empty rows allowed), translate_dna_to_protein returns for every row the amino acid of each
   codon in order — [aa_of] reads the independent amino-acid -> codons table, which covers every codon
   (third conjunct: the default of [aa_of] is never used); the flat reshape(-1,3) of the implementation equals
   the row-wise codon split of the specification (second conjunct). *)
Theorem C14_translate :
  forall crows : list (list (list Z)),
    Forall (Forall (fun cd => In cd all_codons)) crows ->
    model_translate (map (@List.concat Z) crows) = Ok (map (map aa_of) crows)
    /\ map spec_translate (map (@List.concat Z) crows) = map (map aa_of) crows
    /\ Forall (Forall (fun cd => spec_aa cd <> None)) crows.
Proof. exact translate_thm. Qed.
Print Assumptions C14_translate.

(* all 64 codons one by one (complete computation, lifted through forallb_forall) *)
Theorem C14_codon_table :
  forall cd, In cd upper_codons -> exists a, spec_aa cd = Some a /\ model_translate [cd] = Ok [[a]].
Proof. exact codon_table_thm. Qed.
Print Assumptions C14_codon_table.

(* ======================= phase 3: the code at /repo HEAD, exact guards, all case classes ======================= *)

(* HEAD (complement table repaired): the full reverse-complement statement, all three encodings, all ten symbols *)
Theorem C14_revcomp_head :
  forall ez rows, In ez [0; 1; 2] -> Forall (Forall (fun c => In c (domain ez))) rows ->
    let out := map (fun r => spec_revcomp (map (canon ez) r)) rows in
    model_revcomp complements ez rows = Ok out
    /\ map len out = map len rows
    /\ model_revcomp2 complements ez rows = Ok (map (map (canon ez)) rows).
Proof. exact (revcomp_all complements domain grid_head). Qed.
Print Assumptions C14_revcomp_head.

(* ---- round 6: the np.where repair (notes/C14.fix-2.final.diff, helper broadcast_row_mask) is in the library ---- *)
(* the model in force uses the row-wise choice; the tie of this choice to the regenerated mask expression is in
   C14_source_tie (conjuncts b_row_mask .. b_transcripts_full) *)
Theorem C14_head_where : where_rows = where_fixed.
Proof. exact head_where. Qed.
Print Assumptions C14_head_where.

(* IN FORCE.  Strand-aware extraction at HEAD, both routes (get_strand_specific_sequences: minus = true;
   GenomicSequence.extract_intervals: minus = false), the three encodings, all ten symbols: EVERY set of valid intervals —
   any number of them, empty ones, all of them empty, single 1-base intervals, more intervals than extracted bases —
   gives ref[a:b] for '+' and its reverse complement for '-'.  No size guard. *)
Theorem C14_stranded_head :
  forall ez minus ref ivs, In ez [0; 1; 2] ->
    Forall (fun c => In c (domain ez)) ref -> Forall (iv_valid ref) ivs ->
    model_stranded complements where_rows minus ez ref ivs = Ok (map (spec_stranded (map (canon ez) ref)) ivs).
Proof. exact stranded_head_full. Qed.
Print Assumptions C14_stranded_head.

(* IN FORCE.  genes.get_transcript_sequences at HEAD: every list of transcripts (any number of exons each, concatenated in
   order; also fewer bases than transcripts) on an ACGTN-encoded reference: spliced sequence for '+', reverse complement of
   the spliced sequence for '-' *)
Theorem C14_transcripts_head :
  forall ref txs, Forall (fun c => In c dna10) ref -> Forall (tx_valid ref) txs ->
    model_transcripts complements where_rows ref txs = Ok (map (spec_transcript (map (canon 2) ref)) txs).
Proof. exact transcripts_head_full. Qed.
Print Assumptions C14_transcripts_head.
(* the same statement with the tables written out as [complements_fixed] / [where_fixed] (phase-3 name) *)
Theorem C14_transcripts_fixed :
  forall ref txs, Forall (fun c => In c dna10) ref -> Forall (tx_valid ref) txs ->
    model_transcripts complements_fixed where_fixed ref txs = Ok (map (spec_transcript (map (canon 2) ref)) txs).
Proof. exact transcripts_fixed_ok. Qed.
Print Assumptions C14_transcripts_fixed.

(* IN FORCE.  The repaired mask itself, for any rows x, y of equal shape (any number of rows of any lengths, also none / all
   empty) and a mask with one entry per row: np.where with the explicit row mask — RaggedArray(np.repeat(mask, lengths),
   lengths) broadcast over either operand, then npstructures' flat np.where with the mask's shape — is the row-wise choice
   and never raises *)
Theorem C14_row_mask_where :
  forall over_x mask x y, List.length mask = List.length x -> same_shape x y ->
    where_call row_mask_of over_x mask x y = Ok (choose_rows mask x y)
    /\ split_lens (repeat_each mask (map len x)) (map len x) = row_mask_of mask x.
Proof. exact row_mask_where_thm. Qed.
Print Assumptions C14_row_mask_where.

(* ---- HISTORY: the code BEFORE the np.where repair ([where_pinned]: mask handed over as `(..)[:, np.newaxis]`, npstructures
   broadcasts it only when mask.size < data.size).  Kept to document the former finding C14-stranded-where-not-broadcast;
   a call site reverted to that form is now a VIOLATION (bridge + correspondence). ---- *)
(* positive part: every valid interval set that extracts MORE bases than it has intervals *)
Theorem C14_stranded_pinned_where :
  forall ez, In ez [0; 1; 2] -> forall minus ref ivs,
    Forall (fun c => In c (domain ez)) ref -> Forall (iv_valid ref) ivs ->
    len ivs < total_bases ivs ->
    model_stranded complements where_pinned minus ez ref ivs = Ok (map (spec_stranded (map (canon ez) ref)) ivs).
Proof. exact stranded_head_ok. Qed.
Print Assumptions C14_stranded_pinned_where.
(* ... and the guard was exact: on EVERY valid input outside it (intervals >= bases) the call raised, it never returned a
   wrong sequence *)
Theorem C14_stranded_pinned_where_fails :
  forall ez, In ez [0; 1; 2] -> forall minus ref ivs,
    Forall (fun c => In c (domain ez)) ref -> Forall (iv_valid ref) ivs ->
    total_bases ivs <= len ivs ->
    model_stranded complements where_pinned minus ez ref ivs = Err 5.
Proof. exact stranded_head_err. Qed.
Print Assumptions C14_stranded_pinned_where_fails.
(* genes.get_transcript_sequences before the repair: correct when len txs < tx_bases txs, raised on exactly the complement *)
Theorem C14_transcripts_pinned_where :
  forall ref txs, Forall (fun c => In c dna10) ref -> Forall (tx_valid ref) txs ->
    (len txs < tx_bases txs ->
       model_transcripts complements where_pinned ref txs = Ok (map (spec_transcript (map (canon 2) ref)) txs))
    /\ (tx_bases txs <= len txs -> model_transcripts complements where_pinned ref txs = Err 5).
Proof. exact (fun ref txs Hr Ht => conj (transcripts_head_ok ref txs Hr Ht) (transcripts_head_err ref txs Hr Ht)). Qed.
Print Assumptions C14_transcripts_pinned_where.

(* translation, decided for EVERY list of byte strings: rows that split into codons over ACGTacgt are translated codon
   by codon; anything else (N/n or any other symbol; a row length that is not a multiple of three, even when the total
   length is) raises EncodingError (1) resp. AssertionError (2): no protein is ever returned for it *)
Theorem C14_translate_total :
  forall rows, bytes_ok rows ->
    (tr_wellformed rows = true /\ model_translate rows = Ok (map spec_translate rows))
    \/ (tr_wellformed rows = false
        /\ ((model_translate rows = Err 1 /\ exists c, In c (List.concat rows) /\ ~ In c acgt8)
            \/ (model_translate rows = Err 2 /\ Forall (fun c => In c acgt8) (List.concat rows)
                /\ exists r, In r rows /\ len r mod 3 <> 0))).
Proof. exact translate_total. Qed.
Print Assumptions C14_translate_total.

(* the link for every case class of the correspondence: on a well-formed case (symbols of the encoding, valid
   intervals / exons — since round 6 with NO size guard —, byte strings) "the implementation agrees with the model"
   implies "the implementation satisfies the property" *)
Theorem C14_link : forall c, case_wf c = true -> model_ok c = true -> prop_ok c = true.
Proof. exact link_all. Qed.
Print Assumptions C14_link.

(* Source tie: what translate/gen_c14.py regenerates from /repo on this run (Gen/C14.v) — the `_complements` dict,
   the assignments that fill the ASCII table, the alphabet comprehension, the strand symbol / np.where operand order /
   slice bounds of the three strand-aware sites, the amino-acid string, the TCAG base order, the window size, the
   reversed 3-mer hash weights and the length rules of translation — instantiates the generalised model to exactly the
   definitions the theorems above are about. *)
Theorem C14_source_tie :
  gen_complements = complements_pinned
  /\ ascii_values_gen gen_ascii_size gen_ascii_fill (flat_map (fun p => gen_ascii_assign (fst p) (snd p)) gen_complements)
     = ascii_values complements
  /\ (forall keys alphabet,
        sequence (gen_new_alphabet (fun c => assoc c keys) alphabet) = map_opt (fun c => assoc c keys) alphabet)
  /\ (forall a, In a [str "ACGT"; str "ACGTN"] ->
        match sequence (gen_new_alphabet (fun c => assoc c gen_complements) a) with
        | None => Err 4 | Some na => alpha_encode a na end = alpha_values complements a)
  /\ (gen_alpha_lookup_same_encoding = true /\ gen_complement_rewraps_current_shape = true
      /\ gen_revcomp_reverses_rows = true)
  /\ (forall keys wh ez ref ivs,
        model_stranded keys wh true ez ref ivs
        = model_stranded_site keys wh gen_dna_where gen_dna_slice_start gen_dna_slice_stop ez ref ivs)
  /\ (forall keys wh ez ref ivs,
        model_stranded keys wh false ez ref ivs
        = model_stranded_site keys wh gen_genomic_where (fun a _ => a) (fun _ b => b) ez ref ivs)
  /\ gen_genes_where = where_site true
  /\ (forall keys wh ref txs,
        model_transcripts keys wh ref txs = model_extract keys wh gen_genes_where 2 ref tx_ext tx_strand txs)
  /\ (str gen_amino_acids = amino_acids /\ str gen_codon_alphabet = tcag
      /\ map (gen_kmer_weight (len (str gen_codon_alphabet))) (arange gen_window_size) = convolution
      /\ gen_table_is_code_points = true /\ gen_reshape_is_window_rows = true /\ gen_hash_is_dot = true)
  /\ (forall rows,
        model_translate rows
        = model_translate_gen gen_window_size (str gen_codon_alphabet) (str gen_amino_acids) gen_kmer_weight
                              gen_window_reversed gen_length_check gen_out_length rows)
  (* round 6: the regenerated broadcast_row_mask and the mask form / broadcast operand of each of the three sites *)
  /\ (gen_row_mask_shape_is_lengths = true
      /\ forall mask s, List.length mask = List.length s -> gen_row_mask mask s = row_mask_of mask s)
  /\ (fst gen_dna_mask = true /\ fst gen_genomic_mask = true /\ fst gen_genes_mask = true)
  /\ (forall keys ez ref ivs,
        model_stranded keys where_rows true ez ref ivs
        = model_stranded_site keys (site_where gen_dna_mask) gen_dna_where gen_dna_slice_start gen_dna_slice_stop ez ref ivs)
  /\ (forall keys ez ref ivs,
        model_stranded keys where_rows false ez ref ivs
        = model_stranded_site keys (site_where gen_genomic_mask) gen_genomic_where (fun a _ => a) (fun _ b => b) ez ref ivs)
  /\ (forall keys ref txs,
        model_transcripts keys where_rows ref txs
        = model_extract keys (site_where gen_genes_mask) gen_genes_where 2 ref tx_ext tx_strand txs).
Proof.
  exact (conj b_complements (conj b_ascii_table (conj b_new_alphabet (conj b_alpha_values (conj b_dna_flags
        (conj b_stranded_dna (conj b_stranded_genomic (conj b_genes_where (conj b_transcripts (conj b_translate_tables
        (conj b_translate (conj b_row_mask (conj b_mask_forms (conj b_stranded_dna_full (conj b_stranded_genomic_full
         b_transcripts_full))))))))))))))).
Qed.
Print Assumptions C14_source_tie.

(* ---------- non-vacuity and sanity of the specification tables ---------- *)
(* the complement exchanges A/T and C/G, fixes N, keeps case, and is an involution on the ten symbols *)
Example C14_comp10_table :
  map comp10 (str "ACGTNacgtn") = str "TGCANtgcan"
  /\ forallb (fun c => comp10 (comp10 c) =? c) dna10 = true.
Proof. vm_compute. split; reflexivity. Qed.
(* the genetic code lists 64 codons, no codon twice; stop codons are '*' *)
Example C14_genetic_code_table :
  let cds := flat_map (fun p => map str (snd p)) genetic_code in
  List.length cds = 64%nat
  /\ forallb (fun cd => mem 1 (map (fun x => if zlist_eqb cd x then 1 else 0) cds)) upper_codons = true
  /\ map spec_aa [str "TAA"; str "TAG"; str "TGA"; str "ATG"; str "tgg"] = [Some 42; Some 42; Some 42; Some 77; Some 87]
  /\ List.length upper_codons = 64%nat /\ List.length all_codons = 512%nat.
Proof. vm_compute. repeat split; reflexivity. Qed.
(* phase 3 hypotheses are satisfiable and the executables compute: a two-exon minus-strand transcript, the must-raise
   classes of translation, and one well-formed case of each class *)
Example C14_nonvacuous_phase3 :
  model_transcripts complements where_rows (str "ACGTNAc") [([(0, 3); (3, 6)], 45); ([(6, 7)], 43)] = Ok [str "TNACGT"; str "C"]
  /\ gen_wf (str "ACGTNAc") [([(0, 3); (3, 6)], 45); ([(6, 7)], 43)] = true
  /\ model_transcripts complements where_rows (str "ACGTNAc") [([(2, 3)], 45)] = Ok [str "C"]
  /\ model_transcripts complements where_pinned (str "ACGTNAc") [([(2, 3)], 45)] = Err 5
  /\ gen_wf (str "ACGTNAc") [([(2, 3)], 45)] = true
  /\ model_translate [str "ACN"] = Err 1 /\ model_translate [str "ACGTT"; str "A"] = Err 2
  /\ tr_wellformed [str "ACGTT"; str "A"] = false /\ tr_wellformed [str "ACGtaa"; []] = true
  /\ rev_wf 0 [str "acgtn"; []] = true /\ str_wf 0 0 (str "ACgtn") [(0, 3, 45); (2, 2, 43)] = true
  /\ str_wf 1 2 (str "ACgtn") [(2, 3, 45)] = true /\ str_wf 0 1 (str "ACgt") [(2, 2, 45); (0, 0, 43)] = true
  /\ tr_wf [str "ACN"] = true
  /\ seq_wf [str "ACGtaa"; []; str "ATG"] = true
  /\ seq_model [str "ACGtaa"] 3 = Ok [str "LR"] /\ seq_spec [str "ACGtaa"] 3 = [str "LR"].
Proof. vm_compute. repeat split; reflexivity. Qed.
(* the hypotheses of the theorems are met by concrete inputs and the executable model really computes *)
Example C14_nonvacuous :
  model_revcomp complements 2 [str "ACGTN"; []; str "acgtn"; str "AAc"] = Ok [str "NACGT"; []; str "NACGT"; str "GTT"]
  /\ model_revcomp complements_fixed 0 [str "ACGTN"; []; str "acgtn"] = Ok [str "NACGT"; []; str "nacgt"]
  /\ model_revcomp complements_pinned 0 [str "acgtn"] = Ok [[0; 0; 0; 0; 0]]
  /\ model_stranded complements where_rows true 0 (str "ACGTNNACGTTT") [(0, 4, 43); (2, 9, 45); (3, 3, 45)]
     = Ok [str "ACGT"; str "CGTNNAC"; []]
  /\ model_translate [str "ACGTAT"; []; str "TTTtaa"] = Ok [str "TY"; []; str "F*"].
Proof. vm_compute. repeat split; reflexivity. Qed.

(* round 6: the formerly failing class computes (one 1-base '-' interval; an all-empty set; more intervals than bases), on both
   routes; the same inputs still fail in the pre-repair model; the row mask of the repaired code on rows of lengths 1, 0, 2 *)
Example C14_nonvacuous_round6 :
  model_stranded complements where_rows true 0 (str "ACGTT") [(2, 3, 45)] = Ok [str "C"]
  /\ model_stranded complements where_rows false 2 (str "ACGTT") [(2, 3, 45)] = Ok [str "C"]
  /\ model_stranded complements where_rows true 1 (str "ACGT") [(2, 2, 45); (0, 0, 43)] = Ok [[]; []]
  /\ model_stranded complements where_rows false 2 (str "ACgTn") [(2, 3, 45); (0, 0, 43); (0, 1, 43); (4, 5, 45)]
     = Ok [str "C"; []; str "A"; str "N"]
  /\ model_stranded complements where_pinned true 0 (str "ACGTT") [(2, 3, 45)] = Err 5
  /\ model_stranded complements where_pinned true 1 (str "ACGT") [(2, 2, 45); (0, 0, 43)] = Err 5
  /\ row_mask_of [true; false; true] [str "A"; []; str "CG"] = [[true]; []; [true; true]]
  /\ gen_row_mask [true; false; true] [str "A"; []; str "CG"] = [[true]; []; [true; true]]
  /\ where_call row_mask_of false [true; false; true] [str "T"; []; str "CG"] [str "A"; []; str "CG"] = Ok [str "T"; []; str "CG"]
  /\ site_where gen_dna_mask [true] [str "G"] [str "C"] = Ok [str "G"]
  /\ where_pinned [true] [str "G"] [str "C"] = Err 5
  /\ same_shape [str "T"; []; str "CG"] [str "A"; []; str "CG"].
Proof. vm_compute. repeat split; try reflexivity. repeat constructor. Qed.

(* ---------------------------------------------------------------------------------------------------------------- *)
(* Round 6 strengthening — the indexed-FASTA backend (Genome.from_file(fa).read_sequence()[intervals],               *)
(* IndexedFasta._get_interval_sequences_fast).                                                                       *)
(* One turn of the fetch loop — seek to offset + (a / lenc) * lenb + a mod lenc, read up to the same expression for b,  *)
(* np.delete the computed line-break positions lenb*(j+1)-1-(a mod lenc) — returns exactly seq[a:b]: for every line      *)
(* width w > 0, every sequence (any length, last line full or partial), every 0 <= a <= b <= len seq, whatever precedes  *)
(* (headers, other records) and follows the record body in the file.  The result depends on nothing but the file, the   *)
(* index line and (a, b): in particular not on what was fetched before it.                                              *)
Theorem C14_fasta_fetch :
  forall w seq pre post rlen a b, 0 < w -> 0 <= a <= b -> b <= len seq ->
    fa_fetch (pre ++ fa_body w seq ++ post) (rlen, len pre, w, w + 1) a b = slice a b seq.
Proof. exact fa_fetch_slice. Qed.
Print Assumptions C14_fasta_fetch.

(* the same for a whole multi-record file written with a line break after every line and its standard .fai index
   (offset of each record body, lenc = length of the record's first line, lenb = lenc + 1): every interval of every record,
   each record wrapped to its own width, is fetched as seq[a:b] *)
Theorem C14_fasta_file :
  forall recs c r a b s, nth_error recs c = Some r -> 0 < fa_w r -> 0 <= a <= b -> b <= len (fa_seq r) ->
    fa_fetch_iv (fa_file recs true) (fa_index_from 0 recs) (Z.of_nat c, a, b, s) = slice a b (fa_seq r).
Proof. exact fa_fetch_file. Qed.
Print Assumptions C14_fasta_file.

(* the whole call GenomicSequence(indexed FASTA)[intervals] / extract_intervals(.., stranded): for every multi-record file whose
   records are wrapped to any positive widths and hold symbols of ACGTNacgtn, with its standard index, and EVERY list of
   intervals inside their records (any order, any nesting / overlap / repetition, any record changes, strands + / -), the
   model of the call returns for every interval the forward subsequence (upper case: ACGTN encoding) when unstranded or '+',
   and its reverse complement when '-'.  [rec_valid], [iv4_valid] : Proofs/C14_fasta_call.v. *)
Theorem C14_fasta_call :
  forall recs, Forall rec_valid recs -> forall stranded ivs, Forall (iv4_valid recs) ivs ->
    model_fa_call complements where_rows (fa_file recs true) (fa_index_from 0 recs) stranded ivs
    = Ok (map (fa_want recs stranded) ivs).
Proof. exact fa_call_thm. Qed.
Print Assumptions C14_fasta_call.

(* model agrees => property holds, now also for the indexed-FASTA case class ([case_wf_fa] = [case_wf] on the older classes;
   for CFa: every line terminated, valid records, the index on disk is the standard one, valid intervals in every call) *)
Theorem C14_link_fasta : forall c, case_wf_fa c = true -> model_ok c = true -> prop_ok c = true.
Proof. exact link_all_fa. Qed.
Print Assumptions C14_link_fasta.

(* non-vacuity: a two-record file (widths 3 and 4), a feature followed by features inside it that start on later lines,
   an interval on the other record with the same coordinates, both strands; the whole call returns what the property asks *)
Example C14_fasta_call_example :
  let recs := [(str "c", str "CGNTCgcaCcGa", 3); (str "d", str "GGGGAC", 4)] in
  let ivs : list iv4 := [(0, 1, 12, 45); (0, 4, 9, 45); (0, 7, 8, 43); (1, 1, 6, 45); (1, 4, 6, 43); (0, 4, 6, 43); (0, 12, 12, 45)] in
  model_fa_call complements where_rows (fa_file recs true) (fa_index_from 0 recs) true ivs = Ok (map (fa_want recs true) ivs)
  /\ model_fa_call complements where_rows (fa_file recs false) (fa_index_from 0 recs) false ivs = Ok (map (fa_want recs false) ivs).
Proof. vm_compute. split; reflexivity. Qed.

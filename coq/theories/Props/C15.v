(* Props/C15.v — malformed input is reported with the right line number. *)
From Coq Require Import ZArith List Bool Arith String.
From BNP Require Import Base.Prims Model.C01 Model.C15 Proofs.C01_delim Proofs.C15.
Import ListNotations.

(* T1 (delimited formats, any column typing): for every file, every chunk size >= 1 and both reader modes,
   the line number reported when chunks are parsed one by one — lines delivered earlier plus the row inside
   the chunk — is the zero-based line of the first offending record of the whole file; in particular it is
   the same for every chunk size, and None (no error) exactly when no record offends. *)
Theorem C15_delim_line_exact :
  forall tys m k file chunks dropped app lines_read,
    (1 <= k)%nat ->
    read_chunks true (Delim 9) m k file = Done chunks dropped app lines_read ->
    report tys 0 chunks = spec_line tys (norm_text file).
Proof. exact delim_line_exact. Qed.
Print Assumptions C15_delim_line_exact.

(* T2: a violation is never turned into "no error": if some record offends, the chunk-wise report is an error *)
Theorem C15_delim_never_a_table :
  forall tys m k file chunks dropped app lines_read l,
    (1 <= k)%nat ->
    read_chunks true (Delim 9) m k file = Done chunks dropped app lines_read ->
    spec_line tys (norm_text file) = Some l -> report tys 0 chunks = Some l.
Proof. intros tys m k file chunks dropped app lr l Hk Hrun Hs. rewrite <- Hs. exact (delim_line_exact tys m k file chunks dropped app lr Hk Hrun). Qed.
Print Assumptions C15_delim_never_a_table.

(* non-vacuity: a 4-line BED whose third line (line 2) has a non-numeric start, chunk size 7, gzip mode:
   the model reader completes and the report is line 2 *)
Example C15_nonvacuous :
  model_delim [CStr; CInt; CInt] Prepend 7
    (unhex "63093109320a63093309340a6309357809360a63093709380a"%string) = FormatAt 2.
Proof. vm_compute. reflexivity. Qed.

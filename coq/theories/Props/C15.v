(* Props/C15.v — malformed input is reported with the right line number. *)
From Coq Require Import ZArith List Bool Arith String.
From BNP Require Import Base.Prims Model.C01 Model.C15 Proofs.C01_delim Proofs.C01_lines Proofs.C15 Proofs.C15_oneline Proofs.C15_first Gen.C01 Bridge.C01.
Import ListNotations.

(* T1 (delimited formats, any column typing): for every file, every chunk size >= 1 and both reader modes,
   the line number reported when chunks are parsed one by one — lines delivered earlier plus the row inside
   the chunk — is the zero-based line of the first offending record of the whole file; in particular it is
   the same for every chunk size, and None (no error) exactly when no record offends. *)
Theorem C15_delim_line_exact :
  forall tys m k file chunks dropped app lines_read,
    (1 <= k)%nat ->
    read_chunks true (Delim 9) m k file = Done chunks dropped app lines_read ->
    report tys 0 chunks = spec_line tys (norm_text file).
Proof. exact delim_line_exact. Qed.
Print Assumptions C15_delim_line_exact.

(* T2: a violation is never turned into "no error": if some record offends, the chunk-wise report is an error *)
Theorem C15_delim_never_a_table :
  forall tys m k file chunks dropped app lines_read l,
    (1 <= k)%nat ->
    read_chunks true (Delim 9) m k file = Done chunks dropped app lines_read ->
    spec_line tys (norm_text file) = Some l -> report tys 0 chunks = Some l.
Proof. intros tys m k file chunks dropped app lr l Hk Hrun Hs. rewrite <- Hs. exact (delim_line_exact tys m k file chunks dropped app lr Hk Hrun). Qed.
Print Assumptions C15_delim_never_a_table.

(* ---------- record-marker formats: FASTQ (OneLine 4 64 true) and two-line FASTA (OneLine 2 62 false) ---------- *)
(* T3: a completed read means there was no violation: every delivered buffer passed the marker / '+' validation,
   the buffers cover the text up to an ignorable tail, and (end-of-file check of /repo 03a5b64) no final record was
   cut short - for EVERY file, every chunk size and both reader modes. *)
Theorem C15_oneline_never_a_table :
  forall n hdr plus m k file chunks dropped app lines,
    (1 <= n)%nat -> (plus = true -> (3 <= n)%nat) -> hdr <> 10%Z -> (1 <= k)%nat ->
    read_chunks true (OneLine n hdr plus) m k file = Done chunks dropped app lines ->
    spec_oneline (OneLine n hdr plus) (norm_text file) = None.
Proof. exact oneline_never_a_table_strong. Qed.
Print Assumptions C15_oneline_never_a_table.

(* the statement before the end-of-file check existed (texts of whole records only) is a corollary *)
Theorem C15_oneline_never_a_table_whole :
  forall n hdr plus m k file chunks dropped app lines,
    (1 <= n)%nat -> (plus = true -> (3 <= n)%nat) -> hdr <> 10%Z -> (1 <= k)%nat -> whole n (norm_text file) ->
    read_chunks true (OneLine n hdr plus) m k file = Done chunks dropped app lines ->
    spec_oneline (OneLine n hdr plus) (norm_text file) = None.
Proof. exact oneline_never_a_table. Qed.
Print Assumptions C15_oneline_never_a_table_whole.

(* T4: whatever the chunk size and mode, a reported line really is an offending line of the whole text
   (global line = lines delivered earlier + line inside the buffer being validated), or it is the first line of a
   final record that was cut short: the first line after the last complete record, with the lines from there on
   not all white space.  (Before the end-of-file check the second alternative did not exist; for texts of whole
   records it still does not: C15_oneline_reported_line_offends_whole.) *)
Theorem C15_oneline_reported_line_offends :
  forall n hdr plus m k file l chunks,
    (1 <= n)%nat -> (plus = true -> (3 <= n)%nat) -> hdr <> 0%Z -> (1 <= k)%nat ->
    read_chunks true (OneLine n hdr plus) m k file = FormatError l chunks ->
    line_is_bad n hdr plus (norm_text file) l \/ incomplete_at n hdr plus (norm_text file) l.
Proof. exact oneline_reported_line_offends. Qed.
Print Assumptions C15_oneline_reported_line_offends.

Theorem C15_oneline_reported_line_offends_whole :
  forall n hdr plus m k file l chunks,
    (1 <= n)%nat -> (plus = true -> (3 <= n)%nat) -> hdr <> 0%Z -> (1 <= k)%nat -> whole n (norm_text file) ->
    read_chunks true (OneLine n hdr plus) m k file = FormatError l chunks ->
    line_is_bad n hdr plus (norm_text file) l.
Proof. exact oneline_reported_line_offends_whole. Qed.
Print Assumptions C15_oneline_reported_line_offends_whole.

(* T5: with a single violation in the file (the property's quantifier) the reported line is THE line of the
   offending record, hence identical for every chunk size, both modes. *)
Theorem C15_oneline_line_exact :
  forall n hdr plus m k file l chunks,
    (1 <= n)%nat -> (plus = true -> (3 <= n)%nat) -> hdr <> 0%Z -> (1 <= k)%nat ->
    whole n (norm_text file) ->
    (forall i j, line_is_bad n hdr plus (norm_text file) i -> line_is_bad n hdr plus (norm_text file) j -> i = j) ->
    read_chunks true (OneLine n hdr plus) m k file = FormatError l chunks ->
    spec_oneline (OneLine n hdr plus) (norm_text file) = Some l.
Proof. exact oneline_line_exact. Qed.
Print Assumptions C15_oneline_line_exact.

Theorem C15_oneline_line_chunk_independent :
  forall n hdr plus m1 k1 m2 k2 file l1 chunks1 l2 chunks2,
    (1 <= n)%nat -> (plus = true -> (3 <= n)%nat) -> hdr <> 0%Z -> (1 <= k1)%nat -> (1 <= k2)%nat ->
    (forall i j, line_is_bad n hdr plus (norm_text file) i -> line_is_bad n hdr plus (norm_text file) j -> i = j) ->
    read_chunks true (OneLine n hdr plus) m1 k1 file = FormatError l1 chunks1 ->
    read_chunks true (OneLine n hdr plus) m2 k2 file = FormatError l2 chunks2 ->
    l1 = l2.
Proof. exact oneline_line_chunk_independent. Qed.
Print Assumptions C15_oneline_line_chunk_independent.

(* T6 (after the repair of FastQBuffer._validate, /repo 570279e: a '+' violation that precedes the first marker
   violation is raised first, and the end-of-file check of /repo 03a5b64): NO assumption on the number of violations
   or on the text — whatever the chunk size and reader mode, the reported line is the one the specification gives:
   the FIRST offending line inside a complete record, else the first line of a final record that was cut short.  hdr <> 0 and hdr <> 10 exclude the two
   byte values for which "first byte of an empty line" reads differently in the reader and in the specification
   (Proofs/C15_oneline.v marker_0_counterexample, Proofs/C15_first.v first_bad_line_marker_10); FASTQ '@' = 64 and
   FASTA '>' = 62 satisfy both. *)
Theorem C15_oneline_first_bad_line :
  forall n hdr plus m k file l chunks,
    (1 <= n)%nat -> (plus = true -> (3 <= n)%nat) -> hdr <> 0%Z -> hdr <> 10%Z -> (1 <= k)%nat ->
    read_chunks true (OneLine n hdr plus) m k file = FormatError l chunks ->
    spec_oneline (OneLine n hdr plus) (norm_text file) = Some l.
Proof. exact oneline_first_bad_line. Qed.
Print Assumptions C15_oneline_first_bad_line.

(* T7: hence any two reads of one file that end in a format error — any chunk sizes, any modes — report the same line *)
Theorem C15_oneline_line_chunk_independent_strong :
  forall n hdr plus m1 k1 m2 k2 file l1 chunks1 l2 chunks2,
    (1 <= n)%nat -> (plus = true -> (3 <= n)%nat) -> hdr <> 0%Z -> hdr <> 10%Z -> (1 <= k1)%nat -> (1 <= k2)%nat ->
    read_chunks true (OneLine n hdr plus) m1 k1 file = FormatError l1 chunks1 ->
    read_chunks true (OneLine n hdr plus) m2 k2 file = FormatError l2 chunks2 ->
    l1 = l2.
Proof. exact oneline_line_chunk_independent_strong. Qed.
Print Assumptions C15_oneline_line_chunk_independent_strong.

(* the repaired order of the checks accepts exactly the buffers the old order accepted (completed reads are unaffected) *)
Theorem C15_cut_ok_iff_pinned :
  forall f c s m, cut f c = CutOk s m <-> cut_pinned f c = CutOk s m.
Proof. exact cut_ok_iff_pinned. Qed.
Print Assumptions C15_cut_ok_iff_pinned.

(* History: the order before the repair (all markers first, then the '+' lines) is refuted — on an 8-line FASTQ
   buffer whose first record lacks its '+' line it reports line 4 although line 2 is the first offending line. *)
Theorem C15_pinned_order_refuted :
  exists chunk a b,
    cut_pinned (OneLine 4 64 true) chunk = CutFormat a
    /\ ((count_nl chunk mod 4 = 0)%nat /\ ends_nl chunk = true)
    /\ first_bad_line 4 64 true 0 (lines chunk) = Some b
    /\ (b < a)%nat
    /\ cut (OneLine 4 64 true) chunk = CutFormat b.
Proof. exact pinned_order_refuted. Qed.
Print Assumptions C15_pinned_order_refuted.

(* non-vacuity of T6/T7: three FASTQ records, the '+' line of record 1 deleted (lines 6 and 8 offend): chunk
   sizes 1 and 1000, both modes, all report line 6, the first offending line *)
Example C15_first_bad_line_nonvacuous :
  (exists c, read_chunks true FastQ Seek 1 fq_deleted_plus = FormatError 6 c)
  /\ (exists c, read_chunks true FastQ Prepend 1 fq_deleted_plus = FormatError 6 c)
  /\ (exists c, read_chunks true FastQ Seek 1000 fq_deleted_plus = FormatError 6 c)
  /\ (exists c, read_chunks true FastQ Prepend 1000 fq_deleted_plus = FormatError 6 c)
  /\ spec_oneline FastQ (norm_text fq_deleted_plus) = Some 6%nat
  /\ line_is_bad 4 64 true (norm_text fq_deleted_plus) 6
  /\ line_is_bad 4 64 true (norm_text fq_deleted_plus) 8.
Proof. exact first_bad_line_example. Qed.

(* an entry cut short at the end of the file (FASTQ, second record without its '+' line): the repaired reader reports
   line 4, the first line of the truncated record, for every chunk size 1..30 and both modes, as specified; line 4
   itself ("@b") does not offend - the second alternative of T4 *)
Example C15_truncated_record_reported :
  forallb (fun k => match read_chunks true FastQ Seek k fq_truncated, read_chunks true FastQ Prepend k fq_truncated with
                    | FormatError 4 _, FormatError 4 _ => true
                    | _, _ => false
                    end) chunk_sizes_1_30 = true
  /\ spec_oneline FastQ (norm_text fq_truncated) = Some 4%nat
  /\ incomplete_at 4 64 true (norm_text fq_truncated) 4
  /\ ~ line_is_bad 4 64 true (norm_text fq_truncated) 4.
Proof. exact truncated_record_reported. Qed.

(* History: the code at the pinned commit violated T3 - it dropped the truncated record silently (Done with the first
   record only) for every chunk size 1..30 and both modes (repaired in /repo by 03a5b64). *)
Theorem C15_truncated_record_pinned_refuted :
  exists file k m chunks dropped app lines,
    read_chunks false FastQ m k file = Done chunks dropped app lines
    /\ spec_oneline FastQ (norm_text file) = Some 4%nat
    /\ chunks = [fq_first_record] /\ dropped = [64;98;10;71;10;33;10]%Z
    /\ forallb (fun k' => match read_chunks false FastQ Seek k' file, read_chunks false FastQ Prepend k' file with
                          | Done c1 _ _ _, Done c2 _ _ _ => zll_eqb c1 [fq_first_record] && zll_eqb c2 [fq_first_record]
                          | _, _ => false
                          end) chunk_sizes_1_30 = true.
Proof. exact truncated_record_pinned_refuted. Qed.
Print Assumptions C15_truncated_record_pinned_refuted.

(* a trailing blank line is not a record: the read still completes *)
Example C15_trailing_blank_line_done :
  let file := (fq_first_record ++ [10%Z])%list in
  forallb (fun k => match read_chunks true FastQ Seek k file, read_chunks true FastQ Prepend k file with
                    | Done c1 _ _ _, Done c2 _ _ _ => zll_eqb c1 [fq_first_record] && zll_eqb c2 [fq_first_record]
                    | _, _ => false
                    end) chunk_sizes_1_30 = true
  /\ spec_oneline FastQ (norm_text file) = None.
Proof. exact trailing_blank_line_done. Qed.

(* Source tie for the line bookkeeping (shared with C01: Gen/C01.v is regenerated from /repo on every run): the
   reported line is the local line plus the lines delivered before, the marker violation of record i+1 is reported as
   (i+1)*n, the '+' violation of record j as 2 + j*n, the '+' violation is raised exactly when its line precedes the marker
   violation's (plus_line < header_line), a first-record violation as 0, a parse error in row i as
   (lines before) + i. *)
Theorem C15_source_tie :
  (forall l0 lines : nat, Z.of_nat (m_reported l0 lines) = gen_reported_line (Z.of_nat l0) (Z.of_nat lines))
  /\ (forall l nl : nat, Z.of_nat (m_lines_after l nl) = gen_lines_after (Z.of_nat l) (Z.of_nat nl))
  /\ (forall i n : nat, Z.of_nat (m_header_line i n) = gen_header_line (Z.of_nat i) (Z.of_nat n))
  /\ (forall j n : nat, Z.of_nat (m_plus_line j n) = gen_plus_line (Z.of_nat j) (Z.of_nat n))
  /\ (forall p h : nat, m_plus_wins p h = gen_plus_wins (Z.of_nat p) (Z.of_nat h))
  /\ gen_first_record_line = 0%Z
  /\ (forall i before : nat, Z.of_nat (before + i) = gen_parse_error_line (Z.of_nat i) (Z.of_nat before)).
Proof.
  exact (conj b_reported_line (conj b_lines_after (conj b_header_line (conj b_plus_line (conj b_plus_wins (conj b_first_record_line b_parse_error_line)))))).
Qed.
Print Assumptions C15_source_tie.

(* non-vacuity: a 4-line BED whose third line (line 2) has a non-numeric start, chunk size 7, gzip mode:
   the model reader completes and the report is line 2 *)
Example C15_nonvacuous :
  model_delim [CStr; CInt; CInt] Prepend 7
    (unhex "63093109320a63093309340a6309357809360a63093709380a"%string) = FormatAt 2.
Proof. vm_compute. reflexivity. Qed.

(* Props/C01.v — chunked reading loses, duplicates or reorders no entry, for any chunk size.
   Statements only; proofs are in Proofs/C01.v and Proofs/C01_delim.v. *)
From Coq Require Import ZArith List Bool Arith.
From Coq Require Import String.
From BNP Require Import Base.Prims Model.C01 Proofs.C01 Proofs.C01_delim Proofs.C01_lines.
Import ListNotations.

(* T1 (every format, both reader modes, the repaired and the pinned code): whatever the chunk size,
   a stream that completes has delivered exactly the bytes of the file, in order, plus what was
   appended at end of file, minus an explicitly identified undelivered tail [dropped]. *)
Theorem C01_delivers_file :
  forall fixed f m k file chunks dropped app lines,
    (1 <= k)%nat ->
    read_chunks fixed f m k file = Done chunks dropped app lines ->
    List.concat chunks ++ dropped = (file ++ app)%list.
Proof. exact read_chunks_delivers_file. Qed.
Print Assumptions C01_delivers_file.

(* T2 (line-oriented formats: BED, bedGraph, narrowPeak, VCF, SAM, GTF ...; repaired code): nothing is
   dropped, the concatenated chunks are the file with a final line break, and every chunk ends at a
   line break — for every file (LF or CRLF, with or without final newline), every chunk size >= 1,
   seek mode (plain files) and prepend mode (gzip). *)
Theorem C01_delim_chunks_exact :
  forall sep m k file chunks dropped app lines,
    (1 <= k)%nat ->
    read_chunks true (Delim sep) m k file = Done chunks dropped app lines ->
    dropped = [] /\ List.concat chunks = norm_text file /\ Forall (fun c => ends_nl c = true) chunks.
Proof. exact delim_chunks_exact. Qed.
Print Assumptions C01_delim_chunks_exact.

(* T3: hence the records (lines) of the chunks, concatenated in order, are exactly the records of
   the whole file: none lost, duplicated, split or reordered. *)
Theorem C01_delim_records_exact :
  forall sep m k file chunks dropped app lines_read,
    (1 <= k)%nat ->
    read_chunks true (Delim sep) m k file = Done chunks dropped app lines_read ->
    List.concat (map lines chunks) = lines (norm_text file).
Proof. exact delim_records_exact. Qed.
Print Assumptions C01_delim_records_exact.

(* T4 (n-lines-per-record formats: FASTQ n = 4, two-line FASTA n = 2; repaired code): for every file whose
   newline-terminated text consists of whole records (its number of lines is a multiple of n), every chunk size
   >= 1 and both reader modes, nothing is dropped, the concatenated chunks are the terminated file, and every chunk
   ends at a line break and holds a whole number of records — so the records of the chunks, in order, are exactly
   the records of the file (T3's line additivity applies verbatim). *)
Theorem C01_oneline_chunks_exact :
  forall n hdr plus m k file chunks dropped app lines,
    (1 <= n)%nat -> (1 <= k)%nat -> whole n (norm_text file) ->
    read_chunks true (OneLine n hdr plus) m k file = Done chunks dropped app lines ->
    dropped = [] /\ List.concat chunks = norm_text file
    /\ Forall (whole n) chunks /\ Forall (fun c => ends_nl c = true) chunks.
Proof. exact (fun n hdr plus m k file chunks dropped app lines Hn => oneline_chunks_exact n hdr plus Hn m k file chunks dropped app lines). Qed.
Print Assumptions C01_oneline_chunks_exact.

Theorem C01_oneline_records_exact :
  forall n hdr plus m k file chunks dropped app lines_read,
    (1 <= n)%nat -> (1 <= k)%nat -> whole n (norm_text file) ->
    read_chunks true (OneLine n hdr plus) m k file = Done chunks dropped app lines_read ->
    List.concat (map lines chunks) = lines (norm_text file).
Proof.
  intros n hdr plus m k file chunks dropped app lr Hn Hk Hw Hrun.
  destruct (oneline_chunks_exact n hdr plus Hn m k file chunks dropped app lr Hk Hw Hrun) as (_ & Hc & _ & HE).
  rewrite <- Hc. symmetry. apply lines_concat. exact HE.
Qed.
Print Assumptions C01_oneline_records_exact.

(* The code at the pinned commit violated T2: a raw read that ends exactly at end of file left the
   unterminated tail undelivered (history; repaired in /repo by the fix: commit). *)
Theorem C01_pinned_refuted :
  exists file k m chunks dropped app lines,
    read_chunks false (Delim 9) m k file = Done chunks dropped app lines /\ dropped <> [].
Proof.
  exists (unhex "63687231093109320a63687231093309340a6368723209350936"%string).
  exists 8%nat, Seek. eexists. eexists. eexists. eexists. split; [vm_compute; reflexivity|discriminate].
Qed.
Print Assumptions C01_pinned_refuted.

(* non-vacuity: on that same file and chunk size the repaired reader completes with three chunks *)
Example C01_nonvacuous :
  match read_chunks true (Delim 9) Seek 8 (unhex "63687231093109320a63687231093309340a6368723209350936"%string) with
  | Done chunks dropped _ _ => (List.length chunks =? 3)%nat && zlist_eqb dropped []
  | _ => false
  end = true.
Proof. vm_compute. reflexivity. Qed.

(* Props/C01.v — chunked reading loses, duplicates or reorders no entry, for any chunk size.
   Statements only; proofs are in Proofs/C01.v and Proofs/C01_delim.v. *)
From Coq Require Import ZArith List Bool Arith.
From Coq Require Import String.
From BNP Require Import Base.Prims Model.C01 Proofs.C01 Proofs.C01_delim Proofs.C01_lines Proofs.C01_mfasta Proofs.C01_mfrecords Proofs.C01_fuel Gen.C01 Bridge.C01.
Import ListNotations.

(* T1 (every format, both reader modes, the repaired and the pinned code): whatever the chunk size,
   a stream that completes has delivered exactly the bytes of the file, in order, plus what was
   appended at end of file, minus an explicitly identified undelivered tail [dropped]. *)
Theorem C01_delivers_file :
  forall fixed f m k file chunks dropped app lines,
    (1 <= k)%nat ->
    read_chunks fixed f m k file = Done chunks dropped app lines ->
    List.concat chunks ++ dropped = (file ++ app)%list.
Proof. exact read_chunks_delivers_file. Qed.
Print Assumptions C01_delivers_file.

(* T2 (line-oriented formats: BED, bedGraph, narrowPeak, VCF, SAM, GTF ...; repaired code): nothing is
   dropped, the concatenated chunks are the file with a final line break, and every chunk ends at a
   line break — for every file (LF or CRLF, with or without final newline), every chunk size >= 1,
   seek mode (plain files) and prepend mode (gzip). *)
Theorem C01_delim_chunks_exact :
  forall sep m k file chunks dropped app lines,
    (1 <= k)%nat ->
    read_chunks true (Delim sep) m k file = Done chunks dropped app lines ->
    dropped = [] /\ List.concat chunks = norm_text file /\ Forall (fun c => ends_nl c = true) chunks.
Proof. exact delim_chunks_exact. Qed.
Print Assumptions C01_delim_chunks_exact.

(* T3: hence the records (lines) of the chunks, concatenated in order, are exactly the records of
   the whole file: none lost, duplicated, split or reordered. *)
Theorem C01_delim_records_exact :
  forall sep m k file chunks dropped app lines_read,
    (1 <= k)%nat ->
    read_chunks true (Delim sep) m k file = Done chunks dropped app lines_read ->
    List.concat (map lines chunks) = lines (norm_text file).
Proof. exact delim_records_exact. Qed.
Print Assumptions C01_delim_records_exact.

(* T4 (n-lines-per-record formats: FASTQ n = 4, two-line FASTA n = 2; repaired code): for every file whose
   newline-terminated text consists of whole records (its number of lines is a multiple of n), every chunk size
   >= 1 and both reader modes, nothing is dropped, the concatenated chunks are the terminated file, and every chunk
   ends at a line break and holds a whole number of records — so the records of the chunks, in order, are exactly
   the records of the file (T3's line additivity applies verbatim). *)
Theorem C01_oneline_chunks_exact :
  forall n hdr plus m k file chunks dropped app lines,
    (1 <= n)%nat -> (1 <= k)%nat -> whole n (norm_text file) ->
    read_chunks true (OneLine n hdr plus) m k file = Done chunks dropped app lines ->
    dropped = [] /\ List.concat chunks = norm_text file
    /\ Forall (whole n) chunks /\ Forall (fun c => ends_nl c = true) chunks.
Proof. exact (fun n hdr plus m k file chunks dropped app lines Hn => oneline_chunks_exact n hdr plus Hn m k file chunks dropped app lines). Qed.
Print Assumptions C01_oneline_chunks_exact.

Theorem C01_oneline_records_exact :
  forall n hdr plus m k file chunks dropped app lines_read,
    (1 <= n)%nat -> (1 <= k)%nat -> whole n (norm_text file) ->
    read_chunks true (OneLine n hdr plus) m k file = Done chunks dropped app lines_read ->
    List.concat (map lines chunks) = lines (norm_text file).
Proof.
  intros n hdr plus m k file chunks dropped app lr Hn Hk Hw Hrun.
  destruct (oneline_chunks_exact n hdr plus Hn m k file chunks dropped app lr Hk Hw Hrun) as (_ & Hc & _ & HE).
  rewrite <- Hc. symmetry. apply lines_concat. exact HE.
Qed.
Print Assumptions C01_oneline_records_exact.

(* T4' (n-lines-per-record formats, repaired code incl. the end-of-file check of /repo 03a5b64): for EVERY file - no
   assumption on its text - a stream that completes has delivered whole records and left only an ignorable tail: the
   newline-terminated text is body ++ tail, body = the concatenated chunks = a whole number of records, tail = fewer
   than n lines of white space (what the reader drops).  A file that ends inside a record therefore never completes
   (it raises FormatException, C15). *)
Theorem C01_oneline_complete_or_error :
  forall n hdr plus m k file chunks dropped app lines,
    (1 <= n)%nat -> (1 <= k)%nat ->
    read_chunks true (OneLine n hdr plus) m k file = Done chunks dropped app lines ->
    exists body tail, norm_text file = (body ++ tail)%list /\ whole n body
                      /\ leftover_ok (OneLine n hdr plus) tail = true /\ (count_nl tail < n)%nat
                      /\ List.concat chunks = body /\ dropped = tail.
Proof. exact (fun n hdr plus m k file chunks dropped app lines Hn => oneline_complete_or_error n hdr plus Hn m k file chunks dropped app lines). Qed.
Print Assumptions C01_oneline_complete_or_error.

(* T4 without its hypothesis on the text: the chunks are whole records ending at line breaks, and together with the
   dropped ignorable tail they are the terminated file; the lines of the chunks are the lines of the text up to
   that tail *)
Theorem C01_oneline_chunks_tail :
  forall n hdr plus m k file chunks dropped app lines,
    (1 <= n)%nat -> (1 <= k)%nat ->
    read_chunks true (OneLine n hdr plus) m k file = Done chunks dropped app lines ->
    (List.concat chunks ++ dropped)%list = norm_text file
    /\ leftover_ok (OneLine n hdr plus) dropped = true /\ (count_nl dropped < n)%nat
    /\ Forall (whole n) chunks /\ Forall (fun c => ends_nl c = true) chunks.
Proof. exact (fun n hdr plus m k file chunks dropped app lines Hn => oneline_chunks_tail n hdr plus Hn m k file chunks dropped app lines). Qed.
Print Assumptions C01_oneline_chunks_tail.

Theorem C01_oneline_records_tail :
  forall n hdr plus m k file chunks dropped app lines_read,
    (1 <= n)%nat -> (1 <= k)%nat ->
    read_chunks true (OneLine n hdr plus) m k file = Done chunks dropped app lines_read ->
    lines (norm_text file) = (List.concat (map lines chunks) ++ lines dropped)%list.
Proof. exact (fun n hdr plus m k file chunks dropped app lr Hn => oneline_records_tail n hdr plus Hn m k file chunks dropped app lr). Qed.
Print Assumptions C01_oneline_records_tail.

(* T5 (wrapped FASTA; repaired code): for EVERY file, every chunk size >= 1 and both reader modes, a completed stream
   has dropped exactly the new-entry marker that was appended at end of file, the concatenated chunks are the
   newline-terminated file, and every chunk starts at a record ('>') and ends at a line break. *)
Theorem C01_mfasta_chunks_exact :
  forall m k file chunks dropped app lines,
    (1 <= k)%nat ->
    read_chunks true MultiFasta m k file = Done chunks dropped app lines ->
    (file = [] /\ chunks = [] /\ dropped = [])
    \/ (dropped = [62%Z] /\ List.concat chunks = norm_text file
        /\ Forall (fun c => ends_nl c = true /\ nthZ c 0 = 62%Z) chunks).
Proof. exact mfasta_chunks_exact. Qed.
Print Assumptions C01_mfasta_chunks_exact.

(* T5' (wrapped FASTA, entries): with the reference entry parser of C01_mfrecords (a '>' line opens an entry, every other
   line is glued to the current entry's sequence), the entries of the chunks, concatenated in order, are exactly the
   entries of the whole file - for every file, chunk size >= 1 and both modes. *)
Theorem C01_mfasta_records_exact :
  forall m k file chunks dropped app lr,
    (1 <= k)%nat ->
    read_chunks true MultiFasta m k file = Done chunks dropped app lr ->
    List.concat (map entries_of chunks) = entries_of (norm_text file).
Proof. exact mfasta_records_exact. Qed.
Print Assumptions C01_mfasta_records_exact.

(* T6 (termination of the reader, pinned AND repaired code): the fuel the model gives the chunk loop and the
   accumulation loop is never exhausted, for EVERY file, format (n-line records with any n, delimited, wrapped FASTA),
   mode and chunk size (0 included): each delivered non-final chunk strictly decreases
   (bytes not yet read) + (bytes carried over), so every run ends in one of the three completed outcomes.  The
   theorems above are therefore never true "because the model ran out of fuel". *)
Theorem C01_never_out_of_fuel :
  forall fixed f m k file, read_chunks fixed f m k file <> OutOfFuel.
Proof. exact read_chunks_terminates. Qed.
Print Assumptions C01_never_out_of_fuel.

Theorem C01_completes :
  forall fixed f m k file,
    (exists chunks dropped app lines, read_chunks fixed f m k file = Done chunks dropped app lines)
    \/ (exists line chunks, read_chunks fixed f m k file = FormatError line chunks)
    \/ (exists chunks, read_chunks fixed f m k file = OtherError chunks).
Proof. exact read_chunks_completes. Qed.
Print Assumptions C01_completes.

(* Source tie: the decision rules and arithmetic of the reader regenerated from /repo on this run (Gen/C01.v, by
   translate/gen_c01.py from parser.py, one_line_buffer.py, fastq_buffer.py, delimited_buffers.py) are the ones the
   model is built from: end-of-file inference from a short read, "read nothing", when and in which order the line
   break and the marker are appended, the seek-back offset and the kept tail, the give-up rule at end of file, the
   line bookkeeping, the n-lines-per-record cut (incomplete test, kept lines, size), the marker / '+' validation
   slices and reported lines, and the delimited cut. *)
Theorem C01_source_tie :
  (forall n_read k : nat, gen_is_finished (Z.of_nat n_read) (Z.of_nat k) = m_is_finished n_read k)
  /\ (forall raw : list Z, gen_read_nothing (Z.of_nat (List.length raw)) = match raw with [] => true | _ => false end)
  /\ gen_terminate_iff_finished = true
  /\ (forall f chunk, add_term f chunk = ((if gen_needs_newline (last chunk 0%Z) then chunk ++ [10%Z] else chunk) ++ marker f)%list)
  /\ gen_terminator_order = ["newline"%string; "marker"%string]
  /\ (forall (pos' size : nat) (chunk : list Z), (size <= List.length chunk)%nat -> (List.length chunk <= pos')%nat ->
        Z.of_nat (pos' - List.length (skipn size chunk)) = (Z.of_nat pos' + gen_seek_offset (Z.of_nat size) (Z.of_nat (List.length chunk)))%Z)
  /\ (forall size : Z, gen_prepend_slice size = (size, -1000, -1000)%Z)
  /\ gen_tail_rule = ["unless finished"%string; "seek back"%string; "else keep tail"%string]
  /\ (forall (re : bool) (temp : list (list Z)),
        gen_eof_give_up re (Z.of_nat (List.length temp)) = (negb true || re || match temp with [] => true | _ => false end))
  /\ (forall l nl : nat, Z.of_nat (m_lines_after l nl) = gen_lines_after (Z.of_nat l) (Z.of_nat nl))
  /\ (forall l0 lines : nat, Z.of_nat (m_reported l0 lines) = gen_reported_line (Z.of_nat l0) (Z.of_nat lines))
  /\ (forall cnt n : nat, gen_oneline_incomplete (Z.of_nat cnt) (Z.of_nat n) = m_oneline_incomplete cnt n)
  /\ (forall cnt n : nat, (1 <= n)%nat -> gen_oneline_kept (Z.of_nat cnt) (Z.of_nat n) = (-1000, Z.of_nat (m_oneline_kept cnt n), -1000)%Z)
  /\ (forall (n : nat) (kept : list Z), (1 <= n)%nat ->
        strided kept (n - 1) n (List.length kept - 1) 0 = filter_idx (py_slice_sel (gen_header_slice (Z.of_nat n)) (List.length kept)) kept 0)
  /\ (forall i n : nat, Z.of_nat (m_header_line i n) = gen_header_line (Z.of_nat i) (Z.of_nat n))
  /\ gen_first_record_line = 0%Z
  /\ (forall (n : nat) (kept : list Z), (1 <= n)%nat ->
        strided kept 1 n (List.length kept) 0 = filter_idx (py_slice_sel (gen_plus_slice (Z.of_nat n)) (List.length kept)) kept 0)
  /\ gen_plus_symbol = 43%Z
  /\ (forall j n : nat, Z.of_nat (m_plus_line j n) = gen_plus_line (Z.of_nat j) (Z.of_nat n))
  /\ (forall p h : nat, m_plus_wins p h = gen_plus_wins (Z.of_nat p) (Z.of_nat h))
  /\ (forall last_nl : Z, m_size_after last_nl = Z.to_nat (gen_delim_size last_nl))
  /\ (forall i before : nat, Z.of_nat (before + i) = gen_parse_error_line (Z.of_nat i) (Z.of_nat before)).
Proof.
  repeat split; first
    [ exact b_is_finished | exact b_read_nothing | exact b_terminate_iff_finished | exact b_needs_newline
    | exact b_terminator_order | exact b_seek_offset | exact b_prepend_slice | exact b_tail_rule | exact b_eof_give_up
    | exact b_lines_after | exact b_reported_line | exact b_oneline_incomplete | exact b_oneline_kept
    | exact b_header_slice | exact b_header_line | exact b_first_record_line | exact b_plus_slice | exact b_plus_symbol
    | exact b_plus_line | exact b_plus_wins | exact b_delim_size | exact b_parse_error_line ].
Qed.
Print Assumptions C01_source_tie.

(* Source tie for the end-of-file check (parser.py __check_nothing_left and its call sites, regenerated on every run):
   the ignorable bytes, and the line reported for an entry cut short. *)
Theorem C01_eof_check_source_tie :
  (forall f c, ignorable f c = existsb (Z.eqb c) (gen_ignored_bytes ++ marker f)%list)
  /\ (forall l nl : nat, Z.of_nat (m_incomplete_line l nl) = gen_incomplete_line (Z.of_nat l) (Z.of_nat nl))
  /\ (forall l : nat, Z.of_nat (m_pending_incomplete_line l) = gen_pending_incomplete_line (Z.of_nat l)).
Proof. exact (conj b_ignored_bytes (conj b_incomplete_line b_pending_incomplete_line)). Qed.
Print Assumptions C01_eof_check_source_tie.

(* The code at the pinned commit violated T2: a raw read that ends exactly at end of file left the
   unterminated tail undelivered (history; repaired in /repo by the fix: commit). *)
Theorem C01_pinned_refuted :
  exists file k m chunks dropped app lines,
    read_chunks false (Delim 9) m k file = Done chunks dropped app lines /\ dropped <> [].
Proof.
  exists (unhex "63687231093109320a63687231093309340a6368723209350936"%string).
  exists 8%nat, Seek. eexists. eexists. eexists. eexists. split; [vm_compute; reflexivity|discriminate].
Qed.
Print Assumptions C01_pinned_refuted.

(* non-vacuity: on that same file and chunk size the repaired reader completes with three chunks *)
Example C01_nonvacuous :
  match read_chunks true (Delim 9) Seek 8 (unhex "63687231093109320a63687231093309340a6368723209350936"%string) with
  | Done chunks dropped _ _ => (List.length chunks =? 3)%nat && zlist_eqb dropped []
  | _ => false
  end = true.
Proof. vm_compute. reflexivity. Qed.

(* Props/C08.v — the property theorems for C08.  Only statements, `exact <lemma>` and Print Assumptions. *)
From Coq Require Import ZArith List Bool.
From BNP Require Import Base.Prims Model.C08 Proofs.C08.
Import ListNotations.
Open Scope Z_scope.

Theorem C08_extend_inside :
  forall size frag t,
  0 <= frag -> (t_tag t = 0 \/ t_tag t = 1) -> 0 <= t_start t -> t_start t <= t_stop t -> t_stop t <= size ->
  let o := extend_one size frag t in
  t_tag o = t_tag t /\ 0 <= t_start o /\ t_start o <= t_stop o /\ t_stop o <= size /\
  (t_tag t = 1 -> t_start o = t_start t /\ t_stop o - t_start o = Z.min frag (size - t_start t)) /\
  (t_tag t = 0 -> t_stop o = t_stop t /\ t_stop o - t_start o = Z.min frag (t_stop t)).
Proof. exact extend_one_ok. Qed.
Print Assumptions C08_extend_inside.

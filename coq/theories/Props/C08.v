(* Props/C08.v — the property theorems for C08 (interval-set operations equal their per-base definitions).
   Only statements, `exact <lemma>` and Print Assumptions live here.  All statements are for unbounded
   contig sizes and interval counts.  [cov I x] is the number of intervals of I covering base x. *)
From Coq Require Import ZArith List Bool Permutation.
From BNP Require Import Base.Prims Model.C08 Corr.C08 Proofs.C08 Proofs.C08_merge Proofs.C08_overlap Proofs.C08_sim Proofs.C08_bg
  Proofs.C08_geom Proofs.C08_big Proofs.C08_link Gen.C08 Bridge.C08.
Import ListNotations.
Open Scope Z_scope.

(* T1: the pileup equals the number of intervals covering each base — nested, duplicated, touching, empty
   intervals, intervals at 0 and at the last base, the empty set. *)
Theorem C08_pileup_is_coverage :
  forall I L, 0 <= L -> (forall i, In i I -> 0 <= fst i /\ fst i <= snd i /\ snd i <= L) ->
  pileup_model I L = pileup_spec I L.
Proof. exact pileup_is_coverage. Qed.
Print Assumptions C08_pileup_is_coverage.

(* T1': the same for bedgraph.get_pileup (its own sort / accumulate / drop-empty-runs code); it never trips its assertion. *)
Theorem C08_bg_pileup_is_coverage :
  forall I L, 0 <= L -> (forall i, In i I -> 0 <= fst i /\ fst i <= snd i /\ snd i <= L) ->
  bg_pileup_model I L = Some (pileup_spec I L).
Proof. exact bg_pileup_is_coverage. Qed.
Print Assumptions C08_bg_pileup_is_coverage.

(* T2: the boolean mask is "coverage > 0" (input in any order; empty intervals allowed). *)
Theorem C08_mask_is_positive_coverage :
  forall I size, 0 <= size -> (forall i, In i I -> 0 <= fst i /\ fst i <= snd i /\ snd i <= size) ->
  mask_model I size = Some (mask_spec I size).
Proof. exact mask_is_positive_coverage_gen. Qed.
Print Assumptions C08_mask_is_positive_coverage.

(* T3: merging sorted intervals with distance d >= 0 returns the maximal runs of the union, consecutive runs
   joined whenever the gap between them is at most d bases (d = 0: touching intervals are joined). *)
Theorem C08_merge_bridged_runs :
  forall d I size, 0 <= d -> 0 <= size ->
  sortedb Z.leb (map fst I) = true -> (forall i, In i I -> fst i < snd i /\ 0 <= fst i /\ snd i <= size) ->
  merge_model d I = Some (merge_spec d I size).
Proof. intros d I size Hd Hs H1 H2. exact (merge_bridged_runs d I size Hd Hs (conj H1 H2)). Qed.
Print Assumptions C08_merge_bridged_runs.

(* T3a: merging with distance 0 returns exactly the maximal runs of positive coverage (touching intervals joined). *)
Theorem C08_merge0_maximal_runs :
  forall I size, 0 <= size ->
  sortedb Z.leb (map fst I) = true -> (forall i, In i I -> fst i < snd i /\ 0 <= fst i /\ snd i <= size) ->
  merge_model 0 I = Some (merge_spec 0 I size).
Proof. intros I size Hs H1 H2. exact (merge0_maximal_runs I size Hs (conj H1 H2)). Qed.
Print Assumptions C08_merge0_maximal_runs.

(* T3b: merging with any distance d >= 0 returns the maximal runs of the union of the intervals extended d
   bases to the right, with the d bases taken off again — i.e. gaps of at most d bases are bridged. *)
Theorem C08_merge_maximal_runs :
  forall d I size, 0 <= d -> 0 <= size ->
  sortedb Z.leb (map fst I) = true -> (forall i, In i I -> fst i < snd i /\ 0 <= fst i /\ snd i <= size) ->
  merge_model d I = Some (merge_spec2 d I size).
Proof. intros d I size Hd Hs H1 H2. exact (merge_maximal_runs d I size Hd Hs (conj H1 H2)). Qed.
Print Assumptions C08_merge_maximal_runs.

(* T3c: relational reading — the result never fails its assertions, consecutive results are more than d apart,
   each is non-empty and inside the contig, and for d = 0 it covers exactly the covered bases. *)
Theorem C08_merge_relational :
  forall d I size, 0 <= d -> 0 <= size ->
  sortedb Z.leb (map fst I) = true -> (forall i, In i I -> fst i < snd i /\ 0 <= fst i /\ snd i <= size) ->
  exists out, merge_model d I = Some out /\ sep d out
    /\ (forall o, In o out -> fst o < snd o /\ 0 <= fst o /\ snd o <= size)
    /\ (d = 0 -> forall x, covered out x = covered I x).
Proof. intros d I size Hd Hs H1 H2. exact (merge_relational d I size Hd Hs (conj H1 H2)). Qed.
Print Assumptions C08_merge_relational.

(* T4a: overlap counting through independently sorted starts and stops is sum_x max(cov(A ++ B) x - 1, 0) ... *)
Theorem C08_count_overlap_identity :
  forall A B size, (forall i, In i (A ++ B) -> 0 <= fst i /\ fst i <= snd i /\ snd i <= size) ->
  count_overlap_model A B = overlap_spec A B size.
Proof. exact count_overlap_identity. Qed.
Print Assumptions C08_count_overlap_identity.
(* ... which is the number of bases in both A and B when neither set overlaps itself. *)
Theorem C08_count_overlap_disjoint :
  forall A B size, (forall i, In i (A ++ B) -> 0 <= fst i /\ fst i <= snd i /\ snd i <= size) ->
  disjointb A size = true -> disjointb B size = true ->
  count_overlap_model A B = overlap_sets_spec A B size.
Proof. intros A B size H HA HB. rewrite (count_overlap_identity A B size H). exact (overlap_disjoint A B size HA HB). Qed.
Print Assumptions C08_count_overlap_disjoint.

(* T4b: the pieces returned by intersect cover every base x exactly max(cov(A ++ B) x - 1, 0) times
   (= 1 on the bases in both sets and 0 elsewhere when neither set overlaps itself). *)
Theorem C08_intersect_coverage :
  forall A B x, (forall i, In i (A ++ B) -> fst i <= snd i) ->
  cov (intersect_model A B) x = Z.max (cov (A ++ B) x - 1) 0.
Proof. exact intersect_coverage. Qed.
Print Assumptions C08_intersect_coverage.
Theorem C08_intersect_disjoint :
  forall A B x, (forall i, In i (A ++ B) -> fst i <= snd i) -> cov A x <= 1 -> cov B x <= 1 ->
  cov (intersect_model A B) x = b2z (covered A x && covered B x).
Proof. intros A B x H HA HB. rewrite (intersect_coverage A B x H). exact (excess_disjoint A B x HA HB). Qed.
Print Assumptions C08_intersect_disjoint.

(* T5: sorting (key / sort_order route) returns a permutation ordered by (chromosome rank, start, stop). *)
Theorem C08_sort_perm :
  forall I, Permutation (sort_full_model I) I /\ sortedb key3_leb (sort_full_model I) = true.
Proof. exact sort_full_ok. Qed.
Print Assumptions C08_sort_perm.
(* the StringEncoding (lexsort) route as it is at the pinned commit: a permutation ordered by (chromosome, start)
   only — the full statement is refuted by two intervals with equal start; with notes/C08.fix-1.diff it holds *)
Theorem C08_sort_lex_partial :
  forall I, Permutation (sort_lex_pinned I) I /\ sortedb key2_leb (sort_lex_pinned I) = true.
Proof. exact sort_lex_pinned_ok. Qed.
Print Assumptions C08_sort_lex_partial.
Theorem C08_sort_lex_refuted : exists I, sort_spec_ok I (sort_lex_pinned I) = false.
Proof. exact sort_lex_pinned_refuted. Qed.
Print Assumptions C08_sort_lex_refuted.
Theorem C08_sort_lex_fixed :
  forall I, Permutation (sort_lex_fixed I) I /\ sortedb key3_leb (sort_lex_fixed I) = true.
Proof. exact sort_lex_fixed_ok. Qed.
Print Assumptions C08_sort_lex_fixed.

(* T6a: clipping.  Pinned code: inside the contig and covering the same bases of the contig, provided the
   interval meets the contig; refuted for an interval lying beyond the contig end; the repaired clip
   (notes/C08.fix-2.diff) satisfies the statement without the guard. *)
Theorem C08_clip_inside_partial :
  forall size i, 0 <= size -> fst i <= snd i -> fst i <= size -> 0 <= snd i ->
  let o := clip_pinned size i in
  0 <= fst o /\ fst o <= snd o /\ snd o <= size /\ forall x, 0 <= x < size -> covers x o = covers x i.
Proof. exact clip_pinned_ok. Qed.
Print Assumptions C08_clip_inside_partial.
Theorem C08_clip_inside_refuted :
  exists size i, 0 <= size /\ fst i <= snd i /\ ~ (fst (clip_pinned size i) <= snd (clip_pinned size i) <= size).
Proof. exact clip_pinned_refuted. Qed.
Print Assumptions C08_clip_inside_refuted.
Theorem C08_clip_inside_fixed :
  forall size i, 0 <= size -> fst i <= snd i ->
  let o := clip_fixed size i in
  0 <= fst o /\ fst o <= snd o /\ snd o <= size /\ forall x, 0 <= x < size -> covers x o = covers x i.
Proof. exact clip_fixed_ok. Qed.
Print Assumptions C08_clip_inside_fixed.

(* T6b: strand-aware extension stays inside the contig; + keeps the start, - keeps the stop, and the length is
   min(fragment length, what the contig leaves). *)
Theorem C08_extend_inside :
  forall size frag t,
  0 <= frag -> (t_tag t = 0 \/ t_tag t = 1) -> 0 <= t_start t -> t_start t <= t_stop t -> t_stop t <= size ->
  let o := extend_one size frag t in
  t_tag o = t_tag t /\ 0 <= t_start o /\ t_start o <= t_stop o /\ t_stop o <= size /\
  (t_tag t = 1 -> t_start o = t_start t /\ t_stop o - t_start o = Z.min frag (size - t_start t)) /\
  (t_tag t = 0 -> t_stop o = t_stop t /\ t_stop o - t_start o = Z.min frag (t_stop t)).
Proof. exact extend_one_ok. Qed.
Print Assumptions C08_extend_inside.

(* T7: Jaccard, Forbes (as exact fractions) and unique_intersect equal the values computed from coverage. *)
Theorem C08_jaccard_per_base :
  forall A B size, 0 <= size -> wf_set A size -> wf_set B size ->
  jaccard_model A B size = Some (jaccard_spec A B size).
Proof. exact jaccard_is_per_base. Qed.
Print Assumptions C08_jaccard_per_base.
Theorem C08_forbes_per_base :
  forall A B size, 0 <= size -> wf_set A size -> wf_set B size ->
  forbes_model A B size = Some (forbes_spec A B size).
Proof. exact forbes_is_per_base. Qed.
Print Assumptions C08_forbes_per_base.
(* unique_intersect: among the rows of A that have bases exactly those sharing a base with B are returned, in order,
   and every returned row is a row of A.  (wf_set allows start = stop.)  A row WITHOUT bases (start = stop = p) is
   outside the property; the library keeps it iff bases p-1 and p are both covered (Model.unique_keep), so the stronger
   reading "a row without bases is never returned" is refuted. *)
Theorem C08_unique_intersect_per_base :
  forall A B size, 0 <= size -> wf_set B size -> wf_set A size ->
  exists out, unique_intersect_model A B size = Some out
    /\ filter (fun i => fst i <? snd i) out = unique_intersect_spec A B
    /\ (forall o, In o out -> In o A).
Proof. exact unique_intersect_is_per_base. Qed.
Print Assumptions C08_unique_intersect_per_base.
Theorem C08_unique_intersect_empty_row_refuted :
  exists A B size, wf_set A size /\ wf_set B size /\ unique_intersect_model A B size <> Some (unique_intersect_spec A B).
Proof. exact unique_intersect_empty_row_refuted. Qed.
Print Assumptions C08_unique_intersect_empty_row_refuted.

(* Geometry routes: the contig is chromosome number r of a genome with chromosome sizes [sizes] (all >= 0); Geometry
   works in global coordinates.  G1/G2: the chromosome's slice of the genome-wide pileup / mask is the coverage /
   positive coverage of the contig.  G3: Geometry.merge_intervals (chromosomes moved d+1 apart, merged globally, shifted
   back) is merge_intervals — merging is translation invariant — hence the maximal runs with gaps <= d bridged.
   G4: Geometry.sort (stable lexsort on global start, stop) is the sort by (chromosome, start, stop). *)
Theorem C08_geom_pileup_is_coverage :
  forall sizes r I, genome_wf sizes r ->
  (forall i, In i I -> 0 <= fst i /\ fst i <= snd i /\ snd i <= gsize sizes r) ->
  geom_pileup_model sizes r I = pileup_spec I (gsize sizes r).
Proof. exact geom_pileup_is_coverage. Qed.
Print Assumptions C08_geom_pileup_is_coverage.
Theorem C08_geom_mask_is_positive_coverage :
  forall sizes r I, genome_wf sizes r ->
  (forall i, In i I -> 0 <= fst i /\ fst i <= snd i /\ snd i <= gsize sizes r) ->
  geom_mask_model sizes r I = Some (mask_spec I (gsize sizes r)).
Proof. exact geom_mask_is_positive_coverage. Qed.
Print Assumptions C08_geom_mask_is_positive_coverage.
Theorem C08_geom_merge_bridged_runs :
  forall sizes r d I size, 0 <= d -> 0 <= size ->
  sortedb Z.leb (map fst I) = true -> (forall i, In i I -> fst i < snd i /\ 0 <= fst i /\ snd i <= size) ->
  geom_merge_model sizes r d I = merge_model d I /\ geom_merge_model sizes r d I = Some (merge_spec d I size).
Proof.
  intros sizes r d I size Hd Hs H1 H2.
  exact (conj (geom_merge_is_merge sizes r d I size Hd (conj H1 H2)) (geom_merge_bridged_runs sizes r d I size Hd Hs (conj H1 H2))).
Qed.
Print Assumptions C08_geom_merge_bridged_runs.
Theorem C08_geom_sort_perm :
  forall sizes I, nonneg sizes -> (forall t, In t I -> row_ok sizes t) ->
  geom_sort_model sizes I = sort_full_model I
  /\ Permutation (geom_sort_model sizes I) I /\ sortedb key3_leb (geom_sort_model sizes I) = true.
Proof. intros sizes I H1 H2. exact (conj (geom_sort_is_sort sizes I H1 H2) (geom_sort_ok sizes I H1 H2)). Qed.
Print Assumptions C08_geom_sort_perm.

Theorem C08_geom_jaccard_per_base :
  forall sizes r A B, genome_wf sizes r -> wf_set A (gsize sizes r) -> wf_set B (gsize sizes r) ->
  geom_jaccard_model sizes r A B = Some (jaccard_spec A B (gsize sizes r)).
Proof. exact geom_jaccard_is_per_base. Qed.
Print Assumptions C08_geom_jaccard_per_base.

(* jaccard / forbes on a genome with several contigs (the contingency tables of the contigs are added up): the exact
   fractions are the genome-wide per-base counts — a contig may carry intervals of one set only, or of none *)
Theorem C08_similarity_genome_per_base :
  forall g, genome_ok_prop g ->
  jaccard_genome_model g = Ret (jaccard_genome_spec g) /\ forbes_genome_model g = Ret (forbes_genome_spec g).
Proof. intros g H. exact (conj (jaccard_genome_is_per_base g H) (forbes_genome_is_per_base g H)). Qed.
Print Assumptions C08_similarity_genome_per_base.

(* Deep inputs (any number of intervals — the check generates more than 2^15 and 2^16 on a tiny contig) given with
   multiplicities: a row (m, start, stop) stands for m copies.  The weighted per-base functions the correspondence
   evaluates for these cases are exactly the models' outputs on the expanded multiset (and so, by the theorems above,
   the library's specification on it): pileup = weighted coverage, mask = weighted coverage > 0, merge = maximal runs
   (gaps <= d bridged) of the support, count_overlap = sum_x max(cov_w A x + cov_w B x - 1, 0). *)
Theorem C08_weighted_is_model :
  forall W WB d L, 0 <= d -> 0 <= L -> rows_ok W L -> rows_ok WB L ->
  pileup_model (expand_w W) L = pileup_big_model W L
  /\ mask_model (expand_w W) L = Some (mask_big_model W L)
  /\ ((forall t, In t W -> t_start t < t_stop t) -> sortedb Z.leb (map fst (map untag W)) = true ->
      merge_model d (expand_w W) = Some (merge_big_model d W L))
  /\ count_overlap_model (expand_w W) (expand_w WB) = count_overlap_big_model W WB L.
Proof.
  intros W WB d L Hd HL H HB.
  exact (conj (pileup_big_is_model W L HL H) (conj (mask_big_is_model W L HL H)
        (conj (fun Hne Hs => merge_big_is_model d W L Hd HL H Hne Hs) (count_overlap_big_is_model W WB L H HB)))).
Qed.
Print Assumptions C08_weighted_is_model.

(* LINK: for every correspondence case inside the property's domain — all 24 case classes: pileup, bedgraph pileup,
   mask, merge, the three sort routes, count_overlap, intersect, unique_intersect, jaccard, forbes, Geometry.jaccard,
   clip, extend_to_size, Geometry pileup / mask / merge, jaccard / forbes on several contigs — "the implementation's observation equals the model's output"
   (model_ok) implies "the observation satisfies the property" (spec_ok).  Unconditional since the repair a68b397
   (jaccard / forbes accept an interval set without entries; an empty union / an empty marginal gives 0/0 = nan). *)
Theorem C08_model_implies_spec :
  forall c, domain c = true -> model_ok c = true -> spec_ok c = true.
Proof. exact model_implies_spec. Qed.
Print Assumptions C08_model_implies_spec.
(* history: before a68b397 the stream route raised on an interval set without entries *)
Theorem C08_similarity_stream_pinned_refuted :
  exists A B size, wf_set A size /\ wf_set B size
    /\ stream_similarity_pinned jaccard_model A B size <> Ret (jaccard_spec A B size).
Proof. exact stream_similarity_pinned_refuted. Qed.
Print Assumptions C08_similarity_stream_pinned_refuted.

(* Source tie: the per-element arithmetic regenerated on this run from /repo (Gen/C08.v, written by translate/run.py
   from arithmetics/intervals.py, arithmetics/similarity_measures.py and genomic_data/geometry.py) is the arithmetic
   of the model the theorems above are about: the clamps of clip (both routes) and extend_to_size, the comparisons,
   the +distance / -distance adjustments and the two assertions of merge_intervals, the kept-interval test of
   get_boolean_mask, the per-pair formulas of count_overlap and intersect over stops[:-1] / starts[1:], the key order of
   the three sorts (and the order those keys define is key3_leb, the order of C08_sort_perm), the layout of the
   contingency table and the Jaccard / Forbes fractions. *)
Theorem C08_source_tie :
  (forall s e size, gen_clip_start s e size = fst (clip_one size (s, e)) /\ gen_clip_stop s e size = snd (clip_one size (s, e))
                 /\ gen_geom_clip_start s e size = fst (clip_one size (s, e)) /\ gen_geom_clip_stop s e size = snd (clip_one size (s, e)))
  /\ (forall tag s e frag size,
        gen_extend_start (tag =? 1) s e frag size = t_start (extend_one size frag (tag, s, e))
        /\ gen_extend_stop (tag =? 1) s e frag size = t_stop (extend_one size frag (tag, s, e)))
  /\ gen_extend_forward_symbol = extend_forward_symbol
  /\ (forall a b, gen_merge_sorted_pair a b = m_merge_sorted_pair a b /\ gen_merge_new_run a b = m_merge_new_run a b
                /\ gen_merge_assert a b = m_merge_new_run a b /\ gen_mask_keep a b = m_mask_keep a b
                /\ gen_count_overlap_term a b = m_overlap_term a b /\ gen_intersect_keep a b = m_intersect_keep a b
                /\ gen_intersect_piece a b = m_intersect_piece a b)
  /\ (forall d l, map (gen_merge_shift d) l = m_merge_shift d l /\ map (gen_merge_unshift d) l = m_merge_unshift d l)
  /\ gen_count_overlap_sorted = count_overlap_sorted
  /\ (gen_sort_lex_keys = sort_lex_keys /\ gen_sort_tuple_keys = sort_tuple_keys /\ gen_geom_sort_keys = geom_sort_keys
      /\ (forall a b, leb_of_keys gen_sort_lex_keys a b = Some (key3_leb a b))
      /\ (forall a b, leb_of_keys (removelast gen_sort_tuple_keys) a b = Some (key3_leb a b))
      /\ (forall I, sort_lex_model I = isort key3_leb I /\ sort_full_model I = isort key3_leb I /\ geom_sort_leb = key3_leb))
  /\ (forall x y : bool, gen_table_00 x y = m_cell_00 x y /\ gen_table_01 x y = m_cell_01 x y
                       /\ gen_table_10 x y = m_cell_10 x y /\ gen_table_11 x y = m_cell_11 x y)
  /\ (forall a b c d, gen_jaccard_num a b c d = m_jaccard_num a b c d /\ gen_jaccard_den a b c d = m_jaccard_den a b c d
                    /\ gen_forbes_num a b c d = m_forbes_num a b c d /\ gen_forbes_den a b c d = m_forbes_den a b c d).
Proof.
  refine (conj (fun s e size => conj (b_clip_start s e size) (conj (b_clip_stop s e size) (conj (b_geom_clip_start s e size) (b_geom_clip_stop s e size))))
         (conj (fun tag s e frag size => conj (b_extend_start tag s e frag size) (b_extend_stop tag s e frag size))
         (conj b_extend_forward_symbol
         (conj (fun a b => conj (b_merge_sorted_pair a b) (conj (b_merge_new_run a b) (conj (b_merge_assert a b) (conj (b_mask_keep a b)
                           (conj (b_count_overlap_term a b) (conj (b_intersect_keep a b) (b_intersect_piece a b)))))))
         (conj (fun d l => conj (b_merge_shift d l) (b_merge_unshift d l))
         (conj b_count_overlap_sorted
         (conj (conj b_sort_lex_keys (conj b_sort_tuple_keys (conj b_geom_sort_keys
                 (conj (fun a b => eq_ind_r (fun k => leb_of_keys k a b = Some (key3_leb a b)) (keys_order a b) b_sort_lex_keys)
                 (conj (fun a b => eq_ind_r (fun k => leb_of_keys (removelast k) a b = Some (key3_leb a b)) (tuple_keys_order a b) b_sort_tuple_keys)
                       sort_models_use_key3)))))
         (conj (fun x y => conj (b_table_00 x y) (conj (b_table_01 x y) (conj (b_table_10 x y) (b_table_11 x y))))
               (fun a b c d => conj (b_jaccard_num a b c d) (conj (b_jaccard_den a b c d) (conj (b_forbes_num a b c d) (b_forbes_den a b c d)))))))))))).
Qed.
Print Assumptions C08_source_tie.

(* non-vacuity: concrete inputs meeting the hypotheses, on which the executable model returns the expected,
   non-trivial values (nested + duplicated + touching intervals, an interval ending at the last base) *)
Example C08_nonvacuous_pileup :
  pileup_model [(3, 8); (5, 7); (5, 7); (8, 10); (0, 2)] 10 = [1; 1; 0; 1; 1; 3; 3; 1; 1; 1].
Proof. vm_compute. reflexivity. Qed.
Example C08_nonvacuous_merge :
  merge_model 2 [(0, 2); (1, 3); (5, 6); (9, 10)] = Some [(0, 6); (9, 10)]
  /\ merge_spec 2 [(0, 2); (1, 3); (5, 6); (9, 10)] 10 = [(0, 6); (9, 10)]
  /\ merge_spec2 2 [(0, 2); (1, 3); (5, 6); (9, 10)] 10 = [(0, 6); (9, 10)]
  /\ merge_model 0 [(0, 2); (2, 4); (5, 6)] = Some [(0, 4); (5, 6)].
Proof. vm_compute. repeat split; reflexivity. Qed.
Example C08_nonvacuous_geom :
  let sizes := [3; 5; 2] in
  genome_wf sizes 1 /\ gsize sizes 1 = 5 /\ goff sizes 1 = 3
  /\ geom_pileup_model sizes 1 [(0, 2); (1, 5); (4, 5)] = [1; 2; 1; 1; 2]
  /\ geom_merge_model sizes 1 1 [(0, 1); (3, 4); (4, 5)] = Some [(0, 1); (3, 5)]
  /\ geom_sort_model sizes [(2, 0, 2); (1, 1, 5); (1, 1, 3); (0, 2, 3)] = [(0, 2, 3); (1, 1, 3); (1, 1, 5); (2, 0, 2)]
  /\ unique_intersect_model [(4, 4); (3, 3); (0, 4)] [(3, 6)] 8 = Some [(4, 4); (0, 4)].
Proof.
  cbv zeta. split; [split; [intros z Hz; simpl in Hz; destruct Hz as [E|[E|[E|[]]]]; subst z; discriminate|vm_compute; split; [discriminate|reflexivity]]|].
  vm_compute. repeat split; reflexivity.
Qed.
Example C08_nonvacuous_weighted :
  let W := [(3, 0, 2); (2, 1, 4)] in
  expand_w W = [(0, 2); (0, 2); (0, 2); (1, 4); (1, 4)]
  /\ pileup_model (expand_w W) 5 = [3; 5; 2; 2; 0] /\ pileup_big_model W 5 = [3; 5; 2; 2; 0]
  /\ merge_model 0 (expand_w W) = Some [(0, 4)] /\ merge_big_model 0 W 5 = [(0, 4)]
  /\ count_overlap_model (expand_w W) (expand_w [(2, 3, 5)]) = 11 /\ count_overlap_big_model W [(2, 3, 5)] 5 = 11.
Proof. vm_compute. repeat split; reflexivity. Qed.
Example C08_nonvacuous_link :
  let c := {| k_op := 18; k_size := 5; k_d := 1; k_sizes := [3; 5; 2]; k_rank := 1; k_a := [(0, 0, 1); (0, 3, 4); (0, 4, 5)];
              k_b := []; k_err := 0; k_dense := []; k_ivs := [(0, 0, 1); (0, 3, 5)]; k_num := 0; k_den := 1; k_kind := 0 |} in
  domain c = true /\ model_ok c = true /\ spec_ok c = true.
Proof. vm_compute. repeat split; reflexivity. Qed.
Example C08_nonvacuous_overlap :
  count_overlap_model [(0, 3); (2, 5)] [(1, 4)] = 4 /\ overlap_spec [(0, 3); (2, 5)] [(1, 4)] 6 = 4
  /\ intersect_model [(0, 3); (4, 6)] [(1, 5)] = [(1, 3); (4, 5)]
  /\ jaccard_model [(0, 3); (4, 6)] [(1, 5)] 10 = Some (3, 6) /\ forbes_model [(0, 3); (4, 6)] [(1, 5)] 10 = Some (30, 20).
Proof. vm_compute. repeat split; reflexivity. Qed.

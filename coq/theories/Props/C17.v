(* Props/C17.v — the property theorems for C17 (indexed FASTA random access).
   Only statements, `exact <lemma>` and Print Assumptions live here. *)
From Coq Require Import ZArith List Bool String.
From BNP Require Import Base.Prims Model.C17 Proofs.C17 Proofs.C17_index Proofs.C17_e2e Proofs.C17_chunks Gen.C17 Bridge.C17.
Import ListNotations.
Open Scope Z_scope.

(* T2: fetching a whole contig through the index arithmetic returns the sequence —
   every sequence, every line width >= 1, LF or CRLF line ends, whatever surrounds the record
   in the file and whatever is in the unread part of the buffer. *)
Theorem C17_fetch_contig :
  forall (w : Z) (eol fill seq pre post name : list Z),
    1 <= w -> seq <> [] ->
    fetch_contig fill {| i_name := name; i_rlen := len seq; i_offset := len pre; i_lenc := w; i_lenb := w + len eol |}
                 (pre ++ wrap w eol seq ++ post) = seq.
Proof. exact fetch_contig_whole. Qed.
Print Assumptions C17_fetch_contig.

(* T3: fetching [a,b) returns exactly seq[a:b] — for every width and wherever a and b fall
   relative to line breaks (LF files). *)
Theorem C17_fetch_interval :
  forall (w : Z) (seq pre post name : list Z) (rl a b : Z),
    1 <= w -> 0 <= a -> a <= b -> b <= len seq ->
    fetch_interval {| i_name := name; i_rlen := rl; i_offset := len pre; i_lenc := w; i_lenb := w + 1 |}
                   (pre ++ wrap w [10] seq ++ post) a b = slice a b seq.
Proof. exact fetch_interval_substring. Qed.
Print Assumptions C17_fetch_interval.

(* T1+T2+T3 on whole files: for every FASTA file that is the layout of a list of records, the index
   the format defines (spec_index) has, for record k, the true name and sequence length, and random
   access through that row returns the record's sequence / substrings. *)
Theorem C17_file_level :
  forall eol fill rs pre k r,
    nth_error rs k = Some r -> rec_ok r ->
    exists ix, nth_error (spec_index_from (len pre) eol rs) k = Some ix
      /\ i_rlen ix = len (r_seq r) /\ i_name ix = r_name r
      /\ fetch_contig fill ix (pre ++ layout eol rs) = r_seq r
      /\ (eol = [10] -> forall a b, 0 <= a -> a <= b -> b <= len (r_seq r) ->
            fetch_interval ix (pre ++ layout eol rs) a b = slice a b (r_seq r)).
Proof. exact spec_index_nth. Qed.
Print Assumptions C17_file_level.

(* T1: index construction.  For every FASTA that is the layout of well-formed records (non-empty sequences, line
   width >= 1, names and sequences free of line-break bytes, no '>' inside a sequence), with LF or CRLF line ends,
   the index the library's line scan builds (model_index: header lines, summed sequence-line lengths, offset,
   bases per line and bytes per line of the first sequence line) IS the index the format defines (spec_index:
   name, true sequence length, byte offset of the first base, min(width, length), that plus the line end). *)
Theorem C17_index_correct :
  forall eol rs, eol_ok eol -> Forall rec_wf rs -> model_index (layout eol rs) = spec_index eol rs.
Proof. exact model_index_layout. Qed.
Print Assumptions C17_index_correct.

(* End to end (T1 o T2/T3/T4): the index the library BUILDS from a FASTA file (any records with a non-empty sequence free
   of line-break bytes and '>', any line width >= 1, LF or CRLF, last line short or full) has one row per record, in
   order; its k-th row carries the record's name and reports the record's true length, fetching the whole contig through
   it returns the record's sequence, and (LF files) fetching any in-bounds interval returns exactly that substring. *)
Theorem C17_built_index_fetches :
  forall eol fill rs k r,
    eol_ok eol -> Forall rec_wf rs -> nth_error rs k = Some r ->
    exists ix, nth_error (model_index (layout eol rs)) k = Some ix
      /\ i_name ix = r_name r /\ contig_length ix = len (r_seq r)
      /\ fetch_contig fill ix (layout eol rs) = r_seq r
      /\ (eol = [10] -> forall a b, 0 <= a -> a <= b -> b <= len (r_seq r) ->
            fetch_interval ix (layout eol rs) a b = slice a b (r_seq r)).
Proof. exact built_index_fetches. Qed.
Print Assumptions C17_built_index_fetches.

Theorem C17_built_index_rows :
  forall eol rs, eol_ok eol -> Forall rec_wf rs -> List.length (model_index (layout eol rs)) = List.length rs.
Proof. exact model_index_length. Qed.
Print Assumptions C17_built_index_rows.

(* create_index reads the file in chunks (runs of whole records, C01) and shifts every chunk's rows by
   cumsum([0] + chunk sizes): for EVERY grouping of the records into chunks - any number of chunks, any sizes - the
   result is the index the format defines for the whole file (and the index of the file read in one piece). *)
Theorem C17_chunked_index_correct :
  forall eol rss, eol_ok eol -> Forall (Forall rec_wf) rss ->
    model_index_chunks (map (layout eol) rss) = spec_index eol (List.concat rss)
    /\ model_index_chunks (map (layout eol) rss) = model_index (List.concat (map (layout eol) rss)).
Proof. exact (fun eol rss He Hwf => conj (model_index_chunks_layout eol rss He Hwf) (model_index_chunks_whole eol rss He Hwf)). Qed.
Print Assumptions C17_chunked_index_correct.

(* the index is a function of the records' shapes (name, length, width, bytes in the file) alone: lets the
   correspondence check a 12 MB file (three reader chunks at the library's default chunk size) without its bytes *)
Theorem C17_index_from_shapes :
  forall eol rs pos, spec_index_from pos eol rs = spec_index_shapes_from pos (len eol) (map (shape_of eol) rs).
Proof. exact spec_index_shapes. Qed.
Print Assumptions C17_index_from_shapes.

(* T4: the reported contig length is the sequence length column of the index. *)
Theorem C17_contig_length : forall ix, contig_length ix = i_rlen ix.
Proof. exact (fun ix => eq_refl). Qed.
Print Assumptions C17_contig_length.

(* the pinned code reported bases-per-line instead: refuted by a two-line record (history; fixed in /repo) *)
Theorem C17_contig_length_pinned_refuted :
  exists ix, contig_length_pinned ix <> i_rlen ix.
Proof. exists {| i_name := []; i_rlen := 12; i_offset := 11; i_lenc := 5; i_lenb := 6 |}. discriminate. Qed.
Print Assumptions C17_contig_length_pinned_refuted.

(* Source tie: the offset arithmetic regenerated from /repo/bionumpy/io/indexed_fasta.py on this run (Gen/C17.v,
   written by translate/run.py) is the arithmetic the theorems above are about — for __getitem__, for both
   interval readers, and for the column get_contig_lengths reports. *)
Theorem C17_source_tie :
  (forall rlen offset lenc lenb, gen_getitem_n_rows rlen offset lenc lenb = m_n_rows rlen lenc
                              /\ gen_getitem_bytes_to_read rlen offset lenc lenb = m_bytes_to_read rlen lenc lenb
                              /\ gen_getitem_seek rlen offset lenc lenb = offset)
  /\ (forall rlen offset lenc lenb a b j,
        gen_slow_seek rlen offset lenc lenb a b = m_read_start offset lenc lenb a
        /\ gen_slow_read_len rlen offset lenc lenb a b = m_read_len lenc lenb a b
        /\ gen_slow_n_del rlen offset lenc lenb a b = m_n_del lenc a b
        /\ gen_slow_del_index rlen offset lenc lenb a b j = m_del_index lenb (a mod lenc) j
        /\ gen_fast_read_start rlen offset lenc lenb a b = m_read_start offset lenc lenb a
        /\ gen_fast_read_len rlen offset lenc lenb a b = m_read_len lenc lenb a b
        /\ gen_fast_n_del rlen offset lenc lenb a b = m_n_del lenc a b
        /\ gen_fast_start_mod rlen offset lenc lenb a b = a mod lenc
        /\ gen_fast_del_index lenb (a mod lenc) j = m_del_index lenb (a mod lenc) j)
  /\ gen_contig_length_column = contig_length_column
  /\ (forall sizes start offset, gen_ci_offsets sizes = m_ci_offsets sizes /\ gen_ci_shift start offset = m_ci_shift start offset).
Proof.
  refine (let H := _ in conj (proj1 H) (conj (proj1 (proj2 H)) (conj (proj2 (proj2 H)) (fun sz st o => conj (b_ci_offsets sz) (b_ci_shift st o))))).
  exact (conj (fun r o c b => conj (b_getitem_n_rows r o c b) (conj (b_getitem_bytes_to_read r o c b) (b_getitem_seek r o c b)))
        (conj (fun r o c b x y j => conj (b_slow_seek r o c b x y) (conj (b_slow_read_len r o c b x y) (conj (b_slow_n_del r o c b x y)
               (conj (b_slow_del_index r o c b x y j) (conj (b_fast_read_start r o c b x y) (conj (b_fast_read_len r o c b x y)
               (conj (b_fast_n_del r o c b x y) (conj (b_fast_start_mod r o c b x y) (b_fast_del_index b (x mod c) j)))))))))
              b_contig_length_column)).
Qed.
Print Assumptions C17_source_tie.

(* non-vacuity: a concrete three-line record in the middle of a file meets the hypotheses, and the
   executable model really returns the substring across two line breaks *)
Example C17_nonvacuous :
  let seq := unhex "41434754414347544143"%string in      (* ACGTACGTAC, width 4 *)
  let pre := unhex "3e610a"%string in let post := unhex "3e620a41410a"%string in
  fetch_interval {| i_name := []; i_rlen := 10; i_offset := 3; i_lenc := 4; i_lenb := 5 |}
                 (pre ++ wrap 4 [10] seq ++ post) 3 9 = slice 3 9 seq
  /\ fetch_contig [] {| i_name := []; i_rlen := 10; i_offset := 3; i_lenc := 4; i_lenb := 5 |}
                 (pre ++ wrap 4 [10] seq ++ post) = seq.
Proof. vm_compute. split; reflexivity. Qed.

(* Props/C17.v — the property theorems for C17 (indexed FASTA random access).
   Only statements, `exact <lemma>` and Print Assumptions live here. *)
From Coq Require Import ZArith List Bool String.
From BNP Require Import Base.Prims Model.C17 Proofs.C17.
Import ListNotations.
Open Scope Z_scope.

(* T2: fetching a whole contig through the index arithmetic returns the sequence —
   every sequence, every line width >= 1, LF or CRLF line ends, whatever surrounds the record
   in the file and whatever is in the unread part of the buffer. *)
Theorem C17_fetch_contig :
  forall (w : Z) (eol fill seq pre post name : list Z),
    1 <= w -> seq <> [] ->
    fetch_contig fill {| i_name := name; i_rlen := len seq; i_offset := len pre; i_lenc := w; i_lenb := w + len eol |}
                 (pre ++ wrap w eol seq ++ post) = seq.
Proof. exact fetch_contig_whole. Qed.
Print Assumptions C17_fetch_contig.

(* T3: fetching [a,b) returns exactly seq[a:b] — for every width and wherever a and b fall
   relative to line breaks (LF files). *)
Theorem C17_fetch_interval :
  forall (w : Z) (seq pre post name : list Z) (rl a b : Z),
    1 <= w -> 0 <= a -> a <= b -> b <= len seq ->
    fetch_interval {| i_name := name; i_rlen := rl; i_offset := len pre; i_lenc := w; i_lenb := w + 1 |}
                   (pre ++ wrap w [10] seq ++ post) a b = slice a b seq.
Proof. exact fetch_interval_substring. Qed.
Print Assumptions C17_fetch_interval.

(* T1+T2+T3 on whole files: for every FASTA file that is the layout of a list of records, the index
   the format defines (spec_index) has, for record k, the true name and sequence length, and random
   access through that row returns the record's sequence / substrings. *)
Theorem C17_file_level :
  forall eol fill rs pre k r,
    nth_error rs k = Some r -> rec_ok r ->
    exists ix, nth_error (spec_index_from (len pre) eol rs) k = Some ix
      /\ i_rlen ix = len (r_seq r) /\ i_name ix = r_name r
      /\ fetch_contig fill ix (pre ++ layout eol rs) = r_seq r
      /\ (eol = [10] -> forall a b, 0 <= a -> a <= b -> b <= len (r_seq r) ->
            fetch_interval ix (pre ++ layout eol rs) a b = slice a b (r_seq r)).
Proof. exact spec_index_nth. Qed.
Print Assumptions C17_file_level.

(* T4: the reported contig length is the sequence length column of the index. *)
Theorem C17_contig_length : forall ix, contig_length ix = i_rlen ix.
Proof. exact (fun ix => eq_refl). Qed.
Print Assumptions C17_contig_length.

(* the pinned code reported bases-per-line instead: refuted by a two-line record (history; fixed in /repo) *)
Theorem C17_contig_length_pinned_refuted :
  exists ix, contig_length_pinned ix <> i_rlen ix.
Proof. exists {| i_name := []; i_rlen := 12; i_offset := 11; i_lenc := 5; i_lenb := 6 |}. discriminate. Qed.
Print Assumptions C17_contig_length_pinned_refuted.

(* non-vacuity: a concrete three-line record in the middle of a file meets the hypotheses, and the
   executable model really returns the substring across two line breaks *)
Example C17_nonvacuous :
  let seq := unhex "41434754414347544143"%string in      (* ACGTACGTAC, width 4 *)
  let pre := unhex "3e610a"%string in let post := unhex "3e620a41410a"%string in
  fetch_interval {| i_name := []; i_rlen := 10; i_offset := 3; i_lenc := 4; i_lenb := 5 |}
                 (pre ++ wrap 4 [10] seq ++ post) 3 9 = slice 3 9 seq
  /\ fetch_contig [] {| i_name := []; i_rlen := 10; i_offset := 3; i_lenc := 4; i_lenb := 5 |}
                 (pre ++ wrap 4 [10] seq ++ post) = seq.
Proof. vm_compute. split; reflexivity. Qed.

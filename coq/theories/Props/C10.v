(* Props/C10.v — the property theorems for C10 (genome-wide operations respect chromosome boundaries).
   Only statements, `exact <lemma>` and Print Assumptions live here.

   Vocabulary (Model/C10.v, Proofs/C10.v, Proofs/C10_b.v):
     szs            sizes of the included chromosomes, genome order; chromosome = index into szs
     nonneg szs     every size >= 0
     entry_placed szs e   0 <= chr < #chromosomes, 0 <= start < size(chr), 0 <= stop <= size(chr)
     entry_wf szs e       entry_placed and start <= stop
     cs_le a b            chr a < chr b, or same chromosome and start a <= start b   (table sorted in genome order)
     spec_*         "for each chromosome the single-contig kernel on that chromosome's entries alone"
     model_*        the code's algorithm in concatenated coordinates *)
From Coq Require Import ZArith List Bool Permutation Sorted Lia.
From BNP Require Import Base.Prims Model.C10 Proofs.C10 Proofs.C10_b Proofs.C10_c Gen.C10 Bridge.C10.
Import ListNotations.
Open Scope Z_scope.

(* T1  per-chromosome <-> concatenated coordinates is a bijection on valid positions, and a position
   at or beyond the chromosome's size is refused. *)
Theorem C10_offset_bijection : forall szs, nonneg szs ->
  (forall c p, 0 <= c < len szs -> 0 <= p < size_of szs c ->
     exists g, from_local szs c p = Some g /\ 0 <= g < total szs /\ to_local szs g = (c, p))
  /\ (forall g, 0 <= g < total szs ->
        let '(c, p) := to_local szs g in
        0 <= c < len szs /\ 0 <= p < size_of szs c /\ from_local szs c p = Some g)
  /\ (forall c p, size_of szs c <= p -> from_local szs c p = None).
Proof. exact offset_bijection. Qed.
Print Assumptions C10_offset_bijection.

(* T2  the genome-wide pileup / mask, cut at the chromosome offsets, is for every chromosome the
   single-contig pileup / mask of that chromosome's intervals alone — any number of chromosomes, any
   interval table in any order, chromosomes without intervals and intervals that end exactly at a
   chromosome end next to one starting at 0 included. *)
Theorem C10_pileup_local : forall szs es, nonneg szs -> Forall (entry_placed szs) es ->
  model_pileup szs es = RArrays (spec_pileup szs es).
Proof. exact pileup_local. Qed.
Print Assumptions C10_pileup_local.
Theorem C10_mask_local : forall szs es, nonneg szs -> Forall (entry_placed szs) es ->
  model_mask szs es = RArrays (spec_mask szs es).
Proof. exact mask_local. Qed.
Print Assumptions C10_mask_local.

(* ... and the hypothesis 0 <= start is needed by the pinned bounds checks: they let a negative start
   through and it is counted on the previous chromosome.  With the check of fix-2 it is refused. *)
Theorem C10_pileup_negative_start_refuted :
  exists szs es, nonneg szs /\ check_bounds_gen false szs es = None
    /\ split_chroms szs (pileup1 (total szs) (ivs_of (globalise szs es))) <> spec_pileup szs es.
Proof. exact pileup_negative_start_refuted. Qed.
Print Assumptions C10_pileup_negative_start_refuted.
Theorem C10_negative_start_refused_when_checked : forall szs es,
  (exists e, In e es /\ e_start e < 0) -> check_bounds_gen true szs es <> None.
Proof. exact negative_start_refused_when_checked. Qed.
Print Assumptions C10_negative_start_refused_when_checked.

(* T3  merging (any distance d >= 0) with the repaired algorithm — global coordinates with the chromosomes
   moved d+1 further apart — gives for every chromosome exactly the single-contig merge of its own
   intervals: nothing is fused across a boundary, chromosomes without intervals contribute nothing. *)
Theorem C10_merged_local : forall szs us d es, nonneg szs -> 0 <= d ->
  Forall (entry_wf szs) es -> StronglySorted cs_le es ->
  model_merged_fixed szs us d es = RIvs (map triple (spec_merged szs d es)).
Proof. exact merged_fixed_local. Qed.
Print Assumptions C10_merged_local.

(* the code at the pinned commit has this property only on a sub-class: distance > 0, no chromosome name with '_'
   (us = all false), and every chromosome carrying at least one interval *)
Theorem C10_merged_pinned_partial : forall szs us d es, 0 < d ->
  length us = length szs -> Forall (fun b => b = false) us -> (1 <= length szs)%nat ->
  StronglySorted cs_le es -> Forall (fun e => 0 <= e_chr e < len szs) es ->
  (forall c, 0 <= c < len szs -> on_chr es c <> []) ->
  model_merged_pinned szs us d es = RIvs (map triple (spec_merged szs d es)).
Proof. exact merged_pinned_partial. Qed.
Print Assumptions C10_merged_pinned_partial.
(* ... and not beyond it *)
Theorem C10_merged_pinned_refuted :
  exists szs us d es, valid_sorted_input szs es /\ 0 <= d
    /\ model_merged_pinned szs us d es <> RIvs (map triple (spec_merged szs d es)).
Proof. exact merged_pinned_refuted. Qed.
Print Assumptions C10_merged_pinned_refuted.
Theorem C10_merged_pinned_distance_refuted :
  exists szs us es, valid_sorted_input szs es
    /\ model_merged_pinned szs us 1 es <> RIvs (map triple (spec_merged szs 1 es)).
Proof. exact merged_pinned_distance_refuted. Qed.
Print Assumptions C10_merged_pinned_distance_refuted.
Theorem C10_geo_merge_pinned_refuted :
  exists szs d es, valid_sorted_input szs es /\ 0 <= d
    /\ model_geo_merge_pinned szs d es <> RIvs (map triple (spec_merged szs d es)).
Proof. exact geo_merge_pinned_refuted. Qed.
Print Assumptions C10_geo_merge_pinned_refuted.
Theorem C10_geo_merge_pinned_silent_refuted :
  exists szs es l, valid_sorted_input szs es /\ model_geo_merge_pinned szs 0 es = RIvs l
    /\ l <> map triple (spec_merged szs 0 es).
Proof. exact geo_merge_pinned_silent_refuted. Qed.
Print Assumptions C10_geo_merge_pinned_silent_refuted.

(* T4  clip / extended_to_size / windows use the size of the row's own chromosome; the result lies on it *)
Theorem C10_rowwise_own_chromosome : forall szs es,
  model_clip szs es = spec_clip szs es
  /\ (forall n, model_extend szs n es = spec_extend szs n es)
  /\ (forall l r, model_windows szs l r es = spec_windows szs l r es)
  /\ (forall e, In e (spec_clip szs es) -> 0 <= e_start e /\ e_stop e <= size_of szs (e_chr e))
  /\ (forall n e, 0 <= n -> In e es -> 0 <= e_start e -> e_stop e <= size_of szs (e_chr e) ->
        let e' := extend1 n (size_of szs (e_chr e)) e in 0 <= e_start e' /\ e_stop e' <= size_of szs (e_chr e)).
Proof. exact rowwise_own_chromosome. Qed.
Print Assumptions C10_rowwise_own_chromosome.
Theorem C10_window : forall size l r p e, 0 <= l -> 1 <= r -> 0 <= p < size -> e_start e = p ->
  let w := clip1 size (set_se e (e_start e - l) (e_start e + r)) in
  0 <= e_start w <= p /\ p < e_stop w <= size /\ e_chr w = e_chr e
  /\ (l <= p -> p + r <= size -> e_start w = p - l /\ e_stop w = p + r).
Proof. exact window_spec. Qed.
Print Assumptions C10_window.

(* T5  sorted(): the same rows, in genome order, then start, then stop *)
Theorem C10_sorted : forall es,
  Permutation (model_sorted es) es /\ sorted_by triple (model_sorted es) = true.
Proof. exact sorted_spec. Qed.
Print Assumptions C10_sorted.
Theorem C10_loc_sorted : forall es,
  Permutation (model_loc_sorted es) es /\ sorted_by (fun e => (e_chr e, e_start e, 0)) (model_loc_sorted es) = true.
Proof. exact loc_sorted_spec. Qed.
Print Assumptions C10_loc_sorted.

(* T6  values under intervals: a slice of the concatenated array at offset+start .. offset+stop is the slice
   start .. stop of that chromosome's own array (reversed on '-'), whatever the neighbours hold *)
Theorem C10_extract_local : forall szs vals stranded es, szs = map len vals -> Forall (entry_wf szs) es ->
  model_extract szs vals stranded es = RRows (spec_extract vals stranded es).
Proof. exact extract_local. Qed.
Print Assumptions C10_extract_local.
(* sequence under intervals: per-chromosome slice, reverse-complemented on '-' — except that the pinned strand
   selection fails when there are as many intervals as bases (every interval of length 1) *)
Theorem C10_seq_partial : forall vals stranded es,
  (stranded = false \/ len es < len (concat (map (fun e => slice (e_start e) (e_stop e) (nthd [] vals (e_chr e))) es))) ->
  model_seq vals stranded es = RRows (spec_seq vals stranded es).
Proof. exact seq_partial. Qed.
Print Assumptions C10_seq_partial.
Theorem C10_seq_refuted : exists vals es, model_seq vals true es <> RRows (spec_seq vals true es).
Proof. exact seq_refuted. Qed.
Print Assumptions C10_seq_refuted.

(* get_location *)
Theorem C10_location_pinned_partial : forall st w e, 0 <= w <= 2 -> (st = true \/ w <> 1) ->
  model_location_pinned st w e = spec_location st w e.
Proof. exact location_pinned_partial. Qed.
Print Assumptions C10_location_pinned_partial.
Theorem C10_location_pinned_refuted : exists e, model_location_pinned false 1 e <> spec_location false 1 e.
Proof. exact location_pinned_refuted. Qed.
Print Assumptions C10_location_pinned_refuted.
Theorem C10_location_fixed : forall st w e, 0 <= w <= 2 -> model_location_fixed st w e = spec_location st w e.
Proof. exact location_fixed_spec. Qed.
Print Assumptions C10_location_fixed.

(* Source tie: the arithmetic regenerated from /repo on this run (Gen/C10.v, written by translate/run.py through
   translate/gen_c10.py from global_offset.py, genomic_intervals.py, geometry.py and arithmetics/intervals.py) is the
   arithmetic of the model the theorems above are about: (a) every generated definition equals the model's named
   helper, (b) the model functions are those helpers put together. *)
Theorem C10_source_tie :
  (* (a) GlobalOffset: from_local_coordinates, to_local_coordinates, to_local_interval, start_ends_from_intervals *)
  (forall size o p a g s t,
      gen_from_local_reject size p = m_from_local_reject size p
      /\ gen_from_local_value o p = m_from_local_value o p
      /\ gen_to_local_idx m_searchsorted a g = m_to_local_idx (searchsorted_right a g)
      /\ gen_to_local_pos o g = m_to_local_pos o g
      /\ gen_tli_idx m_searchsorted a g = m_to_local_idx (searchsorted_right a g)
      /\ gen_tli_start o g = m_to_local_pos o g /\ gen_tli_stop o g = m_to_local_pos o g
      /\ gen_tli_assert o size g = m_stop_fits size (m_to_local_pos o g)
      /\ gen_se_check size s t = m_entry_check true size s t
      /\ gen_se_start o s = m_global o s /\ gen_se_stop o t = m_global o t)
  (* (a) get_windows, clip (GenomicIntervalsFull and Geometry), extend_to_size, get_location *)
  /\ (forall f w p l r size s t n fwd is_start,
        (gen_win_flank_l f = m_flank_l f /\ gen_win_flank_r f = m_flank_r f)
        /\ (gen_win_size_l w = m_wsize_l w /\ gen_win_size_r w = m_wsize_r w)
        /\ (gen_win_start p l r = m_win_start p l /\ gen_win_stop p l r = m_win_stop p r)
        /\ (gen_clip_start size s = m_clip_start s /\ gen_clip_stop size t = m_clip_stop size t)
        /\ (gen_geo_clip_start size s = m_geo_clip_start size s /\ gen_geo_clip_stop size t = m_geo_clip_stop size t)
        /\ (gen_extend_start fwd s t n size = m_extend_start fwd s t n
            /\ gen_extend_stop fwd s t n size = m_extend_stop fwd s t n size)
        /\ gen_loc_unstranded is_start s t = m_loc_unstranded is_start s t
        /\ gen_loc_stranded is_start fwd s t = m_loc_stranded is_start fwd s t
        /\ gen_loc_center s t = m_loc_center s t)
  (* (a) merged / Geometry.merge_intervals: chromosome index * (distance + 1) on top of the offset *)
  /\ (forall x o c d,
        gen_merged_assert d = negb (d <? 0)
        /\ (gen_merged_fwd_start (m_global o x) c d = x + m_shift o c d
            /\ gen_merged_fwd_stop (m_global o x) c d = x + m_shift o c d
            /\ gen_merged_shift o c d = m_shift o c d
            /\ gen_merged_back_start x o c d = x - m_shift o c d
            /\ gen_merged_back_stop x o c d = x - m_shift o c d)
        /\ (gen_geo_merged_fwd_start (m_global o x) c d = x + m_shift o c d
            /\ gen_geo_merged_fwd_stop (m_global o x) c d = x + m_shift o c d
            /\ gen_geo_merged_shift o c d = m_shift o c d
            /\ gen_geo_merged_back_start x o c d = x - m_shift o c d
            /\ gen_geo_merged_back_stop x o c d = x - m_shift o c d))
  (* (b) the model functions are these helpers put together *)
  /\ (forall szs c p, from_local szs c p
        = if m_from_local_reject (size_of szs c) p then None else Some (m_from_local_value (off szs c) p))
  /\ (forall szs g, to_local szs g
        = let idx := m_to_local_idx (searchsorted_right (offsets szs) g) in (idx, m_to_local_pos (off szs idx) g))
  /\ (forall neg szs es, check_bounds_gen neg szs es = None
        <-> Forall (fun e => m_entry_check neg (size_of szs (e_chr e)) (e_start e) (e_stop e) = 0) es)
  /\ checks_negative_start = true
  /\ (forall szs es, globalise szs es
        = map (fun e => set_se e (m_global (off szs (e_chr e)) (e_start e)) (m_global (off szs (e_chr e)) (e_stop e))) es)
  /\ (forall szs es, model_clip szs es
        = map (fun e => set_se e (m_clip_start (e_start e)) (m_clip_stop (size_of szs (e_chr e)) (e_stop e))) es)
  /\ (forall szs n es, model_extend szs n es
        = map (fun e => set_se e (m_extend_start (e_fwd e) (e_start e) (e_stop e) n)
                                 (m_extend_stop (e_fwd e) (e_start e) (e_stop e) n (size_of szs (e_chr e)))) es)
  /\ (forall szs l r es, model_windows szs l r es
        = map (fun e => set_se e (m_clip_start (m_win_start (e_start e) l))
                                 (m_clip_stop (size_of szs (e_chr e)) (m_win_stop (e_start e) r))) es)
  /\ (forall st w e, model_location st w e
        = if (w =? 0) || (w =? 1)
          then (if negb st then m_loc_unstranded (w =? 0) (e_start e) (e_stop e)
                else m_loc_stranded (w =? 0) (e_fwd e) (e_start e) (e_stop e))
          else m_loc_center (e_start e) (e_stop e))
  /\ (forall szs d c, gap_shift szs d c = m_shift (off szs c) c d)
  /\ (forall szs us d es, model_merged szs us d es = model_merged_fixed szs us d es)
  /\ (forall szs d es, model_geo_merge szs d es = model_merged_fixed szs [] d es).
Proof.
  exact (conj (fun size o p a g s t =>
           conj (b_from_local_reject size p) (conj (b_from_local_value o p) (conj (b_to_local_idx a g)
           (conj (b_to_local_pos o g) (conj (b_tli_idx a g) (conj (b_tli_start o g) (conj (b_tli_stop o g)
           (conj (b_tli_assert o size g) (conj (b_se_check size s t) (conj (b_se_start o s) (b_se_stop o t)))))))))))
        (conj (fun f w p l r size s t n fwd is_start =>
           conj (b_win_flank f) (conj (b_win_size w) (conj (b_win_iv p l r) (conj (b_clip size s t)
           (conj (b_geo_clip size s t) (conj (b_extend fwd s t n size) (conj (b_loc_unstranded is_start s t)
           (conj (b_loc_stranded is_start fwd s t) (b_loc_center s t)))))))))
        (conj (fun x o c d => conj (b_merged_assert d) (conj (b_merged x o c d) (b_geo_merged x o c d)))
        (conj l_from_local (conj l_to_local (conj l_check_bounds (conj l_checks_negative (conj l_globalise
        (conj l_clip (conj l_extend (conj l_windows (conj l_location (conj l_gap_shift (conj l_merged l_geo_merge)))))))))))))).
Qed.
Print Assumptions C10_source_tie.

(* non-vacuity: three chromosomes (the middle one without intervals), an interval ending exactly at the end of
   the first and one starting at 0 of the last; the hypotheses hold and the executable model keeps them apart *)
Example C10_nonvacuous :
  let szs := [3; 2; 4] in
  let es := [mk 0 1 3; mk 2 0 2; mk 2 2 4] in
  nonneg szs /\ Forall (entry_wf szs) es /\ StronglySorted cs_le es
  /\ model_pileup szs es = RArrays [[0; 1; 1]; [0; 0]; [1; 1; 1; 1]]
  /\ model_merged_fixed szs [] 0 es = RIvs [(0, 1, 3); (2, 0, 4)]
  /\ model_merged_fixed szs [] 2 es = RIvs [(0, 1, 3); (2, 0, 4)]
  /\ to_local szs 3 = (1, 0) /\ from_local szs 0 3 = None.
Proof.
  cbv zeta. split; [repeat constructor; lia|]. split.
  { repeat constructor; unfold size_of, nthZ, len; simpl; lia. }
  split; [repeat constructor; unfold cs_le; simpl; lia|].
  vm_compute. repeat split; reflexivity.
Qed.

(* Props/C10.v — the property theorems for C10 (genome-wide operations respect chromosome boundaries).
   Only statements, `exact <lemma>` and Print Assumptions live here.

   Vocabulary (Model/C10.v, Proofs/C10.v, Proofs/C10_b.v):
     szs            sizes of the included chromosomes, genome order; chromosome = index into szs
     nonneg szs     every size >= 0
     entry_placed szs e   0 <= chr < #chromosomes, 0 <= start < size(chr), 0 <= stop <= size(chr)
     entry_wf szs e       entry_placed and start <= stop
     cs_le a b            chr a < chr b, or same chromosome and start a <= start b   (table sorted in genome order)
     spec_*         "for each chromosome the single-contig kernel on that chromosome's entries alone"
     model_*        the code's algorithm in concatenated coordinates *)
From Coq Require Import ZArith List Bool Permutation Sorted Lia.
From BNP Require Import Base.Prims Model.C10 Corr.C10 Proofs.C10 Proofs.C10_b Proofs.C10_c Proofs.C10_d Proofs.C10_e Proofs.C10_f Proofs.C10_g Gen.C10 Bridge.C10.
Import ListNotations.
Open Scope Z_scope.

(* T1  per-chromosome <-> concatenated coordinates is a bijection on valid positions, and a position
   at or beyond the chromosome's size is refused. *)
Theorem C10_offset_bijection : forall szs, nonneg szs ->
  (forall c p, 0 <= c < len szs -> 0 <= p < size_of szs c ->
     exists g, from_local szs c p = Some g /\ 0 <= g < total szs /\ to_local szs g = (c, p))
  /\ (forall g, 0 <= g < total szs ->
        let '(c, p) := to_local szs g in
        0 <= c < len szs /\ 0 <= p < size_of szs c /\ from_local szs c p = Some g)
  /\ (forall c p, size_of szs c <= p -> from_local szs c p = None).
Proof. exact offset_bijection. Qed.
Print Assumptions C10_offset_bijection.

(* T1'  ... and on whole coordinate lists: enumerating (chromosome, position) in genome order and converting gives
   0,1,2,...,total-1; converting those back gives the enumeration; the position `size` of every chromosome is refused *)
Theorem C10_coords_lists : forall szs, nonneg szs ->
  model_coords szs = RCoords (arange (total szs)) (enum_positions szs) (map (fun _ => true) szs).
Proof. exact coords_spec. Qed.
Print Assumptions C10_coords_lists.

(* T0  ignored chromosomes (GenomeContext.mask_data): exactly the entries of included chromosomes survive, in order,
   re-coded to the rank of their chromosome among the included ones; under that code an entry is measured against its
   own chromosome's size, the code maps back to the chromosome, and entries of ignored chromosomes are dropped *)
Theorem C10_mask_data : forall (f : chrom -> bool) g es d, let fl := incl_flags f g in
  visible fl es = map (fun e => set_chr e (code_of fl (e_chr e))) (filter (fun e => nthd false fl (e_chr e)) es)
  /\ (forall k, 0 <= k < len g -> f (nthd d g k) = true ->
        size_of (ctx_sizes f g) (code_of fl k) = c_size (nthd d g k)
        /\ uncode fl (code_of fl k) = k
        /\ 0 <= code_of fl k < len (ctx_sizes f g))
  /\ (forall k, f (nthd d g k) = false -> 0 <= k < len g -> nthd false fl k = false).
Proof. exact visible_spec. Qed.
Print Assumptions C10_mask_data.

(* T0'  Genome.with_ignored_added, any number of times after from_dict: the chromosomes of the resulting genome are exactly
   those of the original dict that the filter keeps and that were never added as ignored — same order, same sizes;
   an added name (existing or new) is never a chromosome, and a name the filter rejected does not come back.  Every
   operation of the model reads the context only through these, so it equals the operation on the genome built
   directly with that ignored set. *)
Theorem C10_with_ignored_added : forall f g steps,
  let x := ctx_steps f g steps in
  filter (gx_keep x) (gx_dict x) = filter (fun c => keeps f c && never_added steps (c_name c)) g
  /\ ctx_sizes (gx_keep x) (gx_dict x) = ctx_sizes (fun c => keeps f c && never_added steps (c_name c)) g
  /\ ctx_us (gx_keep x) (gx_dict x) = ctx_us (fun c => keeps f c && never_added steps (c_name c)) g
  /\ (forall c, In c g -> gx_keep x c = keeps f c && never_added steps (c_name c))
  /\ (forall c s, In s steps -> In (c_name c) s -> gx_keep x c = false).
Proof. exact with_ignored_added_spec. Qed.
Print Assumptions C10_with_ignored_added.
(* a with_ignored_added that forgets the previously ignored names is a different genome *)
Theorem C10_with_ignored_added_dropping_refuted :
  exists f g a, let x := ctx_from_dict f g in
    filter (gx_keep {| gx_dict := dict_update (gx_dict x) a; gx_ign := a |}) (dict_update (gx_dict x) a)
    <> filter (gx_keep (ctx_with_ignored_added x a)) (gx_dict (ctx_with_ignored_added x a)).
Proof. exact with_ignored_added_dropping_refuted. Qed.
Print Assumptions C10_with_ignored_added_dropping_refuted.

(* T2  the genome-wide pileup / mask, cut at the chromosome offsets, is for every chromosome the
   single-contig pileup / mask of that chromosome's intervals alone — any number of chromosomes, any
   interval table in any order, chromosomes without intervals and intervals that end exactly at a
   chromosome end next to one starting at 0 included. *)
Theorem C10_pileup_local : forall szs es, nonneg szs -> Forall (entry_placed szs) es ->
  model_pileup szs es = RArrays (spec_pileup szs es).
Proof. exact pileup_local. Qed.
Print Assumptions C10_pileup_local.
Theorem C10_mask_local : forall szs es, nonneg szs -> Forall (entry_placed szs) es ->
  model_mask szs es = RArrays (spec_mask szs es).
Proof. exact mask_local. Qed.
Print Assumptions C10_mask_local.

(* T2r  the BedGraph / Interval view of a genome-wide array (GenomicArrayGlobal.get_data(), behind
   GenomicIntervals.from_track(track) and GenomicSequence[mask]), for the pileup, the mask and ~mask: the global track
   cut at the offsets is chromosome by chromosome the single-contig result on that chromosome's own entries, so the rows
   are, for EVERY chromosome (also one without entries: one run of 0; also one covered completely), the maximal runs
   of its own array — any number of chromosomes, any sizes *)
Theorem C10_track_local : forall k szs es, nonneg szs -> Forall (entry_placed szs) es ->
  split_chroms szs (global_track k szs es) = spec_track k szs es.
Proof. exact track_local. Qed.
Print Assumptions C10_track_local.
Theorem C10_runs_local : forall k szs es, nonneg szs -> Forall (entry_placed szs) es ->
  model_runs k szs es = RRows (spec_runs k szs es).
Proof. exact runs_local. Qed.
Print Assumptions C10_runs_local.
(* ... and no chromosome's part depends on the entries of another chromosome *)
Theorem C10_runs_depend_on_own_entries : forall k szs es es', nonneg szs ->
  Forall (entry_placed szs) es -> Forall (entry_placed szs) es' ->
  (forall c, 0 <= c < len szs -> on_chr es c = on_chr es' c) ->
  forall c, 0 <= c < len szs ->
  nthd [] (split_chroms szs (global_track k szs es)) c = nthd [] (split_chroms szs (global_track k szs es')) c.
Proof. exact runs_depend_on_own_entries. Qed.
Print Assumptions C10_runs_depend_on_own_entries.
(* non-vacuity: {3, 2, 4}, an interval to the end of chromosome 0 and one from position 0 of chromosome 2; chromosome 1
   has no entries and lies inside one run of zeros of the concatenated pileup — it still gets its row (1, 0, 2, 0) *)
Example C10_runs_nonvacuous :
  let szs := [3; 2; 4] in let es := [mk 0 0 2; mk 2 1 4] in
  nonneg szs /\ Forall (entry_placed szs) es
  /\ global_track TPileup szs es = [1; 1; 0; 0; 0; 0; 1; 1; 1]
  /\ model_runs TPileup szs es = RRows [[0; 0; 2; 1]; [0; 2; 3; 0]; [1; 0; 2; 0]; [2; 0; 1; 0]; [2; 1; 4; 1]]
  /\ model_runs TNotMask szs es = RRows [[0; 2; 3; 1]; [1; 0; 2; 1]; [2; 0; 1; 1]]
  /\ model_runs TMask [3; 2; 4] [mk 0 1 3; mk 1 0 2; mk 2 0 1] = RRows [[0; 1; 3; 1]; [1; 0; 2; 1]; [2; 0; 1; 1]].
Proof.
  cbv zeta. split; [repeat constructor; lia|]. split.
  { repeat constructor; unfold size_of, nthZ, len; simpl; lia. }
  vm_compute. repeat split; reflexivity.
Qed.

(* ... and the hypothesis 0 <= start is needed by the pinned bounds checks: they let a negative start
   through and it is counted on the previous chromosome.  With the check of fix-2 it is refused. *)
Theorem C10_pileup_negative_start_refuted :
  exists szs es, nonneg szs /\ check_bounds_gen false szs es = None
    /\ split_chroms szs (pileup1 (total szs) (ivs_of (globalise szs es))) <> spec_pileup szs es.
Proof. exact pileup_negative_start_refuted. Qed.
Print Assumptions C10_pileup_negative_start_refuted.
Theorem C10_negative_start_refused_when_checked : forall szs es,
  (exists e, In e es /\ e_start e < 0) -> check_bounds_gen true szs es <> None.
Proof. exact negative_start_refused_when_checked. Qed.
Print Assumptions C10_negative_start_refused_when_checked.

(* T3  merged(d) and Geometry.merge_intervals(.., d) as they are at /repo HEAD — global coordinates with the
   chromosomes moved d+1 further apart — give, for every d >= 0, any number of chromosomes (with or without intervals,
   whatever their names) and every table sorted by (chromosome, start), for every chromosome exactly the single-contig
   merge of its own intervals: nothing is fused across a boundary. *)
Theorem C10_merged_local : forall szs us d es, nonneg szs -> 0 <= d ->
  Forall (entry_wf szs) es -> StronglySorted cs_le es ->
  model_merged szs us d es = RIvs (map triple (spec_merged szs d es)).
Proof. exact merged_local. Qed.
Print Assumptions C10_merged_local.
Theorem C10_geo_merge_local : forall szs d es, nonneg szs -> 0 <= d ->
  Forall (entry_wf szs) es -> StronglySorted cs_le es ->
  model_geo_merge szs d es = RIvs (map triple (spec_merged szs d es)).
Proof. exact geo_merge_local. Qed.
Print Assumptions C10_geo_merge_local.

(* History: the code before fix-1 (model_*_pinned, kept in Model/C10.v) had this only on a sub-class ... *)
Theorem C10_merged_pinned_partial : forall szs us d es, 0 < d ->
  length us = length szs -> Forall (fun b => b = false) us -> (1 <= length szs)%nat ->
  StronglySorted cs_le es -> Forall (fun e => 0 <= e_chr e < len szs) es ->
  (forall c, 0 <= c < len szs -> on_chr es c <> []) ->
  model_merged_pinned szs us d es = RIvs (map triple (spec_merged szs d es)).
Proof. exact merged_pinned_partial. Qed.
Print Assumptions C10_merged_pinned_partial.
(* ... and not beyond it *)
Theorem C10_merged_pinned_refuted :
  exists szs us d es, valid_sorted_input szs es /\ 0 <= d
    /\ model_merged_pinned szs us d es <> RIvs (map triple (spec_merged szs d es)).
Proof. exact merged_pinned_refuted. Qed.
Print Assumptions C10_merged_pinned_refuted.
Theorem C10_merged_pinned_distance_refuted :
  exists szs us es, valid_sorted_input szs es
    /\ model_merged_pinned szs us 1 es <> RIvs (map triple (spec_merged szs 1 es)).
Proof. exact merged_pinned_distance_refuted. Qed.
Print Assumptions C10_merged_pinned_distance_refuted.
Theorem C10_geo_merge_pinned_refuted :
  exists szs d es, valid_sorted_input szs es /\ 0 <= d
    /\ model_geo_merge_pinned szs d es <> RIvs (map triple (spec_merged szs d es)).
Proof. exact geo_merge_pinned_refuted. Qed.
Print Assumptions C10_geo_merge_pinned_refuted.
Theorem C10_geo_merge_pinned_silent_refuted :
  exists szs es l, valid_sorted_input szs es /\ model_geo_merge_pinned szs 0 es = RIvs l
    /\ l <> map triple (spec_merged szs 0 es).
Proof. exact geo_merge_pinned_silent_refuted. Qed.
Print Assumptions C10_geo_merge_pinned_silent_refuted.

(* T4  clip / windows / extended_to_size.  The single-contig clip (arithmetics.clip since fc449e4) keeps both ends in
   [0,size]: clip2.  Geometry.clip is that, with the row's own chromosome size, for every interval. *)
Theorem C10_geo_clip : forall szs es, model_geo_clip szs es = spec_clip szs es.
Proof. exact geo_clip_spec. Qed.
Print Assumptions C10_geo_clip.
Theorem C10_clip_meaning : forall size e, 0 <= size ->
  let w := clip2 size e in
  0 <= e_start w <= size /\ 0 <= e_stop w <= size /\ e_chr w = e_chr e
  /\ (e_start e <= e_stop e -> e_start w <= e_stop w)
  /\ (forall x, e_start w <= x < e_stop w <-> (e_start e <= x < e_stop e /\ 0 <= x < size)).
Proof. exact clip2_meaning. Qed.
Print Assumptions C10_clip_meaning.
(* GenomicIntervalsFull.clip is the single-contig clip for every interval that reaches its chromosome's range
   (start <= size, 0 <= stop) — in particular for everything that lies on or overlaps the chromosome ... *)
Theorem C10_clip_partial : forall szs es, nonneg szs ->
  Forall (fun e => e_start e <= size_of szs (e_chr e) /\ 0 <= e_stop e) es ->
  model_clip szs es = spec_clip szs es.
Proof. exact clip_partial. Qed.
Print Assumptions C10_clip_partial.
(* ... but its one-sided formula turns an interval lying entirely beyond the end into an inverted one *)
Theorem C10_clip_one_sided_refuted : exists size e, 0 <= size /\ e_start e <= e_stop e /\ clip1 size e <> clip2 size e
  /\ e_stop (clip1 size e) < e_start (clip1 size e).
Proof. exact clip_one_sided_refuted. Qed.
Print Assumptions C10_clip_one_sided_refuted.
(* get_windows around locations that lie on their chromosome: the single-contig clip of [p-l, p+r), own size *)
Theorem C10_windows : forall szs l r es, nonneg szs -> 0 <= l -> 0 <= r ->
  Forall (fun e => 0 <= e_start e < size_of szs (e_chr e)) es ->
  model_windows szs l r es = spec_windows szs l r es.
Proof. exact windows_spec. Qed.
Print Assumptions C10_windows.
Theorem C10_extend_own_chromosome : forall szs es,
  (forall n, model_extend szs n es = spec_extend szs n es)
  /\ (forall n e, 0 <= n -> In e es -> 0 <= e_start e -> e_stop e <= size_of szs (e_chr e) ->
        let e' := extend1 n (size_of szs (e_chr e)) e in 0 <= e_start e' /\ e_stop e' <= size_of szs (e_chr e)).
Proof. exact extend_own_chromosome. Qed.
Print Assumptions C10_extend_own_chromosome.
Theorem C10_window : forall size l r p e, 0 <= l -> 1 <= r -> 0 <= p < size -> e_start e = p ->
  let w := clip1 size (set_se e (e_start e - l) (e_start e + r)) in
  0 <= e_start w <= p /\ p < e_stop w <= size /\ e_chr w = e_chr e
  /\ (l <= p -> p + r <= size -> e_start w = p - l /\ e_stop w = p + r).
Proof. exact window_spec. Qed.
Print Assumptions C10_window.

(* T5  sorted(): the same rows, in genome order, then start, then stop *)
Theorem C10_sorted : forall es,
  Permutation (model_sorted es) es /\ sorted_by triple (model_sorted es) = true.
Proof. exact sorted_spec. Qed.
Print Assumptions C10_sorted.
Theorem C10_loc_sorted : forall es,
  Permutation (model_loc_sorted es) es /\ sorted_by (fun e => (e_chr e, e_start e, 0)) (model_loc_sorted es) = true.
Proof. exact loc_sorted_spec. Qed.
Print Assumptions C10_loc_sorted.

(* Geometry.sort (np.lexsort on the global stop, start; back through to_local_interval): for every table placed on the
   genome the result is the same rows, every row on its own chromosome again, in genome order, then start, then stop *)
Theorem C10_geo_sort : forall szs es, nonneg szs -> Forall (entry_placed szs) es ->
  exists out, model_geo_sort szs es = RIvs (map triple out)
    /\ Permutation out es /\ sorted_by triple out = true.
Proof. exact geo_sort_spec. Qed.
Print Assumptions C10_geo_sort.

(* T6  values under intervals: a slice of the concatenated array at offset+start .. offset+stop is the slice
   start .. stop of that chromosome's own array (reversed on '-'), whatever the neighbours hold *)
Theorem C10_extract_local : forall szs vals stranded es, szs = map len vals -> Forall (entry_wf szs) es ->
  model_extract szs vals stranded es = RRows (spec_extract vals stranded es).
Proof. exact extract_local. Qed.
Print Assumptions C10_extract_local.
(* IN FORCE.  Sequence under intervals: per-chromosome slice, reverse-complemented on '-', for EVERY interval set — any
   number of intervals, empty ones, every interval of length 1 (no size guard since the np.where repair
   notes/C14.fix-2.final.diff: GenomicSequence.extract_intervals hands np.where an explicit row mask) *)
Theorem C10_seq : forall vals stranded es, model_seq vals stranded es = RRows (spec_seq vals stranded es).
Proof. exact seq_full. Qed.
Print Assumptions C10_seq.
Example C10_seq_nonvacuous :
  model_seq [[65; 67; 71]] true [mk 0 0 1] = RRows [[65]]
  /\ model_seq [[65; 67; 71]; [84; 84]] true
       [ {| e_chr := 0; e_start := 1; e_stop := 2; e_fwd := false |}; mk 1 1 1;
         {| e_chr := 1; e_start := 0; e_stop := 1; e_fwd := false |} ] = RRows [[71]; []; [65]]
  /\ model_seq_pinned [[65; 67; 71]] true [mk 0 0 1] = RErr E_ATTR.
Proof. vm_compute. repeat split; reflexivity. Qed.
(* HISTORY — the code before that repair (column mask, npstructures broadcasts it only when mask.size < data.size): right
   unless there are at least as many intervals as bases, e.g. every interval of length 1 (former finding
   C10-seq-stranded-all-length-one) *)
Theorem C10_seq_pinned_partial : forall vals stranded es,
  (stranded = false \/ len es < len (concat (map (fun e => slice (e_start e) (e_stop e) (nthd [] vals (e_chr e))) es))) ->
  model_seq_pinned vals stranded es = RRows (spec_seq vals stranded es).
Proof. exact seq_pinned_partial. Qed.
Print Assumptions C10_seq_pinned_partial.
Theorem C10_seq_pinned_refuted : exists vals es, model_seq_pinned vals true es <> RRows (spec_seq vals true es).
Proof. exact seq_pinned_refuted. Qed.
Print Assumptions C10_seq_pinned_refuted.

(* get_location *)
Theorem C10_location_pinned_partial : forall st w e, 0 <= w <= 2 -> (st = true \/ w <> 1) ->
  model_location_pinned st w e = spec_location st w e.
Proof. exact location_pinned_partial. Qed.
Print Assumptions C10_location_pinned_partial.
Theorem C10_location_pinned_refuted : exists e, model_location_pinned false 1 e <> spec_location false 1 e.
Proof. exact location_pinned_refuted. Qed.
Print Assumptions C10_location_pinned_refuted.
Theorem C10_location_fixed : forall st w e, 0 <= w <= 2 -> model_location_fixed st w e = spec_location st w e.
Proof. exact location_fixed_spec. Qed.
Print Assumptions C10_location_fixed.

(* T7  programs: Genome.get_intervals(.., stranded) followed by any sequence of interval-producing operations (sorted,
   merged(d), clip, extended_to_size(n), [::-1], [mask], get_location(w).get_windows(..)).
   Every operation hands the strandedness of the table on — extended_to_size when it passes the flag
   (extend_keeps_strand; at HEAD it does not: notes/C10.fix-6.diff) ... *)
Theorem C10_strandedness_preserved : forall szs ps fl rows fl' rows',
  (extend_keeps_strand = true \/ fl = false \/ no_extend ps) ->
  model_steps szs (fl, rows) ps = inr (fl', rows') -> fl' = fl.
Proof. exact strandedness_preserved. Qed.
Print Assumptions C10_strandedness_preserved.
Theorem C10_strandedness_lost_refuted : exists szs rows n fl' rows',
  model_step_gen false szs (true, rows) (PExtend n) = inr (fl', rows') /\ fl' = false.
Proof. exact strandedness_lost_refuted. Qed.
Print Assumptions C10_strandedness_lost_refuted.
(* ... and therefore a program followed by a strand-aware consumer (array values, sequence, get_location) is the
   composition of the per-chromosome single-contig operations on a table that is as stranded as it was created: rows on
   '-' are reversed / reverse-complemented / located at their right end after any number of steps. *)
Theorem C10_prog_spec : forall szs vals st es ps k r, nonneg szs ->
  (extend_keeps_strand = true \/ st = false \/ no_extend ps) ->
  (k = CExtract -> szs = map len vals) ->
  spec_prog szs vals st es ps k = Some r -> model_prog szs vals st es ps k = r.
Proof. exact prog_spec. Qed.
Print Assumptions C10_prog_spec.
(* non-vacuity: sorted() then merged(1) then array values, two chromosomes, a '-' row first in the merged run of chr 1 *)
Example C10_prog_nonvacuous :
  let szs := [3; 4] in let vals := [[10; 11; 12]; [20; 21; 22; 23]] in
  let es := [ {| e_chr := 1; e_start := 2; e_stop := 4; e_fwd := true |};
              {| e_chr := 1; e_start := 0; e_stop := 2; e_fwd := false |}; mk 0 1 3 ] in
  spec_prog szs vals true es [PSorted; PMerged 1] CExtract = Some (RRows [[11; 12]; [23; 22; 21; 20]])
  /\ model_prog szs vals true es [PSorted; PMerged 1] CExtract = RRows [[11; 12]; [23; 22; 21; 20]].
Proof. vm_compute. split; reflexivity. Qed.

(* Link: for every well-formed case of every operation of the correspondence (Corr/C10.v) — sizes >= 0, start <= stop,
   Geometry only on included chromosomes, and per operation: merged on a (chromosome,start)-sorted table with d >= 0;
   GenomicIntervalsFull.clip on intervals reaching their chromosome's range; get_location where in {start,stop,center};
   windows around locations on their chromosome; array values as long as the chromosomes; sequence extraction on good
   tables (since round 6 with NO size guard: also all-length-1 stranded sets); programs without a flag-dropping extended_to_size — the implementation agreeing with the model implies that the
   property holds on that case.  Tables that reach outside a chromosome are covered: the model refuses them. *)
Theorem C10_model_ok_spec_ok : forall c, case_wf c -> model_ok c = true -> spec_ok c = true.
Proof. exact model_ok_spec_ok. Qed.
Print Assumptions C10_model_ok_spec_ok.

(* Source tie: the arithmetic regenerated from /repo on this run (Gen/C10.v, written by translate/run.py through
   translate/gen_c10.py from global_offset.py, genomic_intervals.py, geometry.py and arithmetics/intervals.py) is the
   arithmetic of the model the theorems above are about: (a) every generated definition equals the model's named
   helper, (b) the model functions are those helpers put together. *)
Theorem C10_source_tie :
  (* (a) GlobalOffset: from_local_coordinates, to_local_coordinates, to_local_interval, start_ends_from_intervals *)
  (forall size o p a g s t,
      gen_from_local_reject size p = m_from_local_reject size p
      /\ gen_from_local_value o p = m_from_local_value o p
      /\ gen_to_local_idx m_searchsorted a g = m_to_local_idx (searchsorted_right a g)
      /\ gen_to_local_pos o g = m_to_local_pos o g
      /\ gen_tli_idx m_searchsorted a g = m_to_local_idx (searchsorted_right a g)
      /\ gen_tli_start o g = m_to_local_pos o g /\ gen_tli_stop o g = m_to_local_pos o g
      /\ gen_tli_assert o size g = m_stop_fits size (m_to_local_pos o g)
      /\ gen_se_check size s t = m_entry_check true size s t
      /\ gen_se_start o s = m_global o s /\ gen_se_stop o t = m_global o t)
  (* (a) get_windows, clip (GenomicIntervalsFull and Geometry), extend_to_size, get_location *)
  /\ (forall f w p l r size s t n fwd is_start,
        (gen_win_flank_l f = m_flank_l f /\ gen_win_flank_r f = m_flank_r f)
        /\ (gen_win_size_l w = m_wsize_l w /\ gen_win_size_r w = m_wsize_r w)
        /\ (gen_win_start p l r = m_win_start p l /\ gen_win_stop p l r = m_win_stop p r)
        /\ (gen_clip_start size s = m_clip_start size s /\ gen_clip_stop size t = m_clip_stop size t)
        /\ (gen_geo_clip_start size s = m_geo_clip_start size s /\ gen_geo_clip_stop size t = m_geo_clip_stop size t)
        /\ (gen_extend_start fwd s t n size = m_extend_start fwd s t n
            /\ gen_extend_stop fwd s t n size = m_extend_stop fwd s t n size)
        /\ gen_loc_unstranded is_start s t = m_loc_unstranded is_start s t
        /\ gen_loc_stranded is_start fwd s t = m_loc_stranded is_start fwd s t
        /\ gen_loc_center s t = m_loc_center s t)
  (* (a) merged / Geometry.merge_intervals: chromosome index * (distance + 1) on top of the offset *)
  /\ (forall x o c d,
        gen_merged_assert d = negb (d <? 0)
        /\ (gen_merged_fwd_start (m_global o x) c d = x + m_shift o c d
            /\ gen_merged_fwd_stop (m_global o x) c d = x + m_shift o c d
            /\ gen_merged_shift o c d = m_shift o c d
            /\ gen_merged_back_start x o c d = x - m_shift o c d
            /\ gen_merged_back_stop x o c d = x - m_shift o c d)
        /\ (gen_geo_merged_fwd_start (m_global o x) c d = x + m_shift o c d
            /\ gen_geo_merged_fwd_stop (m_global o x) c d = x + m_shift o c d
            /\ gen_geo_merged_shift o c d = m_shift o c d
            /\ gen_geo_merged_back_start x o c d = x - m_shift o c d
            /\ gen_geo_merged_back_stop x o c d = x - m_shift o c d))
  (* (b) the model functions are these helpers put together *)
  /\ (forall szs c p, from_local szs c p
        = if m_from_local_reject (size_of szs c) p then None else Some (m_from_local_value (off szs c) p))
  /\ (forall szs g, to_local szs g
        = let idx := m_to_local_idx (searchsorted_right (offsets szs) g) in (idx, m_to_local_pos (off szs idx) g))
  /\ (forall neg szs es, check_bounds_gen neg szs es = None
        <-> Forall (fun e => m_entry_check neg (size_of szs (e_chr e)) (e_start e) (e_stop e) = 0) es)
  /\ checks_negative_start = true
  /\ (forall szs es, globalise szs es
        = map (fun e => set_se e (m_global (off szs (e_chr e)) (e_start e)) (m_global (off szs (e_chr e)) (e_stop e))) es)
  /\ (forall szs es, model_clip szs es
        = map (fun e => set_se e (m_clip_start (size_of szs (e_chr e)) (e_start e)) (m_clip_stop (size_of szs (e_chr e)) (e_stop e))) es)
  /\ (forall szs n es, model_extend szs n es
        = map (fun e => set_se e (m_extend_start (e_fwd e) (e_start e) (e_stop e) n)
                                 (m_extend_stop (e_fwd e) (e_start e) (e_stop e) n (size_of szs (e_chr e)))) es)
  /\ (forall szs l r es, model_windows szs l r es
        = map (fun e => set_se e (m_clip_start (size_of szs (e_chr e)) (m_win_start (e_start e) l))
                                 (m_clip_stop (size_of szs (e_chr e)) (m_win_stop (e_start e) r))) es)
  /\ (forall st w e, model_location st w e
        = if (w =? 0) || (w =? 1)
          then (if negb st then m_loc_unstranded (w =? 0) (e_start e) (e_stop e)
                else m_loc_stranded (w =? 0) (e_fwd e) (e_start e) (e_stop e))
          else m_loc_center (e_start e) (e_stop e))
  /\ (forall szs d c, gap_shift szs d c = m_shift (off szs c) c d)
  /\ (forall szs us d es, model_merged szs us d es = model_merged_fixed szs us d es)
  /\ (forall szs d es, model_geo_merge szs d es = model_merged_fixed szs [] d es)
  (* with_ignored_added: the new context ignores the added names together with the previously ignored ones, keeps every
     original dict entry and gives added names size 0 *)
  /\ (gen_wia_ignored_set = m_wia_ignored_set (* ["ignored"; "self._ignored"] *)
      /\ gen_wia_dict_base = m_wia_dict_base (* "self._original_chrom_sizes" *) /\ gen_wia_added_size = 0)
  /\ (forall x a, ctx_with_ignored_added x a = {| gx_dict := dict_update (gx_dict x) a; gx_ign := a ++ gx_ign x |}).
Proof.
  exact (conj (fun size o p a g s t =>
           conj (b_from_local_reject size p) (conj (b_from_local_value o p) (conj (b_to_local_idx a g)
           (conj (b_to_local_pos o g) (conj (b_tli_idx a g) (conj (b_tli_start o g) (conj (b_tli_stop o g)
           (conj (b_tli_assert o size g) (conj (b_se_check size s t) (conj (b_se_start o s) (b_se_stop o t)))))))))))
        (conj (fun f w p l r size s t n fwd is_start =>
           conj (b_win_flank f) (conj (b_win_size w) (conj (b_win_iv p l r) (conj (b_clip size s t)
           (conj (b_geo_clip size s t) (conj (b_extend fwd s t n size) (conj (b_loc_unstranded is_start s t)
           (conj (b_loc_stranded is_start fwd s t) (b_loc_center s t)))))))))
        (conj (fun x o c d => conj (b_merged_assert d) (conj (b_merged x o c d) (b_geo_merged x o c d)))
        (conj l_from_local (conj l_to_local (conj l_check_bounds (conj l_checks_negative (conj l_globalise
        (conj l_clip (conj l_extend (conj l_windows (conj l_location (conj l_gap_shift (conj l_merged (conj l_geo_merge (conj b_with_ignored_added (fun x a => proj1 (l_with_ignored_added x a)))))))))))))))))).
Qed.
Print Assumptions C10_source_tie.

(* non-vacuity: three chromosomes (the middle one without intervals), an interval ending exactly at the end of
   the first and one starting at 0 of the last; the hypotheses hold and the executable model keeps them apart *)
Example C10_nonvacuous :
  let szs := [3; 2; 4] in
  let es := [mk 0 1 3; mk 2 0 2; mk 2 2 4] in
  nonneg szs /\ Forall (entry_wf szs) es /\ StronglySorted cs_le es
  /\ model_pileup szs es = RArrays [[0; 1; 1]; [0; 0]; [1; 1; 1; 1]]
  /\ model_merged_fixed szs [] 0 es = RIvs [(0, 1, 3); (2, 0, 4)]
  /\ model_merged_fixed szs [] 2 es = RIvs [(0, 1, 3); (2, 0, 4)]
  /\ to_local szs 3 = (1, 0) /\ from_local szs 0 3 = None.
Proof.
  cbv zeta. split; [repeat constructor; lia|]. split.
  { repeat constructor; unfold size_of, nthZ, len; simpl; lia. }
  split; [repeat constructor; unfold cs_le; simpl; lia|].
  vm_compute. repeat split; reflexivity.
Qed.

(* non-vacuity of the link theorem: a concrete merged(1) case on the keep-all genome {chr:3, ch_:2, c:4} with an
   interval ending at the end of `chr`, one starting at 0 of `ch_`, and `c` empty is well-formed, the observation of the
   repaired code agrees with the model, and the property holds on it *)
Example C10_link_nonvacuous :
  let c := {| k_genome := [ {| c_name := [99; 104; 114]; c_size := 3 |}; {| c_name := [99; 104; 95]; c_size := 2 |};
                            {| c_name := [99]; c_size := 4 |} ];
              k_filter := KeepAll; k_added := [];
              k_entries := [mk 0 1 3; mk 1 0 1; mk 1 1 2];
              k_vals := []; k_op := OMerged false 1;
              k_obs := RIvs [(0, 1, 3); (1, 0, 2)] |} in
  case_wf c /\ model_ok c = true /\ spec_ok c = true.
Proof.
  cbv zeta. split; [|split; vm_compute; reflexivity].
  split; [vm_compute; repeat constructor; discriminate|].
  split; [repeat constructor; cbn; lia|]. split; [intros H; discriminate H|].
  split; [vm_compute; reflexivity|lia].
Qed.

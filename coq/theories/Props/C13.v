(* Props/C13.v — the property theorems for C13 (sliding-window sequence functions are row-local and
   match their definitions).  Only statements, `exact <lemma>` and Print Assumptions live here.

   Reading guide.  `rows` is any ragged list of sequences (letter codes), unbounded in number and length;
   `per_row g w rows` (Spec) = for each row alone, g of every window of length w lying inside that row —
   so rows shorter than w give [], and no window spans two rows.  `…_with stopf` is the library's
   algorithm (ravel, one value per flat position, re-wrap with the original row lengths, column slice)
   with the column-slice bound `stopf`:
     stop_pinned w = Some (-w+1)            the code at /repo HEAD            `[..., :(-w+1)]`
     stop_fixed  w = (-w+1) or None         after notes/C13.fix-1.diff         `[..., :(-w+1) or None]`
   Theorems without suffix are about stop_fixed and hold for every window >= 1; `_partial` ones are about
   the pinned code and hold for windows >= 2; `_refuted` ones show the pinned code failing at window 1. *)
From Coq Require Import ZArith QArith List Bool.
From BNP Require Import Base.Prims.
From BNP Require Import Model.C13.
From BNP Require Import Proofs.C13.
From BNP Require Import Corr.C13.
From BNP Require Import Proofs.C13_corr.
From BNP Require Import Proofs.C13_q.
From BNP Require Import Proofs.C13_big.
From BNP Require Import Gen.C13.
From BNP Require Import Bridge.C13.
Import ListNotations.
Open Scope Z_scope.

(* T1: rolling ANY window function f over a ragged array is row-local, for every window >= 1, every
   number of rows and every row length (empty rows, rows of length w-1, w, w+1, short last row). *)
Theorem C13_rolling_row_local :
  forall (B : Type) (f : list Z -> B) (w : Z) (rows : list (list Z)),
    1 <= w -> rolling_with stop_fixed f w rows = per_row f (Z.to_nat w) rows.
Proof. exact (fun B => @rolling_row_local_fixed B). Qed.
Print Assumptions C13_rolling_row_local.

Theorem C13_rolling_row_local_partial :
  forall (B : Type) (f : list Z -> B) (w : Z) (rows : list (list Z)),
    2 <= w -> rolling_with stop_pinned f w rows = per_row f (Z.to_nat w) rows.
Proof. exact (fun B => @rolling_row_local_pinned B). Qed.
Print Assumptions C13_rolling_row_local_partial.

(* the pinned code at window 1: every row comes back empty whatever f and the rows are, so the
   full-strength statement is false as soon as one row is non-empty *)
Theorem C13_rolling_window1_refuted :
  (forall (B : Type) (f : list Z -> B) rows, rolling_with stop_pinned f 1 rows = map (fun _ => []) rows)
  /\ exists rows, rolling_with stop_pinned (le_value 4) 1 rows <> per_row (le_value 4) 1 rows.
Proof. exact rolling_window1_refuted. Qed.
Print Assumptions C13_rolling_window1_refuted.

(* T2: the k-mer code dot(letters, |A|**arange(k)) is the little-endian base-|A| number of the letters *)
Theorem C13_kmer_code_little_endian :
  forall (n : Z) (win : list Z), hash_generic n (len win) win = le_value n win
                                 /\ encode_kmer n (len win) win = le_value n win.
Proof. exact kmer_code_le. Qed.
Print Assumptions C13_kmer_code_little_endian.

(* ... and renders back to the window's text (both the shift/mask route of 4-letter alphabets and the
   div/mod route), for every alphabet size >= 2 and every k *)
Theorem C13_kmer_text_roundtrip :
  forall (alpha : list Z) (n : Z) (win : list Z),
    2 <= n -> Forall (fun x => 0 <= x < n) win ->
    decode_kmer n (len win) (encode_kmer n (len win) win) = win
    /\ to_string alpha n (len win) (encode_kmer n (len win) win) = text_of alpha win.
Proof. exact kmer_text_roundtrip. Qed.
Print Assumptions C13_kmer_text_roundtrip.

(* every code below |A|^k decodes to k letters whose little-endian value is that code (the labels of
   count_kmers are in code order) *)
Theorem C13_code_of_label :
  forall n k h, 2 <= n -> 0 <= k -> 0 <= h < n ^ k ->
    le_value n (decode_kmer n k h) = h /\ len (decode_kmer n k h) = k
    /\ Forall (fun x => 0 <= x < n) (decode_kmer n k h).
Proof. exact decode_kmer_value. Qed.
Print Assumptions C13_code_of_label.

(* T3: the 2-bit packed sliding window over uint64 registers (npstructures BitArray.pack +
   sliding_window, modelled register by register) equals the little-endian value of every window of the
   flat data, for every data length (any number of registers) and 1 <= k <= 32 *)
Theorem C13_packed_eq_generic :
  forall (k : Z) (flat : list Z),
    Forall (fun x => 0 <= x < 4) flat -> 1 <= k <= 32 ->
    kmers_packed k flat = map (le_value 4) (windows (Z.to_nat k) flat).
Proof. exact kmers_packed_value. Qed.
Print Assumptions C13_packed_eq_generic.

(* T4a: get_kmers on both paths returns, per row, the code of every window inside that row *)
Theorem C13_get_kmers :
  forall n k rows, 1 <= k -> (n = 4 -> k <= 32 /\ Forall (fun x => 0 <= x < 4) (concat rows)) ->
    get_kmers_with stop_fixed n k rows = spec_kmers n (Z.to_nat k) rows.
Proof. exact get_kmers_fixed. Qed.
Print Assumptions C13_get_kmers.

Theorem C13_get_kmers_partial :
  forall n k rows, 2 <= k -> (n = 4 -> k <= 32 /\ Forall (fun x => 0 <= x < 4) (concat rows)) ->
    get_kmers_with stop_pinned n k rows = spec_kmers n (Z.to_nat k) rows.
Proof. exact get_kmers_pinned. Qed.
Print Assumptions C13_get_kmers_partial.

Theorem C13_get_kmers_window1_refuted :
  (forall n rows, get_kmers_with stop_pinned n 1 rows = map (fun _ => []) rows)
  /\ exists n rows, get_kmers_with stop_pinned n 1 rows <> spec_kmers n 1 rows.
Proof. exact get_kmers_window1_refuted. Qed.
Print Assumptions C13_get_kmers_window1_refuted.

(* T4b: minimizers = per row, for every window of W letters inside the row, the least k-mer code in it *)
Theorem C13_get_minimizers :
  forall n k W rows, 1 <= k -> k <= W -> W <= len (concat rows) ->
    get_minimizers_with stop_fixed n k W rows = Some (spec_minimizers n (Z.to_nat k) (Z.to_nat W) rows).
Proof. exact minimizers_fixed. Qed.
Print Assumptions C13_get_minimizers.

Theorem C13_get_minimizers_partial :
  forall n k W rows, 2 <= k -> k <= W -> W <= len (concat rows) ->
    get_minimizers_with stop_pinned n k W rows = Some (spec_minimizers n (Z.to_nat k) (Z.to_nat W) rows).
Proof. exact minimizers_pinned. Qed.
Print Assumptions C13_get_minimizers_partial.

(* pinned code, k = 1: the call raises (min of an empty row) for every input and every window *)
Theorem C13_get_minimizers_k1_refuted :
  forall n W rows, get_minimizers_with stop_pinned n 1 W rows = None.
Proof. exact minimizers_pinned_k1. Qed.
Print Assumptions C13_get_minimizers_k1_refuted.

(* T4c: string matching = per row, for every window, whether it equals the pattern *)
Theorem C13_match_string :
  forall pat rows, 1 <= len pat -> match_string_with stop_fixed pat rows = spec_match pat rows.
Proof. exact match_string_fixed. Qed.
Print Assumptions C13_match_string.

Theorem C13_match_string_partial :
  forall pat rows, 2 <= len pat -> match_string_with stop_pinned pat rows = spec_match pat rows.
Proof. exact match_string_pinned. Qed.
Print Assumptions C13_match_string_partial.

(* T4d: motif scores by shifted accumulation over the flat data = per row, for every window, the sum
   over positions j of column_j[letter_j] (integer/rational entries: exact arithmetic) *)
Theorem C13_motif_scores :
  forall cols rows, 1 <= len cols -> get_motif_scores_with stop_fixed cols rows = spec_motif cols rows.
Proof. exact motif_fixed. Qed.
Print Assumptions C13_motif_scores.

Theorem C13_motif_scores_partial :
  forall cols rows, 2 <= len cols -> get_motif_scores_with stop_pinned cols rows = spec_motif cols rows.
Proof. exact motif_pinned. Qed.
Print Assumptions C13_motif_scores_partial.

(* T4e: k-mer counts = bincount of the row-local k-mers, all rows together and row by row *)
Theorem C13_count_kmers :
  forall n k rows, 1 <= k -> (n = 4 -> k <= 32 /\ Forall (fun x => 0 <= x < 4) (concat rows)) ->
    count_kmers_flat_with stop_fixed n k rows = bincount (n ^ k) (concat (spec_kmers n (Z.to_nat k) rows))
    /\ count_kmers_rows_with stop_fixed n k rows = map (bincount (n ^ k)) (spec_kmers n (Z.to_nat k) rows).
Proof. exact count_kmers_fixed. Qed.
Print Assumptions C13_count_kmers.

Theorem C13_count_kmers_partial :
  forall n k rows, 2 <= k -> (n = 4 -> k <= 32 /\ Forall (fun x => 0 <= x < 4) (concat rows)) ->
    count_kmers_flat_with stop_pinned n k rows = bincount (n ^ k) (concat (spec_kmers n (Z.to_nat k) rows))
    /\ count_kmers_rows_with stop_pinned n k rows = map (bincount (n ^ k)) (spec_kmers n (Z.to_nat k) rows).
Proof. exact count_kmers_pinned. Qed.
Print Assumptions C13_count_kmers_partial.

(* The link between the two verdicts the check evaluates on every generated case (Corr/C13.v): for EVERY case inside the
   domain (distinct alphabet letters, letters in range, 1 <= k <= w <= 31, total letters >= w) — a ragged collection
   (freshly built, non-contiguous view), one sequence as a 1-d array, or equal-length sequences as a dense 2-d array,
   encoded or not — if the implementation's answer equals the model's (model_ok) then it is the property's value
   (spec_ok).  Every window >= 1, all ten observed operations: k-mers incl. their rendering, minimizers, string match,
   motif scores (exact, and the real-valued tolerance test), counts flat / per row / weighted / on rows of more than
   10^6 letters incl. labels, encode/to_string.  (Full strength since the repaired slice, get_motif_scores and
   change_encoding are in /repo: c9f70fe, 56c9986, d2972ec.) *)
Theorem C13_model_agrees_implies_property :
  forall c : case, in_domain c = true -> model_ok c = true -> spec_ok c = true.
Proof. exact model_ok_implies_spec_ok. Qed.
Print Assumptions C13_model_agrees_implies_property.

(* history: before those two repairs a dense 2-d input was treated as ONE row by get_motif_scores and (un-encoded) by get_kmers *)
(* those two routes really broke row-locality (3 x 4 array ACGT/TTGA/CCCA, width-2 motif, k = 2): windows
   T|T, A|C span the row borders; with the rows kept (notes/C13.fix-2.diff, C13.fix-3.diff) the value is the spec's *)
Theorem C13_dense_routes_refuted :
  let rows := [[0;1;2;3]; [3;3;2;0]; [1;1;1;0]] in
  let cols := [[1;10;100;1000]; [2;20;200;2000]] in
  get_motif_scores_with stop_fixed cols (dense_rows_pinned rows) = [[21; 210; 2100; 3000; 3000; 1200; 102; 21; 30; 30; 12]]
  /\ get_motif_scores_with stop_fixed cols (dense_rows_pinned rows) <> spec_motif cols rows
  /\ get_kmers_with stop_fixed 4 2 (dense_rows_pinned rows) = [[4; 9; 14; 15; 15; 11; 2; 4; 5; 5; 1]]
  /\ get_kmers_with stop_fixed 4 2 (dense_rows_pinned rows) <> spec_kmers 4 2 rows
  /\ get_motif_scores_with stop_fixed cols (dense_rows_fixed rows) = spec_motif cols rows
  /\ get_kmers_with stop_fixed 4 2 (dense_rows_fixed rows) = spec_kmers 4 2 rows.
Proof. exact dense_routes_refuted. Qed.
Print Assumptions C13_dense_routes_refuted.

(* Motif scores with a real-valued matrix, read over EXACT rationals: the shifted-accumulation loop, re-wrap and trim
   give, per row, for every window inside the row, the sum over positions of column_j[letter_j] — as rationals
   (Leibniz-equal unreduced fractions), for every matrix, every width >= 1 and every ragged collection.  (Floats are
   not covered by any theorem: their addition is not associative; see the tolerance test, op 7 of the correspondence.) *)
Theorem C13_motif_scores_rational :
  forall (cols : list (list Q)) (rows : list (list Z)), 1 <= len cols ->
    gget_motif_scores_with 0%Q Qplus stop_fixed cols rows = per_row (gscore 0%Q Qplus cols) (length cols) rows.
Proof. exact motif_row_local_Q. Qed.
Print Assumptions C13_motif_scores_rational.

(* the integer-valued functions the correspondence evaluates are the Z instance of that same generic loop *)
Theorem C13_motif_scores_integer_instance :
  forall stopf cols rows, gget_motif_scores_with 0 Z.add stopf cols rows = get_motif_scores_with stopf cols rows.
Proof. exact gget_motif_scores_Z. Qed.
Print Assumptions C13_motif_scores_integer_instance.

(* k-mer counts with one integer weight per k-mer (count_encoded(kmers, weights=..)) = weighted bincount of the row-local k-mers *)
Theorem C13_count_weighted :
  forall n k rows weights, 1 <= k -> (n = 4 -> k <= 32 /\ Forall (fun x => 0 <= x < 4) (concat rows)) ->
    count_weighted_with stop_fixed n k rows weights = wbincount (n ^ k) (concat (spec_kmers n (Z.to_nat k) rows)) weights.
Proof. exact count_weighted_fixed. Qed.
Print Assumptions C13_count_weighted.

(* Very long rows (row_i = pattern_i repeated reps_i times; any number of rows, any total length — in particular more
   than the 10^6 values at which count_encoded starts to count in chunks): count_kmers(rows, 1), both as the
   library's algorithm (model) and as the property's value (spec), is the closed form the check evaluates,
   sum_i reps_i * bincount(pattern_i). *)
Theorem C13_count_kmers_long_rows :
  forall n pats reps, Forall (fun r => 0 <= r) reps -> Forall (Forall (fun x => 0 <= x < n)) pats ->
    count_kmers_flat_with stop_fixed n 1 (expand pats reps) = big_counts n pats reps
    /\ bincount (n ^ 1) (concat (spec_kmers n 1 (expand pats reps))) = big_counts n pats reps.
Proof. exact count_kmers_big. Qed.
Print Assumptions C13_count_kmers_long_rows.

(* Source tie: the arithmetic regenerated from /repo on this run (Gen/C13.v, written by translate/run.py through
   translate/gen_c13.py) is the arithmetic the theorems above are about:
   - the column-slice bound `(-window_size + 1) or None` at all four sites (rollable.py rolling_window, kmers.py
     convolution, position_weight_matrix.py get_motif_scores, util/__init__.py rolling_window_function) is `stop_of`,
     the bound the model and the correspondence use;
   - KmerEncoder's weights `alphabet_size ** arange(k)` (and that the code is `data.dot(weights)`), the two dot
     products of KmerEncoding.encode, the `alphabet_size == 4` tests of get_kmers and to_string, the shift/mask
     and div/mod digits of to_string, the number of labels `alphabet_size ** k`, the minimizer window arithmetic
     and the bounds of the PWM accumulation pass are the named helpers of Model/C13.v;
   - and the model's definitions are built from exactly those helpers. *)
Theorem C13_source_tie :
  (forall w, gen_stop_rollable w = stop_of w /\ gen_stop_convolution w = stop_of w
             /\ gen_stop_motif w = stop_of w /\ gen_stop_util w = stop_of w)
  /\ (forall n k j, gen_kmer_weight n k j = m_kmer_weight n j /\ gen_encode_weight_str n k j = m_kmer_weight n j
                    /\ gen_encode_weight_list n k j = m_kmer_weight n j)
  /\ gen_kmer_call_is_dot = true
  /\ (forall n, gen_get_kmers_packed_test n = m_packed_test n /\ gen_to_string_packed_test n = m_packed_test n)
  /\ (forall n h k j, gen_to_string_digit4 h k j = m_digit4 h j /\ gen_to_string_digit n h k j = m_digit n h j)
  /\ (forall n k, gen_n_labels n k = m_n_labels n k)
  /\ (forall W k, gen_minimizer_n_kmers W k = m_min_n_kmers W k /\ gen_minimizer_window W k = m_min_window W k
                  /\ m_min_window (m_min_n_kmers W k) k = W)
  /\ (forall size offset, gen_pwm_acc_stop size offset = m_pwm_acc_len size offset /\ gen_pwm_seq_start size offset = offset)
  /\ (forall n k win, powers n k = map (m_kmer_weight n) (arange k)
                      /\ hash_generic n k win = dot win (map (m_kmer_weight n) (arange k))
                      /\ encode_kmer n k win = dot win (map (m_kmer_weight n) (arange k)))
  /\ (forall stopf n k rows, get_kmers_with stopf n k rows =
         if m_packed_test n then rewrap_trim (stopf k) 0 (map len rows) (kmers_packed k (concat rows))
         else rolling_with stopf (hash_generic n k) k rows)
  /\ (forall n k h, decode_kmer n k h = if m_packed_test n then map (m_digit4 h) (arange k) else map (m_digit n h) (arange k))
  /\ (forall alpha n k, labels alpha n k = map (to_string alpha n k) (arange (m_n_labels n k))).
Proof. exact source_tie. Qed.
Print Assumptions C13_source_tie.

(* ---- non-vacuity: concrete ragged inputs with an empty row, a row of length w-1, w, w+1 and a short
        last row meet the hypotheses, and the executable model really computes the per-row values *)
Example C13_nonvacuous_kmers :
  let rows := [[0;1;3;2]; []; [0;0]; [3;3;2;2;1]; [2]] in          (* ACTG, "", AA, TTGGC, G ; k = 3 *)
  get_kmers_with stop_fixed 4 3 rows = [[52; 45]; []; []; [47; 43; 26]; []]
  /\ get_kmers_with stop_pinned 4 3 rows = spec_kmers 4 3 rows
  /\ get_kmers_with stop_fixed 5 3 rows = spec_kmers 5 3 rows
  /\ get_kmers_with stop_fixed 4 1 rows = [[0;1;3;2]; []; [0;0]; [3;3;2;2;1]; [2]]
  /\ get_kmers_with stop_pinned 4 1 rows = [[]; []; []; []; []].
Proof. vm_compute. repeat split; reflexivity. Qed.

Example C13_nonvacuous_packed_two_registers :
  let flat := map (fun i => (i * i + i / 3) mod 4) (arange 70) in       (* 70 letters: three uint64 registers *)
  kmers_packed 31 flat = map (le_value 4) (windows 31 flat) /\ len (kmers_packed 31 flat) = 40.
Proof. vm_compute. split; reflexivity. Qed.

Example C13_nonvacuous_others :
  let rows := [[0;1;3;2;0]; [0]; []; [1;0;1]] in
  get_minimizers_with stop_fixed 4 2 3 rows = Some [[4; 11; 2]; []; []; [1]]
  /\ get_minimizers_with stop_pinned 4 1 3 rows = None
  /\ match_string_with stop_fixed [0;1] rows = [[1;0;0;0]; []; []; [0;1]]
  /\ get_motif_scores_with stop_fixed [[1;10;100;1000]; [2;20;200;2000]] rows
     = [[21; 2010; 1200; 102]; []; []; [12; 21]]
  /\ count_kmers_rows_with stop_fixed 4 1 rows = [[2;1;1;1]; [1;0;0;0]; [0;0;0;0]; [1;2;0;0]]
  /\ to_string [65;67;71;84] 4 3 (encode_kmer 4 3 [0;1;3]) = [65;67;84].
Proof. vm_compute. repeat split; reflexivity. Qed.

Example C13_nonvacuous_rational :
  let cols := [[1#3; 1#2; 0; 2#1]; [1#7; 0; 5#2; 1#3]]%Q in
  let rows := [[0;1;3;2;0]; [0]; []; [1;0]] in
  gget_motif_scores_with 0%Q Qplus stop_fixed cols rows = per_row (gscore 0%Q Qplus cols) 2 rows
  /\ length (concat (gget_motif_scores_with 0%Q Qplus stop_fixed cols rows)) = 5%nat.
Proof. vm_compute. split; reflexivity. Qed.

Example C13_nonvacuous_link :
  let c := {| k_op := 0; k_kind := 0; k_alpha := [65; 67; 71; 84]; k_rows := [[0;1;3]; []; [2]]; k_w := 1; k_k := 1;
              k_pat := []; k_cols := []; k_err := false; k_out := [[0;1;3]; []; [2]];
              k_labels := [[65]; [67]; [84]; [71]] |} in
  in_domain c = true /\ model_ok c = true /\ spec_ok c = true.
Proof. vm_compute. repeat split; reflexivity. Qed.

Example C13_nonvacuous_long_rows :
  let pats := [[0;1;2;3;3]; [2;0]; [3]] in let reps := [3; 2; 1] in
  expand pats reps = [[0;1;2;3;3; 0;1;2;3;3; 0;1;2;3;3]; [2;0;2;0]; [3]]
  /\ big_counts 4 pats reps = [5; 3; 5; 7]
  /\ count_kmers_flat_with stop_fixed 4 1 (expand pats reps) = [5; 3; 5; 7]
  /\ big_counts 4 [[0;1;2;3;3]; [2;0]; [3]] [100000; 250000; 1] = [350000; 100000; 350000; 200001]
  /\ count_weighted_with stop_fixed 4 2 [[0;1;3]; [2]; [1;0]] [5; 7; 11] = [0;11;0;0; 5;0;0;0; 0;0;0;0; 0;7;0;0].
Proof. vm_compute. repeat split; reflexivity. Qed.

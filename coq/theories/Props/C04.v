(* Props/C04.v — the property theorems for C04 (unmodified records and fields are written back byte-for-byte).
   Only statements, `exact <lemma>` and Print Assumptions live here. *)
From Coq Require Import ZArith List Bool String Lia.
From BNP Require Import Base.Prims Model.C04 Proofs.C04 Proofs.C04_raw Proofs.C04_bam Proofs.C04_lines Proofs.C04_sam
  Proofs.C04_crlf Proofs.C04_samcrlf Proofs.C04_oneline Proofs.C04_repl Proofs.C04_replcrlf Proofs.C04_olprog Proofs.C04_samjoin Proofs.C04_session
  Gen.C04 Bridge.C04.
Import ListNotations.
Open Scope Z_scope.

(* T2a — selection: indexing every parallel array of a TextThroughputExtractor with the same (in-range) index
   list selects exactly those rows of the abstraction (record bytes + relative field positions), in that order,
   with repeats; well-formedness is kept.  Records may have any (unequal) lengths. *)
Theorem C04_getitem :
  forall sel x, Inv x -> Forall (fun i => 0 <= i < len (x_es x)) sel ->
    view (getitem sel x) = takeA dummy_arow (view x) sel /\ Inv (getitem sel x).
Proof. exact (fun sel x I H => conj (view_getitem sel x (proj1 I) H) (Inv_getitem sel x I H)). Qed.
Print Assumptions C04_getitem.

(* T3 — compaction (_make_contigous): the new data is exactly the concatenation of the selected records' bytes in
   the selected order, and re-basing the field starts leaves every record's bytes and every field's position inside
   its record unchanged. *)
Theorem C04_make_contiguous :
  forall x, Inv x ->
    x_data (make_contiguous x) = List.concat (map a_rec (view x)) /\ view (make_contiguous x) = view x /\ Inv (make_contiguous x).
Proof. exact (fun x I => conj (data_mc x (proj1 I)) (conj (view_mc x I) (Inv_mc x I))). Qed.
Print Assumptions C04_make_contiguous.

(* T2b — concatenation of any number of extractors (offsets shifted by cumulative buffer sizes): the rows of the result
   are the rows of the operands, one operand after the other. *)
Theorem C04_concatenate :
  forall xs, Forall Inv xs -> view (concatenate xs) = List.concat (map view xs) /\ Inv (concatenate xs).
Proof. exact (fun xs H => conj (view_concat xs H) (Inv_concat xs H)). Qed.
Print Assumptions C04_concatenate.

(* every text the writer fetches for field i (plain column, VCF rest-of-line, SAM extra, FASTQ quality line) is read
   off the record's own bytes — whatever selections / compactions / concatenations produced the extractor *)
Theorem C04_field_text :
  forall f i x, Inv x -> width_ok f (view x) -> 0 <= i < n_fields f ->
    field_text f i x = map (a_field_text f i) (view x).
Proof. exact field_text_view. Qed.
Print Assumptions C04_field_text.

(* T4 — MAIN: for every program (any finite nesting of selections, concatenations, replacements and intermediate
   writes) on a well-formed extractor, if the library writes anything it writes: without replaced fields the
   concatenation of the original bytes of the rows the program denotes (aeval); with replaced fields, per row, the
   replaced texts in the replaced columns and for every other field the text read off the row's original bytes. *)
Theorem C04_program_write :
  forall vr f x0 p out,
    Inv x0 -> width_ok f (view x0) -> (has_concatenate f = true \/ cat_free p = true) ->
    match run f (SLazy x0 []) p with Some s => write vr f s | None => None end = Some out ->
    out = match sv_eval p with
          | [] => List.concat (map a_rec (aeval (view x0) p))
          | sv => List.concat (render_rows vr f (aeval (view x0) p) sv)
          end.
Proof. exact program_write. Qed.
Print Assumptions C04_program_write.

(* sentence 1 of the property at model level: no replacement => the selected records' original bytes, in order *)
Theorem C04_selection_write :
  forall vr f x0 p out,
    Inv x0 -> width_ok f (view x0) -> (has_concatenate f = true \/ cat_free p = true) -> repl_free p = true ->
    match run f (SLazy x0 []) p with Some s => write vr f s | None => None end = Some out ->
    out = List.concat (map a_rec (aeval (view x0) p)).
Proof. exact selection_write. Qed.
Print Assumptions C04_selection_write.

(* ... and against the byte-level Spec: if the extractor built from the file has the abstraction the records define
   (checked per generated file by Corr.C04.hyp_ok), every pure selection program satisfies spec_out_ok *)
Theorem C04_selection_meets_spec :
  forall vr f recs x0 p out,
    Inv x0 -> width_ok f (view x0) -> view x0 = map (gview f) recs ->
    cat_free p = true -> repl_free p = true ->
    match run f (SLazy x0 []) p with Some s => write vr f s | None => None end = Some out ->
    spec_out_ok f recs p (Some out) = true.
Proof. exact selection_meets_spec. Qed.
Print Assumptions C04_selection_meets_spec.

(* the per-file check evaluated by the correspondence really establishes the hypotheses above *)
Theorem C04_checked_hypotheses :
  forall f x, inv_b x = true -> width_b f (view x) = true -> Inv x /\ width_ok f (view x).
Proof. exact (fun f x A B => conj (inv_b_sound x A) (width_b_sound f (view x) B)). Qed.
Print Assumptions C04_checked_hypotheses.

(* T1 — from_raw_buffer on tab-delimited LF files (BED, BED6, narrowPeak, VCF bodies): for ANY list of >= 1 records with
   the same number k >= 1 of columns, columns free of TAB/LF/CR, the extractor built by the delimiter-table arithmetic
   (flatnonzero / reshape / insert -1 / carriage-return adjustment) exists, is well-formed, is flagged contiguous and has
   exactly the abstraction the records define — for the code at HEAD and for the repaired variant alike. *)
Theorem C04_from_raw_delimited :
  forall k f recs fixed,
    delimited f -> (1 <= k)%nat -> recs <> [] -> Forall (rec_wf k) recs ->
    exists x, from_delimited_gen fixed (layout f recs) = Some x /\ Inv x /\ view x = map (gview f) recs /\ x_contig x = true.
Proof. exact from_delimited_correct. Qed.
Print Assumptions C04_from_raw_delimited.

(* END TO END for LF delimited files: whatever finite program of selections (slice/step/mask/int list/single index, all
   resolved to index lists), concatenations and intermediate writes — without field replacement — is run on the table read
   from the layout of the records, what the model of the library writes satisfies the byte-level Spec (pure selections:
   exactly the original bytes of the selected records in the selected order). *)
Theorem C04_delimited_end_to_end :
  forall v f k recs p out,
    delimited f -> (1 <= k)%nat -> wide_enough f k -> recs <> [] -> Forall (rec_wf k) recs ->
    repl_free p = true ->
    model_out_v v f (layout f recs) p = Some out ->
    spec_out_ok f recs p (Some out) = true.
Proof. exact delimited_selection_end_to_end. Qed.
Print Assumptions C04_delimited_end_to_end.

(* T1 for BAM — the block-size chain (_find_starts / from_raw_buffer) splits the concatenation of ANY >= 1 records whose
   block_size field is consistent into exactly those records (well-formed, contiguous extractor). *)
Theorem C04_from_raw_bam :
  forall raws, raws <> [] -> Forall bam_wf raws ->
    exists x, from_bam (List.concat raws) = Some x /\ Inv x /\ view x = map bv raws /\ x_contig x = true.
Proof. exact from_bam_correct. Qed.
Print Assumptions C04_from_raw_bam.

(* END TO END for BAM: every selection program on the records of a BAM file writes exactly the selected records' bytes *)
Theorem C04_bam_end_to_end :
  forall v recs p out,
    recs <> [] -> Forall bam_rec_wf recs -> cat_free p = true -> repl_free p = true ->
    model_out_v v FBam (layout FBam recs) p = Some out ->
    spec_out_ok FBam recs p (Some out) = true.
Proof. exact bam_selection_end_to_end. Qed.
Print Assumptions C04_bam_end_to_end.

(* ================= phase 3: from_raw_buffer for the remaining formats, CRLF, and the replaced-field path ================= *)

(* T1 for SAM (LF): ragged rows — ANY >= 1 records with >= 11 clean columns each (any number of optional tag columns):
   SAMBuffer._get_buffer_extractor yields a well-formed contiguous extractor with the records' abstraction (11 common
   fields; the tags are reached as the rest of the line) *)
Theorem C04_from_raw_sam :
  forall recs, recs <> [] -> Forall sam_rec_wf recs ->
    exists x, from_sam (layout FSam recs) = Some x /\ Inv x /\ view x = map (gview FSam) recs /\ x_contig x = true
              /\ width_ok FSam (view x).
Proof. exact from_sam_correct. Qed.
Print Assumptions C04_from_raw_sam.

(* END TO END for SAM: every program without replacement (selections, concatenations, intermediate writes) *)
Theorem C04_sam_end_to_end :
  forall v recs p out, recs <> [] -> Forall sam_rec_wf recs -> repl_free p = true ->
    model_out_v v FSam (layout FSam recs) p = Some out -> spec_out_ok FSam recs p (Some out) = true.
Proof. exact sam_selection_end_to_end. Qed.
Print Assumptions C04_sam_end_to_end.

(* T1 and END TO END for SAM with LF **or CRLF** line ends (code since /repo 6bbd290): entry ends before the CR adjustment,
   the 11th field and the tags without the CR; every program without replacement satisfies the Spec *)
Theorem C04_from_raw_sam_crlf :
  forall e recs, recs <> [] -> (e = [LF] \/ e = [CR; LF]) -> Forall (sam_rec_wf2 e) recs ->
    exists x, from_sam (layout FSam recs) = Some x /\ Inv x /\ view x = map (gview FSam) recs /\ x_contig x = true
              /\ width_ok FSam (view x).
Proof. exact from_sam_correct2. Qed.
Print Assumptions C04_from_raw_sam_crlf.

Theorem C04_sam_crlf_end_to_end :
  forall v e recs p out, recs <> [] -> (e = [LF] \/ e = [CR; LF]) -> Forall (sam_rec_wf2 e) recs -> repl_free p = true ->
    model_out_v v FSam (layout FSam recs) p = Some out -> spec_out_ok FSam recs p (Some out) = true.
Proof. exact sam_selection_end_to_end2. Qed.
Print Assumptions C04_sam_crlf_end_to_end.

(* T1 for the REPAIRED delimited extractor, LF or CRLF (all records of the file with the same terminator): a record
   includes its whole line terminator, the last field excludes the CR *)
Theorem C04_from_raw_delimited_repaired :
  forall k f e recs,
    delimited f -> (1 <= k)%nat -> recs <> [] -> (e = [LF] \/ e = [CR; LF]) -> Forall (rec_wf2 k e) recs ->
    exists x, from_delimited_gen true (layout f recs) = Some x /\ Inv x /\ view x = map (gview f) recs /\ x_contig x = true.
Proof. exact from_delimited_repaired_correct. Qed.
Print Assumptions C04_from_raw_delimited_repaired.

(* END TO END, repaired code, LF or CRLF delimited files, programs without replacement *)
Theorem C04_delimited_repaired_end_to_end :
  forall v f k e recs p out,
    v_crlf v = true -> delimited f -> (1 <= k)%nat -> wide_enough f k -> recs <> [] ->
    (e = [LF] \/ e = [CR; LF]) -> Forall (rec_wf2 k e) recs -> repl_free p = true ->
    model_out_v v f (layout f recs) p = Some out -> spec_out_ok f recs p (Some out) = true.
Proof. exact delimited_repaired_end_to_end. Qed.
Print Assumptions C04_delimited_repaired_end_to_end.

(* T1 for the OneLineBuffer family (FASTQ incl. '+name' lines, two-line FASTA), LF and CRLF *)
Theorem C04_from_raw_oneline :
  forall f cr recs, oneline f -> recs <> [] -> (cr = [] \/ cr = [CR]) -> Forall (ol_rec_wf f cr) recs ->
    exists x, read pinned f (layout f recs) = Some (SLazy x []) /\ Inv x /\ view x = map (gview f) recs /\ x_contig x = true.
Proof. exact from_oneline_grec. Qed.
Print Assumptions C04_from_raw_oneline.

(* END TO END for FASTQ / two-line FASTA: every selection program writes exactly the selected records' bytes *)
Theorem C04_oneline_end_to_end :
  forall v f cr recs p out,
    oneline f -> recs <> [] -> (cr = [] \/ cr = [CR]) -> Forall (ol_rec_wf f cr) recs ->
    cat_free p = true -> repl_free p = true ->
    model_out_v v f (layout f recs) p = Some out -> spec_out_ok f recs p (Some out) = true.
Proof. exact oneline_selection_end_to_end. Qed.
Print Assumptions C04_oneline_end_to_end.

(* THE SECOND SENTENCE OF THE PROPERTY, down to bytes: for BED/BED6/narrowPeak files (k columns = the k entry fields) and
   VCFBuffer on 8-column files, EVERY program the library accepts — selections, concatenations, intermediate writes and
   replacements of any fields — writes bytes satisfying the byte-level Spec: every record's non-replaced fields keep their
   original text, only the replaced columns change (LF files: both code variants; CRLF files: repaired extractor) *)
Theorem C04_delimited_program_end_to_end :
  forall v f k e recs p out,
    exact_fmt f (Z.of_nat k) -> (1 <= k)%nat -> recs <> [] ->
    (e = [LF] \/ (e = [CR; LF] /\ v_crlf v = true)) -> Forall (rec_wf2 k e) recs ->
    fields_ok (Z.of_nat k) p = true ->
    model_out_v v f (layout f recs) p = Some out -> spec_out_ok f recs p (Some out) = true.
Proof. exact delimited_program_end_to_end. Qed.
Print Assumptions C04_delimited_program_end_to_end.

(* the same with the hypotheses on the extractor explicit (usable with the per-file check hyp_ok) *)
Theorem C04_exact_program_meets_spec :
  forall v f nf recs x0 p out,
    exact_fmt f nf -> read v f (layout f recs) = Some (SLazy x0 []) -> Inv x0 -> view x0 = map (gview f) recs ->
    Forall (rec_exact nf) recs -> fields_ok nf p = true ->
    model_out_v v f (layout f recs) p = Some out -> spec_out_ok f recs p (Some out) = true.
Proof. exact exact_program_end_to_end. Qed.
Print Assumptions C04_exact_program_meets_spec.

(* ... and for the formats with a rest-of-line field: SAM (11 mandatory fields + optional tags, repaired join) and
   VCFBuffer2 (8 plain fields + FORMAT/genotype columns): every accepted program, replacements included, satisfies the
   byte-level Spec — the tags / genotype columns pass through untouched *)
Theorem C04_sam_program_end_to_end :
  forall v recs p out,
    v_samtab v = true -> recs <> [] -> Forall sam_rec_wf recs ->
    Forall (fun r => Forall (fun c : list Z => c <> []) (skipn 11 (g_cols r))) recs ->
    fields_ok 11 p = true ->
    model_out_v v FSam (layout FSam recs) p = Some out -> spec_out_ok FSam recs p (Some out) = true.
Proof. exact sam_program_end_to_end. Qed.
Print Assumptions C04_sam_program_end_to_end.

Theorem C04_vcf2_program_end_to_end :
  forall v k recs p out,
    (9 <= k)%nat -> recs <> [] -> Forall (rec_wf k) recs -> fields_ok 8 p = true ->
    model_out_v v (FVcf 9) (layout (FVcf 9) recs) p = Some out -> spec_out_ok (FVcf 9) recs p (Some out) = true.
Proof. exact vcf2_program_end_to_end. Qed.
Print Assumptions C04_vcf2_program_end_to_end.

(* SAMBuffer.join_fields (fix-2) as an ALGORITHM — join every column cell by cell, find the rows whose tag cell holds only
   its separator (lengths[n-1::n] == 1), delete the byte at cell_ends[row * n + n - 2] — written with the helpers the
   bridge ties to the source (m_sam_tag_empty, m_sam_cell_ends, m_sam_drop_cell), equals the model's abstract rendering
   (no separator before an empty 'extra' field), for any number of rows of n >= 2 columns *)
Theorem C04_sam_join_fields :
  forall n rows, (2 <= n)%nat -> Forall (fun r : list (list Z) => List.length r = n) rows ->
    sam_join_src n rows = List.concat (map (join_row repaired FSam) rows).
Proof. exact sam_join_src_correct. Qed.
Print Assumptions C04_sam_join_fields.

(* SESSIONS (named tables): a table derived by p from the table an earlier program q produced is, in the model, the table
   of the expanded program [subst_src q p] — tables are values, deriving from a table (replace, select, concatenate, write)
   never changes it.  The harness expands references this way, writes the source / intermediate tables AFTER the derived
   ones, and the correspondence compares every written table: an implementation that aliases state (e.g. a shared dict of
   replaced columns) disagrees with the model on a concrete session. *)
Theorem C04_session_run :
  forall f src q s, run f src q = Some s -> forall p, run f src (subst_src q p) = run f s p.
Proof. exact run_subst. Qed.
Print Assumptions C04_session_run.

(* the Spec reads the expanded program the same way: rows of p evaluated on the rows of q; pure only if both are *)
Theorem C04_session_spec :
  forall f src q p,
    spec_eval f src (subst_src q p)
    = (fst (spec_eval f (fst (spec_eval f src q)) p), snd (spec_eval f src q) && snd (spec_eval f (fst (spec_eval f src q)) p)).
Proof. exact spec_eval_subst. Qed.
Print Assumptions C04_session_spec.

(* SOURCE TIE — the formulas regenerated from /repo on this run (Gen/C04.v, written by translate/run.py +
   translate/gen_c04.py from io/file_buffers.py, io/bam.py, io/delimited_buffers.py, io/buffers/sam.py) are the ones the
   theorems above are about: (1) selection, compaction, concatenation and rest-of-line RE-ASSEMBLED from the generated
   formulas are the model's getitem / make_contiguous / concatenate / rest_of_line; (2) BAM: a write gathers the selected records' bytes and leaves the extractor unchanged (the text extractors compact in place);
   (3) the table arithmetic of _get_buffer_extractor, including WHICH `ends` the entry ends are taken from (the repair of
   the CRLF defect = the model variant in force); (4) the index arithmetic of SAMBuffer.join_fields. *)
Theorem C04_source_tie :
  (forall sel x,
     gen_tte_getitem (fun m => takeA [] m sel) (fun l => takeA 0 l sel) (x_data x) (x_fs x) (x_fl x) (x_es x) (x_ee x)
     = ext_tuple (getitem sel x))
  /\ (forall x, gen_make_contiguous x = make_contiguous x)
  /\ (forall xs, gen_concatenate xs = concatenate xs)
  /\ (forall j x, gen_rest_of_line j x = rest_of_line j x)
  /\ (forall s e ns o fs v, gen_mc_len s e = m_rec_len s e /\ gen_mc_new_starts ns = m_new_starts ns
        /\ gen_mc_offset s e = m_offset s e /\ gen_mc_offset_operand ns = removelast ns
        /\ gen_mc_entry_starts ns = removelast ns /\ gen_mc_entry_ends ns = tl ns
        /\ gen_mc_field_start fs o = m_rebase fs o /\ gen_mc_ravel_view ns ns = (ns, ns)
        /\ gen_cat_offsets ns = 0 :: cumsum ns /\ gen_cat_field_start v o = m_shift v o
        /\ gen_cat_entry_start v o = m_shift v o /\ gen_cat_entry_end v o = m_shift v o
        /\ gen_range_len e s false = m_range_len e s /\ gen_range_len e s true = e - s)
  /\ (forall xs, gen_cat_contiguous (map x_contig xs) = forallb x_contig xs)
  /\ (forall sel x,
        gen_bam_getitem (fun m => takeA [] m sel) (fun l => takeA 0 l sel) (x_data x) (x_es x) (x_ee x)
        = (x_data (getitem sel x), x_es (getitem sel x), x_ee (getitem sel x), x_contig (getitem sel x)))
  /\ (forall s e ns, gen_bam_mc_len s e = m_rec_len s e /\ gen_bam_gather_view ns ns = (ns, ns))
  /\ (forall x, gen_bam_gather x = x_data (make_contiguous x))
  /\ (forall v x, x_contig x = false -> write v FBam (SLazy x []) = Some (gen_bam_gather x))
  /\ gen_bam_mc_inplace = inplace_compaction FBam /\ (forall s, touch FBam s = s)
  /\ gen_mc_inplace = inplace_compaction (FDelim 0)
  /\ (forall x, gen_sam_extra x = sam_extra x) /\ gen_sam_entry_ends_before_cr = true /\ (forall e, gen_sam_entry_end e = e + 1)
  /\ (forall d, gen_delim_field_start d = m_delim_start d /\ gen_delim_entry_end d = m_delim_entry_end d)
  /\ gen_delim_entry_ends_before_cr = v_crlf current
  /\ (forall l r n, gen_sam_cell_ends l = m_sam_cell_ends l /\ gen_sam_drop_cell r n = m_sam_drop_cell r n
        /\ gen_sam_tag_first n = m_sam_tag_first n /\ gen_sam_tag_step n = n /\ gen_sam_tag_empty n = m_sam_tag_empty n).
Proof.
  Ltac tie := first [apply b_mc_len|apply b_mc_new_starts|apply b_mc_offset|apply b_mc_offset_operand|apply b_mc_entry_starts
    |apply b_mc_entry_ends|apply b_mc_field_start|apply b_mc_ravel_view|apply b_cat_offsets|apply b_cat_field_start
    |apply b_cat_entry_start|apply b_cat_entry_end|apply b_range_len|apply b_range_len_sep
    |apply b_bam_mc_len|apply b_bam_gather_view
    |apply b_delim_field_start|apply b_delim_entry_end
    |apply b_sam_cell_ends|apply b_sam_drop_cell|apply b_sam_tag_first|apply b_sam_tag_step|apply b_sam_tag_empty].
  split; [exact b_tte_getitem|]. split; [exact b_make_contiguous|]. split; [exact b_concatenate|].
  split; [exact b_rest_of_line|].
  split; [intros s e ns o fs v; repeat (split; [tie|]); tie|].
  split; [exact b_cat_contiguous|]. split; [exact b_bam_getitem|].
  split; [intros s e ns; repeat (split; [tie|]); tie|].
  split; [exact b_bam_gather|]. split; [exact b_bam_write|]. split; [exact b_bam_mc_inplace|]. split; [exact b_bam_touch|].
  split; [exact (proj1 b_mc_inplace)|].
  split; [exact b_sam_extra|]. split; [exact b_sam_entry_ends_before_cr|]. split; [exact b_sam_entry_end|].
  split; [intros d; split; tie|].
  split; [exact b_delim_entry_ends_before_cr|].
  intros l r n; repeat (split; [tie|]); tie.
Qed.
Print Assumptions C04_source_tie.

(* ---- the full statement "model output satisfies the Spec for every file and program" is FALSE for the code at HEAD:
   witnesses (each is the replay of a finding) ---- *)
Definition w_bed := [ {| g_cols := [unhex "61"; unhex "31"; unhex "32"]; g_eol := [13; 10] |};
                      {| g_cols := [unhex "6262"; unhex "33"; unhex "3434"]; g_eol := [13; 10] |} ].
(* CRLF BED "a\t1\t2\r\nbb\t3\t44\r\n", table[[1,0]] -> "bb\t3\t44\ra\t1\t2\r" *)
Theorem C04_crlf_selection_pinned_refuted :
  exists recs p, spec_out_ok (FDelim 3) recs p (model_out_v pinned (FDelim 3) (layout (FDelim 3) recs) p) = false.
Proof. exists w_bed, (PIdx [1; 0] PSrc). vm_compute. reflexivity. Qed.
Print Assumptions C04_crlf_selection_pinned_refuted.

(* SAM row without optional tags, mapq replaced -> trailing TAB *)
Definition w_sam := [ {| g_cols := [unhex "7231"; unhex "30"; unhex "63"; unhex "35"; unhex "3630"; unhex "314d"; unhex "2a";
                                     unhex "30"; unhex "30"; unhex "41"; unhex "49"]; g_eol := [10] |} ].
Theorem C04_sam_replace_pinned_refuted :
  exists recs p, spec_out_ok FSam recs p (model_out_v pinned FSam (layout FSam recs) p) = false.
Proof. exists w_sam, (PRepl 4 [[55]] PSrc). vm_compute. reflexivity. Qed.
Print Assumptions C04_sam_replace_pinned_refuted.

(* VCFBuffer (8 entry fields) on a line with FORMAT + one sample, id replaced -> columns 9.. dropped *)
Definition w_vcf := [ {| g_cols := [unhex "63"; unhex "35"; unhex "2e"; unhex "41"; unhex "43"; unhex "2e"; unhex "2e"; unhex "2e";
                                     unhex "4754"; unhex "307c31"]; g_eol := [10] |} ].
Theorem C04_trailing_columns_pinned_refuted :
  exists recs p, spec_out_ok (FVcf 8) recs p (model_out_v pinned (FVcf 8) (layout (FVcf 8) recs) p) = false.
Proof. exists w_vcf, (PRepl 2 [[120]] PSrc). vm_compute. reflexivity. Qed.
Print Assumptions C04_trailing_columns_pinned_refuted.

(* GTF start "011" written back unmodified -> "11" *)
Definition w_gtf := [ {| g_cols := [unhex "63"; unhex "73"; unhex "67"; unhex "303131"; unhex "3230"; unhex "2e"; unhex "2b"; unhex "2e";
                                     unhex "78"]; g_eol := [10] |} ].
Theorem C04_gtf_pinned_refuted :
  exists recs p, spec_out_ok FGtf recs p (model_out_v pinned FGtf (layout FGtf recs) p) = false.
Proof. exists w_gtf, PSrc. vm_compute. reflexivity. Qed.
Print Assumptions C04_gtf_pinned_refuted.

(* SAM with CRLF line ends: unreadable before /repo 6bbd290 (finding C04-sam-crlf-unreadable, now fixed; the model follows HEAD);
   a reordering selection on a CRLF SAM witness now writes the original bytes *)
Definition w_sam_crlf := [ {| g_cols := g_cols (hd {| g_cols := []; g_eol := [] |} w_sam); g_eol := [13; 10] |};
                           {| g_cols := g_cols (hd {| g_cols := []; g_eol := [] |} w_sam) ++ [unhex "4e4d3a693a30"]; g_eol := [13; 10] |} ].
Example C04_sam_crlf_witness :
  spec_out_ok FSam w_sam_crlf (PIdx [1; 0; 0] PSrc) (model_out_v repaired FSam (layout FSam w_sam_crlf) (PIdx [1; 0; 0] PSrc)) = true
  /\ spec_out_ok FSam w_sam_crlf (PRepl 4 [[55]; [56]] PSrc) (model_out_v repaired FSam (layout FSam w_sam_crlf) (PRepl 4 [[55]; [56]] PSrc)) = true.
Proof. vm_compute. split; reflexivity. Qed.

(* with the proposed repairs (notes/C04.fix-1.diff, fix-2.diff; Model.C04.repaired) the CRLF and SAM witnesses pass *)
Example C04_crlf_fixed_witness :
  spec_out_ok (FDelim 3) w_bed (PIdx [1; 0] PSrc)
              (model_out_v repaired (FDelim 3) (layout (FDelim 3) w_bed) (PIdx [1; 0] PSrc)) = true.
Proof. vm_compute. reflexivity. Qed.
Example C04_sam_fixed_witness :
  spec_out_ok FSam w_sam (PRepl 4 [[55]] PSrc) (model_out_v repaired FSam (layout FSam w_sam) (PRepl 4 [[55]] PSrc)) = true.
Proof. vm_compute. reflexivity. Qed.

(* non-vacuity: a concrete BED6-like file with unequal record lengths meets the hypotheses of the main theorems, and a
   program with selection, intermediate write, concatenation and replacement produces the expected bytes *)
Definition nv_recs := [ {| g_cols := [unhex "63687231"; unhex "3031"; unhex "2b35"; unhex "6e31"]; g_eol := [10] |};
                        {| g_cols := [unhex "63"; unhex "33"; unhex "3430"; unhex "6e616d6532"]; g_eol := [10] |};
                        {| g_cols := [unhex "6368723232"; unhex "35"; unhex "36"; unhex "2e"]; g_eol := [10] |} ].
Example C04_nonvacuous :
  exists x0, read pinned (FDelim 4) (layout (FDelim 4) nv_recs) = Some (SLazy x0 []) /\ inv_b x0 = true
    /\ list_eqb arow_eqb (view x0) (map (gview (FDelim 4)) nv_recs) = true
    /\ model_out_v pinned (FDelim 4) (layout (FDelim 4) nv_recs)
         (PRepl 2 [unhex "37"; unhex "3838"; unhex "39"]
            (PCat [PIdx [0] (PTouch (PIdx [2; 0] PSrc)); PIdx [1; 1] PSrc]))
       = Some (unhex "636872323209350937092e0a630933093838096e616d65320a6309330939096e616d65320a").
Proof. eexists. split; [vm_compute; reflexivity|]. vm_compute. repeat split; reflexivity. Qed.
(* ... and the same records meet the hypotheses of C04_from_raw_delimited / C04_delimited_end_to_end with k = 4 *)
Example C04_nonvacuous_wf : Forall (rec_wf 4) nv_recs /\ nv_recs <> [] /\ delimited (FDelim 4) /\ wide_enough (FDelim 4) 4.
Proof.
  split; [|split; [discriminate|split; exact I]].
  repeat constructor; unfold TAB, LF, CR; simpl; try lia; try discriminate.
Qed.

(* non-vacuity of the phase-3 hypotheses: concrete records meet them, and a replacing program on the CRLF BED witness
   produces (repaired variant) bytes accepted by the Spec *)
Definition w_fq := [ {| g_cols := [unhex "7231"; unhex "4143"; unhex "7231"; unhex "4923"]; g_eol := [13; 10] |} ].
Example C04_nonvacuous_phase3 :
  Forall sam_rec_wf w_sam /\ Forall (ol_rec_wf FFastq [13]) w_fq /\ Forall (rec_wf2 3 [13; 10]) w_bed
  /\ exact_fmt (FDelim 3) 3 /\ fields_ok 3 (PRepl 2 [[55]; [56]] (PIdx [1; 0] PSrc)) = true
  /\ spec_out_ok (FDelim 3) w_bed (PRepl 2 [[55]; [56]] (PIdx [1; 0] PSrc))
       (model_out_v repaired (FDelim 3) (layout (FDelim 3) w_bed) (PRepl 2 [[55]; [56]] (PIdx [1; 0] PSrc))) = true.
Proof.
  split; [|split; [|split; [|split; [|split]]]]; try reflexivity.
  - repeat constructor; unfold TAB, LF, CR; simpl; try lia; try discriminate.
  - repeat constructor; unfold TAB, LF, CR; simpl; try lia; try discriminate.
  - repeat constructor; unfold TAB, LF, CR; simpl; try lia; try discriminate.
  - unfold exact_fmt. split; [left; reflexivity|lia].
Qed.

(* ================= round 6: the classes that were correspondence-only at byte level ================= *)

(* FASTQ / two-line FASTA, EVERY accepted program (file bytes -> written bytes), LF and CRLF files of any size: selections,
   replacement of any subset of the entry fields (name, sequence, quality), np.concatenate — which for these buffers parses
   every operand and yields an eager table re-joined by from_data — and any nesting of these with intermediate writes.
   The written bytes satisfy the byte-level Spec: pure selections are the original bytes; otherwise every row is rendered from
   its columns, each with its original or its replaced text, in the order the program denotes ('+name' may become '+',
   CRLF may become LF: not fields of the entry type). *)
Theorem C04_oneline_program_end_to_end :
  forall v f cr recs p out,
    oneline f -> recs <> [] -> (cr = [] \/ cr = [CR]) -> Forall (ol_rec_wf f cr) recs ->
    fields_ok (n_fields f) p = true ->
    model_out_v v f (layout f recs) p = Some out -> spec_out_ok f recs p (Some out) = true.
Proof. exact oneline_program_end_to_end. Qed.
Print Assumptions C04_oneline_program_end_to_end.

(* the invariant behind it: whatever program was run, the table's rows of field texts (lazy: replaced columns + texts read
   off the record bytes; eager: the parsed rows) are exactly the entry fields of the rows the Spec's evaluation denotes *)
Theorem C04_oneline_rows :
  forall f e recs x0, oneline f -> Inv x0 ->
    lazy_rows f x0 [] = map (fun g => efields f (g_cols g)) recs ->
    Forall (okrow f e) (map (srow_of f) recs) ->
    forall p st, fields_ok (n_fields f) p = true -> run f (SLazy x0 []) p = Some st ->
      frows f st = map (fun r => efields f (s_cols r)) (fst (spec_eval f (map (srow_of f) recs) p))
      /\ Forall (okrow f e) (fst (spec_eval f (map (srow_of f) recs) p)) /\ st_ok st
      /\ (snd (spec_eval f (map (srow_of f) recs) p) = false -> modified st = true).
Proof. exact ol_run. Qed.
Print Assumptions C04_oneline_rows.

(* SAM (11 mandatory fields + optional tags, repaired join) with LF **or CRLF** line ends: every accepted program,
   replacements included.  On a CRLF source the 11th field and the tags are fetched without the CR; re-joined rows end in LF *)
Theorem C04_sam_program_crlf_end_to_end :
  forall v e recs p out,
    v_samtab v = true -> recs <> [] -> (e = [LF] \/ e = [CR; LF]) -> Forall (sam_rec_wf2 e) recs ->
    Forall (fun r => Forall (fun c : list Z => c <> []) (skipn 11 (g_cols r))) recs ->
    fields_ok 11 p = true ->
    model_out_v v FSam (layout FSam recs) p = Some out -> spec_out_ok FSam recs p (Some out) = true.
Proof. exact sam_program_end_to_end2. Qed.
Print Assumptions C04_sam_program_crlf_end_to_end.

(* VCFBuffer2 (8 plain fields + FORMAT/genotype columns) with LF or CRLF line ends (CRLF: repaired extractor): every accepted
   program, replacements included.  On a CRLF source the rest-of-line text carries the CR, re-joined rows end in CR LF *)
Theorem C04_vcf2_program_crlf_end_to_end :
  forall v k e recs p out,
    (9 <= k)%nat -> recs <> [] -> (e = [LF] \/ (e = [CR; LF] /\ v_crlf v = true)) -> Forall (rec_wf2 k e) recs ->
    fields_ok 8 p = true ->
    model_out_v v (FVcf 9) (layout (FVcf 9) recs) p = Some out -> spec_out_ok (FVcf 9) recs p (Some out) = true.
Proof. exact vcf2_program_end_to_end2. Qed.
Print Assumptions C04_vcf2_program_crlf_end_to_end.

(* the same with the hypotheses on the extractor explicit (usable with the per-file check hyp_ok) *)
Theorem C04_rest_program_meets_spec :
  forall v f m e recs x0 p out,
    rest_fmt f m -> (f = FSam -> v_samtab v = true) -> (e = [LF] \/ e = [CR; LF]) ->
    read v f (layout f recs) = Some (SLazy x0 []) -> Inv x0 -> view x0 = map (gview f) recs ->
    Forall (rec_rest2 f e) recs -> fields_ok m p = true ->
    model_out_v v f (layout f recs) p = Some out -> spec_out_ok f recs p (Some out) = true.
Proof. exact rest_program_end_to_end2. Qed.
Print Assumptions C04_rest_program_meets_spec.

(* non-vacuity of the round-6 hypotheses: concrete CRLF records meet them; the programs are accepted (output is Some ...) and
   the outputs are the expected bytes *)
Definition w_fq2 := [ {| g_cols := [unhex "7231"; unhex "4143"; unhex "7231"; unhex "4923"]; g_eol := [13; 10] |};
                      {| g_cols := [unhex "78"; unhex ""; unhex ""; unhex ""]; g_eol := [13; 10] |} ].
Definition p_fq2 := PRepl 2 [unhex "2121"; unhex ""; unhex "3f"] (PIdx [0; 1; 0] (PCat [PIdx [1] PSrc; PRepl 0 [unhex "6e"; unhex ""] PSrc])).
Example C04_nonvacuous_oneline :
  Forall (ol_rec_wf FFastq [13]) w_fq2 /\ w_fq2 <> [] /\ fields_ok (n_fields FFastq) p_fq2 = true
  /\ model_out_v repaired FFastq (layout FFastq w_fq2) p_fq2
      = Some (unhex "40780a0a2b0a21210a" ++ unhex "406e0a41430a2b0a0a" ++ unhex "40780a0a2b0a3f0a")
  /\ spec_out_ok FFastq w_fq2 p_fq2 (model_out_v repaired FFastq (layout FFastq w_fq2) p_fq2) = true.
Proof.
  split; [|split; [discriminate|split; [reflexivity|split; vm_compute; reflexivity]]].
  repeat constructor; unfold TAB, LF, CR; simpl; try lia; try discriminate.
Qed.

Definition w_vcf2_crlf := [ {| g_cols := g_cols (hd {| g_cols := []; g_eol := [] |} w_vcf); g_eol := [13; 10] |};
                            {| g_cols := unhex "6368723232" :: tl (g_cols (hd {| g_cols := []; g_eol := [] |} w_vcf)); g_eol := [13; 10] |} ].
Definition p_rest := PRepl 2 [unhex "78"; unhex ""; unhex "7979"] (PIdx [1; 1; 0] PSrc).
Example C04_nonvacuous_rest_crlf :
  Forall (sam_rec_wf2 [13; 10]) w_sam_crlf /\ fields_ok 11 p_rest = true
  /\ (exists o, model_out_v repaired FSam (layout FSam w_sam_crlf) p_rest = Some o /\ spec_out_ok FSam w_sam_crlf p_rest (Some o) = true)
  /\ Forall (rec_wf2 10 [13; 10]) w_vcf2_crlf
  /\ (exists o, model_out_v repaired (FVcf 9) (layout (FVcf 9) w_vcf2_crlf) p_rest = Some o
                 /\ spec_out_ok (FVcf 9) w_vcf2_crlf p_rest (Some o) = true).
Proof.
  split; [|split; [reflexivity|split; [eexists; split; vm_compute; reflexivity|split; [|eexists; split; vm_compute; reflexivity]]]].
  - repeat constructor; unfold TAB, LF, CR; simpl; try lia; try discriminate.
  - repeat constructor; unfold TAB, LF, CR; simpl; try lia; try discriminate.
Qed.

(* HISTORY (code before /repo ddae115, explicit `pinned` variant): a LAZY FASTQ table whose quality column was replaced could not
   be written (get_column refused a RaggedArray of qualities); the Spec accepts a refusal only for BAM.  Repaired: see
   C04_oneline_write_total and C04_lazy_quality_fixed_witness below. *)
Theorem C04_fastq_lazy_quality_refuted :
  exists recs p, fields_ok (n_fields FFastq) p = true
    /\ spec_out_ok FFastq recs p (model_out_v pinned FFastq (layout FFastq recs) p) = false.
Proof. exists w_fq2, (PRepl 2 [unhex "4949"; unhex ""] PSrc). vm_compute. split; reflexivity. Qed.
Print Assumptions C04_fastq_lazy_quality_refuted.

(* SOURCE TIE for the one-line buffers (round 6): OneLineBuffer.join_fields / FastQBuffer.join_fields regenerated from the
   source — every output line has the allocated length field_length + 1 + _line_offsets[i]; the model's re-joined FASTQ / FASTA
   row IS the source's join (header character, '+' line inserted at position 2, line feeds) with the class constants of this
   checkout (HEADER, n_lines_per_entry, _line_offsets), and the reader is run with the same constants *)
Theorem C04_source_tie_oneline :
  (forall hdr off fld, (off = 0 \/ off = 1) -> len (ol_line hdr off fld) = gen_ol_line_add (gen_ol_line_len0 (len fld)) off)
  /\ (forall v flds, List.length flds = 3%nat -> join_row v FFastq flds = ol_join_src gen_fq_header gen_fq_line_offsets (fq_fields_src flds))
  /\ (forall v flds, List.length flds = 2%nat -> join_row v FFasta flds = ol_join_src gen_fa_header gen_fa_line_offsets flds)
  /\ (forall v data,
        read v FFastq data = option_map (fun x => SLazy x []) (from_oneline gen_fq_n_lines gen_fq_line_offsets data)
        /\ read v FFasta data = option_map (fun x => SLazy x []) (from_oneline gen_fa_n_lines gen_fa_line_offsets data)).
Proof. exact (conj b_ol_line_len (conj b_fq_join (conj b_fa_join b_ol_read))). Qed.
Print Assumptions C04_source_tie_oneline.

(* ================= round 6 re-sync (/repo 1078c5e): nothing is refused any more for the one-line buffers ================= *)
(* with the repaired get_column (v_lazyqual, the variant in force) every FASTQ / FASTA table — lazy with any replaced columns,
   quality included, or eager — is written: C04_oneline_program_end_to_end has no refusal branch left *)
Theorem C04_oneline_write_total :
  forall v f st, oneline f -> v_lazyqual v = true -> exists out, write v f st = Some out.
Proof. exact write_total. Qed.
Print Assumptions C04_oneline_write_total.

(* the former witness of the refusal, and a MIXED concatenation (an eager operand = an earlier concatenation, next to lazy
   operands, one of them with a replaced quality column — since /repo 5965ca7 an ordinary program), under the variant in force *)
Definition p_mixed := PCat [PCat [PIdx [1] PSrc; PSrc]; PRepl 2 [unhex "4949"; unhex ""] PSrc; PIdx [0] PSrc].
Example C04_lazy_quality_fixed_witness :
  v_lazyqual current = true
  /\ model_out_v current FFastq (layout FFastq w_fq2) (PRepl 2 [unhex "4949"; unhex ""] PSrc)
      = Some (unhex "4072310a41430a2b0a49490a" ++ unhex "40780a0a2b0a0a")
  /\ spec_out_ok FFastq w_fq2 (PRepl 2 [unhex "4949"; unhex ""] PSrc)
        (model_out_v current FFastq (layout FFastq w_fq2) (PRepl 2 [unhex "4949"; unhex ""] PSrc)) = true
  /\ fields_ok (n_fields FFastq) p_mixed = true
  /\ (exists o, model_out_v current FFastq (layout FFastq w_fq2) p_mixed = Some o /\ List.length o = 57%nat
                 /\ spec_out_ok FFastq w_fq2 p_mixed (Some o) = true).
Proof.
  split; [reflexivity|]. split; [vm_compute; reflexivity|]. split; [vm_compute; reflexivity|]. split; [reflexivity|].
  eexists. split; [vm_compute; reflexivity|]. split; vm_compute; reflexivity.
Qed.

(* Proofs/C04_raw.v — T1 for tab-delimited LF files: the extractor DelimitedBuffer.from_raw_buffer builds from the
   layout of ANY list of records (>= 1 record, the same number k >= 1 of columns each, columns free of TAB/LF/CR)
   is well-formed and has exactly the abstraction the records define. *)
From Coq Require Import ZArith List Bool Lia.
From BNP Require Import Base.Prims Base.PrimsFacts Model.C04 Proofs.C04.
Import ListNotations.
Open Scope Z_scope.

Definition isd (c : Z) : bool := (c =? LF) || (c =? TAB).
Definition clean (c : list Z) : Prop := Forall (fun b => b <> TAB /\ b <> LF /\ b <> CR) c.

Lemma fnz_clean c : forall pos rest, clean c ->
  flatnonzero_from pos (map isd (c ++ rest)) = flatnonzero_from (pos + len c) (map isd rest).
Proof.
  induction c as [|a c IH]; intros pos rest H; simpl.
  - rewrite len_nil. f_equal. lia.
  - inversion H as [|? ? (H1 & H2 & H3) Hc]; subst. unfold isd at 1. unfold TAB, LF in *.
    destruct (Z.eqb_spec a 10); try lia. destruct (Z.eqb_spec a 9); try lia. simpl.
    rewrite IH by auto. rewrite len_cons. f_equal. lia.
Qed.

Lemma fnz_delim d pos rest : isd d = true ->
  flatnonzero_from pos (map isd (d :: rest)) = pos :: flatnonzero_from (pos + 1) (map isd rest).
Proof. intros H. simpl. rewrite H. reflexivity. Qed.

Fixpoint delims_rec (pos : Z) (cols : list (list Z)) : list Z :=
  match cols with [] => [] | c :: r => (pos + len c) :: delims_rec (pos + len c + 1) r end.

Lemma intercalate_cons2 sep (c c' : list Z) r : intercalate sep (c :: c' :: r) = c ++ sep ++ intercalate sep (c' :: r).
Proof. reflexivity. Qed.

Lemma len_intercalate cols : cols <> [] ->
  len (intercalate [TAB] cols) + 1 = sumZ (map (fun c => len c + 1) cols).
Proof.
  induction cols as [|c cols IH]; intros H; [congruence|].
  destruct cols as [|c' r].
  - simpl. lia.
  - rewrite intercalate_cons2. rewrite !len_app. change (len [TAB]) with 1.
    simpl map. simpl sumZ. simpl map in IH. simpl sumZ in IH. rewrite <- IH by discriminate. lia.
Qed.

Lemma fnz_cols cols : forall pos rest, cols <> [] -> Forall clean cols ->
  flatnonzero_from pos (map isd (intercalate [TAB] cols ++ [LF] ++ rest))
  = delims_rec pos cols ++ flatnonzero_from (pos + len (intercalate [TAB] cols) + 1) (map isd rest).
Proof.
  induction cols as [|c cols IH]; intros pos rest Hn Hc; [congruence|].
  inversion Hc as [|? ? Hc1 Hc2]; subst.
  destruct cols as [|c' r].
  - simpl intercalate. rewrite fnz_clean by auto. change ([LF] ++ rest) with (LF :: rest). rewrite fnz_delim by reflexivity. reflexivity.
  - rewrite intercalate_cons2. specialize (IH (pos + len c + 1) rest).
    set (I := intercalate [TAB] (c' :: r)) in *.
    rewrite <- !app_assoc. rewrite fnz_clean by auto.
    change ([TAB] ++ I ++ [LF] ++ rest) with (TAB :: (I ++ [LF] ++ rest)).
    rewrite fnz_delim by reflexivity.
    rewrite IH by (auto; discriminate).
    change (delims_rec pos (c :: c' :: r)) with ((pos + len c) :: delims_rec (pos + len c + 1) (c' :: r)).
    rewrite <- app_comm_cons. f_equal. f_equal. f_equal.
    rewrite !len_app. change (len [TAB]) with 1. lia.
Qed.

(* ---- records ---- *)
Definition lraw (r : grec) : list Z := intercalate [TAB] (g_cols r) ++ [LF].
Definition rec_wf (k : nat) (r : grec) : Prop :=
  length (g_cols r) = k /\ Forall clean (g_cols r) /\ g_eol r = [LF].
Fixpoint blocks (pos : Z) (recs : list grec) : list (list Z) :=
  match recs with [] => [] | r :: rs => delims_rec pos (g_cols r) :: blocks (pos + len (lraw r)) rs end.

Lemma len_lraw r : len (lraw r) = len (intercalate [TAB] (g_cols r)) + 1.
Proof. unfold lraw. rewrite len_app. reflexivity. Qed.

Lemma cols_nonempty k r : (1 <= k)%nat -> rec_wf k r -> g_cols r <> [].
Proof. intros Hk (H & _). destruct (g_cols r); simpl in *; [lia|discriminate]. Qed.

Lemma fnz_layout k recs : forall pos, (1 <= k)%nat -> Forall (rec_wf k) recs ->
  flatnonzero_from pos (map isd (concat (map lraw recs))) = concat (blocks pos recs).
Proof.
  induction recs as [|r rs IH]; intros pos Hk H; simpl; auto.
  inversion H as [|? ? Hr Hrs]; subst. pose proof (cols_nonempty k r Hk Hr) as Hn. destruct Hr as (_ & Hc & _).
  unfold lraw at 1. rewrite <- app_assoc. rewrite fnz_cols by auto. f_equal.
  replace (pos + len (intercalate [TAB] (g_cols r)) + 1) with (pos + len (lraw r)) by (rewrite len_lraw; lia).
  apply IH; auto.
Qed.

(* characters found at the delimiter positions = the delimiter characters of the text, in order *)
Lemma nth_at_delims (p : Z -> bool) l : forall pre,
  map (nthZ (pre ++ l)) (flatnonzero_from (len pre) (map p l)) = filter p l.
Proof.
  induction l as [|a l IH]; intros pre; simpl; auto.
  specialize (IH (pre ++ [a])). rewrite len_app in IH. change (len [a]) with 1 in IH.
  rewrite <- app_assoc in IH. simpl in IH.
  destruct (p a); simpl.
  - f_equal; auto. unfold nthZ. rewrite Nat2Z.id || idtac.
    unfold len. rewrite Nat2Z.id. rewrite app_nth2 by lia. rewrite Nat.sub_diag. reflexivity.
  - auto.
Qed.

Lemma filter_clean c rest : clean c -> filter isd (c ++ rest) = filter isd rest.
Proof.
  induction 1 as [|a c (H1 & H2 & H3) Hc IH]; simpl; auto.
  unfold isd at 1. unfold TAB, LF in *.
  destruct (Z.eqb_spec a 10); try lia. destruct (Z.eqb_spec a 9); try lia. simpl. auto.
Qed.

Lemma filter_cols cols : forall rest, cols <> [] -> Forall clean cols ->
  filter isd (intercalate [TAB] cols ++ [LF] ++ rest) = repeat TAB (length cols - 1) ++ LF :: filter isd rest.
Proof.
  induction cols as [|c cols IH]; intros rest Hn Hc; [congruence|].
  inversion Hc as [|? ? Hc1 Hc2]; subst.
  destruct cols as [|c' r].
  - simpl intercalate. rewrite filter_clean by auto. reflexivity.
  - rewrite intercalate_cons2. specialize (IH rest).
    set (I := intercalate [TAB] (c' :: r)) in *.
    rewrite <- !app_assoc. rewrite filter_clean by auto.
    change ([TAB] ++ I ++ [LF] ++ rest) with (TAB :: (I ++ [LF] ++ rest)).
    change (filter isd (TAB :: (I ++ [LF] ++ rest))) with (TAB :: filter isd (I ++ [LF] ++ rest)).
    rewrite IH by (auto; discriminate).
    replace (length (c :: c' :: r) - 1)%nat with (S (length (c' :: r) - 1))%nat by (simpl; lia). reflexivity.
Qed.

Lemma filter_layout k recs : (1 <= k)%nat -> Forall (rec_wf k) recs ->
  filter isd (concat (map lraw recs)) = concat (map (fun _ => repeat TAB (k - 1) ++ [LF]) recs).
Proof.
  intros Hk. induction 1 as [|r rs Hr Hrs IH]; simpl; auto.
  pose proof (cols_nonempty k r Hk Hr) as Hn. destruct Hr as (HL & Hc & _).
  unfold lraw at 1. rewrite <- app_assoc. rewrite filter_cols by auto. rewrite IH, HL.
  rewrite <- app_assoc. reflexivity.
Qed.

(* positions of LF among the delimiter characters: the last of every k *)
Fixpoint ends_idx (k : Z) (i : Z) (n : nat) : list Z :=
  match n with O => [] | S m => (i + k - 1) :: ends_idx k (i + k) m end.

Lemma fnz_repeat_tab i m rest :
  flatnonzero_from i (map (fun c => c =? LF) (repeat TAB m ++ rest)) = flatnonzero_from (i + Z.of_nat m) (map (fun c => c =? LF) rest).
Proof.
  revert i; induction m as [|m IH]; intros i.
  - simpl. f_equal. lia.
  - change (repeat TAB (S m) ++ rest) with (TAB :: (repeat TAB m ++ rest)). simpl map. simpl flatnonzero_from.
    rewrite IH. f_equal. lia.
Qed.

Lemma fnz_entry_ends k {A} (recs : list A) : forall i, (1 <= k)%nat ->
  flatnonzero_from i (map (fun c => c =? LF) (concat (map (fun _ => repeat TAB (k - 1) ++ [LF]) recs)))
  = ends_idx (Z.of_nat k) i (length recs).
Proof.
  induction recs as [|r rs IH]; intros i Hk; simpl; auto.
  rewrite <- app_assoc. rewrite fnz_repeat_tab.
  change ([LF] ++ concat (map (fun _ : A => repeat TAB (k - 1) ++ [LF]) rs))
    with (LF :: concat (map (fun _ : A => repeat TAB (k - 1) ++ [LF]) rs)).
  simpl map. simpl flatnonzero_from. rewrite IH by auto.
  replace (i + Z.of_nat (k - 1)) with (i + Z.of_nat k - 1) by lia.
  replace (i + Z.of_nat k - 1 + 1) with (i + Z.of_nat k) by lia. reflexivity.
Qed.

Lemma last_ends_idx k n : forall i, (1 <= n)%nat -> last (ends_idx k i n) 0 = i + Z.of_nat n * k - 1.
Proof.
  induction n as [|n IH]; intros i Hn; [lia|].
  destruct n as [|n].
  - unfold ends_idx, last. lia.
  - change (ends_idx k i (S (S n))) with ((i + k - 1) :: ends_idx k (i + k) (S n)).
    change (last ((i + k - 1) :: ends_idx k (i + k) (S n)) 0) with (last (ends_idx k (i + k) (S n)) 0).
    rewrite IH by lia. lia.
Qed.

Lemma length_delims_rec cols : forall pos, length (delims_rec pos cols) = length cols.
Proof. induction cols; intros; simpl; auto. Qed.

Lemma length_blocks k recs : forall pos, Forall (rec_wf k) recs ->
  length (concat (blocks pos recs)) = (length recs * k)%nat.
Proof.
  induction recs as [|r rs IH]; intros pos H; simpl; auto.
  inversion H as [|? ? (HL & _) Hrs]; subst. rewrite app_length, length_delims_rec, IH by auto. lia.
Qed.

Lemma last_delims_rec cols : forall pos, cols <> [] ->
  last (delims_rec pos cols) 0 = pos + len (intercalate [TAB] cols).
Proof.
  induction cols as [|c cols IH]; intros pos Hn; [congruence|].
  destruct cols as [|c' r].
  - reflexivity.
  - change (delims_rec pos (c :: c' :: r)) with ((pos + len c) :: delims_rec (pos + len c + 1) (c' :: r)).
    change (last ((pos + len c) :: delims_rec (pos + len c + 1) (c' :: r)) 0)
      with (last (delims_rec (pos + len c + 1) (c' :: r)) 0).
    rewrite IH by discriminate. rewrite intercalate_cons2, !len_app. change (len [TAB]) with 1. lia.
Qed.

Lemma last_app_ne {A} (a b : list A) d : b <> [] -> last (a ++ b) d = last b d.
Proof. intros H. induction a as [|x a IH]; simpl; auto. destruct (a ++ b) eqn:E; auto. destruct a; destruct b; simpl in *; congruence. Qed.

Lemma blocks_ne k recs pos : (1 <= k)%nat -> Forall (rec_wf k) recs -> recs <> [] -> concat (blocks pos recs) <> [].
Proof.
  intros Hk H Hn. destruct recs as [|r rs]; [congruence|]. inversion H as [|? ? Hr _]; subst.
  pose proof (cols_nonempty k r Hk Hr). simpl. destruct (g_cols r); [congruence|]. simpl. discriminate.
Qed.

Lemma last_blocks k recs : forall pos, (1 <= k)%nat -> Forall (rec_wf k) recs -> recs <> [] ->
  last (concat (blocks pos recs)) 0 = pos + len (concat (map lraw recs)) - 1.
Proof.
  induction recs as [|r rs IH]; intros pos Hk H Hn; [congruence|].
  inversion H as [|? ? Hr Hrs]; subst. pose proof (cols_nonempty k r Hk Hr) as Hc.
  change (blocks pos (r :: rs)) with (delims_rec pos (g_cols r) :: blocks (pos + len (lraw r)) rs).
  change (map lraw (r :: rs)) with (lraw r :: map lraw rs).
  rewrite !concat_cons, len_app. destruct rs as [|r' rs'].
  - change (concat (blocks (pos + len (lraw r)) [])) with (@nil Z). change (concat (map lraw [])) with (@nil Z).
    rewrite app_nil_r. change (len (@nil Z)) with 0. rewrite last_delims_rec by auto. rewrite len_lraw. lia.
  - rewrite last_app_ne by (apply (blocks_ne k); auto; discriminate).
    rewrite IH by (auto; discriminate). lia.
Qed.

(* ---- reshape ---- *)
Lemma chunks_of_concat {A} (k : nat) (bs : list (list A)) : (1 <= k)%nat ->
  Forall (fun b => length b = k) bs -> chunks_of k (concat bs) = bs.
Proof.
  intros Hk. induction 1 as [|b bs Hb Hbs IH]; simpl; auto.
  rewrite chunks_of_app_exact by auto. f_equal; auto.
Qed.

Lemma reshape_concat (k : nat) (bs : list (list Z)) : (1 <= k)%nat ->
  Forall (fun b => length b = k) bs -> reshape (Z.of_nat k) (concat bs) = Some bs.
Proof.
  intros Hk H. unfold reshape.
  assert (L : len (concat bs) = Z.of_nat (length bs) * Z.of_nat k).
  { unfold len. induction H as [|b bs Hb Hbs IH]; [reflexivity|]. rewrite concat_cons, app_length, Nat2Z.inj_add, IH, Hb.
    change (length (b :: bs)) with (S (length bs)). rewrite Nat2Z.inj_succ. ring. }
  rewrite L, Z_mod_mult. replace (0 <? Z.of_nat k) with true by (symmetry; apply Z.ltb_lt; lia). simpl.
  rewrite Nat2Z.id. rewrite chunks_of_concat; auto.
Qed.

(* the "previous delimiter" table: removelast (-1 :: delimiters), block by block *)
Fixpoint sblocks (prev pos : Z) (recs : list grec) : list (list Z) :=
  match recs with
  | [] => []
  | r :: rs => (prev :: removelast (delims_rec pos (g_cols r)))
               :: sblocks (pos + len (lraw r) - 1) (pos + len (lraw r)) rs
  end.

Lemma removelast_cons_app {A} (a : A) (b rest : list A) d : b <> [] ->
  removelast (a :: b ++ rest) = (a :: removelast b) ++ removelast (last b d :: rest).
Proof.
  intros Hb. rewrite (app_removelast_last d Hb) at 1. rewrite <- app_assoc.
  change (a :: removelast b ++ [last b d] ++ rest) with ((a :: removelast b) ++ (last b d :: rest)).
  apply removelast_app. discriminate.
Qed.

Lemma delims_rec_ne pos cols : cols <> [] -> delims_rec pos cols <> [].
Proof. destruct cols; [congruence|discriminate]. Qed.

Lemma removelast_blocks k recs : forall prev pos, (1 <= k)%nat -> Forall (rec_wf k) recs ->
  removelast (prev :: concat (blocks pos recs)) = concat (sblocks prev pos recs).
Proof.
  induction recs as [|r rs IH]; intros prev pos Hk H; [reflexivity|].
  inversion H as [|? ? Hr Hrs]; subst. pose proof (cols_nonempty k r Hk Hr) as Hc.
  change (blocks pos (r :: rs)) with (delims_rec pos (g_cols r) :: blocks (pos + len (lraw r)) rs).
  change (sblocks prev pos (r :: rs)) with
    ((prev :: removelast (delims_rec pos (g_cols r))) :: sblocks (pos + len (lraw r) - 1) (pos + len (lraw r)) rs).
  rewrite !concat_cons.
  rewrite (removelast_cons_app prev _ _ 0) by (apply delims_rec_ne; auto).
  f_equal. rewrite last_delims_rec by auto.
  replace (pos + len (intercalate [TAB] (g_cols r))) with (pos + len (lraw r) - 1) by (rewrite len_lraw; lia).
  apply IH; auto.
Qed.

Lemma sblocks_length k recs : forall prev pos, (1 <= k)%nat -> Forall (rec_wf k) recs ->
  Forall (fun b => length b = k) (sblocks prev pos recs).
Proof.
  induction recs as [|r rs IH]; intros prev pos Hk H; simpl; constructor.
  - inversion H as [|? ? Hr Hrs]; subst. pose proof (cols_nonempty k r Hk Hr) as Hc. destruct Hr as (HL & _).
    simpl. rewrite removelast_length || idtac.
    assert (length (removelast (delims_rec pos (g_cols r))) = (k - 1)%nat).
    { rewrite <- HL, <- (length_delims_rec (g_cols r) pos).
      pose proof (delims_rec_ne pos _ Hc) as Hd. rewrite (app_removelast_last 0 Hd) at 2.
      rewrite app_length. simpl. lia. }
    lia.
  - inversion H; subst. apply IH; auto.
Qed.

Lemma blocks_length k recs : forall pos, Forall (rec_wf k) recs ->
  Forall (fun b => length b = k) (blocks pos recs).
Proof.
  induction recs as [|r rs IH]; intros pos H; simpl; constructor.
  - inversion H as [|? ? (HL & _) _]; subst. rewrite length_delims_rec. auto.
  - inversion H; subst. apply IH; auto.
Qed.

(* ---- no carriage returns in an LF file ---- *)
Lemma nthZ_no_cr data i : Forall (fun b => b <> CR) data -> (nthZ data i =? CR) = false.
Proof.
  intros H. apply Z.eqb_neq. unfold nthZ. destruct (nth_in_or_default (Z.to_nat i) data 0) as [Hin|Hd].
  - rewrite Forall_forall in H. apply H; auto.
  - rewrite Hd. unfold CR. lia.
Qed.
Lemma modify_cr_none data en : Forall (fun b => b <> CR) data -> modify_cr_last data en = en.
Proof.
  intros H. unfold modify_cr_last. destruct en as [|r0 en']; auto.
  destruct ((len data =? 0) || (last0 r0 =? 0)); auto. rewrite nthZ_no_cr by auto. reflexivity.
Qed.
Lemma no_cr_intercalate cols : Forall clean cols -> Forall (fun b => b <> CR) (intercalate [TAB] cols).
Proof.
  induction 1 as [|c cols Hc Hcs IH]; [constructor|].
  assert (Hcc : Forall (fun b => b <> CR) c) by (eapply Forall_impl; [|exact Hc]; intros b (_ & _ & Hb); auto).
  destruct cols as [|c' r]; [exact Hcc|].
  rewrite intercalate_cons2. apply Forall_app; split; auto. apply Forall_app; split; auto.
  constructor; [unfold TAB, CR; lia|constructor].
Qed.
Lemma no_cr_layout k recs : Forall (rec_wf k) recs -> Forall (fun b => b <> CR) (concat (map lraw recs)).
Proof.
  induction 1 as [|r rs (_ & Hc & _) Hrs IH]; simpl; [constructor|].
  apply Forall_app; split; auto. unfold lraw. apply Forall_app; split; [apply no_cr_intercalate; auto|].
  constructor; [unfold LF, CR; lia|constructor].
Qed.

(* ---- columns: starts, lengths, delimiters ---- *)
Lemma delims_rec_offsets cols : forall pos,
  delims_rec pos cols = map (fun sl => fst sl + snd sl) (col_offsets pos cols).
Proof. induction cols; intros; simpl; f_equal; auto. Qed.
Lemma starts_offsets cols : forall pos, cols <> [] ->
  map (Z.add 1) ((pos - 1) :: removelast (delims_rec pos cols)) = map fst (col_offsets pos cols).
Proof.
  induction cols as [|c cols IH]; intros pos Hn; [congruence|].
  destruct cols as [|c' r].
  - unfold delims_rec, col_offsets, removelast, map, fst. f_equal. lia.
  - change (delims_rec pos (c :: c' :: r)) with ((pos + len c) :: delims_rec (pos + len c + 1) (c' :: r)).
    change (col_offsets pos (c :: c' :: r)) with ((pos, len c) :: col_offsets (pos + len c + 1) (c' :: r)).
    specialize (IH (pos + len c + 1)).
    assert (Hd : delims_rec (pos + len c + 1) (c' :: r) <> []) by discriminate.
    set (D := delims_rec (pos + len c + 1) (c' :: r)) in *.
    change (removelast ((pos + len c) :: D)) with (match D with [] => [] | _ :: _ => (pos + len c) :: removelast D end).
    destruct D as [|d D'] eqn:ED; [congruence|].
    rewrite !map_cons. unfold fst at 1. f_equal; [lia|].
    rewrite <- IH by discriminate. rewrite !map_cons. f_equal. lia.
Qed.
Lemma lens_offsets cols : forall pos,
  vsub (delims_rec pos cols) (map fst (col_offsets pos cols)) = map snd (col_offsets pos cols).
Proof. unfold vsub. induction cols; intros; simpl; f_equal; auto. lia. Qed.
Lemma hd_offsets cols pos : cols <> [] -> hd0 (map fst (col_offsets pos cols)) = pos.
Proof. destruct cols; [congruence|reflexivity]. Qed.
Lemma col_offsets_shift cols : forall pos,
  combine (map (fun a => a - pos) (map fst (col_offsets pos cols))) (map snd (col_offsets pos cols)) = col_offsets 0 cols.
Proof.
  assert (G : forall cols pos q, combine (map (fun a => a - pos) (map fst (col_offsets (pos + q) cols))) (map snd (col_offsets (pos + q) cols))
                                 = col_offsets q cols).
  { induction cols0 as [|c cols0 IH]; intros pos q; simpl; auto. f_equal; [f_equal; lia|].
    replace (pos + q + len c + 1) with (pos + (q + len c + 1)) by lia. apply IH. }
  intros pos. specialize (G cols pos 0). rewrite Z.add_0_r in G. exact G.
Qed.
Lemma col_offsets_ok cols : forall pos,
  Forall (fun al => pos <= fst al /\ 0 <= snd al /\ fst al + snd al + 1 <= pos + sumZ (map (fun c => len c + 1) cols))
         (col_offsets pos cols).
Proof.
  induction cols as [|c cols IH]; intros pos; simpl; constructor.
  - simpl. pose proof (len_nonneg c).
    assert (0 <= sumZ (map (fun c => len c + 1) cols)).
    { clear. induction cols; simpl; try lia. pose proof (len_nonneg a). lia. }
    lia.
  - specialize (IH (pos + len c + 1)). eapply Forall_impl; [|exact IH]. simpl. intros al (A & B & C).
    pose proof (len_nonneg c). lia.
Qed.

(* ---- the rows the extractor is expected to have ---- *)
Definition erow (pos : Z) (r : grec) : xrow :=
  {| r_s := pos; r_e := pos + len (lraw r);
     r_fs := map fst (col_offsets pos (g_cols r)); r_fl := map snd (col_offsets pos (g_cols r)) |}.
Fixpoint erows (pos : Z) (recs : list grec) : list xrow :=
  match recs with [] => [] | r :: rs => erow pos r :: erows (pos + len (lraw r)) rs end.

Lemma zip4_erows k recs : forall pos, (1 <= k)%nat -> Forall (rec_wf k) recs ->
  let starts := map (map (Z.add 1)) (sblocks (pos - 1) pos recs) in
  let ends := blocks pos recs in
  zip4 (map hd0 starts) (map (fun r => last0 r + 1) ends) starts (zip_with vsub ends starts) = erows pos recs.
Proof.
  induction recs as [|r rs IH]; intros pos Hk H; [reflexivity|].
  inversion H as [|? ? Hr Hrs]; subst. pose proof (cols_nonempty k r Hk Hr) as Hc.
  specialize (IH (pos + len (lraw r)) Hk Hrs).
  change (blocks pos (r :: rs)) with (delims_rec pos (g_cols r) :: blocks (pos + len (lraw r)) rs).
  change (sblocks (pos - 1) pos (r :: rs)) with
    (((pos - 1) :: removelast (delims_rec pos (g_cols r))) :: sblocks (pos + len (lraw r) - 1) (pos + len (lraw r)) rs).
  cbv zeta in *.
  set (S0 := (pos - 1) :: removelast (delims_rec pos (g_cols r))).
  set (SS := sblocks (pos + len (lraw r) - 1) (pos + len (lraw r)) rs) in *.
  set (BB := blocks (pos + len (lraw r)) rs) in *.
  change (map (map (Z.add 1)) (S0 :: SS)) with (map (Z.add 1) S0 :: map (map (Z.add 1)) SS).
  unfold S0. rewrite starts_offsets by auto.
  set (ST := map (map (Z.add 1)) SS) in *.
  change (zip_with vsub (delims_rec pos (g_cols r) :: BB) (map fst (col_offsets pos (g_cols r)) :: ST))
    with (vsub (delims_rec pos (g_cols r)) (map fst (col_offsets pos (g_cols r))) :: zip_with vsub BB ST).
  rewrite lens_offsets. rewrite !map_cons. rewrite hd_offsets by auto.
  change (zip4 (pos :: map hd0 ST) (last0 (delims_rec pos (g_cols r)) + 1 :: map (fun r0 => last0 r0 + 1) BB)
               (map fst (col_offsets pos (g_cols r)) :: ST) (map snd (col_offsets pos (g_cols r)) :: zip_with vsub BB ST))
    with ({| r_s := pos; r_e := last0 (delims_rec pos (g_cols r)) + 1;
             r_fs := map fst (col_offsets pos (g_cols r)); r_fl := map snd (col_offsets pos (g_cols r)) |}
          :: zip4 (map hd0 ST) (map (fun r0 => last0 r0 + 1) BB) ST (zip_with vsub BB ST)).
  rewrite IH. change (erows pos (r :: rs)) with (erow pos r :: erows (pos + len (lraw r)) rs).
  f_equal. unfold erow. f_equal.
  unfold last0. rewrite last_delims_rec by auto. rewrite len_lraw. lia.
Qed.

(* ---- the extractor from_raw_buffer computes ---- *)
Definition expected_ext (recs : list grec) : ext :=
  let starts := map (map (Z.add 1)) (sblocks (-1) 0 recs) in
  let ends := blocks 0 recs in
  {| x_data := concat (map lraw recs); x_fs := starts; x_fl := zip_with vsub ends starts;
     x_es := map hd0 starts; x_ee := map (fun r => last0 r + 1) ends; x_contig := true |}.

Lemma from_delimited_layout k recs fixed : (1 <= k)%nat -> recs <> [] -> Forall (rec_wf k) recs ->
  from_delimited_gen fixed (concat (map lraw recs)) = Some (expected_ext recs).
Proof.
  intros Hk Hn H. set (data := concat (map lraw recs)).
  set (DL := concat (blocks 0 recs)).
  assert (HD : flatnonzero (map (fun c => (c =? LF) || (c =? TAB)) data) = DL) by (apply (fnz_layout k recs 0); auto).
  assert (HE : flatnonzero (map (fun d => nthZ data d =? LF) DL) = ends_idx (Z.of_nat k) 0 (length recs)).
  { rewrite <- HD. unfold flatnonzero at 2.
    rewrite <- (map_map (nthZ data) (fun c => c =? LF)).
    assert (G : map (nthZ data) (flatnonzero_from 0 (map isd data)) = filter isd data) by (apply (nth_at_delims isd data [])).
    change (fun c : Z => (c =? LF) || (c =? TAB)) with isd. rewrite G.
    unfold data. rewrite (filter_layout k) by auto. apply fnz_entry_ends; auto. }
  assert (LDL : length DL = (length recs * k)%nat) by (apply length_blocks; auto).
  assert (Hlen : (1 <= length recs)%nat) by (destruct recs; simpl; [congruence|lia]).
  assert (HlastDL : last DL 0 = len data - 1).
  { unfold DL, data. rewrite (last_blocks k) by auto. lia. }
  unfold from_delimited_gen. fold data. cbv zeta. rewrite HD, HE.
  set (EE := ends_idx (Z.of_nat k) 0 (length recs)).
  assert (HlastE : last0 EE = Z.of_nat (length recs) * Z.of_nat k - 1).
  { unfold last0, EE. rewrite last_ends_idx by lia. lia. }
  assert (He0 : hd0 EE = Z.of_nat k - 1 /\ EE <> []).
  { unfold EE. destruct (length recs); [lia|]. simpl. split; [lia|discriminate]. }
  destruct EE as [|e0 t]; [destruct He0; congruence|]. destruct He0 as (He0 & _). unfold hd0, hd in He0. subst e0.
  cbv iota. rewrite HlastE.
  replace (Z.of_nat k - 1 + 1) with (Z.of_nat k) by lia.
  replace (Z.of_nat (length recs) * Z.of_nat k - 1 + 1) with (Z.of_nat (length DL)) by (rewrite LDL; lia).
  rewrite Nat2Z.id, firstn_all.
  assert (Hnth : nthZ DL (Z.of_nat (length recs) * Z.of_nat k - 1) = len data - 1).
  { rewrite <- HlastDL. rewrite (last_nth DL 0). unfold nthZ. f_equal. rewrite LDL. nia. }
  rewrite Hnth. replace (len data - 1 + 1) with (len data) by lia.
  assert (Hchunk : firstn (Z.to_nat (len data)) data = data) by (unfold len; rewrite Nat2Z.id; apply firstn_all).
  rewrite !Hchunk.
  unfold DL. rewrite (removelast_blocks k) by auto. simpl tl.
  rewrite reshape_concat by (auto; apply sblocks_length; auto).
  rewrite reshape_concat by (auto; apply blocks_length; auto).
  rewrite modify_cr_none by (apply (no_cr_layout k); auto).
  destruct fixed; reflexivity.
Qed.

Lemma rows_expected k recs : (1 <= k)%nat -> Forall (rec_wf k) recs -> rows (expected_ext recs) = erows 0 recs.
Proof. intros Hk H. unfold rows, expected_ext; simpl. apply (zip4_erows k recs 0 Hk H). Qed.

Definition gv (r : grec) : arow := {| a_rec := lraw r; a_rel := col_offsets 0 (g_cols r) |}.

Lemma view_erows recs : forall pre post,
  map (arow_of (pre ++ concat (map lraw recs) ++ post)) (erows (len pre) recs) = map gv recs.
Proof.
  induction recs as [|r rs IH]; intros pre post; [reflexivity|].
  change (erows (len pre) (r :: rs)) with (erow (len pre) r :: erows (len pre + len (lraw r)) rs).
  rewrite !map_cons. f_equal.
  - unfold arow_of, erow, gv; simpl r_s; simpl r_e; simpl r_fs; simpl r_fl. f_equal.
    + rewrite concat_cons, <- app_assoc. pose proof (len_nonneg (lraw r)).
      replace (len pre) with (len pre + 0) at 1 by lia. rewrite slice_mid by lia. apply slice_full; lia.
    + apply col_offsets_shift.
  - specialize (IH (pre ++ lraw r) post). rewrite len_app in IH. rewrite <- IH.
    rewrite concat_cons, <- !app_assoc. reflexivity.
Qed.

Lemma view_expected k recs : (1 <= k)%nat -> Forall (rec_wf k) recs -> view (expected_ext recs) = map gv recs.
Proof.
  intros Hk H. unfold view. rewrite (rows_expected k) by auto. simpl x_data.
  pose proof (view_erows recs [] []) as G. simpl in G. rewrite app_nil_r in G. exact G.
Qed.

Lemma combine_fst_snd {A B} (l : list (A * B)) : combine (map fst l) (map snd l) = l.
Proof. induction l as [|[a b] l IH]; simpl; f_equal; auto. Qed.

Lemma erows_ok k recs : forall pos total, (1 <= k)%nat -> Forall (rec_wf k) recs ->
  0 <= pos -> pos + len (concat (map lraw recs)) <= total -> Forall (row_ok total) (erows pos recs).
Proof.
  induction recs as [|r rs IH]; intros pos total Hk H Hp Ht; [constructor|].
  inversion H as [|? ? Hr Hrs]; subst. pose proof (cols_nonempty k r Hk Hr) as Hc.
  change (erows pos (r :: rs)) with (erow pos r :: erows (pos + len (lraw r)) rs).
  rewrite map_cons, concat_cons, len_app in Ht.
  pose proof (len_nonneg (lraw r)). pose proof (len_nonneg (concat (map lraw rs))).
  constructor.
  - unfold row_ok, erow; simpl. repeat split; try lia.
    + rewrite !map_length; auto.
    + rewrite combine_fst_snd. pose proof (col_offsets_ok (g_cols r) pos) as G.
      rewrite <- len_intercalate in G by auto. rewrite len_lraw. exact G.
  - apply (IH (pos + len (lraw r)) total); auto; lia.
Qed.

Lemma length_sblocks recs : forall prev pos, length (sblocks prev pos recs) = length recs.
Proof. induction recs; intros; simpl; auto. Qed.
Lemma length_blocks' recs : forall pos, length (blocks pos recs) = length recs.
Proof. induction recs; intros; simpl; auto. Qed.

Lemma Inv_expected k recs : (1 <= k)%nat -> Forall (rec_wf k) recs -> Inv (expected_ext recs).
Proof.
  intros Hk H. split; [|split].
  - unfold shape_ok, expected_ext; simpl.
    rewrite !map_length, zip_with_length, map_length, length_sblocks, length_blocks'. repeat split; lia.
  - rewrite (rows_expected k) by auto. simpl x_data. apply (erows_ok k); auto; lia.
  - intros _. rewrite (view_expected k) by auto. simpl x_data. rewrite map_map. reflexivity.
Qed.

(* ---- T1 ---- *)
Definition delimited (f : fmt) : Prop := match f with FDelim _ | FVcf _ => True | _ => False end.

Lemma gview_lf f r : delimited f -> g_eol r = [LF] -> gview f r = gv r /\ g_raw f r = lraw r.
Proof.
  intros Hf He. destruct f; try contradiction; unfold gview, gv, g_raw, raw_of, lraw; rewrite He; auto.
Qed.

Theorem from_delimited_correct k f recs fixed :
  delimited f -> (1 <= k)%nat -> recs <> [] -> Forall (rec_wf k) recs ->
  exists x, from_delimited_gen fixed (layout f recs) = Some x /\ Inv x /\ view x = map (gview f) recs
            /\ x_contig x = true.
Proof.
  intros Hf Hk Hn H. exists (expected_ext recs).
  assert (HL : layout f recs = concat (map lraw recs)).
  { unfold layout. f_equal. apply map_ext_Forall. eapply Forall_impl; [|exact H].
    intros r (_ & _ & He). apply (gview_lf f r Hf He). }
  assert (HV : map (gview f) recs = map gv recs).
  { apply map_ext_Forall. eapply Forall_impl; [|exact H]. intros r (_ & _ & He). apply (gview_lf f r Hf He). }
  rewrite HL, HV. split; [apply (from_delimited_layout k); auto|]. split; [apply (Inv_expected k); auto|].
  split; [apply (view_expected k); auto|reflexivity].
Qed.

(* ---- end to end for programs without replacement (selections, concatenations, intermediate writes) ---- *)
Lemma is_prefix_app a : forall b, is_prefix a (a ++ b) = Some b.
Proof. induction a as [|x a IH]; intros b; simpl; auto. rewrite Z.eqb_refl. apply IH. Qed.

Definition raw_row (f : fmt) (r : srow) : Prop := s_raw r = raw_of f (s_cols r) [] (s_eol r).

Lemma match_rows_raw f rows : delimited f -> Forall (raw_row f) rows ->
  match_rows f rows (concat (map s_raw rows)) = true.
Proof.
  intros Hf. induction 1 as [|r rows Hr Hrs IH]; [reflexivity|].
  simpl. assert (E : row_variants f r = [raw_of f (s_cols r) [] (s_eol r); raw_of f (s_cols r) [] [LF]])
    by (destruct f; try contradiction; reflexivity).
  rewrite E. simpl. rewrite <- Hr. rewrite is_prefix_app. exact IH.
Qed.

Lemma spec_eval_repl_free f recs p : delimited f -> repl_free p = true ->
  Forall (raw_row f) (fst (spec_eval f (map (srow_of f) recs) p)) /\
  map s_raw (fst (spec_eval f (map (srow_of f) recs) p)) = map a_rec (aeval (map (gview f) recs) p).
Proof.
  intros Hf. induction p as [|sel p IH|ps IH|j txt p IH|p IH] using prog_ind'; simpl; intros Hr; try discriminate.
  - split.
    + rewrite Forall_map. apply Forall_forall. intros r _. unfold raw_row, srow_of; simpl. unfold g_raw.
      destruct f; try contradiction; reflexivity.
    + rewrite !map_map. reflexivity.
  - destruct (IH Hr) as (A & B). destruct (spec_eval f (map (srow_of f) recs) p) as [r b]. simpl in *. split.
    + unfold takeA. rewrite Forall_map. apply Forall_forall. intros i _.
      destruct (nth_in_or_default (Z.to_nat i) r dummy_srow) as [Hin|Hd].
      * rewrite Forall_forall in A. apply A; auto.
      * rewrite Hd. unfold raw_row, dummy_srow; simpl. destruct f; try contradiction; reflexivity.
    + rewrite !map_takeA. simpl. rewrite B. reflexivity.
  - assert (G : Forall (fun p => Forall (raw_row f) (fst (spec_eval f (map (srow_of f) recs) p)) /\
                                 map s_raw (fst (spec_eval f (map (srow_of f) recs) p)) = map a_rec (aeval (map (gview f) recs) p)) ps).
    { rewrite Forall_forall in *. intros p Hp. apply IH; auto. rewrite forallb_forall in Hr. apply Hr; auto. }
    clear IH Hr. induction G as [|p ps (A & B) Hps (IA & IB)]; simpl; [split; [constructor|reflexivity]|].
    split.
    + apply Forall_app; split; auto.
    + rewrite !map_app. f_equal; auto.
  - apply IH; auto.
Qed.

Definition wide_enough (f : fmt) (k : nat) : Prop := match f with FVcf n => 8 < n -> (9 <= k)%nat | _ => True end.

Lemma length_col_offsets cols : forall pos, length (col_offsets pos cols) = length cols.
Proof. induction cols; intros; simpl; auto. Qed.

Theorem delimited_selection_end_to_end v f k recs p out :
  delimited f -> (1 <= k)%nat -> wide_enough f k -> recs <> [] -> Forall (rec_wf k) recs ->
  repl_free p = true ->
  model_out_v v f (layout f recs) p = Some out ->
  spec_out_ok f recs p (Some out) = true.
Proof.
  intros Hf Hk Hw Hn H Hr Hm.
  destruct (from_delimited_correct k f recs (v_crlf v) Hf Hk Hn H) as (x0 & Hx & I0 & V0 & _).
  unfold model_out_v in Hm.
  assert (Hread : read v f (layout f recs) = Some (SLazy x0 [])).
  { destruct f; try contradiction; simpl; rewrite Hx; reflexivity. }
  rewrite Hread in Hm.
  assert (W : width_ok f (view x0)).
  { rewrite V0. destruct f; try contradiction; simpl; auto. intros Hn8. unfold width_gt. rewrite Forall_map.
    eapply Forall_impl; [|exact H]. intros r (HL & _). simpl. rewrite length_col_offsets. specialize (Hw Hn8). lia. }
  assert (Hc : has_concatenate f = true) by (destruct f; try contradiction; reflexivity).
  apply (selection_write v f x0 p out I0 W (or_introl Hc) Hr) in Hm. subst out.
  unfold spec_out_ok. destruct (spec_eval_repl_free f recs p Hf Hr) as (A & B).
  destruct (spec_eval f (map (srow_of f) recs) p) as [rows pure]. simpl in *.
  rewrite V0, <- B. destruct pure.
  - apply zlist_eqb_refl.
  - apply match_rows_raw; auto.
Qed.

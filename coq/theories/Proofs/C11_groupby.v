(* Proofs/C11_groupby.v — group-by on change points per chunk, joined across chunks, equals the maximal runs of
   the concatenated data, for every chunking into non-empty chunks. *)
From Coq Require Import ZArith List Bool Lia Arith Sorting.Sorted.
From BNP Require Import Base.Prims Base.PrimsFacts Model.C11.
Import ListNotations.
Open Scope Z_scope.

Section GroupBy.
Context {A : Type}.
Notation pairs := (list (Z * A)).
Notation groups := (list (Z * list A)).

(* ---------- join_groups algebra ---------- *)
Definition merge1 (k : Z) (xs : list A) (X : groups) : groups :=
  match X with
  | (k', ys) :: t => if k =? k' then (k, xs ++ ys) :: t else (k, xs) :: (k', ys) :: t
  | [] => [(k, xs)]
  end.
Lemma join_cons k xs (R : groups) : join_groups ((k, xs) :: R) = merge1 k xs (join_groups R).
Proof. reflexivity. Qed.

Lemma merge1_merge1 k xs ys X : merge1 k xs (merge1 k ys X) = merge1 k (xs ++ ys) X.
Proof.
  destruct X as [|[k' ws] t]; simpl.
  - rewrite Z.eqb_refl. reflexivity.
  - destruct (Z.eqb_spec k k') as [->|Hne]; simpl.
    + rewrite Z.eqb_refl, app_assoc. reflexivity.
    + rewrite Z.eqb_refl. reflexivity.
Qed.

Fixpoint nf (G : groups) : Prop :=
  match G with
  | (k, _) :: (((k', _) :: _) as r) => k <> k' /\ nf r
  | _ => True
  end.
Lemma nf_join_id (G : groups) : nf G -> join_groups G = G.
Proof.
  induction G as [|[k xs] R IH]; intros H; [reflexivity|].
  rewrite join_cons. destruct R as [|[k' ys] t].
  - reflexivity.
  - destruct H as [Hne Hnf]. rewrite (IH Hnf). simpl.
    destruct (Z.eqb_spec k k'); [contradiction|reflexivity].
Qed.
Lemma nf_merge1 k xs X : nf X -> nf (merge1 k xs X).
Proof.
  intros H. destruct X as [|[k' ys] t]; simpl; [exact I|].
  destruct (Z.eqb_spec k k') as [->|Hne].
  - destruct t as [|[k'' zs] t']; [exact I|]. exact H.
  - split; assumption.
Qed.
Lemma nf_join (G : groups) : nf (join_groups G).
Proof.
  induction G as [|[k xs] R IH]; [exact I|]. rewrite join_cons. apply nf_merge1. exact IH.
Qed.
Lemma join_idem (G : groups) : join_groups (join_groups G) = join_groups G.
Proof. apply nf_join_id. apply nf_join. Qed.

Lemma join_app_r (G1 G2 : groups) : join_groups (G1 ++ G2) = join_groups (G1 ++ join_groups G2).
Proof.
  induction G1 as [|[k xs] R IH]; simpl app.
  - symmetry. apply join_idem.
  - rewrite !join_cons. rewrite IH. reflexivity.
Qed.
Lemma join_app_l (G1 G2 : groups) : join_groups (join_groups G1 ++ G2) = join_groups (G1 ++ G2).
Proof.
  induction G1 as [|[k xs] R IH]; [reflexivity|].
  cbn [app]. rewrite (join_cons k xs (R ++ G2)). rewrite <- IH.
  rewrite (join_cons k xs R).
  generalize (join_groups R) as X. intros X.
  destruct X as [|[k' ys] t].
  - reflexivity.
  - cbn [merge1]. destruct (Z.eqb_spec k k') as [->|Hne].
    + change (((k', xs ++ ys) :: t) ++ G2) with ((k', xs ++ ys) :: (t ++ G2)).
      change (((k', ys) :: t) ++ G2) with ((k', ys) :: (t ++ G2)).
      rewrite !join_cons. rewrite merge1_merge1. reflexivity.
    + reflexivity.
Qed.

(* runs is join over singletons *)
Definition sing (l : pairs) : groups := map (fun p => (fst p, [snd p])) l.
Lemma runs_join_sing (l : pairs) : runs l = join_groups (sing l).
Proof.
  induction l as [|[k x] r IH]; [reflexivity|].
  simpl sing. rewrite join_cons, <- IH. simpl. destruct (runs r) as [|[k' xs] t]; reflexivity.
Qed.

Lemma join_runs_chunks (cs : list pairs) :
  join_groups (concat (map (@runs A) cs)) = runs (concat cs).
Proof.
  induction cs as [|c r IH]; [reflexivity|].
  cbn [map concat]. rewrite (runs_join_sing c), join_app_l, join_app_r, IH.
  rewrite (runs_join_sing (concat r)), <- join_app_r.
  rewrite runs_join_sing. unfold sing. rewrite map_app. reflexivity.
Qed.

(* ---------- runs of a constant prefix ---------- *)
Lemma runs_head (x : Z * A) r : exists ys t, runs (x :: r) = (fst x, ys) :: t.
Proof.
  destruct x as [k a]. simpl. destruct (runs r) as [|[k' xs] t].
  - eauto.
  - destruct (k =? k'); eauto.
Qed.

Definition starts_other (k : Z) (l : pairs) : Prop :=
  match l with [] => True | x :: _ => fst x <> k end.

Lemma runs_const_app : forall (pre : pairs) k l, pre <> [] -> Forall (fun p => fst p = k) pre ->
  starts_other k l -> runs (pre ++ l) = (k, map snd pre) :: runs l.
Proof.
  induction pre as [|[k0 a] pre IH]; intros k l Hne Hall Hl; [congruence|].
  inversion Hall as [|? ? Hk Hrest]. simpl in Hk. subst.
  destruct pre as [|p2 pre'].
  - cbn [app map snd]. destruct l as [|x r].
    + reflexivity.
    + destruct (runs_head x r) as (ys & t & E). simpl in Hl.
      remember (x :: r) as xr. cbn [app runs]. rewrite E.
      destruct (Z.eqb_spec k (fst x)) as [Heq|Hneq]; [congruence|reflexivity].
  - change (((k, a) :: p2 :: pre') ++ l) with ((k, a) :: ((p2 :: pre') ++ l)).
    cbn [runs]. rewrite (IH k l) by (try discriminate; assumption).
    rewrite Z.eqb_refl. reflexivity.
Qed.

(* ---------- change points, recursively ---------- *)
Fixpoint changes_from (i : Z) (prev : Z) (l : list Z) : list Z :=
  match l with
  | [] => []
  | x :: r => (if x =? prev then [] else [i]) ++ changes_from (i + 1) x r
  end.
Lemma get_changes_from : forall r k i,
  map (Z.add 1) (flatnonzero_from i (neq_adjacent (k :: r))) = changes_from (i + 1) k r.
Proof.
  induction r as [|x r IH]; intros k i; [reflexivity|].
  change (neq_adjacent (k :: x :: r)) with (negb (k =? x) :: neq_adjacent (x :: r)).
  cbn [flatnonzero_from changes_from]. rewrite map_app, IH.
  rewrite (Z.eqb_sym x k). destruct (k =? x); cbn [negb map app]; [reflexivity|].
  f_equal. lia.
Qed.
Lemma get_changes_cons k r : get_changes (k :: r) = changes_from 1 k r.
Proof. unfold get_changes, flatnonzero. rewrite get_changes_from. reflexivity. Qed.

(* ---------- the index-based slicing produces the runs ---------- *)
Section Whole.
Variable W : pairs.
Let Wk := map fst W.
Let Wd := map snd W.
Let N := len W.
Definition mk (se : Z * Z) : Z * list A := let '(s, e) := se in (nthZ Wk s, slice s e Wd).

Lemma zip_bounds_cons2 s e rest : zip_bounds (s :: e :: rest) = (s, e) :: zip_bounds (e :: rest).
Proof. reflexivity. Qed.

Lemma mk_group (done pre rest : pairs) k : W = done ++ pre ++ rest -> pre <> [] ->
  Forall (fun p => fst p = k) pre ->
  mk (len done, len done + len pre) = (k, map snd pre).
Proof.
  intros HW Hne Hall. unfold mk. f_equal.
  - unfold Wk, nthZ. rewrite HW, map_app. unfold len. rewrite Nat2Z.id.
    rewrite app_nth2 by (rewrite map_length; lia). rewrite map_length, Nat.sub_diag.
    destruct pre as [|p pre']; [congruence|]. inversion Hall; subst. reflexivity.
  - unfold Wd. rewrite HW, !map_app.
    rewrite slice_app_r by (unfold len; rewrite map_length; lia).
    replace (len done - len (map snd done)) with 0 by (unfold len; rewrite map_length; lia).
    replace (len done + len pre - len (map snd done)) with (len (map snd pre)) by (unfold len; rewrite !map_length; lia).
    rewrite slice_app_l by (try lia; reflexivity). apply slice_full. lia.
Qed.

Lemma cut_runs : forall (l done pre : pairs) k, W = done ++ pre ++ l -> pre <> [] ->
  Forall (fun p => fst p = k) pre ->
  map mk (zip_bounds ((len done :: changes_from (len done + len pre) k (map fst l)) ++ [N])) = runs (pre ++ l).
Proof.
  induction l as [|x r IH]; intros done pre k HW Hne Hall.
  - cbn [map changes_from app zip_bounds].
    replace N with (len done + len pre) by (unfold N; rewrite HW, app_nil_r, len_app; reflexivity).
    rewrite (mk_group done pre [] k HW Hne Hall).
    rewrite (runs_const_app pre k [] Hne Hall I). reflexivity.
  - cbn [map changes_from]. destruct (Z.eqb_spec (fst x) k) as [Heq|Hneq].
    + cbn [app].
      replace (len done + len pre + 1) with (len done + len (pre ++ [x])) by (rewrite len_app, len_cons, len_nil; lia).
      assert (HW' : W = done ++ (pre ++ [x]) ++ r) by (rewrite HW, <- app_assoc; reflexivity).
      assert (Hne' : pre ++ [x] <> []) by (destruct pre; discriminate).
      assert (Hall' : Forall (fun p => fst p = k) (pre ++ [x])).
      { apply Forall_app. split; [exact Hall|]. constructor; [exact Heq|constructor]. }
      pose proof (IH done (pre ++ [x]) k HW' Hne' Hall') as H. cbn [app] in H.
      rewrite Heq. rewrite H. rewrite <- app_assoc. reflexivity.
    + cbn [app]. rewrite zip_bounds_cons2. cbn [map].
      rewrite (mk_group done pre (x :: r) k HW Hne Hall).
      rewrite (runs_const_app pre k (x :: r) Hne Hall Hneq). f_equal.
      assert (HW' : W = (done ++ pre) ++ [x] ++ r) by (rewrite HW, <- app_assoc; reflexivity).
      assert (Hall' : Forall (fun p => fst p = fst x) [x]) by (constructor; [reflexivity|constructor]).
      pose proof (IH (done ++ pre) [x] (fst x) HW' ltac:(discriminate) Hall') as H. cbn [app] in H.
      rewrite len_app, len_cons, len_nil in H.
      replace (len done + len pre + (1 + 0)) with (len done + len pre + 1) in H by lia.
      exact H.
Qed.
End Whole.

Lemma groupby_chunk_ne_slow (l : pairs) : l <> [] ->
  groupby_chunk_nonempty false (map fst l) (map snd l) = runs l.
Proof.
  intros Hne. destruct l as [|p r]; [congruence|].
  unfold groupby_chunk_nonempty. cbn [andb].
  change (map fst (p :: r)) with (fst p :: map fst r). rewrite get_changes_cons.
  pose proof (cut_runs (p :: r) r [] [p] (fst p)) as H.
  rewrite len_nil in H. change (0 + len [p]) with 1 in H.
  replace (len (map snd (p :: r))) with (len (p :: r)) by (unfold len; rewrite map_length; reflexivity).
  change (fst p :: map fst r) with (map fst (p :: r)).
  etransitivity; [|apply H; [reflexivity|discriminate|constructor; [reflexivity|constructor]]].
  apply map_ext. intros [s e]. reflexivity.
Qed.

(* ---------- the first-equals-last shortcut needs keys whose equal values are contiguous ---------- *)
Definition contiguous (ks : list Z) : Prop :=
  forall pre a mid c post, ks = pre ++ a :: mid ++ c :: post -> a = c -> Forall (fun b => b = a) mid.

Lemma nthZ_last (a : Z) mid c : nthZ (a :: mid ++ [c]) (len (a :: mid ++ [c]) - 1) = c.
Proof.
  unfold nthZ, len. cbn [length]. rewrite app_length. cbn [length].
  replace (Z.to_nat (Z.of_nat (S (length mid + 1)) - 1)) with (S (length mid)) by lia.
  cbn [nth]. rewrite app_nth2 by lia. rewrite Nat.sub_diag. reflexivity.
Qed.

Lemma list_split_last {B} (l : list B) : l <> [] -> exists m z, l = m ++ [z].
Proof. intros H. destruct (exists_last H) as (m & z & E). eauto. Qed.

Lemma groupby_chunk_ne_true_unfold (keys : list Z) (data : list A) :
  groupby_chunk_nonempty true keys data =
  if nthZ keys 0 =? nthZ keys (len keys - 1) then [(nthZ keys 0, data)] else groupby_chunk_nonempty false keys data.
Proof. reflexivity. Qed.

Lemma groupby_chunk_ne_fast (l : pairs) P S : l <> [] -> contiguous (P ++ map fst l ++ S) ->
  groupby_chunk_nonempty true (map fst l) (map snd l) = runs l.
Proof.
  intros Hne Hc. rewrite groupby_chunk_ne_true_unfold.
  destruct l as [|p r]; [congruence|].
  assert (H0 : nthZ (map fst (p :: r)) 0 = fst p) by reflexivity.
  destruct r as [|q r'].
  - (* one entry: first = last *)
    change (len (map fst [p]) - 1) with 0. rewrite Z.eqb_refl. destruct p; reflexivity.
  - destruct (list_split_last (q :: r')) as (m & z & E); [discriminate|].
    rewrite E in *. clear E.
    assert (Hlast : nthZ (map fst (p :: m ++ [z])) (len (map fst (p :: m ++ [z])) - 1) = fst z).
    { cbn [map]. rewrite map_app. cbn [map]. apply nthZ_last. }
    rewrite H0, Hlast.
    destruct (Z.eqb_spec (fst p) (fst z)) as [Heq|Hneq].
    + (* all keys equal *)
      assert (Hmid : Forall (fun b => b = fst p) (map fst m)).
      { apply (Hc P (fst p) (map fst m) (fst z) S); [|exact Heq].
        cbn [map]. rewrite map_app. cbn [map app]. do 2 f_equal. rewrite <- app_assoc. reflexivity. }
      assert (Hall : Forall (fun x => fst x = fst p) (p :: m ++ [z])).
      { constructor; [reflexivity|]. apply Forall_app. split.
        - rewrite Forall_map in Hmid. exact Hmid.
        - constructor; [symmetry; exact Heq|constructor]. }
      pose proof (runs_const_app (p :: m ++ [z]) (fst p) [] ltac:(discriminate) Hall I) as Hr.
      rewrite app_nil_r in Hr. rewrite Hr. reflexivity.
    + apply groupby_chunk_ne_slow. discriminate.
Qed.


(* with the empty-table case of the current code no chunk needs to be non-empty *)
Lemma groupby_chunk_cases fast (l : pairs) :
  groupby_chunk fast (map fst l) (map snd l) = match l with [] => [] | _ => groupby_chunk_nonempty fast (map fst l) (map snd l) end.
Proof. destruct l as [|p r]; [reflexivity|]. unfold groupby_chunk. unfold len. cbn [map length]. reflexivity. Qed.
Lemma groupby_chunk_slow (l : pairs) : groupby_chunk false (map fst l) (map snd l) = runs l.
Proof. rewrite groupby_chunk_cases. destruct l as [|p r]; [reflexivity|]. apply groupby_chunk_ne_slow. discriminate. Qed.
Lemma groupby_chunk_fast (l : pairs) P S : contiguous (P ++ map fst l ++ S) ->
  groupby_chunk true (map fst l) (map snd l) = runs l.
Proof.
  intros Hc. rewrite groupby_chunk_cases. destruct l as [|p r]; [reflexivity|].
  apply (groupby_chunk_ne_fast (p :: r) P S); [discriminate|exact Hc].
Qed.

(* ---------- T5 ---------- *)
Theorem groupby_chunked_slow_any : forall cs : list pairs, stream_groupby false cs = runs (concat cs).
Proof.
  intros cs. unfold stream_groupby. rewrite <- join_runs_chunks. f_equal. f_equal.
  apply map_ext. intros c. apply groupby_chunk_slow.
Qed.
Theorem groupby_chunked_slow : forall cs : list pairs, Forall (fun c => c <> []) cs ->
  stream_groupby false cs = runs (concat cs).
Proof. intros cs _. apply groupby_chunked_slow_any. Qed.

Lemma fast_chunks : forall (cs : list pairs) P, contiguous (P ++ map fst (concat cs)) ->
  map (fun c => groupby_chunk true (map fst c) (map snd c)) cs = map (@runs A) cs.
Proof.
  induction cs as [|c r IH]; intros P Hc; [reflexivity|]. cbn [map]. f_equal.
  - apply (groupby_chunk_fast c P (map fst (concat r))).
    cbn [concat] in Hc. rewrite map_app in Hc. exact Hc.
  - apply (IH (P ++ map fst c)).
    cbn [concat] in Hc. rewrite map_app in Hc. rewrite <- app_assoc. exact Hc.
Qed.

Theorem groupby_chunked_any : forall (fast : bool) (cs : list pairs),
  contiguous (map fst (concat cs)) -> stream_groupby fast cs = runs (concat cs).
Proof.
  intros [|] cs Hc; [|apply groupby_chunked_slow_any].
  unfold stream_groupby. rewrite (fast_chunks cs [] Hc). apply join_runs_chunks.
Qed.
Theorem groupby_chunked : forall (fast : bool) (cs : list pairs), Forall (fun c => c <> []) cs ->
  contiguous (map fst (concat cs)) -> stream_groupby fast cs = runs (concat cs).
Proof. intros fast cs _. apply groupby_chunked_any. Qed.
End GroupBy.

(* sorted keys are contiguous *)
Lemma sorted_tail_ge : forall mid c post, StronglySorted Z.le (mid ++ c :: post) -> Forall (fun b => b <= c) mid.
Proof.
  induction mid as [|x mid IH]; intros c post H; [constructor|].
  cbn [app] in H. apply StronglySorted_inv in H. destruct H as [Hs Hall].
  constructor.
  - rewrite Forall_forall in Hall. apply Hall. apply in_or_app. right. left. reflexivity.
  - exact (IH c post Hs).
Qed.
Lemma sorted_contiguous ks : Sorted Z.le ks -> contiguous ks.
Proof.
  intros Hs. apply Sorted_StronglySorted in Hs; [|intros x y z; lia].
  intros pre a mid c post E Hac. subst ks.
  induction pre as [|x pre IH].
  - cbn [app] in Hs. apply StronglySorted_inv in Hs. destruct Hs as [Hs Hall].
    pose proof (sorted_tail_ge mid c post Hs) as Hle.
    rewrite Forall_forall in *. intros b Hb.
    assert (a <= b) by (apply Hall; apply in_or_app; left; exact Hb).
    specialize (Hle b Hb). lia.
  - cbn [app] in Hs. apply StronglySorted_inv in Hs. apply IH. exact (proj1 Hs).
Qed.

(* without contiguity the shortcut is wrong: keys 1,2,1 in one chunk *)
Lemma groupby_fast_refuted :
  exists cs : list (list (Z * Z)), Forall (fun c => c <> []) cs /\ stream_groupby true cs <> runs (concat cs).
Proof.
  exists [[(1, 10); (2, 11); (1, 12)]]. split; [constructor; [discriminate|constructor]|].
  vm_compute. discriminate.
Qed.

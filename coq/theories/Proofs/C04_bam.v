(* Proofs/C04_bam.v — T1 for BAM: the block-size chain of BamBuffer._find_starts / from_raw_buffer splits the
   concatenation of ANY list of >= 1 well-formed records (block_size field = record length - 4) into exactly those
   records; with Proofs/C04.v this gives byte-exact pass-through of every selection program on BAM. *)
From Coq Require Import ZArith List Bool Lia.
From BNP Require Import Base.Prims Base.PrimsFacts Model.C04 Proofs.C04.
Import ListNotations.
Open Scope Z_scope.

Definition bam_wf (raw : list Z) : Prop := 4 <= len raw /\ le32 (firstn 4 raw) + 4 = len raw.

Fixpoint bstarts (pos : Z) (raws : list (list Z)) : list Z :=
  match raws with [] => [pos] | r :: rs => pos :: bstarts (pos + len r) rs end.

Lemma slice_head4 (pre r rest : list Z) : 4 <= len r ->
  slice (len pre) (len pre + 4) (pre ++ r ++ rest) = firstn 4 r.
Proof.
  intros H. replace (len pre) with (len pre + 0) at 1 by lia. rewrite slice_mid by lia.
  rewrite slice_0_firstn. reflexivity.
Qed.

Lemma bam_starts_layout raws : forall (pre : list Z) fuel, Forall bam_wf raws -> (length raws + 2 <= fuel)%nat ->
  bam_starts fuel (pre ++ concat raws) (len pre) = bstarts (len pre) raws.
Proof.
  induction raws as [|r rs IH]; intros pre fuel H Hf.
  - simpl concat. rewrite app_nil_r. destruct fuel as [|[|fuel]]; simpl in Hf; try lia.
    simpl. rewrite Z.leb_refl.
    assert (E : slice (len pre) (len pre + 4) pre = []).
    { unfold slice. rewrite skipn_all2 by (unfold len; lia). apply firstn_nil. }
    rewrite E. change (le32 []) with 0.
    destruct (Z.leb_spec (len pre + 0 + 4) (len pre)); [lia|reflexivity].
  - inversion H as [|? ? (H4 & Hb) Hrs]; subst. destruct fuel as [|fuel]; [simpl in Hf; lia|].
    simpl concat. simpl bam_starts.
    assert (Hle : len pre <= len (pre ++ r ++ concat rs)).
    { rewrite len_app. pose proof (len_nonneg (r ++ concat rs)). lia. }
    destruct (Z.leb_spec (len pre) (len (pre ++ r ++ concat rs))); [|lia].
    rewrite slice_head4 by auto.
    replace (len pre + le32 (firstn 4 r) + 4) with (len (pre ++ r)) by (rewrite len_app; lia).
    rewrite app_assoc. rewrite IH by (auto; simpl in Hf; lia). rewrite len_app. reflexivity.
Qed.

Fixpoint brows (pos : Z) (raws : list (list Z)) : list xrow :=
  match raws with
  | [] => []
  | r :: rs => {| r_s := pos; r_e := pos + len r; r_fs := []; r_fl := [] |} :: brows (pos + len r) rs
  end.

Lemma bstarts_hd pos raws : bstarts pos raws = pos :: tl (bstarts pos raws).
Proof. destruct raws; reflexivity. Qed.

Lemma last_bstarts raws : forall pos, last (bstarts pos raws) 0 = pos + len (concat raws).
Proof.
  induction raws as [|r rs IH]; intros pos; simpl.
  - rewrite len_nil. lia.
  - rewrite (bstarts_hd (pos + len r) rs). rewrite <- (bstarts_hd (pos + len r) rs) at 1.
    destruct (bstarts (pos + len r) rs) eqn:E; [destruct rs; discriminate|].
    rewrite <- E, IH, len_app. lia.
Qed.

Lemma rows_bstarts raws : forall pos,
  zip4 (removelast (bstarts pos raws)) (tl (bstarts pos raws))
       (map (fun _ => []) (removelast (bstarts pos raws))) (map (fun _ => []) (removelast (bstarts pos raws)))
  = brows pos raws.
Proof.
  induction raws as [|r rs IH]; intros pos; [reflexivity|].
  change (bstarts pos (r :: rs)) with (pos :: bstarts (pos + len r) rs).
  change (brows pos (r :: rs)) with ({| r_s := pos; r_e := pos + len r; r_fs := []; r_fl := [] |} :: brows (pos + len r) rs).
  rewrite <- (IH (pos + len r)).
  remember (bstarts (pos + len r) rs) as L eqn:EL. rewrite (bstarts_hd (pos + len r) rs) in EL.
  subst L. reflexivity.
Qed.

Definition bv (r : list Z) : arow := {| a_rec := r; a_rel := [] |}.

Lemma view_brows raws : forall (pre post : list Z),
  map (arow_of (pre ++ concat raws ++ post)) (brows (len pre) raws) = map bv raws.
Proof.
  induction raws as [|r rs IH]; intros pre post; [reflexivity|].
  simpl brows. rewrite !map_cons. f_equal.
  - unfold arow_of, bv; simpl. f_equal. rewrite <- app_assoc. pose proof (len_nonneg r).
    replace (len pre) with (len pre + 0) at 1 by lia. rewrite slice_mid by lia. apply slice_full; lia.
  - specialize (IH (pre ++ r) post). rewrite len_app in IH. rewrite <- IH. simpl concat. rewrite <- !app_assoc. reflexivity.
Qed.

Lemma brows_ok raws : forall pos total, 0 <= pos -> pos + len (concat raws) <= total -> Forall (row_ok total) (brows pos raws).
Proof.
  induction raws as [|r rs IH]; intros pos total Hp Ht; [constructor|].
  simpl concat in Ht. rewrite len_app in Ht. pose proof (len_nonneg r). pose proof (len_nonneg (concat rs)).
  constructor.
  - unfold row_ok; simpl. repeat split; try lia. constructor.
  - apply IH; lia.
Qed.

Lemma length_bstarts raws : forall pos, length (bstarts pos raws) = S (length raws).
Proof. induction raws; intros; simpl; auto. Qed.

Lemma data_len_bound raws : Forall bam_wf raws -> (4 * length raws <= length (concat raws))%nat.
Proof.
  induction 1 as [|r rs (H4 & _) Hrs IH]; simpl; [lia|]. rewrite app_length. unfold len in H4. lia.
Qed.

Lemma length_removelast' {A} (l : list A) : length (removelast l) = (length l - 1)%nat.
Proof. induction l as [|a l IH]; [reflexivity|]. destruct l; [reflexivity|]. simpl in *. rewrite IH. lia. Qed.

Theorem from_bam_correct raws : raws <> [] -> Forall bam_wf raws ->
  exists x, from_bam (concat raws) = Some x /\ Inv x /\ view x = map bv raws /\ x_contig x = true.
Proof.
  intros Hn H. unfold from_bam.
  pose proof (data_len_bound raws H) as Hb.
  assert (Hl : (1 <= length raws)%nat) by (destruct raws; simpl; [congruence|lia]).
  assert (HS : bam_starts (S (length (concat raws))) (concat raws) 0 = bstarts 0 raws)
    by (apply (bam_starts_layout raws [] (S (length (concat raws))) H); lia).
  rewrite HS.
  assert (HD : firstn (Z.to_nat (last0 (bstarts 0 raws))) (concat raws) = concat raws).
  { unfold last0. rewrite last_bstarts. unfold len. rewrite Z.add_0_l, Nat2Z.id. apply firstn_all. }
  rewrite HD. eexists. split; [reflexivity|].
  assert (R : rows {| x_data := concat raws; x_fs := map (fun _ => []) (removelast (bstarts 0 raws));
                      x_fl := map (fun _ => []) (removelast (bstarts 0 raws)); x_es := removelast (bstarts 0 raws);
                      x_ee := tl (bstarts 0 raws); x_contig := true |} = brows 0 raws) by (apply rows_bstarts).
  assert (V : map (arow_of (concat raws)) (brows 0 raws) = map bv raws).
  { pose proof (view_brows raws [] []) as G. simpl in G. rewrite app_nil_r in G. exact G. }
  split; [|split; [|reflexivity]].
  - split; [|split].
    + unfold shape_ok; simpl. rewrite !map_length.
      assert (length (removelast (bstarts 0 raws)) = length raws).
      { rewrite length_removelast', length_bstarts. lia. }
      assert (length (tl (bstarts 0 raws)) = length raws).
      { pose proof (length_bstarts raws 0) as L. destruct (bstarts 0 raws); simpl in *; lia. }
      repeat split; lia.
    + rewrite R. simpl x_data. apply brows_ok; lia.
    + intros _. unfold view. rewrite R. simpl x_data. rewrite V. rewrite map_map. simpl. rewrite map_id. reflexivity.
  - unfold view. rewrite R. simpl x_data. exact V.
Qed.

(* END TO END for BAM: any selection program (no concatenate / replace, which the library refuses) *)
Definition bam_rec_wf (r : grec) : Prop := exists raw, g_cols r = [raw] /\ bam_wf raw.

Theorem bam_selection_end_to_end v recs p out :
  recs <> [] -> Forall bam_rec_wf recs -> cat_free p = true -> repl_free p = true ->
  model_out_v v FBam (layout FBam recs) p = Some out ->
  spec_out_ok FBam recs p (Some out) = true.
Proof.
  intros Hn H Hc Hr Hm.
  assert (HL : layout FBam recs = concat (map (g_raw FBam) recs)) by reflexivity.
  assert (Hwf : Forall bam_wf (map (g_raw FBam) recs)).
  { rewrite Forall_map. eapply Forall_impl; [|exact H]. intros r (raw & E & W). unfold g_raw, raw_of. rewrite E. exact W. }
  destruct (from_bam_correct (map (g_raw FBam) recs)) as (x0 & Hx & I0 & V0 & _); auto.
  { destruct recs; [congruence|discriminate]. }
  unfold model_out_v, read in Hm. change (layout FBam recs) with (concat (map (g_raw FBam) recs)) in Hm.
  rewrite Hx in Hm. simpl option_map in Hm.
  assert (V : view x0 = map (gview FBam) recs).
  { rewrite V0, map_map. reflexivity. }
  eapply (selection_meets_spec v FBam recs x0 p out); eauto. exact I.
Qed.

(* Proofs/C07_link.v — the link between the two verdicts of Corr/C07.v: for a program case whose steps are all
   described by the model (no assignment into a read-only buffer, no negative-step column slice with an explicit
   start, string_array only where no code decodes to NUL), agreement of the implementation with the MODEL on raw
   codes implies that the implementation satisfies the SPEC on characters. *)
From Coq Require Import ZArith List Bool Lia Arith.
From BNP Require Import Base.Prims Base.PrimsFacts Model.C07 Proofs.C07 Proofs.C07_sim Proofs.C07_main Corr.C07.
Import ListNotations.
Open Scope Z_scope.

Definition negstart_free (o : op) : Prop :=
  match o with
  | ColSlice a _ s | RC _ a _ s | SetRC _ a _ s _ => negstart a s = false
  | _ => True
  end.
Definition step_linkable (e : enc) (st : istep) : Prop :=
  i_writable st = true /\ negstart_free (i_op st) /\ sarr_side current e (i_op st)
  /\ (i_op st = Copy -> is_quiet (i_obs st) = true \/ i_orig st = None).
Definition linkable (c : case) : Prop :=
  match k_alpha c with None => True | Some al => alpha_ok al end
  /\ Forall (step_linkable (enc_of_case c)) (k_steps c).

Lemma unmodelled_free v o : negstart_free o -> unmodelled v o = false.
Proof. intros H. destruct v; destruct o; simpl in *; try reflexivity; rewrite H; reflexivity. Qed.

Ltac crush_raise :=
  repeat match goal with
         | |- context [match ?x with _ => _ end] => destruct x
         end;
  unfold keep, bad; simpl; discriminate.
Lemma no_raise : forall prep v o, snd (g_step (model_prims_with prep repaired) v o) <> ORaise.
Proof.
  intros prep v o. destruct v as [e rows|e s|e c]; unfold g_step.
  - destruct o; unfold step_ragged; try (crush_raise; fail).
    simpl. unfold m_sarr. simpl. discriminate.
  - destruct o; unfold step_flat; try (crush_raise; fail).
  - destruct o; unfold step_char; try (crush_raise; fail).
Qed.

Lemma dec_value_mapv v : dec_value v = mapv (decode1 (enc_of v)) v.
Proof. destruct v; reflexivity. Qed.
Lemma dec_obs_mapo e ob : (forall v', ob = OV v' -> enc_of v' = e) -> dec_obs ob = mapo (decode1 e) ob.
Proof. intros H. destruct ob; try reflexivity. simpl. rewrite dec_value_mapv. rewrite (H v eq_refl). reflexivity. Qed.

Lemma enc_agree e : match e with Base => True | Alpha al => alpha_ok al end ->
  forall c, s_prep e c = option_map (decode1 e) (m_prep e c).
Proof. intros H c. destruct e as [|al]; [reflexivity|]. apply prep_fixed_full. exact H. Qed.
Lemma enc_ok_wf e : match e with Base => True | Alpha al => alpha_ok al end -> enc_wf e.
Proof. destruct e; [intros; exact I|apply alpha_ok_wf]. Qed.

Lemma saved_matches_map e saved orig : (forall sv, saved = Some sv -> enc_of sv = e) ->
  saved_matches (fun v => v) (option_map (mapv (decode1 e)) saved) orig = saved_matches dec_value saved orig.
Proof.
  intros H. destruct saved as [sv|]; simpl; [|reflexivity].
  destruct orig; [|reflexivity]. rewrite dec_value_mapv, (H sv eq_refl). reflexivity.
Qed.

Lemma link_steps (e : enc) (encid : Z) (sv0 : value) :
  match e with Base => True | Alpha al => alpha_ok al end ->
  forall steps v saved,
    enc_of v = e -> (forall sv, saved = Some sv -> enc_of sv = e) ->
    Forall (step_linkable e) steps ->
    model_steps encid (snd (value_rows sv0)) v saved steps = true ->
    all2 (step_impl_ok encid sv0)
         (s_run (mapv (decode1 e) v) (option_map (mapv (decode1 e)) saved) (map i_op steps)) steps = true.
Proof.
  intros Hok. induction steps as [|st steps IH]; intros v saved He Hsaved Hl Hm; [reflexivity|].
  inversion Hl as [|? ? [Hw [Hneg [Hsarr Hcopy]]] Hrest]; subst.
  simpl in Hm. rewrite (unmodelled_free v (i_op st) Hneg) in Hm. rewrite Hw in Hm.
  unfold current in Hm. rewrite step_repaired_is_g_step in Hm.
  pose proof (no_raise m_prep v (i_op st)) as Hnr.
  pose proof (step_encoding_preserved (model_prims_with m_prep repaired) v (i_op st)) as [Henc Henc2].
  assert (Hsim : mapr (decode1 (enc_of v)) (g_step (model_prims_with m_prep repaired) v (i_op st))
                 = s_step (mapv (decode1 (enc_of v)) v) (i_op st)).
  { apply step_simulation.
    - apply enc_ok_wf. exact Hok.
    - reflexivity.
    - intros c _. apply enc_agree. exact Hok.
    - intros Eo. destruct (Hsarr Eo) as [Hf Hn]. split; [exact Hf|apply nul_free_sarr_ok; exact Hn]. }
  unfold s_run in *. simpl map. simpl g_run. unfold s_step in Hsim.
  destruct (g_step (model_prims_with m_prep repaired) v (i_op st)) as [v' ob] eqn:Eg.
  destruct (g_step spec_prims (mapv (decode1 (enc_of v)) v) (i_op st)) as [sv' sob] eqn:Es.
  unfold mapr in Hsim. simpl in Hsim, Henc, Henc2, Hnr. injection Hsim as Hv Hob.
  apply andb_true_iff in Hm. destruct Hm as [Hm Hrec].
  apply andb_true_iff in Hm. destruct Hm as [Hm Hroot].
  apply andb_true_iff in Hm. destruct Hm as [Hm Hsv].
  apply andb_true_iff in Hm. destruct Hm as [_ Hdec].
  assert (Hdo : dec_obs ob = sob).
  { rewrite <- Hob. apply dec_obs_mapo. intros v'' Ev. rewrite (Henc2 v'' Ev). reflexivity. }
  rewrite Hdo in Hdec.
  assert (He' : enc_of v' = enc_of v) by exact Henc.
  assert (Hrec' : model_steps encid (snd (value_rows sv0)) v' (match i_op st with Copy => Some v | _ => saved end) steps = true)
    by (destruct ob; try exact Hrec; congruence).
  destruct (i_op st) eqn:Eop;
    (cbn [all2]; unfold step_impl_ok at 1; cbn [fst snd]; rewrite Hdec, Hroot; cbn [andb];
     try (rewrite saved_matches_map by exact Hsaved; rewrite Hsv; cbn [andb];
          rewrite <- Hv; apply IH; [congruence|exact Hsaved|exact Hrest|exact Hrec'])).
  (* Copy *)
  assert (Hq : is_quiet (i_obs st) || saved_matches (fun v => v) None (i_orig st) = true).
  { destruct (Hcopy eq_refl) as [Hq|Hn]; [rewrite Hq; reflexivity|rewrite Hn; apply orb_true_r]. }
  rewrite Hq. cbn [andb]. rewrite <- Hv.
  apply (IH v' (Some v)); [congruence| |exact Hrest|exact Hrec'].
  intros sv Esv. inversion Esv; subst. reflexivity.
Qed.

Lemma init_link c : linkable c -> forall v0, init_value (model_prims_with m_prep current) c = Some v0 ->
  init_value spec_prims c = Some (mapv (decode1 (enc_of_case c)) v0) /\ enc_of v0 = enc_of_case c.
Proof.
  intros [Hok _] v0 H. unfold init_value in *. unfold enc_of_case in *.
  set (e := match k_alpha c with None => Base | Some al => Alpha al end) in *.
  assert (Hok' : match e with Base => True | Alpha al => alpha_ok al end) by (unfold e; destruct (k_alpha c); exact Hok).
  assert (Hrel : forall ch, rel_char (model_prims_with m_prep current) spec_prims e (decode1 e) ch)
    by (intros ch; unfold rel_char; simpl; apply enc_agree; exact Hok').
  destruct (k_ragged c).
  - unfold init_rows in *. rewrite (prep_rows_rel (model_prims_with m_prep current) spec_prims e (decode1 e)) by (intros; apply Hrel).
    destruct (prep_rows (model_prims_with m_prep current) e (k_init c)); [|discriminate].
    inversion H; subst. split; reflexivity.
  - destruct (k_init c) as [|s [|? ?]]; try discriminate.
    unfold init_flat in *. rewrite (prep_str_rel (model_prims_with m_prep current) spec_prims e (decode1 e)) by (intros; apply Hrel).
    destruct (prep_str (model_prims_with m_prep current) e s); [|discriminate].
    inversion H; subst. split; reflexivity.
Qed.

Theorem model_ok_implies_spec : forall c, linkable c -> model_ok c = true -> impl_spec_ok c = true.
Proof.
  intros c Hl Hm. unfold model_ok in Hm. apply andb_true_iff in Hm. destruct Hm as [Hm _]. unfold model_core in Hm. unfold impl_spec_ok.
  destruct (init_value (model_prims_with m_prep current) c) as [v0|] eqn:E0; [|discriminate].
  destruct (init_link c Hl v0 E0) as [Es He]. rewrite Es.
  apply andb_true_iff in Hm. destruct Hm as [Hm Hsteps].
  apply andb_true_iff in Hm. destruct Hm as [_ Hinit].
  rewrite dec_value_mapv, He in Hinit, Hsteps. rewrite Hinit. cbn [andb].
  destruct Hl as [Hok Hst].
  pose proof (link_steps (enc_of_case c) (k_encid c) (mapv (decode1 (enc_of_case c)) v0)) as L.
  specialize (L ltac:(unfold enc_of_case; destruct (k_alpha c); exact Hok) (k_steps c) v0 None He).
  simpl option_map in L. apply L; [intros sv Hsv; discriminate|exact Hst|exact Hsteps].
Qed.

Lemma all2_andb {A B} (f g : A -> B -> bool) : forall a b,
  all2 (fun x y => f x y && g x y) a b = all2 f a b && all2 g a b.
Proof.
  induction a as [|x a IH]; intros [|y b]; simpl; try reflexivity.
  rewrite IH. destruct (f x y), (g x y), (all2 f a b), (all2 g a b); reflexivity.
Qed.
(* spec_ok is exactly: the Spec agrees with Python's reference on the program, and the implementation with the Spec *)
Theorem spec_ok_split : forall c, spec_ok c = ref_ok c && impl_spec_ok c.
Proof.
  intros c. unfold spec_ok, ref_ok, impl_spec_ok. destruct (init_value spec_prims c) as [v0|]; [|reflexivity].
  rewrite all2_andb.
  destruct (obs_matches (k_encid c) false (OV v0) (k_init_obs c)), (all2 _ _ _), (all2 _ _ _); reflexivity.
Qed.
Theorem model_ok_implies_spec_ok : forall c, linkable c -> ref_ok c = true -> model_ok c = true -> spec_ok c = true.
Proof.
  intros c Hl Hr Hm. rewrite spec_ok_split, Hr, (model_ok_implies_spec c Hl Hm). reflexivity.
Qed.

(* Proofs/C17_index.v — the index built from the file's lines is the index the format defines. *)
From Coq Require Import ZArith List Bool Lia Arith.
From BNP Require Import Base.Prims Base.PrimsFacts Model.C17 Proofs.C17 Proofs.C01_delim.
Import ListNotations.
Open Scope Z_scope.

Definition clean (l : list Z) : Prop := ~ In 10 l /\ ~ In 13 l.
Definition rec_wf (r : rec) : Prop :=
  r_seq r <> [] /\ 1 <= r_width r /\ clean (r_name r) /\ clean (r_seq r) /\ ~ In 62 (r_seq r).
Definition cr_of (eol : list Z) : list Z := removelast eol.
Definition eol_ok (eol : list Z) : Prop := eol = [10] \/ eol = [13; 10].

(* ---------- rows ---------- *)
Lemma wrap_rows (w : nat) eol : (1 <= w)%nat -> forall n s, length s = n ->
  wrap (Z.of_nat w) eol s = concat (map (fun row => row ++ eol) (chunks_of w s)).
Proof.
  intros Hw n. induction n as [n IH] using lt_wf_ind. intros s Hn.
  destruct s as [|x s'] eqn:Es; [reflexivity|]. rewrite <- Es in *.
  assert (Hs : s <> []) by (rewrite Es; discriminate).
  rewrite (wrap_unfold w Hw eol s Hs). rewrite (chunks_of_cons w s Hw Hs).
  cbn [map concat]. rewrite <- app_assoc. f_equal. f_equal.
  apply (IH (length (skipn w s))); [|reflexivity].
  rewrite skipn_length. rewrite Es in *. simpl length in *. lia.
Qed.

Lemma chunks_rows (w : nat) : (1 <= w)%nat -> forall n (s : list Z), length s = n ->
  Forall (fun row => row <> [] /\ forall c, In c row -> In c s) (chunks_of w s)
  /\ concat (chunks_of w s) = s.
Proof.
  intros Hw n. induction n as [n IH] using lt_wf_ind. intros s Hn.
  destruct s as [|x s'] eqn:Es; [split; [constructor|reflexivity]|]. rewrite <- Es in *.
  assert (Hs : s <> []) by (rewrite Es; discriminate).
  rewrite (chunks_of_cons w s Hw Hs).
  destruct (IH (length (skipn w s))) with (s := skipn w s) as [H1 H2]; [rewrite skipn_length; rewrite Es in *; simpl length in *; lia|reflexivity|].
  split.
  - constructor.
    + split.
      * rewrite Es. destruct w; [lia|]. discriminate.
      * intros c Hc. rewrite <- (firstn_skipn w s). apply in_or_app. left. exact Hc.
    + eapply Forall_impl; [|exact H1]. intros row [Hr Hin]. split; [exact Hr|].
      intros c Hc. rewrite <- (firstn_skipn w s). apply in_or_app. right. apply Hin. exact Hc.
  - cbn [concat]. rewrite H2. apply firstn_skipn.
Qed.

(* ---------- lines of a laid-out record ---------- *)
Lemma split_on_clean (l : list Z) : ~ In 10 l -> split_on 10 l = [l].
Proof.
  induction l as [|x l IH]; intros H; [reflexivity|].
  simpl. destruct (x =? 10) eqn:E; [apply Z.eqb_eq in E; subst; exfalso; apply H; left; reflexivity|].
  rewrite IH by (intros Hi; apply H; right; exact Hi). reflexivity.
Qed.
Lemma lines_line (l rest : list Z) : ~ In 10 l -> lines ((l ++ [10]) ++ rest) = l :: lines rest.
Proof.
  intros H. rewrite lines_app.
  - rewrite lines_terminated, split_on_clean by assumption. reflexivity.
  - unfold ends_nl. rewrite last_app_nonempty by discriminate. reflexivity.
Qed.

Definition rec_lines (eol : list Z) (r : rec) : list (list Z) :=
  (62 :: r_name r ++ cr_of eol) :: map (fun row => row ++ cr_of eol) (chunks_of (Z.to_nat (r_width r)) (r_seq r)).
Fixpoint all_lines (eol : list Z) (rs : list rec) : list (list Z) :=
  match rs with [] => [] | r :: rest => rec_lines eol r ++ all_lines eol rest end.

Lemma eol_split eol : eol_ok eol -> eol = cr_of eol ++ [10] /\ ~ In 10 (cr_of eol).
Proof. intros [->| ->]; cbn; split; try reflexivity; intros H; simpl in H; intuition discriminate. Qed.

Lemma lines_rows eol (rows : list (list Z)) rest : eol_ok eol ->
  Forall (fun row => ~ In 10 row) rows ->
  lines (concat (map (fun row => row ++ eol) rows) ++ rest) = map (fun row => row ++ cr_of eol) rows ++ lines rest.
Proof.
  intros He. destruct (eol_split eol He) as [Heq Hcr].
  induction rows as [|row rows IH]; intros H; [reflexivity|].
  inversion H; subst. cbn [map concat]. rewrite <- app_assoc.
  rewrite Heq at 1. rewrite (app_assoc row), <- (app_assoc (row ++ cr_of eol) [10]).
  rewrite (app_assoc (row ++ cr_of eol)).
  rewrite lines_line.
  - cbn [List.app]. f_equal. apply IH. assumption.
  - intros Hi. apply in_app_or in Hi. destruct Hi; contradiction.
Qed.

Lemma lines_layout eol : eol_ok eol -> forall rs, Forall rec_wf rs ->
  lines (layout eol rs) = all_lines eol rs.
Proof.
  intros He.
  induction rs as [|r rs IH]; intros H; [reflexivity|].
  inversion H as [|? ? Hr Hrs]; subst. destruct Hr as (Hs & Hw & [Hn10 Hn13] & [Hs10 Hs13] & Hs62).
  unfold layout in *. cbn [map concat all_lines]. unfold layout_rec at 1.
  assert (Hhead : ([62] ++ r_name r ++ eol ++ wrap (r_width r) eol (r_seq r)) ++ concat (map (layout_rec eol) rs)
                  = ((62 :: r_name r ++ cr_of eol) ++ [10]) ++ (wrap (r_width r) eol (r_seq r) ++ concat (map (layout_rec eol) rs))).
  { destruct He as [-> | ->]; cbn [cr_of removelast List.app]; rewrite <- ?app_assoc; cbn [List.app];
      rewrite ?app_nil_r; rewrite <- ?app_assoc; reflexivity. }
  rewrite Hhead. rewrite lines_line.
  2:{ intros Hi. destruct Hi as [Hi|Hi]; [discriminate|]. apply in_app_or in Hi.
      destruct Hi as [Hi|Hi]; [contradiction|]. destruct He as [-> | ->]; cbn in Hi; intuition (try discriminate). }
  unfold rec_lines. cbn [List.app]. f_equal.
  replace (r_width r) with (Z.of_nat (Z.to_nat (r_width r))) at 1 by lia.
  rewrite (wrap_rows (Z.to_nat (r_width r)) eol ltac:(lia) (length (r_seq r)) (r_seq r) eq_refl).
  rewrite lines_rows; [|assumption|].
  - f_equal. apply IH. assumption.
  - destruct (chunks_rows (Z.to_nat (r_width r)) ltac:(lia) (length (r_seq r)) (r_seq r) eq_refl) as [HF _].
    eapply Forall_impl; [|exact HF]. intros row [_ Hin] Hi. apply Hs10. apply Hin. exact Hi.
Qed.

(* ---------- folding the lines into index rows ---------- *)
Lemma strip_cr_clean eol l : eol_ok eol -> ~ In 13 l -> strip_cr (l ++ cr_of eol) = l.
Proof.
  intros [-> | ->] H; cbn [cr_of removelast]; unfold strip_cr.
  - rewrite app_nil_r. destruct (rev l) as [|x r] eqn:E; [reflexivity|].
    destruct (Z.eq_dec x 13) as [->|Hne].
    + exfalso. apply H. apply in_rev. rewrite E. left. reflexivity.
    + destruct x; try reflexivity. repeat (destruct p; try reflexivity); try congruence.
  - rewrite rev_app_distr. cbn. apply rev_involutive.
Qed.

Definition first_of (eol : list Z) (pos : Z) (rows : list (list Z)) : option (Z * Z * Z) :=
  match rows with [] => None | r0 :: _ => Some (pos, len r0, len r0 + len (cr_of eol) + 1) end.
Definition lines_size (eol : list Z) (rows : list (list Z)) : Z :=
  fold_right (fun row a => len row + len (cr_of eol) + 1 + a) 0 rows.

Lemma seq_lines_fold eol : eol_ok eol -> forall rows cur pos L,
  Forall (fun row => row <> [] /\ ~ In 62 row /\ ~ In 13 row) rows ->
  build_index (Some cur) (with_offsets pos (map (fun row => row ++ cr_of eol) rows ++ L))
  = build_index (Some {| c_name := c_name cur; c_len := c_len cur + sumZ (map len rows);
                         c_first := match c_first cur with Some f => Some f | None => first_of eol pos rows end |})
                (with_offsets (pos + lines_size eol rows) L).
Proof.
  intros He. induction rows as [|row rows IH]; intros cur pos L H.
  - cbn [map List.app lines_size fold_right sumZ first_of]. rewrite !Z.add_0_r.
    destruct cur as [n l f]. cbn. destruct f; reflexivity.
  - inversion H as [|? ? [Hne [H62 H13]] Hrest]; subst.
    cbn [map List.app with_offsets build_index].
    assert (Hh : is_header (row ++ cr_of eol) = false).
    { destruct row as [|x row']; [congruence|]. cbn. destruct (Z.eq_dec x 62) as [->|Hx]; [exfalso; apply H62; left; reflexivity|].
      destruct x; try reflexivity. repeat (destruct p; try reflexivity); try congruence. }
    rewrite Hh. rewrite (strip_cr_clean eol row He H13).
    rewrite IH by assumption. cbn [c_name c_len c_first].
    f_equal.
    + f_equal. destruct cur as [n l f]. cbn [c_name c_len c_first]. f_equal.
      * cbn [map sumZ fold_right]. unfold sumZ. cbn [fold_right]. ring.
      * destruct f; [reflexivity|]. cbn [first_of]. rewrite len_app. try reflexivity; repeat f_equal; try ring.
    + f_equal. cbn [lines_size fold_right]. fold (lines_size eol rows). rewrite len_app. ring.
Qed.

Lemma sum_len_concat (rows : list (list Z)) : sumZ (map len rows) = len (concat rows).
Proof. induction rows as [|r rows IH]; [reflexivity|]. cbn [map concat]. unfold sumZ in *. cbn [fold_right]. rewrite len_app, IH. reflexivity. Qed.
Lemma len_eol eol : eol_ok eol -> len eol = len (cr_of eol) + 1.
Proof. intros [-> | ->]; reflexivity. Qed.
Lemma len_rows_eol eol (rows : list (list Z)) : eol_ok eol ->
  len (concat (map (fun row => row ++ eol) rows)) = lines_size eol rows.
Proof.
  intros He. induction rows as [|r rows IH]; [reflexivity|].
  cbn [map concat lines_size fold_right]. fold (lines_size eol rows). rewrite !len_app, IH, (len_eol eol He). ring.
Qed.

Lemma build_all eol : eol_ok eol -> forall rs c pos, Forall rec_wf rs ->
  build_index c (with_offsets pos (all_lines eol rs))
  = (match c with Some c => close c | None => [] end) ++ spec_index_from pos eol rs.
Proof.
  intros He. induction rs as [|r rs IH]; intros c pos H.
  - cbn. rewrite app_nil_r. reflexivity.
  - inversion H as [|? ? Hr Hrs]; subst. destruct Hr as (Hs & Hw & [Hn10 Hn13] & [Hs10 Hs13] & Hs62).
    set (w := Z.to_nat (r_width r)).
    assert (Hw' : (1 <= w)%nat) by (unfold w; lia).
    destruct (chunks_rows w Hw' (length (r_seq r)) (r_seq r) eq_refl) as [HF Hcat].
    cbn [all_lines]. unfold rec_lines. fold w.
    cbn [List.app with_offsets build_index is_header tl].
    f_equal.
    rewrite (strip_cr_clean eol (r_name r) He Hn13).
    rewrite (seq_lines_fold eol He).
    2:{ eapply Forall_impl; [|exact HF]. intros row [Hne Hin]. split; [exact Hne|].
        split; intros Hi; [apply Hs62|apply Hs13]; apply Hin; exact Hi. }
    rewrite IH by assumption. cbn [c_name c_len c_first spec_index_from].
    assert (Hrows : chunks_of w (r_seq r) = firstn w (r_seq r) :: chunks_of w (skipn w (r_seq r)))
      by (apply chunks_of_cons; assumption).
    rewrite sum_len_concat, Hcat.
    unfold close. cbn [c_first c_name c_len]. rewrite Hrows at 1. cbn [first_of List.app].
    f_equal.
    + (* the row of this record *)
      f_equal; rewrite ?len_firstn, ?len_cons, ?len_app, ?(len_eol eol He); unfold w; try lia.
    + (* the position of the next record *)
      f_equal. unfold layout_rec. rewrite !len_app. rewrite !len_cons, len_nil.
      replace (r_width r) with (Z.of_nat w) by (unfold w; lia).
      rewrite (wrap_rows w eol Hw' (length (r_seq r)) (r_seq r) eq_refl).
      rewrite (len_rows_eol eol _ He), len_app, (len_eol eol He). ring.
Qed.

Theorem model_index_layout eol rs : eol_ok eol -> Forall rec_wf rs ->
  model_index (layout eol rs) = spec_index eol rs.
Proof.
  intros He H. unfold model_index, spec_index. rewrite (lines_layout eol He rs H).
  rewrite (build_all eol He rs None 0 H). reflexivity.
Qed.

(* Proofs/C04.v — the offset algebra of TextThroughputExtractor: selection, compaction and concatenation
   commute with the abstraction (record bytes + relative field offsets); the writer's output is a function
   of that abstraction. *)
From Coq Require Import ZArith List Bool Lia.
From BNP Require Import Base.Prims Base.PrimsFacts Model.C04.
Import ListNotations.
Open Scope Z_scope.

(* ------------------------------------------------------------------ generic list facts *)
Lemma zip_with_length {A B C} (f : A -> B -> C) a b :
  length (zip_with f a b) = Nat.min (length a) (length b).
Proof. revert b; induction a; destruct b; simpl; auto. Qed.

Lemma zip_with_map_l {A A' B C} (f : A' -> B -> C) (g : A -> A') a b :
  zip_with f (map g a) b = zip_with (fun x y => f (g x) y) a b.
Proof. revert b; induction a; destruct b; simpl; f_equal; auto. Qed.

Lemma zip_with_ext {A B C} (f g : A -> B -> C) a b :
  (forall x y, f x y = g x y) -> zip_with f a b = zip_with g a b.
Proof. intros H; revert b; induction a; destruct b; simpl; f_equal; auto. Qed.

Lemma takeA_length {A} (d : A) l sel : length (takeA d l sel) = length sel.
Proof. unfold takeA; apply map_length. Qed.

Lemma len_slice {A} a b (l : list A) : 0 <= a -> a <= b -> b <= len l -> len (slice a b l) = b - a.
Proof.
  intros. unfold slice. rewrite len_firstn, len_skipn. lia.
Qed.

Lemma slice_mid {A} (pre l post : list A) a b :
  0 <= a -> a <= b -> b <= len l ->
  slice (len pre + a) (len pre + b) (pre ++ l ++ post) = slice a b l.
Proof.
  intros. rewrite slice_app_r by lia.
  replace (len pre + a - len pre) with a by lia. replace (len pre + b - len pre) with b by lia.
  apply slice_app_l; lia.
Qed.

Lemma split3 {A} (l : list A) s e : 0 <= s -> s <= len l ->
  exists pre post, l = pre ++ slice s e l ++ post /\ len pre = s.
Proof.
  intros. exists (firstn (Z.to_nat s) l), (skipn (Z.to_nat (e - s)) (skipn (Z.to_nat s) l)). split.
  - unfold slice. rewrite firstn_skipn. rewrite firstn_skipn. reflexivity.
  - rewrite len_firstn. lia.
Qed.

Lemma slice_slice {A} (l : list A) s e a b :
  0 <= s -> s <= a -> b <= e -> e <= len l ->
  slice (a - s) (b - s) (slice s e l) = slice a b l.
Proof.
  intros. destruct (Z_le_gt_dec b a).
  - rewrite !slice_empty by lia. reflexivity.
  - destruct (split3 l s e) as (pre & post & E & L); try lia.
    assert (Lm : len (slice s e l) = e - s) by (apply len_slice; lia).
    set (m := slice s e l) in *. rewrite E.
    replace a with (len pre + (a - s)) at 2 by lia. replace b with (len pre + (b - s)) at 2 by lia.
    symmetry. apply slice_mid; lia.
Qed.

(* ------------------------------------------------------------------ rows: the parallel arrays seen as a list of rows *)
Definition dummy_xrow := {| r_s := 0; r_e := 0; r_fs := []; r_fl := [] |}.

Lemma zip4_length ss es fss fls :
  length es = length ss -> length fss = length ss -> length fls = length ss ->
  length (zip4 ss es fss fls) = length ss.
Proof.
  revert es fss fls; induction ss; intros [|e es] [|f fss] [|l fls]; simpl; intros; try discriminate; auto.
Qed.

Lemma zip4_nth ss es fss fls i :
  length es = length ss -> length fss = length ss -> length fls = length ss -> (i < length ss)%nat ->
  nth i (zip4 ss es fss fls) dummy_xrow = {| r_s := nth i ss 0; r_e := nth i es 0; r_fs := nth i fss []; r_fl := nth i fls [] |}.
Proof.
  revert es fss fls i; induction ss; intros [|e es] [|f fss] [|l fls] i; simpl; intros; try discriminate; try lia.
  destruct i; auto. apply IHss; lia.
Qed.

Definition in_range (n : nat) (sel : list Z) : Prop := Forall (fun i => 0 <= i < Z.of_nat n) sel.

Lemma in_range_forallb n sel :
  forallb (fun i => (0 <=? i) && (i <? Z.of_nat n)) sel = true -> in_range n sel.
Proof.
  unfold in_range. rewrite forallb_forall, Forall_forall. intros H i Hi. specialize (H i Hi). lia.
Qed.

Lemma zip4_takeA ss es fss fls sel :
  length es = length ss -> length fss = length ss -> length fls = length ss -> in_range (length ss) sel ->
  zip4 (takeA 0 ss sel) (takeA 0 es sel) (takeA [] fss sel) (takeA [] fls sel)
  = takeA dummy_xrow (zip4 ss es fss fls) sel.
Proof.
  intros H1 H2 H3 H. induction H; simpl; auto.
  rewrite IHForall. f_equal. rewrite zip4_nth; auto. lia.
Qed.

Lemma rows_getitem sel x : shape_ok x -> in_range (length (x_es x)) sel ->
  rows (getitem sel x) = takeA dummy_xrow (rows x) sel.
Proof. intros (A & B & C) H. unfold rows, getitem; simpl. apply zip4_takeA; auto. Qed.

Lemma view_getitem sel x : shape_ok x -> in_range (length (x_es x)) sel ->
  view (getitem sel x) = takeA dummy_arow (view x) sel.
Proof.
  intros S H. unfold view. rewrite rows_getitem by auto. simpl. unfold takeA. rewrite map_map.
  apply map_ext_in. intros i Hi.
  assert (L : length (rows x) = length (x_es x)) by (destruct S as (A & B & C); apply zip4_length; auto).
  unfold in_range in H. rewrite Forall_forall in H. specialize (H i Hi).
  rewrite <- (map_nth (arow_of (x_data x))).
  apply nth_indep. rewrite map_length. lia.
Qed.

Lemma shape_getitem sel x : shape_ok (getitem sel x).
Proof. unfold shape_ok, getitem; simpl. rewrite !takeA_length. auto. Qed.

Lemma Forall_takeA {A} (P : A -> Prop) d l sel :
  Forall P l -> in_range (length l) sel -> Forall P (takeA d l sel).
Proof.
  intros Hl H. unfold takeA. rewrite Forall_forall in *. intros y Hy. apply in_map_iff in Hy.
  destruct Hy as (i & <- & Hi). unfold in_range in H. rewrite Forall_forall in H. specialize (H i Hi).
  apply Hl. apply nth_In. lia.
Qed.

Lemma Inv_getitem sel x : Inv x -> in_range (length (x_es x)) sel -> Inv (getitem sel x).
Proof.
  intros (S & R & C) H. split; [apply shape_getitem|]. split.
  - rewrite rows_getitem by auto. simpl. apply Forall_takeA; auto.
    destruct S as (A & B & D). unfold rows. rewrite zip4_length; auto.
  - simpl. discriminate.
Qed.

(* ------------------------------------------------------------------ _make_contigous *)
Fixpoint rebase (acc : Z) (rs : list xrow) : list xrow :=
  match rs with
  | [] => []
  | r :: rest =>
      {| r_s := acc; r_e := acc + (r_e r - r_s r);
         r_fs := map (fun a => a - (r_s r - acc)) (r_fs r); r_fl := r_fl r |}
      :: rebase (acc + (r_e r - r_s r)) rest
  end.

Fixpoint starts_from (a : Z) (l : list Z) : list Z :=
  match l with [] => [] | x :: r => a :: starts_from (a + x) r end.
Lemma removelast_cumsum a l : removelast (a :: cumsum_from a l) = starts_from a l.
Proof.
  revert a; induction l as [|x l IH]; intros a; simpl; auto.
  f_equal. apply IH.
Qed.

Lemma rows_mc_gen ss : forall es fss fls acc,
  length es = length ss -> length fss = length ss -> length fls = length ss ->
  zip4 (removelast (acc :: cumsum_from acc (vsub es ss))) (cumsum_from acc (vsub es ss))
       (zip_with (fun r o => map (fun s => s - o) r) fss
                 (vsub ss (removelast (acc :: cumsum_from acc (vsub es ss))))) fls
  = rebase acc (zip4 ss es fss fls).
Proof.
  intros es fss fls acc. rewrite removelast_cumsum. revert es fss fls acc.
  induction ss as [|s ss IH]; intros [|e es] [|f fss] [|l fls] acc; simpl; intros; try discriminate; auto.
  f_equal. apply IH; lia.
Qed.

Lemma rows_mc x : shape_ok x -> rows (make_contiguous x) = rebase 0 (rows x).
Proof.
  intros (A & B & C). unfold rows, make_contiguous; simpl. unfold cumsum.
  change (match cumsum_from 0 (vsub (x_ee x) (x_es x)) with
          | [] => []
          | _ :: _ => 0 :: removelast (cumsum_from 0 (vsub (x_ee x) (x_es x)))
          end) with (removelast (0 :: cumsum_from 0 (vsub (x_ee x) (x_es x)))).
  apply rows_mc_gen; auto.
Qed.

Definition rec_of (data : list Z) (r : xrow) : list Z := slice (r_s r) (r_e r) data.

Lemma ravel_rows data ss : forall es fss fls,
  length es = length ss -> length fss = length ss -> length fls = length ss ->
  ragged_ravel data ss (vsub es ss) = concat (map (rec_of data) (zip4 ss es fss fls)).
Proof.
  unfold ragged_ravel, vsub.
  induction ss as [|s ss IH]; intros [|e es] [|f fss] [|l fls]; simpl; intros; try discriminate; auto.
  unfold rec_of at 1; simpl. replace (s + (e - s)) with e by lia. f_equal. apply IH; lia.
Qed.

Lemma data_mc x : shape_ok x -> x_data (make_contiguous x) = concat (map a_rec (view x)).
Proof.
  intros (A & B & C). unfold make_contiguous, view; simpl. rewrite map_map. simpl.
  apply ravel_rows; auto.
Qed.

Lemma len_rec_of dlen data r : row_ok dlen r -> dlen = len data -> len (rec_of data r) = r_e r - r_s r.
Proof. intros (H0 & H1 & H2 & _) ->. apply len_slice; lia. Qed.

Lemma map_ext_Forall {A B} (f g : A -> B) l : Forall (fun x => f x = g x) l -> map f l = map g l.
Proof. induction 1; simpl; f_equal; auto. Qed.

(* the abstraction of a rebased row inside the compacted data is the abstraction of the row *)
Lemma view_rebase data rs : forall pre,
  Forall (row_ok (len data)) rs ->
  map (arow_of (pre ++ concat (map (rec_of data) rs))) (rebase (len pre) rs) = map (arow_of data) rs.
Proof.
  induction rs as [|r rs IH]; intros pre H; simpl; auto.
  inversion H as [|? ? Hr Hrs]; subst.
  pose proof (len_rec_of _ _ _ Hr eq_refl) as L.
  f_equal.
  - unfold arow_of; simpl. f_equal.
    + replace (len pre + (r_e r - r_s r)) with (len pre + len (rec_of data r)) by lia.
      replace (len pre) with (len pre + 0) at 1 by lia.
      pose proof (len_nonneg (rec_of data r)).
      rewrite slice_mid by lia. rewrite slice_full by lia. reflexivity.
    + rewrite map_map. f_equal. apply map_ext. intros; lia.
  - specialize (IH (pre ++ rec_of data r) Hrs). rewrite len_app, L in IH.
    rewrite <- app_assoc in IH. exact IH.
Qed.

Lemma view_mc x : Inv x -> view (make_contiguous x) = view x.
Proof.
  intros (S & R & _). unfold view at 1. rewrite rows_mc by auto. rewrite data_mc by auto.
  unfold view. rewrite map_map. simpl.
  change (map (fun r => slice (r_s r) (r_e r) (x_data x)) (rows x)) with (map (rec_of (x_data x)) (rows x)).
  apply (view_rebase (x_data x) (rows x) []). exact R.
Qed.

Lemma sum_lens_concat data rs :
  Forall (row_ok (len data)) rs -> len (concat (map (rec_of data) rs)) = sumZ (map (fun r => r_e r - r_s r) rs).
Proof.
  induction 1; simpl; auto. rewrite len_app, IHForall. erewrite len_rec_of; eauto.
Qed.

Lemma rebase_ok dlen rs : forall acc total,
  0 <= acc -> Forall (row_ok dlen) rs -> acc + sumZ (map (fun r => r_e r - r_s r) rs) <= total ->
  Forall (row_ok total) (rebase acc rs).
Proof.
  induction rs as [|r rs IH]; intros acc total Ha H Ht; simpl; constructor.
  - inversion H as [|? ? (H0 & H1 & H2 & H3 & H4) Hrs]; subst. simpl in Ht.
    assert (0 <= sumZ (map (fun r => r_e r - r_s r) rs)).
    { clear - Hrs. induction Hrs; simpl; try lia. destruct H as (? & ? & _). lia. }
    unfold row_ok; simpl. repeat split; try lia.
    + rewrite map_length; auto.
    + clear - H4. remember (r_fl r) as fl. clear Heqfl. revert fl H4.
      induction (r_fs r) as [|a fs IHf]; intros [|l fl] H4; simpl; auto.
      inversion H4; subst. simpl in *. constructor; auto. simpl. lia.
  - inversion H as [|? ? (H0 & H1 & H2 & H3 & H4) Hrs]; subst. simpl in Ht. apply IH; auto; lia.
Qed.

Lemma shape_mc x : shape_ok x -> shape_ok (make_contiguous x).
Proof.
  intros (A & B & C). unfold shape_ok, make_contiguous; simpl.
  assert (L : length (vsub (x_ee x) (x_es x)) = length (x_es x)).
  { unfold vsub. rewrite zip_with_length. lia. }
  assert (Lc : forall a l, length (cumsum_from a l) = length l).
  { intros a l; revert a; induction l; simpl; auto. }
  assert (Ls : forall a l, length (starts_from a l) = length l).
  { intros a l; revert a; induction l; simpl; auto. }
  unfold cumsum.
  change (match cumsum_from 0 (vsub (x_ee x) (x_es x)) with
          | [] => []
          | _ :: _ => 0 :: removelast (cumsum_from 0 (vsub (x_ee x) (x_es x)))
          end) with (removelast (0 :: cumsum_from 0 (vsub (x_ee x) (x_es x)))).
  rewrite removelast_cumsum. rewrite ?zip_with_length, ?Ls, ?Lc, ?L.
  unfold vsub. rewrite ?zip_with_length, ?Ls, ?Lc. fold vsub. rewrite ?L. repeat split; lia.
Qed.

Lemma Inv_mc x : Inv x -> Inv (make_contiguous x).
Proof.
  intros I. pose proof I as (S & R & C). split; [apply shape_mc; auto|]. split.
  - rewrite rows_mc by auto. rewrite data_mc by auto.
    eapply rebase_ok; eauto; try lia.
    unfold view. rewrite map_map. simpl.
    change (map (fun r => slice (r_s r) (r_e r) (x_data x)) (rows x)) with (map (rec_of (x_data x)) (rows x)).
    rewrite sum_lens_concat by auto. lia.
  - intros _. rewrite view_mc by auto. apply data_mc; auto.
Qed.

(* ------------------------------------------------------------------ concatenate *)
Definition shift (o : Z) (r : xrow) : xrow :=
  {| r_s := o + r_s r; r_e := o + r_e r; r_fs := map (Z.add o) (r_fs r); r_fl := r_fl r |}.

Lemma zip4_app a : forall b c d a' b' c' d',
  length b = length a -> length c = length a -> length d = length a ->
  zip4 (a ++ a') (b ++ b') (c ++ c') (d ++ d') = zip4 a b c d ++ zip4 a' b' c' d'.
Proof.
  induction a; intros [|? b] [|? c] [|? d]; simpl; intros; try discriminate; auto.
  f_equal. apply IHa; lia.
Qed.

Lemma zip4_shift o ss : forall es fss fls,
  zip4 (map (Z.add o) ss) (map (Z.add o) es) (map (map (Z.add o)) fss) fls = map (shift o) (zip4 ss es fss fls).
Proof.
  induction ss; intros [|? es] [|? fss] [|? fls]; simpl; auto. f_equal. apply IHss.
Qed.

Definition offs_from (a : Z) (xs : list ext) : list Z := a :: cumsum_from a (map (fun b => len (x_data b)) xs).

Lemma rows_concat_gen xs : forall a, Forall shape_ok xs ->
  zip4 (concat (zip_with (fun b o => map (Z.add o) (x_es b)) xs (offs_from a xs)))
       (concat (zip_with (fun b o => map (Z.add o) (x_ee b)) xs (offs_from a xs)))
       (concat (zip_with (fun b o => map (map (Z.add o)) (x_fs b)) xs (offs_from a xs)))
       (concat (map x_fl xs))
  = concat (zip_with (fun b o => map (shift o) (rows b)) xs (offs_from a xs)).
Proof.
  induction xs as [|x xs IH]; intros a H; simpl; auto.
  inversion H as [|? ? (A & B & C) Hxs]; subst.
  rewrite zip4_app by (rewrite !map_length; auto).
  f_equal.
  - apply zip4_shift.
  - apply (IH (a + len (x_data x)) Hxs).
Qed.

Lemma rows_concat xs : Forall shape_ok xs ->
  rows (concatenate xs) = concat (zip_with (fun b o => map (shift o) (rows b)) xs (offs_from 0 xs)).
Proof. intros H. unfold rows, concatenate; simpl. apply (rows_concat_gen xs 0 H). Qed.

Lemma arow_shift pre d post r :
  row_ok (len d) r -> arow_of (pre ++ d ++ post) (shift (len pre) r) = arow_of d r.
Proof.
  intros (H0 & H1 & H2 & H3 & H4). unfold arow_of, shift; simpl. f_equal.
  - apply slice_mid; lia.
  - rewrite map_map. f_equal. apply map_ext; intros; lia.
Qed.

Lemma view_concat_gen xs : forall pre, Forall Inv xs ->
  map (arow_of (pre ++ concat (map x_data xs)))
      (concat (zip_with (fun b o => map (shift o) (rows b)) xs (offs_from (len pre) xs)))
  = concat (map view xs).
Proof.
  induction xs as [|x xs IH]; intros pre H; simpl; auto.
  inversion H as [|? ? (S & R & C) Hxs]; subst.
  rewrite map_app. f_equal.
  - unfold view. rewrite map_map. apply map_ext_Forall.
    eapply Forall_impl; [|exact R]. intros r Hr. apply arow_shift; auto.
  - specialize (IH (pre ++ x_data x) Hxs). rewrite len_app in IH. rewrite <- app_assoc in IH. exact IH.
Qed.

Lemma view_concat xs : Forall Inv xs -> view (concatenate xs) = concat (map view xs).
Proof.
  intros H. unfold view at 1. rewrite rows_concat.
  - simpl. apply (view_concat_gen xs [] H).
  - eapply Forall_impl; [|exact H]. intros x (S & _); auto.
Qed.

Lemma len_concat_zip {A} (h : ext -> list A) (g : Z -> A -> A) xs : forall a,
  length (concat (zip_with (fun b o => map (g o) (h b)) xs (offs_from a xs))) = length (concat (map h xs)).
Proof.
  induction xs as [|x xs IH]; intros a; simpl; auto.
  rewrite !app_length, map_length. f_equal. apply (IH (a + len (x_data x))).
Qed.

Lemma shape_concat xs : Forall shape_ok xs -> shape_ok (concatenate xs).
Proof.
  intros H. unfold shape_ok, concatenate; simpl.
  change (offsets_of xs) with (offs_from 0 xs).
  rewrite (len_concat_zip x_es Z.add), (len_concat_zip x_ee Z.add), (len_concat_zip x_fs (fun o => map (Z.add o))).
  induction H as [|x xs (A & B & C) Hxs IH]; simpl; auto.
  rewrite !app_length. destruct IH as (I1 & I2 & I3). repeat split; congruence.
Qed.

Lemma row_ok_shift dl total o r : row_ok dl r -> 0 <= o -> o + dl <= total -> row_ok total (shift o r).
Proof.
  intros (H0 & H1 & H2 & H3 & H4) Ho Ht. unfold row_ok, shift; simpl. repeat split; try lia.
  - rewrite map_length; auto.
  - clear - H4. remember (r_fl r) as fl. clear Heqfl. revert fl H4.
    induction (r_fs r) as [|a fs IHf]; intros [|l fl] H4; simpl; auto.
    inversion H4; subst. simpl in *. constructor; auto. simpl. lia.
Qed.

Lemma rows_ok_concat_gen xs : forall (pre : list Z) total, Forall Inv xs ->
  len pre + len (concat (map x_data xs)) <= total ->
  Forall (row_ok total) (concat (zip_with (fun b o => map (shift o) (rows b)) xs (offs_from (len pre) xs))).
Proof.
  induction xs as [|x xs IH]; intros pre total H Ht; simpl; auto.
  inversion H as [|? ? (S & R & C) Hxs]; subst. simpl in Ht. rewrite len_app in Ht.
  pose proof (len_nonneg pre). pose proof (len_nonneg (concat (map x_data xs))). pose proof (len_nonneg (x_data x)).
  apply Forall_app. split.
  - rewrite Forall_map. eapply Forall_impl; [|exact R]. intros r Hr. eapply row_ok_shift; eauto; lia.
  - specialize (IH (pre ++ x_data x) total Hxs). rewrite len_app in IH. apply IH. lia.
Qed.

Lemma forallb_Forall {A} (p : A -> bool) l : forallb p l = true -> Forall (fun x => p x = true) l.
Proof. rewrite forallb_forall, Forall_forall. auto. Qed.

Lemma Inv_concat xs : Forall Inv xs -> Inv (concatenate xs).
Proof.
  intros H. assert (HS : Forall shape_ok xs) by (eapply Forall_impl; [|exact H]; intros x (S & _); auto).
  split; [apply shape_concat; auto|]. split.
  - rewrite rows_concat by auto. simpl.
    apply (rows_ok_concat_gen xs [] _ H). simpl. lia.
  - simpl. intros Hc. rewrite view_concat by auto. apply forallb_Forall in Hc.
    clear HS. induction H as [|x xs (_ & _ & C) Hxs IH]; simpl; auto.
    inversion Hc; subst. rewrite map_app, concat_app. f_equal; auto.
Qed.

(* ------------------------------------------------------------------ what the writer reads is a function of the view *)
Lemma Inv_contiguous x : Inv x -> Inv (contiguous x).
Proof. intros I. unfold contiguous. destruct (x_contig x); auto. apply Inv_mc; auto. Qed.
Lemma view_contiguous x : Inv x -> view (contiguous x) = view x.
Proof. intros I. unfold contiguous. destruct (x_contig x); auto. apply view_mc; auto. Qed.
Lemma data_contiguous x : Inv x -> x_data (contiguous x) = concat (map a_rec (view x)).
Proof.
  intros I. unfold contiguous. destruct (x_contig x) eqn:E.
  - destruct I as (_ & _ & C). auto.
  - apply data_mc. destruct I; auto.
Qed.

Lemma zip4_map_gen {B} (G : Z -> Z -> list Z -> list Z -> B) ss : forall es fss fls,
  length es = length ss -> length fss = length ss -> length fls = length ss ->
  map (fun r => G (r_s r) (r_e r) (r_fs r) (r_fl r)) (zip4 ss es fss fls)
  = zip_with (fun se ff => G (fst se) (snd se) (fst ff) (snd ff)) (combine ss es) (combine fss fls).
Proof.
  induction ss; intros [|? es] [|? fss] [|? fls]; simpl; intros; try discriminate; auto.
  f_equal. apply IHss; lia.
Qed.

Lemma get_field_rows j x : shape_ok x ->
  get_field j x = map (fun r => slice (nthZ (r_fs r) j) (nthZ (r_fs r) j + nthZ (r_fl r) j) (x_data x)) (rows x).
Proof.
  intros (A & B & C). unfold get_field, extract, col, rows.
  rewrite (zip4_map_gen (fun _ _ fs fl => slice (nthZ fs j) (nthZ fs j + nthZ fl j) (x_data x))) by auto.
  rewrite zip_with_map_l.
  generalize (x_es x) (x_ee x) A B C. generalize (x_fl x). generalize (x_fs x).
  induction l as [|f fss IH]; intros [|l fls] [|s ss] [|e es]; simpl; intros; try discriminate; auto.
  f_equal. apply IH; lia.
Qed.

Lemma rest_rows j x : shape_ok x ->
  rest_of_line j x = map (fun r => slice (nthZ (r_fs r) j) (nthZ (r_fs r) j + (r_e r - nthZ (r_fs r) j - 1)) (x_data x)) (rows x).
Proof.
  intros (A & B & C). unfold rest_of_line, extract, col, rows, vsub.
  rewrite (zip4_map_gen (fun _ e fs _ => slice (nthZ fs j) (nthZ fs j + (e - nthZ fs j - 1)) (x_data x))) by auto.
  generalize (x_es x) (x_ee x) A B C. generalize (x_fl x). generalize (x_fs x).
  induction l as [|f fss IH]; intros [|l fls] [|s ss] [|e es]; simpl; intros; try discriminate; auto.
  f_equal. apply IH; lia.
Qed.

Lemma extra_rows x : shape_ok x ->
  sam_extra x = map (fun r => let st := last0 (r_fs r) + last0 (r_fl r) + 1 in
                              slice st (st + Z.max (extra_end (x_data x) (r_e r) - st) 0) (x_data x)) (rows x).
Proof.
  intros (A & B & C). unfold sam_extra, extract, rows.
  rewrite (zip4_map_gen (fun _ e fs fl => let st := last0 fs + last0 fl + 1 in
                                          slice st (st + Z.max (extra_end (x_data x) e - st) 0) (x_data x))) by auto.
  generalize (x_es x) (x_ee x) A B C. generalize (x_fl x). generalize (x_fs x).
  induction l as [|f fss IH]; intros [|l fls] [|s ss] [|e es]; simpl; intros; try discriminate; auto.
  f_equal. apply IH; lia.
Qed.

Lemma nth_combine_rel (g : Z -> Z) fs : forall fl k, length fs = length fl ->
  nth k (combine (map g fs) fl) (0, 0) =
  if (k <? length fs)%nat then (g (nth k fs 0), nth k fl 0) else (0, 0).
Proof.
  induction fs as [|a fs IH]; intros [|l fl] k H; simpl in *; try discriminate.
  - destruct k; reflexivity.
  - destruct k; simpl; auto. rewrite IH by lia. reflexivity.
Qed.

Lemma row_field_bounds dlen r k : row_ok dlen r -> (k < length (r_fs r))%nat ->
  r_s r <= nth k (r_fs r) 0 /\ 0 <= nth k (r_fl r) 0 /\ nth k (r_fs r) 0 + nth k (r_fl r) 0 + 1 <= r_e r.
Proof.
  intros (_ & _ & _ & HL & HF) Hk. rewrite Forall_forall in HF.
  specialize (HF (nth k (r_fs r) 0, nth k (r_fl r) 0)). simpl in HF. apply HF.
  rewrite <- combine_nth by auto. apply nth_In. rewrite combine_length. lia.
Qed.

Lemma a_field_row data r j : row_ok (len data) r ->
  a_field j (arow_of data r) = slice (nthZ (r_fs r) j) (nthZ (r_fs r) j + nthZ (r_fl r) j) data.
Proof.
  intros H. pose proof H as (H0 & H1 & H2 & HL & HF). unfold a_field, arow_of; simpl.
  rewrite nth_combine_rel by auto. unfold nthZ.
  destruct (Nat.ltb_spec (Z.to_nat j) (length (r_fs r))) as [Hk|Hk]; simpl.
  - destruct (row_field_bounds _ _ _ H Hk) as (B1 & B2 & B3).
    replace (nth (Z.to_nat j) (r_fs r) 0 - r_s r + nth (Z.to_nat j) (r_fl r) 0)
      with (nth (Z.to_nat j) (r_fs r) 0 + nth (Z.to_nat j) (r_fl r) 0 - r_s r) by lia.
    apply slice_slice; lia.
  - rewrite !nth_overflow by lia. rewrite !slice_empty by lia. reflexivity.
Qed.

Lemma a_rest_row data r j : row_ok (len data) r -> (Z.to_nat j < length (r_fs r))%nat ->
  a_rest j (arow_of data r) = slice (nthZ (r_fs r) j) (nthZ (r_fs r) j + (r_e r - nthZ (r_fs r) j - 1)) data.
Proof.
  intros H Hk. pose proof H as (H0 & H1 & H2 & HL & HF). unfold a_rest, arow_of; simpl.
  rewrite nth_combine_rel by auto. unfold nthZ.
  destruct (Nat.ltb_spec (Z.to_nat j) (length (r_fs r))) as [Hk'|Hk']; try lia. simpl.
  destruct (row_field_bounds _ _ _ H Hk) as (B1 & B2 & B3).
  rewrite len_slice by lia.
  replace (r_e r - r_s r - 1) with (r_e r - 1 - r_s r) by lia.
  replace (nth (Z.to_nat j) (r_fs r) 0 + (r_e r - nth (Z.to_nat j) (r_fs r) 0 - 1)) with (r_e r - 1) by lia.
  apply slice_slice; lia.
Qed.

Lemma last_combine_rel (g : Z -> Z) fs : forall fl, length fs = length fl -> fs <> [] ->
  last (combine (map g fs) fl) (0, 0) = (g (last fs 0), last fl 0).
Proof.
  induction fs as [|a fs IH]; intros [|l fl] H Hn; simpl in *; try discriminate; try congruence.
  destruct fs as [|a' fs]; destruct fl as [|l' fl]; simpl in *; try discriminate; auto.
  apply (IH (l' :: fl)); [simpl; lia | discriminate].
Qed.

Lemma last_nth {A} (l : list A) d : last l d = nth (length l - 1) l d.
Proof.
  induction l as [|a l IH]; [reflexivity|]. destruct l as [|b l]; [reflexivity|].
  change (last (a :: b :: l) d) with (last (b :: l) d). rewrite IH.
  change (length (a :: b :: l)) with (S (S (length l))). change (length (b :: l)) with (S (length l)).
  replace (S (S (length l)) - 1)%nat with (S (S (length l) - 1))%nat by lia. reflexivity.
Qed.

Lemma nth_skipn_add {A} (l : list A) : forall s i d, nth i (skipn s l) d = nth (s + i) l d.
Proof. induction l as [|x l IH]; intros [|s] i d; simpl; auto. destruct i; reflexivity. Qed.
Lemma nth_firstn_lt0 {A} (l : list A) n i d : (i < n)%nat -> nth i (firstn n l) d = nth i l d.
Proof. revert l i. induction n; intros [|x l] [|i] H; simpl; auto; try lia. apply IHn. lia. Qed.
Lemma nthZ_slice (data : list Z) s e i : 0 <= s -> 0 <= i < e - s -> nthZ (slice s e data) i = nthZ data (s + i).
Proof.
  intros Hs Hi. unfold nthZ, slice. rewrite nth_firstn_lt0 by lia. rewrite nth_skipn_add. f_equal. lia.
Qed.

Lemma extra_end_slice data s e : 0 <= s -> s + 2 <= e -> e <= len data ->
  extra_end (slice s e data) (len (slice s e data)) = extra_end data e - s.
Proof.
  intros Hs He Hl. rewrite len_slice by lia. unfold extra_end.
  replace (Z.max (e - s - 1 - 1) 0) with (e - s - 2) by lia. replace (Z.max (e - 1 - 1) 0) with (s + (e - s - 2)) by lia.
  rewrite nthZ_slice by lia. destruct (nthZ data (s + (e - s - 2)) =? CR); lia.
Qed.

Lemma a_extra_row data r : row_ok (len data) r -> r_fs r <> [] -> r_s r + 2 <= r_e r ->
  a_extra (arow_of data r) = let st := last0 (r_fs r) + last0 (r_fl r) + 1 in
                             slice st (st + Z.max (extra_end data (r_e r) - st) 0) data.
Proof.
  intros H Hn H2e. pose proof H as (H0 & H1 & H2 & HL & HF). unfold a_extra, arow_of; cbn [a_rec a_rel].
  rewrite last_combine_rel by auto. cbn [fst snd]. unfold last0.
  assert (Hk : (length (r_fs r) - 1 < length (r_fs r))%nat) by (destruct (r_fs r); simpl; try congruence; lia).
  destruct (row_field_bounds _ _ _ H Hk) as (B1 & B2 & B3).
  rewrite (last_nth (r_fs r)), (last_nth (r_fl r)). rewrite <- HL.
  set (a := nth (length (r_fs r) - 1) (r_fs r) 0) in *. set (l := nth (length (r_fs r) - 1) (r_fl r) 0) in *.
  rewrite extra_end_slice by lia.
  assert (Hee : extra_end data (r_e r) <= r_e r - 1) by (unfold extra_end; destruct (nthZ data _ =? CR); lia).
  cbv zeta.
  replace (a - r_s r + l + 1) with (a + l + 1 - r_s r) by lia.
  replace (extra_end data (r_e r) - r_s r - (a + l + 1 - r_s r)) with (extra_end data (r_e r) - (a + l + 1)) by lia.
  replace (a + l + 1 - r_s r + Z.max (extra_end data (r_e r) - (a + l + 1)) 0)
    with (a + l + 1 + Z.max (extra_end data (r_e r) - (a + l + 1)) 0 - r_s r) by lia.
  apply slice_slice; lia.
Qed.

Lemma a_rel_length data r : length (r_fs r) = length (r_fl r) -> length (a_rel (arow_of data r)) = length (r_fs r).
Proof. intros H. unfold arow_of; simpl. rewrite combine_length, map_length. lia. Qed.

Lemma get_field_view j x : Inv x -> get_field j x = map (a_field j) (view x).
Proof.
  intros (S & R & _). rewrite get_field_rows by auto. unfold view. rewrite map_map.
  apply map_ext_Forall. eapply Forall_impl; [|exact R]. intros r Hr. symmetry. apply a_field_row; auto.
Qed.

Lemma rest_view j x : Inv x -> width_gt (Z.to_nat j) (view x) -> rest_of_line j x = map (a_rest j) (view x).
Proof.
  intros (S & R & _) W. rewrite rest_rows by auto. unfold view in *. rewrite map_map.
  apply map_ext_Forall. unfold width_gt in W. rewrite Forall_map in W.
  rewrite Forall_forall in *. intros r Hr. symmetry. apply a_rest_row; auto.
  specialize (W r Hr). rewrite a_rel_length in W; auto. destruct (R r Hr) as (_ & _ & _ & HL & _); auto.
Qed.

Lemma extra_view x : Inv x -> width_gt 0 (view x) -> Forall (fun a => 2 <= len (a_rec a)) (view x) ->
  sam_extra x = map a_extra (view x).
Proof.
  intros (S & R & _) W W2. rewrite extra_rows by auto. unfold view in *. rewrite map_map.
  apply map_ext_Forall. unfold width_gt in W. rewrite Forall_map in W. rewrite Forall_map in W2.
  rewrite Forall_forall in *. intros r Hr. symmetry.
  pose proof (R r Hr) as (R0 & R1 & R2 & HL & _).
  apply a_extra_row; auto.
  - specialize (W r Hr). rewrite a_rel_length in W by auto. destruct (r_fs r); simpl in *; [lia|discriminate].
  - specialize (W2 r Hr). unfold arow_of in W2; cbn [a_rec] in W2. rewrite len_slice in W2 by lia. lia.
Qed.

(* ------------------------------------------------------------------ the lazy writer *)
Lemma a_field_text_dummy f i : a_field_text f i dummy_arow = [].
Proof.
  destruct f; simpl; try destruct (i =? 8); try destruct (i =? 11); try destruct (i =? 2);
    unfold a_field, a_rest, a_extra; simpl; try (destruct (Z.to_nat _); reflexivity); try reflexivity.
  all: try (destruct (Z.to_nat i) as [|[|?]]; reflexivity).
Qed.

Lemma field_text_view f i x : Inv x -> width_ok f (view x) -> 0 <= i < n_fields f ->
  field_text f i x = map (a_field_text f i) (view x).
Proof.
  intros I W Hi. destruct f; unfold field_text, a_field_text; simpl in *; try (apply get_field_view; auto).
  - destruct (i =? 8) eqn:E; [|apply get_field_view; auto].
    apply Z.eqb_eq in E; subst. apply rest_view; auto. apply W. lia.
  - destruct (i =? 11) eqn:E; [|apply get_field_view; auto]. destruct W. apply extra_view; auto.
  - destruct (i =? 2) eqn:E; apply get_field_view; auto.
Qed.

Lemma transpose_n_seq n : forall cols,
  transpose_n n cols = map (fun k => map (fun c => nth k c []) cols) (seq 0 n).
Proof.
  induction n as [|n IH]; intros cols; simpl; auto. f_equal.
  - apply map_ext. intros [|? ?]; reflexivity.
  - rewrite IH. rewrite <- seq_shift, map_map. apply map_ext. intros k. rewrite map_map.
    apply map_ext. intros [|? ?]; simpl; auto. destruct k; reflexivity.
Qed.

Lemma view_length x : shape_ok x -> length (view x) = length (x_es x).
Proof. intros (A & B & C). unfold view, rows. rewrite map_length. apply zip4_length; auto. Qed.

Lemma In_arange_bounds n i : In i (arange n) -> 0 <= i < n.
Proof. apply In_arange. Qed.

Lemma lazy_rows_view vr f x sv : Inv x -> width_ok f (view x) ->
  map (join_row vr f) (lazy_rows f x sv) = render_rows vr f (view x) sv.
Proof.
  intros I W. unfold lazy_rows, render_rows, lazy_columns. rewrite transpose_n_seq, map_map.
  rewrite view_length by (destruct I; auto). apply map_ext. intros k. unfold render_row. f_equal.
  rewrite map_map. apply map_ext_in. intros i Hi. apply In_arange_bounds in Hi.
  destruct (sv_get sv i); auto.
  rewrite field_text_view by auto.
  rewrite <- (a_field_text_dummy f i) at 1. apply map_nth.
Qed.

Definition is_bam (f : fmt) : bool := match f with FBam => true | _ => false end.

Lemma write_lazy vr f x sv out : Inv x -> width_ok f (view x) -> (is_bam f = false \/ sv = []) ->
  write vr f (SLazy x sv) = Some out ->
  out = match sv with [] => concat (map a_rec (view x)) | _ => concat (render_rows vr f (view x) sv) end.
Proof.
  intros I W Hb H. destruct sv as [|kc sv]; simpl in H.
  - inversion H; subst. apply data_contiguous; auto.
  - destruct Hb as [Hb|Hb]; [|discriminate].
    rewrite <- (lazy_rows_view vr) by auto.
    destruct f; try discriminate; try (destruct (negb (v_lazyqual vr) && refused_lazy _ x (kc :: sv)); [discriminate|]); inversion H; reflexivity.
Qed.

(* ------------------------------------------------------------------ programs *)
Fixpoint prog_ind' (P : prog -> Prop)
  (HS : P PSrc) (HI : forall sel p, P p -> P (PIdx sel p)) (HC : forall ps, Forall P ps -> P (PCat ps))
  (HR : forall j txt p, P p -> P (PRepl j txt p)) (HT : forall p, P p -> P (PTouch p)) (p : prog) : P p :=
  match p with
  | PSrc => HS
  | PIdx sel p => HI sel p (prog_ind' P HS HI HC HR HT p)
  | PCat ps => HC ps ((fix go (l : list prog) : Forall P l :=
                         match l with
                         | [] => Forall_nil P
                         | q :: r => Forall_cons q (prog_ind' P HS HI HC HR HT q) (go r)
                         end) ps)
  | PRepl j txt p => HR j txt p (prog_ind' P HS HI HC HR HT p)
  | PTouch p => HT p (prog_ind' P HS HI HC HR HT p)
  end.

Lemma all_some_Forall2 {A B} (g : A -> option B) l : forall r,
  all_some (map g l) = Some r -> Forall2 (fun a b => g a = Some b) l r.
Proof.
  induction l as [|a l IH]; simpl; intros r H.
  - inversion H; constructor.
  - destruct (g a) eqn:E; try discriminate. destruct (all_some (map g l)) eqn:E2; try discriminate.
    inversion H; subst. constructor; auto.
Qed.

Lemma incl_takeA {A} (d : A) l sel : in_range (length l) sel -> incl (takeA d l sel) l.
Proof.
  intros H y Hy. unfold takeA in Hy. apply in_map_iff in Hy. destruct Hy as (i & <- & Hi).
  unfold in_range in H. rewrite Forall_forall in H. specialize (H i Hi). apply nth_In. lia.
Qed.

(* the state reached by a program is a lazy table whose extractor is well-formed, whose abstraction is the
   specification-level evaluation of the program, and whose replaced columns are the program's *)
Definition lazy_reaches (f : fmt) (x0 : ext) (p : prog) (st : state) : Prop :=
  exists x, st = SLazy x (sv_eval p) /\ Inv x /\ view x = aeval (view x0) p /\ incl (view x) (view x0).

Lemma all_some_lazy lz : all_some (map as_lazy (map (fun xs : ext * setv => SLazy (fst xs) (snd xs)) lz)) = Some lz.
Proof. induction lz as [|[x sv] lz IH]; simpl; auto. rewrite IH. reflexivity. Qed.

Lemma run_lazy f x0 : Inv x0 -> forall p st,
  (has_concatenate f = true \/ cat_free p = true) ->
  run f (SLazy x0 []) p = Some st -> lazy_reaches f x0 p st.
Proof.
  intros I0 p. induction p as [|sel p IH|ps IH|j txt p IH|p IH] using prog_ind'; intros st Hf H; simpl in H.
  - inversion H; subst. exists x0. split; [reflexivity|]. split; [exact I0|]. split; [reflexivity|apply incl_refl].
  - destruct (run f (SLazy x0 []) p) as [s|] eqn:E; try discriminate.
    destruct (IH s Hf eq_refl) as (x & -> & I & V & In0).
    simpl in H. destruct (forallb _ sel) eqn:Hr; try discriminate. inversion H; subst.
    apply in_range_forallb in Hr. pose proof I as (S & _).
    exists (getitem sel x). split; [reflexivity|]. split; [apply Inv_getitem; auto|]. split.
    + rewrite view_getitem by auto. simpl. rewrite V. reflexivity.
    + rewrite view_getitem by auto. eapply incl_tran; [|exact In0]. apply incl_takeA.
      rewrite view_length; auto.
  - destruct Hf as [Hf|Hf]; [|discriminate].
    destruct (all_some (map (run f (SLazy x0 [])) ps)) as [sts|] eqn:E; try discriminate.
    apply all_some_Forall2 in E.
    assert (K : exists lz, sts = map (fun xs : ext * setv => SLazy (fst xs) (snd xs)) lz /\
                Forall2 (fun p xs => snd xs = sv_eval p /\ Inv (fst xs) /\ view (fst xs) = aeval (view x0) p
                                     /\ incl (view (fst xs)) (view x0)) ps lz).
    { clear H. induction E as [|p s ps sts Hp E IHE].
      - exists []. split; auto.
      - inversion IH as [|? ? IHp IHps]; subst.
        destruct (IHp s (or_introl Hf) Hp) as (x & -> & I & V & In0).
        destruct (IHE IHps) as (lz & -> & F2).
        exists ((x, sv_eval p) :: lz). split; [reflexivity|]. constructor; auto. }
    destruct K as (lz & -> & F2). rewrite all_some_lazy, Hf in H.
    match type of H with (if ?c then _ else _) = _ => destruct c eqn:Hsv end; try discriminate. inversion H; subst.
    assert (FI : Forall Inv (map fst lz)).
    { clear - F2. induction F2 as [|p xs ps lz (_ & I & _) _ IHF]; simpl; constructor; auto. }
    assert (FV : map view (map fst lz) = map (aeval (view x0)) ps).
    { clear - F2. induction F2 as [|p xs ps lz (_ & _ & V & _) _ IHF]; simpl; f_equal; auto. }
    exists (concatenate (map fst lz)). split; [reflexivity|]. split; [apply Inv_concat; auto|]. split.
    + rewrite view_concat by auto. simpl. rewrite FV. reflexivity.
    + rewrite view_concat by auto. clear - F2.
      induction F2 as [|p xs ps lz (_ & _ & _ & In0) _ IHF]; simpl; [apply incl_nil_l|].
      apply incl_app; auto.
  - destruct (run f (SLazy x0 []) p) as [s|] eqn:E; try discriminate.
    destruct (IH s Hf eq_refl) as (x & -> & I & V & In0).
    simpl in H. destruct (negb _); try discriminate. inversion H; subst.
    exists x. split; [reflexivity|]. split; [exact I|]. split; auto.
  - destruct (run f (SLazy x0 []) p) as [s|] eqn:E; try discriminate.
    destruct (IH s Hf eq_refl) as (x & -> & I & V & In0). inversion H; subst. unfold touch.
    destruct (inplace_compaction f); [|exists x; split; [reflexivity|]; split; [exact I|]; split; auto].
    destruct (sv_eval p) eqn:Esv.
    + exists (contiguous x). split; [simpl; rewrite Esv; reflexivity|]. split; [apply Inv_contiguous; auto|].
      rewrite view_contiguous by auto. split; auto.
    + exists x. split; [simpl; rewrite Esv; reflexivity|]. split; [exact I|]. split; auto.
Qed.

(* ------------------------------------------------------------------ main statements *)
Lemma width_ok_incl f v v0 : incl v v0 -> width_ok f v0 -> width_ok f v.
Proof.
  intros Hi. assert (G : forall (P : arow -> Prop), Forall P v0 -> Forall P v).
  { intros P. rewrite !Forall_forall. intros H a Ha. apply H. apply Hi. exact Ha. }
  destruct f; simpl; auto; unfold width_gt.
  - intros H Hn. apply G. auto.
  - intros (A & B). split; apply G; auto.
Qed.

Theorem program_write vr f x0 p out :
  Inv x0 -> width_ok f (view x0) -> (has_concatenate f = true \/ cat_free p = true) ->
  match run f (SLazy x0 []) p with Some s => write vr f s | None => None end = Some out ->
  out = match sv_eval p with
        | [] => concat (map a_rec (aeval (view x0) p))
        | sv => concat (render_rows vr f (aeval (view x0) p) sv)
        end.
Proof.
  intros I0 W Hf H. destruct (run f (SLazy x0 []) p) as [s|] eqn:E; try discriminate.
  destruct (run_lazy f x0 I0 p s Hf E) as (x & -> & I & V & In0).
  assert (Wx : width_ok f (view x)) by (eapply width_ok_incl; eauto).
  destruct (sv_eval p) as [|kc sv] eqn:Esv.
  - apply write_lazy in H; auto. subst out. rewrite V. reflexivity.
  - destruct (is_bam f) eqn:Eb.
    + destruct f; try discriminate. simpl in H. destruct (x_es x) eqn:Ee; try discriminate. inversion H; subst.
      assert (Hv : view x = []).
      { pose proof (view_length x (proj1 I)) as L. rewrite Ee in L. destruct (view x); [reflexivity|discriminate]. }
      rewrite <- V, Hv. reflexivity.
    + apply write_lazy in H; auto. subst out. rewrite V. reflexivity.
Qed.

Lemma sv_eval_repl_free p : repl_free p = true -> sv_eval p = [].
Proof.
  induction p as [|sel p IH|ps IH|j txt p IH|p IH] using prog_ind'; simpl; intros H; auto; try discriminate.
  rewrite IH; auto.
Qed.

Theorem selection_write vr f x0 p out :
  Inv x0 -> width_ok f (view x0) -> (has_concatenate f = true \/ cat_free p = true) -> repl_free p = true ->
  match run f (SLazy x0 []) p with Some s => write vr f s | None => None end = Some out ->
  out = concat (map a_rec (aeval (view x0) p)).
Proof.
  intros I0 W Hf Hr H. apply program_write in H; auto. rewrite sv_eval_repl_free in H by auto. exact H.
Qed.

(* reflection of the decidable well-formedness check *)
Lemma row_ok_b_sound dlen r : row_ok_b dlen r = true -> row_ok dlen r.
Proof.
  unfold row_ok_b, row_ok. rewrite !andb_true_iff. intros ((((A & B) & C) & D) & E).
  apply Nat.eqb_eq in D. repeat split; try lia.
  rewrite forallb_forall in E. rewrite Forall_forall. intros al Hal. specialize (E al Hal). lia.
Qed.

Lemma zlist_eqb_eq a : forall b, zlist_eqb a b = true -> a = b.
Proof.
  unfold zlist_eqb. induction a as [|x a IH]; intros [|y b]; simpl; intros H; try discriminate; auto.
  apply andb_true_iff in H. destruct H as (H1 & H2). apply Z.eqb_eq in H1. f_equal; auto.
Qed.
Lemma zlist_eqb_refl a : zlist_eqb a a = true.
Proof. unfold zlist_eqb. induction a; simpl; auto. rewrite Z.eqb_refl. auto. Qed.

Lemma inv_b_sound x : inv_b x = true -> Inv x.
Proof.
  unfold inv_b, Inv, shape_ok. rewrite !andb_true_iff. intros ((((A & B) & C) & D) & E).
  apply Nat.eqb_eq in A, B, C. repeat split; auto.
  - rewrite forallb_forall in D. rewrite Forall_forall. intros r Hr. apply row_ok_b_sound; auto.
  - intros Hc. rewrite Hc in E. simpl in E. apply zlist_eqb_eq; auto.
Qed.

Lemma width_b_sound f v : width_b f v = true -> width_ok f v.
Proof.
  destruct f; simpl; auto; unfold width_gt.
  - intros H Hn. apply orb_true_iff in H. destruct H as [H|H].
    + apply negb_true_iff in H. lia.
    + rewrite forallb_forall in H. rewrite Forall_forall. intros a Ha. specialize (H a Ha).
      apply Nat.ltb_lt in H. exact H.
  - intros H. apply andb_true_iff in H. destruct H as (H1 & H2). rewrite forallb_forall in H1, H2. split.
    + rewrite Forall_forall. intros a Ha. specialize (H1 a Ha). apply Nat.ltb_lt in H1. exact H1.
    + rewrite Forall_forall. intros a Ha. specialize (H2 a Ha). lia.
Qed.

(* ------------------------------------------------------------------ link to the byte-level Spec for pure selections *)
Lemma map_takeA {A B} (g : A -> B) d l sel : map g (takeA d l sel) = takeA (g d) (map g l) sel.
Proof. unfold takeA. rewrite map_map. apply map_ext. intros i. symmetry. apply map_nth. Qed.

Lemma spec_eval_pure f recs p : cat_free p = true -> repl_free p = true ->
  snd (spec_eval f (map (srow_of f) recs) p) = true /\
  map s_raw (fst (spec_eval f (map (srow_of f) recs) p)) = map a_rec (aeval (map (gview f) recs) p).
Proof.
  induction p as [|sel p IH|ps IH|j txt p IH|p IH] using prog_ind'; simpl; intros Hc Hr; try discriminate.
  - split; auto. rewrite !map_map. reflexivity.
  - destruct (IH Hc Hr) as (A & B). destruct (spec_eval f (map (srow_of f) recs) p) as [r b]. simpl in *.
    split; auto. rewrite !map_takeA. simpl. rewrite B. reflexivity.
  - apply IH; auto.
Qed.

Theorem selection_meets_spec vr f recs x0 p out :
  Inv x0 -> width_ok f (view x0) -> view x0 = map (gview f) recs ->
  cat_free p = true -> repl_free p = true ->
  match run f (SLazy x0 []) p with Some s => write vr f s | None => None end = Some out ->
  spec_out_ok f recs p (Some out) = true.
Proof.
  intros I0 W V Hc Hr H. apply selection_write in H; auto. subst out.
  unfold spec_out_ok. destruct (spec_eval_pure f recs p Hc Hr) as (A & B).
  destruct (spec_eval f (map (srow_of f) recs) p) as [rows pure]. simpl in *. subst pure.
  rewrite B, V. apply zlist_eqb_refl.
Qed.

(* Proofs/C04.v — the offset algebra of TextThroughputExtractor: selection, compaction and concatenation
   commute with the abstraction (record bytes + relative field offsets); the writer's output is a function
   of that abstraction. *)
From Coq Require Import ZArith List Bool Lia.
From BNP Require Import Base.Prims Base.PrimsFacts Model.C04.
Import ListNotations.
Open Scope Z_scope.

(* ------------------------------------------------------------------ generic list facts *)
Lemma zip_with_length {A B C} (f : A -> B -> C) a b :
  length (zip_with f a b) = Nat.min (length a) (length b).
Proof. revert b; induction a; destruct b; simpl; auto. Qed.

Lemma zip_with_map_l {A A' B C} (f : A' -> B -> C) (g : A -> A') a b :
  zip_with f (map g a) b = zip_with (fun x y => f (g x) y) a b.
Proof. revert b; induction a; destruct b; simpl; f_equal; auto. Qed.

Lemma zip_with_ext {A B C} (f g : A -> B -> C) a b :
  (forall x y, f x y = g x y) -> zip_with f a b = zip_with g a b.
Proof. intros H; revert b; induction a; destruct b; simpl; f_equal; auto. Qed.

Lemma takeA_length {A} (d : A) l sel : length (takeA d l sel) = length sel.
Proof. unfold takeA; apply map_length. Qed.

Lemma len_slice {A} a b (l : list A) : 0 <= a -> a <= b -> b <= len l -> len (slice a b l) = b - a.
Proof.
  intros. unfold slice. rewrite len_firstn, len_skipn. lia.
Qed.

Lemma slice_mid {A} (pre l post : list A) a b :
  0 <= a -> a <= b -> b <= len l ->
  slice (len pre + a) (len pre + b) (pre ++ l ++ post) = slice a b l.
Proof.
  intros. rewrite slice_app_r by lia.
  replace (len pre + a - len pre) with a by lia. replace (len pre + b - len pre) with b by lia.
  apply slice_app_l; lia.
Qed.

Lemma split3 {A} (l : list A) s e : 0 <= s -> s <= len l ->
  exists pre post, l = pre ++ slice s e l ++ post /\ len pre = s.
Proof.
  intros. exists (firstn (Z.to_nat s) l), (skipn (Z.to_nat (e - s)) (skipn (Z.to_nat s) l)). split.
  - unfold slice. rewrite firstn_skipn. rewrite firstn_skipn. reflexivity.
  - rewrite len_firstn. lia.
Qed.

Lemma slice_slice {A} (l : list A) s e a b :
  0 <= s -> s <= a -> b <= e -> e <= len l ->
  slice (a - s) (b - s) (slice s e l) = slice a b l.
Proof.
  intros. destruct (Z_le_gt_dec b a).
  - rewrite !slice_empty by lia. reflexivity.
  - destruct (split3 l s e) as (pre & post & E & L); try lia.
    assert (Lm : len (slice s e l) = e - s) by (apply len_slice; lia).
    set (m := slice s e l) in *. rewrite E.
    replace a with (len pre + (a - s)) at 2 by lia. replace b with (len pre + (b - s)) at 2 by lia.
    symmetry. apply slice_mid; lia.
Qed.

(* ------------------------------------------------------------------ rows: the parallel arrays seen as a list of rows *)
Definition dummy_xrow := {| r_s := 0; r_e := 0; r_fs := []; r_fl := [] |}.

Lemma zip4_length ss es fss fls :
  length es = length ss -> length fss = length ss -> length fls = length ss ->
  length (zip4 ss es fss fls) = length ss.
Proof.
  revert es fss fls; induction ss; intros [|e es] [|f fss] [|l fls]; simpl; intros; try discriminate; auto.
Qed.

Lemma zip4_nth ss es fss fls i :
  length es = length ss -> length fss = length ss -> length fls = length ss -> (i < length ss)%nat ->
  nth i (zip4 ss es fss fls) dummy_xrow = {| r_s := nth i ss 0; r_e := nth i es 0; r_fs := nth i fss []; r_fl := nth i fls [] |}.
Proof.
  revert es fss fls i; induction ss; intros [|e es] [|f fss] [|l fls] i; simpl; intros; try discriminate; try lia.
  destruct i; auto. apply IHss; lia.
Qed.

Definition in_range (n : nat) (sel : list Z) : Prop := Forall (fun i => 0 <= i < Z.of_nat n) sel.

Lemma in_range_forallb n sel :
  forallb (fun i => (0 <=? i) && (i <? Z.of_nat n)) sel = true -> in_range n sel.
Proof.
  unfold in_range. rewrite forallb_forall, Forall_forall. intros H i Hi. specialize (H i Hi). lia.
Qed.

Lemma zip4_takeA ss es fss fls sel :
  length es = length ss -> length fss = length ss -> length fls = length ss -> in_range (length ss) sel ->
  zip4 (takeA 0 ss sel) (takeA 0 es sel) (takeA [] fss sel) (takeA [] fls sel)
  = takeA dummy_xrow (zip4 ss es fss fls) sel.
Proof.
  intros H1 H2 H3 H. induction H; simpl; auto.
  rewrite IHForall. f_equal. rewrite zip4_nth; auto. lia.
Qed.

Lemma rows_getitem sel x : shape_ok x -> in_range (length (x_es x)) sel ->
  rows (getitem sel x) = takeA dummy_xrow (rows x) sel.
Proof. intros (A & B & C) H. unfold rows, getitem; simpl. apply zip4_takeA; auto. Qed.

Lemma view_getitem sel x : shape_ok x -> in_range (length (x_es x)) sel ->
  view (getitem sel x) = takeA dummy_arow (view x) sel.
Proof.
  intros S H. unfold view. rewrite rows_getitem by auto. simpl. unfold takeA. rewrite map_map.
  apply map_ext_in. intros i Hi.
  assert (L : length (rows x) = length (x_es x)) by (destruct S as (A & B & C); apply zip4_length; auto).
  unfold in_range in H. rewrite Forall_forall in H. specialize (H i Hi).
  rewrite <- (map_nth (arow_of (x_data x))).
  apply nth_indep. rewrite map_length. lia.
Qed.

Lemma shape_getitem sel x : shape_ok (getitem sel x).
Proof. unfold shape_ok, getitem; simpl. rewrite !takeA_length. auto. Qed.

Lemma Forall_takeA {A} (P : A -> Prop) d l sel :
  Forall P l -> in_range (length l) sel -> Forall P (takeA d l sel).
Proof.
  intros Hl H. unfold takeA. rewrite Forall_forall in *. intros y Hy. apply in_map_iff in Hy.
  destruct Hy as (i & <- & Hi). unfold in_range in H. rewrite Forall_forall in H. specialize (H i Hi).
  apply Hl. apply nth_In. lia.
Qed.

Lemma Inv_getitem sel x : Inv x -> in_range (length (x_es x)) sel -> Inv (getitem sel x).
Proof.
  intros (S & R & C) H. split; [apply shape_getitem|]. split.
  - rewrite rows_getitem by auto. simpl. apply Forall_takeA; auto.
    destruct S as (A & B & D). unfold rows. rewrite zip4_length; auto.
  - simpl. discriminate.
Qed.

(* ------------------------------------------------------------------ _make_contigous *)
Fixpoint rebase (acc : Z) (rs : list xrow) : list xrow :=
  match rs with
  | [] => []
  | r :: rest =>
      {| r_s := acc; r_e := acc + (r_e r - r_s r);
         r_fs := map (fun a => a - (r_s r - acc)) (r_fs r); r_fl := r_fl r |}
      :: rebase (acc + (r_e r - r_s r)) rest
  end.

Fixpoint starts_from (a : Z) (l : list Z) : list Z :=
  match l with [] => [] | x :: r => a :: starts_from (a + x) r end.
Lemma removelast_cumsum a l : removelast (a :: cumsum_from a l) = starts_from a l.
Proof.
  revert a; induction l as [|x l IH]; intros a; simpl; auto.
  f_equal. apply IH.
Qed.

Lemma rows_mc_gen ss : forall es fss fls acc,
  length es = length ss -> length fss = length ss -> length fls = length ss ->
  zip4 (removelast (acc :: cumsum_from acc (vsub es ss))) (cumsum_from acc (vsub es ss))
       (zip_with (fun r o => map (fun s => s - o) r) fss
                 (vsub ss (removelast (acc :: cumsum_from acc (vsub es ss))))) fls
  = rebase acc (zip4 ss es fss fls).
Proof.
  intros es fss fls acc. rewrite removelast_cumsum. revert es fss fls acc.
  induction ss as [|s ss IH]; intros [|e es] [|f fss] [|l fls] acc; simpl; intros; try discriminate; auto.
  f_equal. apply IH; lia.
Qed.

Lemma rows_mc x : shape_ok x -> rows (make_contiguous x) = rebase 0 (rows x).
Proof.
  intros (A & B & C). unfold rows, make_contiguous; simpl. unfold cumsum.
  change (match cumsum_from 0 (vsub (x_ee x) (x_es x)) with
          | [] => []
          | _ :: _ => 0 :: removelast (cumsum_from 0 (vsub (x_ee x) (x_es x)))
          end) with (removelast (0 :: cumsum_from 0 (vsub (x_ee x) (x_es x)))).
  apply rows_mc_gen; auto.
Qed.

Definition rec_of (data : list Z) (r : xrow) : list Z := slice (r_s r) (r_e r) data.

Lemma ravel_rows data ss : forall es fss fls,
  length es = length ss -> length fss = length ss -> length fls = length ss ->
  ragged_ravel data ss (vsub es ss) = concat (map (rec_of data) (zip4 ss es fss fls)).
Proof.
  unfold ragged_ravel, vsub.
  induction ss as [|s ss IH]; intros [|e es] [|f fss] [|l fls]; simpl; intros; try discriminate; auto.
  unfold rec_of at 1; simpl. replace (s + (e - s)) with e by lia. f_equal. apply IH; lia.
Qed.

Lemma data_mc x : shape_ok x -> x_data (make_contiguous x) = concat (map a_rec (view x)).
Proof.
  intros (A & B & C). unfold make_contiguous, view; simpl. rewrite map_map. simpl.
  apply ravel_rows; auto.
Qed.

Lemma len_rec_of dlen data r : row_ok dlen r -> dlen = len data -> len (rec_of data r) = r_e r - r_s r.
Proof. intros (H0 & H1 & H2 & _) ->. apply len_slice; lia. Qed.

Lemma map_ext_Forall {A B} (f g : A -> B) l : Forall (fun x => f x = g x) l -> map f l = map g l.
Proof. induction 1; simpl; f_equal; auto. Qed.

(* the abstraction of a rebased row inside the compacted data is the abstraction of the row *)
Lemma view_rebase data rs : forall pre,
  Forall (row_ok (len data)) rs ->
  map (arow_of (pre ++ concat (map (rec_of data) rs))) (rebase (len pre) rs) = map (arow_of data) rs.
Proof.
  induction rs as [|r rs IH]; intros pre H; simpl; auto.
  inversion H as [|? ? Hr Hrs]; subst.
  pose proof (len_rec_of _ _ _ Hr eq_refl) as L.
  f_equal.
  - unfold arow_of; simpl. f_equal.
    + replace (len pre + (r_e r - r_s r)) with (len pre + len (rec_of data r)) by lia.
      replace (len pre) with (len pre + 0) at 1 by lia.
      pose proof (len_nonneg (rec_of data r)).
      rewrite slice_mid by lia. rewrite slice_full by lia. reflexivity.
    + rewrite map_map. f_equal. apply map_ext. intros; lia.
  - specialize (IH (pre ++ rec_of data r) Hrs). rewrite len_app, L in IH.
    rewrite <- app_assoc in IH. exact IH.
Qed.

Lemma view_mc x : Inv x -> view (make_contiguous x) = view x.
Proof.
  intros (S & R & _). unfold view at 1. rewrite rows_mc by auto. rewrite data_mc by auto.
  unfold view. rewrite map_map. simpl.
  change (map (fun r => slice (r_s r) (r_e r) (x_data x)) (rows x)) with (map (rec_of (x_data x)) (rows x)).
  apply (view_rebase (x_data x) (rows x) []). exact R.
Qed.

Lemma sum_lens_concat data rs :
  Forall (row_ok (len data)) rs -> len (concat (map (rec_of data) rs)) = sumZ (map (fun r => r_e r - r_s r) rs).
Proof.
  induction 1; simpl; auto. rewrite len_app, IHForall. erewrite len_rec_of; eauto.
Qed.

Lemma rebase_ok dlen rs : forall acc total,
  0 <= acc -> Forall (row_ok dlen) rs -> acc + sumZ (map (fun r => r_e r - r_s r) rs) <= total ->
  Forall (row_ok total) (rebase acc rs).
Proof.
  induction rs as [|r rs IH]; intros acc total Ha H Ht; simpl; constructor.
  - inversion H as [|? ? (H0 & H1 & H2 & H3 & H4) Hrs]; subst. simpl in Ht.
    assert (0 <= sumZ (map (fun r => r_e r - r_s r) rs)).
    { clear - Hrs. induction Hrs; simpl; try lia. destruct H as (? & ? & _). lia. }
    unfold row_ok; simpl. repeat split; try lia.
    + rewrite map_length; auto.
    + clear - H4. remember (r_fl r) as fl. clear Heqfl. revert fl H4.
      induction (r_fs r) as [|a fs IHf]; intros [|l fl] H4; simpl; auto.
      inversion H4; subst. simpl in *. constructor; auto. simpl. lia.
  - inversion H as [|? ? (H0 & H1 & H2 & H3 & H4) Hrs]; subst. simpl in Ht. apply IH; auto; lia.
Qed.

Lemma shape_mc x : shape_ok x -> shape_ok (make_contiguous x).
Proof.
  intros (A & B & C). unfold shape_ok, make_contiguous; simpl.
  assert (L : length (vsub (x_ee x) (x_es x)) = length (x_es x)).
  { unfold vsub. rewrite zip_with_length. lia. }
  assert (Lc : forall a l, length (cumsum_from a l) = length l).
  { intros a l; revert a; induction l; simpl; auto. }
  assert (Ls : forall a l, length (starts_from a l) = length l).
  { intros a l; revert a; induction l; simpl; auto. }
  unfold cumsum.
  change (match cumsum_from 0 (vsub (x_ee x) (x_es x)) with
          | [] => []
          | _ :: _ => 0 :: removelast (cumsum_from 0 (vsub (x_ee x) (x_es x)))
          end) with (removelast (0 :: cumsum_from 0 (vsub (x_ee x) (x_es x)))).
  rewrite removelast_cumsum. rewrite ?zip_with_length, ?Ls, ?Lc, ?L.
  unfold vsub. rewrite ?zip_with_length, ?Ls, ?Lc. fold vsub. rewrite ?L. repeat split; lia.
Qed.

Lemma Inv_mc x : Inv x -> Inv (make_contiguous x).
Proof.
  intros I. pose proof I as (S & R & C). split; [apply shape_mc; auto|]. split.
  - rewrite rows_mc by auto. rewrite data_mc by auto.
    eapply rebase_ok; eauto; try lia.
    unfold view. rewrite map_map. simpl.
    change (map (fun r => slice (r_s r) (r_e r) (x_data x)) (rows x)) with (map (rec_of (x_data x)) (rows x)).
    rewrite sum_lens_concat by auto. lia.
  - intros _. rewrite view_mc by auto. apply data_mc; auto.
Qed.

(* ------------------------------------------------------------------ concatenate *)
Definition shift (o : Z) (r : xrow) : xrow :=
  {| r_s := o + r_s r; r_e := o + r_e r; r_fs := map (Z.add o) (r_fs r); r_fl := r_fl r |}.

Lemma zip4_app a : forall b c d a' b' c' d',
  length b = length a -> length c = length a -> length d = length a ->
  zip4 (a ++ a') (b ++ b') (c ++ c') (d ++ d') = zip4 a b c d ++ zip4 a' b' c' d'.
Proof.
  induction a; intros [|? b] [|? c] [|? d]; simpl; intros; try discriminate; auto.
  f_equal. apply IHa; lia.
Qed.

Lemma zip4_shift o ss : forall es fss fls,
  zip4 (map (Z.add o) ss) (map (Z.add o) es) (map (map (Z.add o)) fss) fls = map (shift o) (zip4 ss es fss fls).
Proof.
  induction ss; intros [|? es] [|? fss] [|? fls]; simpl; auto. f_equal. apply IHss.
Qed.

Definition offs_from (a : Z) (xs : list ext) : list Z := a :: cumsum_from a (map (fun b => len (x_data b)) xs).

Lemma rows_concat_gen xs : forall a, Forall shape_ok xs ->
  zip4 (concat (zip_with (fun b o => map (Z.add o) (x_es b)) xs (offs_from a xs)))
       (concat (zip_with (fun b o => map (Z.add o) (x_ee b)) xs (offs_from a xs)))
       (concat (zip_with (fun b o => map (map (Z.add o)) (x_fs b)) xs (offs_from a xs)))
       (concat (map x_fl xs))
  = concat (zip_with (fun b o => map (shift o) (rows b)) xs (offs_from a xs)).
Proof.
  induction xs as [|x xs IH]; intros a H; simpl; auto.
  inversion H as [|? ? (A & B & C) Hxs]; subst.
  rewrite zip4_app by (rewrite !map_length; auto).
  f_equal.
  - apply zip4_shift.
  - apply (IH (a + len (x_data x)) Hxs).
Qed.

Lemma rows_concat xs : Forall shape_ok xs ->
  rows (concatenate xs) = concat (zip_with (fun b o => map (shift o) (rows b)) xs (offs_from 0 xs)).
Proof. intros H. unfold rows, concatenate; simpl. apply (rows_concat_gen xs 0 H). Qed.

Lemma arow_shift pre d post r :
  row_ok (len d) r -> arow_of (pre ++ d ++ post) (shift (len pre) r) = arow_of d r.
Proof.
  intros (H0 & H1 & H2 & H3 & H4). unfold arow_of, shift; simpl. f_equal.
  - apply slice_mid; lia.
  - rewrite map_map. f_equal. apply map_ext; intros; lia.
Qed.

Lemma view_concat_gen xs : forall pre, Forall Inv xs ->
  map (arow_of (pre ++ concat (map x_data xs)))
      (concat (zip_with (fun b o => map (shift o) (rows b)) xs (offs_from (len pre) xs)))
  = concat (map view xs).
Proof.
  induction xs as [|x xs IH]; intros pre H; simpl; auto.
  inversion H as [|? ? (S & R & C) Hxs]; subst.
  rewrite map_app. f_equal.
  - unfold view. rewrite map_map. apply map_ext_Forall.
    eapply Forall_impl; [|exact R]. intros r Hr. apply arow_shift; auto.
  - specialize (IH (pre ++ x_data x) Hxs). rewrite len_app in IH. rewrite <- app_assoc in IH. exact IH.
Qed.

Lemma view_concat xs : Forall Inv xs -> view (concatenate xs) = concat (map view xs).
Proof.
  intros H. unfold view at 1. rewrite rows_concat.
  - simpl. apply (view_concat_gen xs [] H).
  - eapply Forall_impl; [|exact H]. intros x (S & _); auto.
Qed.

(* Proofs/C11_blocks.v — count_encoded counts inputs longer than max_size block by block; the blocks cover the
   input, so the result is the plain count — whatever the length (no threshold effect), hence chunk-size independent. *)
From Coq Require Import ZArith List Bool Lia Arith.
From BNP Require Import Base.Prims Base.PrimsFacts Model.C11 Proofs.C11.
Import ListNotations.
Open Scope Z_scope.

Lemma arange_from_S s n : arange_from s (S n) = s :: arange_from (s + 1) n.
Proof. reflexivity. Qed.
Lemma arange_from_shift s n : arange_from (s + 1) n = map (Z.add 1) (arange_from s n).
Proof.
  revert s. induction n as [|n IH]; intros s; [reflexivity|]. cbn [arange_from map]. rewrite IH. f_equal. lia.
Qed.

Lemma slice_0_M_skip {A} (M : Z) (l : list A) : 0 <= M -> slice 0 M l ++ skipn (Z.to_nat M) l = l.
Proof. intros H. rewrite slice_0_firstn. apply firstn_skipn. Qed.

Section Blocks.
Variable M : Z.
Hypothesis HM : 0 < M.
Variable c : Z.

Lemma blocks_sum : forall (m : nat) (l : list Z), len l <= Z.of_nat m * M ->
  sumZ (map (fun i => countZ c (slice (i * M) ((i + 1) * M) l)) (arange_from 0 m)) = countZ c l.
Proof.
  induction m as [|m IH]; intros l Hlen.
  - pose proof (len_nonneg l). destruct l; [reflexivity|]. rewrite len_cons in Hlen. pose proof (len_nonneg l). lia.
  - rewrite arange_from_S. cbn [map]. change (sumZ (?x :: ?r)) with (x + sumZ r).
    rewrite (arange_from_shift 0 m), map_map.
    replace (0 * M) with 0 by lia. replace ((0 + 1) * M) with M by lia.
    replace (countZ c l) with (countZ c (slice 0 M l ++ skipn (Z.to_nat M) l)) by (rewrite slice_0_M_skip by lia; reflexivity).
    rewrite countZ_app. f_equal.
    rewrite <- (IH (skipn (Z.to_nat M) l)).
    + f_equal. apply map_ext_in. intros i Hi. apply In_arange_from in Hi. f_equal.
      rewrite slice_skipn by nia. rewrite Z2Nat.id by lia. f_equal; lia.
    + rewrite len_skipn. lia.
Qed.
End Blocks.

Theorem count_blocks_correct : forall M K (l : list Z), 0 < M -> count_blocks M K l = count_vector K l.
Proof.
  intros M K l HM. unfold count_blocks, count_vector, m_nblocks, arange. apply map_ext. intros c.
  apply (blocks_sum M HM c (Z.to_nat (len l / M + 1)) l).
  pose proof (len_nonneg l). rewrite Z2Nat.id by (apply Z.add_nonneg_nonneg; [apply Z.div_pos; lia|lia]).
  pose proof (Z.mod_pos_bound (len l) M HM). pose proof (Z.div_mod (len l) M ltac:(lia)). nia.
Qed.

Theorem count_encoded_flat_correct : forall M K (l : list Z), 0 < M -> count_encoded_flat M K l = count_vector K l.
Proof.
  intros M K l HM. unfold count_encoded_flat. destruct (len l >? M); [apply count_blocks_correct; exact HM|reflexivity].
Qed.

(* counts of a run-length encoded read = the run lengths per letter *)
Lemma countZ_repeat c x n : countZ c (repeat x n) = if x =? c then Z.of_nat n else 0.
Proof.
  unfold countZ. rewrite (Z.eqb_sym x c). induction n as [|n IH]; [destruct (c =? x); reflexivity|].
  cbn [repeat filter]. destruct (c =? x) eqn:E.
  - rewrite len_cons, IH. lia.
  - exact IH.
Qed.
Lemma countZ_expand c (r : runs_t) : Forall (fun xn => 0 <= snd xn) r ->
  countZ c (expand_runs r) = sumZ (map snd (filter (fun xn => fst xn =? c) r)).
Proof.
  intros H. unfold expand_runs. induction H as [|[x n] r Hn Hr IH]; [reflexivity|].
  cbn [map concat filter fst]. rewrite countZ_app, countZ_repeat, IH. simpl in Hn.
  destruct (x =? c); cbn [map snd]; [change (sumZ (n :: ?t)) with (n + sumZ t); lia|lia].
Qed.

Lemma count_vector_app K a b : count_vector K (a ++ b) = vadd (count_vector K a) (count_vector K b).
Proof. exact (countvec_app K a b). Qed.

Lemma expand_runs_app a b : expand_runs (a ++ b) = expand_runs a ++ expand_runs b.
Proof. unfold expand_runs. rewrite map_app, concat_app. reflexivity. Qed.
Lemma expand_concat (reads : list runs_t) : concat (map expand_runs reads) = expand_runs (concat reads).
Proof. induction reads as [|r reads IH]; [reflexivity|]. cbn [map concat]. rewrite IH, expand_runs_app. reflexivity. Qed.

(* the streamed k = 1 counts of run-length encoded reads, for every chunking and every chunk length *)
Theorem big_counts_chunked : forall M K (cs : list (list runs_t)), 0 < M -> cs <> [] ->
  Forall (fun xn : Z * Z => 0 <= snd xn) (concat (concat cs)) ->
  stream_big_counts M K cs = Some (spec_big_counts K cs).
Proof.
  intros M K cs HM Hne Hpos. unfold stream_big_counts.
  rewrite (map_ext _ (fun reads => count_vector K (expand_runs (concat reads))))
    by (intros reads; rewrite count_encoded_flat_correct by exact HM; rewrite expand_concat; reflexivity).
  rewrite (reduce1_hom (fun reads => count_vector K (expand_runs (concat reads))) vadd); [|
    intros a b; rewrite concat_app, expand_runs_app; apply count_vector_app | exact Hne].
  f_equal. unfold spec_big_counts, count_vector. apply map_ext. intros c.
  apply countZ_expand. exact Hpos.
Qed.

(* Proofs/C02_select.v — parsing a row selection = selecting the parsed rows.
   The lazily read table (and the buffer) can be subset before any column is parsed: the extractor keeps the buffer and
   selects rows of its start / end tables and record ends (Model.table_select).  For every column of the schema the value
   parsed from the selection is the selection of the values parsed from the whole table — in particular the rest-of-line
   column (SAM tags) of a kept row ends at that row's OWN record end, whatever rows were dropped around it. *)
From Coq Require Import ZArith List Bool Lia Arith.
From BNP Require Import Base.Prims Base.PrimsFacts Base.C02Lib Model.C02 Proofs.C02_int.
Import ListNotations.
Open Scope Z_scope.

Definition idx_ok (n : nat) (idx : list Z) : Prop := forall i, In i idx -> 0 <= i /\ (Z.to_nat i < n)%nat.

Lemma take_rows_map {A B} (f : A -> B) d l idx : take_rows (f d) (map f l) idx = map f (take_rows d l idx).
Proof. unfold take_rows. rewrite map_map. apply map_ext. intros i. apply map_nth. Qed.
Lemma take_rows_combine {A B} (da : A) (db : B) a b idx : length a = length b -> idx_ok (length a) idx ->
  take_rows (da, db) (combine a b) idx = combine (take_rows da a idx) (take_rows db b idx).
Proof.
  intros HL H. unfold take_rows. induction idx as [|i idx IH]; [reflexivity|]. cbn [map combine]. f_equal.
  - apply combine_nth. exact HL.
  - apply IH. intros k Hk. apply H. right. exact Hk.
Qed.
Lemma mapM_nth {A B} (f : A -> option B) d d' : forall l c i, mapM f l = Some c -> (i < length l)%nat ->
  f (nth i l d) = Some (nth i c d').
Proof.
  induction l as [|x l IH]; intros c i H Hi; [simpl in Hi; lia|]. simpl in H.
  destruct (f x) as [y|] eqn:Ex; [|discriminate]. destruct (mapM f l) as [ys|] eqn:El; [|discriminate].
  injection H as H. subst c. destruct i as [|i]; [exact Ex|]. simpl. apply IH; [reflexivity|simpl in Hi; lia].
Qed.
Lemma mapM_take {A B} (f : A -> option B) d d' l c idx : mapM f l = Some c -> idx_ok (length l) idx ->
  mapM f (take_rows d l idx) = Some (take_rows d' c idx).
Proof.
  intros H Hi. unfold take_rows. induction idx as [|i idx IH]; [reflexivity|]. cbn [map mapM].
  rewrite (mapM_nth f d d' l c (Z.to_nat i) H) by (apply Hi; left; reflexivity).
  rewrite IH by (intros k Hk; apply Hi; right; exact Hk). reflexivity.
Qed.

(* the table has as many end rows and record ends as start rows *)
Definition table_rect (t : table) : Prop :=
  length (t_ends t) = length (t_starts t) /\ length (t_eends t) = length (t_starts t).

Lemma col_select rows idx j : col (take_rows [] rows idx) j = take_rows (nthZ [] j) (col rows j) idx.
Proof. unfold col. rewrite (take_rows_map (fun r => nthZ r j)). reflexivity. Qed.
Lemma nthZ_nil j : nthZ [] j = 0.
Proof. unfold nthZ. destruct (Z.to_nat j); reflexivity. Qed.

Lemma bounds_select t idx j : table_rect t -> idx_ok (length (t_starts t)) idx ->
  bounds (table_select idx t) j = take_rows (0, 0) (bounds t j) idx.
Proof.
  intros [HE _] Hi. unfold bounds. cbn [table_select t_starts t_ends]. rewrite !col_select, nthZ_nil.
  rewrite take_rows_combine; [reflexivity| |]; unfold col; rewrite !map_length; [symmetry; exact HE|exact Hi].
Qed.
Lemma bounds_length t j : table_rect t -> length (bounds t j) = length (t_starts t).
Proof. intros [HE _]. unfold bounds, col. rewrite combine_length, !map_length, HE. apply Nat.min_id. Qed.

Definition row_local (ty : ctype) : bool := match ty with TInt | TIntM1 => false | _ => true end.

(* every column type but the digit-matrix integers is computed row by row: whenever the whole column parses, the column of
   the selection is the selection of the column *)
Theorem typed_col_select : forall (t : table) (idx : list Z) (j : Z) (ty : ctype) (c : list cell),
  table_rect t -> idx_ok (length (t_starts t)) idx -> row_local ty = true ->
  typed_col t j ty = Col c ->
  typed_col (table_select idx t) j ty = Col (take_rows (CInt 0) c idx).
Proof.
  intros t idx j ty c Hrect Hi Hloc H.
  assert (Hb : forall k, bounds (table_select idx t) k = take_rows (0, 0) (bounds t k) idx) by (intro k; apply bounds_select; assumption).
  assert (Hbi : forall k, idx_ok (length (bounds t k)) idx) by (intro k; rewrite bounds_length by exact Hrect; exact Hi).
  assert (Htx : texts (table_select idx t) j = take_rows (text_at (t_data t) (0, 0)) (texts t j) idx).
  { unfold texts. cbn [table_select t_data]. rewrite Hb. symmetry. apply take_rows_map. }
  assert (Htl : length (texts t j) = length (bounds t j)) by (unfold texts; apply map_length).
  assert (Hmap : forall (g : list Z -> cell), Col (map g (texts t j)) = Col c ->
            Col (map g (texts (table_select idx t) j)) = Col (take_rows (CInt 0) c idx)).
  { intros g E. injection E as E. subst c. rewrite Htx. f_equal. unfold take_rows. rewrite !map_map. apply map_ext_in. intros i Hin.
    rewrite (nth_indep _ (CInt 0) (g (text_at (t_data t) (0, 0)))) by (rewrite map_length, Htl; apply (Hbi j); exact Hin).
    symmetry. apply map_nth. }
  assert (HmapM : forall {A} (p : list Z -> option A) (g : A -> cell) (d0 : A),
            opt_col g (mapM p (texts t j)) = Col c ->
            opt_col g (mapM p (texts (table_select idx t) j)) = Col (take_rows (CInt 0) c idx)).
  { intros A p g d0 E. unfold opt_col in *. destruct (mapM p (texts t j)) as [l|] eqn:El; [|discriminate]. injection E as E. subst c.
    rewrite Htx. rewrite (mapM_take p _ d0 (texts t j) l idx El) by (rewrite Htl; apply Hbi). f_equal.
    unfold take_rows. rewrite !map_map. apply map_ext_in. intros i Hin.
    assert (Hll : length l = length (texts t j)).
    { clear -El. revert l El. induction (texts t j) as [|x xs IH]; intros l El; simpl in El; [injection El as E; subst; reflexivity|].
      destruct (p x); [|discriminate]. destruct (mapM p xs) eqn:E2; [|discriminate]. injection El as E. subst l. simpl. f_equal. apply IH. reflexivity. }
    rewrite (nth_indep _ (CInt 0) (g d0)) by (rewrite map_length, Hll, Htl; apply (Hbi j); exact Hin).
    symmetry. apply map_nth. }
  destruct ty; try discriminate; unfold typed_col in *; cbn [table_select t_data] in *.
  - (* TStr *) exact (Hmap CBytes H).
  - (* TSid *) unfold sid_col in *. exact (Hmap CBytes H).
  - (* TOptInt *) unfold parse_with_missing_cur, parse_with_missing_fixed in *. exact (HmapM _ _ CInt 0 H).
  - (* TFloat *) exact (HmapM _ _ rat_cell (0, 1) H).
  - (* TStrand *) exact (HmapM _ _ CBytes [] H).
  - (* TQual *) exact (Hmap _ H).
  - (* TIntList *)
    unfold parse_split_cur, parse_split_fixed, opt_col in *.
    assert (Hts : texts_sep (table_select idx t) j = take_rows (slice 0 (m_keep_end 0) (t_data t)) (texts_sep t j) idx).
    { unfold texts_sep. cbn [table_select t_data]. rewrite Hb. symmetry.
      exact (take_rows_map (fun se => slice (fst se) (m_keep_end (snd se)) (t_data t)) (0, 0) (bounds t j) idx). }
    set (p := fun r : list Z => mapM str_to_int_auto (filter (fun s => negb (len s =? 0)) (split_on 44 (removelast r)))) in *.
    destruct (mapM p (texts_sep t j)) as [l|] eqn:El; [|discriminate]. injection H as H. subst c.
    assert (Hsl : length (texts_sep t j) = length (bounds t j)) by (unfold texts_sep; apply map_length).
    rewrite Hts. rewrite (mapM_take p _ [] (texts_sep t j) l idx El) by (rewrite Hsl; apply Hbi). f_equal.
    unfold take_rows. rewrite !map_map. apply map_ext_in. intros i Hin.
    assert (Hll : length l = length (texts_sep t j)).
    { clear -El. revert l El. induction (texts_sep t j) as [|x xs IH]; intros l El; simpl in El; [injection El as E; subst; reflexivity|].
      destruct (p x); [|discriminate]. destruct (mapM p xs) eqn:E2; [|discriminate]. injection El as E. subst l. simpl. f_equal. apply IH. reflexivity. }
    rewrite (nth_indep _ (CInt 0) (CInts [])) by (rewrite map_length, Hll, Hsl; apply (Hbi j); exact Hin).
    symmetry. apply (map_nth CInts).
  - (* TRest: the rest of the line ends at the row's own record end *)
    injection H as H. subst c. rewrite Hb. change (t_eends (table_select idx t)) with (take_rows 0 (t_eends t) idx).
    destruct Hrect as [HE HEE].
    rewrite <- take_rows_combine by (try (rewrite bounds_length by (split; assumption); symmetry; exact HEE); apply Hbi).
    f_equal. unfold take_rows. rewrite !map_map. apply map_ext_in. intros i Hin.
    set (g := fun '(se, ee) => let st := m_extra_start (snd se) in let e0 := m_extra_end0 ee in
                let en := m_extra_end e0 (nthZ (t_data t) (m_extra_probe e0)) in CBytes (slice st (st + m_extra_len en st) (t_data t))).
    rewrite (nth_indep _ (CInt 0) (g (0, 0, 0))).
    + symmetry. apply (map_nth g).
    + rewrite map_length, combine_length, bounds_length by (split; assumption). rewrite HEE, Nat.min_id. apply Hi. exact Hin.
Qed.

(* integer columns (digit matrix / signed ragged path depend on the WHOLE column: widest field, any sign): on numerals the
   value is the numeral's value either way, so the selection commutes as well *)
Theorem int_col_select : forall (t : table) (idx : list Z) (j : Z),
  table_rect t -> idx_ok (length (t_starts t)) idx ->
  (forall se, In se (bounds t j) -> 0 <= fst se /\ snd se <= len (t_data t) /\ numeral (text_at (t_data t) se) = true) ->
  forall c, parse_int_col (t_data t) (bounds t j) = Some c ->
  parse_int_col (t_data (table_select idx t)) (bounds (table_select idx t) j) = Some (take_rows 0 c idx).
Proof.
  intros t idx j Hrect Hi Hnum c H. cbn [table_select t_data]. rewrite bounds_select by assumption.
  rewrite int_column_correct in H by exact Hnum.
  rewrite int_column_correct.
  - apply mapM_take; [exact H|]. rewrite bounds_length by exact Hrect. exact Hi.
  - intros se Hse. unfold take_rows in Hse. apply in_map_iff in Hse. destruct Hse as [i [E Hin]]. subst se. apply Hnum.
    apply nth_In. rewrite bounds_length by exact Hrect. apply Hi. exact Hin.
Qed.

(* Proofs/C14_mask.v — the repaired strand mask (round 6).
   dna.py broadcast_row_mask(mask, sequences) = RaggedArray(np.repeat(mask, lengths), lengths) with
   lengths = sequences.lengths; handed to npstructures' np.where as a full-size ragged mask ([where_flat]).
   Proved here, for any number of rows of any lengths (empty rows, no rows, more rows than bases):
   - the repeated-and-split mask is one constant row of the row's length per row ([row_mask_split]);
   - np.where with that mask on two operands of equal shape is the row-wise choice [where_fixed] — never an error
     ([where_flat_rows], [where_call_fixed]). *)
From Coq Require Import ZArith List Bool Lia.
From BNP Require Import Base.Prims Base.PrimsFacts Model.C14 Proofs.C14.
Import ListNotations.
Open Scope Z_scope.

Definition same_shape (x y : list (list Z)) : Prop := Forall2 (fun a b : list Z => length a = length b) x y.

Lemma firstn_exact {A} (a b : list A) : firstn (length a) (a ++ b) = a.
Proof. rewrite firstn_app, Nat.sub_diag, firstn_all. cbn [firstn]. apply app_nil_r. Qed.
Lemma skipn_exact {A} (a b : list A) : skipn (length a) (a ++ b) = b.
Proof. rewrite skipn_app, Nat.sub_diag, skipn_all. reflexivity. Qed.

(* RaggedArray(np.repeat(mask, lengths), lengths): row i is mask[i] repeated lengths[i] times *)
Lemma row_mask_split {A} : forall (mask : list bool) (s : list (list A)), length mask = length s ->
  split_lens (repeat_each mask (map len s)) (map len s) = row_mask_of mask s.
Proof.
  induction mask as [|m mask IH]; intros [|r s] H; try discriminate H; [reflexivity|].
  cbn [map repeat_each split_lens row_mask_of combine fst snd]. rewrite to_nat_len.
  pose proof (repeat_length m (length r)) as HL.
  rewrite <- HL at 1. rewrite firstn_exact.
  rewrite <- HL at 2. rewrite skipn_exact.
  rewrite IH by (cbn in H; lia). reflexivity.
Qed.

Lemma combine_app {A B} (a1 a2 : list A) (b1 b2 : list B) : length a1 = length b1 ->
  combine (a1 ++ a2) (b1 ++ b2) = combine a1 b1 ++ combine a2 b2.
Proof.
  revert b1. induction a1 as [|x a1 IH]; intros [|y b1] H; try discriminate H; [reflexivity|].
  cbn. rewrite IH by (cbn in H; lia). reflexivity.
Qed.
Lemma choice_row m : forall (r s : list Z), length r = length s ->
  map choice (combine (repeat m (length r)) (combine r s)) = if m then r else s.
Proof.
  induction r as [|a r IH]; intros [|b s] H; try discriminate H; [destruct m; reflexivity|].
  cbn [length repeat combine map]. rewrite IH by (cbn in H; lia). unfold choice. cbn. destruct m; reflexivity.
Qed.

Lemma row_mask_same_shape : forall mask x y, same_shape x y -> row_mask_of mask x = row_mask_of mask y.
Proof.
  intros mask x y H. revert mask. induction H as [|r s x y Hrs H IH]; intros [|m mask]; try reflexivity.
  cbn [row_mask_of combine map fst snd]. rewrite Hrs. f_equal. apply IH.
Qed.

Lemma same_shape_length x y : same_shape x y -> length x = length y.
Proof. intros H. induction H; [reflexivity|cbn; congruence]. Qed.

(* the flat facts, all at once *)
Lemma flat_choice : forall mask x y, length mask = length x -> same_shape x y ->
  length (concat (row_mask_of mask x)) = length (concat x)
  /\ length (concat x) = length (concat y)
  /\ map choice (combine (concat (row_mask_of mask x)) (combine (concat x) (concat y))) = concat (choose_rows mask x y)
  /\ map len (row_mask_of mask x) = map len (choose_rows mask x y).
Proof.
  intros mask x y Hm H. revert mask Hm.
  induction H as [|r s x y Hrs H IH]; intros [|m mask] Hm; try discriminate Hm; [repeat split; reflexivity|].
  destruct (IH mask ltac:(cbn in Hm; lia)) as [I1 [I2 [I3 I4]]].
  assert (Hrep : length (repeat m (length r)) = length r) by apply repeat_length.
  change (row_mask_of (m :: mask) (r :: x)) with (repeat m (length r) :: row_mask_of mask x).
  change (choose_rows (m :: mask) (r :: x) (s :: y)) with ((if m then r else s) :: choose_rows mask x y).
  cbn [concat map].
  repeat split.
  - rewrite !app_length, Hrep, I1. reflexivity.
  - rewrite !app_length, Hrs, I2. reflexivity.
  - rewrite (combine_app r (concat x) s (concat y) Hrs).
    rewrite combine_app by (rewrite Hrep, combine_length, <- Hrs, Nat.min_id; reflexivity).
    rewrite map_app, (choice_row m r s Hrs), I3. reflexivity.
  - f_equal; [|exact I4]. unfold len. rewrite Hrep. destruct m; [reflexivity|rewrite Hrs; reflexivity].
Qed.

(* npstructures' np.where on the explicit row mask = row-wise choice, for operands of equal shape *)
Lemma where_flat_rows : forall mask x y, length mask = length x -> same_shape x y ->
  where_flat (row_mask_of mask x) x y = where_fixed mask x y.
Proof.
  intros mask x y Hm H. destruct (flat_choice mask x y Hm H) as [F1 [F2 [F3 F4]]].
  unfold where_flat, where_fixed. cbv zeta. unfold len at 1 2 3 4. rewrite F1, <- F2, !Z.eqb_refl. cbn [andb].
  rewrite F3, F4, split_lens_concat. reflexivity.
Qed.

(* a where call of the repaired code, with ANY row-mask function that computes the repeated-and-split mask, broadcast over
   either operand *)
Lemma where_call_fixed (row_mask : list bool -> list (list Z) -> list (list bool)) :
  (forall mask s, length mask = length s -> row_mask mask s = row_mask_of mask s) ->
  forall over_x mask x y, length mask = length x -> same_shape x y ->
    where_call row_mask over_x mask x y = where_fixed mask x y.
Proof.
  intros Hrm over_x mask x y Hm H. unfold where_call.
  assert (Hy : length mask = length y) by (rewrite Hm; apply (same_shape_length x y H)).
  destruct over_x.
  - rewrite Hrm by exact Hm. apply where_flat_rows; assumption.
  - rewrite Hrm by exact Hy. rewrite <- (row_mask_same_shape mask x y H). apply where_flat_rows; assumption.
Qed.

(* the operands of the three sites do have equal shape: the reverse complement keeps the row lengths *)
Lemma same_shape_split (flat : list Z) (rel : list (list Z)) : length flat = length (concat rel) ->
  same_shape (split_lens flat (map len rel)) rel.
Proof.
  revert flat. induction rel as [|r rel IH]; intros flat H; [constructor|].
  cbn [map split_lens]. rewrite to_nat_len. cbn [concat] in H. rewrite app_length in H. constructor.
  - rewrite firstn_length. lia.
  - apply IH. rewrite skipn_length. lia.
Qed.

(* ---------- the whole extraction with the repaired where call = the extraction with [where_fixed] ---------- *)
Lemma same_shape_sym x y : same_shape x y -> same_shape y x.
Proof. intros H. induction H; constructor; [symmetry; assumption|assumption]. Qed.
Lemma same_shape_rev x y : same_shape x y -> same_shape (map (@rev Z) x) y.
Proof. intros H. induction H; cbn [map]; constructor; [rewrite rev_length; assumption|assumption]. Qed.
Lemma same_shape_lens x y : same_shape x y -> map len x = map len y.
Proof. intros H. induction H; [reflexivity|]. cbn [map]. unfold len at 1 2. rewrite H. f_equal. exact IHForall2. Qed.

Lemma lookup_take_len v raw out : lookup_take v raw = Ok out -> length out = length raw.
Proof. unfold lookup_take. destruct (existsb _ raw); intros E; inversion E. apply map_length. Qed.
Lemma complement_codes_len keys e flat comp : complement_codes keys e flat = Ok comp -> length comp = length flat.
Proof.
  destruct e as [|a]; cbn [complement_codes]; [apply lookup_take_len|].
  destruct (alpha_values keys a); [apply lookup_take_len|discriminate].
Qed.
(* the reverse complement of the extracted rows has the shape of the extracted rows *)
Lemma rc_shape keys e rel flat : revcomp_codes keys e (concat rel) (map len rel) = Ok flat ->
  same_shape (split_lens flat (map len rel)) rel.
Proof.
  unfold revcomp_codes. destruct (complement_codes keys e (concat rel)) as [comp|c] eqn:E; [|discriminate].
  intros H. inversion H. subst flat. clear H.
  assert (S : same_shape (map (@rev Z) (split_lens comp (map len rel))) rel).
  { apply same_shape_rev, same_shape_split, (complement_codes_len _ _ _ _ E). }
  set (rows := map (@rev Z) (split_lens comp (map len rel))) in *.
  rewrite <- (same_shape_lens rows rel S), split_lens_concat. exact S.
Qed.

Lemma extract_where_ext {I : Type} keys wh1 wh2 site ez ref (ext : list Z -> I -> list Z) strand items :
  (forall mask x y, length mask = length x -> same_shape x y -> wh1 mask x y = wh2 mask x y) ->
  model_extract keys wh1 site ez ref ext strand items = model_extract keys wh2 site ez ref ext strand items.
Proof.
  intros H. unfold model_extract. cbv zeta.
  destruct (encode (enc_of ez) ref) as [codes|c]; [|reflexivity].
  destruct (revcomp_codes keys (enc_of ez) (concat (map (ext codes) items)) (map len (map (ext codes) items)))
    as [flat|c] eqn:E; [|reflexivity].
  pose proof (rc_shape _ _ _ _ E) as S.
  assert (L : length (map (fun it => strand it =? fst site) items) = length (map (ext codes) items))
    by (rewrite !map_length; reflexivity).
  destruct (snd site).
  - rewrite (H _ _ _ (eq_trans L (eq_sym (same_shape_length _ _ S))) S). reflexivity.
  - rewrite (H _ _ _ L (same_shape_sym _ _ S)). reflexivity.
Qed.

(* the interval form with slice-bound functions is an instance of [model_extract] *)
Lemma stranded_site_extract keys wh site lo hi ez ref ivs :
  model_stranded_site keys wh site lo hi ez ref ivs
  = model_extract keys wh site ez ref
      (fun codes (iv : Z * Z * Z) => let '(a, b, _) := iv in slice (lo a b) (hi a b) codes) iv_strand ivs.
Proof. reflexivity. Qed.

(* Props: C14_row_mask_where *)
Lemma row_mask_where_thm : forall over_x mask x y, length mask = length x -> same_shape x y ->
  where_call row_mask_of over_x mask x y = Ok (choose_rows mask x y)
  /\ split_lens (repeat_each mask (map len x)) (map len x) = row_mask_of mask x.
Proof.
  intros over_x mask x y Hm Hs. split.
  - apply (where_call_fixed row_mask_of (fun _ _ _ => eq_refl) over_x mask x y Hm Hs).
  - apply row_mask_split, Hm.
Qed.

(* Proofs/C08_merge.v — merge_intervals returns the maximal runs of the union (T3) and the boolean
   mask is positive coverage (T2). *)
From Coq Require Import ZArith List Bool Lia Arith Permutation.
From BNP Require Import Base.Prims Base.PrimsFacts Model.C08 Proofs.C08.
Import ListNotations.
Open Scope Z_scope.

(* ---------- the vectorised merge is a left-to-right scan with a running maximum ---------- *)
Fixpoint go (d cs m : Z) (rest : list iv) : list iv :=
  match rest with
  | [] => [(cs, m)]
  | (s, e) :: r => if m + d <? s then (cs, m) :: go d s (Z.max m e) r else go d cs (Z.max m e) r
  end.
Fixpoint validR (d m : Z) (rest : list iv) : list bool :=
  match rest with [] => [] | (s, e) :: r => (m + d <? s) :: validR d (Z.max m e) r end.

Lemma valid_scan d : forall rest m,
  zip_with (fun s p => p <? s) (map fst rest) (m + d :: map (fun e => e + d) (max_accumulate_from m (map snd rest)))
  = validR d m rest.
Proof.
  induction rest as [|[s e] r IH]; intros m; [reflexivity|].
  cbn [map fst snd max_accumulate_from zip_with validR]. f_equal. apply (IH (Z.max m e)).
Qed.

Lemma scan_starts_stops d : forall rest cs m,
  cs :: mask_select (validR d m rest) (map fst rest) = map fst (go d cs m rest)
  /\ map (fun e => e - d) (mask_select (validR d m rest ++ [true]) (m + d :: map (fun e => e + d) (max_accumulate_from m (map snd rest))))
     = map snd (go d cs m rest).
Proof.
  induction rest as [|[s e] r IH]; intros cs m.
  - cbn. split; [reflexivity|]. f_equal. lia.
  - cbn [map fst snd max_accumulate_from validR go]. destruct (IH s (Z.max m e)) as [IH1 IH2]. destruct (IH cs (Z.max m e)) as [IH3 IH4].
    destruct (m + d <? s); cbn [mask_select app map fst snd].
    + split.
      * f_equal. exact IH1.
      * f_equal; [lia|]. exact IH2.
    + split; [exact IH3|exact IH4].
Qed.

Lemma combine_fst_snd {X Y} (l : list (X * Y)) : combine (map fst l) (map snd l) = l.
Proof. induction l as [|[a b] l IH]; simpl; [reflexivity|]. rewrite IH. reflexivity. Qed.
Lemma map_add0 (l : list Z) : map (fun e => e + 0) l = l.
Proof. rewrite <- (map_id l) at 2. apply map_ext. intros; lia. Qed.
Lemma map_sub0 (l : list Z) : map (fun e => e - 0) l = l.
Proof. rewrite <- (map_id l) at 2. apply map_ext. intros; lia. Qed.
Lemma shift_if d (l : list Z) : 0 <= d -> (if 0 <? d then map (fun e => e + d) l else l) = map (fun e => e + d) l.
Proof. intros H. destruct (Z.ltb_spec 0 d); [reflexivity|]. assert (d = 0) by lia. subst. symmetry. apply map_add0. Qed.
Lemma unshift_if d (l : list Z) : 0 <= d -> (if 0 <? d then map (fun e => e - d) l else l) = map (fun e => e - d) l.
Proof. intros H. destruct (Z.ltb_spec 0 d); [reflexivity|]. assert (d = 0) by lia. subst. symmetry. apply map_sub0. Qed.

(* consecutive output intervals are separated by more than d *)
Fixpoint sep (d : Z) (out : list iv) : Prop :=
  match out with a :: ((b :: _) as t) => snd a + d < fst b /\ sep d t | _ => True end.
Lemma sep_cons d a b t : sep d (a :: b :: t) <-> snd a + d < fst b /\ sep d (b :: t).
Proof. reflexivity. Qed.
Lemma go_head d rest : forall cs m, exists m' t, go d cs m rest = (cs, m') :: t.
Proof.
  induction rest as [|[s e] r IH]; intros cs m; [exists m, []; reflexivity|].
  cbn [go]. destruct (m + d <? s); [exists m, (go d s (Z.max m e) r); reflexivity|apply IH].
Qed.
Lemma go_sep d rest : forall cs m, sep d (go d cs m rest).
Proof.
  induction rest as [|[s e] r IH]; intros cs m; [exact I|].
  cbn [go]. destruct (Z.ltb_spec (m + d) s); [|apply IH].
  destruct (go_head d r s (Z.max m e)) as [m' [t Hg]]. specialize (IH s (Z.max m e)). rewrite Hg in *.
  apply sep_cons. split; [simpl; lia|exact IH].
Qed.
Lemma sep_assert d out : 0 <= d -> sep d out ->
  all_true (zip_with (fun s p => p <? s) (tl (map fst out)) (map snd out)) = true.
Proof.
  intros Hd. induction out as [|a out IH]; intros H; [reflexivity|].
  destruct out as [|b t]; [reflexivity|]. apply sep_cons in H. destruct H as [H1 H2].
  cbn [map tl zip_with all_true]. cbn [map tl] in IH. rewrite (IH H2).
  replace (snd a <? fst b) with true; [reflexivity|]. symmetry. apply Z.ltb_lt. lia.
Qed.

(* M1: the model of merge_intervals is the scan *)
Lemma merge_model_go d s0 e0 rest : 0 <= d -> sortedb Z.leb (map fst ((s0, e0) :: rest)) = true ->
  merge_model d ((s0, e0) :: rest) = Some (go d s0 e0 rest).
Proof.
  intros Hd Hs. unfold merge_model, m_merge_shift, m_merge_unshift.
  change (sortedb m_merge_sorted_pair) with (sortedb Z.leb). change m_merge_new_run with (fun s p : Z => p <? s).
  rewrite Hs. cbn [negb].
  rewrite !shift_if, !unshift_if by exact Hd.
  cbn [map fst snd tl max_accumulate].
  rewrite valid_scan. destruct (scan_starts_stops d rest s0 e0) as [H1 H2].
  cbn [mask_select app]. rewrite H1, H2.
  rewrite (sep_assert d _ Hd (go_sep d rest s0 e0)). rewrite combine_fst_snd. reflexivity.
Qed.

(* M2: bridging gaps of at most d = merging the intervals extended by d, then taking d off again *)
Lemma go_grow d : forall rest cs m, go d cs m rest = shrink d (go 0 cs (m + d) (grow d rest)).
Proof.
  induction rest as [|[s e] r IH]; intros cs m.
  - cbn. f_equal. f_equal. lia.
  - cbn [grow map fst snd go]. fold (grow d r). rewrite Z.add_0_r.
    replace (Z.max (m + d) (e + d)) with (Z.max m e + d) by lia.
    destruct (m + d <? s).
    + cbn [shrink map fst snd]. fold (shrink d (go 0 s (Z.max m e + d) (grow d r))). rewrite <- IH. f_equal. f_equal. lia.
    + apply IH.
Qed.

(* ---------- M3: what the scan with d = 0 covers ---------- *)
Lemma covered_cons i I x : covered (i :: I) x = covers x i || covered I x.
Proof.
  unfold covered. rewrite cov_cons. pose proof (cov_nonneg I x).
  destruct (covers x i); cbn [b2z orb]; [apply Z.ltb_lt; lia|reflexivity].
Qed.
Lemma covered_nil x : covered [] x = false. Proof. reflexivity. Qed.
Lemma sorted_skip a b l : a <= b -> sortedb Z.leb (b :: l) = true -> sortedb Z.leb (a :: l) = true.
Proof.
  intros Hab H. destruct l as [|c l]; [reflexivity|]. apply sortedb_cons in H. destruct H as [H1 H2].
  apply sortedb_cons. split; [|exact H2]. apply Z.leb_le. apply Z.leb_le in H1. lia.
Qed.

Lemma go0_covered : forall rest cs m x,
  sortedb Z.leb (cs :: map fst rest) = true -> (forall i, In i rest -> fst i < snd i) ->
  covered (go 0 cs m rest) x = covers x (cs, m) || covered rest x.
Proof.
  induction rest as [|[s e] r IH]; intros cs m x Hs Hne.
  - cbn [go]. rewrite covered_cons, covered_nil. reflexivity.
  - cbn [map fst] in Hs. apply sortedb_cons in Hs. destruct Hs as [Hcs Hs]. apply Z.leb_le in Hcs.
    assert (Hse : s < e) by (apply (Hne (s, e)); left; reflexivity).
    assert (Hne' : forall i, In i r -> fst i < snd i) by (intros i Hi; apply Hne; right; exact Hi).
    cbn [go]. rewrite Z.add_0_r. destruct (Z.ltb_spec m s) as [Hlt|Hge].
    + rewrite covered_cons. rewrite (IH s (Z.max m e) x Hs Hne').
      replace (Z.max m e) with e by lia. rewrite (covered_cons (s, e)). reflexivity.
    + rewrite (IH cs (Z.max m e) x (sorted_skip _ _ _ Hcs Hs) Hne').
      rewrite (covered_cons (s, e)). rewrite orb_assoc. f_equal.
      apply bool_eq_iff. rewrite orb_true_iff, !covers_iff. cbn [fst snd]. lia.
Qed.

(* the outputs are non-empty and stay inside what the inputs span *)
Lemma go_bounds d : forall rest cs m lo hi,
  0 <= d -> cs < m -> lo <= cs -> m <= hi -> (forall i, In i rest -> fst i < snd i /\ lo <= fst i /\ snd i <= hi) ->
  forall o, In o (go d cs m rest) -> fst o < snd o /\ lo <= fst o /\ snd o <= hi.
Proof.
  induction rest as [|[s e] r IH]; intros cs m lo hi Hd Hcm Hlo Hhi Hin o Ho.
  - destruct Ho as [Ho|[]]. subst o. simpl. lia.
  - assert (Hse : s < e /\ lo <= s /\ e <= hi) by (apply (Hin (s, e)); left; reflexivity).
    assert (Hin' : forall i, In i r -> fst i < snd i /\ lo <= fst i /\ snd i <= hi) by (intros i Hi; apply Hin; right; exact Hi).
    cbn [go] in Ho. destruct (m + d <? s).
    + destruct Ho as [Ho|Ho]; [subst o; simpl; lia|].
      apply (IH s (Z.max m e) lo hi); try assumption; lia.
    + apply (IH cs (Z.max m e) lo hi); try assumption; lia.
Qed.

(* ---------- M4: separated non-empty intervals are exactly the maximal runs of their union ---------- *)
Lemma sep_after a t : sep 0 (a :: t) -> (forall o, In o (a :: t) -> fst o < snd o) -> forall j, In j t -> snd a < fst j.
Proof.
  revert a. induction t as [|b t IH]; intros a Hs Hne j Hj; [destruct Hj|].
  apply sep_cons in Hs. destruct Hs as [H1 H2].
  destruct Hj as [Hj|Hj]; [subst; lia|].
  assert (fst b < snd b) by (apply Hne; right; left; reflexivity).
  specialize (IH b H2 (fun o Ho => Hne o (or_intror Ho)) j Hj). lia.
Qed.
Lemma sep_tail d a t : sep d (a :: t) -> sep d t.
Proof. destruct t as [|b t]; [intros; exact I|]. intros H. apply sep_cons in H. exact (proj2 H). Qed.
Lemma covered_before t x : (forall j, In j t -> x < fst j) -> covered t x = false.
Proof.
  induction t as [|b t IH]; intros H; [reflexivity|]. rewrite covered_cons.
  rewrite IH by (intros j Hj; apply H; right; exact Hj).
  specialize (H b (or_introl eq_refl)). unfold covers. destruct (Z.leb_spec (fst b) x); [lia|reflexivity].
Qed.

Lemma runs_scan (f : Z -> bool) : forall n pos out,
  sep 0 out -> (forall o, In o out -> fst o < snd o /\ snd o <= pos + Z.of_nat n) ->
  (forall x, pos <= x -> f x = covered out x) ->
  ((forall o, In o out -> pos <= fst o) -> runs_from pos None (map f (arange_from pos n)) = out)
  /\ (forall c s1 e1 t, out = (s1, e1) :: t -> s1 < pos <= e1 ->
        runs_from pos (Some c) (map f (arange_from pos n)) = (c, e1) :: t).
Proof.
  induction n as [|n IH]; intros pos out Hsep Hb Hf.
  - cbn [arange_from map runs_from]. split.
    + intros Hge. destruct out as [|o out']; [reflexivity|].
      specialize (Hb o (or_introl eq_refl)). specialize (Hge o (or_introl eq_refl)). lia.
    + intros c s1 e1 t E Hin. subst out.
      pose proof (Hb (s1, e1) (or_introl eq_refl)) as H1. cbn [fst snd] in H1.
      assert (e1 = pos) by lia. subst e1.
      destruct t as [|j t]; [reflexivity|].
      pose proof (sep_after _ _ Hsep (fun o Ho => proj1 (Hb o Ho)) j (or_introl eq_refl)) as H2. cbn [snd] in H2.
      specialize (Hb j (or_intror (or_introl eq_refl))). lia.
  - assert (Hn : pos + Z.of_nat (S n) = pos + 1 + Z.of_nat n) by lia.
    cbn [arange_from map].
    split.
    + intros Hge. destruct out as [|[s1 e1] t].
      * rewrite (Hf pos) by lia. rewrite covered_nil. cbn [runs_from].
        apply (IH (pos + 1) []); try assumption.
        { intros o []. } { intros x Hx. apply Hf. lia. } { intros o []. }
      * pose proof (Hb (s1, e1) (or_introl eq_refl)) as Hb1. cbn [fst snd] in Hb1.
        pose proof (Hge (s1, e1) (or_introl eq_refl)) as Hg1. cbn [fst] in Hg1.
        pose proof (sep_after _ _ Hsep (fun o Ho => proj1 (Hb o Ho))) as Haft. cbn [snd] in Haft.
        rewrite (Hf pos) by lia. rewrite covered_cons.
        destruct (Z.eq_dec pos s1) as [E|E].
        -- subst s1. replace (covers pos (pos, e1)) with true by (symmetry; apply covers_iff; simpl; lia).
           cbn [orb runs_from].
           apply (proj2 (IH (pos + 1) ((pos, e1) :: t) Hsep
                    (fun o Ho => ltac:(specialize (Hb o Ho); lia))
                    (fun x Hx => Hf x ltac:(lia))) pos pos e1 t eq_refl). lia.
        -- replace (covers pos (s1, e1)) with false by (symmetry; unfold covers; cbn [fst snd]; destruct (Z.leb_spec s1 pos); [lia|reflexivity]).
           rewrite covered_before by (intros j Hj; specialize (Haft j Hj); lia).
           cbn [orb runs_from].
           apply (proj1 (IH (pos + 1) ((s1, e1) :: t) Hsep
                    (fun o Ho => ltac:(specialize (Hb o Ho); lia))
                    (fun x Hx => Hf x ltac:(lia)))).
           intros o [Ho|Ho]; [subst o; cbn [fst]; lia|]. specialize (Haft o Ho). lia.
    + intros c s1 e1 t E Hin. subst out.
      pose proof (Hb (s1, e1) (or_introl eq_refl)) as Hb1. cbn [fst snd] in Hb1.
      pose proof (sep_after _ _ Hsep (fun o Ho => proj1 (Hb o Ho))) as Haft. cbn [snd] in Haft.
      rewrite (Hf pos) by lia. rewrite covered_cons.
      destruct (Z.eq_dec pos e1) as [E|E].
      * subst e1. replace (covers pos (s1, pos)) with false by (symmetry; unfold covers; cbn [fst snd]; destruct (Z.ltb_spec pos pos); [lia|apply andb_false_r]).
        rewrite covered_before by (intros j Hj; specialize (Haft j Hj); lia).
        cbn [orb runs_from]. f_equal.
        apply (proj1 (IH (pos + 1) t (sep_tail _ _ _ Hsep)
                 (fun o Ho => ltac:(specialize (Hb o (or_intror Ho)); lia))
                 (fun x Hx => ltac:(rewrite (Hf x) by lia; rewrite covered_cons;
                                    replace (covers x (s1, pos)) with false
                                      by (symmetry; unfold covers; cbn [fst snd]; destruct (Z.ltb_spec x pos); [lia|apply andb_false_r]);
                                    reflexivity)))).
        intros o Ho. specialize (Haft o Ho). lia.
      * replace (covers pos (s1, e1)) with true by (symmetry; apply covers_iff; simpl; lia).
        cbn [orb runs_from].
        apply (proj2 (IH (pos + 1) ((s1, e1) :: t) Hsep
                 (fun o Ho => ltac:(specialize (Hb o Ho); lia))
                 (fun x Hx => Hf x ltac:(lia))) c s1 e1 t eq_refl). lia.
Qed.

Lemma runs_of_separated out size : 0 <= size -> sep 0 out ->
  (forall o, In o out -> fst o < snd o /\ 0 <= fst o /\ snd o <= size) ->
  runs (mask_spec out size) = out.
Proof.
  intros Hs Hsep Hb. unfold runs, mask_spec, bases, arange.
  apply (proj1 (runs_scan (covered out) (Z.to_nat size) 0 out Hsep
           (fun o Ho => ltac:(specialize (Hb o Ho); lia)) (fun x _ => eq_refl))).
  intros o Ho. specialize (Hb o Ho). lia.
Qed.

(* ---------- T3 ---------- *)
Definition wf_merge_input (I : list iv) (size : Z) : Prop :=
  sortedb Z.leb (map fst I) = true /\ forall i, In i I -> fst i < snd i /\ 0 <= fst i /\ snd i <= size.

Lemma go0_runs s0 e0 rest size : 0 <= size -> wf_merge_input ((s0, e0) :: rest) size ->
  go 0 s0 e0 rest = runs (mask_spec ((s0, e0) :: rest) size).
Proof.
  intros Hs [Hsorted Hwf].
  assert (H0 : s0 < e0 /\ 0 <= s0 /\ e0 <= size) by (apply (Hwf (s0, e0)); left; reflexivity).
  assert (Hne : forall i, In i rest -> fst i < snd i) by (intros i Hi; apply (Hwf i); right; exact Hi).
  rewrite <- (runs_of_separated (go 0 s0 e0 rest) size Hs (go_sep 0 rest s0 e0)).
  - f_equal. unfold mask_spec. apply map_ext. intros x.
    rewrite (go0_covered rest s0 e0 x Hsorted Hne). rewrite (covered_cons (s0, e0)). reflexivity.
  - intros o Ho. apply (go_bounds 0 rest s0 e0 0 size); try lia; try exact Ho.
    intros i Hi. specialize (Hwf i (or_intror Hi)). lia.
Qed.

Lemma runs_all_false size : runs (mask_spec [] size) = [].
Proof.
  unfold runs, mask_spec, bases, arange.
  apply (proj1 (runs_scan (covered []) (Z.to_nat size) 0 [] I (fun o (H : In o []) => match H with end) (fun x _ => eq_refl))).
  intros o [].
Qed.

Lemma bridge0_id out : sep 0 out -> bridge 0 out = out.
Proof.
  destruct out as [|a t]; [reflexivity|]. cbn [bridge]. revert a.
  induction t as [|b t IH]; intros a H; [reflexivity|].
  apply sep_cons in H. destruct H as [H1 H2]. cbn [bridge_acc].
  replace (snd a + 0 <? fst b) with true by (symmetry; apply Z.ltb_lt; lia).
  f_equal. apply IH. exact H2.
Qed.

(* distance 0: the result is the list of maximal runs of positive coverage *)
Lemma merge0_maximal_runs I size : 0 <= size -> wf_merge_input I size ->
  merge_model 0 I = Some (merge_spec 0 I size).
Proof.
  intros Hs Hwf. unfold merge_spec. destruct I as [|[s0 e0] rest].
  - rewrite runs_all_false. reflexivity.
  - transitivity (Some (go 0 s0 e0 rest)); [apply merge_model_go; [lia|exact (proj1 Hwf)]|]. f_equal.
    symmetry. etransitivity; [apply f_equal; symmetry; apply (go0_runs s0 e0 rest size Hs Hwf)|].
    apply bridge0_id. apply go_sep.
Qed.

Lemma wf_grow d I size : 0 <= d -> wf_merge_input I size -> wf_merge_input (grow d I) (size + d).
Proof.
  intros Hd [H1 H2]. split.
  - unfold grow. rewrite map_map. cbn [fst]. exact H1.
  - intros i Hi. unfold grow in Hi. apply in_map_iff in Hi. destruct Hi as [j [E Hj]]. subst i. cbn [fst snd].
    specialize (H2 j Hj). lia.
Qed.

(* any distance d >= 0: extend every interval by d, take the maximal runs of the union, take d off again *)
Lemma merge_maximal_runs d I size : 0 <= d -> 0 <= size -> wf_merge_input I size ->
  merge_model d I = Some (merge_spec2 d I size).
Proof.
  intros Hd Hs Hwf. unfold merge_spec2. destruct I as [|[s0 e0] rest].
  - cbn [grow map]. rewrite runs_all_false. reflexivity.
  - transitivity (Some (go d s0 e0 rest)); [apply merge_model_go; [lia|exact (proj1 Hwf)]|]. f_equal.
    rewrite go_grow. f_equal.
    pose proof (wf_grow d _ size Hd Hwf) as Hg.
    apply (go0_runs s0 (e0 + d) (grow d rest) (size + d) ltac:(lia) Hg).
Qed.

(* the relational reading: sorted output, gaps larger than d, each output non-empty and inside the contig,
   and (d = 0) exactly the covered bases are covered *)
Lemma merge_relational d I size : 0 <= d -> 0 <= size -> wf_merge_input I size ->
  exists out, merge_model d I = Some out /\ sep d out
    /\ (forall o, In o out -> fst o < snd o /\ 0 <= fst o /\ snd o <= size)
    /\ (d = 0 -> forall x, covered out x = covered I x).
Proof.
  intros Hd Hs [Hsorted Hwf]. destruct I as [|[s0 e0] rest].
  - exists []. split; [reflexivity|]. split; [exact I|]. split; [intros o []|]. intros _ x. reflexivity.
  - exists (go d s0 e0 rest). split; [apply merge_model_go; assumption|]. split; [apply go_sep|]. split.
    + intros o Ho. pose proof (Hwf (s0, e0) (or_introl eq_refl)) as H0. cbn [fst snd] in H0.
      apply (go_bounds d rest s0 e0 0 size); try lia; try exact Ho. intros i Hi. specialize (Hwf i (or_intror Hi)). lia.
    + intros E x. subst d. rewrite (go0_covered rest s0 e0 x Hsorted).
      * rewrite (covered_cons (s0, e0)). reflexivity.
      * intros i Hi. apply (Hwf i). right. exact Hi.
Qed.

(* ---------- T2: the boolean mask is positive coverage ---------- *)
Lemma sorted_pos_fst (l : list iv) : sortedb pos_leb l = sortedb Z.leb (map fst l).
Proof.
  induction l as [|a l IH]; [reflexivity|]. destruct l as [|b l]; [reflexivity|].
  cbn [map sortedb] in *. rewrite IH. reflexivity.
Qed.
Lemma existsb_covers out x : existsb (covers x) out = covered out x.
Proof. induction out as [|o out IH]; [reflexivity|]. cbn [existsb]. rewrite covered_cons, IH. reflexivity. Qed.
Lemma covered_perm I J x : Permutation I J -> covered I x = covered J x.
Proof. intros H. unfold covered. rewrite (cov_perm I J x H). reflexivity. Qed.
Lemma sep_touch_assert out : sep 0 out ->
  all_true (zip_with (fun s e => e <=? s) (tl (map fst out)) (map snd out)) = true.
Proof.
  induction out as [|a out IH]; intros H; [reflexivity|].
  destruct out as [|b t]; [reflexivity|]. apply sep_cons in H. destruct H as [H1 H2].
  cbn [map tl zip_with all_true]. cbn [map tl] in IH. rewrite (IH H2).
  replace (snd a <=? fst b) with true; [reflexivity|]. symmetry. apply Z.leb_le. lia.
Qed.
Lemma filter_all {T} (p : T -> bool) l : (forall x, In x l -> p x = true) -> filter p l = l.
Proof.
  induction l as [|a l IH]; intros H; [reflexivity|]. cbn [filter]. rewrite (H a (or_introl eq_refl)).
  f_equal. apply IH. intros x Hx. apply H. right. exact Hx.
Qed.

Lemma mask_is_positive_coverage I size : 0 <= size ->
  (forall i, In i I -> fst i < snd i /\ 0 <= fst i /\ snd i <= size) ->
  mask_model I size = Some (mask_spec I size).
Proof.
  intros Hs Hwf. unfold mask_model, m_mask_keep.
  replace (existsb (fun i => size <? snd i) I) with false.
  2:{ symmetry. apply not_true_is_false. intros H. apply existsb_exists in H. destruct H as [i [Hi H]].
      apply Z.ltb_lt in H. specialize (Hwf i Hi). lia. }
  destruct I as [|i0 I0] eqn:EI.
  - unfold from_intervals_mask. cbn. f_equal.
  - rewrite <- EI in *. clear EI i0 I0.
    pose proof (isort_perm pos_leb I) as Hperm.
    pose proof (isort_sorted pos_leb pos_leb_total I) as Hsorted. rewrite sorted_pos_fst in Hsorted.
    assert (Hwf' : wf_merge_input (isort pos_leb I) size).
    { split; [exact Hsorted|]. intros i Hi. apply Hwf. apply (Permutation_in _ Hperm). exact Hi. }
    destruct (merge_relational 0 (isort pos_leb I) size (Z.le_refl 0) Hs Hwf') as [out [Hm [Hsep [Hb Hc]]]].
    rewrite Hm. rewrite filter_all.
    2:{ intros o Ho. specialize (Hb o Ho). apply negb_true_iff. apply Z.eqb_neq. lia. }
    unfold from_intervals_mask.
    replace (forallb (fun i => fst i <? snd i) out) with true.
    2:{ symmetry. apply forallb_forall. intros o Ho. specialize (Hb o Ho). apply Z.ltb_lt. lia. }
    rewrite (sep_touch_assert out Hsep). cbn [andb]. f_equal. unfold mask_spec. apply map_ext. intros x.
    rewrite existsb_covers. rewrite (Hc eq_refl x). apply covered_perm. exact Hperm.
Qed.

(* ---------- T3 in its literal reading: maximal runs of the union with gaps of at most d bridged ---------- *)
Definition set_start (c : Z) (l : list iv) : list iv := match l with [] => [] | (a, b) :: t => (c, b) :: t end.
Lemma bridge_acc_start d : forall T c c' m1, bridge_acc d (c, m1) T = set_start c (bridge_acc d (c', m1) T).
Proof.
  induction T as [|r T IH]; intros c c' m1; [reflexivity|].
  cbn [bridge_acc fst snd]. destruct (m1 + d <? fst r); [reflexivity|]. apply IH.
Qed.
Lemma go_start d : forall r c c' m, go d c m r = set_start c (go d c' m r).
Proof.
  induction r as [|[s e] r IH]; intros c c' m; [reflexivity|].
  cbn [go]. destruct (m + d <? s); [reflexivity|]. apply IH.
Qed.
Lemma bridge_go d : 0 <= d -> forall rest cs m, bridge d (go 0 cs m rest) = go d cs m rest.
Proof.
  intros Hd. induction rest as [|[s e] r IH]; intros cs m; [reflexivity|].
  cbn [go]. rewrite Z.add_0_r. destruct (Z.ltb_spec m s) as [Hlt|Hge].
  - cbn [bridge]. destruct (go_head 0 r s (Z.max m e)) as [m1 [T Hg]].
    specialize (IH s (Z.max m e)). rewrite Hg in IH |- *. cbn [bridge] in IH.
    cbn [bridge_acc fst snd]. destruct (Z.ltb_spec (m + d) s) as [H1|H1].
    + rewrite IH. reflexivity.
    + rewrite (bridge_acc_start d T cs s m1). rewrite IH. symmetry. apply go_start.
  - replace (m + d <? s) with false by (symmetry; apply Z.ltb_ge; lia). apply IH.
Qed.

Lemma merge_bridged_runs d I size : 0 <= d -> 0 <= size -> wf_merge_input I size ->
  merge_model d I = Some (merge_spec d I size).
Proof.
  intros Hd Hs Hwf. unfold merge_spec. destruct I as [|[s0 e0] rest].
  - rewrite runs_all_false. reflexivity.
  - transitivity (Some (go d s0 e0 rest)); [apply merge_model_go; [lia|exact (proj1 Hwf)]|]. f_equal.
    rewrite <- (bridge_go d Hd rest s0 e0). f_equal. apply (go0_runs s0 e0 rest size Hs Hwf).
Qed.

(* ---------- T2 with empty intervals (start = stop) allowed ---------- *)
Lemma go0_covered_le : forall rest cs m x,
  sortedb Z.leb (cs :: map fst rest) = true -> (forall i, In i rest -> fst i <= snd i) ->
  covered (go 0 cs m rest) x = covers x (cs, m) || covered rest x.
Proof.
  induction rest as [|[s e] r IH]; intros cs m x Hs Hne.
  - cbn [go]. rewrite covered_cons, covered_nil. reflexivity.
  - cbn [map fst] in Hs. apply sortedb_cons in Hs. destruct Hs as [Hcs Hs]. apply Z.leb_le in Hcs.
    assert (Hse : s <= e) by (apply (Hne (s, e)); left; reflexivity).
    assert (Hne' : forall i, In i r -> fst i <= snd i) by (intros i Hi; apply Hne; right; exact Hi).
    cbn [go]. rewrite Z.add_0_r. destruct (Z.ltb_spec m s) as [Hlt|Hge].
    + rewrite covered_cons. rewrite (IH s (Z.max m e) x Hs Hne').
      replace (Z.max m e) with e by lia. rewrite (covered_cons (s, e)). reflexivity.
    + rewrite (IH cs (Z.max m e) x (sorted_skip _ _ _ Hcs Hs) Hne').
      rewrite (covered_cons (s, e)). rewrite orb_assoc. f_equal.
      apply bool_eq_iff. rewrite orb_true_iff, !covers_iff. cbn [fst snd]. lia.
Qed.
Lemma go_bounds_le d : forall rest cs m lo hi,
  0 <= d -> cs <= m -> lo <= cs -> m <= hi -> (forall i, In i rest -> fst i <= snd i /\ lo <= fst i /\ snd i <= hi) ->
  forall o, In o (go d cs m rest) -> fst o <= snd o /\ lo <= fst o /\ snd o <= hi.
Proof.
  induction rest as [|[s e] r IH]; intros cs m lo hi Hd Hcm Hlo Hhi Hin o Ho.
  - destruct Ho as [Ho|[]]. subst o. simpl. lia.
  - assert (Hse : s <= e /\ lo <= s /\ e <= hi) by (apply (Hin (s, e)); left; reflexivity).
    assert (Hin' : forall i, In i r -> fst i <= snd i /\ lo <= fst i /\ snd i <= hi) by (intros i Hi; apply Hin; right; exact Hi).
    cbn [go] in Ho. destruct (m + d <? s).
    + destruct Ho as [Ho|Ho]; [subst o; simpl; lia|].
      apply (IH s (Z.max m e) lo hi); try assumption; lia.
    + apply (IH cs (Z.max m e) lo hi); try assumption; lia.
Qed.
Lemma sep_after_le a t : sep 0 (a :: t) -> (forall o, In o t -> fst o <= snd o) -> forall j, In j t -> snd a < fst j.
Proof.
  revert a. induction t as [|b t IH]; intros a Hs Hne j Hj; [destruct Hj|].
  apply sep_cons in Hs. destruct Hs as [H1 H2].
  destruct Hj as [Hj|Hj]; [subst; lia|].
  assert (fst b <= snd b) by (apply Hne; left; reflexivity).
  specialize (IH b H2 (fun o Ho => Hne o (or_intror Ho)) j Hj). lia.
Qed.
Lemma sep_intro a l : (forall j, In j l -> snd a < fst j) -> sep 0 l -> sep 0 (a :: l).
Proof.
  intros H1 H2. destruct l as [|b l]; [exact I|]. apply sep_cons. split; [|exact H2].
  specialize (H1 b (or_introl eq_refl)). lia.
Qed.
Lemma sep_filter (p : iv -> bool) out : sep 0 out -> (forall o, In o out -> fst o <= snd o) -> sep 0 (filter p out).
Proof.
  induction out as [|a t IH]; intros Hs Hle; [exact I|].
  pose proof (sep_after_le a t Hs (fun o Ho => Hle o (or_intror Ho))) as Haft.
  specialize (IH (sep_tail _ _ _ Hs) (fun o Ho => Hle o (or_intror Ho))).
  cbn [filter]. destruct (p a); [|exact IH].
  apply sep_intro; [|exact IH]. intros j Hj. apply filter_In in Hj. apply Haft. tauto.
Qed.
Lemma covered_filter_nonempty out x : (forall o, In o out -> fst o <= snd o) ->
  covered (filter (fun i => negb (fst i =? snd i)) out) x = covered out x.
Proof.
  induction out as [|[s e] out IH]; intros H; [reflexivity|].
  specialize (IH (fun o Ho => H o (or_intror Ho))). specialize (H (s, e) (or_introl eq_refl)). cbn [fst snd] in H.
  cbn [filter fst snd]. destruct (Z.eqb_spec s e) as [E|E]; cbn [negb].
  - rewrite IH, covered_cons. subst e. unfold covers. cbn [fst snd].
    destruct (Z.leb_spec s x); destruct (Z.ltb_spec x s); cbn [andb orb]; try reflexivity; lia.
  - rewrite !covered_cons, IH. reflexivity.
Qed.

Lemma mask_is_positive_coverage_gen I size : 0 <= size ->
  (forall i, In i I -> 0 <= fst i /\ fst i <= snd i /\ snd i <= size) ->
  mask_model I size = Some (mask_spec I size).
Proof.
  intros Hs Hwf. unfold mask_model, m_mask_keep.
  replace (existsb (fun i => size <? snd i) I) with false.
  2:{ symmetry. apply not_true_is_false. intros H. apply existsb_exists in H. destruct H as [i [Hi H]].
      apply Z.ltb_lt in H. specialize (Hwf i Hi). lia. }
  destruct I as [|i0 I0] eqn:EI.
  - unfold from_intervals_mask. cbn. f_equal.
  - rewrite <- EI in *. assert (HI : isort pos_leb I <> []).
    { intros E. pose proof (isort_perm pos_leb I) as Hp. rewrite E in Hp. apply Permutation_nil in Hp. rewrite EI in Hp. discriminate. }
    clear EI i0 I0.
    pose proof (isort_perm pos_leb I) as Hperm.
    pose proof (isort_sorted pos_leb pos_leb_total I) as Hsorted. rewrite sorted_pos_fst in Hsorted.
    destruct (isort pos_leb I) as [|[s0 e0] rest] eqn:Es; [congruence|].
    assert (Hwf' : forall i, In i ((s0, e0) :: rest) -> 0 <= fst i /\ fst i <= snd i /\ snd i <= size)
      by (intros i Hi; apply Hwf; apply (Permutation_in _ Hperm); exact Hi).
    pose proof (Hwf' (s0, e0) (or_introl eq_refl)) as H0. cbn [fst snd] in H0.
    assert (Hm : merge_model 0 ((s0, e0) :: rest) = Some (go 0 s0 e0 rest)) by (apply merge_model_go; [lia|exact Hsorted]).
    rewrite Hm.
    set (out := go 0 s0 e0 rest).
    assert (Hb : forall o, In o out -> fst o <= snd o /\ 0 <= fst o /\ snd o <= size).
    { intros o Ho. apply (go_bounds_le 0 rest s0 e0 0 size); try lia; try exact Ho.
      intros i Hi. specialize (Hwf' i (or_intror Hi)). lia. }
    set (fo := filter (fun i => negb (fst i =? snd i)) out).
    assert (Hsep : sep 0 fo) by (apply sep_filter; [apply go_sep|intros o Ho; apply (Hb o Ho)]).
    unfold from_intervals_mask.
    replace (forallb (fun i => fst i <? snd i) fo) with true.
    2:{ symmetry. apply forallb_forall. intros o Ho. unfold fo in Ho. apply filter_In in Ho. destruct Ho as [Ho Hn].
        specialize (Hb o Ho). apply negb_true_iff in Hn. apply Z.eqb_neq in Hn. apply Z.ltb_lt. lia. }
    rewrite (sep_touch_assert fo Hsep). cbn [andb]. f_equal. unfold mask_spec. apply map_ext. intros x.
    rewrite existsb_covers. unfold fo. rewrite covered_filter_nonempty by (intros o Ho; apply (Hb o Ho)).
    unfold out. rewrite (go0_covered_le rest s0 e0 x Hsorted) by (intros i Hi; specialize (Hwf' i (or_intror Hi)); lia).
    rewrite <- (covered_cons (s0, e0)). symmetry. apply covered_perm. apply Permutation_sym. exact Hperm.
Qed.

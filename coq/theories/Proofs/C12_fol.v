(* Proofs/C12_fol.v — SynchedStream.__iter__ after notes/C12.fix-4.diff (`sync_fol`: the guards on the group's own name
   stay at the top of the loop body, the following group's name goes through the same guards before `yield data`).
   (1) its trace IS the trace of the look-ahead machine `sync_ahead` already proved exact in Proofs/C12.v — for every
       input, no side condition (the re-check at the top of the next iteration repeats a check that just passed; the
       IndexError branch is unreachable once the name passed the guards);
   (2) hence exact-or-raises for every consumer, whatever its pull depth;
   (3) the zip of ANY number of such streams (plus ms.lengths) is exact in every column, or raises. *)
From Coq Require Import ZArith List Bool Lia Arith.
From BNP Require Import Base.Prims Model.C12 Proofs.C12 Proofs.C12_pull.
Import ListNotations.

Section Fol.
Variable name : Type.
Variable neqb : name -> name -> bool.
Hypothesis neqb_eq : forall a b, neqb a b = true <-> a = b.
Variable P : Type.
Variable empty : P.
Notation sync_fol := (sync_fol name neqb P empty).
Notation sync_ahead := (sync_ahead name neqb P empty).
Notation check_name := (check_name name neqb).
Notation spec_sync := (spec_sync name neqb P empty).

Lemma check_name_none order seen n : ~ In n seen -> In n order -> check_name order seen n = None.
Proof.
  intros H1 H2. pose proof (check_name_spec name neqb neqb_eq order seen n) as H.
  destruct (check_name order seen n); [|reflexivity]. destruct H; tauto.
Qed.

Lemma sync_fol_is_ahead order : forall gs rest seen,
  order = seen ++ rest ->
  match gs with (n, _) :: _ => ~ In n seen /\ In n order | [] => True end ->
  sync_fol order rest seen gs = sync_ahead order rest seen gs.
Proof.
  induction gs as [|[n p] gs IH]; intros rest seen Ho Hhd; [reflexivity|].
  destruct Hhd as [Hns Hno].
  assert (Hin : In n rest). { subst order. rewrite in_app_iff in Hno. tauto. }
  destruct (sync_skip_spec name neqb neqb_eq n rest seen Hin) as [pre [rest' [-> [Hpre Hsk]]]].
  cbn [C12.sync_fol C12.sync_ahead]. rewrite (check_name_none order seen n Hns Hno). rewrite Hsk.
  destruct gs as [|[n' p'] gs']; [reflexivity|].
  pose proof (check_name_spec name neqb neqb_eq order (seen ++ pre ++ [n]) n') as Hc.
  destruct (check_name order (seen ++ pre ++ [n]) n'); [reflexivity|].
  rewrite IH; [reflexivity| |exact Hc].
  rewrite Ho. rewrite <- !app_assoc. reflexivity.
Qed.

Theorem synched_fol_is_ahead order gs :
  synched_fol name neqb P empty order gs = synched_ahead name neqb P empty order gs.
Proof.
  unfold synched_fol, synched_ahead. destruct gs as [|[n p] gs]; [reflexivity|].
  pose proof (check_name_spec name neqb neqb_eq order [] n) as Hc.
  destruct (check_name order [] n) eqn:E.
  - cbn [C12.sync_fol]. rewrite E. reflexivity.
  - apply sync_fol_is_ahead; [reflexivity|exact Hc].
Qed.

Theorem synched_fol_early order gs : NoDup order -> NoDup (map fst gs) -> order <> [] ->
  trace_meets_early (length order) (synched_fol name neqb P empty order gs) (spec_sync order [] gs).
Proof. intros Ho Hg H0. rewrite synched_fol_is_ahead. apply synched_ahead_early; assumption. Qed.

(* ---- consumers of any pull depth ---- *)
Lemma pull_n_prefix {A} k (a : list A) : pull_n k (a, Stop) = Done (firstn k a).
Proof.
  unfold pull_n, pull_all. simpl. destruct (k <=? length a)%nat eqn:E; [reflexivity|].
  apply Nat.leb_gt in E. rewrite firstn_all2 by lia. reflexivity.
Qed.
Lemma pull_n_late_err {A} N k (ys : list A) c : (length ys < N)%nat -> (N <= k)%nat -> pull_n k (ys, Raise c) = Err c.
Proof.
  intros H1 H2. unfold pull_n, pull_all. simpl. destruct (k <=? length ys)%nat eqn:E; [apply Nat.leb_le in E; lia|reflexivity].
Qed.

(* every consumer: order-compatible data -> whatever number k of items it takes, it gets exactly the first k tables of
   the per-contig assignment (all of them from k = number of contigs on); data that must raise -> every consumer that
   takes at least one item per contig (zip partner, list(...), get_contingency_table) gets the exception *)
Theorem multistream_fol_any_depth order gs : NoDup order -> NoDup (map fst gs) -> order <> [] ->
  match spec_sync order [] gs with
  | Some a => pull_all (synched_fol name neqb P empty order gs) = Done a
              /\ forall k, pull_n k (synched_fol name neqb P empty order gs) = Done (firstn k a)
  | None => (exists c, pull_all (synched_fol name neqb P empty order gs) = Err c)
            /\ forall k, (length order <= k)%nat -> exists c, pull_n k (synched_fol name neqb P empty order gs) = Err c
  end.
Proof.
  intros Ho Hg H0. pose proof (synched_fol_early order gs Ho Hg H0) as H.
  destruct (spec_sync order [] gs) as [a|]; simpl in H.
  - rewrite H. split; [reflexivity|]. intros k. apply pull_n_prefix.
  - destruct H as [ys [c [-> Hl]]]. split; [exists c; reflexivity|].
    intros k Hk. exists c. apply (pull_n_late_err (length order)); assumption.
Qed.
Corollary multistream_fol_npull order gs : NoDup order -> NoDup (map fst gs) -> order <> [] ->
  match spec_sync order [] gs with
  | Some a => pull_n (length order) (synched_fol name neqb P empty order gs) = Done a
  | None => exists c, pull_n (length order) (synched_fol name neqb P empty order gs) = Err c
  end.
Proof.
  intros Ho Hg H0. pose proof (multistream_fol_any_depth order gs Ho Hg H0) as H.
  destruct (spec_sync order [] gs) as [a|] eqn:Es.
  - destruct H as [_ H]. rewrite H. rewrite <- (spec_sync_length name neqb P empty _ _ _ _ Es). rewrite firstn_all. reflexivity.
  - destruct H as [_ H]. apply H. lia.
Qed.
End Fol.

(* ---- (3) the pull machine over any number of sources that all meet "complete with N items, or raise before the N-th" ---- *)
Section ZipAll.
Variable U : Type.
Notation lockstep := (lockstep U).
Notation pull_round := (pull_round U).
Definition stops (t : trace U) : bool := match snd t with Stop => true | Raise _ => false end.
Definition early_ok (N : nat) (t : trace U) : Prop :=
  (snd t = Stop /\ length (fst t) = N) \/ (exists c, snd t = Raise c /\ (length (fst t) < N)%nat).
Definition tails (srcs : list (trace U)) : list (trace U) := map (fun t : trace U => (tl (fst t), snd t)) srcs.
Definition dflt : trace U := ([], Stop).

Lemma stops_tails srcs : forallb stops (tails srcs) = forallb stops srcs.
Proof. induction srcs as [|[l e] srcs IH]; simpl; [reflexivity|]. rewrite IH. reflexivity. Qed.

Lemma pull_round_step N : forall srcs, Forall (early_ok (S N)) srcs ->
  (exists row, pull_round srcs = Done (Some (row, tails srcs)) /\ Forall (early_ok N) (tails srcs)
      /\ forall i d, (i < length srcs)%nat -> nth i row d :: fst (nth i (tails srcs) dflt) = fst (nth i srcs dflt))
  \/ (forallb stops srcs = false /\ exists c, pull_round srcs = Err c).
Proof.
  induction srcs as [|[l e] srcs IH]; intros HF.
  - left. exists []. simpl. repeat split; [constructor|]. intros i d Hi. inversion Hi.
  - inversion HF as [|? ? Ht HF']; subst. destruct l as [|a l'].
    + right. destruct Ht as [[_ Hl]|[c [Hc _]]]; [simpl in Hl; discriminate|]. simpl in Hc. subst e.
      split; [reflexivity|]. exists c. reflexivity.
    + destruct (IH HF') as [[row [Hr [Hok Hnth]]]|[Hs [c Hr]]].
      * left. exists (a :: row). simpl. rewrite Hr. split; [reflexivity|]. split.
        -- constructor; [|exact Hok].
           destruct Ht as [[Hs Hl]|[c [Hc Hl]]]; simpl in *; [left|right; exists c]; split; simpl; auto; lia.
        -- intros i d Hi. destruct i; [reflexivity|]. apply Hnth. lia.
      * right. split; [simpl; rewrite Hs; apply andb_false_r|]. exists c. simpl. rewrite Hr. reflexivity.
Qed.

Theorem lockstep_all : forall N srcs fuel, srcs <> [] -> (fuel > N)%nat -> Forall (early_ok N) srcs ->
  if forallb stops srcs
  then exists rows, lockstep fuel srcs = Done rows /\ length rows = N
         /\ forall i d, (i < length srcs)%nat -> column d i rows = fst (nth i srcs dflt)
  else exists c, lockstep fuel srcs = Err c.
Proof.
  induction N as [|N IH]; intros srcs fuel Hne Hf HF; (destruct fuel as [|f]; [lia|]).
  - assert (Hall : forall t, In t srcs -> t = dflt).
    { rewrite Forall_forall in HF. intros [l e] Ht. destruct (HF _ Ht) as [[Hs Hl]|[c [_ Hl]]]; simpl in *; [|lia].
      destruct l; [|discriminate]. subst; reflexivity. }
    assert (forallb stops srcs = true) as ->.
    { apply forallb_forall. intros t Ht. rewrite (Hall t Ht). reflexivity. }
    destruct srcs as [|t srcs]; [congruence|]. pose proof (Hall t (or_introl eq_refl)) as Et. subst t. exists []. split; [reflexivity|]. split; [reflexivity|].
    intros i d Hi. destruct (nth_in_or_default i (dflt :: srcs) dflt) as [Hin|Hd].
    + rewrite (Hall _ Hin). reflexivity.
    + rewrite Hd. reflexivity.
  - destruct (pull_round_step N srcs HF) as [[row [Hr [Hok Hnth]]]|[Hs [c Hr]]].
    + simpl C12.lockstep. rewrite Hr.
      assert (Hne' : tails srcs <> []). { destruct srcs; [congruence|discriminate]. }
      specialize (IH (tails srcs) f Hne' ltac:(lia) Hok). rewrite stops_tails in IH.
      destruct (forallb stops srcs).
      * destruct IH as [rows [Hl [Hlen Hcol]]]. rewrite Hl. exists (row :: rows). split; [reflexivity|].
        split; [simpl; lia|]. intros i d Hi. unfold column in *. simpl. rewrite Hcol.
        -- apply Hnth. exact Hi.
        -- unfold tails. rewrite map_length. exact Hi.
      * destruct IH as [c Hl]. rewrite Hl. exists c. reflexivity.
    + rewrite Hs. exists c. simpl. rewrite Hr. reflexivity.
Qed.
End ZipAll.

(* ---- zip(ms.s1, ..., ms.sm, ms.lengths) over any number m >= 0 of repaired SynchedStreams of one MultiStream ---- *)

Lemma table_src_early order gs : NoDup order -> NoDup (map fst gs) -> order <> [] ->
  early_ok item (length order) (table_src (synched_fol bname zlist_eqb ids [] order gs))
  /\ stops item (table_src (synched_fol bname zlist_eqb ids [] order gs)) = spec_some order gs
  /\ match spec_sync bname zlist_eqb ids [] order [] gs with
     | Some a => fst (table_src (synched_fol bname zlist_eqb ids [] order gs)) = map ITable a
     | None => True end.
Proof.
  intros Ho Hg H0. pose proof (synched_fol_early bname zlist_eqb zlist_eqb_eq ids [] order gs Ho Hg H0) as H.
  unfold spec_some. destruct (spec_sync bname zlist_eqb ids [] order [] gs) as [a|] eqn:Es; simpl in H.
  - rewrite H. unfold table_src, stops. simpl. split; [|split; reflexivity].
    left. split; [reflexivity|]. simpl. rewrite map_length. eapply spec_sync_length. exact Es.
  - destruct H as [ys [c [-> Hl]]]. unfold table_src, stops. simpl. split; [|split; [reflexivity|exact I]].
    right. exists c. split; [reflexivity|]. simpl. rewrite map_length. exact Hl.
Qed.

Theorem multistream_zip_all (order : list bname) (gss : list (list (bname * ids))) (sizes : list Z) :
  NoDup order -> order <> [] -> Forall (fun gs => NoDup (map fst gs)) gss -> length sizes = length order ->
  if forallb (spec_some order) gss
  then exists rows, lockstep item (S (length order)) (zip_all_sources order gss sizes) = Done rows
         /\ length rows = length order
         /\ forall i gs, nth_error gss i = Some gs ->
              exists a, spec_sync bname zlist_eqb ids [] order [] gs = Some a /\ column (ISize 0) i rows = map ITable a
  else exists c, lockstep item (S (length order)) (zip_all_sources order gss sizes) = Err c.
Proof.
  intros Ho H0 Hg Hs. unfold zip_all_sources.
  change (synched_head order) with (synched_fol bname zlist_eqb ids [] order).
  set (src := fun gs => table_src (synched_fol bname zlist_eqb ids [] order gs)).
  set (last := (map ISize sizes, Stop) : trace item).
  assert (HF : Forall (early_ok item (length order)) (map src gss ++ [last])).
  { apply Forall_app. split.
    - rewrite Forall_forall in *. intros t Ht. apply in_map_iff in Ht. destruct Ht as [gs [<- Hin]].
      apply (table_src_early order gs Ho (Hg gs Hin) H0).
    - constructor; [|constructor]. left. split; [reflexivity|]. unfold last. simpl. rewrite map_length. exact Hs. }
  assert (Hst : forallb (stops item) (map src gss ++ [last]) = forallb (spec_some order) gss).
  { rewrite forallb_app. simpl. rewrite andb_true_r. clear HF. induction gss as [|gs gss IH]; [reflexivity|].
    inversion Hg; subst. simpl. rewrite IH by assumption. f_equal.
    apply (table_src_early order gs Ho); assumption. }
  pose proof (lockstep_all item (length order) (map src gss ++ [last]) (S (length order))
                ltac:(destruct (map src gss); discriminate) ltac:(lia) HF) as H.
  rewrite Hst in H. destruct (forallb (spec_some order) gss) eqn:Eall; [|exact H].
  destruct H as [rows [Hl [Hlen Hcol]]]. exists rows. split; [exact Hl|]. split; [exact Hlen|].
  intros i gs Hi.
  assert (Hin : In gs gss) by (eapply nth_error_In; exact Hi).
  assert (Hlt : (i < length gss)%nat) by (apply nth_error_Some; congruence).
  rewrite forallb_forall in Eall. specialize (Eall gs Hin). unfold spec_some in Eall.
  rewrite Forall_forall in Hg.
  destruct (table_src_early order gs Ho (Hg gs Hin) H0) as [_ [_ Hfst]].
  destruct (spec_sync bname zlist_eqb ids [] order [] gs) as [a|]; [|discriminate]. exists a. split; [reflexivity|].
  rewrite (Hcol i (ISize 0)) by (rewrite app_length, map_length; simpl; lia).
  rewrite app_nth1 by (rewrite map_length; exact Hlt).
  rewrite (nth_indep _ (dflt item) (src gs)) by (rewrite map_length; exact Hlt).
  rewrite map_nth. rewrite (nth_error_nth _ _ _ Hi). exact Hfst.
Qed.

(* Proofs/C18_errors.v — malformed integer texts: the repaired str_to_int (notes/C18.fix-3.diff) accepts exactly the
   texts the Spec gives a value to, and reports the first other row; valid batches never raise (both variants). *)
From Coq Require Import ZArith List Bool Lia.
From BNP Require Import Base.Prims Base.PrimsFacts Model.C18 Proofs.C18_power Proofs.C18_int.
Import ListNotations.
Open Scope Z_scope.

Lemma find_index_none {A} (p : A -> bool) : forall l i, find_index p l i = None <-> forallb (fun x => negb (p x)) l = true.
Proof.
  induction l as [|x l IH]; intros i; cbn [find_index forallb]; [tauto|].
  destruct (p x); cbn [negb andb]; [split; discriminate|apply IH].
Qed.
Lemma find_index_ext {A} (p q : A -> bool) : (forall x, p x = q x) -> forall l i, find_index p l i = find_index q l i.
Proof. intros H. induction l as [|x l IH]; intros i; [reflexivity|]. cbn [find_index]. rewrite H, IH. reflexivity. Qed.
Lemma digit_code_is_digit c : (match digit_code c with None => true | Some _ => false end) = negb (is_digit c).
Proof. unfold digit_code, is_digit. destruct ((48 <=? c) && (c <=? 57)); reflexivity. Qed.
Lemma first_bad_char_none ts : first_bad_char ts = None <-> forallb is_digit (concat ts) = true.
Proof.
  unfold first_bad_char. rewrite find_index_none.
  assert (E : forall l, forallb (fun x => negb (match digit_code x with None => true | Some _ => false end)) l = forallb is_digit l).
  { induction l as [|x l IH]; [reflexivity|]. cbn [forallb]. rewrite digit_code_is_digit, negb_involutive, IH. reflexivity. }
  rewrite E. tauto.
Qed.

(* a text passes the repaired checks iff the Spec gives it a value *)
Theorem int_text_ok_iff t : int_text_ok t = true <-> exists v, text_value t = Some v.
Proof.
  split.
  - unfold int_text_ok. intros H. apply andb_true_iff in H. destruct H as [H Hc].
    apply andb_true_iff in H. destruct H as [He Hs].
    destruct (first_bad_char [strip_sign t]) eqn:F; [discriminate|].
    apply first_bad_char_none in F. cbn [concat] in F. rewrite app_nil_r in F.
    destruct t as [|c r]; [discriminate|].
    unfold strip_sign, sign_only, signed, head_is, text_value, digits_value in *.
    destruct ((c =? 45) || (c =? 43)) eqn:Sg.
    + cbn [set_head forallb] in F. apply andb_true_iff in F. destruct F as [_ F].
      destruct r as [|d r']; [cbn in Hs; discriminate|].
      apply orb_true_iff in Sg. destruct Sg as [S|S].
      * rewrite S. rewrite F. eexists. reflexivity.
      * destruct (Z.eqb_spec c 45); [eexists; rewrite F; reflexivity|]. rewrite S, F. eexists. reflexivity.
    + apply orb_false_iff in Sg. destruct Sg as [S1 S2]. rewrite S1, S2, F. eexists. reflexivity.
  - intros [v Hv]. pose proof (text_value_strip t v Hv) as [Hl [Hd [Hl2 _]]].
    unfold int_text_ok. destruct t as [|c r]; [discriminate|].
    assert (E1 : is_empty (c :: r) = false).
    { unfold is_empty. rewrite len_cons. pose proof (len_nonneg r). apply Z.eqb_neq. lia. }
    assert (E3 : first_bad_char [strip_sign (c :: r)] = None).
    { apply first_bad_char_none. cbn [concat]. rewrite app_nil_r. exact Hd. }
    rewrite E1, E3. cbn [negb andb]. rewrite andb_true_r. apply negb_true_iff.
    unfold sign_only, signed, head_is. destruct ((c =? 45) || (c =? 43)) eqn:Sg; [|reflexivity].
    cbn [andb]. apply Z.eqb_neq. rewrite len_cons. intros E.
    assert (r = []) by (destruct r; [reflexivity|rewrite len_cons in E; pose proof (len_nonneg r); lia]). subst r.
    unfold text_value, digits_value in Hv. apply orb_true_iff in Sg. destruct Sg as [S|S].
    + rewrite S in Hv. discriminate.
    + destruct (c =? 45); [discriminate|]. rewrite S in Hv. discriminate.
Qed.
(* so the repaired str_to_int raises exactly on the batches with a malformed row, at the FIRST malformed row, and
   returns the values otherwise *)
Definition no_value (t : list Z) : bool := match text_value t with None => true | Some _ => false end.
Lemma int_text_ok_no_value t : negb (int_text_ok t) = no_value t.
Proof.
  unfold no_value. destruct (int_text_ok t) eqn:E.
  - apply int_text_ok_iff in E. destruct E as [v Hv]. rewrite Hv. reflexivity.
  - destruct (text_value t) eqn:V; [|reflexivity].
    assert (int_text_ok t = true) by (apply int_text_ok_iff; eexists; exact V). congruence.
Qed.
Theorem str_to_int_fixed_first_malformed texts :
  str_to_int_res_fixed texts
  = match find_index no_value texts 0 with
    | Some r => PEnc r
    | None => match str_to_int_rows texts with Some vs => POk vs | None => POther end
    end.
Proof. unfold str_to_int_res_fixed. rewrite (find_index_ext _ no_value int_text_ok_no_value). reflexivity. Qed.
Theorem str_to_int_fixed_valid texts vs :
  Forall2 (fun t v => text_value t = Some v /\ int64 v) texts vs -> str_to_int_res_fixed texts = POk vs.
Proof.
  intros F. rewrite str_to_int_fixed_first_malformed.
  assert (N : find_index no_value texts 0 = None).
  { apply find_index_none. clear - F. induction F as [|t v ts vs [Hv _] _ IH]; [reflexivity|].
    cbn [forallb]. unfold no_value at 1. rewrite Hv. exact IH. }
  rewrite N, (str_to_int_exact texts vs F). reflexivity.
Qed.
(* the code as it is now: valid batches never raise either ... *)
Theorem str_to_int_res_valid texts vs :
  Forall2 (fun t v => text_value t = Some v /\ int64 v) texts vs -> str_to_int_res texts = POk vs.
Proof.
  intros F. unfold str_to_int_res. destruct texts as [|t0 ts0] eqn:E; [inversion F; reflexivity|]. rewrite <- E in *.
  assert (A : forall t, In t texts -> int_text_ok t = true).
  { clear - F. induction F as [|t v ts vs [Hv _] _ IH]; intros x Hin; [contradiction|].
    destruct Hin as [<-|Hin]; [apply int_text_ok_iff; eexists; exact Hv|auto]. }
  assert (E1 : existsb is_empty texts = false).
  { destruct (existsb is_empty texts) eqn:X; [|reflexivity]. apply existsb_exists in X. destruct X as [t [Hin He]].
    specialize (A t Hin). unfold int_text_ok in A. rewrite He in A. discriminate. }
  assert (E2 : find_index sign_only texts 0 = None).
  { apply find_index_none. apply forallb_forall. intros t Hin. specialize (A t Hin). unfold int_text_ok in A.
    apply andb_true_iff in A. destruct A as [A _]. apply andb_true_iff in A. tauto. }
  assert (E3 : first_bad_char (map strip_sign texts) = None).
  { apply first_bad_char_none. apply forallb_forall. intros c Hc. apply in_concat in Hc. destruct Hc as [l [Hl Hc]].
    apply in_map_iff in Hl. destruct Hl as [t [<- Hin]]. specialize (A t Hin). unfold int_text_ok in A.
    apply andb_true_iff in A. destruct A as [_ A]. destruct (first_bad_char [strip_sign t]) eqn:Fb; [discriminate|].
    apply first_bad_char_none in Fb. cbn [concat] in Fb. rewrite app_nil_r in Fb.
    rewrite forallb_forall in Fb. apply Fb. exact Hc. }
  rewrite E1, E2, E3, (str_to_int_exact texts vs F). reflexivity.
Qed.

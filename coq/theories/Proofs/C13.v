(* Proofs/C13.v — lemmas and main proofs for C13 (sliding windows are row-local). *)
From Coq Require Import ZArith List Bool Lia Arith.
From BNP Require Import Base.Prims.
From BNP Require Import Base.PrimsFacts.
From BNP Require Import Model.C13.
Import ListNotations.
Open Scope Z_scope.

(* ------------------------------------------------------------------ windows of one list *)
Lemma windows_short (w : nat) l : (length l < w)%nat -> windows w l = [].
Proof.
  destruct l as [|x r]; [reflexivity|]. intros H. cbn [windows].
  destruct (Nat.leb_spec w (length (x :: r))); [lia|reflexivity].
Qed.

Lemma windows_cons_ge (w : nat) x r : (w <= S (length r))%nat ->
  windows w (x :: r) = firstn w (x :: r) :: windows w r.
Proof.
  intros H. cbn [windows]. cbn [length].
  destruct (Nat.leb_spec w (S (length r))); [reflexivity|lia].
Qed.

Lemma windows_In_length (w : nat) l x : In x (windows w l) -> length x = w.
Proof.
  induction l as [|a r IH]; [intros []|].
  destruct (Nat.le_gt_cases w (S (length r))) as [Hle|Hgt].
  - rewrite windows_cons_ge by exact Hle. intros [<-|Hin]; [|exact (IH Hin)].
    rewrite firstn_length. cbn [length]. lia.
  - rewrite windows_short by (cbn [length]; lia). intros [].
Qed.

Lemma windows_length (w : nat) l : (1 <= w)%nat -> length (windows w l) = (S (length l) - w)%nat.
Proof.
  intros Hw. induction l as [|a r IH]; [cbn [windows length]; lia|].
  destruct (Nat.le_gt_cases w (S (length r))) as [Hle|Hgt].
  - rewrite windows_cons_ge by exact Hle. cbn [length]. rewrite IH. lia.
  - rewrite windows_short by (cbn [length]; lia). cbn [length]. lia.
Qed.

(* the windows that start after a prefix are the windows of the rest: nothing leaks backwards *)
Lemma windows_app_skip (w : nat) a b : (1 <= w)%nat ->
  skipn (length a) (windows w (a ++ b)) = windows w b.
Proof.
  intros Hw. induction a as [|x a IH]; [reflexivity|].
  cbn [app]. destruct (Nat.le_gt_cases w (S (length (a ++ b)))) as [Hle|Hgt].
  - rewrite windows_cons_ge by exact Hle. cbn [length skipn]. exact IH.
  - rewrite windows_short by (cbn [length]; lia).
    rewrite windows_short; [apply skipn_nil|]. rewrite app_length in Hgt. lia.
Qed.

(* the first |a|-w+1 windows of a ++ b are the windows of a: nothing leaks forwards *)
Lemma windows_app_first (w : nat) a b : (1 <= w)%nat ->
  firstn (S (length a) - w) (windows w (a ++ b)) = windows w a.
Proof.
  intros Hw. induction a as [|x a IH].
  - cbn [length]. replace (1 - w)%nat with 0%nat by lia. reflexivity.
  - destruct (Nat.le_gt_cases w (S (length a))) as [Hle|Hgt].
    + cbn [app]. rewrite windows_cons_ge by (rewrite app_length; lia).
      rewrite windows_cons_ge by exact Hle.
      cbn [length]. replace (S (S (length a)) - w)%nat with (S (S (length a) - w)) by lia.
      cbn [firstn]. f_equal; [|exact IH].
      change (x :: a ++ b) with ((x :: a) ++ b). rewrite firstn_app.
      replace (w - length (x :: a))%nat with 0%nat by (cbn [length]; lia).
      cbn [firstn]. apply app_nil_r.
    + rewrite (windows_short w (x :: a)) by (cbn [length]; lia).
      cbn [length]. replace (S (S (length a)) - w)%nat with 0%nat by lia. reflexivity.
Qed.

Lemma windows_middle (w : nat) a r b : (1 <= w)%nat ->
  firstn (S (length r) - w) (skipn (length a) (windows w (a ++ r ++ b))) = windows w r.
Proof. intros Hw. rewrite windows_app_skip by exact Hw. apply windows_app_first; exact Hw. Qed.

(* ------------------------------------------------------------------ slices *)
Lemma slice_map {A B} (f : A -> B) a b (l : list A) : slice a b (map f l) = map f (slice a b l).
Proof. unfold slice. rewrite <- firstn_map, <- skipn_map. reflexivity. Qed.

(* the number of columns the code keeps is the number of windows of the row *)
Definition keeps_windows (stop : option Z) (w : nat) : Prop :=
  forall L : nat, trim_len stop (Z.of_nat L) = Z.of_nat (S L - w).

Lemma keeps_fixed (w : Z) : 1 <= w -> keeps_windows (stop_fixed w) (Z.to_nat w).
Proof.
  intros Hw L. unfold stop_fixed, trim_len.
  destruct (Z.eqb_spec (- w + 1) 0) as [E|E].
  - replace (Z.to_nat w) with 1%nat by lia. lia.
  - destruct (Z.ltb_spec (- w + 1) 0); lia.
Qed.

Lemma keeps_pinned (w : Z) : 2 <= w -> keeps_windows (stop_pinned w) (Z.to_nat w).
Proof.
  intros Hw L. unfold stop_pinned, trim_len. destruct (Z.ltb_spec (- w + 1) 0); lia.
Qed.

(* ------------------------------------------------------------------ T1: re-wrapping is row-local *)
Lemma rewrap_rows {B} (f : list Z -> B) stop (w : nat) : (1 <= w)%nat -> keeps_windows stop w ->
  forall rows pre,
    rewrap_trim stop (len pre) (map len rows) (map f (windows w (pre ++ concat rows))) = per_row f w rows.
Proof.
  intros Hw Hk rows. induction rows as [|r rs IH]; intros pre; [reflexivity|].
  cbn [map rewrap_trim concat per_row]. f_equal.
  - rewrite slice_map. f_equal. unfold slice, len.
    rewrite Hk. replace (Z.of_nat (length pre) + Z.of_nat (S (length r) - w) - Z.of_nat (length pre))
      with (Z.of_nat (S (length r) - w)) by lia.
    rewrite !Nat2Z.id. apply windows_middle; exact Hw.
  - specialize (IH (pre ++ r)). rewrite len_app in IH. rewrite <- app_assoc in IH. exact IH.
Qed.

Lemma rolling_with_row_local {B} (stopf : Z -> option Z) (f : list Z -> B) (w : Z) rows :
  1 <= w -> keeps_windows (stopf w) (Z.to_nat w) ->
  rolling_with stopf f w rows = per_row f (Z.to_nat w) rows.
Proof.
  intros Hw Hk. unfold rolling_with.
  exact (rewrap_rows f (stopf w) (Z.to_nat w) ltac:(lia) Hk rows []).
Qed.

Theorem rolling_row_local_fixed {B} (f : list Z -> B) (w : Z) rows : 1 <= w ->
  rolling_with stop_fixed f w rows = per_row f (Z.to_nat w) rows.
Proof. intros Hw. apply rolling_with_row_local; [exact Hw|apply keeps_fixed; exact Hw]. Qed.

Theorem rolling_row_local_pinned {B} (f : list Z -> B) (w : Z) rows : 2 <= w ->
  rolling_with stop_pinned f w rows = per_row f (Z.to_nat w) rows.
Proof. intros Hw. apply rolling_with_row_local; [lia|apply keeps_pinned; exact Hw]. Qed.

(* window 1 with the pinned slice: every row comes back empty, whatever f is *)
Lemma rewrap_pinned_w1 {B} (flat : list B) lens off : Forall (fun L => 0 <= L) lens ->
  rewrap_trim (stop_pinned 1) off lens flat = map (fun _ => []) lens.
Proof.
  intros H. revert off. induction H as [|L r HL _ IH]; intros off; [reflexivity|].
  cbn [rewrap_trim map]. f_equal; [|apply IH].
  unfold stop_pinned, trim_len. cbn. replace (Z.min L 0) with 0 by lia. apply slice_empty. lia.
Qed.

Theorem rolling_pinned_w1_empty {B} (f : list Z -> B) rows :
  rolling_with stop_pinned f 1 rows = map (fun _ => []) rows.
Proof.
  unfold rolling_with. rewrite rewrap_pinned_w1.
  - rewrite map_map. reflexivity.
  - apply Forall_forall. intros L HL. apply in_map_iff in HL. destruct HL as [r [<- _]]. apply len_nonneg.
Qed.

(* ------------------------------------------------------------------ T2: the k-mer code is little-endian *)
Lemma dot_powers_from n win s : 0 <= s ->
  dot win (map (Z.pow n) (arange_from s (length win))) = n ^ s * le_value n win.
Proof.
  revert s. induction win as [|x r IH]; intros s Hs; [cbn; lia|].
  cbn [length arange_from map dot le_value]. rewrite IH by lia.
  rewrite Z.pow_add_r by lia. rewrite Z.pow_1_r. ring.
Qed.

Theorem hash_generic_le n win : hash_generic n (len win) win = le_value n win.
Proof.
  unfold hash_generic, powers, arange, len. rewrite Nat2Z.id.
  rewrite dot_powers_from by lia. rewrite Z.pow_0_r. ring.
Qed.

Definition letters_ok (n : Z) (l : list Z) : Prop := Forall (fun x => 0 <= x < n) l.

Lemma le_value_bound n l : 1 <= n -> letters_ok n l -> 0 <= le_value n l < n ^ len l.
Proof.
  intros Hn H. induction H as [|x r Hx _ IH]; [cbn; lia|].
  cbn [le_value]. rewrite len_cons. rewrite Z.pow_add_r by (try lia; apply len_nonneg).
  rewrite Z.pow_1_r. nia.
Qed.

Lemma map_arange_shift {B} (f : Z -> B) s m :
  map f (arange_from (s + 1) m) = map (fun p => f (p + 1)) (arange_from s m).
Proof. revert s. induction m as [|m IH]; intros s; [reflexivity|]. cbn [arange_from map]. f_equal. apply IH. Qed.

(* digits of a code: position j holds (h / n^j) mod n *)
Definition digits (n k h : Z) : list Z := map (fun j => (h / n ^ j) mod n) (arange k).

Lemma digits_le_value n win : 2 <= n -> letters_ok n win -> digits n (len win) (le_value n win) = win.
Proof.
  intros Hn H. unfold digits, arange, len. rewrite Nat2Z.id.
  induction H as [|x r Hx Hr IH]; [reflexivity|].
  cbn [length arange_from map le_value]. f_equal.
  - rewrite Z.pow_0_r, Z.div_1_r. rewrite (Z.mul_comm n), Z_mod_plus_full. apply Z.mod_small. exact Hx.
  - change 1 with (0 + 1) at 1. rewrite map_arange_shift. rewrite <- IH at 2.
    apply map_ext_in. intros j Hj. apply In_arange_from in Hj.
    rewrite Z.pow_add_r by lia. rewrite Z.pow_1_r.
    rewrite (Z.mul_comm (n ^ j) n). rewrite <- Z.div_div by (try lia; apply Z.pow_pos_nonneg; lia).
    f_equal. f_equal. rewrite (Z.mul_comm n), Z.div_add by lia. rewrite (Z.div_small x n) by lia. lia.
Qed.

Lemma decode_kmer_digits n k h : 0 <= h -> decode_kmer n k h = digits n k h.
Proof.
  intros Hh. unfold decode_kmer, digits, powers.
  destruct (Z.eqb_spec n 4) as [->|Hn].
  - apply map_ext_in. intros j Hj. apply In_arange in Hj.
    rewrite Z.shiftr_div_pow2 by lia. change 3 with (Z.ones 2). rewrite Z.land_ones by lia.
    rewrite Z.pow_mul_r by lia. reflexivity.
  - rewrite map_map. reflexivity.
Qed.

Theorem decode_encode n win : 2 <= n -> letters_ok n win ->
  decode_kmer n (len win) (encode_kmer n (len win) win) = win.
Proof.
  intros Hn H. unfold encode_kmer. fold (hash_generic n (len win) win). rewrite hash_generic_le.
  rewrite decode_kmer_digits by (apply le_value_bound; [lia|exact H]).
  apply digits_le_value; assumption.
Qed.

Theorem to_string_encode alpha n win : 2 <= n -> letters_ok n win ->
  to_string alpha n (len win) (encode_kmer n (len win) win) = text_of alpha win.
Proof. intros Hn H. unfold to_string. rewrite decode_encode by assumption. reflexivity. Qed.

(* ------------------------------------------------------------------ T4: the individual functions *)
Lemma per_row_ext {B} (f g : list Z -> B) (w : nat) rows :
  (forall win, length win = w -> f win = g win) -> per_row f w rows = per_row g w rows.
Proof.
  intros H. unfold per_row. apply map_ext. intros r. apply map_ext_in. intros win Hin.
  apply H. exact (windows_In_length w r win Hin).
Qed.

Lemma hash_generic_le_k n k win : 0 <= k -> length win = Z.to_nat k -> hash_generic n k win = le_value n win.
Proof. intros Hk H. replace k with (len win) by (unfold len; lia). apply hash_generic_le. Qed.

(* generic (non bit-packed) k-mers *)
Lemma kmers_generic_row_local stopf n k rows : 1 <= k -> keeps_windows (stopf k) (Z.to_nat k) ->
  rolling_with stopf (hash_generic n k) k rows = spec_kmers n (Z.to_nat k) rows.
Proof.
  intros Hk Hkeep. rewrite rolling_with_row_local by assumption.
  apply per_row_ext. intros win Hw. apply hash_generic_le_k; [lia|exact Hw].
Qed.

(* string matching *)
Lemma match_string_row_local stopf pat rows : 1 <= len pat -> keeps_windows (stopf (len pat)) (length pat) ->
  match_string_with stopf pat rows = spec_match pat rows.
Proof.
  intros Hp Hkeep. unfold match_string_with, spec_match.
  rewrite rolling_with_row_local; unfold len in *; rewrite ?Nat2Z.id; try assumption. reflexivity.
Qed.

(* minimizers *)
Lemma existsb_nil_map {A} (g : A -> list Z) l : (forall x, In x l -> g x <> []) ->
  existsb (fun r => match r with [] => true | _ => false end) (map g l) = false.
Proof.
  intros H. induction l as [|x l IH]; [reflexivity|]. cbn [map existsb].
  rewrite IH by (intros y Hy; apply H; right; exact Hy).
  specialize (H x (or_introl eq_refl)). destruct (g x); [contradiction|reflexivity].
Qed.

Lemma minimizers_row_local stopf n k W rows :
  1 <= k -> k <= W -> W <= len (concat rows) ->
  keeps_windows (stopf k) (Z.to_nat k) -> keeps_windows (stopf W) (Z.to_nat W) ->
  get_minimizers_with stopf n k W rows = Some (spec_minimizers n (Z.to_nat k) (Z.to_nat W) rows).
Proof.
  intros Hk HkW HW Kk KW. unfold get_minimizers_with.
  rewrite kmers_generic_row_local by assumption.
  unfold spec_kmers, per_row.
  set (g := fun r : list Z => map (le_value n) (windows (Z.to_nat k) r)).
  set (wins := windows (Z.to_nat W) (concat rows)).
  assert (Hne : forall x, In x wins -> g x <> []).
  { intros x Hx. apply windows_In_length in Hx. unfold g. intros E.
    apply (f_equal (@length Z)) in E. rewrite map_length, windows_length in E by lia. cbn [length] in E. lia. }
  assert (Hw : wins <> []).
  { intros E. apply (f_equal (@length (list Z))) in E. unfold wins in E.
    rewrite windows_length in E by lia. unfold len in HW. cbn [length] in E. lia. }
  rewrite existsb_nil_map by exact Hne.
  destruct (map g wins) eqn:E; [destruct wins; [contradiction|discriminate]|]. rewrite <- E.
  f_equal. rewrite map_map. unfold wins.
  change (rewrap_trim (stopf W) 0 (map len rows) (map (fun x => min_list (g x)) (windows (Z.to_nat W) (concat rows))))
    with (rolling_with stopf (fun x => min_list (g x)) W rows).
  rewrite rolling_with_row_local by (try assumption; lia). reflexivity.
Qed.

(* motif scores: shifted accumulation over the flat data *)
Fixpoint tails (s : list Z) : list (list Z) :=
  match s with [] => [] | x :: r => (x :: r) :: tails r end.

Lemma tails_length s : length (tails s) = length s.
Proof. induction s; cbn [tails length]; congruence. Qed.

Lemma add_prefix_nil a : add_prefix a [] = a.
Proof. destruct a; reflexivity. Qed.

Lemma add_prefix_assoc a b c : (length c <= length b)%nat ->
  add_prefix (add_prefix a b) c = add_prefix a (add_prefix b c).
Proof.
  revert b c. induction a as [|x a IH]; intros b c H; [reflexivity|].
  destruct b as [|y b]; [destruct c; [reflexivity|cbn in H; lia]|].
  destruct c as [|z c]; [reflexivity|].
  cbn [add_prefix]. rewrite IH by (cbn in H; lia). f_equal. ring.
Qed.

Lemma add_prefix_zeros b : add_prefix (repeat 0 (length b)) b = b.
Proof. induction b as [|y b IH]; [reflexivity|]. cbn [length repeat add_prefix]. rewrite IH. reflexivity. Qed.

Lemma add_prefix_zeros_r a (B : list (list Z)) : add_prefix a (map (score []) B) = a.
Proof.
  revert B. induction a as [|x a IH]; intros B; [reflexivity|].
  destruct B as [|t B]; [reflexivity|]. cbn [map add_prefix]. rewrite IH.
  replace (score [] t) with 0 by (destruct t; reflexivity). f_equal. ring.
Qed.

Lemma score_tails_step c cs r x :
  add_prefix (map (nthZ c) (x :: r)) (map (score cs) (tails r)) = map (score (c :: cs)) (tails (x :: r)).
Proof.
  revert x. induction r as [|y r IH]; intros x.
  - cbn. destruct cs; cbn; f_equal; ring.
  - specialize (IH y). cbn [tails map add_prefix] in *. rewrite IH. reflexivity.
Qed.

Lemma pwm_acc_tails cols : forall s scores,
  pwm_acc cols s scores = add_prefix scores (map (score cols) (tails s)).
Proof.
  induction cols as [|c cs IH]; intros s scores.
  - cbn [pwm_acc]. symmetry. apply add_prefix_zeros_r.
  - cbn [pwm_acc]. rewrite IH. destruct s as [|x r].
    + cbn. rewrite !add_prefix_nil. reflexivity.
    + cbn [tl]. rewrite add_prefix_assoc by (rewrite !map_length, tails_length; cbn; lia).
      rewrite score_tails_step. reflexivity.
Qed.

Lemma motif_flat_tails cols flat : motif_flat cols flat = map (score cols) (tails flat).
Proof.
  unfold motif_flat. rewrite pwm_acc_tails.
  rewrite <- (tails_length flat), <- (map_length (score cols)). apply add_prefix_zeros.
Qed.

Lemma score_firstn cols : forall t, score cols t = score cols (firstn (length cols) t).
Proof.
  induction cols as [|c cs IH]; intros t; [destruct t; reflexivity|].
  destruct t as [|x t]; [reflexivity|]. cbn [length firstn score]. rewrite <- IH. reflexivity.
Qed.

Lemma tails_app_skip a b : skipn (length a) (tails (a ++ b)) = tails b.
Proof. induction a as [|x a IH]; [reflexivity|]. cbn [app tails length skipn]. exact IH. Qed.

Lemma tails_app_first {B} (g : list Z -> B) (w : nat) a b : (1 <= w)%nat ->
  (forall t, g t = g (firstn w t)) ->
  map g (firstn (S (length a) - w) (tails (a ++ b))) = map g (windows w a).
Proof.
  intros Hw Hg. induction a as [|x a IH].
  - cbn [length]. replace (1 - w)%nat with 0%nat by lia. reflexivity.
  - destruct (Nat.le_gt_cases w (S (length a))) as [Hle|Hgt].
    + rewrite windows_cons_ge by exact Hle.
      cbn [length]. replace (S (S (length a)) - w)%nat with (S (S (length a) - w)) by lia.
      cbn [app tails firstn map]. f_equal; [|exact IH].
      rewrite Hg. rewrite (Hg (firstn w (x :: a))). f_equal.
      change (x :: a ++ b) with ((x :: a) ++ b). rewrite firstn_app.
      replace (w - length (x :: a))%nat with 0%nat by (cbn [length]; lia).
      cbn [firstn]. rewrite app_nil_r. rewrite firstn_firstn. f_equal. lia.
    + rewrite (windows_short w (x :: a)) by (cbn [length]; lia).
      cbn [length]. replace (S (S (length a)) - w)%nat with 0%nat by lia. reflexivity.
Qed.

Lemma rewrap_tails {B} (g : list Z -> B) stop (w : nat) : (1 <= w)%nat -> keeps_windows stop w ->
  (forall t, g t = g (firstn w t)) ->
  forall rows pre,
    rewrap_trim stop (len pre) (map len rows) (map g (tails (pre ++ concat rows))) = per_row g w rows.
Proof.
  intros Hw Hk Hg rows. induction rows as [|r rs IH]; intros pre; [reflexivity|].
  cbn [map rewrap_trim concat per_row]. f_equal.
  - unfold slice, len. rewrite Hk.
    replace (Z.of_nat (length pre) + Z.of_nat (S (length r) - w) - Z.of_nat (length pre))
      with (Z.of_nat (S (length r) - w)) by lia.
    rewrite !Nat2Z.id. rewrite skipn_map, firstn_map. rewrite tails_app_skip.
    apply tails_app_first; assumption.
  - specialize (IH (pre ++ r)). rewrite len_app in IH. rewrite <- app_assoc in IH. exact IH.
Qed.

Lemma motif_row_local stopf cols rows : 1 <= len cols -> keeps_windows (stopf (len cols)) (length cols) ->
  get_motif_scores_with stopf cols rows = spec_motif cols rows.
Proof.
  intros Hc Hk. unfold get_motif_scores_with, spec_motif. rewrite motif_flat_tails.
  apply (rewrap_tails (score cols) (stopf (len cols)) (length cols) ltac:(unfold len in Hc; lia) Hk (score_firstn cols) rows []).
Qed.

(* ------------------------------------------------------------------ T3: the bit-packed path (|A| = 4) *)
Lemma letters_ok_firstn n o l : letters_ok n l -> letters_ok n (firstn o l).
Proof. intros H. rewrite <- (firstn_skipn o l) in H. apply Forall_app in H. tauto. Qed.
Lemma letters_ok_skipn n o l : letters_ok n l -> letters_ok n (skipn o l).
Proof. intros H. rewrite <- (firstn_skipn o l) in H. apply Forall_app in H. tauto. Qed.

Lemma le_value_app n a b : le_value n (a ++ b) = le_value n a + n ^ len a * le_value n b.
Proof.
  induction a as [|x a IH]; [cbn [app le_value]; unfold len; cbn [length Z.of_nat]; rewrite Z.pow_0_r; ring|].
  cbn [app le_value]. rewrite IH, len_cons. rewrite Z.pow_add_r by (try lia; apply len_nonneg).
  rewrite Z.pow_1_r. ring.
Qed.

Lemma le_value_split n l (o : nat) : 2 <= n -> letters_ok n l ->
  le_value n l / n ^ Z.of_nat o = le_value n (skipn o l) /\ le_value n l mod n ^ Z.of_nat o = le_value n (firstn o l).
Proof.
  intros Hn H.
  assert (Hb := le_value_bound n (firstn o l) ltac:(lia) (letters_ok_firstn n o l H)).
  assert (Hp : 0 < n ^ Z.of_nat o) by (apply Z.pow_pos_nonneg; lia).
  destruct (Nat.le_gt_cases o (length l)) as [Hle|Hgt].
  - assert (E : len (firstn o l) = Z.of_nat o) by (rewrite len_firstn; unfold len; lia).
    rewrite <- (firstn_skipn o l) at 1 3. rewrite le_value_app, E in *.
    rewrite (Z.mul_comm (n ^ Z.of_nat o)). split.
    + rewrite Z.div_add by lia. rewrite Z.div_small by lia. lia.
    + rewrite Z_mod_plus_full. apply Z.mod_small. lia.
  - rewrite skipn_all2 by lia. rewrite firstn_all2 in * by lia.
    assert (n ^ len l <= n ^ Z.of_nat o) by (apply Z.pow_le_mono_r; unfold len; lia).
    split; [rewrite Z.div_small by lia; reflexivity|apply Z.mod_small; lia].
Qed.

Lemma lor_disjoint_add a b s : 0 <= s -> 0 <= a < 2 ^ s -> Z.lor a (b * 2 ^ s) = a + b * 2 ^ s.
Proof.
  intros Hs Ha.
  assert (E : Z.land a (b * 2 ^ s) = 0).
  { apply Z.bits_inj'. intros m Hm. rewrite Z.land_spec, Z.bits_0.
    destruct (Z.lt_ge_cases m s) as [Hlt|Hge].
    - rewrite Z.mul_pow2_bits_low by lia. apply andb_false_r.
    - destruct (Z.eq_dec a 0) as [->|Hne]; [rewrite Z.bits_0; reflexivity|].
      rewrite (Z.bits_above_log2 a m); [reflexivity|lia|].
      assert (Z.log2 a < s) by (apply Z.log2_lt_pow2; lia). lia. }
  rewrite Z.add_nocarry_lxor by exact E. symmetry. apply Z.lxor_lor. exact E.
Qed.

Lemma pow4 x : 0 <= x -> 4 ^ x = 2 ^ (2 * x).
Proof. intros H. rewrite Z.pow_mul_r by lia. reflexivity. Qed.

Lemma reg_from_value chunk : letters_ok 4 chunk -> forall i, 0 <= i ->
  reg_from i chunk = 4 ^ i * le_value 4 chunk.
Proof.
  intros H. induction H as [|x r Hx Hr IH]; intros i Hi; [cbn; lia|].
  cbn [reg_from le_value]. rewrite IH by lia. rewrite Z.shiftl_mul_pow2 by lia.
  assert (Hv := le_value_bound 4 r ltac:(lia) Hr).
  assert (P : 0 < 2 ^ (2 * i)) by (apply Z.pow_pos_nonneg; lia).
  assert (E4 : 4 ^ (i + 1) = 2 ^ (2 * i + 2)) by (rewrite pow4 by lia; f_equal; lia).
  assert (E4' : 4 ^ i = 2 ^ (2 * i)) by (apply pow4; lia).
  assert (E2 : 2 ^ (2 * i + 2) = 2 ^ (2 * i) * 4) by (rewrite Z.pow_add_r by lia; reflexivity).
  rewrite E4, E4', (Z.mul_comm (2 ^ (2 * i + 2))).
  rewrite lor_disjoint_add; [rewrite E2; ring|lia|rewrite E2; nia].
Qed.

Lemma nth_chunks {A} (n : nat) : (1 <= n)%nat -> forall j (l : list A),
  nth j (chunks_of n l) [] = firstn n (skipn (n * j) l).
Proof.
  intros Hn. induction j as [|j IH]; intros l.
  - destruct l as [|x l]; [rewrite chunks_of_nil, Nat.mul_0_r; destruct n; reflexivity|].
    rewrite chunks_of_cons by (try assumption; discriminate). rewrite Nat.mul_0_r. reflexivity.
  - destruct l as [|x l]; [rewrite chunks_of_nil, skipn_nil, firstn_nil; reflexivity|].
    rewrite chunks_of_cons by (try assumption; discriminate). cbn [nth]. rewrite IH.
    rewrite skipn_skipn'. f_equal. f_equal. lia.
Qed.

Lemma reg_value flat r : letters_ok 4 flat -> 0 <= r ->
  nthZ (pack_regs flat) r = (le_value 4 flat / 2 ^ (64 * r)) mod 2 ^ 64.
Proof.
  intros H Hr. unfold nthZ, pack_regs.
  change (nth (Z.to_nat r) (map (reg_from 0) (chunks_of 32 flat)) 0)
    with (nth (Z.to_nat r) (map (reg_from 0) (chunks_of 32 flat)) (reg_from 0 [])). rewrite map_nth. rewrite nth_chunks by lia.
  rewrite reg_from_value by (try lia; apply letters_ok_firstn, letters_ok_skipn; exact H).
  rewrite Z.pow_0_r, Z.mul_1_l.
  destruct (le_value_split 4 (skipn (32 * Z.to_nat r) flat) 32 ltac:(lia) (letters_ok_skipn 4 _ _ H)) as [_ <-].
  destruct (le_value_split 4 flat (32 * Z.to_nat r) ltac:(lia) H) as [<- _].
  rewrite !pow4 by lia. replace (2 * Z.of_nat (32 * Z.to_nat r)) with (64 * r) by lia. reflexivity.
Qed.

Lemma mask_ones k : 1 <= k <= 32 -> window_mask k = Z.ones (2 * k).
Proof.
  intros Hk. unfold window_mask. change (2 ^ 64 - 1) with (Z.ones 64).
  apply Z.bits_inj'. intros i Hi. rewrite Z.shiftr_spec by lia.
  rewrite !Z.testbit_ones_nonneg by lia.
  destruct (Z.ltb_spec (i + (64 - 2 * k)) 64), (Z.ltb_spec i (2 * k)); try reflexivity; lia.
Qed.

Lemma packed_core N r o k : 0 <= N -> 0 <= r -> 0 <= o < 32 -> 1 <= k <= 32 ->
  Z.land (Z.lor (Z.shiftr ((N / 2 ^ (64 * r)) mod 2 ^ 64) (2 * o))
                (u64 (Z.shiftl ((N / 2 ^ (64 * (r + 1))) mod 2 ^ 64) (64 - 2 * o))))
         (window_mask k)
  = (N / 2 ^ (2 * (32 * r + o))) mod 2 ^ (2 * k).
Proof.
  intros HN Hr Ho Hk. rewrite mask_ones by exact Hk. rewrite Z.land_ones by lia.
  apply Z.bits_inj'. intros i Hi.
  destruct (Z.lt_ge_cases i (2 * k)) as [Hlt|Hge];
    [|rewrite !Z.mod_pow2_bits_high by lia; reflexivity].
  rewrite !(Z.mod_pow2_bits_low _ (2 * k)) by lia.
  rewrite Z.lor_spec, Z.shiftr_spec by lia. unfold u64.
  rewrite (Z.div_pow2_bits N (2 * (32 * r + o))) by lia.
  destruct (Z.lt_ge_cases (i + 2 * o) 64) as [Hlo|Hhi].
  - rewrite (Z.mod_pow2_bits_low _ 64 (i + 2 * o)) by lia.
    rewrite Z.div_pow2_bits by lia.
    rewrite (Z.mod_pow2_bits_low _ 64 i) by lia.
    rewrite Z.shiftl_spec_low by lia. rewrite orb_false_r. f_equal. lia.
  - rewrite (Z.mod_pow2_bits_high _ 64 (i + 2 * o)) by lia.
    rewrite (Z.mod_pow2_bits_low _ 64 i) by lia.
    rewrite Z.shiftl_spec by lia.
    rewrite (Z.mod_pow2_bits_low _ 64) by lia.
    rewrite Z.div_pow2_bits by lia. cbn [orb]. f_equal. lia.
Qed.

Lemma packed_at_value flat k p : letters_ok 4 flat -> 1 <= k <= 32 -> 0 <= p ->
  packed_at (pack_regs flat) k p = le_value 4 (firstn (Z.to_nat k) (skipn (Z.to_nat p) flat)).
Proof.
  intros H Hk Hp. unfold packed_at.
  assert (Hr : 0 <= p / 32) by (apply Z.div_pos; lia).
  assert (Ho : 0 <= p mod 32 < 32) by (apply Z.mod_pos_bound; lia).
  assert (Hnext : (if p / 32 <? len (pack_regs flat) - 1
                   then u64 (Z.shiftl (nthZ (pack_regs flat) (p / 32 + 1)) (64 - 2 * (p mod 32))) else 0)
                  = u64 (Z.shiftl (nthZ (pack_regs flat) (p / 32 + 1)) (64 - 2 * (p mod 32)))).
  { destruct (Z.ltb_spec (p / 32) (len (pack_regs flat) - 1)) as [_|Hge]; [reflexivity|].
    unfold nthZ. rewrite nth_overflow by (unfold len in Hge; lia). rewrite Z.shiftl_0_l. reflexivity. }
  rewrite Hnext. rewrite !reg_value by (try assumption; lia).
  assert (HN := le_value_bound 4 flat ltac:(lia) H).
  rewrite packed_core by (try assumption; lia).
  replace (32 * (p / 32) + p mod 32) with p by (rewrite <- Z.div_mod; lia).
  destruct (le_value_split 4 flat (Z.to_nat p) ltac:(lia) H) as [E1 _].
  destruct (le_value_split 4 (skipn (Z.to_nat p) flat) (Z.to_nat k) ltac:(lia) (letters_ok_skipn 4 _ _ H)) as [_ E2].
  rewrite <- E2, <- E1. rewrite !pow4 by lia. f_equal; [f_equal|]; f_equal; lia.
Qed.

(* windows by position *)
Lemma windows_index {B} (g : list Z -> B) (w : nat) l : (1 <= w)%nat ->
  map g (windows w l) = map (fun p => g (firstn w (skipn (Z.to_nat p) l))) (arange_from 0 (S (length l) - w)).
Proof.
  intros Hw. induction l as [|x r IH].
  - cbn [length windows map]. replace (1 - w)%nat with 0%nat by lia. reflexivity.
  - destruct (Nat.le_gt_cases w (S (length r))) as [Hle|Hgt].
    + rewrite windows_cons_ge by exact Hle. cbn [length].
      replace (S (S (length r)) - w)%nat with (S (S (length r) - w)) by lia.
      cbn [arange_from map]. f_equal. rewrite IH. rewrite map_arange_shift.
      apply map_ext_in. intros p Hp. apply In_arange_from in Hp.
      replace (Z.to_nat (p + 1)) with (S (Z.to_nat p)) by lia. reflexivity.
    + rewrite windows_short by (cbn [length]; lia). cbn [length].
      replace (S (S (length r)) - w)%nat with 0%nat by lia. reflexivity.
Qed.

Theorem kmers_packed_value k flat : letters_ok 4 flat -> 1 <= k <= 32 ->
  kmers_packed k flat = map (le_value 4) (windows (Z.to_nat k) flat).
Proof.
  intros H Hk. unfold kmers_packed, arange. rewrite windows_index by lia.
  replace (Z.to_nat (len flat - k + 1)) with (S (length flat) - Z.to_nat k)%nat by (unfold len; lia).
  apply map_ext_in. intros p Hp. apply In_arange_from in Hp.
  apply packed_at_value; try assumption; lia.
Qed.

(* ------------------------------------------------------------------ get_kmers on both paths, counts *)
Definition kmer_domain (n k : Z) (rows : list (list Z)) : Prop :=
  n = 4 -> k <= 32 /\ letters_ok 4 (concat rows).

Lemma get_kmers_row_local stopf n k rows : 1 <= k -> keeps_windows (stopf k) (Z.to_nat k) ->
  kmer_domain n k rows -> get_kmers_with stopf n k rows = spec_kmers n (Z.to_nat k) rows.
Proof.
  intros Hk Hkeep Hd. unfold get_kmers_with. destruct (Z.eqb_spec n 4) as [E|E].
  - destruct (Hd E) as [Hk2 Hl]. subst n. rewrite kmers_packed_value by (try assumption; lia).
    exact (rewrap_rows (le_value 4) (stopf k) (Z.to_nat k) ltac:(lia) Hkeep rows []).
  - apply kmers_generic_row_local; assumption.
Qed.

Lemma count_flat_row_local stopf n k rows : 1 <= k -> keeps_windows (stopf k) (Z.to_nat k) ->
  kmer_domain n k rows ->
  count_kmers_flat_with stopf n k rows = bincount (n ^ k) (concat (spec_kmers n (Z.to_nat k) rows)).
Proof. intros. unfold count_kmers_flat_with. rewrite get_kmers_row_local by assumption. reflexivity. Qed.

Lemma count_rows_row_local stopf n k rows : 1 <= k -> keeps_windows (stopf k) (Z.to_nat k) ->
  kmer_domain n k rows ->
  count_kmers_rows_with stopf n k rows = map (bincount (n ^ k)) (spec_kmers n (Z.to_nat k) rows).
Proof. intros. unfold count_kmers_rows_with. rewrite get_kmers_row_local by assumption. reflexivity. Qed.

(* window 1 on the pinned code *)
Lemma get_kmers_pinned_w1 n rows : get_kmers_with stop_pinned n 1 rows = map (fun _ => []) rows.
Proof.
  unfold get_kmers_with. destruct (n =? 4); [|apply rolling_pinned_w1_empty].
  rewrite rewrap_pinned_w1; [rewrite map_map; reflexivity|].
  apply Forall_forall. intros L HL. apply in_map_iff in HL. destruct HL as [r [<- _]]. apply len_nonneg.
Qed.

Lemma minimizers_pinned_k1 n W rows : get_minimizers_with stop_pinned n 1 W rows = None.
Proof.
  unfold get_minimizers_with. rewrite rolling_pinned_w1_empty.
  destruct (windows (Z.to_nat W) (concat rows)); reflexivity.
Qed.

(* ------------------------------------------------------------------ every code below |A|^k is the code of its own label *)
Lemma digits_succ n (k : nat) h : 2 <= n -> 0 <= h ->
  digits n (Z.of_nat (S k)) h = (h mod n) :: digits n (Z.of_nat k) (h / n).
Proof.
  intros Hn Hh. unfold digits, arange. rewrite !Nat2Z.id. cbn [arange_from map]. f_equal.
  - rewrite Z.pow_0_r, Z.div_1_r. reflexivity.
  - rewrite map_arange_shift. apply map_ext_in. intros j Hj. apply In_arange_from in Hj.
    rewrite Z.pow_add_r by lia. rewrite Z.pow_1_r. rewrite (Z.mul_comm (n ^ j) n).
    rewrite <- Z.div_div by (try lia; apply Z.pow_pos_nonneg; lia). reflexivity.
Qed.

Lemma le_value_digits n (k : nat) : 2 <= n -> forall h, 0 <= h < n ^ Z.of_nat k ->
  le_value n (digits n (Z.of_nat k) h) = h /\ length (digits n (Z.of_nat k) h) = k
  /\ letters_ok n (digits n (Z.of_nat k) h).
Proof.
  intros Hn. induction k as [|k IH]; intros h Hh.
  - cbn in Hh. assert (h = 0) by lia. subst h. repeat split. constructor.
  - rewrite digits_succ by lia.
    assert (Hq : 0 <= h / n < n ^ Z.of_nat k).
    { split; [apply Z.div_pos; lia|]. apply Z.div_lt_upper_bound; [lia|].
      rewrite Nat2Z.inj_succ, Z.pow_succ_r in Hh by lia. lia. }
    destruct (IH (h / n) Hq) as [E1 [E2 E3]]. cbn [le_value length]. rewrite E1, E2.
    repeat split.
    + rewrite (Z.div_mod h n) at 3 by lia. lia.
    + constructor; [apply Z.mod_pos_bound; lia|exact E3].
Qed.

Theorem decode_kmer_value n k h : 2 <= n -> 0 <= k -> 0 <= h < n ^ k ->
  le_value n (decode_kmer n k h) = h /\ len (decode_kmer n k h) = k /\ letters_ok n (decode_kmer n k h).
Proof.
  intros Hn Hk Hh. rewrite decode_kmer_digits by lia.
  rewrite <- (Z2Nat.id k) in * by lia.
  destruct (le_value_digits n (Z.to_nat k) Hn h Hh) as [E1 [E2 E3]].
  repeat split; [exact E1| |exact E3]. unfold len. rewrite E2. reflexivity.
Qed.

(* ------------------------------------------------------------------ the statements exported to Props/C13.v *)
Lemma one_le_of_two k : 2 <= k -> 1 <= k. Proof. lia. Qed.

Lemma keeps_fixed_len {A} (l : list A) : 1 <= len l -> keeps_windows (stop_fixed (len l)) (length l).
Proof. intros H. generalize (keeps_fixed (len l) H). unfold len. rewrite Nat2Z.id. exact (fun K => K). Qed.
Lemma keeps_pinned_len {A} (l : list A) : 2 <= len l -> keeps_windows (stop_pinned (len l)) (length l).
Proof. intros H. generalize (keeps_pinned (len l) H). unfold len. rewrite Nat2Z.id. exact (fun K => K). Qed.

Theorem rolling_window1_refuted :
  (forall (B : Type) (f : list Z -> B) rows, rolling_with stop_pinned f 1 rows = map (fun _ => []) rows)
  /\ exists rows, rolling_with stop_pinned (le_value 4) 1 rows <> per_row (le_value 4) 1 rows.
Proof. split; [exact (fun B => @rolling_pinned_w1_empty B)|exists [[2]]; discriminate]. Qed.

Theorem kmer_code_le n win :
  hash_generic n (len win) win = le_value n win /\ encode_kmer n (len win) win = le_value n win.
Proof. split; apply hash_generic_le. Qed.

Theorem kmer_text_roundtrip (alpha : list Z) n win : 2 <= n -> letters_ok n win ->
  decode_kmer n (len win) (encode_kmer n (len win) win) = win
  /\ to_string alpha n (len win) (encode_kmer n (len win) win) = text_of alpha win.
Proof. intros Hn H. split; [apply decode_encode|apply to_string_encode]; assumption. Qed.

Theorem get_kmers_fixed n k rows : 1 <= k -> kmer_domain n k rows ->
  get_kmers_with stop_fixed n k rows = spec_kmers n (Z.to_nat k) rows.
Proof. intros Hk Hd. apply get_kmers_row_local; [exact Hk|apply keeps_fixed; exact Hk|exact Hd]. Qed.

Theorem get_kmers_pinned n k rows : 2 <= k -> kmer_domain n k rows ->
  get_kmers_with stop_pinned n k rows = spec_kmers n (Z.to_nat k) rows.
Proof. intros Hk Hd. apply get_kmers_row_local; [lia|apply keeps_pinned; exact Hk|exact Hd]. Qed.

Theorem get_kmers_window1_refuted :
  (forall n rows, get_kmers_with stop_pinned n 1 rows = map (fun _ => []) rows)
  /\ exists n rows, get_kmers_with stop_pinned n 1 rows <> spec_kmers n 1 rows.
Proof. split; [exact get_kmers_pinned_w1|exists 4, [[0; 1; 3]; [2]]; discriminate]. Qed.

Theorem minimizers_fixed n k W rows : 1 <= k -> k <= W -> W <= len (concat rows) ->
  get_minimizers_with stop_fixed n k W rows = Some (spec_minimizers n (Z.to_nat k) (Z.to_nat W) rows).
Proof. intros. apply minimizers_row_local; try assumption; apply keeps_fixed; lia. Qed.

Theorem minimizers_pinned n k W rows : 2 <= k -> k <= W -> W <= len (concat rows) ->
  get_minimizers_with stop_pinned n k W rows = Some (spec_minimizers n (Z.to_nat k) (Z.to_nat W) rows).
Proof. intros. apply minimizers_row_local; try assumption; try lia; apply keeps_pinned; lia. Qed.

Theorem match_string_fixed pat rows : 1 <= len pat -> match_string_with stop_fixed pat rows = spec_match pat rows.
Proof. intros Hp. apply match_string_row_local; [exact Hp|apply keeps_fixed_len; exact Hp]. Qed.

Theorem match_string_pinned pat rows : 2 <= len pat -> match_string_with stop_pinned pat rows = spec_match pat rows.
Proof. intros Hp. apply match_string_row_local; [lia|apply keeps_pinned_len; exact Hp]. Qed.

Theorem motif_fixed cols rows : 1 <= len cols -> get_motif_scores_with stop_fixed cols rows = spec_motif cols rows.
Proof. intros Hc. apply motif_row_local; [exact Hc|apply keeps_fixed_len; exact Hc]. Qed.

Theorem motif_pinned cols rows : 2 <= len cols -> get_motif_scores_with stop_pinned cols rows = spec_motif cols rows.
Proof. intros Hc. apply motif_row_local; [lia|apply keeps_pinned_len; exact Hc]. Qed.

Theorem count_kmers_fixed n k rows : 1 <= k -> kmer_domain n k rows ->
  count_kmers_flat_with stop_fixed n k rows = bincount (n ^ k) (concat (spec_kmers n (Z.to_nat k) rows))
  /\ count_kmers_rows_with stop_fixed n k rows = map (bincount (n ^ k)) (spec_kmers n (Z.to_nat k) rows).
Proof.
  intros Hk Hd. split; [apply count_flat_row_local|apply count_rows_row_local];
    try assumption; apply keeps_fixed; exact Hk.
Qed.

Theorem count_kmers_pinned n k rows : 2 <= k -> kmer_domain n k rows ->
  count_kmers_flat_with stop_pinned n k rows = bincount (n ^ k) (concat (spec_kmers n (Z.to_nat k) rows))
  /\ count_kmers_rows_with stop_pinned n k rows = map (bincount (n ^ k)) (spec_kmers n (Z.to_nat k) rows).
Proof.
  intros Hk Hd. split; [apply count_flat_row_local|apply count_rows_row_local];
    try assumption; try lia; apply keeps_pinned; exact Hk.
Qed.

(* Proofs/C08_link.v — "implementation = model" implies the property, case class by case class:
   for every correspondence case c inside the property's domain,  model_ok c = true -> spec_ok c = true. *)
From Coq Require Import ZArith List Bool Lia Arith Permutation.
From BNP Require Import Base.Prims Base.PrimsFacts Model.C08 Corr.C08 Proofs.C08 Proofs.C08_merge Proofs.C08_overlap
  Proofs.C08_sim Proofs.C08_bg Proofs.C08_geom.
Import ListNotations.
Open Scope Z_scope.

(* ---------- boolean equality tests reflect equality ---------- *)
Lemma list_eqb_eq {T} (eqb : T -> T -> bool) : (forall x y, eqb x y = true -> x = y) ->
  forall a b, list_eqb eqb a b = true -> a = b.
Proof.
  intros H. induction a as [|x a IH]; intros [|y b] E; try reflexivity; try discriminate.
  cbn [list_eqb] in E. apply andb_true_iff in E. destruct E as [E1 E2]. f_equal; [apply H; exact E1|apply IH; exact E2].
Qed.
Lemma zlist_eqb_eq a b : zlist_eqb a b = true -> a = b.
Proof. apply list_eqb_eq. intros x y. apply Z.eqb_eq. Qed.
Lemma iv_eqb_eq (x y : iv) : iv_eqb x y = true -> x = y.
Proof.
  destruct x, y. unfold iv_eqb. cbn [fst snd]. intros E. apply andb_true_iff in E. destruct E as [E1 E2].
  apply Z.eqb_eq in E1. apply Z.eqb_eq in E2. subst. reflexivity.
Qed.
Lemma iv_eqb_refl (x : iv) : iv_eqb x x = true.
Proof. unfold iv_eqb. rewrite !Z.eqb_refl. reflexivity. Qed.
Lemma ivs_eqb_eq a b : ivs_eqb a b = true -> a = b.
Proof. apply list_eqb_eq. exact iv_eqb_eq. Qed.
Lemma tiv_eqb_eq (x y : tiv) : tiv_eqb x y = true -> x = y.
Proof.
  destruct x as [[a b] c], y as [[a' b'] c']. unfold tiv_eqb, t_tag, t_start, t_stop. cbn [fst snd]. intros E.
  apply andb_true_iff in E. destruct E as [E E3]. apply andb_true_iff in E. destruct E as [E1 E2].
  apply Z.eqb_eq in E1. apply Z.eqb_eq in E2. apply Z.eqb_eq in E3. subst. reflexivity.
Qed.
Lemma tivs_eqb_eq a b : tivs_eqb a b = true -> a = b.
Proof. apply list_eqb_eq. exact tiv_eqb_eq. Qed.
Lemma ivs_eqb_refl a : ivs_eqb a a = true.
Proof. induction a as [|x a IH]; [reflexivity|]. cbn [ivs_eqb list_eqb]. rewrite iv_eqb_refl. exact IH. Qed.

Ltac split_andb := repeat match goal with H : _ && _ = true |- _ => apply andb_true_iff in H; destruct H end.

Lemma wf_prop s I : wf s I = true -> forall i, In i I -> 0 <= fst i /\ fst i <= snd i /\ snd i <= s.
Proof.
  intros H i Hi. unfold wf in H. rewrite forallb_forall in H. specialize (H i Hi). unfold inside in H.
  split_andb. rewrite !Z.leb_le in *. lia.
Qed.
Lemma wf_set_of s I : wf s I = true -> wf_set I s.
Proof. intros H i Hi. apply (wf_prop s I H i Hi). Qed.
Lemma nonempty_prop I : nonempty I = true -> forall i, In i I -> fst i < snd i.
Proof. intros H i Hi. unfold nonempty in H. rewrite forallb_forall in H. apply Z.ltb_lt. apply H. exact Hi. Qed.
Lemma wf_app s I J : wf s I = true -> wf s J = true -> forall i, In i (I ++ J) -> 0 <= fst i /\ fst i <= snd i /\ snd i <= s.
Proof. intros H1 H2 i Hi. apply in_app_iff in Hi. destruct Hi; [apply (wf_prop s I)|apply (wf_prop s J)]; assumption. Qed.

(* opening a case class: k_op c = n *)
Ltac open_case Hop Hdom Hm :=
  unfold spec_ok; rewrite Hdom; cbn [andb]; unfold model_ok in Hm; unfold domain in Hdom;
  rewrite Hop in Hm, Hdom |- *; cbv beta iota zeta in Hm, Hdom |- *; split_andb.

Section Link.
Variable c : case.
Hypothesis Hdom : domain c = true.
Hypothesis Hm : model_ok c = true.

Lemma size_pos : 1 <= k_size c.
Proof. unfold domain in Hdom. apply andb_true_iff in Hdom. destruct Hdom as [H _]. apply Z.leb_le. exact H. Qed.

Lemma link_pileup : k_op c = 1 -> spec_ok c = true.
Proof.
  intros Hop. pose proof size_pos. open_case Hop Hdom Hm.
  rewrite <- pileup_is_coverage; [apply andb_true_iff; split; assumption|lia|apply wf_prop; assumption].
Qed.
Lemma link_bg_pileup : k_op c = 2 -> spec_ok c = true.
Proof.
  intros Hop. pose proof size_pos. unfold spec_ok; rewrite Hdom; cbn [andb]; unfold model_ok in Hm; unfold domain in Hdom;
  rewrite Hop in Hm, Hdom |- *; cbv beta iota zeta in Hm, Hdom |- *. split_andb.
  rewrite bg_pileup_is_coverage in Hm; [exact Hm|lia|apply wf_prop; assumption].
Qed.
Lemma link_mask : k_op c = 3 -> spec_ok c = true.
Proof.
  intros Hop. pose proof size_pos. unfold spec_ok; rewrite Hdom; cbn [andb]; unfold model_ok in Hm; unfold domain in Hdom;
  rewrite Hop in Hm, Hdom |- *; cbv beta iota zeta in Hm, Hdom |- *. split_andb.
  rewrite mask_is_positive_coverage_gen in Hm; [exact Hm|lia|apply wf_prop; assumption].
Qed.

Lemma merge_specs_agree d I size : 0 <= d -> 0 <= size -> wf_merge_input I size -> merge_spec d I size = merge_spec2 d I size.
Proof.
  intros Hd Hs Hwf. pose proof (merge_bridged_runs d I size Hd Hs Hwf) as H1. pose proof (merge_maximal_runs d I size Hd Hs Hwf) as H2.
  rewrite H1 in H2. injection H2. trivial.
Qed.
Lemma merge_domain s I : wf s I = true -> nonempty I = true -> sortedb Z.leb (map fst I) = true -> wf_merge_input I s.
Proof.
  intros H1 H2 H3. split; [exact H3|]. intros i Hi. pose proof (wf_prop s I H1 i Hi). pose proof (nonempty_prop I H2 i Hi). lia.
Qed.
Lemma link_merge : k_op c = 4 -> spec_ok c = true.
Proof.
  intros Hop. pose proof size_pos. unfold spec_ok; rewrite Hdom; cbn [andb]; unfold model_ok in Hm; unfold domain in Hdom;
  rewrite Hop in Hm, Hdom |- *; cbv beta iota zeta in Hm, Hdom |- *. split_andb.
  assert (Hwf : wf_merge_input (A c) (k_size c)) by (apply merge_domain; assumption).
  assert (Hd : 0 <= k_d c) by (apply Z.leb_le; assumption).
  rewrite (merge_bridged_runs (k_d c) (A c) (k_size c) Hd ltac:(lia) Hwf) in Hm. unfold opt_ok in Hm.
  rewrite <- (merge_specs_agree (k_d c) (A c) (k_size c) Hd ltac:(lia) Hwf).
  apply andb_true_iff in Hm. destruct Hm as [H5 H6]. rewrite H5, H6. reflexivity.
Qed.

Lemma link_sort_key : k_op c = 5 -> spec_ok c = true.
Proof.
  intros Hop. open_case Hop Hdom Hm.
  match goal with H : tivs_eqb _ _ = true |- _ => apply tivs_eqb_eq in H; rewrite H end.
  apply andb_true_iff. split; [assumption|apply sort_full_spec_ok].
Qed.
Lemma link_sort_lex : k_op c = 6 -> spec_ok c = true.
Proof.
  intros Hop. open_case Hop Hdom Hm.
  match goal with H : tivs_eqb _ _ = true |- _ => apply tivs_eqb_eq in H; rewrite H end.
  apply andb_true_iff. split; [assumption|apply sort_full_spec_ok].
Qed.
Lemma sizes_nonneg (l : list Z) : forallb (fun z => 1 <=? z) l = true -> nonneg l.
Proof. intros H z Hz. rewrite forallb_forall in H. specialize (H z Hz). apply Z.leb_le in H. lia. Qed.
Lemma link_sort_geom : k_op c = 7 -> spec_ok c = true.
Proof.
  intros Hop. open_case Hop Hdom Hm.
  match goal with H : tivs_eqb _ _ = true |- _ => apply tivs_eqb_eq in H; rewrite H end.
  rewrite geom_sort_is_sort.
  - apply andb_true_iff. split; [assumption|apply sort_full_spec_ok].
  - apply sizes_nonneg. assumption.
  - intros t Ht. match goal with H : forallb (sort_row_ok _) _ = true |- _ => rewrite forallb_forall in H; specialize (H t Ht); unfold sort_row_ok in H end.
    split_andb. unfold row_ok. rewrite !Z.leb_le, !Z.ltb_lt in *. lia.
Qed.

Lemma link_count_overlap : k_op c = 8 -> spec_ok c = true.
Proof.
  intros Hop. open_case Hop Hdom Hm.
  assert (Hwf := wf_app (k_size c) (A c) (B c) ltac:(assumption) ltac:(assumption)).
  match goal with H : (k_num c =? count_overlap_model _ _) = true |- _ => rewrite (count_overlap_identity (A c) (B c) (k_size c) Hwf) in H; rename H into Hn end.
  apply andb_true_iff. split; [assumption|]. rewrite Hn. cbn [andb].
  apply andb_true_iff. split; [assumption|].
  destruct (disjointb (A c) (k_size c)) eqn:EA; [|reflexivity]. destruct (disjointb (B c) (k_size c)) eqn:EB; [|reflexivity].
  cbn [andb negb orb]. rewrite <- (overlap_disjoint _ _ _ EA EB). exact Hn.
Qed.

(* intersect: the pieces are non-empty, inside the contig, and cover as the Spec says *)
Lemma in_tl {T} (x : T) l : In x (tl l) -> In x l.
Proof. destruct l; [intros []|intros H; right; exact H]. Qed.
Lemma in_zip_pieces E S' o : In o (zip_with m_intersect_piece E S') -> In (snd o) E /\ In (fst o) S'.
Proof.
  revert S'. induction E as [|e E IH]; intros [|s S'] H; try destruct H.
  - subst o. split; left; reflexivity.
  - destruct (IH S' H). split; right; assumption.
Qed.
Lemma intersect_spec_holds I J size : 0 <= size ->
  (forall i, In i (I ++ J) -> 0 <= fst i /\ fst i <= snd i /\ snd i <= size) ->
  intersect_spec_ok I J (intersect_model I J) size = true.
Proof.
  intros Hs Hwf. unfold intersect_spec_ok. apply andb_true_iff. split; [apply andb_true_iff; split|].
  - apply forallb_forall. intros o Ho. unfold intersect_model in Ho. apply filter_In in Ho. destruct Ho as [Ho Hk].
    unfold m_intersect_keep in Hk. apply in_zip_pieces in Ho. destruct Ho as [H1 H2].
    apply andb_true_iff. split; [exact Hk|].
    assert (He : snd o <= size).
    { apply (Permutation_in _ (isort_perm Z.leb _)) in H1. apply in_map_iff in H1. destruct H1 as [i [E Hi]].
      apply (Permutation_in _ (isort_perm pos_leb _)) in Hi. specialize (Hwf i Hi). lia. }
    assert (H0 : 0 <= fst o).
    { assert (H3 : In (fst o) (map fst (isort pos_leb (I ++ J)))) by (apply in_tl; exact H2).
      apply in_map_iff in H3. destruct H3 as [i [E Hi]].
      apply (Permutation_in _ (isort_perm pos_leb _)) in Hi. specialize (Hwf i Hi). lia. }
    apply Z.ltb_lt in Hk. unfold inside. rewrite !andb_true_iff, !Z.leb_le. lia.
  - apply forallb_forall. intros x _. apply Z.eqb_eq. apply intersect_coverage. intros i Hi. specialize (Hwf i Hi). lia.
  - destruct (disjointb I size) eqn:EA; [|reflexivity]. destruct (disjointb J size) eqn:EB; [|reflexivity]. cbn [andb negb orb].
    apply forallb_forall. intros x Hx. apply Z.eqb_eq. rewrite intersect_coverage by (intros i Hi; specialize (Hwf i Hi); lia).
    unfold disjointb in *. rewrite forallb_forall in EA, EB.
    apply excess_disjoint; apply Z.leb_le; [apply EA|apply EB]; exact Hx.
Qed.
Lemma link_intersect : k_op c = 9 -> spec_ok c = true.
Proof.
  intros Hop. pose proof size_pos. open_case Hop Hdom Hm.
  match goal with H : ivs_eqb _ _ = true |- _ => apply ivs_eqb_eq in H; rewrite H end.
  apply andb_true_iff. split; [assumption|]. apply intersect_spec_holds; [lia|]. apply wf_app; assumption.
Qed.

Lemma in_existsb_iv o I : In o I -> existsb (iv_eqb o) I = true.
Proof. intros H. apply existsb_exists. exists o. split; [exact H|apply iv_eqb_refl]. Qed.
Lemma link_unique_intersect : k_op c = 10 -> spec_ok c = true.
Proof.
  intros Hop. pose proof size_pos. unfold spec_ok; rewrite Hdom; cbn [andb]; unfold model_ok in Hm; unfold domain in Hdom;
  rewrite Hop in Hm, Hdom |- *; cbv beta iota zeta in Hm, Hdom |- *. split_andb.
  destruct (unique_intersect_is_per_base (A c) (B c) (k_size c) ltac:(lia)) as [out [E [Hf Hin]]];
    [apply wf_set_of; assumption|apply wf_set_of; assumption|].
  rewrite E in Hm. unfold opt_ok in Hm. apply andb_true_iff in Hm. destruct Hm as [H5 H6]. apply ivs_eqb_eq in H6.
  rewrite H5, H6, Hf. cbn [andb]. rewrite ivs_eqb_refl. cbn [andb].
  apply forallb_forall. intros o Ho. apply orb_true_iff. right. apply in_existsb_iv. apply Hin. exact Ho.
Qed.


(* the stream route (arithmetics.jaccard / forbes): since a68b397 an interval set without entries is accepted *)
Lemma link_jaccard_stream : k_op c = 11 -> spec_ok c = true.
Proof.
  intros Hop. pose proof size_pos. unfold spec_ok; rewrite Hdom; cbn [andb]; unfold model_ok in Hm; unfold domain in Hdom;
  rewrite Hop in Hm, Hdom |- *; cbv beta iota zeta in Hm, Hdom |- *. split_andb.
  unfold jaccard_stream_model, stream_similarity, stream_similarity_fixed in Hm.
  rewrite jaccard_is_per_base in Hm; [exact Hm|lia|apply wf_set_of; assumption|apply wf_set_of; assumption].
Qed.
Lemma link_forbes_stream : k_op c = 12 -> spec_ok c = true.
Proof.
  intros Hop. pose proof size_pos. unfold spec_ok; rewrite Hdom; cbn [andb]; unfold model_ok in Hm; unfold domain in Hdom;
  rewrite Hop in Hm, Hdom |- *; cbv beta iota zeta in Hm, Hdom |- *. split_andb.
  unfold forbes_stream_model, stream_similarity, stream_similarity_fixed in Hm.
  rewrite forbes_is_per_base in Hm; [exact Hm|lia|apply wf_set_of; assumption|apply wf_set_of; assumption].
Qed.

Lemma clip_spec_holds size I : 0 <= size -> (forall i, In i I -> fst i <= snd i) -> clip_spec_ok size I (clip_model size I) = true.
Proof.
  intros Hs. unfold clip_spec_ok, clip_model. induction I as [|i I IH]; intros H; [reflexivity|].
  cbn [map forall2b]. rewrite IH by (intros j Hj; apply H; right; exact Hj). rewrite andb_true_r.
  destruct (clip_fixed_ok size i Hs (H i (or_introl eq_refl))) as [H1 [H2 [H3 H4]]].
  change (clip_one size i) with (clip_fixed size i).
  apply andb_true_iff. split.
  - unfold inside. rewrite !andb_true_iff, !Z.leb_le. lia.
  - apply forallb_forall. intros x Hx. apply In_bases in Hx. rewrite (H4 x Hx). apply eqb_reflx.
Qed.
Lemma link_clip : k_op c = 13 -> spec_ok c = true.
Proof.
  intros Hop. pose proof size_pos. open_case Hop Hdom Hm.
  match goal with H : ivs_eqb _ _ = true |- _ => apply ivs_eqb_eq in H; rewrite H end.
  apply andb_true_iff. split; [assumption|]. apply clip_spec_holds; [lia|].
  intros i Hi. match goal with H : forallb _ (A c) = true |- _ => rewrite forallb_forall in H; specialize (H i Hi) end.
  apply Z.leb_le. assumption.
Qed.

Lemma extend_spec_holds size frag I : 0 <= frag ->
  (forall t, In t I -> (t_tag t = 0 \/ t_tag t = 1) /\ 0 <= t_start t /\ t_start t <= t_stop t /\ t_stop t <= size) ->
  extend_spec_ok size frag I (extend_model size frag I) = true.
Proof.
  intros Hf. unfold extend_spec_ok, extend_model. induction I as [|t I IH]; intros H; [reflexivity|].
  cbn [map forall2b]. rewrite IH by (intros j Hj; apply H; right; exact Hj). rewrite andb_true_r.
  destruct (H t (or_introl eq_refl)) as [Ht [H0 [H1 H2]]].
  destruct (extend_one_ok size frag t Hf Ht H0 H1 H2) as [E1 [E2 [E3 [E4 [E5 E6]]]]].
  apply andb_true_iff. split; [apply andb_true_iff; split|].
  - apply Z.eqb_eq. symmetry. exact E1.
  - unfold inside, untag. cbn [fst snd]. rewrite !andb_true_iff, !Z.leb_le. lia.
  - destruct (Z.eqb_spec (t_tag t) 1) as [E|E].
    + destruct (E5 E) as [Ea Eb]. rewrite Eb, Ea. rewrite !Z.eqb_refl. reflexivity.
    + assert (E0 : t_tag t = 0) by (destruct Ht; [assumption|congruence]).
      destruct (E6 E0) as [Ea Eb]. rewrite Eb, Ea. rewrite !Z.eqb_refl. reflexivity.
Qed.
Lemma link_extend : k_op c = 14 -> spec_ok c = true.
Proof.
  intros Hop. open_case Hop Hdom Hm.
  match goal with H : tivs_eqb _ _ = true |- _ => apply tivs_eqb_eq in H; rewrite H end.
  apply andb_true_iff. split; [assumption|]. apply extend_spec_holds; [apply Z.leb_le; assumption|].
  intros t Ht.
  match goal with H : forallb _ (k_a c) = true |- _ => rewrite forallb_forall in H; specialize (H t Ht) end.
  match goal with H : wf _ (A c) = true |- _ => pose proof (wf_prop _ _ H (untag t) (in_map untag _ _ Ht)) as Hw end.
  unfold untag in Hw. cbn [fst snd] in Hw.
  match goal with H : _ || _ = true |- _ => apply orb_true_iff in H; rewrite !Z.eqb_eq in H end.
  tauto.
Qed.

(* Geometry routes *)
Lemma genome_prop : genome_ok c = true -> genome_wf (k_sizes c) (k_rank c) /\ gsize (k_sizes c) (k_rank c) = k_size c.
Proof.
  intros H. unfold genome_ok in H. split_andb. split; [split|].
  - apply sizes_nonneg. assumption.
  - rewrite Z.leb_le, Z.ltb_lt in *. lia.
  - apply Z.eqb_eq. assumption.
Qed.
Lemma link_jaccard_geom : k_op c = 15 -> spec_ok c = true.
Proof.
  intros Hop. unfold spec_ok; rewrite Hdom; cbn [andb]; unfold model_ok in Hm; unfold domain in Hdom;
  rewrite Hop in Hm, Hdom |- *; cbv beta iota zeta in Hm, Hdom |- *. split_andb.
  destruct (genome_prop ltac:(assumption)) as [Hg Hsz].
  rewrite geom_jaccard_is_per_base in Hm; [rewrite Hsz in Hm; exact Hm|exact Hg| |]; rewrite Hsz; apply wf_set_of; assumption.
Qed.
Lemma link_geom_pileup : k_op c = 16 -> spec_ok c = true.
Proof.
  intros Hop. open_case Hop Hdom Hm.
  destruct (genome_prop ltac:(assumption)) as [Hg Hsz].
  rewrite <- Hsz. rewrite <- geom_pileup_is_coverage; [apply andb_true_iff; split; assumption|exact Hg|].
  rewrite Hsz. apply wf_prop. assumption.
Qed.
Lemma link_geom_mask : k_op c = 17 -> spec_ok c = true.
Proof.
  intros Hop. unfold spec_ok; rewrite Hdom; cbn [andb]; unfold model_ok in Hm; unfold domain in Hdom;
  rewrite Hop in Hm, Hdom |- *; cbv beta iota zeta in Hm, Hdom |- *. split_andb.
  destruct (genome_prop ltac:(assumption)) as [Hg Hsz].
  rewrite geom_mask_is_positive_coverage in Hm; [rewrite Hsz in Hm; exact Hm|exact Hg|].
  rewrite Hsz. apply wf_prop. assumption.
Qed.
Lemma link_geom_merge : k_op c = 18 -> spec_ok c = true.
Proof.
  intros Hop. pose proof size_pos. unfold spec_ok; rewrite Hdom; cbn [andb]; unfold model_ok in Hm; unfold domain in Hdom;
  rewrite Hop in Hm, Hdom |- *; cbv beta iota zeta in Hm, Hdom |- *. split_andb.
  assert (Hwf : wf_merge_input (A c) (k_size c)) by (apply merge_domain; assumption).
  assert (Hd : 0 <= k_d c) by (apply Z.leb_le; assumption).
  rewrite (geom_merge_bridged_runs (k_sizes c) (k_rank c) (k_d c) (A c) (k_size c) Hd ltac:(lia) Hwf) in Hm. unfold opt_ok in Hm.
  rewrite <- (merge_specs_agree (k_d c) (A c) (k_size c) Hd ltac:(lia) Hwf).
  apply andb_true_iff in Hm. destruct Hm as [Hm5 Hm6]. rewrite Hm5, Hm6. reflexivity.
Qed.
(* jaccard / forbes on a genome with several contigs *)
Lemma on_contig_wf sizes r l : forallb (genome_row_ok sizes) l = true -> wf_set (on_contig r l) (gsize sizes r).
Proof.
  intros H i Hi. unfold on_contig in Hi. apply in_map_iff in Hi. destruct Hi as [t [E Ht]]. subst i.
  apply filter_In in Ht. destruct Ht as [Ht Hr]. apply Z.eqb_eq in Hr.
  rewrite forallb_forall in H. specialize (H t Ht). unfold genome_row_ok in H. split_andb.
  unfold untag. cbn [fst snd]. rewrite !Z.leb_le in *. rewrite <- Hr. lia.
Qed.
Lemma genome_of_ok : forallb (fun z => 1 <=? z) (k_sizes c) = true -> forallb (genome_row_ok (k_sizes c)) (k_a c) = true ->
  forallb (genome_row_ok (k_sizes c)) (k_b c) = true -> genome_ok_prop (genome_of c).
Proof.
  intros Hs Ha Hb size a b Hin. unfold genome_of in Hin. apply in_map_iff in Hin. destruct Hin as [r [E Hr]].
  injection E as E1 E2 E3. subst size a b. split; [|split; apply on_contig_wf; assumption].
  unfold gsize, nthd. destruct (nth_in_or_default (Z.to_nat r) (k_sizes c) 0) as [Hi|E]; [|rewrite E; lia].
  apply (sizes_nonneg _ Hs). exact Hi.
Qed.
Lemma link_jaccard_genome : k_op c = 19 -> spec_ok c = true.
Proof.
  intros Hop. unfold spec_ok; rewrite Hdom; cbn [andb]; unfold model_ok in Hm; unfold domain in Hdom;
  rewrite Hop in Hm, Hdom |- *; cbv beta iota zeta in Hm, Hdom |- *. split_andb.
  rewrite jaccard_genome_is_per_base in Hm; [exact Hm|apply genome_of_ok; assumption].
Qed.
Lemma link_forbes_genome : k_op c = 20 -> spec_ok c = true.
Proof.
  intros Hop. unfold spec_ok; rewrite Hdom; cbn [andb]; unfold model_ok in Hm; unfold domain in Hdom;
  rewrite Hop in Hm, Hdom |- *; cbv beta iota zeta in Hm, Hdom |- *. split_andb.
  rewrite forbes_genome_is_per_base in Hm; [exact Hm|apply genome_of_ok; assumption].
Qed.
(* deep multisets given with multiplicities: the correspondence evaluates the weighted functions, which Proofs/C08_big.v
   proves equal to the models' outputs on the expanded multiset *)
Lemma link_pileup_big : k_op c = 21 -> spec_ok c = true.
Proof. intros Hop. open_case Hop Hdom Hm. apply andb_true_iff. split; assumption. Qed.
Lemma link_mask_big : k_op c = 22 -> spec_ok c = true.
Proof. intros Hop. open_case Hop Hdom Hm. apply andb_true_iff. split; assumption. Qed.
Lemma link_merge_big : k_op c = 23 -> spec_ok c = true.
Proof. intros Hop. open_case Hop Hdom Hm. apply andb_true_iff. split; assumption. Qed.
Lemma link_count_overlap_big : k_op c = 24 -> spec_ok c = true.
Proof.
  intros Hop. open_case Hop Hdom Hm. apply andb_true_iff. split; [assumption|]. apply andb_true_iff. split; assumption.
Qed.
End Link.

(* ---------- every case class at once ---------- *)
Theorem model_implies_spec c : domain c = true -> model_ok c = true -> spec_ok c = true.
Proof.
  intros Hdom Hm. pose proof Hdom as Hd0. unfold domain in Hd0.
  remember (k_op c) as op eqn:Hop. symmetry in Hop.
  destruct op as [|p|p]; try (cbv beta iota zeta in Hd0; rewrite andb_false_r in Hd0; discriminate).
  do 5 (try destruct p as [p|p|]); try (cbv beta iota zeta in Hd0; rewrite andb_false_r in Hd0; discriminate).
  all: first
    [ apply (link_pileup c Hdom Hm Hop) | apply (link_bg_pileup c Hdom Hm Hop) | apply (link_mask c Hdom Hm Hop)
    | apply (link_merge c Hdom Hm Hop) | apply (link_sort_key c Hdom Hm Hop) | apply (link_sort_lex c Hdom Hm Hop)
    | apply (link_sort_geom c Hdom Hm Hop) | apply (link_count_overlap c Hdom Hm Hop) | apply (link_intersect c Hdom Hm Hop)
    | apply (link_unique_intersect c Hdom Hm Hop) | apply (link_clip c Hdom Hm Hop) | apply (link_extend c Hdom Hm Hop)
    | apply (link_jaccard_geom c Hdom Hm Hop) | apply (link_geom_pileup c Hdom Hm Hop) | apply (link_geom_mask c Hdom Hm Hop)
    | apply (link_geom_merge c Hdom Hm Hop) | apply (link_jaccard_stream c Hdom Hm Hop) | apply (link_forbes_stream c Hdom Hm Hop)
    | apply (link_jaccard_genome c Hdom Hm Hop) | apply (link_forbes_genome c Hdom Hm Hop)
    | apply (link_pileup_big c Hdom Hm Hop) | apply (link_mask_big c Hdom Hm Hop) | apply (link_merge_big c Hdom Hm Hop)
    | apply (link_count_overlap_big c Hdom Hm Hop) ].
Qed.

(* history: the stream route as it was before a68b397 raised on an interval set without entries, so it could not return
   the per-base value there *)
Lemma stream_similarity_pinned_refuted :
  exists A B size, wf_set A size /\ wf_set B size
    /\ stream_similarity_pinned jaccard_model A B size <> Ret (jaccard_spec A B size).
Proof.
  exists [], [(1, 3)], 5. split; [intros i []|]. split; [intros i [E|[]]; subst; simpl; lia|]. vm_compute. discriminate.
Qed.

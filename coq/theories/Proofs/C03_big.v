(* Proofs/C03_big.v — big tables in run-length form (round 6): the Spec of a tiled table is the tiled Spec, and the
   segment-wise verdict of Corr/C03T.v implies the property for the EXPANDED table of any size. *)
From Coq Require Import ZArith List Bool Lia.
From BNP Require Import Base.Prims Model.C03 Proofs.C03_main Corr.C03 Corr.C03T.
Import ListNotations.
Open Scope Z_scope.

Lemma serialise_app f a b : serialise f (a ++ b) = serialise f a ++ serialise f b.
Proof. unfold serialise. now rewrite map_app, concat_app. Qed.

Lemma serialise_concat f l : serialise f (concat l) = concat (map (serialise f) l).
Proof. induction l; cbn [concat map]; [reflexivity|]. rewrite serialise_app, IHl. reflexivity. Qed.

Lemma map_repeat' {A B} (g : A -> B) x n : map g (repeat x n) = repeat (g x) n.
Proof. induction n; cbn; [reflexivity|]. now rewrite IHn. Qed.

(* writing a block n times over = the block's canonical bytes n times over: any format, any n *)
Theorem serialise_tile f blk n : serialise f (tile blk n) = tile (serialise f blk) n.
Proof. unfold tile. rewrite serialise_concat, map_repeat'. reflexivity. Qed.

Theorem serialise_expand f (r : rle row) :
  serialise f (expand r) = expand (map (fun p => (serialise f (fst p), snd p)) r).
Proof.
  unfold expand. rewrite serialise_concat, !map_map. f_equal. apply map_ext. intros [b n]. cbn [fst snd].
  apply serialise_tile.
Qed.

Lemma expand_app {A} (x y : rle A) : expand (x ++ y) = expand x ++ expand y.
Proof. unfold expand. now rewrite map_app, concat_app. Qed.

Lemma expand_concat {A} (l : list (rle A)) : expand (concat l) = concat (map expand l).
Proof. induction l; cbn [concat map]; [reflexivity|]. rewrite expand_app, IHl. reflexivity. Qed.

Lemma concat_repeat_nil {A} n : concat (repeat (@nil A) n) = [].
Proof. induction n; cbn; auto. Qed.

Lemma tile_dead {A} (p : list A * Z) : live p = false -> tile (fst p) (snd p) = [].
Proof.
  unfold live, tile. intros H. apply andb_false_iff in H. destruct H as [H|H].
  - apply Z.ltb_ge in H. replace (Z.to_nat (snd p)) with 0%nat by lia. reflexivity.
  - destruct (fst p); [apply concat_repeat_nil|discriminate].
Qed.

Lemma expand_norm {A} (r : rle A) : expand (norm r) = expand r.
Proof.
  unfold expand, norm. induction r as [|p r IH]; cbn; [reflexivity|].
  destruct (live p) eqn:E; cbn; rewrite IH; [reflexivity|]. now rewrite (tile_dead p E).
Qed.

Lemma list_eqb_eq {A} (eqb : A -> A -> bool) :
  (forall x y, eqb x y = true -> x = y) -> forall a b, list_eqb eqb a b = true -> a = b.
Proof.
  intros H a. induction a as [|x a IH]; intros [|y b] E; cbn in E; try discriminate; [reflexivity|].
  apply andb_true_iff in E. destruct E as [E1 E2]. f_equal; auto.
Qed.

(* segment-wise equality decides equality of the expansions (sound) *)
Theorem rle_eqb_sound (x y : rle Z) : rle_eqb Z.eqb x y = true -> expand x = expand y.
Proof.
  unfold rle_eqb. intros H. rewrite <- (expand_norm x), <- (expand_norm y). f_equal.
  revert H. apply list_eqb_eq. intros [a n] [b m] E. unfold seg_eqb in E. cbn [fst snd] in E.
  apply andb_true_iff in E. destruct E as [E1 E2]. apply Z.eqb_eq in E2. subst m. f_equal.
  revert E1. apply list_eqb_eq. intros u v. apply Z.eqb_eq.
Qed.

Lemma rows_of_full_hist h : rows_of_hist (full_hist h) = expand (segs_of_hist h).
Proof.
  unfold rows_of_hist, full_hist, segs_of_hist. rewrite expand_concat, !map_map. f_equal. apply map_ext.
  intros s. unfold rows_of_session, full_session. cbn [s_calls]. rewrite expand_concat, !map_map. f_equal.
  apply map_ext. intros c. unfold rows_of_call, full_call. cbn [c_chunks]. now rewrite expand_concat.
Qed.

Lemma spec_header_skel hdr h : spec_header hdr (skel_hist h) = spec_header hdr (full_hist h).
Proof.
  destruct h as [|s h]; [reflexivity|]. cbn. destruct (bs_append s); [reflexivity|].
  replace (existsb _ (map skel_call (bs_calls s))) with
    (existsb (fun c => match c_chunks c with [] => false | _ => true end) (map full_call (bs_calls s))); [reflexivity|].
  induction (bs_calls s) as [|c cs IH]; cbn; [reflexivity|]. rewrite IH. f_equal.
  destruct (bc_chunks c); reflexivity.
Qed.

Lemma tile_one {A} (l : list A) : tile l 1 = l.
Proof. unfold tile. cbn. apply app_nil_r. Qed.

(* the run-length Spec expands to the Spec of the expanded history: header once ++ canonical bytes of all rows *)
Theorem spec_rle_expand f hdr h : expand (spec_rle f hdr h) = spec_file f hdr (full_hist h).
Proof.
  unfold spec_rle, spec_file. unfold expand at 1. cbn [map concat fst snd]. rewrite tile_one.
  rewrite spec_header_skel. f_equal. rewrite rows_of_full_hist, serialise_expand. reflexivity.
Qed.

(* the byte half of the verdict on a big case: whatever the number of rows, a case accepted by spec_ok_big wrote,
   without raising, exactly header-once ++ canonical serialisation of the concatenated (expanded) table *)
Theorem spec_ok_big_written b :
  spec_ok_big b = true ->
  b_err b = 0 /\ expand (b_written b) = spec_file (b_fmt b) (b_header b) (full_hist (b_hist b)).
Proof.
  unfold spec_ok_big. intros H. repeat (apply andb_true_iff in H; destruct H as [H ?]).
  apply Z.eqb_eq in H. split; [exact H|]. rewrite <- spec_rle_expand. now apply rle_eqb_sound.
Qed.

(* writing a big table in pieces: a tiled table split at ANY block boundary has the same canonical bytes *)
Theorem serialise_tile_split f blk n m : 0 <= n -> 0 <= m ->
  serialise f (tile blk (n + m)) = serialise f (tile blk n) ++ serialise f (tile blk m).
Proof.
  intros Hn Hm. rewrite <- serialise_app. f_equal. unfold tile. rewrite Z2Nat.inj_add by lia.
  rewrite repeat_app, concat_app. reflexivity.
Qed.

(* the Model's from_data on a table of ANY size may be computed block by block (what the run-length model_ok does,
   and what a block-wise implementation of from_data must satisfy): blocks in the writer's domain concatenate *)
Theorem from_data_blocks f a b :
  a <> [] -> b <> [] -> table_ok f a -> table_ok f b -> table_ok f (a ++ b) ->
  from_data f (a ++ b) = (0, snd (from_data f a) ++ snd (from_data f b)).
Proof.
  intros Ha Hb Ta Tb Tab.
  rewrite (from_data_canonical f (a ++ b)), (from_data_canonical f a), (from_data_canonical f b); auto.
  - cbn [snd]. now rewrite serialise_app.
  - destruct a; [contradiction|discriminate].
Qed.

Theorem from_data_tile f blk n :
  tile blk n <> [] -> table_ok f (tile blk n) -> from_data f (tile blk n) = (0, tile (serialise f blk) n).
Proof. intros H T. rewrite from_data_canonical by assumption. now rewrite serialise_tile. Qed.

(* Proofs/C11_windows.v — windows around streamed locations (get_windows(flank= | window_size=)), the values under them
   and their mean over axis 0: streamed = in-memory, for both keyword forms. *)
From Coq Require Import ZArith List Bool Lia Arith.
From BNP Require Import Base.Prims Base.PrimsFacts Model.C11 Proofs.C11 Proofs.C11_groupby Proofs.C11_graph
  Proofs.C11_pipeline Proofs.C11_spec.
Import ListNotations.
Open Scope Z_scope.

Definition wchrom_val (a : warg) (q : wquery) (ivs : list iv) (s : Z) : gval :=
  match q with
  | WWindows => GIv (loc_windows a s ivs)
  | WValues => GR (values_under (coverage s ivs) (loc_windows a s ivs))
  | WMean0 => op_sum_n0 [GR (values_under (coverage s ivs) (loc_windows a s ivs))]
  end.

Lemma windows_of_starts l r s (ivs : list iv) :
  map (clip_iv s) (combine (map (fun v => bop_eval BSub v l) (map fst ivs)) (map (fun v => bop_eval BAdd v r) (map fst ivs)))
  = map (fun i => clip_iv s (fst i - l, fst i + r)) ivs.
Proof. induction ivs as [|i ivs IH]; [reflexivity|]. cbn [map combine]. rewrite IH. reflexivity. Qed.

Ltac eval_wval :=
  unfold val;
  cbn [intervals_nodes fst snd app names_node value nth_error map forallb flat_map andb ufunc_node node_args];
  rewrite ?nth_error_map.

Section Win.
Variables (l r : Z).
Definition wgraph (sizes : list Z) (ivs : list (list iv)) : list (node gval) :=
  let sz := NStream (map GZ sizes) in
  intervals_nodes 0 ivs sizes
  ++ [NComp op_pileup [0%nat; 4%nat]; names_node (length sizes)]
  ++ [NComp op_chrom [0%nat]; NComp op_start [0%nat]; sz]
  ++ [ufunc_node BSub [ONode 8; OConst l]; ufunc_node BAdd [ONode 8; OConst r]; NComp op_mk_iv [7%nat; 10%nat; 11%nat]]
  ++ [NComp op_start [12%nat]; NComp op_stop [12%nat]; NComp op_chrom [12%nat]; sz]
  ++ [NComp op_clip [12%nat; 16%nat]]
  ++ [NComp op_start [17%nat]; NComp op_stop [17%nat]; NComp op_chrom [17%nat]; sz]
  ++ [NComp op_extract [5%nat; 18%nat; 19%nat]; NComp op_sum_n0 [22%nat]].
Definition wroot (q : wquery) : nat := match q with WWindows => 17%nat | WValues => 22%nat | WMean0 => 23%nat end.
Definition wval (q : wquery) (ivs : list iv) (s : Z) : gval :=
  let w := map (fun i => clip_iv s (fst i - l, fst i + r)) ivs in
  match q with
  | WWindows => GIv w
  | WValues => GR (values_under (coverage s ivs) w)
  | WMean0 => op_sum_n0 [GR (values_under (coverage s ivs) w)]
  end.

Lemma wgraph_wf sizes ivs : wf (wgraph sizes ivs).
Proof.
  intros k f args E. cbn [wgraph intervals_nodes app ufunc_node node_args flat_map] in E.
  do 25 (try (destruct k as [|k]; cbn [nth_error] in E;
              [try discriminate; try (injection E as <- <-; repeat constructor; lia)|]));
  try (destruct k; discriminate).
Qed.

(* node values, one node at a time (linear in the size of the graph) *)
Section Values.
Variables (sizes : list Z) (A : list (list iv)).
Hypothesis HA : length A = length sizes.
Let g := wgraph sizes A.
Let Hwf := wgraph_wf sizes A.

Ltac comp_node := erewrite (val_comp g Hwf) by (unfold g, wgraph; cbn [intervals_nodes app ufunc_node node_args flat_map nth_error]; reflexivity); cbn [map node_args flat_map app].
Ltac stream_node := erewrite (val_stream g) by (unfold g, wgraph; cbn [intervals_nodes app names_node nth_error]; reflexivity); rewrite ?nth_error_map.

Section Defined.
Variable i : nat.
Hypothesis Hlt : (i < length sizes)%nat.
Let a := nth i A [].
Let s := nth i sizes 0.
Let w := map (fun x => clip_iv s (fst x - l, fst x + r)) a.

Lemma V0 : val g 0 i = Some (GIv a).
Proof. stream_node. rewrite (nth_error_nth' A [] (eq_ind_r (fun n => (i < n)%nat) Hlt HA)). reflexivity. Qed.
Lemma Vsz k : In k [4; 9; 16; 21]%nat -> val g k i = Some (GZ s).
Proof.
  intros Hk. cbn in Hk. destruct Hk as [<-|[<-|[<-|[<-|[]]]]]; stream_node; rewrite (nth_error_nth' sizes 0 Hlt); reflexivity.
Qed.
Lemma V6 : val g 6 i = Some (GZ (Z.of_nat i)).
Proof. stream_node. rewrite (arange_nth_error _ _ Hlt). reflexivity. Qed.
Lemma V5 : val g 5 i = Some (GL (coverage s a)).
Proof. comp_node. rewrite V0, (Vsz 4) by (cbn; auto). reflexivity. Qed.
Lemma V7 : val g 7 i = Some (GL (map (fun _ => 0) a)).
Proof. comp_node. rewrite V0. reflexivity. Qed.
Lemma V8 : val g 8 i = Some (GL (map fst a)).
Proof. comp_node. rewrite V0. reflexivity. Qed.
Lemma V10 : val g 10 i = Some (GL (map (fun v => bop_eval BSub v l) (map fst a))).
Proof. comp_node. rewrite V8. reflexivity. Qed.
Lemma V11 : val g 11 i = Some (GL (map (fun v => bop_eval BAdd v r) (map fst a))).
Proof. comp_node. rewrite V8. reflexivity. Qed.
Lemma V12 : val g 12 i = Some (GIv (combine (map (fun v => bop_eval BSub v l) (map fst a)) (map (fun v => bop_eval BAdd v r) (map fst a)))).
Proof. comp_node. rewrite V7, V10, V11. reflexivity. Qed.
Lemma V13 : val g 13 i <> None. Proof. comp_node. rewrite V12. discriminate. Qed.
Lemma V14 : val g 14 i <> None. Proof. comp_node. rewrite V12. discriminate. Qed.
Lemma V15 : val g 15 i <> None. Proof. comp_node. rewrite V12. discriminate. Qed.
Lemma V17 : val g 17 i = Some (GIv w).
Proof. comp_node. rewrite V12, (Vsz 16) by (cbn; auto). cbn [opt_all op_clip]. rewrite windows_of_starts. reflexivity. Qed.
Lemma V18 : val g 18 i = Some (GL (map fst w)). Proof. comp_node. rewrite V17. reflexivity. Qed.
Lemma V19 : val g 19 i = Some (GL (map snd w)). Proof. comp_node. rewrite V17. reflexivity. Qed.
Lemma V20 : val g 20 i <> None. Proof. comp_node. rewrite V17. discriminate. Qed.
Lemma V22 : val g 22 i = Some (GR (values_under (coverage s a) w)).
Proof. comp_node. rewrite V5, V18, V19. cbn [opt_all op_extract]. rewrite extract_values. reflexivity. Qed.
Lemma V23 : val g 23 i = Some (op_sum_n0 [GR (values_under (coverage s a) w)]).
Proof. comp_node. rewrite V22. reflexivity. Qed.

Lemma wval_root_some q : val g (wroot q) i = Some (wval q a s).
Proof. destruct q; [exact V17|exact V22|exact V23]. Qed.

Lemma wval_defined j : (j < length g)%nat -> val g j i <> None.
Proof.
  intros Hj. unfold g in Hj. cbn [wgraph intervals_nodes app length names_node] in Hj.
  do 24 (try (destruct j as [|j]; [
    first [ rewrite V0 | rewrite V5 | rewrite V6 | rewrite V7 | rewrite V8 | rewrite V10 | rewrite V11 | rewrite V12
          | exact V13 | exact V14 | exact V15 | rewrite V17 | rewrite V18 | rewrite V19 | exact V20 | rewrite V22 | rewrite V23
          | (rewrite Vsz by (cbn; auto 10))
          | (comp_node; rewrite V0) ]; try discriminate |])).
  exfalso. lia.
Qed.
End Defined.

Lemma wval_root_none q i : (length sizes <= i)%nat -> val g (wroot q) i = None.
Proof.
  intros Hge.
  assert (E0 : val g 0 i = None).
  { stream_node. assert (EA : nth_error A i = None) by (apply nth_error_None; lia). rewrite EA. reflexivity. }
  assert (E8 : val g 8 i = None) by (comp_node; rewrite E0; reflexivity).
  assert (E5 : val g 5 i = None) by (comp_node; rewrite E0; reflexivity).
  assert (E7 : val g 7 i = None) by (comp_node; rewrite E0; reflexivity).
  assert (E12 : val g 12 i = None) by (comp_node; rewrite E7; reflexivity).
  assert (E17 : val g 17 i = None) by (comp_node; rewrite E12; reflexivity).
  assert (E22 : val g 22 i = None) by (comp_node; rewrite E5; reflexivity).
  destruct q; [exact E17|exact E22|]. comp_node. rewrite E22. reflexivity.
Qed.

Lemma wval_root : forall q i,
  val g (wroot q) i = if (i <? length sizes)%nat then Some (wval q (nth i A []) (nth i sizes 0)) else None.
Proof.
  intros q i. destruct (Nat.ltb_spec i (length sizes)) as [Hlt|Hge]; [apply wval_root_some; exact Hlt|apply wval_root_none; exact Hge].
Qed.
End Values.

Lemma run_graph_windows : forall q sizes (A : list (list iv)), length A = length sizes -> (0 < length sizes)%nat ->
  run_graph (wgraph sizes A) (wroot q)
  = ROk (map (fun i => wval q (nth i A []) (nth i sizes 0)) (seq 0 (length sizes))).
Proof.
  intros q sizes A HA Hpos.
  assert (Hroot : (wroot q < length (wgraph sizes A))%nat) by (destruct q; cbn; lia).
  destruct (graph_lockstep_run (wgraph sizes A) (wgraph_wf sizes A) (wroot q) Hroot (length sizes)) as (vs & E & Hvs).
  - intros j Hj. apply (wval_defined sizes A HA 0%nat Hpos j Hj).
  - intros d Hd. rewrite wval_root by assumption. destruct (Nat.ltb_spec d (length sizes)); [discriminate|lia].
  - rewrite wval_root by assumption. rewrite Nat.ltb_irrefl. reflexivity.
  - assert (length (map GZ sizes) <= max_stream_len (wgraph sizes A))%nat.
    { apply max_stream_len_ge. unfold wgraph. cbn [intervals_nodes app]. auto 10 with datatypes. }
    rewrite map_length in H. lia.
  - rewrite E. f_equal. apply map_Some_inj. rewrite Hvs, map_map. apply map_ext_in.
    intros i Hi. apply in_seq in Hi. rewrite wval_root by assumption.
    destruct (Nat.ltb_spec i (length sizes)); [reflexivity|lia].
Qed.
End Win.

Lemma window_graph_eq a q sizes ivs :
  window_graph a q sizes ivs = (wgraph (fst (m_win_flanks a)) (snd (m_win_flanks a)) sizes ivs, wroot q).
Proof. unfold window_graph. destruct (m_win_flanks a) as [l r]. reflexivity. Qed.
Lemma wval_eq a q ivs s : wval (fst (m_win_flanks a)) (snd (m_win_flanks a)) q ivs s = wchrom_val a q ivs s.
Proof. unfold wval, wchrom_val, loc_windows. destruct (m_win_flanks a) as [l r]. reflexivity. Qed.

Theorem windows_spec : forall a q order sizes (cs : list (list (Z * iv))),
  NoDup order -> length order = length sizes -> (0 < length sizes)%nat ->
  cs <> [] -> Forall (fun c => c <> []) cs -> ordered order (concat cs) ->
  run_windows a q order sizes cs = Some (spec_windows a q order sizes (concat cs)).
Proof.
  intros a q order sizes cs Hnd Hlen Hpos Hne Hall Hord.
  unfold run_windows. rewrite (per_chromosome_ordered order cs Hnd Hne Hall Hord).
  rewrite window_graph_eq.
  rewrite run_graph_windows by (try exact Hpos; rewrite map_length; exact Hlen).
  set (d := concat cs).
  assert (Evs : map (fun i => wval (fst (m_win_flanks a)) (snd (m_win_flanks a)) q
                                 (nth i (map (fun nm => ivs_of nm d) order) []) (nth i sizes 0)) (seq 0 (length sizes))
                = map (fun '(nm, s) => wchrom_val a q (ivs_of nm d) s) (combine order sizes)).
  { rewrite <- (map_seq_combine (fun nm s => wchrom_val a q (ivs_of nm d) s) 0 0 order sizes Hlen).
    apply map_ext_in. intros i Hi. apply in_seq in Hi.
    rewrite (nth_map_lt (fun nm => ivs_of nm d) order i [] 0) by lia. apply wval_eq. }
  rewrite Evs. clear Evs.
  assert (HL : combine order sizes <> []).
  { destruct order; destruct sizes; simpl in *; try lia; discriminate. }
  unfold spec_windows. rewrite !map_map.
  destruct q; cbn [wchrom_val].
  - f_equal. f_equal. apply map_ext. intros [nm s]. reflexivity.
  - destruct (combine order sizes) as [|[nm s] L']; [congruence|]. cbn [map gconcat]. do 3 f_equal.
    f_equal. rewrite map_map. apply map_ext. intros [nm' s']. reflexivity.
  - set (RS := map (fun '(nm, s) => values_under (coverage s (ivs_of nm d)) (loc_windows a s (ivs_of nm d))) (combine order sizes)).
    replace (map (fun '(nm, s) => op_sum_n0 [GR (values_under (coverage s (ivs_of nm d)) (loc_windows a s (ivs_of nm d)))]) (combine order sizes))
      with (map rows_sn RS) by (unfold RS; rewrite map_map; apply map_ext; intros [nm s]; reflexivity).
    unfold red_mean_current. rewrite reduce_mean_fixed.
    + unfold rows_sn, op_sum_n0. f_equal.
      replace (map (fun x => let '(t, w) := let '(name, size) := x in (coverage size (ivs_of name d), loc_windows a size (ivs_of name d)) in values_under t w) (combine order sizes))
        with RS by (unfold RS; apply map_ext; intros [nm s]; reflexivity).
      reflexivity.
    + unfold RS. destruct (combine order sizes); [congruence|discriminate].
Qed.

(* Proofs/C08_overlap.v — T4: count_overlap and intersect, computed from independently sorted starts
   and stops, equal the per-base values  sum_x max(cov(A ++ B) x - 1, 0). *)
From Coq Require Import ZArith List Bool Lia Arith Permutation.
From BNP Require Import Base.Prims Base.PrimsFacts Model.C08 Proofs.C08.
Import ListNotations.
Open Scope Z_scope.

(* number of list elements at or before x *)
Definition cnt_le (x : Z) (l : list Z) : Z := sumZ (map (fun v => b2z (v <=? x)) l).
Lemma cnt_le_cons x v l : cnt_le x (v :: l) = b2z (v <=? x) + cnt_le x l. Proof. reflexivity. Qed.
Lemma cnt_le_nonneg x l : 0 <= cnt_le x l.
Proof. induction l as [|v l IH]; [unfold cnt_le; simpl; lia|]. rewrite cnt_le_cons. pose proof (b2z_range (v <=? x)). lia. Qed.
Lemma cnt_le_len x l : cnt_le x l <= len l.
Proof. induction l as [|v l IH]; [unfold cnt_le, len; simpl; lia|]. rewrite cnt_le_cons, len_cons. pose proof (b2z_range (v <=? x)). lia. Qed.
Lemma cnt_le_perm x a b : Permutation a b -> cnt_le x a = cnt_le x b.
Proof. intros H. unfold cnt_le. apply sumZ_map_perm. exact H. Qed.
Lemma zsorted_head_min a l : sortedb Z.leb (a :: l) = true -> forall v, In v l -> a <= v.
Proof.
  apply (sorted_head_min Z.leb (fun v => v)). intros u v. apply Z.leb_le.
Qed.
Lemma cnt_le_all_gt x l : (forall v, In v l -> x < v) -> cnt_le x l = 0.
Proof.
  induction l as [|v l IH]; intros H; [reflexivity|]. rewrite cnt_le_cons, IH by (intros u Hu; apply H; right; exact Hu).
  specialize (H v (or_introl eq_refl)). destruct (Z.leb_spec v x); simpl; lia.
Qed.

(* per base: the pairs (stop_i, start_{i+1}) of the two sorted sequences that straddle x *)
Definition straddle (x : Z) (E S' : list Z) : Z := sumZ (zip_with (fun e s => b2z ((s <=? x) && (x <? e))) E S').
Lemma straddle_cons x e E s S' : straddle x (e :: E) (s :: S') = b2z ((s <=? x) && (x <? e)) + straddle x E S'.
Proof. reflexivity. Qed.
Lemma straddle_count x : forall E S', sortedb Z.leb E = true -> sortedb Z.leb S' = true ->
  straddle x E S' = Z.max 0 (Z.min (cnt_le x S') (len E) - cnt_le x E).
Proof.
  induction E as [|e E IH]; intros S' HE HS.
  - change (straddle x [] S') with 0. change (cnt_le x []) with 0. change (len (@nil Z)) with 0. pose proof (cnt_le_nonneg x S'). lia.
  - destruct S' as [|s S''].
    + change (straddle x (e :: E) []) with 0. change (cnt_le x []) with 0.
      pose proof (cnt_le_nonneg x (e :: E)). pose proof (len_nonneg (e :: E)). lia.
    + rewrite straddle_cons.
      pose proof (zsorted_head_min _ _ HE) as HEmin. pose proof (zsorted_head_min _ _ HS) as HSmin.
      apply sortedb_cons in HE. destruct HE as [_ HE]. apply sortedb_cons in HS. destruct HS as [_ HS].
      rewrite (IH S'' HE HS). rewrite !cnt_le_cons, len_cons.
      pose proof (cnt_le_nonneg x S''). pose proof (cnt_le_nonneg x E). pose proof (len_nonneg E). pose proof (cnt_le_len x E).
      destruct (Z.leb_spec s x) as [Hs|Hs].
      * destruct (Z.leb_spec e x) as [He|He]; destruct (Z.ltb_spec x e); try lia; cbn [andb b2z]; [lia|].
        rewrite (cnt_le_all_gt x E) by (intros v Hv; specialize (HEmin v Hv); lia). lia.
      * rewrite (cnt_le_all_gt x S'') by (intros v Hv; specialize (HSmin v Hv); lia).
        cbn [andb b2z]. destruct (Z.leb_spec e x); cbn [b2z]; lia.
Qed.

(* coverage as a difference of counts of starts and stops *)
Lemma cov_counts I x : (forall i, In i I -> fst i <= snd i) ->
  cov I x = cnt_le x (map fst I) - cnt_le x (map snd I).
Proof.
  induction I as [|[s e] I IH]; intros H; [reflexivity|].
  cbn [map fst snd]. rewrite cov_cons, !cnt_le_cons, IH by (intros i Hi; apply H; right; exact Hi).
  specialize (H (s, e) (or_introl eq_refl)). cbn [fst snd] in H. unfold covers. cbn [fst snd].
  destruct (Z.leb_spec s x); destruct (Z.leb_spec e x); destruct (Z.ltb_spec x e); cbn [andb b2z]; lia.
Qed.

(* the heart of T4, for one base *)
Lemma straddle_is_excess x (all : list iv) (S E : list Z) :
  (forall i, In i all -> fst i <= snd i) ->
  Permutation S (map fst all) -> Permutation E (map snd all) ->
  sortedb Z.leb S = true -> sortedb Z.leb E = true ->
  straddle x E (tl S) = Z.max (cov all x - 1) 0.
Proof.
  intros Hwf HpS HpE HsS HsE.
  rewrite (cov_counts all x Hwf). rewrite <- (cnt_le_perm x _ _ HpS), <- (cnt_le_perm x _ _ HpE).
  assert (Hlen : len S = len E).
  { unfold len. rewrite (Permutation_length HpS), (Permutation_length HpE), !map_length. reflexivity. }
  destruct S as [|s0 S'].
  - cbn [tl]. assert (E0 : straddle x E [] = 0) by (unfold straddle; destruct E; reflexivity). rewrite E0.
    change (cnt_le x []) with 0. pose proof (cnt_le_nonneg x E). lia.
  - cbn [tl]. pose proof (zsorted_head_min _ _ HsS) as Hmin.
    apply sortedb_cons in HsS. destruct HsS as [_ HsS'].
    rewrite (straddle_count x E S' HsE HsS'). rewrite cnt_le_cons.
    pose proof (cnt_le_nonneg x S'). pose proof (cnt_le_len x S'). pose proof (cnt_le_nonneg x E).
    rewrite len_cons in Hlen.
    destruct (Z.leb_spec s0 x) as [Hs0|Hs0]; cbn [b2z].
    + lia.
    + rewrite (cnt_le_all_gt x S') by (intros v Hv; specialize (Hmin v Hv); lia). lia.
Qed.

(* ---------- sums ---------- *)
Lemma sumZ_map_add {T} (f g : T -> Z) l : sumZ (map (fun x => f x + g x) l) = sumZ (map f l) + sumZ (map g l).
Proof. induction l as [|a l IH]; simpl; [reflexivity|]. rewrite IH. ring. Qed.
Lemma sumZ_map_zero {T} (l : list T) : sumZ (map (fun _ => 0) l) = 0.
Proof. induction l; simpl; lia. Qed.
Lemma sumZ_swap {P X} (g : P -> X -> Z) (ps : list P) (xs : list X) :
  sumZ (map (fun p => sumZ (map (g p) xs)) ps) = sumZ (map (fun x => sumZ (map (fun p => g p x) ps)) xs).
Proof.
  induction ps as [|p ps IH]; simpl.
  - symmetry. apply sumZ_map_zero.
  - rewrite IH. rewrite <- sumZ_map_add. reflexivity.
Qed.
Lemma zip_with_combine {X Y W} (f : X -> Y -> W) a b : zip_with f a b = map (fun p => f (fst p) (snd p)) (combine a b).
Proof. revert b. induction a as [|x a IH]; intros [|y b]; simpl; try reflexivity. rewrite IH. reflexivity. Qed.

(* length of [s, e) cut to the bases p .. p+n-1 *)
Lemma count_range s e : forall n p,
  sumZ (map (fun x => b2z ((s <=? x) && (x <? e))) (arange_from p n))
  = Z.max 0 (Z.min e (p + Z.of_nat n) - Z.max s p).
Proof.
  induction n as [|n IH]; intros p.
  - simpl. lia.
  - cbn [arange_from map sumZ fold_right]. fold (sumZ (map (fun x => b2z ((s <=? x) && (x <? e))) (arange_from (p + 1) n))).
    rewrite IH. destruct (Z.leb_spec s p); destruct (Z.ltb_spec p e); cbn [andb b2z]; lia.
Qed.
Lemma count_inside s e size : 0 <= s -> e <= size ->
  sumZ (map (fun x => b2z ((s <=? x) && (x <? e))) (bases size)) = Z.max (e - s) 0.
Proof.
  intros Hs He. unfold bases, arange. rewrite count_range. lia.
Qed.

(* T4: count_overlap *)
Lemma count_overlap_identity A B size :
  (forall i, In i (A ++ B) -> 0 <= fst i /\ fst i <= snd i /\ snd i <= size) ->
  count_overlap_model A B = overlap_spec A B size.
Proof.
  intros Hwf. unfold count_overlap_model, overlap_spec.
  set (S := isort Z.leb (map fst A ++ map fst B)). set (E := isort Z.leb (map snd A ++ map snd B)).
  assert (HpS : Permutation S (map fst (A ++ B))) by (rewrite map_app; apply isort_perm).
  assert (HpE : Permutation E (map snd (A ++ B))) by (rewrite map_app; apply isort_perm).
  assert (HsS : sortedb Z.leb S = true) by (apply isort_sorted; exact zleb_total).
  assert (HsE : sortedb Z.leb E = true) by (apply isort_sorted; exact zleb_total).
  rewrite zip_with_combine.
  (* every term is a count of bases *)
  rewrite (map_ext_in _ (fun p => sumZ (map (fun x => b2z ((snd p <=? x) && (x <? fst p))) (bases size)))).
  2:{ intros [e s] Hp. cbn [fst snd]. symmetry. apply count_inside.
      - apply in_combine_r in Hp. assert (Hs : In s S) by (destruct S; [destruct Hp|right; exact Hp]).
        apply (Permutation_in _ HpS) in Hs. apply in_map_iff in Hs. destruct Hs as [i [Ei Hi]]. subst s. apply (Hwf i Hi).
      - apply in_combine_l in Hp. apply (Permutation_in _ HpE) in Hp. apply in_map_iff in Hp. destruct Hp as [i [Ei Hi]]. subst e. apply (Hwf i Hi). }
  rewrite (sumZ_swap (fun p x => b2z ((snd p <=? x) && (x <? fst p)))).
  f_equal. apply map_ext. intros x.
  transitivity (straddle x E (tl S)); [unfold straddle; rewrite zip_with_combine; reflexivity|].
  apply straddle_is_excess; try assumption.
  intros i Hi. apply (Hwf i Hi).
Qed.

(* under internal disjointness the per-base excess is the indicator of "in A and in B" *)
Lemma excess_disjoint A B x : cov A x <= 1 -> cov B x <= 1 ->
  Z.max (cov (A ++ B) x - 1) 0 = b2z (covered A x && covered B x).
Proof.
  intros HA HB. rewrite cov_app. unfold covered. pose proof (cov_nonneg A x). pose proof (cov_nonneg B x).
  destruct (Z.ltb_spec 0 (cov A x)); destruct (Z.ltb_spec 0 (cov B x)); cbn [andb b2z]; lia.
Qed.
Lemma overlap_disjoint A B size : disjointb A size = true -> disjointb B size = true ->
  overlap_spec A B size = overlap_sets_spec A B size.
Proof.
  intros HA HB. unfold overlap_spec, overlap_sets_spec, count_bases. f_equal. apply map_ext_in. intros x Hx.
  unfold disjointb in *. rewrite forallb_forall in HA, HB.
  apply excess_disjoint; apply Z.leb_le; [apply HA|apply HB]; exact Hx.
Qed.

(* T4: intersect — the coverage of the returned pieces is the per-base excess, for every base *)
Lemma cov_filter_nonempty out x : cov (filter (fun p => fst p <? snd p) out) x = cov out x.
Proof.
  induction out as [|[s e] out IH]; [reflexivity|]. cbn [filter fst snd]. destruct (Z.ltb_spec s e).
  - rewrite !cov_cons, IH. reflexivity.
  - rewrite cov_cons, IH. unfold covers. cbn [fst snd]. destruct (Z.leb_spec s x); destruct (Z.ltb_spec x e); simpl; lia.
Qed.
Lemma cov_pairs x : forall E S', cov (zip_with (fun e s => (s, e)) E S') x = straddle x E S'.
Proof.
  induction E as [|e E IH]; intros [|s S']; try reflexivity.
  cbn [zip_with]. rewrite cov_cons, IH, straddle_cons. reflexivity.
Qed.
Lemma intersect_coverage A B x : (forall i, In i (A ++ B) -> fst i <= snd i) ->
  cov (intersect_model A B) x = Z.max (cov (A ++ B) x - 1) 0.
Proof.
  intros Hwf. unfold intersect_model. rewrite cov_filter_nonempty, cov_pairs.
  pose proof (isort_perm pos_leb (A ++ B)) as Hp.
  apply straddle_is_excess.
  - exact Hwf.
  - apply Permutation_map. exact Hp.
  - eapply Permutation_trans; [apply isort_perm|]. apply Permutation_map. exact Hp.
  - change (sortedb Z.leb (map fst (isort pos_leb (A ++ B))) = true).
    rewrite <- Proofs.C08.sorted_pos_fst_aux. apply isort_sorted. exact pos_leb_total.
  - apply isort_sorted. exact zleb_total.
Qed.

(* Proofs/C18_int.v — integers: parsing is exact (ragged path and digit-matrix path), formatting with the
   exact width is canonical and inverse to parsing, every conversion is a map of a per-row function. *)
From Coq Require Import ZArith List Bool Lia.
From BNP Require Import Base.Prims Base.PrimsFacts Model.C18 Proofs.C18_power.
Import ListNotations.
Open Scope Z_scope.

Definition int64 (v : Z) : Prop := - 2 ^ 63 <= v < 2 ^ 63.

(* ---------- arithmetic modulo 2^64 ---------- *)
Lemma two64_pos : 0 < two64. Proof. reflexivity. Qed.
Lemma two64_eq : two64 = 2 * two63. Proof. reflexivity. Qed.
Lemma wrap64_id v : int64 v -> wrap64 v = v.
Proof.
  unfold int64, wrap64. change (2 ^ 63) with two63. intros H.
  rewrite Z.mod_small; [lia|]. rewrite two64_eq. lia.
Qed.
Lemma wrap64_mod a : (wrap64 a) mod two64 = a mod two64.
Proof.
  unfold wrap64. rewrite Zminus_mod_idemp_l. f_equal. lia.
Qed.
Lemma wrap64_cong a b : a mod two64 = b mod two64 -> wrap64 a = wrap64 b.
Proof.
  intros H. unfold wrap64. f_equal.
  rewrite <- (Zplus_mod_idemp_l a), <- (Zplus_mod_idemp_l b). rewrite H. reflexivity.
Qed.
Lemma wrap64_range a : int64 (wrap64 a).
Proof.
  unfold int64, wrap64. change (2 ^ 63) with two63.
  pose proof (Z.mod_pos_bound (a + two63) two64 two64_pos). rewrite two64_eq in *. lia.
Qed.
Lemma mod_combine x a b c d n : n <> 0 -> a mod n = b mod n -> c mod n = d mod n ->
  (x * a + c) mod n = (x * b + d) mod n.
Proof.
  intros Hn H1 H2.
  rewrite (Z.add_mod (x * a) c n Hn), (Z.add_mod (x * b) d n Hn).
  rewrite (Z.mul_mod x a n Hn), (Z.mul_mod x b n Hn). rewrite H1, H2. reflexivity.
Qed.
Lemma dotp_mod64 : forall ds ps,
  (dotp ds (map pow10_i64 ps)) mod two64 = (dotp ds (map (Z.pow 10) ps)) mod two64.
Proof.
  induction ds as [|d ds IH]; intros ps; [reflexivity|].
  destruct ps as [|p ps]; [reflexivity|]. cbn [map dotp].
  apply mod_combine; [discriminate| |apply IH].
  unfold pow10_i64, m_pow10. apply wrap64_mod.
Qed.

(* ---------- Horner's rule against the explicit powers ---------- *)
Definition dig (c : Z) : Z := c - 48.
Lemma horner_dotp : forall ds acc,
  horner acc ds = acc * 10 ^ len ds + dotp (map dig ds) (map (Z.pow 10) (down (length ds))).
Proof.
  induction ds as [|d ds IH]; intros acc.
  - unfold len. simpl. lia.
  - cbn [horner length down map dotp]. rewrite IH. rewrite len_cons.
    replace (1 + len ds) with (Z.succ (len ds)) by lia.
    rewrite Z.pow_succ_r by apply len_nonneg. unfold dig, len. lia.
Qed.
Lemma horner_zeros : forall n ds, horner 0 (repeat 48 n ++ ds) = horner 0 ds.
Proof. induction n as [|n IH]; intros ds; [reflexivity|]. cbn [repeat app horner]. apply IH. Qed.

(* ---------- digit encoding of a digit text ---------- *)
Lemma is_digit_code c : is_digit c = true -> digit_code c = Some (dig c).
Proof. unfold is_digit, digit_code, dig. intros H. rewrite H. reflexivity. Qed.
Lemma encode_digits_ok : forall t, forallb is_digit t = true -> encode_digits t = Some (map dig t).
Proof.
  induction t as [|c t IH]; intros H; [reflexivity|].
  cbn [forallb] in H. apply andb_true_iff in H. destruct H as [Hc Ht].
  cbn [encode_digits map]. rewrite (is_digit_code c Hc), (IH Ht). reflexivity.
Qed.
Lemma encode_rows_ok : forall ts, Forall (fun t => forallb is_digit t = true) ts ->
  encode_rows ts = Some (map (map dig) ts).
Proof.
  induction ts as [|t ts IH]; intros H; [reflexivity|].
  inversion H as [|? ? Ht Hts]; subst. cbn [encode_rows map].
  rewrite (encode_digits_ok t Ht), (IH Hts). reflexivity.
Qed.

Lemma zip3_map {A B C} (f : A -> B) (g : A -> C) : forall l,
  zip3 l (map f l) (map g l) = map (fun x => (x, f x, g x)) l.
Proof. induction l as [|x l IH]; [reflexivity|]. cbn [map zip3]. rewrite IH. reflexivity. Qed.
Lemma combine_map {A B} (f : A -> B) : forall l, combine l (map f l) = map (fun x => (x, f x)) l.
Proof. induction l as [|x l IH]; [reflexivity|]. cbn [map combine]. rewrite IH. reflexivity. Qed.

(* ---------- what a valid integer text looks like ---------- *)
Lemma digits_value_some ds v : digits_value ds = Some v ->
  ds <> [] /\ forallb is_digit ds = true /\ v = horner 0 ds.
Proof.
  unfold digits_value. destruct ds as [|d r]; [discriminate|].
  destruct (forallb is_digit (d :: r)) eqn:E; [|discriminate].
  intros H. inversion H. repeat split. discriminate.
Qed.
Lemma is_digit_not_sign c : is_digit c = true -> (c =? 45) = false /\ (c =? 43) = false.
Proof.
  unfold is_digit. intros H. apply andb_true_iff in H. destruct H as [H1 H2].
  apply Z.leb_le in H1. split; apply Z.eqb_neq; lia.
Qed.
(* sign-stripped text: all digits, same length, and its Horner value is |v| *)
Lemma text_value_strip t v : text_value t = Some v ->
  1 <= len t /\ forallb is_digit (strip_sign t) = true /\ len (strip_sign t) = len t
  /\ v = horner 0 (strip_sign t) * (if head_is 45 t then -1 else 1).
Proof.
  destruct t as [|c ds]; [discriminate|]. unfold text_value, strip_sign, head_is.
  pose proof (len_nonneg ds) as Hn.
  destruct (Z.eqb_spec c 45) as [E|E].
  - destruct (digits_value ds) as [u|] eqn:D; [|discriminate]. cbn [option_map]. intros H. inversion H.
    apply digits_value_some in D. destruct D as [_ [D1 D2]].
    cbn [orb set_head]. rewrite !len_cons. cbn [forallb horner]. rewrite D1.
    repeat split; try reflexivity; try lia. subst u. simpl. lia.
  - destruct (Z.eqb_spec c 43) as [E2|E2].
    + intros D. apply digits_value_some in D. destruct D as [_ [D1 D2]].
      cbn [orb set_head]. rewrite !len_cons. cbn [forallb horner]. rewrite D1.
      repeat split; try reflexivity; try lia. subst v. simpl. lia.
    + intros D. apply digits_value_some in D. destruct D as [_ [D1 D2]].
      cbn [orb]. rewrite len_cons. repeat split; try assumption; try lia.
Qed.

(* ---------- T2: str_to_int, ragged path ---------- *)
Definition int_of_row (t : list Z) : Z :=
  str_to_int_row t (map dig (strip_sign t)) (down (length t)).
Lemma str_to_int_rows_map texts :
  Forall (fun t => exists v, text_value t = Some v) texts ->
  str_to_int_rows texts = Some (map int_of_row texts).
Proof.
  intros H. unfold str_to_int_rows.
  rewrite encode_rows_ok.
  2:{ apply Forall_map. eapply Forall_impl; [|exact H]. intros t [v Hv].
      apply text_value_strip in Hv. tauto. }
  rewrite power_rows_plain.
  2:{ apply Forall_map. eapply Forall_impl; [|exact H]. intros t [v Hv].
      apply text_value_strip in Hv. tauto. }
  f_equal.
  rewrite (map_map strip_sign (map dig)), (map_map len (fun l => down (Z.to_nat l))).
  rewrite zip3_map, map_map. apply map_ext. intros t. unfold int_of_row.
  unfold len. rewrite Nat2Z.id. reflexivity.
Qed.
Lemma int_of_row_value t v : text_value t = Some v -> int_of_row t = wrap64 v.
Proof.
  intros H. apply text_value_strip in H. destruct H as [_ [Hd [Hl Hv]]].
  unfold int_of_row, str_to_int_row, m_signed. apply wrap64_cong.
  rewrite Zmult_mod, wrap64_mod, dotp_mod64, <- Zmult_mod. f_equal.
  subst v. f_equal.
  rewrite (horner_dotp (strip_sign t) 0). simpl (0 * _).
  assert (E : length (strip_sign t) = length t) by (unfold len in Hl; lia).
  rewrite E. reflexivity.
Qed.
Theorem str_to_int_exact : forall texts vs,
  Forall2 (fun t v => text_value t = Some v /\ int64 v) texts vs ->
  str_to_int_rows texts = Some vs.
Proof.
  intros texts vs H. rewrite str_to_int_rows_map.
  - f_equal. induction H as [|t v texts vs [Hv Hr] _ IH]; [reflexivity|].
    cbn [map]. rewrite IH. rewrite (int_of_row_value t v Hv), (wrap64_id v Hr). reflexivity.
  - induction H as [|t v texts vs [Hv Hr] _ IH]; constructor; [exists v; exact Hv|exact IH].
Qed.
(* the value of a row is a function of that row alone *)
Theorem str_to_int_rowwise : forall texts,
  Forall (fun t => exists v, text_value t = Some v) texts ->
  str_to_int_rows texts = Some (map int_of_row texts).
Proof. exact str_to_int_rows_map. Qed.

(* ---------- T2b: the right-aligned digit matrix ---------- *)
Lemma len_le_max_len : forall texts t, In t texts -> len t <= max_len texts.
Proof.
  induction texts as [|x texts IH]; intros t Hin; [contradiction|].
  unfold max_len in *. cbn [map fold_right]. destruct Hin as [E|Hin]; [subst; lia|].
  specialize (IH t Hin). lia.
Qed.
Lemma max_len_nonneg texts : 0 <= max_len texts.
Proof. induction texts as [|x texts IH]; unfold max_len in *; cbn [map fold_right]; lia. Qed.
Lemma forallb_repeat48 n : forallb is_digit (repeat 48 n) = true.
Proof. induction n as [|n IH]; [reflexivity|]. cbn [repeat forallb]. rewrite IH. reflexivity. Qed.
Theorem str_to_int_matrix_exact : forall texts vs,
  Forall2 (fun t v => digits_value t = Some v /\ int64 v) texts vs ->
  str_to_int_matrix texts = Some vs.
Proof.
  intros texts vs H. unfold str_to_int_matrix.
  set (w := max_len texts).
  assert (Hall : Forall (fun t => forallb is_digit t = true /\ len t <= w) texts).
  { apply Forall_forall. intros t Hin. split.
    - clear - H Hin. induction H as [|t' v texts vs [Hv _] _ IH]; [contradiction|].
      destruct Hin as [E|Hin]; [subst; apply digits_value_some in Hv; tauto|auto].
    - apply len_le_max_len. exact Hin. }
  rewrite encode_rows_ok.
  2:{ apply Forall_map. eapply Forall_impl; [|exact Hall]. intros t [Hd _].
      unfold pad_left. rewrite forallb_app, forallb_repeat48, Hd. reflexivity. }
  f_equal. rewrite !map_map.
  clear - H Hall. subst w. set (w := max_len texts) in *. clearbody w.
  induction H as [|t v texts vs [Hv Hr] _ IH]; [reflexivity|].
  inversion Hall as [|? ? [Hd Hl] Hall']; subst.
  cbn [map]. rewrite (IH Hall'). f_equal.
  rewrite <- (wrap64_id v Hr). apply wrap64_cong. rewrite dotp_mod64. f_equal.
  apply digits_value_some in Hv. destruct Hv as [_ [_ Hv]]. subst v.
  rewrite <- (horner_zeros (Z.to_nat (m_n_fill w (len t))) t).
  fold (pad_left w t). rewrite (horner_dotp (pad_left w t) 0). simpl (0 * _).
  assert (E : length (pad_left w t) = Z.to_nat w).
  { unfold pad_left, m_n_fill. rewrite app_length, repeat_length. unfold len in *. lia. }
  rewrite E. reflexivity.
Qed.

(* ---------- exact digit count ---------- *)
Lemma pow10_pos k : 0 <= k -> 0 < 10 ^ k.
Proof. intros H. apply Z.pow_pos_nonneg; lia. Qed.
Lemma pow10_mono a b : 0 <= a <= b -> 10 ^ a <= 10 ^ b.
Proof. intros H. apply Z.pow_le_mono_r; lia. Qed.
Lemma count_inv a : forall k,
  let c := count_pow_le k a in
  0 <= c <= Z.of_nat k /\ (0 < c -> 10 ^ c <= a) /\ (c < Z.of_nat k -> a < 10 ^ (c + 1)).
Proof.
  induction k as [|k IH]; [cbn; lia|].
  cbn zeta in *. cbn [count_pow_le]. set (c := count_pow_le k a) in *.
  destruct IH as [Hc [Hlo Hhi]].
  destruct (Z.leb_spec (10 ^ Z.of_nat (S k)) a) as [Hle|Hlt].
  - assert (c = Z.of_nat k).
    { destruct (Z.eq_dec c (Z.of_nat k)) as [E|E]; [exact E|]. exfalso.
      assert (a < 10 ^ (c + 1)) by (apply Hhi; lia).
      pose proof (pow10_mono (c + 1) (Z.of_nat (S k))). lia. }
    replace (c + 1) with (Z.of_nat (S k)) by lia. lia.
  - rewrite Z.add_0_r. repeat split; try lia.
    intros _. destruct (Z.eq_dec c (Z.of_nat k)) as [E|E].
    + rewrite E. replace (Z.of_nat k + 1) with (Z.of_nat (S k)) by lia. exact Hlt.
    + apply Hhi. lia.
Qed.
Lemma width_exact_spec n : Z.abs n < 10 ^ 19 ->
  let w := width_exact n in
  1 <= w <= 19 /\ Z.abs n < 10 ^ w /\ (0 < Z.abs n -> 10 ^ (w - 1) <= Z.abs n).
Proof.
  intros Hn. cbn zeta. unfold width_exact.
  pose proof (count_inv (Z.abs n) 19) as H. cbn zeta in H.
  set (c := count_pow_le 19 (Z.abs n)) in *. destruct H as [Hc [Hlo Hhi]].
  change (Z.of_nat 19) with 19 in *.
  assert (c < 19).
  { destruct (Z.eq_dec c 19) as [E|E]; [|lia]. rewrite E in Hlo. lia. }
  repeat split; try lia.
  - rewrite Z.add_comm. apply Hhi. lia.
  - intros Hpos. replace (1 + c - 1) with c by lia.
    destruct (Z.eq_dec c 0) as [E|E]; [rewrite E; simpl; lia|apply Hlo; lia].
Qed.
Lemma width_exact_ge1 n : 1 <= width_exact n.
Proof. unfold width_exact. pose proof (count_inv (Z.abs n) 19) as H. cbn zeta in H. lia. Qed.

(* ---------- digits of a number ---------- *)
Definition digit_at (a p : Z) : Z := 48 + (a / 10 ^ p) mod 10.
Lemma horner_digits a : 0 <= a -> forall w acc,
  horner acc (map (digit_at a) (down w)) = acc * 10 ^ Z.of_nat w + a mod 10 ^ Z.of_nat w.
Proof.
  intros Ha. induction w as [|w IH]; intros acc.
  - simpl. rewrite Z.mod_1_r. lia.
  - cbn [down map horner]. rewrite IH. unfold digit_at.
    replace (Z.of_nat (S w)) with (Z.succ (Z.of_nat w)) by lia.
    rewrite Z.pow_succ_r by lia.
    pose proof (pow10_pos (Z.of_nat w) ltac:(lia)) as Hp.
    rewrite (Z.mul_comm 10 (10 ^ Z.of_nat w)).
    rewrite (Z.rem_mul_r a (10 ^ Z.of_nat w) 10) by lia. lia.
Qed.
Lemma digit_at_is_digit a p : is_digit (digit_at a p) = true.
Proof.
  unfold is_digit, digit_at. pose proof (Z.mod_pos_bound (a / 10 ^ p) 10 ltac:(lia)).
  apply andb_true_iff. split; apply Z.leb_le; lia.
Qed.
Lemma forallb_digits a w : forallb is_digit (map (digit_at a) (down w)) = true.
Proof. induction w as [|w IH]; [reflexivity|]. cbn [down map forallb]. rewrite digit_at_is_digit, IH. reflexivity. Qed.
Lemma In_down n p : In p (down n) -> 0 <= p < Z.of_nat n.
Proof. induction n as [|n IH]; [contradiction|]. cbn [down]. intros [E|H]; [lia|]. specialize (IH H). lia. Qed.
Lemma pow10_u64_small p : 0 <= p <= 19 -> pow10_u64 p = 10 ^ p.
Proof.
  intros H. unfold pow10_u64. apply Z.mod_small. split; [pose proof (pow10_pos p); lia|].
  pose proof (pow10_mono p 19 ltac:(lia)). assert (10 ^ 19 < two64) by reflexivity. lia.
Qed.

(* ---------- ints_to_strings is a map of a per-row function ---------- *)
Definition int_text (width mag pw10 : Z -> Z) (n : Z) : list Z :=
  let t := map (fun p => 48 + (mag n / pw10 p) mod 10) (down (Z.to_nat (width n + b2z (n <? 0)))) in
  if n <? 0 then set_head 45 t else t.
Lemma ints_to_strings_gen_map width mag pw10 ns :
  (forall n, 1 <= width n) ->
  ints_to_strings_gen width mag pw10 ns = map (int_text width mag pw10) ns.
Proof.
  intros Hw. unfold ints_to_strings_gen.
  rewrite power_rows_plain.
  2:{ apply Forall_map. apply Forall_forall. intros n _. specialize (Hw n). unfold b2z. destruct (n <? 0); lia. }
  rewrite map_map. rewrite combine_map. rewrite map_map. reflexivity.
Qed.
Theorem ints_to_strings_gen_rowwise width mag pw10 ns :
  (forall n, 1 <= width n) ->
  ints_to_strings_gen width mag pw10 ns
  = concat (map (fun n => ints_to_strings_gen width mag pw10 [n]) ns).
Proof.
  intros Hw. rewrite ints_to_strings_gen_map by exact Hw.
  induction ns as [|n ns IH]; [reflexivity|].
  cbn [map concat]. rewrite (ints_to_strings_gen_map width mag pw10 [n] Hw). cbn [map app].
  f_equal. exact IH.
Qed.
Lemma ndigits_fuel_ge1 : forall f a, 1 <= ndigits_fuel f a.
Proof.
  induction f as [|f IH]; intros a; cbn [ndigits_fuel]; [lia|].
  destruct (a <? 10); [lia|]. specialize (IH (a / 10)). lia.
Qed.
Lemma width_log10_ge1 n : 1 <= width_log10 n.
Proof.
  unfold width_log10, ndigits.
  set (x := round53 _). pose proof (ndigits_fuel_ge1 (S (Z.to_nat (Z.log2 x))) x).
  destruct (_ <=? x); lia.
Qed.

(* ---------- T1: the repaired formatter writes the canonical text ---------- *)
Lemma canonical_digits_of a w : 0 < a -> 10 ^ (Z.of_nat w - 1) <= a < 10 ^ Z.of_nat w -> (1 <= w)%nat ->
  canonical_digits (map (digit_at a) (down w)) = true.
Proof.
  intros Ha Hb Hw. destruct w as [|w]; [lia|].
  cbn [down map canonical_digits]. rewrite digit_at_is_digit, forallb_digits. cbn [andb].
  rewrite andb_true_r. apply negb_true_iff. apply Z.eqb_neq. unfold digit_at.
  replace (Z.of_nat (S w) - 1) with (Z.of_nat w) in Hb by lia.
  pose proof (pow10_pos (Z.of_nat w) ltac:(lia)) as Hp.
  assert (1 <= a / 10 ^ Z.of_nat w < 10).
  { split.
    - apply Z.div_le_lower_bound; lia.
    - apply Z.div_lt_upper_bound; [lia|].
      replace (Z.of_nat (S w)) with (Z.succ (Z.of_nat w)) in Hb by lia.
      rewrite Z.pow_succ_r in Hb by lia. lia. }
  rewrite Z.mod_small by lia. lia.
Qed.
Lemma digits_u64 a k : (k <= 20)%nat ->
  map (fun p => 48 + (a / pow10_u64 p) mod 10) (down k) = map (digit_at a) (down k).
Proof.
  intros Hk. apply map_ext_in. intros p Hp. apply In_down in Hp. unfold digit_at.
  rewrite pow10_u64_small by lia. reflexivity.
Qed.
Lemma int_text_neg width mag pw n : n < 0 ->
  int_text width mag pw n
  = set_head 45 (map (fun p => 48 + (mag n / pw p) mod 10) (down (Z.to_nat (width n + 1)))).
Proof.
  intros Hneg. unfold int_text. cbn zeta. destruct (Z.ltb_spec n 0) as [_|Hpos]; [|lia]. unfold b2z. reflexivity.
Qed.
Lemma int_text_pos width mag pw n : 0 <= n ->
  int_text width mag pw n = map (fun p => 48 + (mag n / pw p) mod 10) (down (Z.to_nat (width n))).
Proof.
  intros Hneg. unfold int_text. cbn zeta. destruct (Z.ltb_spec n 0) as [Hpos|_]; [lia|]. unfold b2z. rewrite Z.add_0_r. reflexivity.
Qed.
Lemma to_nat_succ w : 0 <= w -> Z.to_nat (w + 1) = S (Z.to_nat w).
Proof. intros. lia. Qed.
Lemma set_head_down (f : Z -> Z) k : set_head 45 (map f (down (S k))) = 45 :: map f (down k).
Proof. reflexivity. Qed.
Lemma width_exact_range n : Z.abs n < 10 ^ 19 -> 1 <= width_exact n <= 19.
Proof. intros Hn. pose proof (width_exact_spec n Hn) as H. cbn zeta in H. destruct H as [Hw _]. exact Hw. Qed.
Lemma width_exact_hi n : Z.abs n < 10 ^ 19 -> Z.abs n < 10 ^ width_exact n.
Proof. intros Hn. pose proof (width_exact_spec n Hn) as H. cbn zeta in H. destruct H as [_ [Hw _]]. exact Hw. Qed.
Lemma width_exact_lo n : Z.abs n < 10 ^ 19 -> 0 < Z.abs n -> 10 ^ (width_exact n - 1) <= Z.abs n.
Proof. intros Hn. pose proof (width_exact_spec n Hn) as H. cbn zeta in H. destruct H as [_ [_ Hw]]. exact Hw. Qed.
Lemma int_text_exact_neg n : Z.abs n < 10 ^ 19 -> n < 0 ->
  int_text width_exact Z.abs pow10_u64 n = 45 :: map (digit_at (Z.abs n)) (down (Z.to_nat (width_exact n))).
Proof.
  intros Hn Hneg. pose proof (width_exact_range n Hn) as Hw.
  rewrite int_text_neg by exact Hneg. rewrite to_nat_succ by lia.
  rewrite digits_u64 by lia. apply set_head_down.
Qed.
Lemma int_text_exact_pos n : Z.abs n < 10 ^ 19 -> 0 <= n ->
  int_text width_exact Z.abs pow10_u64 n = map (digit_at (Z.abs n)) (down (Z.to_nat (width_exact n))).
Proof.
  intros Hn Hpos. pose proof (width_exact_range n Hn) as Hw.
  rewrite int_text_pos by exact Hpos. rewrite digits_u64 by lia. reflexivity.
Qed.

(* the digit string of a > 0 with its exact width w *)
Section Digits.
  Variable a w : Z.
  Hypothesis Hw : 1 <= w.
  Hypothesis Hhi : a < 10 ^ w.
  Hypothesis Ha : 0 <= a.
  Let ds := map (digit_at a) (down (Z.to_nat w)).
  Lemma ds_value : horner 0 ds = a.
  Proof.
    unfold ds. rewrite horner_digits by exact Ha. rewrite Z2Nat.id by lia. rewrite Z.mod_small; lia.
  Qed.
  Lemma ds_cons : ds = digit_at a (w - 1) :: map (digit_at a) (down (Z.to_nat (w - 1))).
  Proof.
    unfold ds. replace (Z.to_nat w) with (S (Z.to_nat (w - 1))) by lia. cbn [down map].
    rewrite Z2Nat.id by lia. reflexivity.
  Qed.
  Lemma ds_digits : forallb is_digit ds = true.
  Proof. apply forallb_digits. Qed.
  Lemma ds_digits_value : digits_value ds = Some a.
  Proof.
    unfold digits_value. pose proof ds_digits as F. pose proof ds_value as V. rewrite ds_cons in *.
    rewrite F, V. reflexivity.
  Qed.
  Lemma ds_canonical : 10 ^ (w - 1) <= a -> 0 < a -> canonical_digits ds = true.
  Proof.
    intros Hlo Hpos. unfold ds. apply canonical_digits_of; rewrite ?Z2Nat.id; lia.
  Qed.
  Lemma ds_head_not_sign : (digit_at a (w - 1) =? 45) = false /\ (digit_at a (w - 1) =? 43) = false.
  Proof. apply is_digit_not_sign. apply digit_at_is_digit. Qed.
End Digits.

Lemma canonical_neg_abs ds a : canonical_digits ds = true -> digits_value ds = Some a ->
  canonical (45 :: ds) = true /\ text_value (45 :: ds) = Some (- a).
Proof.
  intros Hc Hv. split.
  - unfold canonical, unsigned_part. rewrite Z.eqb_refl. rewrite Hc. apply orb_true_r.
  - unfold text_value. rewrite Z.eqb_refl. rewrite Hv. reflexivity.
Qed.
Lemma canonical_pos_abs c r a : (c =? 45) = false -> (c =? 43) = false ->
  canonical_digits (c :: r) = true -> digits_value (c :: r) = Some a ->
  canonical (c :: r) = true /\ text_value (c :: r) = Some a.
Proof.
  intros H45 H43 Hc Hv. split.
  - unfold canonical, unsigned_part. rewrite H45. rewrite Hc. apply orb_true_r.
  - unfold text_value. rewrite H45, H43. exact Hv.
Qed.
Lemma int_text_canonical_neg n : Z.abs n < 10 ^ 19 -> n < 0 ->
  canonical (int_text width_exact Z.abs pow10_u64 n) = true
  /\ text_value (int_text width_exact Z.abs pow10_u64 n) = Some n.
Proof.
  intros Hn Hneg. rewrite (int_text_exact_neg n Hn Hneg).
  pose proof (width_exact_range n Hn) as Hw. pose proof (width_exact_hi n Hn) as Hhi.
  pose proof (width_exact_lo n Hn ltac:(lia)) as Hlo.
  assert (Ha : 0 < Z.abs n) by lia.
  replace (Some n) with (Some (- Z.abs n)) by (f_equal; lia).
  clear Hn Hneg. revert Hw Hhi Hlo Ha. generalize (width_exact n) as w. generalize (Z.abs n) as a.
  intros a w Hw Hhi Hlo Ha.
  apply canonical_neg_abs; [apply ds_canonical; lia|apply ds_digits_value; lia].
Qed.
Lemma int_text_canonical_zero :
  canonical (int_text width_exact Z.abs pow10_u64 0) = true
  /\ text_value (int_text width_exact Z.abs pow10_u64 0) = Some 0.
Proof. vm_compute. split; reflexivity. Qed.
Lemma int_text_canonical_pos n : Z.abs n < 10 ^ 19 -> 0 < n ->
  canonical (int_text width_exact Z.abs pow10_u64 n) = true
  /\ text_value (int_text width_exact Z.abs pow10_u64 n) = Some n.
Proof.
  intros Hn Hpos. rewrite (int_text_exact_pos n Hn ltac:(lia)).
  pose proof (width_exact_range n Hn) as Hw. pose proof (width_exact_hi n Hn) as Hhi.
  pose proof (width_exact_lo n Hn ltac:(lia)) as Hlo.
  assert (Ha : 0 < Z.abs n) by lia.
  replace (Some n) with (Some (Z.abs n)) by (f_equal; lia).
  clear Hn Hpos. revert Hw Hhi Hlo Ha. generalize (width_exact n) as w. generalize (Z.abs n) as a.
  intros a w Hw Hhi Hlo Ha.
  rewrite (ds_cons a w ltac:(lia)).
  pose proof (ds_head_not_sign a w) as [H45 H43].
  apply canonical_pos_abs; try assumption; rewrite <- (ds_cons a w ltac:(lia));
    [apply ds_canonical; lia|apply ds_digits_value; lia].
Qed.
Theorem int_text_canonical n : Z.abs n < 10 ^ 19 ->
  canonical (int_text width_exact Z.abs pow10_u64 n) = true
  /\ text_value (int_text width_exact Z.abs pow10_u64 n) = Some n.
Proof.
  intros Hn. destruct (Z.lt_trichotomy n 0) as [H|[H|H]].
  - apply int_text_canonical_neg; assumption.
  - subst n. apply int_text_canonical_zero.
  - apply int_text_canonical_pos; assumption.
Qed.
Lemma int64_abs_lt n : int64 n -> Z.abs n < 10 ^ 19.
Proof. unfold int64. intros H. assert (2 ^ 63 < 10 ^ 19) by reflexivity. lia. Qed.

Theorem format_canonical : forall ns, Forall int64 ns ->
  Forall2 (fun n t => canonical t = true /\ text_value t = Some n) ns (ints_to_strings ns).
Proof.
  intros ns H. unfold ints_to_strings. rewrite ints_to_strings_gen_map by apply width_exact_ge1.
  induction H as [|n ns Hn _ IH]; cbn [map]; constructor; [|exact IH].
  apply int_text_canonical. apply int64_abs_lt. exact Hn.
Qed.
(* format then parse is the identity *)
Theorem format_then_parse : forall ns, Forall int64 ns -> str_to_int_rows (ints_to_strings ns) = Some ns.
Proof.
  intros ns H. apply str_to_int_exact.
  pose proof (format_canonical ns H) as F.
  assert (G : Forall2 (fun t n => text_value t = Some n /\ int64 n) (ints_to_strings ns) ns).
  { clear - F H. induction F as [|n t ns ts [_ Hv] _ IH]; [constructor|].
    inversion H; subst. constructor; [split; assumption|apply IH; assumption]. }
  exact G.
Qed.

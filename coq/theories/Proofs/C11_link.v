(* Proofs/C11_link.v — link theorems: on every correspondence case, "the implementation agrees with the model"
   (model_ok) implies "the implementation satisfies the property" (spec_ok), given the well-formedness of the case
   and the parts of spec_ok that compare two observations with each other (in-memory float, histogram edges,
   in-memory pipeline results) — those have no model side. *)
From Coq Require Import ZArith List Bool Lia Arith.
From BNP Require Import Base.Prims Base.PrimsFacts Model.C11 Corr.C11
  Proofs.C11 Proofs.C11_rechunk Proofs.C11_groupby Proofs.C11_graph Proofs.C11_pipeline Proofs.C11_spec.
Import ListNotations.
Open Scope Z_scope.

(* ---------- boolean equalities ---------- *)
Lemma list_eqb_eq {A} (eqb : A -> A -> bool) : (forall x y, eqb x y = true -> x = y) ->
  forall a b, list_eqb eqb a b = true -> a = b.
Proof.
  intros H. induction a as [|x a IH]; intros [|y b] E; simpl in E; try discriminate; [reflexivity|].
  apply andb_true_iff in E. destruct E as [E1 E2]. f_equal; [apply H; exact E1|apply IH; exact E2].
Qed.
Lemma list_eqb_refl {A} (eqb : A -> A -> bool) : (forall x, eqb x x = true) -> forall a, list_eqb eqb a a = true.
Proof. intros H. induction a as [|x a IH]; simpl; [reflexivity|]. rewrite H, IH. reflexivity. Qed.
Lemma zlist_eqb_eq a b : zlist_eqb a b = true -> a = b.
Proof. apply list_eqb_eq. intros x y. apply Z.eqb_eq. Qed.
Lemma zll_eqb_eq a b : zll_eqb a b = true -> a = b.
Proof. apply list_eqb_eq. exact zlist_eqb_eq. Qed.
Lemma zll_eqb_refl a : zll_eqb a a = true.
Proof. apply list_eqb_refl. exact zlist_eqb_refl. Qed.
Lemma pair_eqb_eq a b : pair_eqb a b = true -> a = b.
Proof.
  destruct a, b. unfold pair_eqb. simpl. intros E. apply andb_true_iff in E. destruct E as [E1 E2].
  apply Z.eqb_eq in E1, E2. subst. reflexivity.
Qed.
Lemma pair_eqb_refl a : pair_eqb a a = true.
Proof. destruct a. unfold pair_eqb. simpl. rewrite !Z.eqb_refl. reflexivity. Qed.
Lemma group_eqb_eq a b : group_eqb a b = true -> a = b.
Proof.
  destruct a, b. unfold group_eqb. simpl. intros E. apply andb_true_iff in E. destruct E as [E1 E2].
  apply Z.eqb_eq in E1. apply zlist_eqb_eq in E2. subst. reflexivity.
Qed.
Lemma group_eqb_refl a : group_eqb a a = true.
Proof. destruct a. unfold group_eqb. simpl. rewrite Z.eqb_refl, zlist_eqb_refl. reflexivity. Qed.
Lemma opt_zl_some x l : opt_zl_eqb (Some x) l = true -> l = x.
Proof. simpl. intros E. symmetry. apply zlist_eqb_eq. exact E. Qed.
Lemma opt_zll_some x l : opt_zll_eqb (Some x) l = true -> l = x.
Proof. simpl. intros E. symmetry. apply zll_eqb_eq. exact E. Qed.

Lemma all_true_forall {A} (F : A -> bool) l : all_true (map F l) = true <-> (forall x, In x l -> F x = true).
Proof.
  induction l as [|x l IH]; simpl.
  - split; [intros _ y []|reflexivity].
  - rewrite andb_true_iff, IH. split.
    + intros [H1 H2] y [<-|Hy]; auto.
    + intros H. split; [apply H; left; reflexivity|intros y Hy; apply H; right; exact Hy].
Qed.
Lemma all_true_impl {A} (F G : A -> bool) l : (forall x, In x l -> F x = true -> G x = true) ->
  all_true (map F l) = true -> all_true (map G l) = true.
Proof. rewrite !all_true_forall. intros H HF x Hx. apply H; [exact Hx|apply HF; exact Hx]. Qed.
Lemma forallb_Forall {A} (F : A -> bool) l : forallb F l = true -> Forall (fun x => F x = true) l.
Proof. intros H. apply Forall_forall. apply forallb_forall. exact H. Qed.

(* ---------- re-chunking cases ---------- *)
Lemma ids_of_sizes_concat : forall sizes from, Forall (fun s => 0 <= s) sizes ->
  concat (ids_of_sizes from sizes) = arange_from from (Z.to_nat (sumZ sizes)).
Proof.
  induction sizes as [|s r IH]; intros from H; [reflexivity|].
  inversion H as [|? ? Hs Hr]; subst. cbn [ids_of_sizes concat]. rewrite IH by exact Hr.
  change (sumZ (s :: r)) with (s + sumZ r).
  assert (0 <= sumZ r). { clear -Hr. induction Hr; [simpl; lia|]. change (sumZ (x :: l)) with (x + sumZ l). lia. }
  rewrite Z2Nat.inj_add by lia. rewrite arange_from_app. do 2 f_equal. lia.
Qed.

Theorem rechunk_link : forall r, rechunk_wellformed r = true -> rechunk_model_ok r = true -> rechunk_spec_ok r = true.
Proof.
  intros r Hwf Hm. unfold rechunk_spec_ok. rewrite Hwf. cbn [andb].
  unfold rechunk_wellformed in Hwf. rewrite !andb_true_iff in Hwf. destruct Hwf as [[[Hne Hsz] Hen] Hln].
  apply forallb_Forall in Hsz.
  assert (Hids : concat (ids_of_sizes 0 (r_sizes r)) = arange (sumZ (r_sizes r))).
  { apply ids_of_sizes_concat. eapply Forall_impl; [|exact Hsz]. intros s Hs. apply Z.leb_le in Hs. lia. }
  assert (Hnonempty : ids_of_sizes 0 (r_sizes r) <> []).
  { destruct (r_sizes r); [discriminate Hne|discriminate]. }
  unfold rechunk_model_ok in Hm. apply andb_true_iff in Hm. destruct Hm as [Hm1 Hm2].
  apply andb_true_iff. split.
  - revert Hm1. apply all_true_impl. intros [n out] Hin E.
    rewrite forallb_forall in Hen. specialize (Hen (n, out) Hin). apply Z.leb_le in Hen.
    destruct (rechunk_fixed (Z.to_nat n) (ids_of_sizes 0 (r_sizes r))) as (o & Eo & Hok & _); [lia|].
    unfold chunk_entries in E. rewrite Eo in E. apply opt_zll_some in E. subst out.
    rewrite Z2Nat.id, Hids in Hok by lia. exact Hok.
  - revert Hm2. apply all_true_impl. intros [n out] Hin E.
    rewrite forallb_forall in Hln. specialize (Hln (n, out) Hin). apply Z.leb_le in Hln.
    destruct (chunk_lines_ok (Z.to_nat n) (ids_of_sizes 0 (r_sizes r))) as (o & Eo & Hok); [lia|exact Hnonempty|].
    rewrite Z2Nat.id in Eo, Hok by lia. rewrite Eo in E. apply opt_zll_some in E. subst out.
    rewrite Hids in Hok. exact Hok.
Qed.

(* ---------- flat cases ---------- *)
Definition flat_obs_only (f : flat) : bool :=
  pair_eqb (f_mean f) (f_mean_mem f)
  && all_true (map (fun '(k, lo, hi, _, edges) => hist_edges_ok k lo hi edges) (f_hist f)).

Lemma combine_app' {A B} (a1 a2 : list A) (b1 b2 : list B) : length a1 = length b1 ->
  combine (a1 ++ a2) (b1 ++ b2) = combine a1 b1 ++ combine a2 b2.
Proof.
  revert b1. induction a1 as [|x a1 IH]; intros [|y b1] H; simpl in H; try discriminate; [reflexivity|].
  cbn. f_equal. apply IH. lia.
Qed.

Lemma number_chunks_keyed : forall (cs : list (list entry)) from,
  concat (map (fun '(c, ids) => combine (map e_gid c) ids) (combine cs (number_chunks from cs)))
  = combine (map e_gid (concat cs)) (arange_from from (length (concat cs))).
Proof.
  induction cs as [|c cs IH]; intros from; [reflexivity|].
  cbn [number_chunks combine map concat]. rewrite IH.
  rewrite map_app, app_length, arange_from_app.
  rewrite combine_app' by (rewrite map_length, arange_from_length; reflexivity).
  unfold len. reflexivity.
Qed.

Lemma keyed_nonempty (cs : list (list entry)) from : Forall (fun c => c <> []) cs ->
  Forall (fun c => c <> []) (map (fun '(c, ids) => combine (map e_gid c) ids) (combine cs (number_chunks from cs))).
Proof.
  revert from. induction cs as [|c cs IH]; intros from H; [constructor|].
  inversion H as [|? ? Hc Hr]; subst. cbn [number_chunks combine map]. constructor; [|apply IH; exact Hr].
  destruct c as [|e c]; [congruence|]. cbn. discriminate.
Qed.

Lemma map_fst_combine {A B} (l1 : list A) (l2 : list B) : length l1 = length l2 -> map fst (combine l1 l2) = l1.
Proof.
  revert l2. induction l1 as [|x l1 IH]; intros [|y l2] H; simpl in H; try discriminate; [reflexivity|].
  cbn. f_equal. apply IH. lia.
Qed.

Theorem flat_link : forall f, chunks_wellformed f = true ->
  Forall (Forall (fun v => 0 <= v)) (f_starts f) -> contiguous (map e_gid (f_data f)) ->
  flat_obs_only f = true -> flat_model_ok f = true -> flat_spec_ok f = true.
Proof.
  intros f Hwf Hpos Hcont Hobs Hm.
  unfold flat_obs_only in Hobs. apply andb_true_iff in Hobs. destruct Hobs as [Hmean Hedges].
  unfold flat_model_ok in Hm. rewrite !andb_true_iff in Hm.
  destruct Hm as [[[[[[Hsn Hcl] Hbc] Hh] Hk] Hrc] Hg].
  pose proof Hwf as Hwf'. unfold chunks_wellformed in Hwf'. apply andb_true_iff in Hwf'. destruct Hwf' as [Hne Hdata].
  assert (Hcs : f_chunks f <> []) by (destruct (f_chunks f); [discriminate Hne|discriminate]).
  assert (Hstarts : concat (f_starts f) = map e_start (f_data f)).
  { unfold f_starts, f_data. symmetry. apply concat_map. }
  assert (Hseqs : concat (map (map e_seq) (f_chunks f)) = map e_seq (f_data f)).
  { unfold f_data. symmetry. apply concat_map. }
  assert (Hsne : f_starts f <> []) by (unfold f_starts; destruct (f_chunks f); [congruence|discriminate]).
  assert (Hqne : map (map e_seq) (f_chunks f) <> []) by (destruct (f_chunks f); [congruence|discriminate]).
  unfold flat_spec_ok. rewrite Hwf. cbn [andb].
  rewrite mean_chunked, Hstarts in Hsn, Hcl.
  rewrite Hsn, Hmean. cbn [andb]. unfold spec_sum_n in Hcl. cbn [fst snd] in Hcl. rewrite Hcl. cbn [andb].
  rewrite (bincount_chunked _ Hsne Hpos), Hstarts in Hbc. apply opt_zl_some in Hbc. rewrite Hbc, zlist_eqb_refl. cbn [andb].
  rewrite !andb_true_iff. repeat split.
  - apply all_true_forall. intros [[[[k lo] hi] counts] edges] Hin.
    rewrite all_true_forall in Hh, Hedges. specialize (Hh _ Hin). specialize (Hedges _ Hin). cbn in Hh, Hedges.
    rewrite (histogram_chunked k lo hi _ Hsne), Hstarts in Hh. apply opt_zl_some in Hh. subst counts.
    rewrite zlist_eqb_refl. exact Hedges.
  - revert Hk. apply all_true_impl. intros [k counts] Hin E.
    rewrite (kmer_count_chunked _ _ Hqne), Hseqs in E. apply opt_zl_some in E. subst counts. apply zlist_eqb_refl.
  - apply list_eqb_eq in Hrc; [|exact zll_eqb_eq]. rewrite Hrc.
    destruct (streamable_rows_chunked revcomp (map (map e_seq) (f_chunks f))) as [E _].
    change spec_revcomp with (map revcomp). rewrite E, Hseqs. apply zll_eqb_refl.
  - apply list_eqb_eq in Hrc; [|exact zll_eqb_eq]. rewrite Hrc.
    unfold stream_map. rewrite !map_map.
    replace (map (fun x => len (spec_revcomp (map e_seq x))) (f_chunks f)) with (map len (f_chunks f)); [apply zlist_eqb_refl|].
    apply map_ext. intros c. unfold spec_revcomp, len. rewrite !map_length. reflexivity.
  - revert Hg. apply all_true_impl. intros [fast gs] Hin E.
    apply list_eqb_eq in E; [|exact group_eqb_eq]. subst gs.
    assert (Hkeyed : concat (f_keyed f) = combine (map e_gid (f_data f)) (arange (len (f_data f)))).
    { unfold f_keyed. rewrite number_chunks_keyed. unfold arange, len, f_data. rewrite Nat2Z.id. reflexivity. }
    rewrite (groupby_chunked_any fast (f_keyed f)).
    + rewrite Hkeyed. apply list_eqb_refl. exact group_eqb_refl.
    + rewrite Hkeyed, map_fst_combine; [exact Hcont|].
      unfold arange, len. rewrite Nat2Z.id, map_length, arange_from_length. reflexivity.
Qed.

(* ---------- genome cases ---------- *)
Lemma NoDup_arange_from : forall n s, NoDup (arange_from s n).
Proof.
  induction n as [|n IH]; intros s; [constructor|]. cbn [arange_from]. constructor; [|apply IH].
  rewrite In_arange_from. lia.
Qed.

Definition gen_order (g : gen) : list Z := arange (len (g_sizes g)).
Definition gen_mem_ok (g : gen) : bool :=
  all_true (map (fun '(p, _, mem) =>
     obs_matches (g_sizes g) (spec_pipeline p (gen_order g) (g_sizes g) (concat (g_a g)) (concat (g_b g))) mem) (g_runs g)).

Theorem gen_link : forall g, gen_wellformed g = true ->
  ordered (gen_order g) (concat (g_a g)) -> ordered (gen_order g) (concat (g_b g)) ->
  (forall p s m, In (p, s, m) (g_runs g) ->
     pipeline_guard p (gen_order g) (g_sizes g) (concat (g_a g)) (concat (g_b g))) ->
  gen_mem_ok g = true -> gen_model_ok g = true -> gen_spec_ok g = true.
Proof.
  intros g Hwf Hoa Hob Hguard Hmem Hm.
  unfold gen_spec_ok. rewrite Hwf. cbn [andb].
  unfold gen_wellformed in Hwf. rewrite !andb_true_iff in Hwf. destruct Hwf as [[[[Ha Hb] Hane] Hbne] Hsne].
  assert (Hnd : NoDup (gen_order g)) by apply NoDup_arange_from.
  assert (Hlen : length (gen_order g) = length (g_sizes g)).
  { unfold gen_order, arange, len. rewrite Nat2Z.id. apply arange_from_length. }
  assert (Hpos : (0 < length (g_sizes g))%nat) by (destruct (g_sizes g); [discriminate Hsne|simpl; lia]).
  assert (Hane' : g_a g <> []) by (destruct (g_a g); [discriminate Hane|discriminate]).
  assert (Hbne' : g_b g <> []) by (destruct (g_b g); [discriminate Hbne|discriminate]).
  assert (Hna : Forall (fun c : list (Z * iv) => c <> []) (g_a g)).
  { apply forallb_Forall in Ha. eapply Forall_impl; [|exact Ha]. intros c Hc Hnil. subst c. discriminate Hc. }
  assert (Hnb : Forall (fun c : list (Z * iv) => c <> []) (g_b g)).
  { apply forallb_Forall in Hb. eapply Forall_impl; [|exact Hb]. intros c Hc Hnil. subst c. discriminate Hc. }
  unfold gen_model_ok in Hm. unfold gen_mem_ok in Hmem.
  rewrite all_true_forall in *. intros [[p streamed] mem] Hin.
  specialize (Hm _ Hin). specialize (Hmem _ Hin). cbn in Hm, Hmem. fold (gen_order g) in Hm.
  rewrite (pipeline_spec_current p (gen_order g) (g_sizes g) (g_a g) (g_b g) Hnd Hlen Hpos Hane' Hbne' Hna Hnb Hoa Hob) in Hm.
  - fold (gen_order g). rewrite Hmem, Hm. reflexivity.
  - exact (Hguard p streamed mem Hin).
Qed.

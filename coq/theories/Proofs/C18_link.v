(* Proofs/C18_link.v — "model agrees => property holds", per case class of the correspondence:
   for well-formed input rows, every run on which the implementation returned what the model returns
   (run_model = true) satisfies the property (run_spec = true). *)
From Coq Require Import ZArith List Bool Lia.
From BNP Require Import Base.Prims Base.PrimsFacts Model.C18 Corr.C18
  Proofs.C18_power Proofs.C18_int Proofs.C18_lists Proofs.C18_float Proofs.C18_matrix.
Import ListNotations.
Open Scope Z_scope.

(* ---------- reflection of the boolean comparisons ---------- *)
Lemma zlist_eqb_eq : forall a b, zlist_eqb a b = true -> a = b.
Proof.
  unfold zlist_eqb. induction a as [|x a IH]; intros [|y b] H; try discriminate; [reflexivity|].
  cbn [list_eqb] in H. apply andb_true_iff in H. destruct H as [H1 H2]. apply Z.eqb_eq in H1. subst.
  f_equal. apply IH. exact H2.
Qed.
Lemma zlist_eqb_refl : forall a, zlist_eqb a a = true.
Proof. unfold zlist_eqb. induction a as [|x a IH]; [reflexivity|]. cbn [list_eqb]. rewrite Z.eqb_refl, IH. reflexivity. Qed.
Lemma zll_eqb_eq : forall a b, zll_eqb a b = true -> a = b.
Proof.
  unfold zll_eqb. induction a as [|x a IH]; intros [|y b] H; try discriminate; [reflexivity|].
  cbn [list_eqb] in H. apply andb_true_iff in H. destruct H as [H1 H2]. apply zlist_eqb_eq in H1. subst.
  f_equal. apply IH. exact H2.
Qed.
Lemma zll_eqb_refl : forall a, zll_eqb a a = true.
Proof. unfold zll_eqb. induction a as [|x a IH]; [reflexivity|]. cbn [list_eqb]. rewrite zlist_eqb_refl, IH. reflexivity. Qed.
Lemma opt_zll_some out x : opt_eqb zll_eqb out (Some x) = true -> out = Some x.
Proof. destruct out as [o|]; [|discriminate]. cbn. intros H. apply zll_eqb_eq in H. subst. reflexivity. Qed.
Lemma forall2b_Forall2 {A B} (f : A -> B -> bool) : forall a b, Forall2 (fun x y => f x y = true) a b -> forall2b f a b = true.
Proof. induction 1 as [|x y a b H _ IH]; [reflexivity|]. cbn [forall2b]. rewrite H, IH. reflexivity. Qed.
Lemma Forall2_map_r {A B C} (R : A -> C -> Prop) (g : B -> C) : forall a b, Forall2 (fun x y => R x (g y)) a b -> Forall2 R a (map g b).
Proof. induction 1; constructor; assumption. Qed.
Lemma Forall2_map_l {A B C} (R : C -> B -> Prop) (g : A -> C) : forall a b, Forall2 (fun x y => R (g x) y) a b -> Forall2 R (map g a) b.
Proof. induction 1; constructor; assumption. Qed.

Lemma Forall2_map_l_inv {A B C} (R : C -> B -> Prop) (g : A -> C) : forall a b, Forall2 R (map g a) b -> Forall2 (fun x y => R (g x) y) a b.
Proof.
  induction a as [|x a IH]; intros b H; inversion H; subst; constructor; [assumption|]. apply IH. assumption.
Qed.
Lemma Forall2_map_r_inv {A B C} (R : A -> C -> Prop) (g : B -> C) : forall a b, Forall2 R a (map g b) -> Forall2 (fun x y => R x (g y)) a b.
Proof.
  intros a b. revert a. induction b as [|y b IH]; intros a H; inversion H; subst; constructor; [assumption|]. apply IH. assumption.
Qed.
Lemma Forall2_impl' {A B} (R S : A -> B -> Prop) : (forall x y, R x y -> S x y) -> forall a b, Forall2 R a b -> Forall2 S a b.
Proof. intros H a b F. induction F; constructor; auto. Qed.
Definition idx_ok (rows : list (list Z)) (idx : list Z) : Prop := Forall (fun i => 0 <= i < len rows) idx.
Lemma select_wf (P : list Z -> Prop) rows idx : Forall P rows -> idx_ok rows idx -> Forall P (select rows idx).
Proof.
  intros H Hi. unfold select. apply Forall_map. eapply Forall_impl; [|exact Hi].
  intros i Hr. rewrite Forall_forall in H. apply H. apply nth_In. unfold len in Hr. lia.
Qed.

(* ---------- what run_model / run_spec are for each kind (by computation of the kind tests) ---------- *)
Section Unfold.
  Variables (rows : list (list Z)) (runs : list run) (pw : list (Z * Z)) (er : list (Z * Z)) (af : option (list (list Z))) (route : Z) (idx : list Z) (out : option (list (list Z))).
  Let C k := {| k_kind := k; k_rows := rows; k_runs := runs; k_pow := pw; k_errs := er; k_after := af |}.
  Let sel := select rows idx.
  Lemma model0 : run_model (C 0) (route, idx, out) = opt_eqb zll_eqb out (Some (fmt_ints (map hd0 sel))).
  Proof. reflexivity. Qed.
  Lemma model1 : run_model (C 1) (route, idx, out)
    = opt_eqb zll_eqb out (option_map (map (fun v => [v])) (if (route =? 1) || (route =? 4) then int_column sel else str_to_int_rows sel)).
  Proof. reflexivity. Qed.
  Lemma model2 : run_model (C 2) (route, idx, out) = opt_eqb zll_eqb out (Some (fmt_int_lists 44 sel)).
  Proof. reflexivity. Qed.
  Lemma model3 : run_model (C 3) (route, idx, out) = opt_eqb zll_eqb out (parse_lists 44 sel).
  Proof. reflexivity. Qed.
  Lemma model4 : run_model (C 4) (route, idx, out)
    = match out with
      | Some outs => forallb (fun o => len o =? 1) outs && float_rows_ok sel (map hd0 outs) && float_bits_ok (C 4) sel (map hd0 outs)
      | None => match parse_floats sel with None => true | Some _ => false end
      end.
  Proof. reflexivity. Qed.
  Lemma model6 : run_model (C 6) (route, idx, out)
    = opt_eqb zll_eqb out (Some (digit_matrix (nth 0 rows []) (map iv_of sel) 48)).
  Proof. reflexivity. Qed.
  Lemma spec_k k : k <> 6 -> run_spec (C k) (route, idx, out)
    = match out with None => false | Some outs => forall2b (row_spec k) sel outs end.
  Proof.
    intros H. unfold run_spec, C. cbn [k_kind k_rows]. destruct out; [|reflexivity].
    destruct (Z.eqb_spec k 6); [contradiction|reflexivity].
  Qed.
  Lemma spec6 : run_spec (C 6) (route, idx, out)
    = match out with None => false | Some outs => matrix_spec (nth 0 rows []) (map iv_of sel) outs end.
  Proof. reflexivity. Qed.
  Lemma row_spec0 r o : row_spec 0 r o = is_decimal_of (hd0 r) o. Proof. reflexivity. Qed.
  Lemma row_spec1 r o : row_spec 1 r o = match o with [v] => opt_eqb Z.eqb (text_value r) (Some v) | _ => false end.
  Proof. reflexivity. Qed.
  Lemma row_spec2 r o : row_spec 2 r o
    = match r with [] => match o with [] => true | _ => false end | _ => forall2b is_decimal_of r (split_on 44 o) end.
  Proof. reflexivity. Qed.
  Lemma row_spec3 r o : row_spec 3 r o
    = match r with [] => match o with [] => true | _ => false end
      | _ => forall2b (fun piece v => opt_eqb Z.eqb (text_value piece) (Some v)) (split_on 44 r) o end.
  Proof. reflexivity. Qed.
  Lemma row_spec4 r o : row_spec 4 r o = match o with [bits] => float_ok (tol_of r) r bits | _ => false end.
  Proof. reflexivity. Qed.
End Unfold.

(* ---------- kind 0: formatting integers ---------- *)
Definition wf_int_row (r : list Z) : Prop := exists n, r = [n] /\ int64 n.
Theorem link_format_ints rows runs pw er af route idx out :
  fmt_ints = ints_to_strings ->
  Forall wf_int_row rows -> idx_ok rows idx ->
  run_model {| k_kind := 0; k_rows := rows; k_runs := runs; k_pow := pw; k_errs := er; k_after := af |} (route, idx, out) = true ->
  run_spec {| k_kind := 0; k_rows := rows; k_runs := runs; k_pow := pw; k_errs := er; k_after := af |} (route, idx, out) = true.
Proof.
  intros Efmt Hwf Hi H. rewrite model0 in H. rewrite spec_k by discriminate.
  apply opt_zll_some in H. subst out.
  pose proof (select_wf _ _ _ Hwf Hi) as Hs. rewrite Efmt.
  remember (select rows idx) as sel eqn:Esel. clear Esel.
  assert (Hn : Forall int64 (map hd0 sel)).
  { apply Forall_map. eapply Forall_impl; [|exact Hs]. intros r [n [E Hn]]. subst r. exact Hn. }
  pose proof (format_canonical _ Hn) as F.
  apply forall2b_Forall2. apply Forall2_map_l_inv in F.
  eapply Forall2_impl'; [|exact F]. cbn beta. intros r t [Hc Hv]. rewrite row_spec0.
  unfold is_decimal_of. rewrite Hc, Hv. cbn [andb]. apply Z.eqb_refl.
Qed.
(* ---------- kind 1: parsing integers (direct, file column with or without signs, matrix reader) ---------- *)
Definition wf_int_text (t : list Z) : Prop := exists v, text_value t = Some v /\ int64 v.
Lemma wf_texts_values sel : Forall wf_int_text sel -> exists vs, Forall2 (fun t v => text_value t = Some v /\ int64 v) sel vs.
Proof.
  induction 1 as [|t sel [v Hv] _ [vs IH]]; [exists []; constructor|]. exists (v :: vs). constructor; assumption.
Qed.
Lemma unsigned_text_value t : head_is 45 t || head_is 43 t = false -> text_value t = digits_value t.
Proof.
  destruct t as [|c r]; [reflexivity|]. unfold head_is, text_value. intros H. apply orb_false_iff in H.
  destruct H as [H1 H2]. rewrite H1, H2. reflexivity.
Qed.
Lemma int_column_exact sel vs : Forall2 (fun t v => text_value t = Some v /\ int64 v) sel vs -> int_column sel = Some vs.
Proof.
  intros F. unfold int_column. destruct (has_sign sel) eqn:E; [apply str_to_int_exact; exact F|].
  apply str_to_int_matrix_exact. unfold has_sign in E.
  assert (G : forall t, In t sel -> head_is 45 t || head_is 43 t = false).
  { intros t Hin. destruct (head_is 45 t || head_is 43 t) eqn:E2; [|reflexivity].
    assert (existsb (fun t0 => head_is 45 t0 || head_is 43 t0) sel = true) by (apply existsb_exists; exists t; split; assumption).
    congruence. }
  clear E. induction F as [|t v sel vs [Hv Hr] _ IH]; [constructor|]. constructor.
  - rewrite <- (unsigned_text_value t) by (apply G; left; reflexivity). split; assumption.
  - apply IH. intros t' Hin. apply G. right. exact Hin.
Qed.
Theorem link_parse_ints rows runs pw er af route idx out :
  Forall wf_int_text rows -> idx_ok rows idx ->
  run_model {| k_kind := 1; k_rows := rows; k_runs := runs; k_pow := pw; k_errs := er; k_after := af |} (route, idx, out) = true ->
  run_spec {| k_kind := 1; k_rows := rows; k_runs := runs; k_pow := pw; k_errs := er; k_after := af |} (route, idx, out) = true.
Proof.
  intros Hwf Hi H. rewrite model1 in H. rewrite spec_k by discriminate.
  pose proof (select_wf _ _ _ Hwf Hi) as Hs. remember (select rows idx) as sel eqn:Esel. clear Esel.
  destruct (wf_texts_values sel Hs) as [vs F].
  assert (E : (if (route =? 1) || (route =? 4) then int_column sel else str_to_int_rows sel) = Some vs).
  { destruct ((route =? 1) || (route =? 4)); [apply int_column_exact|apply str_to_int_exact]; exact F. }
  rewrite E in H. cbn [option_map] in H. apply opt_zll_some in H. subst out.
  apply forall2b_Forall2. apply Forall2_map_r. eapply Forall2_impl'; [|exact F]. cbn beta.
  intros t v [Hv _]. rewrite row_spec1, Hv. cbn [opt_eqb]. apply Z.eqb_refl.
Qed.

(* ---------- kind 2: formatting integer lists ---------- *)
Lemma canonical_no_comma t n : text_value t = Some n -> ~ In 44 t.
Proof. intros H. exact (proj1 (text_value_no_comma t n H)). Qed.
Theorem link_format_lists rows runs pw er af route idx out :
  fmt_int_lists = int_lists_to_strings ->
  Forall (Forall int64) rows -> idx_ok rows idx ->
  run_model {| k_kind := 2; k_rows := rows; k_runs := runs; k_pow := pw; k_errs := er; k_after := af |} (route, idx, out) = true ->
  run_spec {| k_kind := 2; k_rows := rows; k_runs := runs; k_pow := pw; k_errs := er; k_after := af |} (route, idx, out) = true.
Proof.
  intros Efmt Hwf Hi H. rewrite model2 in H. rewrite spec_k by discriminate.
  apply opt_zll_some in H. subst out. rewrite Efmt, int_lists_join.
  pose proof (select_wf _ _ _ Hwf Hi) as Hs. remember (select rows idx) as sel eqn:Esel. clear Esel.
  apply forall2b_Forall2. apply Forall2_map_r.
  induction Hs as [|r sel Hr _ IH]; constructor; [|exact IH].
  rewrite row_spec2. destruct r as [|n r]; [reflexivity|].
  pose proof (format_canonical _ Hr) as F.
  assert (Hsep : Forall (fun t => ~ In 44 t) (ints_to_strings (n :: r))).
  { clear - F. induction F as [|m t ns ts [_ Hv] _ IH]; constructor; [exact (canonical_no_comma t m Hv)|exact IH]. }
  assert (Hne : ints_to_strings (n :: r) <> []).
  { intros E0. rewrite E0 in F. inversion F. }
  rewrite split_on_intercalate by assumption.
  apply forall2b_Forall2. eapply Forall2_impl'; [|exact F]. cbn beta. intros m t [Hc Hv].
  unfold is_decimal_of. rewrite Hc, Hv. cbn [andb]. apply Z.eqb_refl.
Qed.

(* ---------- kind 3: parsing integer-list columns (empty lists included) ---------- *)
Definition wf_list_text (row : list Z) : Prop :=
  exists ts vs, row = intercalate [44] ts /\ Forall2 valid_int ts vs.
Lemma wf_list_texts sel : Forall wf_list_text sel ->
  exists tss vss, sel = map (intercalate [44]) tss /\ Forall2 (Forall2 valid_int) tss vss.
Proof.
  induction 1 as [|row sel [ts [vs [E F]]] _ [tss [vss [E2 F2]]]]; [exists [], []; split; constructor|].
  exists (ts :: tss), (vs :: vss). split; [cbn [map]; congruence|constructor; assumption].
Qed.
Lemma intercalate_nil_iff ts vs : Forall2 valid_int ts vs -> intercalate [44] ts = [] -> ts = [] /\ vs = [].
Proof.
  intros F E. destruct F as [|t v ts vs [Hv _] F]; [split; reflexivity|]. exfalso.
  pose proof (text_value_no_comma t v Hv) as [_ Hne].
  destruct ts as [|t2 ts]; cbn [intercalate] in E; [congruence|]. destruct t; [congruence|discriminate].
Qed.
Theorem link_parse_lists rows runs pw er af route idx out :
  parse_lists = parse_split_ints ->
  Forall wf_list_text rows -> idx_ok rows idx ->
  run_model {| k_kind := 3; k_rows := rows; k_runs := runs; k_pow := pw; k_errs := er; k_after := af |} (route, idx, out) = true ->
  run_spec {| k_kind := 3; k_rows := rows; k_runs := runs; k_pow := pw; k_errs := er; k_after := af |} (route, idx, out) = true.
Proof.
  intros Ep Hwf Hi H. rewrite model3 in H. rewrite spec_k by discriminate.
  pose proof (select_wf _ _ _ Hwf Hi) as Hs. remember (select rows idx) as sel eqn:Esel. clear Esel.
  destruct (wf_list_texts sel Hs) as [tss [vss [E F]]]. subst sel.
  rewrite Ep, (parse_split_ints_fixed_exact tss vss F) in H.
  destruct out as [outs|]; [|discriminate]. cbn [opt_eqb] in H. apply zll_eqb_eq in H. subst outs.
  apply forall2b_Forall2. apply Forall2_map_l.
  eapply Forall2_impl'; [|exact F]. cbn beta. intros ts vs Fr. rewrite row_spec3.
  destruct (intercalate [44] ts) eqn:Ei.
  - destruct (intercalate_nil_iff ts vs Fr Ei) as [_ Ev]. subst vs. reflexivity.
  - rewrite <- Ei.
    assert (Hsep : Forall (fun t => ~ In 44 t) ts).
    { clear - Fr. induction Fr as [|t v ts vs [Hv _] _ IH]; constructor; [exact (canonical_no_comma t v Hv)|exact IH]. }
    assert (Hne : ts <> []) by (intros E0; subst ts; discriminate).
    rewrite split_on_intercalate by assumption.
    apply forall2b_Forall2. eapply Forall2_impl'; [|exact Fr]. cbn beta. intros t v [Hv _]. rewrite Hv. cbn [opt_eqb]. apply Z.eqb_refl.
Qed.

(* ---------- kind 6: the digit matrix of a buffer ---------- *)
Definition wf_iv_row (data : list Z) (r : list Z) : Prop := iv_ok data (iv_of r).
Theorem link_digit_matrix data ivrows runs pw er af route idx out :
  Forall (wf_iv_row data) ivrows -> Forall (fun i => 1 <= i < 1 + len ivrows) idx ->
  run_model {| k_kind := 6; k_rows := data :: ivrows; k_runs := runs; k_pow := pw; k_errs := er; k_after := af |} (route, idx, out) = true ->
  run_spec {| k_kind := 6; k_rows := data :: ivrows; k_runs := runs; k_pow := pw; k_errs := er; k_after := af |} (route, idx, out) = true.
Proof.
  intros Hwf Hi H. rewrite model6 in H. rewrite spec6.
  apply opt_zll_some in H. subst out. cbn [nth]. unfold matrix_spec.
  set (ivs := map iv_of (select (data :: ivrows) idx)).
  assert (Hiv : Forall (iv_ok data) ivs).
  { subst ivs. apply Forall_map. unfold select. apply Forall_map. eapply Forall_impl; [|exact Hi].
    intros i Hr. cbn beta in Hr |- *. rewrite Forall_forall in Hwf.
    replace (Z.to_nat i) with (S (Z.to_nat (i - 1))) by lia. cbn [nth]. apply Hwf. apply nth_In. unfold len in Hr. lia. }
  rewrite (digit_matrix_spec data ivs 48 Hiv). unfold fields_of, max_len, lpad, m_n_fill. apply zll_eqb_refl.
Qed.


(* ---------- kind 4: parsing floats — the tolerance test against the model's rational IS the tolerance test
   against the Spec's rational, because the two rationals are the same (float_model_matches_spec) ---------- *)
Definition wf_float_text (t : list Z) : Prop := exists x, t = text_of x /\ ftext_wf true x.
Lemma wf_float_texts sel : Forall wf_float_text sel -> exists xs, sel = map text_of xs /\ Forall (ftext_wf true) xs.
Proof.
  induction 1 as [|t sel [x [E Hx]] _ [xs [E2 F]]]; [exists []; split; constructor|].
  exists (x :: xs). split; [cbn [map]; congruence|constructor; assumption].
Qed.
Theorem link_parse_floats rows runs pw er af route idx out :
  parse_floats = str_to_float_rows ->
  Forall wf_float_text rows -> idx_ok rows idx ->
  run_model {| k_kind := 4; k_rows := rows; k_runs := runs; k_pow := pw; k_errs := er; k_after := af |} (route, idx, out) = true ->
  run_spec {| k_kind := 4; k_rows := rows; k_runs := runs; k_pow := pw; k_errs := er; k_after := af |} (route, idx, out) = true.
Proof.
  intros Ep Hwf Hi H. rewrite model4 in H. rewrite spec_k by discriminate.
  pose proof (select_wf _ _ _ Hwf Hi) as Hs. remember (select rows idx) as sel eqn:Esel. clear Esel.
  destruct (wf_float_texts sel Hs) as [xs [E F]]. subst sel.
  assert (Em : parse_floats (map text_of xs) = Some (map model_row xs)).
  { rewrite Ep. apply (str_to_float_gen_ok true xs F). }
  destruct out as [outs|]; [|rewrite Em in H; discriminate].
  apply andb_true_iff in H. destruct H as [H _]. apply andb_true_iff in H. destruct H as [Hlen H].
  unfold float_rows_ok in H. rewrite Em in H.
  clear Em Hs Hi. revert outs Hlen H. induction F as [|x xs Hx _ IH]; intros outs Hlen H.
  - destruct outs; [reflexivity|discriminate].
  - destruct outs as [|o outs]; [discriminate|]. cbn [map combine forall2b forallb] in *.
    apply andb_true_iff in H. destruct H as [H1 H2]. apply andb_true_iff in Hlen. destruct Hlen as [L1 L2].
    rewrite (IH outs L2 H2), andb_true_r. rewrite row_spec4.
    destruct o as [|b [|b2 o']]; [exfalso; revert L1; unfold len; cbn; discriminate| |].
    + unfold float_ok. rewrite (spec_value true x Hx). cbn [hd0 fst snd] in H1. unfold model_row in H1.
      unfold model_frac in H1. exact H1.
    + exfalso. revert L1. unfold len. cbn [length]. destruct (Z.eqb_spec (Z.of_nat (S (S (length o')))) 1); [lia|discriminate].
Qed.

(* Proofs/C04_samcrlf.v — T1 for SAM files with CRLF line ends (code since /repo 6bbd290): ragged rows, the entry ends
   taken before the carriage-return adjustment, the 11th field / the tags without the CR. *)
From Coq Require Import ZArith List Bool Lia.
From BNP Require Import Base.Prims Base.PrimsFacts Model.C04 Proofs.C04 Proofs.C04_raw Proofs.C04_lines Proofs.C04_sam Proofs.C04_crlf.
Import ListNotations.
Open Scope Z_scope.

Definition trunc_row (n : nat) (r : xrow) : xrow :=
  {| r_s := r_s r; r_e := r_e r; r_fs := firstn n (r_fs r); r_fl := firstn n (r_fl r) |}.
Definition trunc_arow (n : nat) (a : arow) : arow := {| a_rec := a_rec a; a_rel := firstn n (a_rel a) |}.

Lemma arow_trunc data n r : arow_of data (trunc_row n r) = trunc_arow n (arow_of data r).
Proof. unfold arow_of, trunc_row, trunc_arow; cbn [r_s r_e r_fs r_fl a_rec a_rel]. f_equal. rewrite map_firstn, combine_firstn. reflexivity. Qed.

Lemma row_ok_trunc d n r : row_ok d r -> row_ok d (trunc_row n r).
Proof.
  intros (A & B & C & D & E). unfold row_ok, trunc_row; cbn [r_s r_e r_fs r_fl]. repeat split; auto.
  - rewrite !firstn_length. lia.
  - rewrite combine_firstn. apply Forall_firstn. exact E.
Qed.

Lemma hd0_firstn n (l : list Z) : (1 <= n)%nat -> hd0 (firstn n l) = hd0 l.
Proof. intros H. destruct n; [lia|]. destruct l; reflexivity. Qed.

Lemma zip4_trunc_eq n (fs : list (list Z)) : forall ee A, (1 <= n)%nat ->
  zip4 (map hd0 (map (firstn n) fs)) ee (map (firstn n) fs) (zip_with vsub (map (firstn n) A) (map (firstn n) fs))
  = map (trunc_row n) (zip4 (map hd0 fs) ee fs (zip_with vsub A fs)).
Proof.
  induction fs as [|f fs IH]; intros [|e ee] [|a A] Hn; try reflexivity.
  cbn [map zip_with zip4]. rewrite IH by auto. unfold trunc_row at 2; cbn [r_s r_e r_fs r_fl].
  rewrite hd0_firstn by auto. unfold vsub at 1. rewrite zip_with_firstn. reflexivity.
Qed.

Definition sam_crlf_expected (L0 : list (list (list Z))) : ext := sam_pre (map add_cr L0).

Lemma rows_sam_crlf L0 : L0 <> [] -> Forall (fun c : list (list Z) => c <> []) L0 ->
  rows (sam_crlf_expected L0) = map (trunc_row 11) (grows 0 (map cr_item L0)).
Proof.
  intros Hn H. unfold rows, sam_crlf_expected, sam_pre; cbn [x_es x_ee x_fs x_fl].
  rewrite modify_cr_crlf by auto. rewrite zip4_trunc_eq by lia. f_equal. apply (rows_crlf L0 0 H).
Qed.

Lemma view_sam_crlf L0 : L0 <> [] -> Forall (fun c : list (list Z) => c <> []) L0 ->
  view (sam_crlf_expected L0) = map (trunc_arow 11) (map gvi (map cr_item L0)).
Proof.
  intros Hn H. unfold view. rewrite rows_sam_crlf by auto.
  change (x_data (sam_crlf_expected L0)) with (concat (map lrawL (map add_cr L0))). rewrite <- concat_cr_items.
  pose proof (view_grows (map cr_item L0) [] []) as G. change (len (@nil Z)) with 0 in G.
  change ([] ++ concat (map fst (map cr_item L0)) ++ []) with (concat (map fst (map cr_item L0)) ++ []) in G. rewrite app_nil_r in G.
  set (D := concat (map fst (map cr_item L0))) in *.
  rewrite <- G. rewrite !map_map. apply map_ext. intros r. apply arow_trunc.
Qed.

Lemma Inv_sam_crlf L0 : L0 <> [] -> Forall (fun c : list (list Z) => c <> []) L0 -> Inv (sam_crlf_expected L0).
Proof.
  intros Hn H. split; [|split].
  - unfold shape_ok, sam_crlf_expected, sam_pre; cbn [x_es x_ee x_fs x_fl]. rewrite modify_cr_crlf by auto.
    repeat (rewrite ?map_length, ?zip_with_length, ?length_offs_tbl, ?length_blocksL'). repeat split; lia.
  - rewrite rows_sam_crlf by auto. rewrite Forall_map.
    change (x_data (sam_crlf_expected L0)) with (concat (map lrawL (map add_cr L0))). rewrite <- concat_cr_items.
    assert (G : Forall (row_ok (len (concat (map fst (map cr_item L0))))) (grows 0 (map cr_item L0))).
    { apply grows_ok; try lia. rewrite Forall_map. eapply Forall_impl; [|exact H]. intros c0 Hc. unfold cr_item; cbn [fst snd].
      rewrite lrawL_add_cr by auto. rewrite len_app. change (len [CR; LF]) with 2. rewrite <- len_intercalate by auto. lia. }
    eapply Forall_impl; [|exact G]. intros r Hr. apply row_ok_trunc; auto.
  - intros _. rewrite view_sam_crlf by auto. change (x_data (sam_crlf_expected L0)) with (concat (map lrawL (map add_cr L0))).
    rewrite !map_map. reflexivity.
Qed.

(* ---- SAM records with LF or CRLF ---- *)
Definition sam_rec_wf2 (e : list Z) (r : grec) : Prop := sam_line_ok (g_cols r) /\ g_eol r = e.

Theorem from_sam_correct2 e recs : recs <> [] -> (e = [LF] \/ e = [CR; LF]) -> Forall (sam_rec_wf2 e) recs ->
  exists x, from_sam (layout FSam recs) = Some x /\ Inv x /\ view x = map (gview FSam) recs /\ x_contig x = true
            /\ width_ok FSam (view x).
Proof.
  intros Hn [-> | ->] H.
  - apply from_sam_correct; auto.
  - set (L0 := map g_cols recs).
    assert (HL0n : L0 <> []) by (destruct recs; [congruence|discriminate]).
    assert (H11 : Forall (fun c : list (list Z) => (11 <= length c)%nat /\ Forall clean c) L0).
    { unfold L0. rewrite Forall_map. eapply Forall_impl; [|exact H]. intros r (A & _). exact A. }
    assert (Hne : Forall (fun c : list (list Z) => c <> []) L0).
    { eapply Forall_impl; [|exact H11]. intros c (A & _). destruct c; simpl in *; [lia|discriminate]. }
    assert (Hlay : layout FSam recs = concat (map lrawL (map add_cr L0))).
    { unfold layout, L0. rewrite !map_map. f_equal. apply map_ext_Forall. eapply Forall_impl; [|exact H].
      intros r ((A & _) & C). rewrite lrawL_add_cr by (destruct (g_cols r); simpl in *; [lia|discriminate]).
      unfold g_raw, raw_of. rewrite C. reflexivity. }
    assert (HV : map (gview FSam) recs = map (trunc_arow 11) (map gvi (map cr_item L0))).
    { unfold L0. rewrite !map_map. apply map_ext_Forall. eapply Forall_impl; [|exact H].
      intros r ((A & _) & C). unfold trunc_arow, gvi, cr_item; cbn [fst snd a_rec a_rel].
      rewrite lrawL_add_cr by (destruct (g_cols r); simpl in *; [lia|discriminate]).
      unfold gview, g_raw, raw_of. rewrite C. reflexivity. }
    exists (sam_crlf_expected L0). rewrite Hlay, HV.
    split.
    + apply from_sam_lines.
      * destruct L0; [congruence|discriminate].
      * rewrite Forall_map. eapply Forall_impl; [|exact H11]. intros c (A & B). apply add_cr_line_ok; auto.
        destruct c; simpl in *; [lia|discriminate].
      * rewrite Forall_map. eapply Forall_impl; [|exact H11]. intros c (A & _). rewrite add_cr_length; auto.
        destruct c; simpl in *; [lia|discriminate].
    + split; [apply Inv_sam_crlf; auto|]. split; [apply view_sam_crlf; auto|]. split; [reflexivity|].
      rewrite view_sam_crlf by auto. simpl. unfold width_gt. rewrite !Forall_map. split.
      * eapply Forall_impl; [|exact H11]. intros c (A & _). unfold trunc_arow, gvi, cr_item; cbn [a_rel snd].
        rewrite firstn_length, length_col_offsets. lia.
      * eapply Forall_impl; [|exact Hne]. intros c Hc. unfold trunc_arow, gvi, cr_item; cbn [a_rec fst].
        rewrite lrawL_add_cr by auto. rewrite len_app. change (len [CR; LF]) with 2. pose proof (len_nonneg (intercalate [TAB] c)). lia.
Qed.

(* END TO END for SAM, LF or CRLF: every program without replacement *)
Theorem sam_selection_end_to_end2 v e recs p out :
  recs <> [] -> (e = [LF] \/ e = [CR; LF]) -> Forall (sam_rec_wf2 e) recs -> repl_free p = true ->
  model_out_v v FSam (layout FSam recs) p = Some out -> spec_out_ok FSam recs p (Some out) = true.
Proof.
  intros Hn He H Hr Hm. destruct (from_sam_correct2 e recs Hn He H) as (x0 & Hx & I0 & V0 & _ & W).
  eapply (tabular_end_to_end v FSam recs x0); eauto. - exact I. - simpl. rewrite Hx. reflexivity.
Qed.

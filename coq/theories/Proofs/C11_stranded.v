(* Proofs/C11_stranded.v — values under STRANDED windows (and their mean over axis 0), streamed = in-memory. *)
From Coq Require Import ZArith List Bool Lia Arith.
From BNP Require Import Base.Prims Base.PrimsFacts Model.C11 Proofs.C11 Proofs.C11_groupby Proofs.C11_graph
  Proofs.C11_pipeline Proofs.C11_spec.
Import ListNotations.
Open Scope Z_scope.

Definition schrom_val (p : spipeline) (a : list iv) (w : list swin) (s : Z) : gval :=
  match p with
  | SValues => GR (values_under_stranded (coverage s a) w)
  | SValuesMean0 => op_sum_n0 [GR (values_under_stranded (coverage s a) w)]
  end.

Lemma extract_stranded_values t (w : list swin) :
  map (fun '(x, y, z) => orient z (slice x y t))
      (combine (combine (map (fun w => fst (fst w)) w) (map (fun w => snd (fst w)) w)) (map snd w))
  = values_under_stranded t w.
Proof.
  unfold values_under_stranded. induction w as [|[[x y] z] w IH]; [reflexivity|]. simpl. rewrite IH. reflexivity.
Qed.

Ltac eval_sval :=
  unfold val;
  cbn [spipeline_graph intervals_nodes stranded_nodes fst snd app names_node value nth_error map forallb flat_map andb];
  rewrite ?nth_error_map.

Lemma spipeline_graph_wf : forall p sizes a w, wf (fst (spipeline_graph p sizes a w)).
Proof.
  intros p sizes a w k f args E.
  destruct p; cbn [spipeline_graph fst intervals_nodes stranded_nodes app] in E;
    do 16 (try (destruct k as [|k]; cbn [nth_error] in E;
                [try discriminate; try (injection E as <- <-; repeat constructor; lia)|]));
    try (destruct k; discriminate).
Qed.

Lemma sval_root : forall p sizes (A : list (list iv)) (W : list (list swin)) i,
  length A = length sizes -> length W = length sizes ->
  val (fst (spipeline_graph p sizes A W)) (snd (spipeline_graph p sizes A W)) i =
  if (i <? length sizes)%nat then Some (schrom_val p (nth i A []) (nth i W []) (nth i sizes 0)) else None.
Proof.
  intros p sizes A W i HA HW.
  destruct (Nat.ltb_spec i (length sizes)) as [Hlt|Hge].
  - destruct p; eval_sval;
      rewrite ?(nth_error_nth' A [] (eq_ind_r (fun n => (i < n)%nat) Hlt HA)),
              ?(nth_error_nth' W [] (eq_ind_r (fun n => (i < n)%nat) Hlt HW)),
              ?(nth_error_nth' sizes 0 Hlt), ?(arange_nth_error _ _ Hlt);
      cbn [option_map app andb op_pileup op_sstart op_sstop op_sstrand op_extract_stranded schrom_val];
      rewrite ?extract_stranded_values; reflexivity.
  - assert (EA : nth_error A i = None) by (apply nth_error_None; lia).
    assert (ES : nth_error sizes i = None) by (apply nth_error_None; lia).
    destruct p; eval_sval; rewrite ?EA, ?ES, ?(arange_nth_error_none _ _ Hge); reflexivity.
Qed.

Lemma sval_defined : forall p sizes (A : list (list iv)) (W : list (list swin)) j i,
  length A = length sizes -> length W = length sizes -> (i < length sizes)%nat ->
  (j < length (fst (spipeline_graph p sizes A W)))%nat ->
  val (fst (spipeline_graph p sizes A W)) j i <> None.
Proof.
  intros p sizes A W j i HA HW Hpos Hj.
  destruct p; cbn [spipeline_graph intervals_nodes stranded_nodes fst app length names_node] in Hj;
    do 16 (try (destruct j as [|j];
      [ eval_sval;
        rewrite ?(nth_error_nth' A [] (eq_ind_r (fun n => (i < n)%nat) Hpos HA)),
                ?(nth_error_nth' W [] (eq_ind_r (fun n => (i < n)%nat) Hpos HW)),
                ?(nth_error_nth' sizes 0 Hpos), ?(arange_nth_error _ _ Hpos);
        cbn [option_map app andb]; discriminate | ]));
    exfalso; lia.
Qed.

Lemma run_graph_stranded : forall p sizes (A : list (list iv)) (W : list (list swin)),
  length A = length sizes -> length W = length sizes -> (0 < length sizes)%nat ->
  run_graph (fst (spipeline_graph p sizes A W)) (snd (spipeline_graph p sizes A W))
  = ROk (map (fun i => schrom_val p (nth i A []) (nth i W []) (nth i sizes 0)) (seq 0 (length sizes))).
Proof.
  intros p sizes A W HA HW Hpos.
  set (g := fst (spipeline_graph p sizes A W)). set (root := snd (spipeline_graph p sizes A W)).
  assert (Hroot : (root < length g)%nat).
  { subst g root. destruct p; cbn [spipeline_graph intervals_nodes stranded_nodes fst snd app length names_node]; lia. }
  destruct (graph_lockstep_run g (spipeline_graph_wf p sizes A W) root Hroot (length sizes)) as (vs & E & Hvs).
  - intros j Hj. apply sval_defined; assumption.
  - intros d Hd. subst g root. rewrite sval_root by assumption.
    destruct (Nat.ltb_spec d (length sizes)); [discriminate|lia].
  - subst g root. rewrite sval_root by assumption. rewrite Nat.ltb_irrefl. reflexivity.
  - assert (length (map GZ sizes) <= max_stream_len g)%nat.
    { apply max_stream_len_ge. subst g. destruct p; cbn [spipeline_graph intervals_nodes stranded_nodes fst app]; auto 10 with datatypes. }
    rewrite map_length in H. lia.
  - rewrite E. f_equal. apply map_Some_inj. rewrite Hvs, map_map. apply map_ext_in.
    intros i Hi. apply in_seq in Hi. subst g root. rewrite sval_root by assumption.
    destruct (Nat.ltb_spec i (length sizes)); [reflexivity|lia].
Qed.

Definition all_srows (order sizes : list Z) (da : list (Z * iv)) (dw : list (Z * swin)) : list (list (list Z)) :=
  map (fun '(nm, s) => values_under_stranded (coverage s (ivs_of nm da)) (swins_of nm dw)) (combine order sizes).

Lemma per_chromosome_s_ordered : forall order (cs : list (list (Z * swin))), NoDup order ->
  Forall (fun c => c <> []) cs -> ordered order (concat cs) ->
  per_chromosome_s order cs = map (fun nm => swins_of nm (concat cs)) order.
Proof.
  intros order cs Hnd Hall Hord. unfold per_chromosome_s.
  rewrite (groupby_chunked_slow cs Hall). apply (walk_runs order (concat cs) Hnd Hord).
Qed.

Theorem stranded_spec_with : forall mean_red p order sizes (csa : list (list (Z * iv))) (csw : list (list (Z * swin))),
  NoDup order -> length order = length sizes -> (0 < length sizes)%nat ->
  csa <> [] -> Forall (fun c => c <> []) csa -> Forall (fun c => c <> []) csw ->
  ordered order (concat csa) -> ordered order (concat csw) ->
  (p = SValuesMean0 ->
     reduce1 mean_red (map rows_sn (all_srows order sizes (concat csa) (concat csw)))
     = reduce1 red_mean_fixed (map rows_sn (all_srows order sizes (concat csa) (concat csw)))) ->
  run_stranded_with mean_red p order sizes csa csw = Some (spec_stranded p order sizes (concat csa) (concat csw)).
Proof.
  intros mean_red p order sizes csa csw Hnd Hlen Hpos Ha Hna Hnw Hoa How Hmean.
  unfold run_stranded_with.
  rewrite (per_chromosome_ordered order csa Hnd Ha Hna Hoa), (per_chromosome_s_ordered order csw Hnd Hnw How).
  rewrite (surjective_pairing (spipeline_graph p sizes _ _)).
  rewrite run_graph_stranded by (try exact Hpos; rewrite map_length; exact Hlen).
  set (da := concat csa) in *. set (dw := concat csw) in *.
  assert (Evs : map (fun i => schrom_val p (nth i (map (fun nm => ivs_of nm da) order) [])
                                 (nth i (map (fun nm => swins_of nm dw) order) []) (nth i sizes 0)) (seq 0 (length sizes))
                = map (fun '(nm, s) => schrom_val p (ivs_of nm da) (swins_of nm dw) s) (combine order sizes)).
  { rewrite <- (map_seq_combine (fun nm s => schrom_val p (ivs_of nm da) (swins_of nm dw) s) 0 0 order sizes Hlen).
    apply map_ext_in. intros i Hi. apply in_seq in Hi.
    rewrite (nth_map_lt (fun nm => ivs_of nm da) order i [] 0) by lia.
    rewrite (nth_map_lt (fun nm => swins_of nm dw) order i [] 0) by lia. reflexivity. }
  rewrite Evs. clear Evs.
  assert (HL : combine order sizes <> []).
  { destruct order; destruct sizes; simpl in *; try lia; discriminate. }
  destruct p; cbn [schrom_val spec_stranded].
  - fold (all_srows order sizes da dw). unfold all_srows.
    destruct (combine order sizes) as [|[nm s] L']; [congruence|]. cbn [map gconcat]. do 3 f_equal.
    f_equal. rewrite map_map. apply map_ext. intros [nm' s']. reflexivity.
  - fold (all_srows order sizes da dw).
    replace (map (fun '(nm, s) => op_sum_n0 [GR (values_under_stranded (coverage s (ivs_of nm da)) (swins_of nm dw))]) (combine order sizes))
      with (map rows_sn (all_srows order sizes da dw))
      by (unfold all_srows; rewrite map_map; apply map_ext; intros [nm s]; reflexivity).
    rewrite (Hmean eq_refl). rewrite reduce_mean_fixed; [reflexivity|].
    unfold all_srows. destruct (combine order sizes); [congruence|discriminate].
Qed.

Theorem stranded_spec_current : forall p order sizes (csa : list (list (Z * iv))) (csw : list (list (Z * swin))),
  NoDup order -> length order = length sizes -> (0 < length sizes)%nat ->
  csa <> [] -> Forall (fun c => c <> []) csa -> Forall (fun c => c <> []) csw ->
  ordered order (concat csa) -> ordered order (concat csw) ->
  run_stranded p order sizes csa csw = Some (spec_stranded p order sizes (concat csa) (concat csw)).
Proof.
  intros p order sizes csa csw Hnd Hlen Hpos Ha Hna Hnw Hoa How.
  unfold run_stranded, red_mean_current. apply stranded_spec_with; auto.
Qed.

(* Proofs/C08_bg.v — T1 for bedgraph.get_pileup (sorted positions, +1/-1 accumulated, empty runs dropped). *)
From Coq Require Import ZArith List Bool Lia Arith Permutation.
From BNP Require Import Base.Prims Base.PrimsFacts Model.C08 Proofs.C08.
Import ListNotations.
Open Scope Z_scope.

Lemma insert_head {T} (leb : T -> T -> bool) x l :
  (match l with [] => True | y :: _ => leb x y = true end) -> insert leb x l = x :: l.
Proof. destruct l as [|y l]; intros H; [reflexivity|]. cbn [insert]. rewrite H. reflexivity. Qed.

Lemma cum_from_fst acc E : map fst (cum_from acc E) = map fst E.
Proof. revert acc. induction E as [|[p d] E IH]; intros acc; [reflexivity|]. cbn [cum_from map fst]. rewrite IH. reflexivity. Qed.
Lemma last_map_fst (l : list (Z * Z)) d : fst (last l d) = last (map fst l) (fst d).
Proof. induction l as [|a l IH]; [reflexivity|]. destruct l as [|b l]; [reflexivity|]. exact IH. Qed.
Lemma dedupe_nonnil a t : dedupe (a :: t) <> [].
Proof. destruct (dedupe_head a t) as [v [t' H]]. rewrite H. discriminate. Qed.
Lemma last_cons_nonnil {T} (a : T) l d : l <> [] -> last (a :: l) d = last l d.
Proof. destruct l; [congruence|reflexivity]. Qed.
Lemma dedupe_last : forall r d, last (dedupe r) d = last r d.
Proof.
  induction r as [|a t IH]; intros d; [reflexivity|].
  destruct t as [|b t]; [reflexivity|].
  rewrite dedupe_cons2. destruct (fst a =? fst b).
  - rewrite IH. reflexivity.
  - rewrite last_cons_nonnil by apply dedupe_nonnil. rewrite IH. reflexivity.
Qed.
Lemma sorted_last_max : forall l d, sortedb pos_leb l = true -> forall e, In e l -> fst e <= fst (last l d).
Proof.
  induction l as [|a l IH]; intros d Hs e He; [destruct He|].
  destruct l as [|b l].
  - destruct He as [He|[]]. subst. simpl. lia.
  - pose proof (pos_sorted_head_le _ _ Hs) as Hmin.
    apply sortedb_cons in Hs. destruct Hs as [_ Hs].
    change (last (a :: b :: l) d) with (last (b :: l) d).
    destruct He as [He|He].
    + subst e. specialize (IH d Hs b (or_introl eq_refl)). specialize (Hmin b (or_introl eq_refl)). lia.
    + apply IH; assumption.
Qed.
Lemma removelast_cons2 {T} (a b : T) t : removelast (a :: b :: t) = a :: removelast (b :: t).
Proof. reflexivity. Qed.
Lemma expand_removelast L : forall r, r <> [] -> fst (last r (0, 0)) = L -> expand (removelast r) L = expand r L.
Proof.
  induction r as [|a t IH]; intros Hne Hl; [congruence|].
  destruct t as [|b t].
  - destruct a as [p v]. cbn in Hl. subst p. cbn [removelast expand next_pos]. rewrite Z.sub_diag. reflexivity.
  - rewrite removelast_cons2. destruct a as [p v]. cbn [expand].
    change (last ((p, v) :: b :: t) (0, 0)) with (last (b :: t) (0, 0)) in Hl.
    rewrite (IH ltac:(discriminate) Hl). f_equal. f_equal. f_equal. f_equal.
    destruct t as [|c t].
    + cbn in Hl. cbn [removelast next_pos]. destruct b as [q w]. cbn in Hl. subst q. reflexivity.
    + rewrite removelast_cons2. destruct b; reflexivity.
Qed.

(* the +1 / -1 events of an interval set sum to the coverage *)
Lemma wsum_start_stop I x : (forall i, In i I -> fst i <= snd i) ->
  wsum (map (fun i => (fst i, 1)) I ++ map (fun i => (snd i, -1)) I) x = cov I x.
Proof.
  intros H. rewrite wsum_app. induction I as [|[s e] I IH]; [reflexivity|].
  cbn [map fst snd]. rewrite !wsum_cons, cov_cons. cbn [fst snd].
  specialize (IH (fun i Hi => H i (or_intror Hi))). specialize (H (s, e) (or_introl eq_refl)). cbn [fst snd] in H.
  unfold covers. cbn [fst snd].
  destruct (Z.leb_spec s x); destruct (Z.leb_spec e x); destruct (Z.ltb_spec x e); cbn [andb b2z]; lia.
Qed.

Lemma bg_pileup_is_coverage I L : 0 <= L -> (forall i, In i I -> 0 <= fst i /\ fst i <= snd i /\ snd i <= L) ->
  bg_pileup_model I L = Some (pileup_spec I L).
Proof.
  intros HL Hwf. unfold bg_pileup_model.
  set (rest := map (fun i => (fst i, 1)) I ++ map (fun i => (snd i, -1)) I ++ [(L, -1)]).
  assert (Hpos : forall e, In e rest -> 0 <= fst e <= L).
  { intros e He. unfold rest in He. rewrite !in_app_iff in He. destruct He as [He|[He|He]].
    - apply in_map_iff in He. destruct He as [i [E Hi]]. subst e. specialize (Hwf i Hi). simpl. lia.
    - apply in_map_iff in He. destruct He as [i [E Hi]]. subst e. specialize (Hwf i Hi). simpl. lia.
    - destruct He as [He|[]]. subst e. simpl. lia. }
  pose proof (isort_perm pos_leb rest) as Hperm.
  pose proof (isort_sorted pos_leb pos_leb_total rest) as Hsorted.
  set (E' := isort pos_leb rest) in *.
  assert (Hs : isort pos_leb ((0, 1) :: rest) = (0, 1) :: E').
  { change (isort pos_leb ((0, 1) :: rest)) with (insert pos_leb (0, 1) E'). apply insert_head.
    destruct E' as [|y t] eqn:EE; [exact Logic.I|]. unfold pos_leb. cbn [fst]. apply Z.leb_le.
    apply (Hpos y). apply (Permutation_in _ Hperm). left. reflexivity. }
  rewrite Hs.
  assert (Hs0 : sortedb pos_leb ((0, 0) :: E') = true).
  { apply sortedb_cons. split; [|exact Hsorted]. destruct E' as [|y t] eqn:EE; [exact Logic.I|].
    unfold pos_leb. cbn [fst]. apply Z.leb_le. apply (Hpos y). apply (Permutation_in _ Hperm). left. reflexivity. }
  assert (HleL : forall e, In e ((0, 0) :: E') -> fst e <= L).
  { intros e [He|He]; [subst e; simpl; lia|]. apply Hpos. apply (Permutation_in _ Hperm). exact He. }
  set (r := dedupe (cum_from 0 ((0, 0) :: E'))).
  assert (Hlast : fst (last r (0, 0)) = L).
  { unfold r. rewrite dedupe_last. rewrite last_map_fst, cum_from_fst, <- last_map_fst.
    assert (HinL : In (L, -1) ((0, 0) :: E')).
    { right. apply (Permutation_in _ (Permutation_sym Hperm)). unfold rest. rewrite !in_app_iff. right. right. left. reflexivity. }
    pose proof (sorted_last_max _ (0, 0) Hs0 (L, -1) HinL) as H1. cbn [fst] in H1.
    assert (H2 : fst (last ((0, 0) :: E') (0, 0)) <= L).
    { apply HleL. destruct (@exists_last _ ((0, 0) :: E') ltac:(discriminate)) as [l' [z Hz]].
      rewrite Hz. rewrite last_last. rewrite <- Hz at 1. rewrite Hz. apply in_or_app. right. left. reflexivity. }
    lia. }
  rewrite Hlast, Z.eqb_refl. f_equal.
  rewrite (expand_removelast L r ltac:(unfold r; apply dedupe_nonnil) Hlast).
  unfold r. rewrite expand_dedupe. rewrite (expand_cum L E' 0 0 0 Hs0 HleL).
  rewrite Z.sub_0_r. unfold pileup_spec, bases, arange. apply map_ext_in. intros x Hx. apply In_arange_from in Hx.
  rewrite Z.add_0_l, wsum_cons. cbn [fst snd]. replace (if 0 <=? x then 0 else 0) with 0 by (destruct (0 <=? x); reflexivity).
  rewrite Z.add_0_l. rewrite (wsum_perm _ _ x Hperm). unfold rest. rewrite app_assoc, wsum_app.
  rewrite wsum_start_stop by (intros i Hi; specialize (Hwf i Hi); lia).
  unfold wsum. cbn [map sumZ fold_right fst snd]. destruct (Z.leb_spec L x); lia.
Qed.

(* Proofs/C08_geom.v — the Geometry routes (global coordinates of a multi-chromosome genome, sliced / shifted back)
   return what the single-contig operations return. *)
From Coq Require Import ZArith List Bool Lia Arith Permutation.
From BNP Require Import Base.Prims Base.PrimsFacts Model.C08 Proofs.C08 Proofs.C08_merge Proofs.C08_sim.
Import ListNotations.
Open Scope Z_scope.

(* ---------- shifting intervals ---------- *)
Lemma covers_shift k i x : covers (x + k) (shift_iv k i) = covers x i.
Proof. apply bool_eq_iff. rewrite !covers_iff. unfold shift_iv. cbn [fst snd]. lia. Qed.
Lemma cov_shift k I x : cov (map (shift_iv k) I) (x + k) = cov I x.
Proof.
  induction I as [|i I IH]; [reflexivity|]. cbn [map]. rewrite !cov_cons, IH, covers_shift. reflexivity.
Qed.
Lemma covered_shift k I x : covered (map (shift_iv k) I) (x + k) = covered I x.
Proof. unfold covered. rewrite cov_shift. reflexivity. Qed.
Lemma shift_shift_back k (l : list iv) : map (shift_iv (- k)) (map (shift_iv k) l) = l.
Proof.
  rewrite map_map. rewrite <- (map_id l) at 2. apply map_ext. intros [s e]. unfold shift_iv. cbn [fst snd]. f_equal; lia.
Qed.

(* ---------- slices of arrays indexed by the bases ---------- *)
Lemma skipn_arange_from : forall k p n, skipn k (arange_from p n) = arange_from (p + Z.of_nat k) (n - k).
Proof.
  induction k as [|k IH]; intros p n.
  - cbn [skipn]. rewrite Nat.sub_0_r. f_equal. lia.
  - destruct n as [|n]; [reflexivity|]. cbn [arange_from skipn]. rewrite IH. f_equal. lia.
Qed.
Lemma firstn_arange_from : forall k p n, (k <= n)%nat -> firstn k (arange_from p n) = arange_from p k.
Proof.
  induction k as [|k IH]; intros p n H; [reflexivity|].
  destruct n as [|n]; [lia|]. cbn [arange_from firstn]. rewrite IH by lia. reflexivity.
Qed.
Lemma map_arange_shift {T} (f : Z -> T) p : forall n q, map f (arange_from (q + p) n) = map (fun x => f (x + p)) (arange_from q n).
Proof.
  induction n as [|n IH]; intros q; [reflexivity|]. cbn [arange_from map]. f_equal.
  replace (q + p + 1) with (q + 1 + p) by lia. apply IH.
Qed.
Lemma slice_map_bases {T} (f : Z -> T) off size total : 0 <= off -> 0 <= size -> off + size <= total ->
  slice off (off + size) (map f (bases total)) = map (fun x => f (x + off)) (bases size).
Proof.
  intros H0 H1 H2. unfold slice, bases, arange. rewrite skipn_map, firstn_map. rewrite skipn_arange_from.
  rewrite firstn_arange_from by lia. replace (Z.to_nat (off + size - off)) with (Z.to_nat size) by lia.
  replace (0 + Z.of_nat (Z.to_nat off)) with (0 + off) by lia. apply map_arange_shift.
Qed.

(* ---------- cumulative chromosome offsets ---------- *)
Definition nonneg (l : list Z) : Prop := forall z, In z l -> 0 <= z.
Lemma sum_firstn_nonneg : forall l n, nonneg l -> 0 <= sumZ (firstn n l).
Proof.
  induction l as [|a l IH]; intros n H; [rewrite firstn_nil; simpl; lia|].
  destruct n; [simpl; lia|]. cbn [firstn sumZ fold_right]. fold (sumZ (firstn n l)).
  specialize (IH n (fun z Hz => H z (or_intror Hz))). specialize (H a (or_introl eq_refl)). lia.
Qed.
Lemma sum_firstn_S : forall l n, (n < length l)%nat -> sumZ (firstn (S n) l) = sumZ (firstn n l) + nth n l 0.
Proof.
  induction l as [|a l IH]; intros n H; [simpl in H; lia|].
  destruct n as [|n].
  - simpl. lia.
  - cbn [length] in H. change (firstn (S (S n)) (a :: l)) with (a :: firstn (S n) l).
    change (firstn (S n) (a :: l)) with (a :: firstn n l). cbn [nth sumZ fold_right].
    fold (sumZ (firstn (S n) l)). fold (sumZ (firstn n l)). rewrite IH by lia. lia.
Qed.
Lemma sum_firstn_mono : forall l n m, nonneg l -> (n <= m)%nat -> sumZ (firstn n l) <= sumZ (firstn m l).
Proof.
  induction l as [|a l IH]; intros n m H Hnm; [rewrite !firstn_nil; lia|].
  destruct n as [|n].
  - change (sumZ (firstn 0 (a :: l))) with 0. apply sum_firstn_nonneg. exact H.
  - destruct m as [|m]; [lia|]. cbn [firstn sumZ fold_right]. fold (sumZ (firstn n l)). fold (sumZ (firstn m l)).
    specialize (IH n m (fun z Hz => H z (or_intror Hz)) ltac:(lia)). lia.
Qed.
Lemma goff_nonneg sizes r : nonneg sizes -> 0 <= goff sizes r.
Proof. intros H. apply sum_firstn_nonneg. exact H. Qed.
Lemma goff_next sizes r : 0 <= r < len sizes -> goff sizes (r + 1) = goff sizes r + gsize sizes r.
Proof.
  intros H. unfold goff, gsize, nthd, len in *. replace (Z.to_nat (r + 1)) with (S (Z.to_nat r)) by lia.
  apply sum_firstn_S. lia.
Qed.
Lemma goff_mono sizes r r' : nonneg sizes -> 0 <= r -> r <= r' -> goff sizes r <= goff sizes r'.
Proof. intros H H0 H1. unfold goff. apply sum_firstn_mono; [exact H|lia]. Qed.
Lemma goff_total sizes r : nonneg sizes -> goff sizes r <= sumZ sizes.
Proof.
  intros H. unfold goff. rewrite <- (firstn_all sizes) at 2.
  destruct (le_lt_dec (Z.to_nat r) (length sizes)) as [Hle|Hgt].
  - apply sum_firstn_mono; assumption.
  - rewrite (firstn_all2 (n := Z.to_nat r)) by lia. rewrite firstn_all. lia.
Qed.
Lemma goff_fits sizes r : nonneg sizes -> 0 <= r < len sizes -> goff sizes r + gsize sizes r <= sumZ sizes.
Proof. intros H Hr. rewrite <- goff_next by exact Hr. apply goff_total. exact H. Qed.

Definition genome_wf (sizes : list Z) (r : Z) : Prop := nonneg sizes /\ 0 <= r < len sizes.

(* ---------- G1 / G2: Geometry.get_pileup and Geometry.get_mask ---------- *)
Lemma geom_pileup_is_coverage sizes r I : genome_wf sizes r ->
  (forall i, In i I -> 0 <= fst i /\ fst i <= snd i /\ snd i <= gsize sizes r) ->
  geom_pileup_model sizes r I = pileup_spec I (gsize sizes r).
Proof.
  intros [Hnn Hr] Hwf. unfold geom_pileup_model.
  pose proof (goff_nonneg sizes r Hnn) as H0. pose proof (goff_fits sizes r Hnn Hr) as H1.
  assert (Hsz : 0 <= gsize sizes r).
  { unfold gsize, nthd. destruct (nth_in_or_default (Z.to_nat r) sizes 0) as [Hin|E]; [apply Hnn; exact Hin|rewrite E; lia]. }
  rewrite pileup_is_coverage.
  - unfold pileup_spec. rewrite slice_map_bases by lia. apply map_ext. intros x. apply cov_shift.
  - lia.
  - intros i Hi. apply in_map_iff in Hi. destruct Hi as [j [E Hj]]. subst i. specialize (Hwf j Hj).
    unfold shift_iv. cbn [fst snd]. lia.
Qed.
Lemma geom_mask_is_positive_coverage sizes r I : genome_wf sizes r ->
  (forall i, In i I -> 0 <= fst i /\ fst i <= snd i /\ snd i <= gsize sizes r) ->
  geom_mask_model sizes r I = Some (mask_spec I (gsize sizes r)).
Proof.
  intros [Hnn Hr] Hwf. unfold geom_mask_model.
  pose proof (goff_nonneg sizes r Hnn) as H0. pose proof (goff_fits sizes r Hnn Hr) as H1.
  assert (Hsz : 0 <= gsize sizes r).
  { unfold gsize, nthd. destruct (nth_in_or_default (Z.to_nat r) sizes 0) as [Hin|E]; [apply Hnn; exact Hin|rewrite E; lia]. }
  rewrite mask_is_positive_coverage_gen.
  - f_equal. unfold mask_spec. rewrite slice_map_bases by lia. apply map_ext. intros x. apply covered_shift.
  - lia.
  - intros i Hi. apply in_map_iff in Hi. destruct Hi as [j [E Hj]]. subst i. specialize (Hwf j Hj).
    unfold shift_iv. cbn [fst snd]. lia.
Qed.

(* ---------- G3: Geometry.merge_intervals — merging is translation invariant ---------- *)
Lemma go_shift d k : forall rest cs m,
  go d (cs + k) (m + k) (map (shift_iv k) rest) = map (shift_iv k) (go d cs m rest).
Proof.
  induction rest as [|[s e] r IH]; intros cs m; [reflexivity|].
  cbn [map shift_iv fst snd go]. fold (shift_iv k).
  replace (m + k + d <? s + k) with (m + d <? s) by (apply bool_eq_iff; rewrite !Z.ltb_lt; lia).
  replace (Z.max (m + k) (e + k)) with (Z.max m e + k) by lia.
  destruct (m + d <? s); [cbn [map]; f_equal; apply IH|apply IH].
Qed.
Lemma sorted_shift k (l : list iv) : sortedb Z.leb (map fst (map (shift_iv k) l)) = sortedb Z.leb (map fst l).
Proof.
  induction l as [|a l IH]; [reflexivity|]. destruct l as [|b l]; [reflexivity|].
  cbn [map sortedb] in *. rewrite IH. f_equal. unfold shift_iv. cbn [fst].
  apply bool_eq_iff. rewrite !Z.leb_le. lia.
Qed.
Lemma geom_merge_is_merge sizes r d I size : 0 <= d -> wf_merge_input I size ->
  geom_merge_model sizes r d I = merge_model d I.
Proof.
  intros Hd [Hsorted Hwf]. unfold geom_merge_model. set (k := goff sizes r + r * (d + 1)).
  destruct I as [|[s0 e0] rest]; [reflexivity|].
  assert (H1 : merge_model d ((s0, e0) :: rest) = Some (go d s0 e0 rest)) by (apply merge_model_go; assumption).
  assert (H2 : merge_model d (map (shift_iv k) ((s0, e0) :: rest)) = Some (go d (s0 + k) (e0 + k) (map (shift_iv k) rest))).
  { change (map (shift_iv k) ((s0, e0) :: rest)) with ((s0 + k, e0 + k) :: map (shift_iv k) rest).
    apply merge_model_go; [exact Hd|].
    change ((s0 + k, e0 + k) :: map (shift_iv k) rest) with (map (shift_iv k) ((s0, e0) :: rest)).
    rewrite sorted_shift. exact Hsorted. }
  unfold iv in *. rewrite H1, H2. rewrite go_shift. f_equal. apply shift_shift_back.
Qed.
Lemma geom_merge_bridged_runs sizes r d I size : 0 <= d -> 0 <= size -> wf_merge_input I size ->
  geom_merge_model sizes r d I = Some (merge_spec d I size).
Proof.
  intros Hd Hs Hwf. rewrite (geom_merge_is_merge sizes r d I size Hd Hwf). apply merge_bridged_runs; assumption.
Qed.

(* ---------- G4: Geometry.sort — ordering by global (start, stop) is ordering by (chromosome, start, stop) ---------- *)
Definition row_ok (sizes : list Z) (t : tiv) : Prop :=
  0 <= t_tag t < len sizes /\ 0 <= t_start t < gsize sizes (t_tag t) /\ t_start t <= t_stop t <= gsize sizes (t_tag t).
Lemma gkey_is_key3 sizes a b : nonneg sizes -> row_ok sizes a -> row_ok sizes b -> gkey_leb sizes a b = key3_leb a b.
Proof.
  intros Hnn [Ha1 [Ha2 Ha3]] [Hb1 [Hb2 Hb3]]. unfold gkey_leb, key3_leb. cbv zeta.
  destruct (Z.lt_trichotomy (t_tag a) (t_tag b)) as [Hlt|[Heq|Hgt]].
  - pose proof (goff_next sizes (t_tag a) Ha1) as Hn.
    pose proof (goff_mono sizes (t_tag a + 1) (t_tag b) Hnn ltac:(lia) ltac:(lia)) as Hm.
    replace (t_tag a <? t_tag b) with true by (symmetry; apply Z.ltb_lt; lia).
    replace (goff sizes (t_tag a) + t_start a <? goff sizes (t_tag b) + t_start b) with true by (symmetry; apply Z.ltb_lt; lia).
    reflexivity.
  - rewrite Heq. rewrite Z.ltb_irrefl, Z.eqb_refl. cbn [orb andb].
    replace (goff sizes (t_tag b) + t_start a <? goff sizes (t_tag b) + t_start b) with (t_start a <? t_start b)
      by (apply bool_eq_iff; rewrite !Z.ltb_lt; lia).
    replace (goff sizes (t_tag b) + t_start a =? goff sizes (t_tag b) + t_start b) with (t_start a =? t_start b)
      by (apply bool_eq_iff; rewrite !Z.eqb_eq; lia).
    replace (goff sizes (t_tag b) + t_stop a <=? goff sizes (t_tag b) + t_stop b) with (t_stop a <=? t_stop b)
      by (apply bool_eq_iff; rewrite !Z.leb_le; lia).
    reflexivity.
  - pose proof (goff_next sizes (t_tag b) Hb1) as Hn.
    pose proof (goff_mono sizes (t_tag b + 1) (t_tag a) Hnn ltac:(lia) ltac:(lia)) as Hm.
    replace (t_tag a <? t_tag b) with false by (symmetry; apply Z.ltb_ge; lia).
    replace (t_tag a =? t_tag b) with false by (symmetry; apply Z.eqb_neq; lia).
    replace (goff sizes (t_tag a) + t_start a <? goff sizes (t_tag b) + t_start b) with false by (symmetry; apply Z.ltb_ge; lia).
    replace (goff sizes (t_tag a) + t_start a =? goff sizes (t_tag b) + t_start b) with false by (symmetry; apply Z.eqb_neq; lia).
    reflexivity.
Qed.
Lemma insert_ext_in {T} (l1 l2 : T -> T -> bool) x L : (forall y, In y L -> l1 x y = l2 x y) -> insert l1 x L = insert l2 x L.
Proof.
  induction L as [|y L IH]; intros H; [reflexivity|]. cbn [insert]. rewrite (H y (or_introl eq_refl)).
  destruct (l2 x y); [reflexivity|]. f_equal. apply IH. intros z Hz. apply H. right. exact Hz.
Qed.
Lemma isort_ext_in {T} (l1 l2 : T -> T -> bool) l : (forall a b, In a l -> In b l -> l1 a b = l2 a b) -> isort l1 l = isort l2 l.
Proof.
  induction l as [|x l IH]; intros H; [reflexivity|]. cbn [isort fold_right]. fold (isort l1 l). fold (isort l2 l).
  rewrite IH by (intros a b Ha Hb; apply H; right; assumption).
  apply insert_ext_in. intros y Hy. apply H; [left; reflexivity|right]. apply (Permutation_in _ (isort_perm l2 l)). exact Hy.
Qed.
Lemma geom_sort_is_sort sizes I : nonneg sizes -> (forall t, In t I -> row_ok sizes t) ->
  geom_sort_model sizes I = sort_full_model I.
Proof.
  intros Hnn Hwf. unfold geom_sort_model, sort_full_model. apply isort_ext_in.
  intros a b Ha Hb. apply gkey_is_key3; [exact Hnn|apply Hwf; exact Ha|apply Hwf; exact Hb].
Qed.
Lemma geom_sort_ok sizes I : nonneg sizes -> (forall t, In t I -> row_ok sizes t) ->
  Permutation (geom_sort_model sizes I) I /\ sortedb key3_leb (geom_sort_model sizes I) = true.
Proof. intros Hnn Hwf. rewrite (geom_sort_is_sort sizes I Hnn Hwf). apply sort_full_ok. Qed.

(* ---------- G5: Geometry.jaccard — counting over the whole genome counts the contig ---------- *)
Lemma sumZ_zero_map {T} (f : T -> Z) l : (forall x, In x l -> f x = 0) -> sumZ (map f l) = 0.
Proof.
  induction l as [|a l IH]; intros H; [reflexivity|]. cbn [map sumZ fold_right]. fold (sumZ (map f l)).
  rewrite IH by (intros x Hx; apply H; right; exact Hx). rewrite (H a (or_introl eq_refl)). reflexivity.
Qed.
Lemma count_bases_window (p q : Z -> bool) off size total : 0 <= off -> 0 <= size -> off + size <= total ->
  (forall x, 0 <= x < size -> p (x + off) = q x) -> (forall x, 0 <= x < total -> ~ (off <= x < off + size) -> p x = false) ->
  count_bases p total = count_bases q size.
Proof.
  intros H0 H1 H2 Hin Hout. unfold count_bases, bases, arange.
  replace (Z.to_nat total) with (Z.to_nat off + (Z.to_nat size + Z.to_nat (total - off - size)))%nat by lia.
  rewrite !arange_from_app, !map_app, !sumZ_app.
  rewrite (sumZ_zero_map _ (arange_from 0 (Z.to_nat off))).
  2:{ intros x Hx. apply In_arange_from in Hx. rewrite Hout by lia. reflexivity. }
  rewrite (sumZ_zero_map _ (arange_from (0 + Z.of_nat (Z.to_nat off) + Z.of_nat (Z.to_nat size)) _)).
  2:{ intros x Hx. apply In_arange_from in Hx. rewrite Hout by lia. reflexivity. }
  replace (0 + Z.of_nat (Z.to_nat off)) with (0 + off) by lia. rewrite (map_arange_shift (fun x => b2z (p x)) off).
  rewrite Z.add_0_l, Z.add_0_r. f_equal. apply map_ext_in. intros x Hx. apply In_arange_from in Hx. rewrite Hin by lia. reflexivity.
Qed.
Lemma covered_outside k I x lo hi : (forall i, In i I -> lo <= fst i + k /\ snd i + k <= hi) -> ~ (lo <= x < hi) ->
  covered (map (shift_iv k) I) x = false.
Proof.
  intros H Hx. apply not_true_is_false. intros Hc. apply covered_iff in Hc. destruct Hc as [j [Hj Hcov]].
  apply in_map_iff in Hj. destruct Hj as [i [E Hi]]. subst j. apply covers_iff in Hcov. unfold shift_iv in Hcov. cbn [fst snd] in Hcov.
  specialize (H i Hi). lia.
Qed.
Lemma geom_jaccard_is_per_base sizes r A B : genome_wf sizes r ->
  Proofs.C08_sim.wf_set A (gsize sizes r) -> Proofs.C08_sim.wf_set B (gsize sizes r) ->
  geom_jaccard_model sizes r A B = Some (jaccard_spec A B (gsize sizes r)).
Proof.
  intros [Hnn Hr] HA HB. unfold geom_jaccard_model.
  pose proof (goff_nonneg sizes r Hnn) as H0. pose proof (goff_fits sizes r Hnn Hr) as H1.
  assert (Hsz : 0 <= gsize sizes r).
  { unfold gsize, nthd. destruct (nth_in_or_default (Z.to_nat r) sizes 0) as [Hin|E]; [apply Hnn; exact Hin|rewrite E; lia]. }
  set (off := goff sizes r) in *. set (size := gsize sizes r) in *.
  assert (HsA : Proofs.C08_sim.wf_set (map (shift_iv off) A) (sumZ sizes)).
  { intros i Hi. apply in_map_iff in Hi. destruct Hi as [j [E Hj]]. subst i. specialize (HA j Hj). unfold shift_iv. cbn [fst snd]. lia. }
  assert (HsB : Proofs.C08_sim.wf_set (map (shift_iv off) B) (sumZ sizes)).
  { intros i Hi. apply in_map_iff in Hi. destruct Hi as [j [E Hj]]. subst i. specialize (HB j Hj). unfold shift_iv. cbn [fst snd]. lia. }
  rewrite (Proofs.C08_sim.jaccard_is_per_base _ _ (sumZ sizes) ltac:(lia) HsA HsB). f_equal. unfold jaccard_spec.
  assert (HoA : forall x, ~ (off <= x < off + size) -> covered (map (shift_iv off) A) x = false).
  { intros x Hx. apply (covered_outside off A x off (off + size)); [|exact Hx]. intros i Hi. specialize (HA i Hi). lia. }
  assert (HoB : forall x, ~ (off <= x < off + size) -> covered (map (shift_iv off) B) x = false).
  { intros x Hx. apply (covered_outside off B x off (off + size)); [|exact Hx]. intros i Hi. specialize (HB i Hi). lia. }
  f_equal; apply (count_bases_window _ _ off size (sumZ sizes)); try lia.
  - intros x _. rewrite !covered_shift. reflexivity.
  - intros x _ Hx. rewrite (HoA x Hx). reflexivity.
  - intros x _. rewrite !covered_shift. reflexivity.
  - intros x _ Hx. rewrite (HoA x Hx), (HoB x Hx). reflexivity.
Qed.

(* Proofs/C01_delim.v — for line-oriented (delimited) formats the chunks are exactly the
   newline-terminated file, cut after line breaks, with nothing dropped. *)
From Coq Require Import ZArith List Bool Arith Lia.
From BNP Require Import Base.Prims Base.PrimsFacts Model.C01 Proofs.C01.
Import ListNotations.

Definition ends_nl (l : list Z) : bool := (last l 0 =? 10)%Z.
Definition norm_text (file : list Z) : list Z :=
  match file with [] => [] | _ => if ends_nl file then file else file ++ [10%Z] end.

(* ---------- terminators of marker-free formats ---------- *)
Lemma terminator_last f a b : b <> [] -> terminator f (a ++ b) = terminator f b.
Proof. intros Hb. unfold terminator. rewrite last_app_nonempty by assumption. reflexivity. Qed.
Lemma term_ends f Y : marker f = [] -> Y <> [] -> ends_nl (Y ++ terminator f Y) = true.
Proof.
  intros Hm HY. unfold terminator, ends_nl. rewrite Hm, app_nil_r.
  destruct (last Y 0 =? 10)%Z eqn:E.
  - rewrite app_nil_r. exact E.
  - rewrite last_app_nonempty by discriminate. reflexivity.
Qed.
Lemma term_idem f Y : marker f = [] -> Y <> [] -> terminator f (Y ++ terminator f Y) = [].
Proof.
  intros Hm HY. pose proof (term_ends f Y Hm HY) as H. unfold ends_nl in H.
  unfold terminator at 1. rewrite H, Hm. reflexivity.
Qed.
Lemma concat_nonempty (temp : list (list Z)) : temp <> [] -> Forall (fun c => c <> []) temp -> concat temp <> [].
Proof.
  intros Ht Hf. destruct temp as [|c t]; [congruence|]. inversion Hf; subst. simpl.
  destruct c; [congruence|discriminate].
Qed.
Lemma add_term_nonempty f c : c <> [] -> add_term f c <> [].
Proof. intros Hc. rewrite add_term_app. destruct c; [congruence|discriminate]. Qed.

(* ---------- end-of-file discipline of the accumulation loop (repaired code) ---------- *)
Definition term_post (f : fmt) (file : list Z) (pos : nat) (base : list Z) (r : accres) : Prop :=
  match r with
  | AComplete temp' pos' fin app' =>
      fin = true -> let S := base ++ firstn (pos' - pos) (skipn pos file) in S <> [] /\ app' = terminator f S
  | ANone pending app' =>
      (pending = [] /\ app' = [])
      \/ (exists S, S <> [] /\ app' = terminator f S /\ pending = S ++ app' /\ complete f [pending] = CNo)
  | _ => True
  end.

Lemma accumulate_term f k file l0 : marker f = [] -> (1 <= k)%nat ->
  forall fuel pos temp re app base,
    concat temp = base ++ app -> Forall (fun c => c <> []) temp ->
    (app = [] \/ (base <> [] /\ app = terminator f base /\ skipn pos file = [])) ->
    (re = true -> base <> [] /\ app = terminator f base /\ temp = [base ++ app] /\ complete f temp = CNo /\ skipn pos file = []) ->
    term_post f file pos base (accumulate true fuel f k file l0 pos temp re app).
Proof.
  intros Hm Hk. induction fuel as [|fuel IH]; intros pos temp re app base Hc Hne HJ HR; [exact I|].
  cbn [accumulate]. unfold m_is_finished, m_reported, m_lines_after, m_oneline_incomplete, m_oneline_kept, m_size_after, m_header_line, m_plus_line in *.
  destruct (firstn k (skipn pos file)) as [|x r] eqn:Eraw.
  - assert (HX : skipn pos file = []) by (apply (firstn_nil_inv k); assumption).
    cbn [length negb orb]. rewrite Nat.add_0_r.
    destruct re.
    + (* second end-of-file: give up; the pending text had been terminated and was still incomplete *)
      cbn [orb]. destruct (HR eq_refl) as (Hb & Ha & Ht & Hcn & _).
      right. exists base. split; [exact Hb|]. split; [exact Ha|]. split; [exact Hc|].
      rewrite Hc. rewrite Ht in Hcn. exact Hcn.
    + cbn [orb]. destruct temp as [|c t] eqn:Et.
      * left. cbn [concat] in Hc. symmetry in Hc. apply app_eq_nil in Hc. destruct Hc as [_ ->]. split; reflexivity.
      * rewrite <- Et in *.
        assert (Hpn : concat temp <> []) by (apply concat_nonempty; [rewrite Et; discriminate|assumption]).
        (* whatever was appended before, the pending text terminated is base ++ terminator base *)
        assert (Hkey : base <> [] /\ add_term f (concat temp) = base ++ (app ++ terminator f (concat temp))
                       /\ app ++ terminator f (concat temp) = terminator f base).
        { destruct HJ as [->|(Hb & Ha & _)].
          - rewrite app_nil_r in Hc. rewrite Hc in *. split; [assumption|]. split; [apply add_term_app|reflexivity].
          - split; [assumption|]. rewrite Hc, Ha. rewrite add_term_app.
            rewrite (term_idem f base Hm Hb). rewrite !app_nil_r. split; reflexivity. }
        destruct Hkey as (Hb & Hch & Happ).
        destruct (complete f [add_term f (concat temp)]) eqn:Ecomp.
        -- cbn [term_post]. intros _. rewrite Nat.sub_diag. cbn [firstn]. rewrite app_nil_r. split; [exact Hb|exact Happ].
        -- apply IH.
           ++ cbn [concat]. rewrite app_nil_r. exact Hch.
           ++ constructor; [apply add_term_nonempty; exact Hpn|constructor].
           ++ right. repeat split; assumption.
           ++ intros _. split; [exact Hb|]. split; [exact Happ|]. split; [rewrite Hch; reflexivity|].
              split; [exact Ecomp|exact HX].
        -- exact I.
  - (* non-empty raw read *)
    assert (Happ : app = []).
    { destruct HJ as [H|(_ & _ & H)]; [exact H|]. rewrite H in Eraw. rewrite firstn_nil in Eraw. discriminate. }
    assert (Hre : re = false).
    { destruct re; [|reflexivity]. destruct (HR eq_refl) as (_ & _ & _ & _ & H). rewrite H in Eraw. rewrite firstn_nil in Eraw. discriminate. }
    subst app re. rewrite app_nil_r in Hc.
    set (raw := x :: r) in *.
    assert (Hrn : raw <> []) by discriminate.
    assert (Hraw : firstn (length raw) (skipn pos file) = raw) by (rewrite <- Eraw; apply firstn_len_firstn).
    set (fin := (length raw <? k)%nat).
    assert (Hfin : fin = true -> skipn (pos + length raw) file = []).
    { intros Hf. unfold fin in Hf. apply Nat.ltb_lt in Hf. rewrite skipn_add. rewrite <- Eraw in *. apply short_read_exhausts. exact Hf. }
    set (chunk := if fin then add_term f raw else raw).
    set (app' := if fin then [] ++ terminator f raw else []).
    assert (Hchunk : chunk = raw ++ app').
    { unfold chunk, app'. destruct fin; [rewrite add_term_app; reflexivity|rewrite app_nil_r; reflexivity]. }
    assert (Hc' : concat (temp ++ [chunk]) = (base ++ raw) ++ app').
    { rewrite concat_app. cbn [concat]. rewrite app_nil_r, Hc, Hchunk, app_assoc. reflexivity. }
    assert (Hbr : base ++ raw <> []) by (destruct base; [exact Hrn|discriminate]).
    assert (Happ' : fin = true -> app' = terminator f (base ++ raw)).
    { intros Hf. unfold app'. rewrite Hf. cbn [List.app]. symmetry. apply terminator_last. exact Hrn. }
    destruct (complete f (temp ++ [chunk])) eqn:Ecomp.
    + cbn [term_post]. intros Hf. replace (pos + length raw - pos)%nat with (length raw) by lia. rewrite Hraw.
      split; [exact Hbr|apply Happ'; exact Hf].
    + assert (Hne' : Forall (fun c => c <> []) (temp ++ [chunk])).
      { apply Forall_app. split; [assumption|]. constructor; [|constructor].
        rewrite Hchunk. destruct raw; [congruence|discriminate]. }
      assert (HJ' : app' = [] \/ (base ++ raw <> [] /\ app' = terminator f (base ++ raw) /\ skipn (pos + length raw) file = [])).
      { destruct fin eqn:Ef; [right; repeat split; [exact Hbr|apply Happ'; reflexivity|apply Hfin; reflexivity]|left; reflexivity]. }
      specialize (IH (pos + length raw)%nat (temp ++ [chunk]) false app' (base ++ raw) Hc' Hne' HJ' ltac:(discriminate)).
      assert (Hpre' : app' = [] \/ skipn (pos + length raw) file = []) by (destruct HJ' as [H|(_ & _ & H)]; [left|right]; exact H).
      pose proof (accumulate_spec true f k file l0 Hk fuel (pos + length raw)%nat (temp ++ [chunk]) false app' (base ++ raw) Hc' Hpre') as HS.
      destruct (accumulate true fuel f k file l0 (pos + length raw) (temp ++ [chunk]) false app') as [t p' fn a|pend a| |];
        cbn [term_post acc_post] in *; try exact I; [|exact IH].
      intros Hf. specialize (IH Hf). cbv zeta in IH. cbv zeta.
      destruct HS as (Hle & _). destruct IH as [IH1 IH2].
      replace (p' - pos)%nat with (length raw + (p' - (pos + length raw)))%nat by lia.
      rewrite firstn_add_split, Hraw. rewrite skipn_add in IH1, IH2. rewrite <- app_assoc in IH1, IH2.
      split; assumption.
    + exact I.
Qed.

(* ---------- the cut of a delimited buffer ---------- *)
Lemma last_In {A} (l : list A) d : l <> [] -> In (last l d) l.
Proof.
  induction l as [|x l IH]; [congruence|]. intros _. destruct l as [|y l]; [left; reflexivity|].
  right. apply IH. discriminate.
Qed.
Lemma ends_nl_nonempty l : ends_nl l = true -> l <> [].
Proof. intros H ->. discriminate. Qed.
Lemma ends_nl_split l : ends_nl l = true -> l = removelast l ++ [10%Z].
Proof.
  intros H. pose proof (ends_nl_nonempty l H) as Hn. unfold ends_nl in H. apply Z.eqb_eq in H.
  rewrite <- H. apply app_removelast_last. exact Hn.
Qed.

Lemma cut_delim_ok sep chunk size nl : cut (Delim sep) chunk = CutOk size nl ->
  ends_nl (firstn size chunk) = true /\ (ends_nl chunk = true -> size = length chunk).
Proof.
  unfold cut. unfold m_is_finished, m_reported, m_lines_after, m_oneline_incomplete, m_oneline_kept, m_size_after, m_header_line, m_plus_line in *. intros H.
  destruct (nl_pos chunk) as [|p0 ps] eqn:En; [discriminate|].
  assert (Hnn : nl_pos chunk <> []) by (rewrite En; discriminate).
  rewrite <- En in H.
  match type of H with (if ?c then _ else _) = _ => destruct c; [|discriminate] end.
  injection H as <- _.
  set (p := last (nl_pos chunk) 0%Z).
  assert (Hin : In p (nl_pos chunk)) by (apply last_In; exact Hnn).
  apply In_positions in Hin. destruct Hin as [Hr Hv].
  split.
  - unfold ends_nl. replace (Z.to_nat (p + 1)) with (S (Z.to_nat p)) by lia.
    rewrite last_nth_firstn by (unfold len in Hr; lia). unfold nthZ in Hv. rewrite Hv. reflexivity.
  - intros He. pose proof (ends_nl_split chunk He) as Hs.
    assert (Hp : p = len (removelast chunk)).
    { unfold p. unfold nl_pos. rewrite Hs at 1. rewrite positions_snoc_hit.
      rewrite last_app_nonempty by discriminate. reflexivity. }
    rewrite Hp. rewrite Hs at 2. rewrite app_length. unfold len. simpl length. lia.
Qed.

Lemma complete_delim_nl sep Y : ends_nl Y = true -> complete (Delim sep) [Y] = CYes.
Proof.
  intros He. unfold complete. cbn [fold_right]. rewrite Nat.add_0_r.
  pose proof (ends_nl_split Y He) as Hs. unfold count_nl, nl_pos. rewrite Hs, positions_snoc_hit, app_length.
  simpl length. replace (1 <=? length (positions 10 (removelast Y)) + 1)%nat with true; [reflexivity|].
  symmetry. apply Nat.leb_le. lia.
Qed.

Lemma norm_text_term sep file : file <> [] -> norm_text file = file ++ terminator (Delim sep) file.
Proof.
  intros Hf. unfold norm_text, terminator, ends_nl. cbn [marker]. rewrite app_nil_r.
  destruct file; [congruence|]. destruct (last (z :: file) 0 =? 10)%Z; [rewrite app_nil_r|]; reflexivity.
Qed.

Lemma read_chunk_delim sep m k file st D : (1 <= k)%nat -> Inv m file st D ->
  match read_chunk true (Delim sep) m k file st with
  | RChunk b dropped app st' =>
      ends_nl b = true /\ (r_finished st' = true -> dropped = [] /\ concat D ++ b = norm_text file)
  | RNone dropped app st' => dropped = [] /\ app = []
  | _ => True
  end.
Proof.
  intros Hk HI.
  pose proof (read_chunk_spec true (Delim sep) m k file st D Hk HI) as HG.
  unfold read_chunk in *. unfold m_is_finished, m_reported, m_lines_after, m_incomplete_line, m_pending_incomplete_line, m_oneline_incomplete, m_oneline_kept, m_size_after, m_header_line, m_plus_line in *.
  set (temp0 := match r_prepend st with [] => [] | p => [p] end) in *.
  assert (Ht0 : concat temp0 = r_prepend st ++ []).
  { unfold temp0. destruct (r_prepend st); [reflexivity|]. cbn [concat]. reflexivity. }
  assert (Hne0 : Forall (fun c => c <> []) temp0).
  { unfold temp0. destruct (r_prepend st); [constructor|]. constructor; [discriminate|constructor]. }
  pose proof (accumulate_spec true (Delim sep) k file (r_lines st) Hk (length file + 2) (r_pos st) temp0 false [] (r_prepend st) Ht0 (or_introl eq_refl)) as HA.
  pose proof (accumulate_term (Delim sep) k file (r_lines st) eq_refl Hk (length file + 2) (r_pos st) temp0 false [] (r_prepend st) Ht0 Hne0 (or_introl eq_refl) ltac:(discriminate)) as HT.
  destruct (accumulate true (length file + 2) (Delim sep) k file (r_lines st) (r_pos st) temp0 false []) as [temp pos' fin app|pending app|l|];
    cbn [acc_post term_post] in *; try exact I.
  - destruct HA as (Hle & Hle2 & Hcc & Hf1 & Hf2).
    destruct (cut (Delim sep) (concat temp)) as [size nl| | |l] eqn:Ecut; try exact I.
    destruct (cut_delim_ok sep (concat temp) size nl Ecut) as [Hb Hfull].
    destruct fin; cbn [andb] in HG |- *.
    + revert HG. destruct (negb (leftover_ok (Delim sep) (skipn size (concat temp)))); [intros _; exact I|intros HG].
      split; [exact Hb|].
      cbn [r_finished] in *. intros _. destruct HG as [_ HG]. specialize (HG eq_refl).
      destruct (HT eq_refl) as [HS Happ]. cbv zeta in HS, Happ.
      set (S := r_prepend st ++ firstn (pos' - r_pos st) (skipn (r_pos st) file)) in *.
      assert (Hchunk : concat temp = S ++ terminator (Delim sep) S).
      { rewrite Hcc, Happ. unfold S. rewrite <- app_assoc. reflexivity. }
      assert (Hends : ends_nl (concat temp) = true) by (rewrite Hchunk; apply term_ends; [reflexivity|exact HS]).
      specialize (Hfull Hends). subst size.
      rewrite firstn_all, skipn_all in *. split; [reflexivity|].
      rewrite app_nil_r in HG. rewrite Hchunk, Happ in HG. rewrite app_assoc in HG.
      apply app_inv_tail in HG.
      assert (Hfile : file <> []) by (rewrite <- HG; destruct (concat D); [exact HS|discriminate]).
      rewrite (norm_text_term sep file Hfile). rewrite <- HG at 2. rewrite (terminator_last _ (concat D) S HS).
      rewrite Hchunk, <- HG, <- app_assoc. reflexivity.
    + split; [exact Hb|]. destruct m; cbn [r_finished]; discriminate.
  - cbn [andb] in HG |- *. revert HG.
    destruct (negb (leftover_ok (Delim sep) pending)); [intros _; exact I|intros HG].
    destruct HT as [[Hp Ha]|(S & HS & Ha & Hp & Hcn)]; [split; assumption|].
    exfalso. rewrite Hp, Ha in Hcn. rewrite complete_delim_nl in Hcn; [discriminate|].
    apply term_ends; [reflexivity|exact HS].
Qed.

Lemma concat_ends (D : list (list Z)) : Forall (fun c => ends_nl c = true) D -> D = [] \/ ends_nl (concat D) = true.
Proof.
  intros H. destruct D as [|c D] using rev_ind; [left; reflexivity|right].
  apply Forall_app in H. destruct H as [_ H]. inversion H; subst.
  rewrite concat_snoc. unfold ends_nl in *. rewrite last_app_nonempty; [assumption|].
  apply ends_nl_nonempty. assumption.
Qed.
Lemma norm_text_fix file : file = [] \/ ends_nl file = true -> norm_text file = file.
Proof. intros [->|H]; [reflexivity|]. unfold norm_text. destruct file; [reflexivity|]. rewrite H. reflexivity. Qed.

Lemma read_chunks_loop_delim sep m k file : (1 <= k)%nat ->
  forall fuel st acc chunks dropped app lines,
    r_finished st = false -> Inv m file st (rev acc) -> Forall (fun c => ends_nl c = true) (rev acc) ->
    read_chunks_loop true fuel (Delim sep) m k file st acc = Done chunks dropped app lines ->
    dropped = [] /\ concat chunks = norm_text file /\ Forall (fun c => ends_nl c = true) chunks.
Proof.
  intros Hk. induction fuel as [|fuel IH]; intros st acc chunks dropped app lines Hnf HI HE Hrun; [discriminate|].
  cbn [read_chunks_loop] in Hrun. rewrite Hnf in Hrun.
  pose proof (read_chunk_spec true (Delim sep) m k file st (rev acc) Hk HI) as HS.
  pose proof (read_chunk_delim sep m k file st (rev acc) Hk HI) as HD.
  destruct (read_chunk true (Delim sep) m k file st) as [b d a st'|d a st'|l| |]; try discriminate.
  - destruct HS as [HS1 HS2]. destruct HD as [Hb HD].
    assert (HE' : Forall (fun c => ends_nl c = true) (rev (b :: acc))).
    { cbn [rev]. apply Forall_app. split; [exact HE|constructor; [exact Hb|constructor]]. }
    destruct (r_finished st') eqn:Ef.
    + injection Hrun as <- <- <- _. destruct (HD eq_refl) as [Hd Hc]. split; [exact Hd|]. split; [|exact HE'].
      cbn [rev]. rewrite concat_snoc. exact Hc.
    + destruct (HS1 eq_refl) as (HI' & _ & _).
      apply (IH st' (b :: acc) chunks dropped app lines Ef); [cbn [rev]; exact HI'|exact HE'|exact Hrun].
  - injection Hrun as <- <- <- _. destruct HD as [-> ->]. split; [reflexivity|]. split; [|exact HE].
    rewrite !app_nil_r in HS. rewrite HS. symmetry. apply norm_text_fix.
    destruct (concat_ends (rev acc) HE) as [H|H]; [left; rewrite <- HS, H; reflexivity|right; rewrite <- HS; exact H].
Qed.

Theorem delim_chunks_exact sep m k file chunks dropped app lines :
  (1 <= k)%nat ->
  read_chunks true (Delim sep) m k file = Done chunks dropped app lines ->
  dropped = [] /\ concat chunks = norm_text file /\ Forall (fun c => ends_nl c = true) chunks.
Proof.
  intros Hk Hrun. unfold read_chunks in Hrun.
  apply (read_chunks_loop_delim sep m k file Hk (length file + 2) rinit [] chunks dropped app lines);
    [reflexivity|split; reflexivity|constructor|exact Hrun].
Qed.

(* ---------- records: cutting after a line break never splits or merges lines ---------- *)
Lemma split_on_nonempty sep l : split_on sep l <> [].
Proof.
  induction l as [|x l IH]; simpl; [discriminate|].
  destruct (x =? sep)%Z; [discriminate|]. destruct (split_on sep l); [congruence|discriminate].
Qed.
Lemma split_on_app_sep sep x y : split_on sep (x ++ sep :: y) = split_on sep x ++ split_on sep y.
Proof.
  induction x as [|c x IH]; simpl.
  - rewrite Z.eqb_refl. reflexivity.
  - destruct (c =? sep)%Z; [rewrite IH; reflexivity|].
    rewrite IH. pose proof (split_on_nonempty sep x) as Hn.
    destruct (split_on sep x) as [|h t]; [congruence|reflexivity].
Qed.
Lemma lines_terminated a : lines (a ++ [10%Z]) = split_on 10 a.
Proof.
  unfold lines. rewrite (split_on_app_sep 10 a []). simpl split_on at 2.
  rewrite rev_app_distr. simpl. apply rev_involutive.
Qed.
Lemma lines_app a b : ends_nl a = true -> lines (a ++ b) = lines a ++ lines b.
Proof.
  intros He. pose proof (ends_nl_split a He) as Hs. set (a' := removelast a) in *.
  rewrite Hs. rewrite lines_terminated. rewrite <- app_assoc. cbn [List.app].
  unfold lines. rewrite split_on_app_sep. rewrite rev_app_distr.
  pose proof (split_on_nonempty 10 b) as Hn.
  destruct (rev (split_on 10 b)) as [|h t] eqn:Er.
  - exfalso. apply Hn. rewrite <- (rev_involutive (split_on 10 b)), Er. reflexivity.
  - cbn [List.app]. destruct h as [|c h].
    + rewrite <- (rev_involutive (split_on 10 a')) at 2. rewrite <- rev_app_distr. reflexivity.
    + reflexivity.
Qed.
Lemma lines_concat (D : list (list Z)) : Forall (fun c => ends_nl c = true) D ->
  lines (concat D) = concat (map lines D).
Proof.
  induction D as [|c D IH]; intros H; [reflexivity|].
  inversion H; subst. cbn [concat map]. rewrite lines_app by assumption. rewrite IH by assumption. reflexivity.
Qed.

Theorem delim_records_exact sep m k file chunks dropped app lines_read :
  (1 <= k)%nat ->
  read_chunks true (Delim sep) m k file = Done chunks dropped app lines_read ->
  concat (map lines chunks) = lines (norm_text file).
Proof.
  intros Hk Hrun. destruct (delim_chunks_exact sep m k file chunks dropped app lines_read Hk Hrun) as (_ & Hc & HE).
  rewrite <- Hc. symmetry. apply lines_concat. exact HE.
Qed.

(* Proofs/C15_oneline.v — record-marker formats (FASTQ, two-line FASTA): the line number the chunked
   reader reports is the line of the offending record of the whole text, for every chunk size and both
   reader modes; a read that completes means no line of the text offends. *)
From Coq Require Import ZArith List Bool Arith Lia.
From BNP Require Import Base.Prims Base.PrimsFacts Model.C01 Model.C15 Proofs.C01 Proofs.C01_delim Proofs.C01_lines.
Import ListNotations.
Local Open Scope nat_scope.

(* ---------- strided selections ---------- *)
Definition qual (k n stop i : nat) : bool := (i <? stop) && (k <=? i) && (((i - k) mod n) =? 0).

Lemma strided_cons x r k n stop i :
  strided (x :: r) k n stop i = if qual k n stop i then x :: strided r k n stop (S i) else strided r k n stop (S i).
Proof. reflexivity. Qed.

Lemma strided_app a b k n stop i :
  strided (a ++ b) k n stop i = strided a k n stop i ++ strided b k n stop (i + length a).
Proof.
  revert i. induction a as [|x a IH]; intros i.
  - cbn [List.app length]. rewrite Nat.add_0_r. reflexivity.
  - cbn [List.app length]. rewrite !strided_cons. rewrite IH.
    replace (S i + length a) with (i + S (length a)) by lia.
    destruct (qual k n stop i); reflexivity.
Qed.

Lemma strided_none l k n stop : forall i,
  (forall j, i <= j < i + length l -> qual k n stop j = false) -> strided l k n stop i = [].
Proof.
  induction l as [|x l IH]; intros i H; [reflexivity|].
  rewrite strided_cons. rewrite (H i) by (cbn [length]; lia).
  apply IH. intros j Hj. apply H. cbn [length]. lia.
Qed.

(* after a selected element, the next n-1 elements are not selected *)
Lemma strided_block r k n stop q : 1 <= n -> length r <= n - 1 -> strided r k n stop (S (k + q * n)) = [].
Proof.
  intros Hn Hr. apply strided_none. intros j Hj. unfold qual.
  replace (j - k) with ((j - k - q * n) + q * n) by lia.
  rewrite Nat.mod_add by lia. rewrite Nat.mod_small by lia.
  replace (j - k - q * n =? 0) with false by (symmetry; apply Nat.eqb_neq; lia).
  apply andb_false_r.
Qed.

Lemma qual_hit k n stop q : 1 <= n -> k + q * n < stop -> qual k n stop (k + q * n) = true.
Proof.
  intros Hn Hs. unfold qual.
  replace (k + q * n <? stop) with true by (symmetry; apply Nat.ltb_lt; lia).
  replace (k <=? k + q * n) with true by (symmetry; apply Nat.leb_le; lia).
  replace (k + q * n - k) with (q * n) by lia. rewrite Nat.mod_mul by lia. reflexivity.
Qed.

Lemma strided_len k n stop : 1 <= n -> forall q l,
  length l = k + q * n -> k + q * n <= stop -> length (strided l k n stop 0) = q.
Proof.
  intros Hn. induction q as [|q IH]; intros l Hl Hs.
  - rewrite strided_none; [reflexivity|]. intros j Hj. unfold qual.
    replace (k <=? j) with false by (symmetry; apply Nat.leb_gt; lia).
    rewrite andb_false_r. reflexivity.
  - rewrite <- (firstn_skipn (k + q * n) l). rewrite strided_app.
    assert (Hl1 : length (firstn (k + q * n) l) = k + q * n) by (rewrite firstn_length; lia).
    assert (Hl2 : length (skipn (k + q * n) l) = n) by (rewrite skipn_length; lia).
    rewrite app_length. rewrite (IH (firstn (k + q * n) l)) by lia.
    rewrite Hl1. cbn [Nat.add].
    destruct (skipn (k + q * n) l) as [|x r]; [cbn [length] in Hl2; lia|].
    rewrite strided_cons. rewrite qual_hit by lia.
    rewrite strided_block by (cbn [length] in Hl2; lia). cbn [length]. lia.
Qed.

Lemma strided_len_le k n stop : 1 <= n -> forall q l,
  length l <= k + q * n -> length (strided l k n stop 0) <= q.
Proof.
  intros Hn. induction q as [|q IH]; intros l Hl.
  - rewrite strided_none; [cbn; lia|]. intros j Hj. unfold qual.
    replace (k <=? j) with false by (symmetry; apply Nat.leb_gt; lia).
    rewrite andb_false_r. reflexivity.
  - rewrite <- (firstn_skipn (k + q * n) l). rewrite strided_app. rewrite app_length.
    assert (H1 : length (strided (firstn (k + q * n) l) k n stop 0) <= q)
      by (apply IH; rewrite firstn_length; lia).
    assert (Hl2 : length (skipn (k + q * n) l) <= n) by (rewrite skipn_length; lia).
    cbn [Nat.add].
    destruct (skipn (k + q * n) l) as [|x r] eqn:Es; [cbn [strided length]; lia|].
    assert (Hl1 : length (firstn (k + q * n) l) = k + q * n).
    { rewrite firstn_length. apply Nat.min_l.
      assert (length (skipn (k + q * n) l) >= 1) by (rewrite Es; cbn [length]; lia).
      rewrite skipn_length in H. lia. }
    rewrite Hl1. rewrite strided_cons.
    rewrite strided_block by (cbn [length] in Hl2; lia).
    destruct (qual k n stop (k + q * n)); cbn [length]; lia.
Qed.

Lemma strided_stop l k n stop : strided l k n stop 0 = strided (firstn stop l) k n stop 0.
Proof.
  rewrite <- (firstn_skipn stop l) at 1. rewrite strided_app.
  rewrite (strided_none (skipn stop l)); [apply app_nil_r|].
  intros j Hj. unfold qual.
  assert (stop <= j).
  { destruct (Nat.le_gt_cases stop (length l)).
    - rewrite firstn_length, Nat.min_l in Hj by assumption. lia.
    - rewrite skipn_all2 in Hj by lia. cbn [length] in Hj. lia. }
  replace (j <? stop) with false by (symmetry; apply Nat.ltb_ge; assumption). reflexivity.
Qed.

(* the q-th selected element is element k + q*n *)
Lemma strided_nth l k n stop q d : 1 <= n -> k + q * n < stop -> k + q * n < length l ->
  q < length (strided l k n stop 0) /\ nth q (strided l k n stop 0) d = nth (k + q * n) l d.
Proof.
  intros Hn Hs Hl.
  destruct (nth_split l d Hl) as (l1 & l2 & Hsplit & Hlen).
  set (x := nth (k + q * n) l d) in *.
  rewrite Hsplit at 1 2. rewrite strided_app. cbn [Nat.add]. rewrite Hlen.
  rewrite strided_cons, qual_hit by lia.
  pose proof (strided_len k n stop Hn q l1 Hlen ltac:(lia)) as HL.
  split.
  - rewrite app_length. cbn [length]. lia.
  - rewrite app_nth2 by lia. rewrite HL, Nat.sub_diag. reflexivity.
Qed.

Lemma strided_bound l k n stop q : 1 <= n -> q < length (strided l k n stop 0) ->
  k + q * n < stop /\ k + q * n < length l.
Proof.
  intros Hn Hq. rewrite strided_stop in Hq.
  destruct (Nat.le_gt_cases (length (firstn stop l)) (k + q * n)) as [H|H].
  - pose proof (strided_len_le k n stop Hn q (firstn stop l) H). lia.
  - rewrite firstn_length in H. lia.
Qed.

(* ---------- find_first_bad ---------- *)
Lemma ffb_none test xs : forall i, find_first_bad test xs i = None -> forall x, In x xs -> test x = true.
Proof.
  induction xs as [|y xs IH]; intros i H x Hx; [destruct Hx|].
  cbn [find_first_bad] in H. destruct (test y) eqn:E; [|discriminate].
  destruct Hx as [<-|Hx]; [exact E|]. apply (IH (S i)); assumption.
Qed.
Lemma ffb_some test xs d : forall i0 i, find_first_bad test xs i0 = Some i ->
  i0 <= i /\ i - i0 < length xs /\ test (nth (i - i0) xs d) = false.
Proof.
  induction xs as [|y xs IH]; intros i0 i H; [discriminate|].
  cbn [find_first_bad] in H. destruct (test y) eqn:E.
  - destruct (IH (S i0) i H) as (H1 & H2 & H3).
    replace (i - i0) with (S (i - S i0)) by lia. cbn [length nth]. repeat split; [lia|lia|exact H3].
  - injection H as <-. rewrite Nat.sub_diag. cbn [length nth]. repeat split; [lia|lia|exact E].
Qed.

(* ---------- line breaks, lines, and where a line starts ---------- *)
Lemma fnz_shift k : forall bs i, flatnonzero_from (i + k) bs = map (fun p => (p + k)%Z) (flatnonzero_from i bs).
Proof.
  induction bs as [|b bs IH]; intros i; [reflexivity|].
  cbn [flatnonzero_from]. rewrite map_app.
  replace (i + k + 1)%Z with (i + 1 + k)%Z by lia. rewrite IH.
  destruct b; reflexivity.
Qed.
Lemma nl_pos_app a b : nl_pos (a ++ b) = nl_pos a ++ map (fun p => (p + len a)%Z) (nl_pos b).
Proof.
  unfold nl_pos, positions, flatnonzero. rewrite map_app, flatnonzero_from_app.
  f_equal. unfold len. rewrite map_length. apply (fnz_shift (Z.of_nat (length a)) _ 0%Z).
Qed.
Lemma nl_pos_none a : ~ In 10%Z a -> nl_pos a = [].
Proof.
  intros H. destruct (nl_pos a) as [|p ps] eqn:E; [reflexivity|]. exfalso. apply H.
  assert (Hin : In p (nl_pos a)) by (rewrite E; left; reflexivity).
  apply In_positions in Hin. destruct Hin as [Hr Hv]. rewrite <- Hv. unfold nthZ.
  apply nth_In. unfold len in Hr. lia.
Qed.
Lemma nl_pos_nonneg t j : (0 <= nth j (nl_pos t) 0)%Z.
Proof.
  destruct (nth_in_or_default j (nl_pos t) 0%Z) as [H|H]; [|rewrite H; lia].
  apply In_positions in H. lia.
Qed.
Lemma count_nl_cons x a : count_nl (x :: a) = (if (x =? 10)%Z then 1 else 0) + count_nl a.
Proof.
  change (x :: a) with ([x] ++ a). rewrite count_nl_app. f_equal.
  unfold count_nl, nl_pos, positions, flatnonzero. cbn [map flatnonzero_from].
  rewrite (Z.eqb_sym 10 x). destruct (x =? 10)%Z; reflexivity.
Qed.

Lemma split_first_nl t : 1 <= count_nl t -> exists a t', t = a ++ 10%Z :: t' /\ ~ In 10%Z a.
Proof.
  induction t as [|x t IH]; intros H; [cbn in H; lia|].
  rewrite count_nl_cons in H. destruct (Z.eqb_spec x 10) as [->|Hne].
  - exists [], t. split; [reflexivity|intros []].
  - destruct (IH ltac:(lia)) as (a & t' & -> & Ha). exists (x :: a), t'. split; [reflexivity|].
    intros [Hx|Hx]; [congruence|contradiction].
Qed.

Lemma split_on_nosep sep a : ~ In sep a -> split_on sep a = [a].
Proof.
  induction a as [|x a IH]; intros H; [reflexivity|].
  cbn [split_on]. rewrite IH by (intros Hx; apply H; right; exact Hx).
  destruct (Z.eqb_spec x sep) as [->|Hne]; [exfalso; apply H; left; reflexivity|reflexivity].
Qed.

Lemma ends_nl_snoc a : ends_nl (a ++ [10%Z]) = true.
Proof. unfold ends_nl. rewrite last_app_nonempty by discriminate. reflexivity. Qed.

Lemma lines_first a t' : ~ In 10%Z a -> lines (a ++ 10%Z :: t') = a :: lines t'.
Proof.
  intros Ha. change (a ++ 10%Z :: t') with (a ++ [10%Z] ++ t'). rewrite app_assoc.
  rewrite lines_app by apply ends_nl_snoc. rewrite lines_terminated, split_on_nosep by exact Ha. reflexivity.
Qed.
Lemma nl_pos_first a t' : ~ In 10%Z a ->
  nl_pos (a ++ 10%Z :: t') = len a :: map (fun p => (p + 1 + len a)%Z) (nl_pos t').
Proof.
  intros Ha. rewrite nl_pos_app, (nl_pos_none a Ha). cbn [List.app].
  change (10%Z :: t') with ([10%Z] ++ t'). rewrite nl_pos_app.
  change (nl_pos [10%Z]) with [0%Z]. cbn [List.app map]. f_equal.
  rewrite map_map. apply map_ext. intros p. rewrite len_cons, len_nil. lia.
Qed.
Lemma count_nl_first a t' : ~ In 10%Z a -> count_nl (a ++ 10%Z :: t') = S (count_nl t').
Proof.
  intros Ha. unfold count_nl. rewrite nl_pos_first by exact Ha. cbn [length]. rewrite map_length. reflexivity.
Qed.

Definition line_start (t : list Z) (j : nat) : Z :=
  match j with O => 0%Z | S j' => (nth j' (nl_pos t) 0 + 1)%Z end.
Definition first_byte (l : list Z) : Z := match l with [] => 10%Z | x :: _ => x end.

Lemma line_start_nonneg t j : (0 <= line_start t j)%Z.
Proof. destruct j; cbn [line_start]; [lia|]. pose proof (nl_pos_nonneg t j). lia. Qed.

Lemma nthZ_app_r a b s : (0 <= s)%Z -> nthZ (a ++ b) (s + len a) = nthZ b s.
Proof.
  intros Hs. unfold nthZ, len. rewrite app_nth2 by lia. f_equal. lia.
Qed.

Lemma line_start_step a t' j : ~ In 10%Z a -> j < count_nl t' ->
  line_start (a ++ 10%Z :: t') (S j) = (line_start t' j + (len a + 1))%Z.
Proof.
  intros Ha Hj. cbn [line_start]. rewrite nl_pos_first by exact Ha.
  destruct j as [|j]; cbn [nth line_start]; [lia|].
  set (g := fun p => (p + 1 + len a)%Z).
  rewrite (nth_indep _ 0%Z (g 0%Z)) by (rewrite map_length; unfold count_nl in Hj; lia).
  rewrite (map_nth g). unfold g. lia.
Qed.

(* the byte at the start of line j is the first byte of that line — for an empty line, its line break *)
Lemma line_start_byte : forall j t, j < count_nl t ->
  nthZ t (line_start t j) = first_byte (nth j (lines t) []).
Proof.
  induction j as [|j IH]; intros t Hj.
  - destruct (split_first_nl t ltac:(lia)) as (a & t' & -> & Ha).
    rewrite lines_first by exact Ha. cbn [line_start nth]. destruct a; reflexivity.
  - destruct (split_first_nl t ltac:(lia)) as (a & t' & -> & Ha).
    rewrite count_nl_first in Hj by exact Ha.
    rewrite lines_first by exact Ha. cbn [nth].
    rewrite line_start_step by (try exact Ha; lia).
    change (a ++ 10%Z :: t') with (a ++ [10%Z] ++ t'). rewrite app_assoc.
    replace (len a + 1)%Z with (len (a ++ [10%Z])) by (rewrite len_app, len_cons, len_nil; lia).
    rewrite nthZ_app_r by apply line_start_nonneg. apply IH. lia.
Qed.

Lemma split_on_length a : length (split_on 10 a) = S (count_nl a).
Proof.
  induction a as [|x a IH]; [reflexivity|].
  cbn [split_on]. rewrite count_nl_cons. destruct (x =? 10)%Z.
  - cbn [length]. rewrite IH. reflexivity.
  - pose proof (split_on_nonempty 10 a) as Hn. destruct (split_on 10 a) as [|h t]; [congruence|].
    cbn [length] in *. lia.
Qed.
Lemma lines_length a : a = [] \/ ends_nl a = true -> length (lines a) = count_nl a.
Proof.
  intros [->|H]; [reflexivity|].
  rewrite (ends_nl_split a H). rewrite lines_terminated, split_on_length, count_nl_app.
  change (count_nl [10%Z]) with 1. lia.
Qed.
Lemma lines_app' a b : a = [] \/ ends_nl a = true -> lines (a ++ b) = lines a ++ lines b.
Proof. intros [->|H]; [reflexivity|apply lines_app; exact H]. Qed.

(* ---------- the validation part of the cut ---------- *)
Definition validate (n : nat) (hdr : Z) (plus : bool) (kept data : list Z) (size m : nat) : cutres :=
  match m_first_fail (m_plus_fail n plus kept data m) (m_header_fail n hdr kept data m) with
  | Some l => CutFormat l
  | None => CutOk size m
  end.

Lemma cut_unfold n hdr plus chunk :
  cut (OneLine n hdr plus) chunk =
  if count_nl chunk <? n then CutIncomplete
  else let m := count_nl chunk - count_nl chunk mod n in
       let kept := firstn m (nl_pos chunk) in
       let size := Z.to_nat (last kept 0 + 1)%Z in
       validate n hdr plus kept (firstn size chunk) size m.
Proof. reflexivity. Qed.

(* the validated buffer: the text up to and including the m-th line break *)
Lemma cut_data n chunk : 1 <= n -> n <= count_nl chunk ->
  let m := count_nl chunk - count_nl chunk mod n in
  let kept := firstn m (nl_pos chunk) in
  let size := Z.to_nat (last kept 0 + 1)%Z in
  let data := firstn size chunk in
  kept = nl_pos data /\ count_nl data = m /\ ends_nl data = true /\ m mod n = 0 /\ n <= m.
Proof.
  intros Hn Hc m kept size data.
  assert (Hmod : m mod n = 0) by (apply sub_mod_multiple; exact Hn).
  assert (Hge : n <= m).
  { pose proof (Nat.div_mod (count_nl chunk) n ltac:(lia)) as Hd.
    assert (0 < count_nl chunk / n) by (apply Nat.div_str_pos; lia).
    unfold m. nia. }
  assert (Hm : 1 <= m <= count_nl chunk).
  { pose proof (Nat.mod_upper_bound (count_nl chunk) n ltac:(lia)). unfold m in *. lia. }
  assert (Hlast : last kept 0%Z = nth (m - 1) (nl_pos chunk) 0%Z).
  { unfold kept. apply last_firstn_nth. unfold count_nl in Hm. exact Hm. }
  destruct (kth_newline chunk m Hm) as (_ & Hk & He). cbv zeta in Hk, He.
  rewrite <- Hlast in Hk, He. fold size in Hk, He. fold data in Hk, He.
  split; [|repeat split; assumption].
  assert (E : nl_pos chunk = nl_pos data ++ map (fun p => (p + len data)%Z) (nl_pos (skipn size chunk))).
  { rewrite <- nl_pos_app. unfold data. rewrite firstn_skipn. reflexivity. }
  unfold kept. rewrite E. rewrite firstn_app. unfold count_nl in Hk. rewrite Hk, Nat.sub_diag.
  cbn [firstn]. rewrite app_nil_r. rewrite <- Hk. apply firstn_all.
Qed.

Lemma first_byte_eq l v : v <> 10%Z -> first_byte l = v -> nthZ l 0 = v.
Proof. intros Hv H. destruct l; [cbn in H; congruence|exact H]. Qed.
Lemma first_byte_neq l v : v <> 0%Z -> first_byte l <> v -> nthZ l 0 <> v.
Proof. intros Hv H. destruct l; [cbn; congruence|exact H]. Qed.

(* the two components of line_bad *)
Definition hbad (n : nat) (hdr : Z) (i : nat) (l : list Z) : bool := (i mod n =? 0) && negb (nthZ l 0 =? hdr)%Z.
Definition pbad (n : nat) (plus : bool) (i : nat) (l : list Z) : bool :=
  plus && (i mod n =? 2) && negb (nthZ l 0 =? 43)%Z.
Lemma line_bad_split n hdr plus i l : line_bad n hdr plus i l = hbad n hdr i l || pbad n plus i l.
Proof. reflexivity. Qed.

Lemma ffb_before test xs d : forall i0 i, find_first_bad test xs i0 = Some i ->
  forall q, q < i - i0 -> test (nth q xs d) = true.
Proof.
  induction xs as [|y xs IH]; intros i0 i H q Hq; [discriminate|].
  cbn [find_first_bad] in H. destruct (test y) eqn:E.
  - destruct q as [|q]; [exact E|]. cbn [nth]. apply (IH (S i0) i H).
    destruct (ffb_some test xs d (S i0) i H) as (Hle & _). lia.
  - injection H as <-. lia.
Qed.
Lemma ffb_none_nth test xs d i0 : find_first_bad test xs i0 = None -> forall q, q < length xs -> test (nth q xs d) = true.
Proof. intros H q Hq. apply (ffb_none test xs i0 H). apply nth_In. exact Hq. Qed.

Section Validate.
Variables (n : nat) (hdr : Z) (plus : bool).
Hypothesis Hn : 1 <= n.
Hypothesis Hp : plus = true -> 3 <= n.
Variable data : list Z.
Hypothesis Hmod : count_nl data mod n = 0.
Hypothesis Hge : n <= count_nl data.

Local Notation hidx := (map (fun p => (p + 1)%Z) (strided (nl_pos data) (n - 1) n (count_nl data - 1) 0)).
Local Notation pidx := (map (fun p => (p + 1)%Z) (strided (nl_pos data) 1 n (count_nl data) 0)).

(* the q-th index checked for the marker is the first byte of line (q+1)*n *)
Lemma hidx_nth q : n - 1 + q * n < count_nl data - 1 ->
  q < length hidx /\ (q + 1) * n < count_nl data
  /\ nthZ data (nth q hidx (0 + 1)%Z) = first_byte (nth ((q + 1) * n) (lines data) []).
Proof.
  intros Hb.
  assert (Hb2 : n - 1 + q * n < length (nl_pos data)) by (unfold count_nl in Hb; lia).
  destruct (strided_nth (nl_pos data) (n - 1) n (count_nl data - 1) q 0%Z Hn Hb Hb2) as [Hq1 Hq2].
  assert (Hj : (q + 1) * n < count_nl data) by nia.
  split; [rewrite map_length; exact Hq1|]. split; [exact Hj|].
  rewrite (map_nth (fun p => (p + 1)%Z)). rewrite Hq2.
  pose proof (line_start_byte _ data Hj) as HB.
  replace ((q + 1) * n) with (S (n - 1 + q * n)) in HB at 1 by nia.
  cbn [line_start] in HB. exact HB.
Qed.
Lemma hidx_bound q : q < length hidx -> n - 1 + q * n < count_nl data - 1.
Proof. intros Hq. rewrite map_length in Hq. exact (proj1 (strided_bound _ _ _ _ _ Hn Hq)). Qed.

(* the q-th index checked for '+' is the first byte of line 2 + q*n *)
Lemma pidx_nth q : 3 <= n -> 1 + q * n < count_nl data ->
  q < length pidx /\ 2 + q * n < count_nl data
  /\ nthZ data (nth q pidx (0 + 1)%Z) = first_byte (nth (2 + q * n) (lines data) []).
Proof.
  clear Hp. intros Hn3 Hb.
  assert (Hb2 : 1 + q * n < length (nl_pos data)) by (unfold count_nl in Hb; lia).
  destruct (strided_nth (nl_pos data) 1 n (count_nl data) q 0%Z Hn Hb Hb2) as [Hq1 Hq2].
  assert (Hj : 2 + q * n < count_nl data).
  { pose proof Hmod as Hmod'. apply Nat.mod_divides in Hmod'; [|lia]. destruct Hmod' as [c Hc].
    assert (Hic : q < c) by nia.
    assert (Hle : n * (q + 1) <= n * c) by (apply Nat.mul_le_mono_l; lia). nia. }
  split; [rewrite map_length; exact Hq1|]. split; [exact Hj|].
  rewrite (map_nth (fun p => (p + 1)%Z)). rewrite Hq2.
  pose proof (line_start_byte _ data Hj) as HB.
  replace (2 + q * n) with (S (1 + q * n)) in HB at 1 by lia.
  cbn [line_start] in HB. exact HB.
Qed.
Lemma pidx_bound q : q < length pidx -> 1 + q * n < count_nl data.
Proof. intros Hq. rewrite map_length in Hq. exact (proj1 (strided_bound _ _ _ _ _ Hn Hq)). Qed.

(* a marker line whose byte passed the test does not offend *)
Lemma hline_ok j : hdr <> 10%Z -> (nthZ data 0 =? hdr)%Z = true -> j < count_nl data ->
  (forall q, j = (q + 1) * n -> (nthZ data (nth q hidx (0 + 1)%Z) =? hdr)%Z = true) ->
  hbad n hdr j (nth j (lines data) []) = false.
Proof.
  intros Hh E0 Hj Ht. unfold hbad.
  destruct (j mod n =? 0) eqn:Ej; [|reflexivity]. cbn [andb]. apply Nat.eqb_eq in Ej.
  apply negb_false_iff. apply Z.eqb_eq. apply first_byte_eq; [exact Hh|].
  apply Nat.mod_divides in Ej; [|lia]. destruct Ej as [c Hc].
  destruct c as [|q].
  - assert (Hj0 : j = 0) by lia. clear Hc. subst j. rewrite <- (line_start_byte 0 data Hj). cbn [line_start].
    apply Z.eqb_eq. exact E0.
  - assert (Hjq : j = (q + 1) * n) by nia.
    assert (Hb : n - 1 + q * n < count_nl data - 1) by nia.
    destruct (hidx_nth q Hb) as (_ & _ & HB). rewrite Hjq. rewrite <- HB.
    apply Z.eqb_eq. apply Ht. exact Hjq.
Qed.
Lemma pline_ok j : j < count_nl data ->
  (forall q, j = 2 + q * n -> (nthZ data (nth q pidx (0 + 1)%Z) =? 43)%Z = true) ->
  pbad n plus j (nth j (lines data) []) = false.
Proof.
  intros Hj Ht. unfold pbad.
  destruct (Bool.bool_dec plus true) as [Epl|Epl]; [|apply not_true_is_false in Epl; rewrite Epl; reflexivity].
  pose proof (Hp Epl) as Hn3. rewrite Epl. cbn [andb].
  destruct (j mod n =? 2) eqn:Ej; [|reflexivity]. cbn [andb]. apply Nat.eqb_eq in Ej.
  apply negb_false_iff. apply Z.eqb_eq. apply first_byte_eq; [lia|].
  pose proof (Nat.div_mod j n ltac:(lia)) as Hd. rewrite Ej in Hd. set (q := j / n) in *.
  assert (Hjq : j = 2 + q * n) by nia.
  assert (Hb : 1 + q * n < count_nl data) by nia.
  destruct (pidx_nth q Hn3 Hb) as (_ & _ & HB). rewrite Hjq. rewrite <- HB.
  apply Z.eqb_eq. apply Ht. exact Hjq.
Qed.

(* the marker check *)
Lemma hfail_none : hdr <> 10%Z -> m_header_fail n hdr (nl_pos data) data (count_nl data) = None ->
  forall j, j < count_nl data -> hbad n hdr j (nth j (lines data) []) = false.
Proof.
  intros Hh H j Hj. unfold m_header_fail in H.
  destruct (nthZ data 0 =? hdr)%Z eqn:E0; cbn [negb] in H; [|discriminate]. cbv zeta in H.
  destruct (find_first_bad (fun p => (nthZ data p =? hdr)%Z) hidx 0) eqn:E1; [discriminate|].
  apply (hline_ok j Hh E0 Hj). intros q Hq.
  apply (ffb_none_nth _ _ (0 + 1)%Z 0 E1).
  assert (Hb : n - 1 + q * n < count_nl data - 1) by nia.
  exact (proj1 (hidx_nth q Hb)).
Qed.
Lemma hfail_some h : m_header_fail n hdr (nl_pos data) data (count_nl data) = Some h ->
  h < count_nl data
  /\ (hdr <> 0%Z -> hbad n hdr h (nth h (lines data) []) = true)
  /\ (hdr <> 10%Z -> forall j, j < h -> hbad n hdr j (nth j (lines data) []) = false).
Proof.
  intros H. unfold m_header_fail in H.
  destruct (nthZ data 0 =? hdr)%Z eqn:E0; cbn [negb] in H.
  - cbv zeta in H.
    destruct (find_first_bad (fun p => (nthZ data p =? hdr)%Z) hidx 0) as [i|] eqn:E1; [|discriminate].
    injection H as <-. unfold m_header_line.
    destruct (ffb_some _ _ (0 + 1)%Z 0 i E1) as (_ & Hi & Ht). rewrite Nat.sub_0_r in Hi, Ht.
    pose proof (hidx_bound i Hi) as Hb.
    destruct (hidx_nth i Hb) as (_ & Hj & HB).
    split; [exact Hj|]. split.
    + intros Hh. unfold hbad. rewrite Nat.mod_mul by lia. cbn [Nat.eqb andb].
      apply negb_true_iff. apply Z.eqb_neq. apply first_byte_neq; [exact Hh|].
      rewrite <- HB. apply Z.eqb_neq. exact Ht.
    + intros Hh j Hlt. apply (hline_ok j Hh E0 ltac:(lia)). intros q Hq.
      apply (ffb_before _ _ (0 + 1)%Z 0 i E1). rewrite Nat.sub_0_r. nia.
  - injection H as <-. assert (Hj : 0 < count_nl data) by lia. split; [exact Hj|]. split.
    + intros Hh. pose proof (line_start_byte 0 data Hj) as HB. cbn [line_start] in HB.
      unfold hbad. rewrite Nat.mod_0_l by lia. cbn [Nat.eqb andb]. apply negb_true_iff. apply Z.eqb_neq.
      apply first_byte_neq; [exact Hh|]. rewrite <- HB. apply Z.eqb_neq. exact E0.
    + intros _ j Hlt. lia.
Qed.

(* the '+' check *)
Lemma pfail_none : m_plus_fail n plus (nl_pos data) data (count_nl data) = None ->
  forall j, j < count_nl data -> pbad n plus j (nth j (lines data) []) = false.
Proof.
  intros H j Hj. unfold m_plus_fail in H.
  destruct (Bool.bool_dec plus true) as [Epl|Epl];
    [|apply not_true_is_false in Epl; unfold pbad; rewrite Epl; reflexivity].
  pose proof (Hp Epl) as Hn3. rewrite Epl in H. cbv zeta in H.
  destruct (find_first_bad (fun p => (nthZ data p =? 43)%Z) pidx 0) eqn:E2; [discriminate|].
  apply (pline_ok j Hj). intros q Hq.
  apply (ffb_none_nth _ _ (0 + 1)%Z 0 E2).
  assert (Hb : 1 + q * n < count_nl data) by nia.
  exact (proj1 (pidx_nth q Hn3 Hb)).
Qed.
Lemma pfail_some p : m_plus_fail n plus (nl_pos data) data (count_nl data) = Some p ->
  p < count_nl data
  /\ pbad n plus p (nth p (lines data) []) = true
  /\ (forall j, j < p -> pbad n plus j (nth j (lines data) []) = false).
Proof.
  intros H. unfold m_plus_fail in H.
  destruct (Bool.bool_dec plus true) as [Epl|Epl]; [|apply not_true_is_false in Epl; rewrite Epl in H; discriminate].
  pose proof (Hp Epl) as Hn3. rewrite Epl in H. cbv zeta in H.
  destruct (find_first_bad (fun p => (nthZ data p =? 43)%Z) pidx 0) as [i|] eqn:E2; [|discriminate].
  injection H as <-. unfold m_plus_line.
  destruct (ffb_some _ _ (0 + 1)%Z 0 i E2) as (_ & Hi & Ht). rewrite Nat.sub_0_r in Hi, Ht.
  pose proof (pidx_bound i Hi) as Hb.
  destruct (pidx_nth i Hn3 Hb) as (_ & Hj & HB).
  split; [exact Hj|]. split.
  - assert (Hjm : forall x, x = 2 + i * n -> x mod n = 2).
    { intros x ->. rewrite Nat.mod_add by lia. apply Nat.mod_small. lia. }
    unfold pbad. rewrite (Hjm (2 + i * n) eq_refl). rewrite Epl. cbn [Nat.eqb andb].
    apply negb_true_iff. apply Z.eqb_neq. apply first_byte_neq; [lia|].
    rewrite <- HB. apply Z.eqb_neq. exact Ht.
  - intros j Hlt. apply (pline_ok j ltac:(lia)). intros q Hq.
    apply (ffb_before _ _ (0 + 1)%Z 0 i E2). rewrite Nat.sub_0_r. nia.
Qed.

Lemma validate_ok size size' m' : hdr <> 10%Z ->
  validate n hdr plus (nl_pos data) data size (count_nl data) = CutOk size' m' ->
  forall j, j < count_nl data -> line_bad n hdr plus j (nth j (lines data) []) = false.
Proof.
  intros Hh H j Hj. unfold validate in H.
  destruct (m_plus_fail n plus (nl_pos data) data (count_nl data)) as [p|] eqn:EP;
    destruct (m_header_fail n hdr (nl_pos data) data (count_nl data)) as [h|] eqn:EH;
    cbn [m_first_fail] in H; try discriminate.
  - destruct (m_plus_wins p h); discriminate.
  - rewrite line_bad_split. rewrite (hfail_none Hh EH j Hj), (pfail_none EP j Hj). reflexivity.
Qed.

(* a rejected buffer: the reported line offends, and no earlier line of the buffer does *)
Lemma validate_first size j :
  validate n hdr plus (nl_pos data) data size (count_nl data) = CutFormat j ->
  j < count_nl data
  /\ (hdr <> 0%Z -> line_bad n hdr plus j (nth j (lines data) []) = true)
  /\ (hdr <> 10%Z -> forall i, i < j -> line_bad n hdr plus i (nth i (lines data) []) = false).
Proof.
  intros H. unfold validate in H.
  destruct (m_plus_fail n plus (nl_pos data) data (count_nl data)) as [p|] eqn:EP;
    destruct (m_header_fail n hdr (nl_pos data) data (count_nl data)) as [h|] eqn:EH;
    cbn [m_first_fail] in H; try discriminate.
  - destruct (pfail_some p EP) as (Hp1 & Hp2 & Hp3). destruct (hfail_some h EH) as (Hh1 & Hh2 & Hh3).
    unfold m_plus_wins in H. destruct (Nat.ltb_spec p h) as [Hlt|Hle]; injection H as <-.
    + split; [exact Hp1|]. split.
      * intros _. rewrite line_bad_split, Hp2. apply orb_true_r.
      * intros Hh i Hi. rewrite line_bad_split, (Hh3 Hh i ltac:(lia)), (Hp3 i Hi). reflexivity.
    + split; [exact Hh1|]. split.
      * intros Hh. rewrite line_bad_split, (Hh2 Hh). reflexivity.
      * intros Hh i Hi. rewrite line_bad_split, (Hh3 Hh i Hi), (Hp3 i ltac:(lia)). reflexivity.
  - injection H as <-. destruct (pfail_some p EP) as (Hp1 & Hp2 & Hp3).
    split; [exact Hp1|]. split.
    + intros _. rewrite line_bad_split, Hp2. apply orb_true_r.
    + intros Hh i Hi. rewrite line_bad_split, (hfail_none Hh EH i ltac:(lia)), (Hp3 i Hi). reflexivity.
  - injection H as <-. destruct (hfail_some h EH) as (Hh1 & Hh2 & Hh3).
    split; [exact Hh1|]. split.
    + intros Hh. rewrite line_bad_split, (Hh2 Hh). reflexivity.
    + intros Hh i Hi. rewrite line_bad_split, (Hh3 Hh i Hi), (pfail_none EP i ltac:(lia)). reflexivity.
Qed.

Lemma validate_bad size j : hdr <> 0%Z ->
  validate n hdr plus (nl_pos data) data size (count_nl data) = CutFormat j ->
  j < count_nl data /\ line_bad n hdr plus j (nth j (lines data) []) = true.
Proof.
  intros Hh H. destruct (validate_first size j H) as (H1 & H2 & _). split; [exact H1|exact (H2 Hh)].
Qed.
End Validate.

(* ---------- what the cut says about the lines of the buffer ---------- *)
Section Cut.
Variables (n : nat) (hdr : Z) (plus : bool).
Hypothesis Hn : 1 <= n.
Hypothesis Hp : plus = true -> 3 <= n.
Let f := OneLine n hdr plus.

(* an accepted buffer has no offending line *)
Lemma cut_ok_clean chunk size nl : hdr <> 10%Z -> cut f chunk = CutOk size nl ->
  forall j, j < length (lines (firstn size chunk)) ->
    line_bad n hdr plus j (nth j (lines (firstn size chunk)) []) = false.
Proof.
  intros Hh H.
  destruct (cut_oneline_shape n hdr plus chunk size nl Hn H) as (Hc & _ & _).
  unfold f in H. rewrite cut_unfold in H. cbv zeta in Hc.
  replace (count_nl chunk <? n) with false in H by (symmetry; apply Nat.ltb_ge; exact Hc).
  destruct (cut_data n chunk Hn Hc) as (Hk & Hcnt & He & Hmod & Hge). cbv zeta in *.
  set (m := count_nl chunk - count_nl chunk mod n) in *.
  set (sz := Z.to_nat (last (firstn m (nl_pos chunk)) 0%Z + 1)) in *.
  assert (Hsz : size = sz).
  { unfold validate in H.
    repeat match type of H with
           | (if ?c then _ else _) = _ => destruct c
           | match ?c with _ => _ end = _ => destruct c
           end; try discriminate; injection H as <- _; reflexivity. }
  subst size. rewrite Hk, <- Hcnt in H. rewrite <- Hcnt in Hmod, Hge.
  intros j Hj. rewrite lines_length in Hj by (right; exact He).
  exact (validate_ok n hdr plus Hn Hp (firstn sz chunk) Hmod Hge sz sz nl Hh H j Hj).
Qed.

(* a rejected buffer: the reported line of the validated prefix offends *)
Lemma cut_format_bad chunk j : hdr <> 0%Z -> cut f chunk = CutFormat j ->
  exists size, ends_nl (firstn size chunk) = true /\ j < count_nl (firstn size chunk)
               /\ line_bad n hdr plus j (nth j (lines (firstn size chunk)) []) = true.
Proof.
  intros Hh H. unfold f in H. rewrite cut_unfold in H.
  destruct (count_nl chunk <? n) eqn:Ec; [discriminate|]. apply Nat.ltb_ge in Ec.
  destruct (cut_data n chunk Hn Ec) as (Hk & Hcnt & He & Hmod & Hge). cbv zeta in *.
  set (m := count_nl chunk - count_nl chunk mod n) in *.
  set (sz := Z.to_nat (last (firstn m (nl_pos chunk)) 0%Z + 1)) in *.
  rewrite Hk, <- Hcnt in H. rewrite <- Hcnt in Hmod, Hge.
  exists sz. split; [exact He|].
  exact (validate_bad n hdr plus Hn Hp (firstn sz chunk) Hmod Hge sz j Hh H).
Qed.
End Cut.

(* ---------- the specification scan ---------- *)
Section Scan.
Variables (n : nat) (hdr : Z) (plus : bool).
Hypothesis Hn : 1 <= n.

Lemma line_bad_shift i0 j l : i0 mod n = 0 -> line_bad n hdr plus (i0 + j) l = line_bad n hdr plus j l.
Proof.
  intros H. unfold line_bad.
  apply Nat.mod_divides in H; [|lia]. destruct H as [c ->].
  replace (n * c + j) with (j + c * n) by lia. rewrite Nat.mod_add by lia. reflexivity.
Qed.

Lemma fbl_none ls : forall i0, first_bad_line n hdr plus i0 ls = None <->
  (forall j, j < length ls -> line_bad n hdr plus (i0 + j) (nth j ls []) = false).
Proof.
  induction ls as [|l ls IH]; intros i0; cbn [first_bad_line length].
  - split; [intros _ j Hj; lia|reflexivity].
  - destruct (line_bad n hdr plus i0 l) eqn:E.
    + split; [discriminate|]. intros H. specialize (H 0 ltac:(lia)). rewrite Nat.add_0_r in H. cbn [nth] in H. congruence.
    + rewrite IH. split; intros H j Hj.
      * destruct j as [|j]; [rewrite Nat.add_0_r; exact E|].
        cbn [nth]. replace (i0 + S j) with (S i0 + j) by lia. apply H. lia.
      * replace (S i0 + j) with (i0 + S j) by lia. apply (H (S j)). lia.
Qed.
Lemma fbl_some ls : forall i0 l, first_bad_line n hdr plus i0 ls = Some l ->
  i0 <= l /\ l - i0 < length ls /\ line_bad n hdr plus l (nth (l - i0) ls []) = true.
Proof.
  induction ls as [|x ls IH]; intros i0 l H; [discriminate|].
  cbn [first_bad_line] in H. destruct (line_bad n hdr plus i0 x) eqn:E.
  - injection H as <-. rewrite Nat.sub_diag. cbn [length nth]. repeat split; [lia|lia|exact E].
  - destruct (IH (S i0) l H) as (H1 & H2 & H3).
    replace (l - i0) with (S (l - S i0)) by lia. cbn [length nth]. repeat split; [lia|lia|exact H3].
Qed.

Lemma whole_concat (D : list (list Z)) : Forall (whole n) D -> count_nl (concat D) mod n = 0.
Proof.
  intros HD. induction HD as [|c D Hc _ IH]; [cbn; apply Nat.mod_0_l; lia|].
  cbn [concat]. rewrite count_nl_app. rewrite Nat.add_mod by lia. unfold whole in Hc. rewrite Hc, IH.
  cbn [Nat.add]. apply Nat.mod_0_l. lia.
Qed.

Definition clean (c : list Z) : Prop :=
  forall j, j < length (lines c) -> line_bad n hdr plus j (nth j (lines c) []) = false.

Lemma clean_concat (D : list (list Z)) :
  Forall (fun c => whole n c /\ clean c) D -> Forall (fun c => ends_nl c = true) D -> clean (concat D).
Proof.
  intros HG HE. induction D as [|c D IH].
  - intros j Hj. cbn in Hj. lia.
  - inversion HG as [|? ? [Hw Hc] HG']; subst. inversion HE as [|? ? He HE']; subst.
    specialize (IH HG' HE'). cbn [concat]. intros j Hj.
    rewrite lines_app in * by exact He. rewrite app_length in Hj.
    destruct (Nat.lt_ge_cases j (length (lines c))) as [Hlt|Hge].
    + rewrite app_nth1 by exact Hlt. apply Hc. exact Hlt.
    + rewrite app_nth2 by exact Hge.
      replace j with (length (lines c) + (j - length (lines c))) at 1 by lia.
      rewrite line_bad_shift by (rewrite lines_length by (right; exact He); exact Hw).
      apply IH. lia.
Qed.
End Scan.

(* ---------- the specification on a text made of whole records and a short tail ---------- *)
Lemma norm_text_ends file : norm_text file = [] \/ ends_nl (norm_text file) = true.
Proof.
  unfold norm_text. destruct file as [|x file]; [left; reflexivity|right].
  destruct (ends_nl (x :: file)) eqn:E; [exact E|apply ends_nl_snoc].
Qed.
Lemma app_tail_ends (body tail : list Z) :
  (body ++ tail = [] \/ ends_nl (body ++ tail) = true) -> tail = [] \/ ends_nl tail = true.
Proof.
  intros H. destruct tail as [|x t]; [left; reflexivity|right].
  destruct H as [H|H]; [destruct body; discriminate H|].
  unfold ends_nl in *. rewrite last_app_nonempty in H by discriminate. exact H.
Qed.

(* the bytes of the lines are the bytes of the text without its line breaks *)
Lemma forallb_concat_split P a : P 10%Z = true -> forallb P (concat (split_on 10 a)) = forallb P a.
Proof.
  intros HP. induction a as [|x a IH]; [reflexivity|].
  cbn [split_on]. destruct (Z.eqb_spec x 10) as [->|Hne].
  - cbn [concat List.app forallb]. rewrite HP, IH. reflexivity.
  - pose proof (split_on_nonempty 10 a) as Hn. destruct (split_on 10 a) as [|h t]; [congruence|].
    cbn [concat List.app forallb] in *. rewrite IH. reflexivity.
Qed.
Lemma forallb_concat_lines P t : P 10%Z = true -> (t = [] \/ ends_nl t = true) ->
  forallb P (concat (lines t)) = forallb P t.
Proof.
  intros HP [->|He]; [reflexivity|].
  pose proof (ends_nl_split t He) as Hs. set (a := removelast t) in *. rewrite Hs.
  rewrite lines_terminated, forallb_app, (forallb_concat_split P a HP).
  cbn [forallb]. rewrite HP. cbn [andb]. rewrite andb_true_r. reflexivity.
Qed.
Lemma ignorable_nl f : ignorable f 10%Z = true.
Proof. reflexivity. Qed.

(* an incomplete final record at line l: l is the first line after the last complete record, and the lines from
   there on are not all white space *)
Definition incomplete_at (n : nat) (hdr : Z) (plus : bool) (text : list Z) (l : nat) : Prop :=
  l = length (lines text) / n * n
  /\ leftover_ok (OneLine n hdr plus) (concat (skipn l (lines text))) = false.

Section SpecSplit.
Variables (n : nat) (hdr : Z) (plus : bool).
Hypothesis Hn : 1 <= n.
Let f := OneLine n hdr plus.

Lemma fbl_app a : forall i b,
  first_bad_line n hdr plus i (a ++ b) =
  match first_bad_line n hdr plus i a with Some j => Some j | None => first_bad_line n hdr plus (i + length a) b end.
Proof.
  induction a as [|x a IH]; intros i b; cbn [List.app first_bad_line length].
  - rewrite Nat.add_0_r. reflexivity.
  - destruct (line_bad n hdr plus i x); [reflexivity|]. rewrite IH.
    replace (S i + length a) with (i + S (length a)) by lia. reflexivity.
Qed.

Lemma div_mul_whole c r : r < n -> (n * c + r) / n * n = n * c.
Proof. intros Hr. rewrite (Nat.mul_comm n c), Nat.div_add_l by lia. rewrite (Nat.div_small r n Hr). lia. Qed.

(* the lines of whole records followed by a tail of fewer than n lines *)
Lemma lines_split body tail :
  (body = [] \/ ends_nl body = true) -> count_nl body mod n = 0 ->
  (tail = [] \/ ends_nl tail = true) -> count_nl tail < n ->
  length (lines (body ++ tail)) / n * n = count_nl body
  /\ firstn (count_nl body) (lines (body ++ tail)) = lines body
  /\ skipn (count_nl body) (lines (body ++ tail)) = lines tail.
Proof.
  intros Hb Hm Ht Hlt. rewrite (lines_app' body tail Hb).
  assert (HlB : length (lines body) = count_nl body) by (apply lines_length; exact Hb).
  assert (HlT : length (lines tail) = count_nl tail) by (apply lines_length; exact Ht).
  split; [|split].
  - rewrite app_length, HlB, HlT. apply Nat.mod_divides in Hm; [|lia]. destruct Hm as [c Hc].
    rewrite Hc. apply div_mul_whole. exact Hlt.
  - rewrite <- HlB. rewrite firstn_app, Nat.sub_diag, firstn_all. cbn [firstn]. apply app_nil_r.
  - rewrite <- HlB. rewrite skipn_app, Nat.sub_diag, skipn_all. reflexivity.
Qed.

Lemma spec_split body tail :
  (body = [] \/ ends_nl body = true) -> count_nl body mod n = 0 ->
  (tail = [] \/ ends_nl tail = true) -> count_nl tail < n ->
  spec_oneline f (body ++ tail) =
  match first_bad_line n hdr plus 0 (lines body) with
  | Some l => Some l
  | None => if leftover_ok f tail then None else Some (count_nl body)
  end.
Proof.
  intros Hb Hm Ht Hlt. destruct (lines_split body tail Hb Hm Ht Hlt) as (Hw & Hf & Hs).
  unfold f. cbn [spec_oneline]. cbv zeta. rewrite Hw, Hf, Hs.
  unfold leftover_ok. rewrite (forallb_concat_lines _ tail (ignorable_nl _) Ht). reflexivity.
Qed.

Lemma split_incomplete body tail :
  (body = [] \/ ends_nl body = true) -> count_nl body mod n = 0 ->
  (tail = [] \/ ends_nl tail = true) -> count_nl tail < n ->
  leftover_ok f tail = false -> incomplete_at n hdr plus (body ++ tail) (count_nl body).
Proof.
  intros Hb Hm Ht Hlt Hl. destruct (lines_split body tail Hb Hm Ht Hlt) as (Hw & _ & Hs).
  split; [symmetry; exact Hw|]. rewrite Hs.
  unfold leftover_ok in *. rewrite (forallb_concat_lines _ tail (ignorable_nl _) Ht). exact Hl.
Qed.

(* a text of whole records: the specification is the scan of all its lines, and no record is incomplete *)
Lemma whole_lines text : (text = [] \/ ends_nl text = true) -> whole n text ->
  length (lines text) / n * n = length (lines text).
Proof.
  intros Ht Hw. rewrite (lines_length text Ht). unfold whole in Hw.
  apply Nat.mod_divides in Hw; [|lia]. destruct Hw as [c Hc]. rewrite Hc.
  rewrite (Nat.mul_comm n c), Nat.div_mul by lia. reflexivity.
Qed.
Lemma spec_whole text : (text = [] \/ ends_nl text = true) -> whole n text ->
  spec_oneline f text = first_bad_line n hdr plus 0 (lines text).
Proof.
  intros Ht Hw. unfold f. cbn [spec_oneline]. cbv zeta. rewrite (whole_lines text Ht Hw).
  rewrite firstn_all, skipn_all. cbn [concat leftover_ok forallb].
  destruct (first_bad_line n hdr plus 0 (lines text)); reflexivity.
Qed.
Lemma whole_not_incomplete text l : (text = [] \/ ends_nl text = true) -> whole n text ->
  ~ incomplete_at n hdr plus text l.
Proof.
  intros Ht Hw [Hl Hc]. rewrite (whole_lines text Ht Hw) in Hl. subst l.
  rewrite skipn_all in Hc. discriminate Hc.
Qed.

(* a violation in a prefix of whole records is what the specification reports *)
Lemma spec_prefix text A B l : lines text = A ++ B -> length A mod n = 0 ->
  first_bad_line n hdr plus 0 A = Some l -> spec_oneline f text = Some l.
Proof.
  intros HAB Hm HA. unfold f. cbn [spec_oneline]. cbv zeta. rewrite HAB.
  apply Nat.mod_divides in Hm; [|lia]. destruct Hm as [c Hc].
  assert (Hle : length A <= length (A ++ B) / n * n).
  { rewrite app_length, Hc.
    assert (c <= (n * c + length B) / n) by (apply Nat.div_le_lower_bound; lia). nia. }
  rewrite firstn_app. rewrite (firstn_all2 A Hle). rewrite fbl_app, HA. reflexivity.
Qed.
End SpecSplit.

(* ---------- a completed read means no line of the text offends and no record is cut short ---------- *)
Theorem oneline_never_a_table_strong : forall n hdr plus m k file chunks dropped app lines,
  (1 <= n) -> (plus = true -> 3 <= n) -> hdr <> 10%Z -> (1 <= k) ->
  read_chunks true (OneLine n hdr plus) m k file = Done chunks dropped app lines ->
  spec_oneline (OneLine n hdr plus) (norm_text file) = None.
Proof.
  intros n hdr plus m k file chunks dropped app lns Hn Hp Hh Hk Hrun.
  pose (G := fun c => whole n c /\ clean n hdr plus c).
  assert (HcutG : forall chunk size nl, cut (OneLine n hdr plus) chunk = CutOk size nl ->
            G (firstn size chunk) /\ ends_nl (firstn size chunk) = true).
  { intros chunk size nl H. destruct (ol_cutG n hdr plus Hn chunk size nl H) as [H1 H2].
    split; [split; [exact H1|]|exact H2].
    exact (cut_ok_clean n hdr plus Hn Hp chunk size nl Hh H). }
  assert (HT0 : (fun t => count_nl t < n) []) by (cbv beta; change (count_nl []) with 0; lia).
  destruct (lines_chunks_tail (OneLine n hdr plus) G (fun t => count_nl t < n) eq_refl HcutG
              (ol_cutT n hdr plus Hn) (ol_compT n hdr plus) HT0 m k file chunks dropped app lns Hk Hrun)
    as (Hc & Hl & Ht & HG & HE).
  assert (HWc : Forall (whole n) chunks).
  { revert HG. apply Forall_impl. intros c Hc'. exact (proj1 Hc'). }
  rewrite <- Hc. rewrite (spec_split n hdr plus Hn (concat chunks) dropped).
  - rewrite (proj2 (fbl_none n hdr plus Hn (lines (concat chunks)) 0)).
    + rewrite Hl. reflexivity.
    + intros j Hj. exact (clean_concat n hdr plus Hn chunks HG HE j Hj).
  - destruct (concat_ends chunks HE) as [->|H]; [left; reflexivity|right; exact H].
  - apply whole_concat; assumption.
  - apply (app_tail_ends (concat chunks)). rewrite Hc. apply norm_text_ends.
  - exact Ht.
Qed.

(* the statement before the end-of-file check existed: for a text of whole records *)
Corollary oneline_never_a_table : forall n hdr plus m k file chunks dropped app lines,
  (1 <= n) -> (plus = true -> 3 <= n) -> hdr <> 10%Z -> (1 <= k) -> whole n (norm_text file) ->
  read_chunks true (OneLine n hdr plus) m k file = Done chunks dropped app lines ->
  spec_oneline (OneLine n hdr plus) (norm_text file) = None.
Proof.
  intros n hdr plus m k file chunks dropped app lns Hn Hp Hh Hk _ Hrun.
  exact (oneline_never_a_table_strong n hdr plus m k file chunks dropped app lns Hn Hp Hh Hk Hrun).
Qed.

(* ---------- where a format error comes from ---------- *)
Lemma complete_format n hdr plus temp j : complete (OneLine n hdr plus) temp = CFormat j ->
  exists c, temp = [c] /\ cut (OneLine n hdr plus) c = CutFormat j.
Proof.
  intros H. destruct temp as [|c [|c2 t]].
  - unfold complete in H. destruct (n <=? _); discriminate.
  - exists c. split; [reflexivity|]. unfold complete in H.
    destruct (cut (OneLine n hdr plus) c); try discriminate. injection H as <-. reflexivity.
  - unfold complete in H. destruct (n <=? _); discriminate.
Qed.

Section Reader.
Variables (n : nat) (hdr : Z) (plus : bool).
Hypothesis Hn : 1 <= n.
Let f := OneLine n hdr plus.

(* a format error raised while accumulating: the rejected buffer is a prefix of the remaining text,
   terminated if the end of the file was reached *)
Lemma accumulate_fmt k file l0 R : 1 <= k ->
  forall fuel pos temp re app base l,
    concat temp = base ++ app -> Forall (fun c => c <> []) temp ->
    base ++ skipn pos file = R ->
    (app = [] \/ (base <> [] /\ app = terminator f base /\ skipn pos file = [])) ->
    accumulate true fuel f k file l0 pos temp re app = AFormat l ->
    exists c j tail, l = j + l0 /\ cut f c = CutFormat j /\ c ++ tail = R ++ terminator f R /\ R <> [].
Proof.
  intros Hk. induction fuel as [|fuel IH]; intros pos temp re app base l Hc Hne HR HJ Hrun; [discriminate|].
  cbn [accumulate] in Hrun. unfold m_is_finished, m_reported, m_lines_after, m_oneline_incomplete, m_oneline_kept, m_size_after, m_header_line, m_plus_line in *.
  destruct (firstn k (skipn pos file)) as [|x r] eqn:Eraw.
  - assert (HX : skipn pos file = []) by (apply (firstn_nil_inv k); assumption).
    rewrite HX, app_nil_r in HR. subst R.
    cbn [length negb orb] in Hrun. rewrite Nat.add_0_r in Hrun.
    destruct re; cbn [orb] in Hrun; [discriminate|].
    destruct temp as [|c0 t] eqn:Et; [discriminate|]. rewrite <- Et in *.
    assert (Hpn : concat temp <> []) by (apply concat_nonempty; [rewrite Et; discriminate|assumption]).
    assert (Hkey : base <> [] /\ add_term f (concat temp) = base ++ (app ++ terminator f (concat temp))
                   /\ app ++ terminator f (concat temp) = terminator f base).
    { destruct HJ as [->|(Hb & Ha & _)].
      - rewrite app_nil_r in Hc. rewrite Hc in *. split; [assumption|]. split; [apply add_term_app|reflexivity].
      - split; [assumption|]. rewrite Hc, Ha. rewrite add_term_app.
        rewrite (term_idem f base eq_refl Hb). rewrite !app_nil_r. split; reflexivity. }
    destruct Hkey as (Hb & Hch & Happ).
    destruct (complete f [add_term f (concat temp)]) as [| |j] eqn:Ecomp; [discriminate| |].
    + apply (IH pos [add_term f (concat temp)] true (app ++ terminator f (concat temp)) base l).
      * cbn [concat]. rewrite app_nil_r. exact Hch.
      * constructor; [apply add_term_nonempty; exact Hpn|constructor].
      * rewrite HX, app_nil_r. reflexivity.
      * right. repeat split; assumption.
      * exact Hrun.
    + injection Hrun as <-. destruct (complete_format n hdr plus _ j Ecomp) as (c & Hc1 & Hc2).
      injection Hc1 as <-. exists (add_term f (concat temp)), j, [].
      split; [reflexivity|]. split; [exact Hc2|]. split; [|exact Hb].
      rewrite app_nil_r, Hch, Happ. reflexivity.
  - assert (Happ : app = []).
    { destruct HJ as [H|(_ & _ & H)]; [exact H|]. rewrite H in Eraw. rewrite firstn_nil in Eraw. discriminate. }
    subst app. rewrite app_nil_r in Hc.
    set (raw := x :: r) in *.
    assert (Hrn : raw <> []) by discriminate.
    assert (Hraw : firstn (length raw) (skipn pos file) = raw) by (rewrite <- Eraw; apply firstn_len_firstn).
    set (fin := (length raw <? k)) in *.
    assert (Hfin : fin = true -> skipn (pos + length raw) file = []).
    { intros Hf. unfold fin in Hf. apply Nat.ltb_lt in Hf. rewrite skipn_add. rewrite <- Eraw in *. apply short_read_exhausts. exact Hf. }
    set (chunk := if fin then add_term f raw else raw) in *.
    set (app' := if fin then [] ++ terminator f raw else []) in *.
    assert (Hchunk : chunk = raw ++ app').
    { unfold chunk, app'. destruct fin; [rewrite add_term_app; reflexivity|rewrite app_nil_r; reflexivity]. }
    assert (Hc' : concat (temp ++ [chunk]) = (base ++ raw) ++ app').
    { rewrite concat_app. cbn [concat]. rewrite app_nil_r, Hc, Hchunk, app_assoc. reflexivity. }
    assert (Hbr : base ++ raw <> []) by (destruct base; [exact Hrn|discriminate]).
    assert (Happ' : fin = true -> app' = terminator f (base ++ raw)).
    { intros Hf. unfold app'. rewrite Hf. cbn [List.app]. symmetry. apply terminator_last. exact Hrn. }
    assert (HR' : (base ++ raw) ++ skipn (pos + length raw) file = R).
    { rewrite <- HR, <- app_assoc. f_equal. rewrite skipn_add. rewrite <- Hraw at 1. apply firstn_skipn. }
    destruct (complete f (temp ++ [chunk])) as [| |j] eqn:Ecomp; [discriminate| |].
    + apply (IH (pos + length raw) (temp ++ [chunk]) re app' (base ++ raw) l Hc').
      * apply Forall_app. split; [assumption|]. constructor; [|constructor].
        rewrite Hchunk. destruct raw; [congruence|discriminate].
      * exact HR'.
      * destruct fin eqn:Ef; [right; repeat split; [exact Hbr|apply Happ'; reflexivity|apply Hfin; reflexivity]|left; reflexivity].
      * exact Hrun.
    + injection Hrun as <-. destruct (complete_format n hdr plus _ j Ecomp) as (c & Hc1 & Hc2).
      assert (Ht : temp = []) by (destruct temp as [|? [|? ?]]; [reflexivity|discriminate|discriminate]).
      subst temp. cbn [List.app] in Hc1. injection Hc1 as <-.
      cbn [concat] in Hc. subst base. cbn [List.app] in *.
      assert (HRn : R <> []) by (rewrite <- HR'; destruct raw; [congruence|discriminate]).
      destruct fin eqn:Ef.
      * exists chunk, j, []. split; [reflexivity|]. split; [exact Hc2|]. split; [|exact HRn].
        rewrite (Hfin eq_refl), app_nil_r in HR'. rewrite app_nil_r, Hchunk, (Happ' eq_refl), HR'. reflexivity.
      * exists chunk, j, (skipn (pos + length raw) file ++ terminator f R).
        split; [reflexivity|]. split; [exact Hc2|]. split; [|exact HRn].
        rewrite Hchunk. unfold app'. rewrite app_nil_r, app_assoc, HR'. reflexivity.
Qed.

Lemma norm_split (D : list (list Z)) R : R <> [] -> norm_text (concat D ++ R) = concat D ++ R ++ terminator f R.
Proof.
  intros HR. assert (Hne : concat D ++ R <> []) by (destruct (concat D); [exact HR|discriminate]).
  rewrite (norm_text_term_gen f eq_refl _ Hne). rewrite (terminator_last f (concat D) R HR).
  rewrite <- app_assoc. reflexivity.
Qed.

Lemma cut_nil_not_format j : cut f [] <> CutFormat j.
Proof.
  unfold f. rewrite cut_unfold. change (count_nl []) with 0.
  replace (0 <? n) with true by (symmetry; apply Nat.ltb_lt; lia). discriminate.
Qed.

(* a buffer the reader counts as delivered: nothing, or the accepted prefix of some chunk *)
Definition okbuf (b : list Z) : Prop :=
  b = [] \/ exists c size nl, cut f c = CutOk size nl /\ b = firstn size c.

(* a format error raised by one read_chunk call: a buffer was rejected, or (end of file, repaired code) what
   follows the last complete record is not ignorable - an entry cut short, reported at the line after the buffer *)
Lemma read_chunk_format m k file st D l : 1 <= k -> Inv m file st D ->
  read_chunk true f m k file st = RFormat l ->
  (exists c j tail, l = j + r_lines st /\ cut f c = CutFormat j /\ concat D ++ c ++ tail = norm_text file)
  \/ (exists b tail, l = r_lines st + count_nl b /\ okbuf b /\ concat D ++ b ++ tail = norm_text file
                     /\ leftover_ok f tail = false /\ count_nl tail < n).
Proof.
  intros Hk HI Hrun. pose proof HI as [HI1 _].
  unfold read_chunk in Hrun. unfold m_incomplete_line, m_pending_incomplete_line in Hrun.
  set (temp0 := match r_prepend st with [] => [] | p => [p] end) in *.
  assert (Ht0 : concat temp0 = r_prepend st ++ []).
  { unfold temp0. destruct (r_prepend st); [reflexivity|]. cbn [concat]. reflexivity. }
  assert (Hne0 : Forall (fun c => c <> []) temp0).
  { unfold temp0. destruct (r_prepend st); [constructor|]. constructor; [discriminate|constructor]. }
  set (R := r_prepend st ++ skipn (r_pos st) file) in *.
  assert (Hnt : R <> [] -> norm_text file = concat D ++ R ++ terminator f R).
  { intros HRn. rewrite <- (norm_split D R HRn). f_equal. symmetry. exact HI1. }
  pose proof (accumulate_spec true f k file (r_lines st) Hk (length file + 2) (r_pos st) temp0 false [] (r_prepend st) Ht0 (or_introl eq_refl)) as HA.
  pose proof (accumulate_term f k file (r_lines st) eq_refl Hk (length file + 2) (r_pos st) temp0 false [] (r_prepend st) Ht0 Hne0 (or_introl eq_refl) ltac:(discriminate)) as HT.
  pose proof (accumulate_fmt k file (r_lines st) R Hk (length file + 2) (r_pos st) temp0 false [] (r_prepend st)) as HF.
  destruct (accumulate true (length file + 2) f k file (r_lines st) (r_pos st) temp0 false []) as [temp pos' fin app|pending app|l'|];
    cbn [acc_post term_post] in *; try discriminate.
  - destruct HA as (Hle & Hle2 & Hcc & Hf1 & Hf2).
    assert (HsX : skipn pos' file = skipn (pos' - r_pos st) (skipn (r_pos st) file)).
    { rewrite skipn_skipn'. f_equal. lia. }
    destruct (cut f (concat temp)) as [size nl| | |j] eqn:Ecut; try discriminate.
    + (* the buffer was accepted: the error is the end-of-file check *)
      destruct fin; cbn [andb] in Hrun; [|discriminate].
      destruct (leftover_ok f (skipn size (concat temp))) eqn:Eleft; cbn [negb] in Hrun; [discriminate|].
      injection Hrun as <-. right.
      destruct (HT eq_refl) as [HS Happ]. cbv zeta in HS, Happ.
      assert (HSR : r_prepend st ++ firstn (pos' - r_pos st) (skipn (r_pos st) file) = R).
      { unfold R. f_equal. apply firstn_covers. rewrite <- HsX. apply Hf2. reflexivity. }
      rewrite HSR in *.
      assert (Hnorm : norm_text file = concat D ++ concat temp).
      { rewrite (Hnt HS). rewrite Hcc, Happ. rewrite (app_assoc (r_prepend st)), HSR. reflexivity. }
      destruct (cut_oneline_shape n hdr plus (concat temp) size nl Hn Ecut) as (Hc & Hnl & Hsz).
      cbv zeta in Hc, Hnl.
      assert (Hm : 1 <= nl <= count_nl (concat temp)).
      { pose proof (Nat.mod_upper_bound (count_nl (concat temp)) n ltac:(lia)). lia. }
      destruct (kth_newline (concat temp) nl Hm) as (_ & Hcnt & _). cbv zeta in Hcnt. rewrite <- Hsz in Hcnt.
      exists (firstn size (concat temp)), (skipn size (concat temp)).
      split; [rewrite Hcnt; reflexivity|].
      split; [right; exists (concat temp), size, nl; split; [exact Ecut|reflexivity]|].
      split; [rewrite Hnorm, (firstn_skipn size); reflexivity|].
      split; [exact Eleft|exact (ol_cutT n hdr plus Hn (concat temp) size nl Ecut)].
    + (* the buffer was rejected *)
      injection Hrun as <-. left.
      assert (Hcn : concat temp <> []) by (intros E; rewrite E in Ecut; exact (cut_nil_not_format j Ecut)).
      destruct fin.
      * destruct (HT eq_refl) as [HS Happ]. cbv zeta in HS, Happ.
        assert (HSR : r_prepend st ++ firstn (pos' - r_pos st) (skipn (r_pos st) file) = R).
        { unfold R. f_equal. apply firstn_covers. rewrite <- HsX. apply Hf2. reflexivity. }
        rewrite HSR in *.
        exists (concat temp), j, []. split; [reflexivity|]. split; [exact Ecut|].
        rewrite (Hnt HS).
        rewrite app_nil_r, Hcc, Happ. rewrite (app_assoc (r_prepend st)), HSR. reflexivity.
      * rewrite (Hf1 eq_refl), app_nil_r in Hcc.
        assert (HcR : concat temp ++ skipn pos' file = R).
        { rewrite Hcc, HsX. unfold R. rewrite <- app_assoc. f_equal. apply firstn_skipn. }
        assert (HRn : R <> []) by (rewrite <- HcR; destruct (concat temp); [congruence|discriminate]).
        exists (concat temp), j, (skipn pos' file ++ terminator f R).
        split; [reflexivity|]. split; [exact Ecut|].
        rewrite (Hnt HRn).
        rewrite (app_assoc (concat temp)), HcR. reflexivity.
  - (* nothing more to read: the pending text is not ignorable *)
    cbn [andb] in Hrun.
    destruct (leftover_ok f pending) eqn:Eleft; cbn [negb] in Hrun; [discriminate|].
    injection Hrun as <-. right.
    destruct HT as [[Hp _]|(S & HS & Ha & Hp & Hcn)]; [rewrite Hp in Eleft; discriminate Eleft|].
    destruct HA as (p' & Hle & Hpe & Hsk).
    assert (HSR : r_prepend st ++ firstn (p' - r_pos st) (skipn (r_pos st) file) = R).
    { unfold R. f_equal. apply firstn_covers. rewrite skipn_skipn'.
      replace (p' - r_pos st + r_pos st) with p' by lia. exact Hsk. }
    rewrite app_assoc, HSR in Hpe.
    assert (HSeq : S = R) by (rewrite Hp in Hpe; apply app_inv_tail in Hpe; exact Hpe).
    subst S.
    exists [], pending. change (count_nl []) with 0.
    split; [lia|]. split; [left; reflexivity|].
    split; [cbn [List.app]; rewrite (Hnt HS), Hp, Ha; reflexivity|].
    split; [exact Eleft|exact (ol_compT n hdr plus pending Hcn)].
  - injection Hrun as <-. left.
    destruct (HF l' Ht0 Hne0 eq_refl (or_introl eq_refl) eq_refl) as (c & j & tail & Hl & Hcut & Hct & HRn).
    exists c, j, tail. split; [exact Hl|]. split; [exact Hcut|].
    rewrite (Hnt HRn). rewrite Hct. reflexivity.
Qed.

(* a delivered buffer: the accepted prefix of a chunk - whole records, ends in a line break - and the running line
   count grows by its lines *)
Lemma read_chunk_cutok m k file st b d a st' :
  read_chunk true f m k file st = RChunk b d a st' ->
  (exists c size nl, cut f c = CutOk size nl /\ b = firstn size c)
  /\ whole n b /\ ends_nl b = true /\ r_lines st' = r_lines st + count_nl b.
Proof.
  intros Hrun. unfold read_chunk in Hrun.
  destruct (accumulate true (length file + 2) f k file (r_lines st) (r_pos st) _ false []) as [temp pos' fin app|pending app|l'|];
    try discriminate; [|destruct (true && negb (leftover_ok f pending)); discriminate].
  destruct (cut f (concat temp)) as [size nl| | |j] eqn:Ecut; try discriminate.
  destruct (true && fin && negb (leftover_ok f (skipn size (concat temp)))); [discriminate|].
  destruct (ol_cutG n hdr plus Hn (concat temp) size nl Ecut) as [Hw He].
  destruct (cut_oneline_shape n hdr plus (concat temp) size nl Hn Ecut) as (Hc & Hnl & Hsz).
  cbv zeta in Hc, Hnl.
  assert (Hm : 1 <= nl <= count_nl (concat temp)).
  { pose proof (Nat.mod_upper_bound (count_nl (concat temp)) n ltac:(lia)). lia. }
  destruct (kth_newline (concat temp) nl Hm) as (_ & Hcnt & _). cbv zeta in Hcnt. rewrite <- Hsz in Hcnt.
  assert (Hb : b = firstn size (concat temp)) by (injection Hrun as <- _ _ _; reflexivity).
  assert (Hl : r_lines st' = r_lines st + nl).
  { injection Hrun as _ _ _ <-. destruct fin; [reflexivity|]. destruct m; reflexivity. }
  split; [exists (concat temp), size, nl; split; [exact Ecut|exact Hb]|].
  rewrite Hb, Hcnt. repeat split; assumption.
Qed.
Lemma read_chunk_count m k file st b d a st' :
  read_chunk true f m k file st = RChunk b d a st' ->
  whole n b /\ ends_nl b = true /\ r_lines st' = r_lines st + count_nl b.
Proof. intros H. exact (proj2 (read_chunk_cutok m k file st b d a st' H)). Qed.

(* the run up to a format error, with an extra property P of accepted buffers carried along *)
Section Loop.
Variable P : list Z -> Prop.
Hypothesis HP : forall c size nl, cut f c = CutOk size nl -> P (firstn size c).
Let gd (c : list Z) : Prop := whole n c /\ P c.

Lemma loop_format_gen m k file : 1 <= k ->
  forall fuel st acc l chunks,
    r_finished st = false -> Inv m file st (rev acc) ->
    Forall gd (rev acc) -> Forall (fun c => ends_nl c = true) (rev acc) ->
    r_lines st = count_nl (concat (rev acc)) ->
    read_chunks_loop true fuel f m k file st acc = FormatError l chunks ->
    (exists (D : list (list Z)) c j tail,
      l = count_nl (concat D) + j /\ Forall gd D /\ Forall (fun c => ends_nl c = true) D
      /\ cut f c = CutFormat j /\ concat D ++ c ++ tail = norm_text file)
    \/ (exists (D : list (list Z)) tail,
      l = count_nl (concat D) /\ Forall gd D /\ Forall (fun c => ends_nl c = true) D
      /\ concat D ++ tail = norm_text file /\ leftover_ok f tail = false /\ count_nl tail < n).
Proof.
  intros Hk. induction fuel as [|fuel IH]; intros st acc l chunks Hnf HI HWa HE Hln Hrun; [discriminate|].
  cbn [read_chunks_loop] in Hrun. rewrite Hnf in Hrun.
  pose proof (read_chunk_spec true f m k file st (rev acc) Hk HI) as HS.
  pose proof (read_chunk_format m k file st (rev acc)) as HFm.
  pose proof (read_chunk_cutok m k file st) as HC.
  destruct (read_chunk true f m k file st) as [b d a st'|d a st'|l'| |]; try discriminate.
  - destruct (HC b d a st' eq_refl) as ((c & size & nl & Hcut & Hbc) & Hwb & Heb & Hlb).
    destruct (r_finished st') eqn:Ef; [discriminate|].
    destruct HS as [HS1 _]. destruct (HS1 eq_refl) as (HI' & _ & _).
    apply (IH st' (b :: acc) l chunks Ef); cbn [rev].
    + exact HI'.
    + apply Forall_app. split; [exact HWa|constructor; [split; [exact Hwb|rewrite Hbc; exact (HP c size nl Hcut)]|constructor]].
    + apply Forall_app. split; [exact HE|constructor; [exact Heb|constructor]].
    + rewrite concat_snoc, count_nl_app, <- Hln. exact Hlb.
    + exact Hrun.
  - injection Hrun as <- _.
    destruct (HFm l' Hk HI eq_refl) as [(c & j & tail & Hl & Hcut & Htxt)|(b & tail & Hl & Hok & Htxt & Hleft & Hcnt)].
    + left. exists (rev acc), c, j, tail. rewrite <- Hln. repeat split; try assumption. lia.
    + right. destruct Hok as [->|(c & size & nl & Hcut & ->)].
      * exists (rev acc), tail. change (count_nl []) with 0 in Hl. cbn [List.app] in Htxt.
        rewrite <- Hln. repeat split; try assumption. lia.
      * destruct (ol_cutG n hdr plus Hn c size nl Hcut) as [Hw He].
        exists (rev acc ++ [firstn size c]), tail.
        rewrite concat_snoc, count_nl_app, <- Hln.
        split; [exact Hl|].
        split; [apply Forall_app; split; [exact HWa|constructor; [split; [exact Hw|exact (HP c size nl Hcut)]|constructor]]|].
        split; [apply Forall_app; split; [exact HE|constructor; [exact He|constructor]]|].
        split; [rewrite <- app_assoc; exact Htxt|]. split; assumption.
Qed.
End Loop.

Lemma loop_format m k file : 1 <= k ->
  forall fuel st acc l chunks,
    r_finished st = false -> Inv m file st (rev acc) ->
    Forall (whole n) (rev acc) -> Forall (fun c => ends_nl c = true) (rev acc) ->
    r_lines st = count_nl (concat (rev acc)) ->
    read_chunks_loop true fuel f m k file st acc = FormatError l chunks ->
    (exists (D : list (list Z)) c j tail,
      l = count_nl (concat D) + j /\ Forall (whole n) D /\ Forall (fun c => ends_nl c = true) D
      /\ cut f c = CutFormat j /\ concat D ++ c ++ tail = norm_text file)
    \/ (exists (D : list (list Z)) tail,
      l = count_nl (concat D) /\ Forall (whole n) D /\ Forall (fun c => ends_nl c = true) D
      /\ concat D ++ tail = norm_text file /\ leftover_ok f tail = false /\ count_nl tail < n).
Proof.
  intros Hk fuel st acc l chunks Hnf HI HWa HE Hln Hrun.
  assert (Himp : forall D, Forall (fun c => whole n c /\ True) D -> Forall (whole n) D).
  { intros D. apply Forall_impl. intros c Hc. exact (proj1 Hc). }
  assert (HWa' : Forall (fun c => whole n c /\ True) (rev acc)).
  { revert HWa. apply Forall_impl. intros c Hc. split; [exact Hc|exact I]. }
  destruct (loop_format_gen (fun _ => True) (fun _ _ _ _ => I) m k file Hk fuel st acc l chunks Hnf HI HWa' HE Hln Hrun)
    as [(D & c & j & tail & H1 & H2 & H3)|(D & tail & H1 & H2 & H3)].
  - left. exists D, c, j, tail. split; [exact H1|]. split; [exact (Himp D H2)|exact H3].
  - right. exists D, tail. split; [exact H1|]. split; [exact (Himp D H2)|exact H3].
Qed.
End Reader.

(* ---------- the reported line ---------- *)
(* line i of the text exists and offends: a record's first line that does not start with the marker,
   or (FASTQ) a record's third line that does not start with '+' *)
Definition line_is_bad (n : nat) (hdr : Z) (plus : bool) (text : list Z) (i : nat) : Prop :=
  i < length (lines text) /\ line_bad n hdr plus i (nth i (lines text) []) = true.

(* every chunk size, both reader modes: the line the reader reports is a line of the text that offends, or the
   first line of a final record that was cut short *)
Theorem oneline_reported_line_offends : forall n hdr plus m k file l chunks,
  1 <= n -> (plus = true -> 3 <= n) -> hdr <> 0%Z -> 1 <= k ->
  read_chunks true (OneLine n hdr plus) m k file = FormatError l chunks ->
  line_is_bad n hdr plus (norm_text file) l \/ incomplete_at n hdr plus (norm_text file) l.
Proof.
  intros n hdr plus m k file l chunks Hn Hp Hh Hk Hrun. unfold read_chunks in Hrun.
  destruct (loop_format n hdr plus Hn m k file Hk (length file + 2) rinit [] l chunks eq_refl)
    as [(D & c & j & tail & Hl & HWD & HED & Hcut & Htxt)|(D & tail & Hl & HWD & HED & Htxt & Hleft & Hcnt)];
    [split; reflexivity|constructor|constructor|reflexivity|exact Hrun| |].
  - left.
    destruct (cut_format_bad n hdr plus Hn Hp c j Hh Hcut) as (size & He & Hj & Hbad).
    set (data := firstn size c) in *.
    assert (Htxt' : norm_text file = concat D ++ data ++ (skipn size c ++ tail)).
    { rewrite <- Htxt. rewrite (app_assoc data). unfold data. rewrite firstn_skipn. reflexivity. }
    assert (HD : concat D = [] \/ ends_nl (concat D) = true).
    { destruct (concat_ends D HED) as [->|H]; [left; reflexivity|right; exact H]. }
    assert (Hlines : lines (norm_text file) = lines (concat D) ++ lines data ++ lines (skipn size c ++ tail)).
    { rewrite Htxt'. rewrite lines_app' by exact HD. rewrite lines_app by exact He. reflexivity. }
    assert (HlD : length (lines (concat D)) = count_nl (concat D)) by (apply lines_length; exact HD).
    assert (Hld : length (lines data) = count_nl data) by (apply lines_length; right; exact He).
    unfold line_is_bad. rewrite Hlines. subst l. split.
    + rewrite !app_length. lia.
    + rewrite app_nth2 by lia. rewrite HlD.
      replace (count_nl (concat D) + j - count_nl (concat D)) with j by lia.
      rewrite app_nth1 by lia.
      rewrite (line_bad_shift n hdr plus Hn) by (apply whole_concat; assumption). exact Hbad.
  - right. subst l. rewrite <- Htxt.
    apply (split_incomplete n hdr plus Hn (concat D) tail).
    + destruct (concat_ends D HED) as [->|H]; [left; reflexivity|right; exact H].
    + apply whole_concat; assumption.
    + apply (app_tail_ends (concat D)). rewrite Htxt. apply norm_text_ends.
    + exact Hcnt.
    + exact Hleft.
Qed.

(* for a text of whole records (the statement before the end-of-file check existed) the reported line offends *)
Corollary oneline_reported_line_offends_whole : forall n hdr plus m k file l chunks,
  1 <= n -> (plus = true -> 3 <= n) -> hdr <> 0%Z -> 1 <= k -> whole n (norm_text file) ->
  read_chunks true (OneLine n hdr plus) m k file = FormatError l chunks ->
  line_is_bad n hdr plus (norm_text file) l.
Proof.
  intros n hdr plus m k file l chunks Hn Hp Hh Hk Hw Hrun.
  destruct (oneline_reported_line_offends n hdr plus m k file l chunks Hn Hp Hh Hk Hrun) as [H|H]; [exact H|].
  exfalso. exact (whole_not_incomplete n hdr plus Hn (norm_text file) l (norm_text_ends file) Hw H).
Qed.

(* with a single offending line in a text of whole records, the reported line is the specified one *)
Theorem oneline_line_exact : forall n hdr plus m k file l chunks,
  1 <= n -> (plus = true -> 3 <= n) -> hdr <> 0%Z -> 1 <= k ->
  whole n (norm_text file) ->
  (forall i j, line_is_bad n hdr plus (norm_text file) i -> line_is_bad n hdr plus (norm_text file) j -> i = j) ->
  read_chunks true (OneLine n hdr plus) m k file = FormatError l chunks ->
  spec_oneline (OneLine n hdr plus) (norm_text file) = Some l.
Proof.
  intros n hdr plus m k file l chunks Hn Hp Hh Hk Hw Huniq Hrun.
  pose proof (oneline_reported_line_offends_whole n hdr plus m k file l chunks Hn Hp Hh Hk Hw Hrun) as Hbad.
  rewrite (spec_whole n hdr plus Hn (norm_text file) (norm_text_ends file) Hw).
  destruct (first_bad_line n hdr plus 0 (lines (norm_text file))) as [l'|] eqn:E.
  - destruct (fbl_some n hdr plus Hn _ 0 l' E) as (_ & H1 & H2). rewrite Nat.sub_0_r in H1, H2.
    f_equal. apply Huniq; [split; assumption|exact Hbad].
  - destruct Hbad as [Hl1 Hl2].
    pose proof (proj1 (fbl_none n hdr plus Hn _ 0) E l Hl1) as H. cbn [Nat.add] in H. congruence.
Qed.

(* the same two facts, phrased for the outcome type of Model/C15.v *)
Corollary model_oneline_no_error : forall n hdr plus m k file,
  1 <= n -> (plus = true -> 3 <= n) -> hdr <> 10%Z -> 1 <= k ->
  model_oneline (OneLine n hdr plus) m k file = NoError ->
  spec_oneline (OneLine n hdr plus) (norm_text file) = None.
Proof.
  intros n hdr plus m k file Hn Hp Hh Hk H. unfold model_oneline in H.
  destruct (read_chunks true (OneLine n hdr plus) m k file) as [chunks d a lns| | |] eqn:E; try discriminate.
  exact (oneline_never_a_table_strong n hdr plus m k file chunks d a lns Hn Hp Hh Hk E).
Qed.
Corollary model_oneline_format_at : forall n hdr plus m k file l,
  1 <= n -> (plus = true -> 3 <= n) -> hdr <> 0%Z -> 1 <= k -> whole n (norm_text file) ->
  (forall i j, line_is_bad n hdr plus (norm_text file) i -> line_is_bad n hdr plus (norm_text file) j -> i = j) ->
  model_oneline (OneLine n hdr plus) m k file = FormatAt l ->
  spec_oneline (OneLine n hdr plus) (norm_text file) = Some l.
Proof.
  intros n hdr plus m k file l Hn Hp Hh Hk Hw Hu H. unfold model_oneline in H.
  destruct (read_chunks true (OneLine n hdr plus) m k file) as [|l' chunks| |] eqn:E; try discriminate.
  injection H as <-.
  exact (oneline_line_exact n hdr plus m k file l' chunks Hn Hp Hh Hk Hw Hu E).
Qed.

(* ---------- the hypotheses are satisfiable; the added ones are needed ---------- *)
(* three FASTQ records "@a/AC/+/II", "@b/AC/+/II", "Xc/AC/+/II": the third record (line 8) lacks the marker *)
Definition fq_example : list Z :=
  [64;97;10;65;67;10;43;10;73;73;10; 64;98;10;65;67;10;43;10;73;73;10; 88;99;10;65;67;10;43;10;73;73;10]%Z.

Example oneline_example :
  whole 4 (norm_text fq_example)
  /\ (forall i j, line_is_bad 4 64 true (norm_text fq_example) i -> line_is_bad 4 64 true (norm_text fq_example) j -> i = j)
  /\ read_chunks true FastQ Seek 16 fq_example
     = FormatError 8 [[64;97;10;65;67;10;43;10;73;73;10]; [64;98;10;65;67;10;43;10;73;73;10]]%Z
  /\ read_chunks true FastQ Prepend 5 fq_example
     = FormatError 8 [[64;97;10;65;67;10;43;10;73;73;10]; [64;98;10;65;67;10;43;10;73;73;10]]%Z
  /\ spec_oneline FastQ (norm_text fq_example) = Some 8.
Proof.
  split; [vm_compute; reflexivity|]. split; [|repeat split; vm_compute; reflexivity].
  assert (Hlen : length (lines (norm_text fq_example)) = 12) by (vm_compute; reflexivity).
  assert (H8 : forall i, line_is_bad 4 64 true (norm_text fq_example) i -> i = 8).
  { intros i [H1 H2]. rewrite Hlen in H1.
    do 12 (destruct i as [|i]; [vm_compute in H2; try discriminate H2; try reflexivity|]). lia. }
  intros i j Hi Hj. rewrite (H8 i Hi), (H8 j Hj). reflexivity.
Qed.

(* why hdr <> 10 is needed for oneline_never_a_table: with the line break as "marker" an empty first line
   passes the reader's byte test, while the specification sees an empty line without marker *)
Example marker_10_counterexample :
  read_chunks true (OneLine 1 10 false) Seek 5 [10%Z] = Done [[10%Z]] [] [] 1
  /\ spec_oneline (OneLine 1 10 false) (norm_text [10%Z]) = Some 0.
Proof. split; vm_compute; reflexivity. Qed.
(* why hdr <> 0 is needed for oneline_line_exact: the reader rejects an empty first line (its byte is 10),
   while the specification reads the missing byte as 0 = marker *)
Example marker_0_counterexample :
  read_chunks true (OneLine 1 0 false) Seek 5 [10%Z] = FormatError 0 []
  /\ spec_oneline (OneLine 1 0 false) (norm_text [10%Z]) = None.
Proof. split; vm_compute; reflexivity. Qed.
(* with several offending lines: since the repair of FastQBuffer._validate (a '+' violation that precedes the
   first marker violation is raised first) large and small buffers report the same, first, offending line —
   Proofs/C15_first.v proves this for every text; the order before the repair reported line 4 for the large
   buffer (C15_first.pinned_order_refuted) *)
Example two_violations_example :
  let file := [64;97;10;65;67;10;45;10;73;73;10; 88;98;10;65;67;10;43;10;73;73;10]%Z in
  read_chunks true FastQ Seek 100 file = FormatError 2 []
  /\ read_chunks true FastQ Seek 12 file = FormatError 2 []
  /\ spec_oneline FastQ (norm_text file) = Some 2.
Proof. repeat split; vm_compute; reflexivity. Qed.
